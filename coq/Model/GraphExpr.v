(* Model/GraphExpr.v — a concrete formula language for Model/Graph.v, used by
   the differential runs: the value of a formula node is computed with the
   operator model of C10 (Model/Ops.v fixup) and the GENERATED aggregates of
   C14 (Gen/aggregates.v, Gen/stats.v), followed by the two conversions the
   evaluator applies to every formula result:
     eval_func:  ret_val if ret_val not in (None, EMPTY) else 0
     _evaluate:  cell.value = value[0][0] if value is a tuple of tuples *)
From Coq Require Import List Arith Bool ZArith.
From PV Require Import Lib.Py Model.Ops Model.Graph.
From PV Require Gen.excelutil Gen.aggregates Gen.stats.
Import ListNotations.

Inductive operand := ORef (i : nat) | OLit (z : Z) | OText (s : list Z).

Inductive formula :=
| FNone                                   (* input cell *)
| FRange (cols : nat)                     (* range node: members row-major, [cols] per row *)
| FRef (a : operand)                      (* =A1  /  =A1:A2 *)
| FBin (o : op) (a b : operand)           (* =A1 + B1, =A1 & "x", =A1 < 3, … *)
| FNeg (a : operand)                      (* =-A1 *)
| FAgg (which : nat) (a : operand)        (* 0 SUM 1 MIN 2 MAX 3 COUNT 4 AVERAGE of a range *)
| FAlias                                  (* the reference cell of an unbounded range (S!B:B, formula
                                             =_REF_("S!B1:B4")): a node of range kind whose single
                                             precedent is the bounded range node it stands for;
                                             _evaluate_range: data = self._evaluate_range(bounded_addr) *)
| FAggBin (which : nat) (a : operand) (o : op) (b : operand).   (* =MAX(B:B)+A3 *)

Definition operand_val (vals : list pyval) (a : operand) : pyval :=
  match a with
  | ORef i => nth i vals VNone
  | OLit z => VInt z
  | OText s => VStr s
  end.

Fixpoint chunk (fuel cols : nat) (l : list pyval) : list pyval :=
  match fuel with
  | O => []
  | S f => match l with
           | [] => []
           | _ => VTuple (firstn cols l) :: chunk f cols (skipn cols l)
           end
  end.

Definition raised : pyval := VStr [35; 77; 79; 68; 69; 76; 45; 82; 65; 73; 83; 69].  (* "#MODEL-RAISE" *)
Definition unres (r : res pyval) : pyval := match r with Ok v => v | Raise _ => raised end.

(* the two conversions applied to a formula's result *)
Definition finish (v : pyval) : pyval :=
  let v1 := if Ops.is_blank v then VInt 0 else v in
  match v1 with
  | VTuple (VTuple (x :: _) :: _) => x
  | VTuple (x :: _) => x
  | _ => v1
  end.

Definition agg (w : nat) (arg : pyval) : res pyval :=
  match w with
  | 0%nat => aggregates.f_sum_ arg
  | 1%nat => stats.f_min_ arg
  | 2%nat => stats.f_max_ arg
  | 3%nat => stats.f_count arg
  | _ => stats.f_average arg
  end.

Definition sem_formula (fm : formula) (vals : list pyval) : pyval :=
  match fm with
  | FNone => VNone
  | FRange cols => VTuple (chunk (S (length vals)) (Nat.max 1 cols) vals)
  | FRef a => finish (operand_val vals a)
  | FBin o a b => finish (unres (fixup (operand_val vals a) o (operand_val vals b)))
  | FNeg a => finish (unres (fixup excelutil.c_EMPTY USub (operand_val vals a)))
  | FAgg w a =>
      let arg := VTuple [operand_val vals a] in
      finish (unres (match w with
                     | 0%nat => aggregates.f_sum_ arg
                     | 1%nat => stats.f_min_ arg
                     | 2%nat => stats.f_max_ arg
                     | 3%nat => stats.f_count arg
                     | _ => stats.f_average arg
                     end))
  | FAlias => nth 0 vals VNone
  | FAggBin w a o b =>
      match agg w (VTuple [operand_val vals a]) with
      | Ok x => finish (unres (fixup x o (operand_val vals b)))
      | Raise _ => raised
      end
  end.
