(* Model/ReadTrace.v — C04, graph half: the dependency relation of a workbook
   of Model/Graph.v, and copies of the machine's evaluation functions
   instrumented with a READ TRACE.

   * [edge W p d]: p is a declared precedent of the formula cell d, or a
     member cell of the range node d (= ExcelCompiler adds the dep_graph edge
     p -> d in _process_gen_graph: one edge per needed_address of a formula
     cell, one edge per cell of a _CellRange);
   * [ancestor W a c]: the reflexive-transitive closure of [edge] — it contains
     the membership paths  cell -> range node -> dependant;
   * [eval_traced] is Graph.eval, character for character, with a third
     component: the list of (reader, read) pairs — the pair (n, d) is appended
     each time the computation of node n asks for the value of node d (the
     call  _C_(d) / _R_(d)  made by the compiled formula of n, or the call
     self._evaluate(d)  made by _evaluate_range for a member of the range n),
     whether or not d is already cached;
   * [build_traced], [evaluate_traced], [step_traced], [run_traced]: the same
     for _gen_graph (which evaluates the fresh range nodes), evaluate and whole
     histories.
   Proofs/C04Trace.v proves that the instrumented functions return the same
   state and value as the originals and that every pair of a trace is an edge.

   * [esem]: a formula meaning that receives an ENVIRONMENT (it may look at the
     value of any node); [reads_declared]: it looks only at its declared
     precedents; [sem_of]: the meaning in the form Graph.v uses (a function of
     the list of the precedents' values); [espec]: the from-scratch value
     computed with an environment meaning. *)
From Coq Require Import List Arith Bool Relations.
From PV Require Import Lib.Py Model.Graph.
Import ListNotations.

Definition edge (W : workbook) (p d : nat) : Prop := In p (wb_deps W d).
Definition ancestor (W : workbook) : nat -> nat -> Prop := clos_refl_trans nat (edge W).

Definition rtrace := list (nat * nat).          (* (reader, read), oldest first *)

Section Traced.
  Variable W : workbook.
  Variable sem : nat -> list pyval -> pyval.

  Fixpoint eval_traced (f : nat) (c : cache) (n : nat) {struct f} : cache * pyval * rtrace :=
    match f with
    | O => (c, VNone, [])
    | S f' =>
        if wb_input W n then (c, c n, [])
        else if is_none (c n) then
          let '(c', vals, tr) :=
            fold_left (fun (acc : cache * list pyval * rtrace) d =>
                         let '(c1, vs, t) := acc in
                         let '(c2, v, t2) := eval_traced f' c1 d in
                         (c2, vs ++ [v], t ++ (n, d) :: t2))
                      (wb_deps W n) (c, [], []) in
          let v := sem n vals in
          (upd c' n v, v, tr)
        else (c, c n, [])
    end.

  Definition build_traced (s : state) (n : nat) : state * rtrace :=
    let b' := closure W (S (wb_n W)) (st_built s) n in
    let fresh m := b' m && negb (st_built s m) in
    let c1 : cache := fun m =>
      if fresh m && negb (wb_input W m)
      then (if wb_range W m then VNone else wb_stored W m)
      else st_cache s m in
    let '(c2, tr) :=
      fold_left (fun (acc : cache * rtrace) m =>
                   let '(c, t) := acc in
                   if fresh m && wb_range W m
                   then let '(c', _, t') := eval_traced (S (wb_n W)) c m in (c', t ++ t')
                   else (c, t))
                (seq 0 (wb_n W)) (c1, []) in
    ({| st_cache := c2; st_built := b' |}, tr).

  Definition evaluate_traced (s : state) (n : nat) : state * pyval * rtrace :=
    let '(s1, t1) := build_traced s n in
    let '(c, v, t2) := eval_traced (S (wb_n W)) (st_cache s1) n in
    ({| st_cache := c; st_built := st_built s1 |}, v, t1 ++ t2).

  Definition step_traced (s : state) (o : gop) : state * pyval * rtrace :=
    match o with
    | Evaluate n => evaluate_traced s n
    | SetValue a v => (set_value W s a v, VNone, [])
    | Build n => let '(s1, t) := build_traced s n in (s1, VNone, t)
    end.

  (* the values returned and the read trace of each operation, oldest first *)
  Fixpoint run_traced (s : state) (h : list gop) : state * list (pyval * rtrace) :=
    match h with
    | [] => (s, [])
    | o :: h' => let '(s1, v, t) := step_traced s o in
                 let '(s2, r) := run_traced s1 h' in (s2, (v, t) :: r)
    end.
End Traced.

(* ---------------------------------------------- environment-typed meanings *)
Definition esem_t := nat -> (nat -> pyval) -> pyval.

(* the formula of node n looks only at its declared precedents *)
Definition reads_declared (W : workbook) (esem : esem_t) : Prop :=
  forall n env1 env2, (forall p, In p (wb_deps W n) -> env1 p = env2 p) -> esem n env1 = esem n env2.

(* the environment that knows exactly the values handed over for the declared
   precedents (first occurrence), blank elsewhere *)
Fixpoint env_of (deps : list nat) (vals : list pyval) (p : nat) : pyval :=
  match deps, vals with
  | d :: deps', v :: vals' => if Nat.eqb p d then v else env_of deps' vals' p
  | _, _ => VNone
  end.

Definition sem_of (W : workbook) (esem : esem_t) (n : nat) (vals : list pyval) : pyval :=
  esem n (env_of (wb_deps W n) vals).

(* every meaning of Graph.v's type is an environment meaning that looks only at
   the declared precedents: Graph.v's typing of [sem] IS [reads_declared] *)
Definition esem_of (W : workbook) (sem : nat -> list pyval -> pyval) : esem_t :=
  fun n env => sem n (map env (wb_deps W n)).

Fixpoint espec_fuel (W : workbook) (esem : esem_t) (f : nat) (inp : nat -> pyval) (n : nat) : pyval :=
  match f with
  | O => VNone
  | S f' => if wb_input W n then inp n else esem n (espec_fuel W esem f' inp)
  end.
Definition espec (W : workbook) (esem : esem_t) (inp : nat -> pyval) (n : nat) : pyval :=
  espec_fuel W esem (S n) inp n.
