(* Model/C05List.v — ExcelCompiler.evaluate on a list / tuple / generator of
   addresses (non-iterative mode), transcribed from
   /repo/src/pycel/excelcompiler.py _evaluate_non_iterative (lines 868-883):

       if str(address) not in self.cell_map:
           if list_like(address):
               if not isinstance(address, (tuple, list)):
                   address = tuple(address)
               return type(address)(
                   self._evaluate_non_iterative(c) for c in address)

   i.e. the members are evaluated one after the other, left to right, each
   with its own _gen_graph (there is NO "build them all first" pass on this
   path: that exists only in _gen_graph for an iterable seed, which evaluate
   does not use), and the results are collected in member order.  On the
   machine of Model/Graph.v: a left-to-right fold of [evaluate]. *)
From Coq Require Import List.
From PV Require Import Lib.Py Model.Graph.
Import ListNotations.

Fixpoint evaluate_list (W : workbook) (sem : nat -> list pyval -> pyval)
                       (s : state) (l : list nat) : state * list pyval :=
  match l with
  | [] => (s, [])
  | a :: l' => let '(s1, v) := evaluate W sem s a in
               let '(s2, vs) := evaluate_list W sem s1 l' in (s2, v :: vs)
  end.
