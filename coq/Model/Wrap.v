(* Model/Wrap.v — what pycel.lib.function_helpers.apply_meta puts around a
   function decorated with @excel_helper(str_params=S, number_params=N,
   err_str_params=-1), on scalar arguments — outermost first:
     strs_wrapper  (coerce_to_string on S; the first error code among S wins),
     nums_wrapper  (coerce_to_number(convert_all=True) on N; the first error
                    code among N; then #VALUE! when one of N is not a number),
     error_string_wrapper (all parameters).
   cse_array_wrapper / refs_wrapper are the identity on scalars; tuple/list
   arguments are outside this model (Unmodelled; see Model/Arrays.v).
   Hand-written; tied to the code by the correspondence runs of every check
   that calls the real functions through apply_meta. *)
From Coq Require Import ZArith List Bool.
From PV Require Import Lib.Py.
From PV Require Gen.excelutil.
Import ListNotations.
Open Scope Z_scope.

Definition in_idx (i : nat) (ps : list nat) : bool := existsb (Nat.eqb i) ps.

Fixpoint map_idx (f : nat -> pyval -> res pyval) (i : nat) (l : list pyval)
  : res (list pyval) :=
  match l with
  | [] => Ok []
  | a :: l' => b <- f i a ;; r <- map_idx f (S i) l' ;; Ok (b :: r)
  end.

Fixpoint first_code (ps : list nat) (i : nat) (l : list pyval) : res (option pyval) :=
  match l with
  | [] => Ok None
  | a :: l' =>
      if in_idx i ps then
        (c <- py_in a excelutil.c_ERROR_CODES ;;
         if c then Ok (Some a) else first_code ps (S i) l')
      else first_code ps (S i) l'
  end.

Fixpoint any_not_number (ps : list nat) (i : nat) (l : list pyval) : res bool :=
  match l with
  | [] => Ok false
  | a :: l' =>
      if in_idx i ps then
        (c <- cond_of (excelutil.f_is_number a) ;;
         if c then any_not_number ps (S i) l' else Ok true)
      else any_not_number ps (S i) l'
  end.

Fixpoint first_err_string (l : list pyval) : res (option pyval) :=
  match l with
  | [] => Ok None
  | a :: l' =>
      match a with
      | VStr _ => c <- py_in a excelutil.c_ERROR_CODES ;;
                  if c then Ok (Some a) else first_err_string l'
      | _ => first_err_string l'
      end
  end.

Definition is_scalar (v : pyval) : bool :=
  match v with
  | VNone | VBool _ | VInt _ | VFloat _ | VStr _ => true
  | _ => false
  end.

Definition wrap (S N : list nat) (f : list pyval -> res pyval) (args : list pyval)
  : res pyval :=
  if negb (forallb is_scalar args) then Raise Unmodelled else
  a1 <- map_idx (fun i a => if in_idx i S then excelutil.f_coerce_to_string a else Ok a) 0 args ;;
  e1 <- first_code S 0 a1 ;;
  match e1 with
  | Some e => Ok e
  | None =>
      a2 <- map_idx (fun i a => if in_idx i N
                                then excelutil.f_coerce_to_number py_fuel a (VBool true)
                                else Ok a) 0 a1 ;;
      e2 <- first_code N 0 a2 ;;
      match e2 with
      | Some e => Ok e
      | None =>
          nn <- any_not_number N 0 a2 ;;
          if nn then Ok excelutil.c_VALUE_ERROR else
          e3 <- first_err_string a2 ;;
          match e3 with
          | Some e => Ok e
          | None => f a2
          end
      end
  end.

(* @excel_math_func: every parameter is a number parameter *)
Definition all_idx : list nat := seq 0 8.
Definition math_wrap := wrap [] all_idx.
