(* Model/Arrays.v — the three array (CSE) mechanisms of C13.

   1. fit_to_range is NOT here: it is translated from the source
      (Gen/arrayfit.v, regenerated on every run).  [fit_spec] below is the
      list-level specification it is proved equal to (Proofs/C13.v).
   2. [array_fixup] / [op_fixup]: excelutil.build_operator_operand_fixup with
      list_like operands (excelutil.py 1189-1201 and the dispatch at 1215-1225).
      numpy is outside the translator's subset: np.array(x, dtype=object) and
      np.broadcast are hand-modelled ([to_nd], [bshape], [expand]); the Python
      part (flat data, chunks of size[1], fixup per pair) is transcribed as is.
      Elements go through Model/Ops.v's scalar [fixup].
   3. [cse_wrapper]: function_helpers.cse_array_wrapper (lines 160-192) over an
      arbitrary wrapped function [f]. *)
From Coq Require Import ZArith QArith List Bool Arith.
From PV Require Import Lib.Py Model.Ops.
From PV Require Gen.excelutil.
Import ListNotations.
Open Scope Z_scope.

(* ------------------------------------------------------------ fit_to_range *)
Definition NA : pyval := excelutil.c_NA_ERROR.

(* one axis: a list of length [len] fitted to the target length [n] —
   a single element is repeated, a longer list is trimmed, a shorter one is
   filled.  Both axes of fit_to_range have this form. *)
Definition fit_axis {A} (n len : Z) (fill : A) (l : list A) : list A :=
  if (len =? 1) && negb (n =? 1) then seq_mul l n
  else if n <? len then firstn (Z.to_nat n) l
  else if len <? n then l ++ seq_mul [fill] (n - len)
  else l.

Definition fit_spec (h w : Z) (rows : list (list pyval)) : list (list pyval) :=
  fit_axis h (zlen rows) (seq_mul [NA] w)
           (map (fit_axis w (zlen (hd [] rows)) NA) rows).

Definition matrix (rows : list (list pyval)) : pyval := VTuple (map VTuple rows).

(* ------------------------------------------------------------- array_fixup *)
(* np.array(x, dtype=object): a 0-d array for a scalar, a 2-d array for a
   non-empty rectangular tuple of tuples of scalars; every other shape (1-d,
   3-d, ragged, empty, lists) is outside the model *)
Inductive nd := Nd0 (v : pyval) | Nd2 (rows : list (list pyval)).

Definition scalar_like (v : pyval) : bool :=
  match v with VNone | VBool _ | VInt _ | VFloat _ | VStr _ => true | _ => false end.

Fixpoint rows_of (l : list pyval) : option (list (list pyval)) :=
  match l with
  | [] => Some []
  | VTuple r :: l' => match rows_of l' with Some rs => Some (r :: rs) | None => None end
  | _ => None
  end.

Definition rect (C : nat) (rows : list (list pyval)) : bool :=
  forallb (fun r => Nat.eqb (length r) C) rows.

Definition to_nd (v : pyval) : res nd :=
  match v with
  | VTuple l =>
      match rows_of l with
      | Some (r0 :: rest) =>
          if negb (Nat.eqb (length r0) 0) && rect (length r0) (r0 :: rest)
             && forallb (forallb scalar_like) (r0 :: rest)
          then Ok (Nd2 (r0 :: rest)) else Raise Unmodelled
      | _ => Raise Unmodelled
      end
  | VNone | VBool _ | VInt _ | VFloat _ | VStr _ => Ok (Nd0 v)
  | _ => Raise Unmodelled
  end.

(* numpy broadcasting of one axis: equal, or one of them is 1 *)
Definition bdim (a b : nat) : option nat :=
  if Nat.eqb a b then Some a else if Nat.eqb a 1 then Some b
  else if Nat.eqb b 1 then Some a else None.

Definition nd_shape (a : nd) : option (nat * nat) :=
  match a with Nd0 _ => None | Nd2 rows => Some (length rows, length (hd [] rows)) end.

Definition bshape (a b : nd) : option (nat * nat) :=
  match nd_shape a, nd_shape b with
  | None, None => None                      (* two scalars never reach array_fixup *)
  | Some s, None | None, Some s => Some s
  | Some (r1, c1), Some (r2, c2) =>
      match bdim r1 r2, bdim c1 c2 with
      | Some r, Some c => Some (r, c)
      | _, _ => None
      end
  end.

(* the operand as seen through the broadcast: R rows of C *)
Definition expand_row (C : nat) (row : list pyval) : list pyval :=
  match row with [x] => repeat x C | _ => row end.
Definition expand (a : nd) (R C : nat) : list (list pyval) :=
  match a with
  | Nd0 v => repeat (repeat v C) R
  | Nd2 rows =>
      let rows' := map (expand_row C) rows in
      match rows' with [r] => repeat r R | _ => rows' end
  end.

(* data[i : i + C] for i in range(0, len(data), C) *)
Fixpoint chunks {A} (n C : nat) (data : list A) : list (list A) :=
  match n with
  | O => []
  | S n' => firstn C data :: chunks n' C (skipn C data)
  end.

Definition fix_pair (o : op) (uv : pyval * pyval) : res pyval := fixup (fst uv) o (snd uv).
Definition fix_row (o : op) (ch : list (pyval * pyval)) : res pyval :=
  r <- mapM (fix_pair o) ch ;; Ok (VTuple r).

Definition array_fixup (l : pyval) (o : op) (r : pyval) : res pyval :=
  a <- to_nd l ;; b <- to_nd r ;;
  match bshape a b with
  | None => Raise ValueError               (* shape mismatch: np.broadcast raises *)
  | Some (R, C) =>
      let data := combine (concat (expand a R C)) (concat (expand b R C)) in
      let n := Nat.div (length data + C - 1) C in      (* len(range(0, len(data), C)) *)
      rows <- mapM (fix_row o) (chunks n C data) ;;
      Ok (VTuple rows)
  end.

(* the whole fix-up function: scalar error operands first, then arrays *)
Definition list_like_b (v : pyval) : res bool := cond_of (excelutil.f_list_like v).

Definition op_fixup (l : pyval) (o : op) (r : pyval) : res pyval :=
  ll <- list_like_b l ;; rl <- list_like_b r ;;
  el <- (if ll then Ok false else in_error_codes l) ;;
  if el then Ok l else
  er <- (if rl then Ok false else in_error_codes r) ;;
  if er then Ok r else
  if ll || rl then array_fixup l o r else fixup l o r.

(* ------------------------------------------------------- cse_array_wrapper *)
Fixpoint enumerate {A} (i : nat) (l : list A) : list (nat * A) :=
  match l with [] => [] | x :: l' => (i, x) :: enumerate (S i) l' end.

Definition znat (n : nat) : pyval := VInt (Z.of_nat n).

Section Cse.
  Variable f : list pyval -> res pyval.        (* the wrapped function, called as f(args...) *)
  Variable idx : nat -> bool.                  (* param_indices *)

  (* "arg_num in cse_arg_nums" for every position *)
  Definition cse_flag (ia : nat * pyval) : res bool :=
    if idx (fst ia) then cond_of (excelutil.f_is_array_arg (snd ia)) else Ok false.

  Fixpoint first_true (fl : list bool) (args : list pyval) : option pyval :=
    match fl, args with
    | true :: _, a :: _ => Some a
    | _ :: fl', _ :: args' => first_true fl' args'
    | _, _ => None
    end.

  (* pick_args(args, cse_arg_nums, row, col) *)
  Fixpoint pick_args (fl : list bool) (args : list pyval) (row col : pyval)
    : res (list pyval) :=
    match fl, args with
    | b :: fl', a :: args' =>
        x <- (if b then (r <- py_getitem a row ;; py_getitem r col) else Ok a) ;;
        xs <- pick_args fl' args' row col ;;
        Ok (x :: xs)
    | _, _ => Ok []
    end.

  Definition cse_wrapper (args : list pyval) : res pyval :=
    fl <- mapM cse_flag (enumerate 0 args) ;;
    match first_true fl args with
    | None => f args
    | Some a =>
        nr <- py_len a ;;
        a0 <- py_getitem a (VInt 0) ;;
        nc <- py_len a0 ;;
        match nr, nc with
        | VInt nr, VInt nc =>
            rows <- mapM (fun row =>
                      r <- mapM (fun col => picked <- pick_args fl args (znat row) (znat col) ;;
                                            f picked)
                                (seq 0 (Z.to_nat nc)) ;;
                      Ok (VTuple r))
                    (seq 0 (Z.to_nat nr)) ;;
            Ok (VTuple rows)
        | _, _ => Raise Unmodelled
        end
    end.
End Cse.
