(* Model/TrimKeep.v — ExcelCompiler.trim_graph with repair 17855a0 of /repo:
   walk_precedents KEEPS the reference cell of an unbounded range (S!B:B, the
   cell standing for the bounded range S!B1:B4) whenever it walks into it:

       if child_address in needed_cells or ':' in child_address:
           if child_cell.address.is_unbounded_range:
               needed_cells.add(child_address)        # keep the reference
           walk_precedents(child_cell)

   (without it the reference was walked through but deleted with the unneeded
   cells, and a saved trimmed model could not be loaded again).  Model/Trim.v
   [trim] is the function before that repair; [trim_keepref] is the same
   function with the extra line; [unb n] says that node n is such a reference
   cell (Model/GraphExpr.v: a node whose formula is FAlias).
   Proofs/C08Keep.v: the two differ in needed_cells only (by reference nodes
   the walk processed), so workbook, frozen cells, frozen values and every
   output after the trim are the same. *)
From Coq Require Import List Arith Bool.
From PV Require Import Lib.Py Model.Graph Model.Trim.
Import ListNotations.

Section TrimKeep.
  Variable W : workbook.
  Variable sem : nat -> list pyval -> pyval.
  Variable unb : nat -> bool.

  Definition keepref (st : pw) (ch : nat) : pw :=
    if unb ch
    then {| pw_proc := pw_proc st; pw_need := badd (pw_need st) ch; pw_frz := pw_frz st;
            pw_cache := pw_cache st |}
    else st.

  Fixpoint walk_prec_k (f : nat) (n : nat) (st : pw) : pw :=
    match f with
    | O => st
    | S f' =>
        fold_left (fun (st : pw) (ch : nat) =>
                     if pw_proc st ch then st
                     else let st1 := mark st ch in
                          if pw_need st1 ch || wb_range W ch then walk_prec_k f' ch (keepref st1 ch)
                          else freeze W sem st1 ch)
                  (wb_deps W n) st
    end.

  Definition walk_outputs_k (O : list nat) (st : pw) : pw :=
    fold_left (fun (st : pw) (o : nat) => walk_prec_k (S (wb_n W)) o st) O st.

  Definition trim_keepref (I O : list nat) (s : state) : trimmed :=
    let s0 := build_all W sem O s in
    let b := st_built s0 in
    let nd1 := add_all (dependants W b I) O in
    let st3 := walk_outputs_k O {| pw_proc := fun _ => false; pw_need := nd1;
                                   pw_frz := fun _ => false; pw_cache := st_cache s0 |} in
    let kept n := b n && pw_need st3 n in
    let V := cut W (pw_frz st3) (pw_cache st3) in
    {| tr_wb := V;
       tr_st := {| st_cache := fun n => if kept n then pw_cache st3 n
                                        else if wb_input V n then wb_inp0 V n else VNone;
                   st_built := kept |};
       tr_need := pw_need st3; tr_frz := pw_frz st3; tr_proc := pw_proc st3 |}.
End TrimKeep.
