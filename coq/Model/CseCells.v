(* Model/CseCells.v — how a CSE array formula reaches its member cells.

   Transcribed from
   - excelwrapper.py  ExcelOpxWrapper.load_array_formulas (lines 254-297): every
     cell of the array formula's reference range gets the text
       =CSE_INDEX(<formula>, i, j, height, width)
     with i, j from enumerate(ref_addr.rows, start=1) / enumerate(row, start=1)
     and (height, width) = ref_addr.size                              [load_members]
   - excelwrapper.py  _OpxRange.cell_to_formula (lines 109-119): a member's
     formula is =index(<range>, i, j), the range recomputed from the cell's own
     position and the four numbers                                    [member_range]
   - excelwrapper.py  _OpxRange.__new__ (lines 78-87) and excelcompiler.py
     _CellRange.__init__: the range whose top left is member (1, 1) and whose
     cells all carry the same formula text has the array formula as ITS formula
   - excelcompiler.py _evaluate_range, "CSE Array Formula" branch (line 801):
       data = self.eval(cell_range, cell_range.address)          [cse_range_value]
   - excelformula.py  eval_func (lines 927-958):
       with in_array_formula_context(cse_array_address):
           ret_val = in_array_formula_context.fit_to_range(compiled_lambda())
       return ret_val if ret_val not in (None, EMPTY) else 0        [eval_formula]
     fit_to_range is the TRANSLATED function (Gen/arrayfit.v); the context
     object is its ctx_address.size = (height, width), None outside a CSE range
   - the member cell: _evaluate (excelcompiler.py 812-846) evaluates
     index(_R_(range), i, j) (lookup.index inside its apply_meta wrappers =
     Model/Lookup.v X_index; _R_ = _evaluate_range = the range's value) through
     eval_func WITHOUT a context, and stores
       (value[0][0] if list_like(value[0]) else value[0]) if list_like(value) else value
                                                          [cell_value, cse_member]
   What the compiled lambda of the array formula itself returns (an operator or
   a lifted function over arrays) is the parameter [result]: Model/Arrays.v.
   Parsing the texts "=CSE_INDEX(…)" / "=index(…)" is not modelled: the numbers
   are carried as numbers. *)
From Coq Require Import ZArith QArith List Bool.
From PV Require Import Lib.Py Model.Ops Model.Arrays Model.LookupCore Model.Lookup.
From PV Require Gen.excelutil Gen.arrayfit.
Import ListNotations.
Open Scope Z_scope.

(* ----------------------------------------------------- the sheet side: texts *)
(* the numbers stamped into a member: (i, j, height, width) *)
Definition stamp := (Z * Z * Z * Z)%type.

(* load_array_formulas over the reference range with top left (r0, c0) and
   size (h, w): ((row, col) of the cell, its stamp), row by row *)
Definition load_members (r0 c0 h w : Z) : list ((Z * Z) * stamp) :=
  flat_map (fun i => map (fun j => ((r0 + Z.of_nat i - 1, c0 + Z.of_nat j - 1),
                                    (Z.of_nat i, Z.of_nat j, h, w)))
                         (seq 1 (Z.to_nat w)))
           (seq 1 (Z.to_nat h)).

(* cell_to_formula: (start_col_idx, start_row, end_col_idx, end_row) of the
   range in =index(range, i, j) for the member at (row, col) *)
Definition member_range (row col : Z) (s : stamp) : Z * Z * Z * Z :=
  let '(i, j, h, w) := s in
  let start_row := row - i + 1 in
  let start_col := col - j + 1 in
  (start_col, start_row, start_col + w - 1, start_row + h - 1).

(* … and its two INDEX arguments *)
Definition member_index (s : stamp) : Z * Z := let '(i, j, _, _) := s in (i, j).

(* --------------------------------------- which range is an array formula's range *)
(* a cell of the loaded sheet, as far as _OpxRange.__new__ looks at it: a
   member written by load_array_formulas (the array formula's text and the
   stamp; the cell text is =CSE_INDEX(<text>,i,j,h,w)), or anything else (a
   value, an ordinary formula, an empty cell) *)
Inductive sheet_cell := Other | Member (text : str) (s : stamp).

(* the cell text after "=CSE_INDEX(" *)
Definition member_text (text : str) (s : stamp) : str :=
  let '(i, j, h, w) := s in
  text ++ [44] ++ str_of_Z i ++ [44] ++ str_of_Z j ++ [44] ++ str_of_Z h ++ [44] ++ str_of_Z w ++ [41].

(* _OpxRange.__new__ (excelwrapper.py 77-89, after repair 50c2e69): the range
   gets the array formula of its top left cell as ITS formula when that cell is
   member (1, 1), every cell of the range is a text starting with the same
   "=CSE_INDEX(<text>" (front = the top left text before its last four commas;
   the numbers hold no comma), and the range is no larger than the array:
   len(cells) <= height and len(cells[0]) <= width.  None: the range has no
   formula of its own (a tuple of per-cell formulas, or no formula at all) and
   is evaluated cell by cell *)
Definition range_formula (cells : list (list sheet_cell)) : option str :=
  match cells with
  | (Member f (i, j, h, w) :: _) :: _ =>
      if (i =? 1) && (j =? 1)
         && forallb (forallb (fun c => match c with
                                       | Member g s => str_prefix f (member_text g s)
                                       | Other => false
                                       end)) cells
         && ((zlen cells <=? h) && (zlen (hd [] cells) <=? w))
      then Some f else None
  | _ => None
  end.

(* the cells load_array_formulas writes for an array formula with text [f]
   over a reference range of size (h, w), as rows *)
Definition sheet_rows (f : str) (h w : Z) : list (list sheet_cell) :=
  map (fun i => map (fun j => Member f (Z.of_nat i, Z.of_nat j, h, w)) (seq 1 (Z.to_nat w)))
      (seq 1 (Z.to_nat h)).

(* ---------------------------------------------------------- the value side *)
(* eval_func(excel_formula, cse_array_address) on the compiled lambda's value *)
Definition eval_formula (ctx result : pyval) : res pyval :=
  v <- arrayfit.f__ArrayFormulaContext_fit_to_range ctx result ;;
  Ok (if is_blank v then VInt 0 else v).

(* _evaluate_range of the CSE range of size (h, w) *)
Definition cse_range_value (h w : Z) (result : pyval) : res pyval :=
  eval_formula (VTuple [VInt h; VInt w]) result.

(* _evaluate's store into cell.value (the value is not an address) *)
Definition cell_value (v : pyval) : res pyval :=
  ll <- list_like_b v ;;
  if ll then
    (v0 <- py_getitem v (VInt 0) ;;
     ll0 <- list_like_b v0 ;;
     if ll0 then py_getitem v0 (VInt 0) else Ok v0)
  else Ok v.

(* the member stamped (i, j) of a CSE range of size (h, w) whose formula's
   lambda returns [result] *)
Definition cse_member (h w : Z) (result : pyval) (i j : Z) : res pyval :=
  data <- cse_range_value h w result ;;
  x <- X_index [data; VInt i; VInt j] ;;
  v <- eval_formula VNone x ;;
  cell_value v.

(* all members, as rows of the target *)
Definition cse_members (h w : Z) (result : pyval) : res pyval :=
  rows <- mapM (fun i =>
            r <- mapM (fun j => cse_member h w result (Z.of_nat i) (Z.of_nat j))
                      (seq 1 (Z.to_nat w)) ;;
            Ok (VTuple r))
          (seq 1 (Z.to_nat h)) ;;
  Ok (VTuple rows).

(* a reference range of ONE cell is no CSE range: load_array_formulas (the else
   branch, AddressRange('A1:A1') is an AddressCell) leaves the plain formula
   text, and the cell is an ordinary formula cell *)
Definition formula_cell (result : pyval) : res pyval :=
  v <- eval_formula VNone result ;; cell_value v.

(* the cells of the target as rows: what every cell of an array formula's
   reference range evaluates to *)
Definition target_cells (h w : Z) (result : pyval) : res pyval :=
  if (h =? 1) && (w =? 1)
  then (v <- formula_cell result ;; Ok (VTuple [VTuple [v]]))
  else cse_members h w result.

(* what a cell shows of an element: a blank is 0 (eval_func), then cell_value *)
Definition shown (e : pyval) : res pyval :=
  cell_value (if is_blank e then VInt 0 else e).

(* ------------------------------------------------- any range of the sheet *)
(* the sheet as _OpxRange sees it, by (row, column) *)
Definition sheet := Z -> Z -> sheet_cell.

(* the array formulas of a worksheet: reference range (top left, size) and text *)
Record array_formula := { af_r0 : Z; af_c0 : Z; af_h : Z; af_w : Z; af_text : str }.

Definition in_ref (a : array_formula) (row col : Z) : bool :=
  (af_r0 a <=? row) && (row <? af_r0 a + af_h a) && (af_c0 a <=? col) && (col <? af_c0 a + af_w a).

(* load_array_formulas over all array formulas of the sheet (reference ranges
   that do not overlap: the order does not matter), every other cell Other *)
Fixpoint sheet_of (fs : list array_formula) (row col : Z) : sheet_cell :=
  match fs with
  | [] => Other
  | a :: fs' =>
      if in_ref a row col
      then Member (af_text a) (row - af_r0 a + 1, col - af_c0 a + 1, af_h a, af_w a)
      else sheet_of fs' row col
  end.

(* sheet[address]: the cells of the rectangle with top left (r0, c0), nr rows of nc *)
Definition rect_cells (sh : sheet) (r0 c0 : Z) (nr nc : nat) : list (list sheet_cell) :=
  map (fun p => map (fun q => sh (r0 + Z.of_nat p) (c0 + Z.of_nat q)) (seq 0 nc)) (seq 0 nr).

(* what the cell at (row, col) shows: a member its INDEX formula; any other cell
   its own value [plain row col] (a value, an ordinary formula's value, None
   for an empty cell).  [fv text] is what the compiled code of the array formula
   with that text returns (the same text evaluates to the same value) *)
Definition cell_shows (sh : sheet) (fv : str -> pyval) (plain : Z -> Z -> pyval)
                      (row col : Z) : res pyval :=
  match sh row col with
  | Member f (i, j, h, w) => cse_member h w (fv f) i j
  | Other => Ok (plain row col)
  end.

(* _evaluate_range of ANY rectangle of the sheet (excelcompiler.py 779-806 over
   the _CellRange that _make_cells builds from _OpxRange): a range with a formula
   of its own is evaluated as a CSE range of the RANGE's size, every other range
   cell by cell *)
Definition sheet_range_value (sh : sheet) (fv : str -> pyval) (plain : Z -> Z -> pyval)
                             (r0 c0 : Z) (nr nc : nat) : res pyval :=
  match range_formula (rect_cells sh r0 c0 nr nc) with
  | Some f => cse_range_value (Z.of_nat nr) (Z.of_nat nc) (fv f)
  | None =>
      rows <- mapM (fun p =>
                r <- mapM (fun q => cell_shows sh fv plain (r0 + Z.of_nat p) (c0 + Z.of_nat q))
                          (seq 0 nc) ;;
                Ok (VTuple r))
              (seq 0 nr) ;;
      Ok (VTuple rows)
  end.
