(* Model/Iter.v — hand-written executable model of pycel's iterative
   ("cycles") evaluation over an arbitrary, possibly cyclic, finite workbook.

   Transcribed from /repo/src/pycel:
     excelcompiler.py  ExcelCompiler._evaluate_iterative   (outer pass loop)
                       ExcelCompiler._evaluate_non_iterative / _evaluate /
                       _evaluate_range / _gen_graph / _make_cells /
                       _process_gen_graph / set_value (no reset when cycles)
                       _CellBase.close_enough, _CellRange.needs_calc,
                       _CycleCell (value getter/setter, start_calcs, needs_calc)
     excelutil.py      _IterativeEvalTracker (ns: todo, computed,
                       iteration_number, iterations, tolerance)

   Values: [None] = blank cell, [Some q] = a number (exact rational; the
   correspondence run keeps every implementation float exact).  Formulas of the
   model: b + sum of  a * cell  and  a * SUM(range)  terms, evaluated left to
   right as the compiled Python expression does.  Anything else pycel can do
   here (unbuilt cell met during evaluation, CSE ranges, unbounded ranges,
   text/error values) is [Raise Unmodelled]. *)
From Coq Require Import ZArith QArith Qabs List Bool Lia.
From PV Require Import Lib.Py.
Import ListNotations.
Open Scope Q_scope.

Definition val := option Q.
Definition num (v : val) : Q := match v with Some q => q | None => 0 end.

Inductive term := TCell (a : Q) (c : nat) | TSum (a : Q) (r : nat).
Record cellspec := { stored : val; formula : option (Q * list term) }.
Record wbook := { w_cells : list cellspec; w_ranges : list (list nat) }.

Definition spec0 : cellspec := {| stored := None; formula := None |}.
Definition spec (w : wbook) (c : nat) : cellspec := nth c (w_cells w) spec0.
Definition members (w : wbook) (r : nat) : list nat := nth r (w_ranges w) [].

(* _CycleCell: _value, _prev_value, wip; [built] = address in cell_map *)
Record cell := { built : bool; value : val; prev : val; wip : bool }.
(* _CellRange: in cell_map?, cached value (None = needs_calc) *)
Record rng := { rbuilt : bool; rvalue : option (list val) }.
(* iterative_eval_tracker.ns *)
Record tracker := { todo : list nat; computed : list nat; itn : Z; iters : Z; tol : Q }.
Record state := { cells : list cell; rngs : list rng; tr : tracker }.

Definition cell0 : cell := {| built := false; value := None; prev := None; wip := false |}.
Definition rng0 : rng := {| rbuilt := false; rvalue := None |}.
Definition getc (st : state) (c : nat) : cell := nth c (cells st) cell0.
Definition getr (st : state) (r : nat) : rng := nth r (rngs st) rng0.

Fixpoint upd {A} (l : list A) (i : nat) (x : A) : list A :=
  match l, i with
  | [], _ => []
  | _ :: t, O => x :: t
  | h :: t, S j => h :: upd t j x
  end.
Definition setc (st : state) (c : nat) (x : cell) : state :=
  {| cells := upd (cells st) c x; rngs := rngs st; tr := tr st |}.
Definition setr (st : state) (r : nat) (x : rng) : state :=
  {| cells := cells st; rngs := upd (rngs st) r x; tr := tr st |}.
Definition sett (st : state) (t : tracker) : state :=
  {| cells := cells st; rngs := rngs st; tr := t |}.

Definition memb (c : nat) (l : list nat) : bool := existsb (Nat.eqb c) l.
Definition add (c : nat) (l : list nat) : list nat := if memb c l then l else c :: l.

(* the double nearest to 1 + 0.00001, i.e. Python's (1 + rel) *)
Definition rel1 : Q := 2251822331683385 # 2251799813685248.

(* _CellBase.close_enough(self, value, tol=...) with self.value = cur *)
Definition close (tolv : Q) (cur prv : val) : bool :=
  match cur, prv with
  | Some a, Some b => negb (Qle_bool (rel1 * tolv) (Qabs (b - a)))
  | None, None => true
  | _, _ => false
  end.

(* _CycleCell.value setter *)
Definition setter (c : nat) (v : val) (st : state) : state :=
  let x := getc st c in
  let t := tr st in
  {| cells := upd (cells st) c {| built := built x; value := v; prev := prev x; wip := false |};
     rngs := rngs st;
     tr := {| todo := if close (tol t) v (prev x) then todo t else add c (todo t);
              computed := add c (computed t);
              itn := itn t; iters := iters t; tol := tol t |} |}.

(* _CycleCell.start_calcs *)
Definition start_calcs (c : nat) (st : state) : state :=
  let x := getc st c in
  setc st c {| built := built x; value := value x; prev := value x; wip := true |}.

(* _CycleCell.needs_calc / value getter *)
Definition needs_calc (st : state) (c : nat) : bool :=
  negb (wip (getc st c)) && negb (memb c (computed (tr st))).
Definition readv (st : state) (c : nat) : val :=
  let x := getc st c in if wip x then prev x else value x.

Definition qsum (vs : list val) : Q := fold_left (fun s v => Qred (s + num v)) vs 0.

Section Eval.
Variable w : wbook.
Variable rec_c : nat -> state -> res (val * state).     (* _evaluate, one level down *)

Fixpoint eval_members (ms : list nat) (st : state) : res (list val * state) :=
  match ms with
  | [] => Ok ([], st)
  | m :: ms' =>
      match rec_c m st with
      | Raise e => Raise e
      | Ok (v, st1) =>
          match eval_members ms' st1 with
          | Raise e => Raise e
          | Ok (vs, st2) => Ok (v :: vs, st2)
          end
      end
  end.

(* _evaluate_range: the plain value-is-None cache test *)
Definition eval_range (r : nat) (st : state) : res (list val * state) :=
  let x := getr st r in
  if negb (rbuilt x) then Raise Unmodelled else
  match rvalue x with
  | Some vs => Ok (vs, st)
  | None =>
      match eval_members (members w r) st with
      | Raise e => Raise e
      | Ok (vs, st1) => Ok (vs, setr st1 r {| rbuilt := true; rvalue := Some vs |})
      end
  end.

Fixpoint eval_terms (ts : list term) (acc : Q) (st : state) : res (Q * state) :=
  match ts with
  | [] => Ok (acc, st)
  | TCell a j :: ts' =>
      match rec_c j st with
      | Raise e => Raise e
      | Ok (v, st1) => eval_terms ts' (Qred (acc + a * num v)) st1
      end
  | TSum a r :: ts' =>
      match eval_range r st with
      | Raise e => Raise e
      | Ok (vs, st1) => eval_terms ts' (Qred (acc + a * qsum vs)) st1
      end
  end.

(* body of _evaluate for one cell *)
Definition eval_body (c : nat) (st : state) : res (val * state) :=
  if negb (built (getc st c)) then Raise Unmodelled else
  if needs_calc st c then
    match formula (spec w c) with
    | None => Ok (readv st c, st)
    | Some (b, ts) =>
        match eval_terms ts (Qred b) (start_calcs c st) with
        | Raise e => Raise e
        | Ok (q, st2) => let st3 := setter c (Some q) st2 in Ok (readv st3 c, st3)
        end
    end
  else Ok (readv st c, st).
End Eval.

Fixpoint eval_cell (w : wbook) (fuel : nat) (c : nat) (st : state) : res (val * state) :=
  match fuel with
  | O => Raise OutOfFuel
  | S f => eval_body w (eval_cell w f) c st
  end.

Definition eval_fuel (w : wbook) : nat := S (length (w_cells w)).

(* ---- graph construction: _gen_graph / _make_cells / _process_gen_graph ---- *)
Inductive node := NC (c : nat) | NR (r : nat).

(* self.Cell(address, value=stored, formula=...): the constructor goes
   through the value setter *)
Definition build_cell (w : wbook) (c : nat) (st : state) : state :=
  setter c (stored (spec w c))
         (setc st c {| built := true; value := None; prev := None; wip := false |}).

Definition is_formula (w : wbook) (c : nat) : bool :=
  match formula (spec w c) with Some _ => true | None => false end.

Definition gstate := (state * list node * list nat)%type.   (* state, graph_todos (top first), range_todos *)

Definition make_cell (w : wbook) (c : nat) (g : gstate) : gstate :=
  let '(st, gt, rt) := g in
  if built (getc st c) || negb (c <? length (cells st))%nat then g   (* a reference outside the sheet stays unbuilt *)
  else (build_cell w c st, if is_formula w c then NC c :: gt else gt, rt).

Definition make_node (w : wbook) (n : node) (g : gstate) : gstate :=
  match n with
  | NC c => make_cell w c g
  | NR r =>
      let '(st, gt, rt) := g in
      if rbuilt (getr st r) then g
      else fold_left (fun g m => make_cell w m g) (members w r)
                     (setr st r {| rbuilt := true; rvalue := None |}, NR r :: gt, rt ++ [r])
  end.

Definition needed (w : wbook) (n : node) : list node :=
  match n with
  | NR _ => []          (* the member cells are built together with the range *)
  | NC c => match formula (spec w c) with
            | None => []
            | Some (_, ts) => map (fun t => match t with TCell _ j => NC j | TSum _ r => NR r end) ts
            end
  end.

Fixpoint process (w : wbook) (fuel : nat) (g : gstate) : res (state * list nat) :=
  match fuel with
  | O => Raise OutOfFuel
  | S f =>
      let '(st, gt, rt) := g in
      match gt with
      | [] => Ok (st, rt)
      | dep :: gt' => process w f (fold_left (fun g n => make_node w n g) (needed w dep) (st, gt', rt))
      end
  end.

Fixpoint eval_ranges (w : wbook) (rs : list nat) (st : state) : res state :=
  match rs with
  | [] => Ok st
  | r :: rs' =>
      match eval_range w (eval_cell w (eval_fuel w)) r st with
      | Raise e => Raise e
      | Ok (_, st1) => eval_ranges w rs' st1
      end
  end.

Definition gen_fuel (w : wbook) : nat := S (length (w_cells w) + length (w_ranges w)).

Definition gen_graph (w : wbook) (seed : nat) (st : state) : res state :=
  match process w (gen_fuel w) (make_cell w seed (st, [], [])) with
  | Raise e => Raise e
  | Ok (st1, rt) => eval_ranges w (rev rt) st1
  end.

(* _evaluate_non_iterative(address) for a single-cell address *)
Definition evaluate_pass (w : wbook) (t : nat) (st : state) : res (val * state) :=
  match (if built (getc st t) then Ok st else gen_graph w t st) with
  | Raise e => Raise e
  | Ok st1 => eval_cell w (eval_fuel w) t st1
  end.

(* tracker.inc_iteration_number / tracker.done *)
Definition inc_iteration (st : state) : state :=
  let t := tr st in
  sett st {| todo := []; computed := []; itn := (itn t + 1)%Z; iters := iters t; tol := tol t |}.
Definition done (st : state) : bool :=
  (iters (tr st) <=? itn (tr st))%Z || match todo (tr st) with [] => true | _ => false end.

Fixpoint pass_loop (w : wbook) (fuel : nat) (t : nat) (st : state) : res (val * state) :=
  match evaluate_pass w t (inc_iteration st) with
  | Raise e => Raise e
  | Ok (v, st1) =>
      if done st1 then Ok (v, st1)
      else match fuel with
           | O => Raise OutOfFuel
           | S f => pass_loop w f t st1
           end
  end.

(* _evaluate_iterative(address, iterations, tolerance) with both given and truthy *)
Definition evaluate_iterative (w : wbook) (t : nat) (it : Z) (tolv : Q) (st : state)
  : res (val * state) :=
  let t0 := tr st in
  pass_loop w (Z.to_nat (it - 1)) t
            (sett st {| todo := todo t0; computed := computed t0; itn := 0; iters := it; tol := tolv |}).

(* set_value(address, value) on a single cell in a compiler with cycles.  The
   test is `cell.value != value or type(cell.value) is not type(value)`; values
   here are blank or numbers of one type (the correspondence writes floats
   only), so the type clause adds nothing to the comparison. *)
Definition val_eqb (a b : val) : bool :=
  match a, b with
  | Some x, Some y => Qeq_bool x y
  | None, None => true
  | _, _ => false
  end.
Definition set_value (c : nat) (v : val) (st : state) : res state :=
  if negb (built (getc st c)) then Raise AssertionError
  else if val_eqb (readv st c) v then Ok st
  else Ok (setter c v (setter c v st)).

(* the namespace as _IterativeEvalTracker.ns creates it on first access:
   todo, computed, iteration_number = 0, iterations = 100, tolerance = 0.001 (the double) *)
Definition tol_default : Q := 1152921504606847 # 1152921504606846976.
Definition fresh_tracker : tracker :=
  {| todo := []; computed := []; itn := 0; iters := 100; tol := tol_default |}.
Definition init_state (w : wbook) : state :=
  {| cells := map (fun _ => cell0) (w_cells w);
     rngs := map (fun _ => rng0) (w_ranges w);
     tr := fresh_tracker |}.

(* a history of public operations and what each one shows *)
Inductive op := OEval (t : nat) (it : Z) (tolv : Q) | OSet (c : nat) (v : val).
Inductive obs := BEval (v : val) (st : state) | BSet (st : state) | BErr (e : exn).

Fixpoint run_ops (w : wbook) (ops : list op) (st : state) : list obs :=
  match ops with
  | [] => []
  | OEval t it tolv :: ops' =>
      match evaluate_iterative w t it tolv st with
      | Raise e => [BErr e]
      | Ok (v, st1) => BEval v st1 :: run_ops w ops' st1
      end
  | OSet c v :: ops' =>
      match set_value c v st with
      | Raise e => BErr e :: run_ops w ops' st     (* a failed assert changes nothing *)
      | Ok st1 => BSet st1 :: run_ops w ops' st1
      end
  end.
