(* Model/Ops.v — excelutil.build_operator_operand_fixup.fixup on scalar
   operands, transcribed branch by branch (excelutil.py lines 1203-1277) on top
   of the GENERATED coercions (Gen/excelutil.v: coerce_to_number,
   type_cmp_value, is_number) and ExcelCmp (lines 1144-1184).
   Arrays (list_like operands -> array_fixup) are in Model/Arrays.v. *)
From Coq Require Import ZArith QArith List Bool.
From PV Require Import Lib.Py.
From PV Require Gen.excelutil.
Import ListNotations.
Open Scope Z_scope.

Inductive op := Add | Sub | Mult | Div | Pow | BitAnd | USub
              | Eq | NotEq | Lt | LtE | Gt | GtE.

Definition is_cmp (o : op) : bool :=
  match o with Eq | NotEq | Lt | LtE | Gt | GtE => true | _ => false end.

(* "x in (None, EMPTY)" *)
Definition is_blank (v : pyval) : bool :=
  match v with VNone => true | _ => py_eq v excelutil.c_EMPTY end.

Definition in_error_codes (v : pyval) : res bool := py_in v excelutil.c_ERROR_CODES.

(* ExcelCmp(value) for value that is not None: (cmp_type, value') *)
Definition excel_cmp_key (v : pyval) : res (Z * pyval) :=
  tv <- excelutil.f_type_cmp_value v ;;
  match tv with
  | VTuple [VInt t; _] =>
      if t =? 1 then (lv <- str_lower v ;; Ok (t, lv)) else Ok (t, v)
  | _ => Raise Unmodelled
  end.

(* namedtuple comparison: (cmp_type, value, empty) lexicographically, equal
   elements skipped with ==, the first differing pair decides with < *)
Definition key_lt (strict : bool) (a b : Z * pyval) : res bool :=
  let '(ta, va) := a in let '(tb, vb) := b in
  if negb (ta =? tb) then Ok (ta <? tb)
  else if py_eq va vb then Ok (negb strict)
  else py_lt va vb.
Definition key_eq (a b : Z * pyval) : bool :=
  let '(ta, va) := a in let '(tb, vb) := b in (ta =? tb) && py_eq va vb.

Definition cmp_apply (o : op) (a b : Z * pyval) : res pyval :=
  match o with
  | Eq => Ok (VBool (key_eq a b))
  | NotEq => Ok (VBool (negb (key_eq a b)))
  | Lt => c <- key_lt true a b ;; Ok (VBool c)
  | LtE => c <- key_lt false a b ;; Ok (VBool c)
  | Gt => c <- key_lt true b a ;; Ok (VBool c)
  | GtE => c <- key_lt false b a ;; Ok (VBool c)
  | _ => Raise Unmodelled
  end.

(* the "&" rendering of one operand *)
Definition concat_render (v : pyval) : res pyval :=
  if is_blank v then Ok (VStr [])
  else match v with
       | VBool _ => lift1 str_upper (py_str v)
       | VInt _ | VFloat _ =>
           lift1 py_str (excelutil.f_coerce_to_number py_fuel v (VBool false))
       | _ => py_str v
       end.

(* "left_op < 0 and right_op != int(right_op)" on numbers *)
Definition neg_frac_pow (l r : pyval) : bool :=
  match as_num l, as_num r with
  | Some x, Some (NF q) => q_ltb (num_q x) 0 && negb (q_eqb (inject_Z (q_trunc q)) q)
  | _, _ => false
  end.

Definition num_apply (o : op) (l r : pyval) : res pyval :=
  match o with
  | Add => py_add l r
  | Sub => py_sub l r
  | Mult => py_mul l r
  | Div => py_truediv l r
  | Pow => if neg_frac_pow l r then Ok excelutil.c_NUM_ERROR else py_pow l r
  | USub => py_neg r
  | _ => Raise Unmodelled
  end.

(* the comparison branch up to the two ExcelCmp keys (independent of the operator) *)
Definition cmp_keys (l r : pyval) : res ((Z * pyval) * (Z * pyval)) :=
  tr <- excelutil.f_type_cmp_value r ;;
  l1 <- (if is_blank l then py_getitem tr (VInt 1) else Ok l) ;;
  tl <- excelutil.f_type_cmp_value l1 ;;
  r1 <- (if is_blank r then py_getitem tl (VInt 1) else Ok r) ;;
  kl <- excel_cmp_key l1 ;;
  kr <- excel_cmp_key r1 ;;
  Ok (kl, kr).

Definition fixup (l : pyval) (o : op) (r : pyval) : res pyval :=
  el <- in_error_codes l ;;
  if el then Ok l else
  er <- in_error_codes r ;;
  if er then Ok r else
  if is_cmp o then
    ks <- cmp_keys l r ;; cmp_apply o (fst ks) (snd ks)
  else match o with
  | BitAnd =>
      a <- concat_render l ;; b <- concat_render r ;; py_add a b
  | _ =>
      l1 <- excelutil.f_coerce_to_number py_fuel l (VBool true) ;;
      r1 <- excelutil.f_coerce_to_number py_fuel r (VBool true) ;;
      nl <- excelutil.f_is_number l1 ;;
      nr <- excelutil.f_is_number r1 ;;
      let both := py_truthy nl && py_truthy nr in
      match o, both with
      | USub, _ | _, true =>
          match num_apply o l1 r1 with
          | Raise ZeroDivisionError => Ok excelutil.c_DIV0
          | Raise TypeError => Ok excelutil.c_VALUE_ERROR
          | Raise OverflowError => Ok excelutil.c_NUM_ERROR
          | x => x
          end
      | _, false => Ok excelutil.c_VALUE_ERROR
      end
  end.
