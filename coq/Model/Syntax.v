(* Model/Syntax.v — the Excel side of C02: pycel.excelformula's parser.

   * tokens = the items of pycel's amended openpyxl Tokenizer (Tokenizer._items:
     unary + dropped, white space removed or turned into the intersection
     operator).  The tokenizer itself is NOT modelled; it is inside the
     correspondence run (the harness renders a concrete tree to text, the real
     ExcelFormula tokenizes and parses it, the model parses [flat c]).
   * [amend] = the token pre-pass of ExcelFormula._parse_to_rpn (lines 652-694),
   * [run]   = its main loop (lines 696-767): operator stack, the pop rule
     Token.Precedence.__lt__, argument counting with were_values/arg_count,
   * [build] = ExcelFormula._build_ast (lines 769-822),
   * the operator table is the GENERATED constant
     Gen/excelformula.v c_Token_precedences (Token.precedences).
   * the grammar of the property: precedence-correct concrete trees [cst]
     ([WF]); [flat] is the token string of a tree, [abs] its meaning. *)
From Coq Require Import ZArith List Bool String Ascii.
From PV Require Import Lib.Py.
From PV Require Gen.excelformula.
Import ListNotations.
Open Scope Z_scope.

Definition zs (s : string) : list Z :=
  map (fun c => Z.of_N (N_of_ascii c)) (list_ascii_of_string s).

Definition n_array : list Z := zs "ARRAY".        (* Token(token.type, token.type, ...) *)
Definition n_arrayrow : list Z := zs "ARRAYROW".

(* ------------------------------------------------------------ tokens *)
Inductive okind := KNumber | KText | KLogical | KError | KRange | KEmpty.

Inductive binop := OEq | ONe | OLt | OLe | OGt | OGe | OCat | OAdd | OSub | OMul | ODiv | OPow
                 | OIsect | OColon | OUnion.

Definition op_text (o : binop) : list Z :=
  match o with
  | OEq => zs "=" | ONe => zs "<>" | OLt => zs "<" | OLe => zs "<=" | OGt => zs ">"
  | OGe => zs ">=" | OCat => zs "&" | OAdd => zs "+" | OSub => zs "-" | OMul => zs "*"
  | ODiv => zs "/" | OPow => zs "^" | OIsect => zs " " | OColon => zs ":" | OUnion => zs ","
  end.

Inductive tok :=
| TOperand (k : okind) (v : list Z)
| TFuncOpen (name : list Z)        (* token value, e.g. "SUM(" *)
| TFuncClose
| TParenOpen | TParenClose
| TArrayOpen | TArrayClose
| TArrayRowOpen                    (* only produced by the pre-pass *)
| TSepArg | TSepRow
| TPre                             (* prefix "-" (prefix "+" never reaches the parser) *)
| TPost                            (* postfix "%" *)
| TBin (o : binop)
| TWs.

(* what can sit on the operator stack *)
Inductive sop := SPre | SPost | SBin (o : binop) | SParen | SFunc (name : list Z).

Inductive rpn :=
| RAtom (k : okind) (v : list Z) | RPre | RPost | RBin (o : binop)
| RFunc (name : list Z) (nargs : nat).

(* ------------------------------------------- Token.precedences (generated) *)
Definition prec_entry (key : list Z) : Z * bool :=
  match excelformula.c_Token_precedences with
  | VDict l =>
      match dict_get l (VStr key) with
      | Some (VTuple [VInt p; VStr a]) => (p, str_eqb a (zs "left"))
      | _ => (0, true)
      end
  | _ => (0, true)
  end.

(* Token.precedence: 'u' for a prefix operator, else the token's value *)
Definition sop_key (s : sop) : list Z :=
  match s with
  | SPre => zs "u" | SPost => zs "%" | SBin o => op_text o
  | _ => []
  end.
Definition sprec (s : sop) : Z := fst (prec_entry (sop_key s)).
Definition sleft (s : sop) : bool := snd (prec_entry (sop_key s)).

Definition is_open (s : sop) : bool := match s with SParen | SFunc _ => true | _ => false end.
Definition is_funcopen (s : sop) : bool := match s with SFunc _ => true | _ => false end.
Definition rpn_of (s : sop) : rpn :=
  match s with
  | SPre => RPre | SPost => RPost | SBin o => RBin o
  | SParen => RAtom KEmpty [] | SFunc n => RFunc n 0      (* never used: guarded by is_open *)
  end.

(* Precedence.__lt__ : incoming token t against the stack top s *)
Definition plt (t s : sop) : bool :=
  (sprec t <? sprec s) || (sleft t && (sprec t =? sprec s)).

(* ------------------------------------------------------------ pre-pass *)
Definition amend1 (t : tok) (nx : option tok) : list tok :=
  match t with
  | TFuncOpen n =>
      match nx with
      | Some TSepArg => [TFuncOpen n; TParenOpen; TOperand KEmpty []]
      | _ => [TFuncOpen n; TParenOpen]
      end
  | TFuncClose => [TParenClose]
  | TArrayOpen => [TArrayOpen; TParenOpen; TArrayRowOpen; TParenOpen]
  | TArrayClose => [TArrayClose; TParenClose]
  | TSepRow => [TParenClose; TSepArg; TArrayRowOpen; TParenOpen]
  | TSepArg =>
      match nx with
      | Some TSepArg | Some TFuncClose => [TSepArg; TOperand KEmpty []]
      | _ => [TSepArg]
      end
  | _ => [t]
  end.
(* (a FUNC-OPEN or SEP as the very last token makes the real pre-pass raise
   AttributeError on None.matches; here the main loop fails on it instead:
   unclosed bracket / separator outside a call.  Both are "no parse".) *)

Fixpoint amend (ts : list tok) : list tok :=
  match ts with
  | [] => []
  | t :: ts' => amend1 t (hd_error ts') ++ amend ts'
  end.

(* ------------------------------------------------------------ main loop *)
Definition set_top_true (wv : list bool) : list bool :=
  match wv with [] => [] | _ :: w => true :: w end.

(* operator token: pop while the top is an operator and token.precedence < top's *)
Fixpoint popwhile (t : sop) (stk : list sop) (out : list rpn) : list sop * list rpn :=
  match stk with
  | s :: stk' =>
      if negb (is_open s) && plt t s then popwhile t stk' (out ++ [rpn_of s]) else (stk, out)
  | [] => ([], out)
  end.

(* SEP and CLOSE: pop everything above the nearest OPEN *)
Fixpoint popto (stk : list sop) (out : list rpn) : list sop * list rpn :=
  match stk with
  | s :: stk' => if is_open s then (stk, out) else popto stk' (out ++ [rpn_of s])
  | [] => ([], out)
  end.

Fixpoint flush (stk : list sop) (out : list rpn) : option (list rpn) :=
  match stk with
  | s :: stk' => if is_open s then None else flush stk' (out ++ [rpn_of s])
  | [] => Some out
  end.

Definition push_op (t : sop) (stk : list sop) (out : list rpn) : list sop * list rpn :=
  let '(stk', out') := popwhile t stk out in (t :: stk', out').

Fixpoint run (ts : list tok) (stk : list sop) (out : list rpn)
             (wv : list bool) (ac : list nat) : option (list rpn) :=
  match ts with
  | [] => flush stk out
  | t :: ts' =>
      (* (thunks: the extracted OCaml is strict) *)
      let operator (s : sop) :=
        let '(stk', out') := push_op s stk out in run ts' stk' out' wv ac in
      let funcopen (n : list Z) :=
        run ts' (SFunc n :: stk) out (false :: set_top_true wv) (0%nat :: ac) in
      let sep (_ : unit) :=
        let '(stk', out') := popto stk out in
        match wv, ac with
        | _ :: w, n :: a => run ts' stk' out' (false :: w) (S n :: a)
        | _, _ => None
        end in
      let close (_ : unit) :=
        let '(stk', out') := popto stk out in
        match stk' with
        | [] => None                                  (* mismatched parentheses *)
        | _ :: SFunc n :: stk'' =>
            match wv, ac with
            | b :: w, k :: a =>
                run ts' stk'' (out' ++ [RFunc n (k + (if b then 1 else 0))%nat]) w a
            | _, _ => None
            end
        | _ :: stk'' => run ts' stk'' out' wv ac
        end in
      match t with
      | TOperand k v => run ts' stk (out ++ [RAtom k v]) (set_top_true wv) ac
      | TFuncOpen n => funcopen n
      | TArrayOpen => funcopen n_array
      | TArrayRowOpen => funcopen n_arrayrow
      | TSepArg | TSepRow => sep tt
      | TPre => operator SPre
      | TPost => operator SPost
      | TBin o => operator (SBin o)
      | TParenOpen => run ts' (SParen :: stk) out wv ac
      | TParenClose | TFuncClose | TArrayClose => close tt
      | TWs => run ts' stk out wv ac
      end
  end.

Definition sy (ts : list tok) : option (list rpn) := run (amend ts) [] [] [] [].

(* ------------------------------------------------------------ _build_ast *)
Inductive expr :=
| EOperand (k : okind) (v : list Z)
| EPre (e : expr)
| EPost (e : expr)
| EBin (o : binop) (l r : expr)
| EFunc (name : list Z) (args : list expr).

(* production stack, head = top.  stack[-n:] silently takes fewer than n
   elements when the stack is shorter (no error in the implementation) *)
Fixpoint build_go (r : list rpn) (st : list expr) : option expr :=
  match r with
  | [] => match st with [e] => Some e | _ => None end      (* assert 1 == len(stack) *)
  | RAtom k v :: r' => build_go r' (EOperand k v :: st)
  | RPre :: r' => match st with a :: st' => build_go r' (EPre a :: st') | _ => None end
  | RPost :: r' => match st with a :: st' => build_go r' (EPost a :: st') | _ => None end
  | RBin o :: r' =>
      match st with b :: a :: st' => build_go r' (EBin o a b :: st') | _ => None end
  | RFunc n k :: r' => build_go r' (EFunc n (rev (firstn k st)) :: skipn k st)
  end.
Definition build (r : list rpn) : option expr := build_go r [].

Definition parse (ts : list tok) : option expr :=
  match sy ts with Some r => build r | None => None end.

(* ------------------------------------------------------------ the grammar *)
(* concrete trees: an [expr] with explicit parenthesis nodes.  [CEmpty] (an
   omitted call argument) is only legal directly below [CCall]; [CRow] only
   directly below [CArray]. *)
Inductive cst :=
| CAtom (k : okind) (v : list Z)
| CParen (c : cst)
| CNeg (c : cst)
| CPct (c : cst)
| CBin (o : binop) (l r : cst)
| CCall (name : list Z) (args : list cst)
| CArray (rows : list cst)
| CRow (items : list cst)
| CEmpty.

Fixpoint join_toks {A} (sep : list A) (l : list (list A)) : list A :=
  match l with
  | [] => []
  | [x] => x
  | x :: l' => x ++ sep ++ join_toks sep l'
  end.

Fixpoint flat (c : cst) : list tok :=
  match c with
  | CAtom k v => [TOperand k v]
  | CParen c => TParenOpen :: flat c ++ [TParenClose]
  | CNeg c => TPre :: flat c
  | CPct c => flat c ++ [TPost]
  | CBin o l r => flat l ++ TBin o :: flat r
  | CCall n args => TFuncOpen n :: join_toks [TSepArg] (map flat args) ++ [TFuncClose]
  | CArray rows => TArrayOpen :: join_toks [TSepRow] (map flat rows) ++ [TArrayClose]
  | CRow items => join_toks [TSepArg] (map flat items)
  | CEmpty => []
  end.

Fixpoint abs (c : cst) : expr :=
  match c with
  | CAtom k v => EOperand k v
  | CParen c => abs c
  | CNeg c => EPre (abs c)
  | CPct c => EPost (abs c)
  | CBin o l r => EBin o (abs l) (abs r)
  | CCall n args => EFunc n (map abs args)
  | CArray rows => EFunc n_array (map abs rows)
  | CRow items => EFunc n_arrayrow (map abs items)
  | CEmpty => EOperand KEmpty []
  end.

(* levels of Excel's grammar (the property's statement): comparison 1 < & 2 <
   + - 3 < * / 4 < ^ 5 < % 6 < prefix - 7 < reference operators 8 < atoms 9 *)
Definition bprec (o : binop) : Z :=
  match o with
  | OEq | ONe | OLt | OLe | OGt | OGe => 1
  | OCat => 2 | OAdd | OSub => 3 | OMul | ODiv => 4 | OPow => 5
  | OIsect | OColon | OUnion => 8
  end.

Definition top (c : cst) : Z :=
  match c with
  | CNeg _ => 7 | CPct _ => 6 | CBin o _ _ => bprec o
  | _ => 9
  end.

Definition is_empty (c : cst) : bool := match c with CEmpty => true | _ => false end.

(* well-formed = precedence-correct: binary operators are left-associative
   (left child's level >= the operator's, right child's level > it), the
   operand of prefix - has level >= 7 (an atom, a parenthesis, a call or another
   prefix -), the operand of % has level >= 6; call arguments are arbitrary
   well-formed trees or omitted; a call with one omitted argument does not
   exist ("F()" has no argument).
   Array constants ({..;..}) are NOT in [WF]: they are covered by the
   correspondence run only. *)
Fixpoint WF (c : cst) : Prop :=
  match c with
  | CAtom k _ => k <> KEmpty
  | CParen c => WF c
  | CNeg c => WF c /\ 7 <= top c
  | CPct c => WF c /\ 6 <= top c
  | CBin o l r => WF l /\ WF r /\ bprec o <= top l /\ bprec o < top r
  | CCall n args =>
      (fix wfl (l : list cst) : Prop :=
         match l with
         | [] => True
         | a :: l' => (if is_empty a then True else WF a) /\ wfl l'
         end) args /\ args <> [CEmpty]
  | CArray _ | CRow _ | CEmpty => False
  end.

(* [WF] extended by array constants {a,b;c,d}: one or more rows separated by
   ";", each one or more constants separated by "," (numbers, texts, logicals,
   errors: single operand tokens; a signed number is two tokens and is not
   covered).  An array constant is an operand (level 9) anywhere in a tree. *)
Definition const_item (c : cst) : Prop :=
  match c with CAtom k _ => k <> KEmpty | _ => False end.
Definition const_row (c : cst) : Prop :=
  match c with CRow items => items <> [] /\ Forall const_item items | _ => False end.
Fixpoint WFA (c : cst) : Prop :=
  match c with
  | CAtom k _ => k <> KEmpty
  | CParen c => WFA c
  | CNeg c => WFA c /\ 7 <= top c
  | CPct c => WFA c /\ 6 <= top c
  | CBin o l r => WFA l /\ WFA r /\ bprec o <= top l /\ bprec o < top r
  | CCall n args =>
      (fix wfl (l : list cst) : Prop :=
         match l with
         | [] => True
         | a :: l' => (if is_empty a then True else WFA a) /\ wfl l'
         end) args /\ args <> [CEmpty]
  | CArray rows => rows <> [] /\ Forall const_row rows
  | CRow _ | CEmpty => False
  end.

(* ------------------------------------------------- renderings for the harness *)
Definition rpn_text (r : rpn) : list Z * Z :=
  match r with
  | RAtom _ v => (v, -1)
  | RPre => (zs "-", -1)
  | RPost => (zs "%", -1)
  | RBin o => (op_text o, -1)
  | RFunc n k => (n, Z.of_nat k)
  end.
