(* Model/FormulaEval.v — C02, evaluation: what the emitted Python code computes
   ([pyeval]) and what the Excel tree means ([xleval]).

   * [env] = the name space the compiled lambda runs in
     (ExcelFormula.build_eval_context.load_function, excelformula.py 898-929):
     callables by Python name — _C_ (evaluate a cell), _R_ (evaluate a range),
     the library functions loaded by load_functions — and plain values by name
     (pi).  Both are ARBITRARY: the theorems quantify over every environment
     (all cell values, all function meanings).  A name that is not bound is a
     NameError in Python (-> UnknownFunction); the exception type [exn] of
     Lib/Py.v has no NameError, the model answers [Raise Unmodelled].

   * [pyeval] evaluates the Python AST [pyexpr] (= what ast.parse returns for
     the emitted text, Model/Emit.v [pyabs]) the way the code object built by
     ExcelFormula._compile_python_ast (excelformula.py 967-1040) does.  The
     OperatorWrapper rewrites that are modelled — hand transcription:
       - visit_BinOp (1001-1006): BinOp(l, op, r) ->
         excel_operator_operand_fixup(l, type(op).__name__, r), children first
         (generic_visit); NOT rewritten when op is BitAnd and both operands are
         calls of _REF_ (is_addr_and, 1027-1033: reference intersection) — that
         case is [Raise Unmodelled] here (Python's & on AddressRange objects);
       - visit_Compare (995-999): Compare(left, ops, comparators) ->
         fixup(left, type(ops[0]).__name__, comparators[0]).  A chained
         comparison a < b < c would lose c; the emitter never produces one
         (every operator node below an operator is parenthesised: [PyWF]
         demands both operands of a comparison above level 1), and [pyexpr] has
         binary comparisons only;
       - visit_UnaryOp (1008-1012): UnaryOp(op, x) ->
         fixup(Constant(EMPTY), type(op).__name__, x); the emitter only
         produces USub;
       - replace_op (1014-1025): a Call of the Name excel_operator_operand_fixup
         with positional arguments (left, Constant(op name), right): Python
         evaluates the arguments left to right, an exception in the left
         operand wins;
       - visit_Name (989-993) only collects names.
     [ast_op] is the table type(op).__name__ of CPython's ast classes.
     excel_operator_operand_fixup is Model/Arrays.v [op_fixup] (scalar fixup of
     Model/Ops.v plus the list_like dispatch).  A call f(a1, ..) looks the name
     up first (NameError before any argument is evaluated), then evaluates the
     arguments left to right.  Constants: None / True / False, string literals
     (Emit.v [py_string_literal]), number literals ([py_number] below).
     capture_error_state / the logging after the call do not change the value
     and are not modelled.

   * [xleval] evaluates the Excel tree [expr] (Model/Syntax.v) by Excel's
     reading: a literal denotes itself ([xl_number], [xl_unquote], TRUE/FALSE,
     an error constant is its text, an omitted argument is None), a reference
     is the cell / range reader applied to the normalised address, prefix
     minus is fixup(EMPTY, USub, x), x% is x / 100, a binary operator is the
     same [op_fixup] under its Excel name ([xl_op]), a function call applies
     the environment's meaning of the function's Python name to the argument
     values.

   * [finish] = the end of eval_func (excelformula.py 963): None / EMPTY -> 0. *)
From Coq Require Import ZArith QArith List Bool String Ascii.
From PV Require Import Lib.Py Model.Syntax Model.Emit Model.Ops Model.Arrays.
From PV Require Gen.excelutil.
Import ListNotations.
Open Scope Z_scope.

(* ------------------------------------------------------------ environment *)
Record env := {
  e_fun : list Z -> option (list pyval -> res pyval);
  e_name : list Z -> option pyval
}.

Definition call (E : env) (f : list Z) (vs : list pyval) : res pyval :=
  match e_fun E f with
  | Some g => g vs
  | None => Raise Unmodelled            (* NameError *)
  end.

Definition lookup_name (E : env) (s : list Z) : res pyval :=
  match e_name E s with Some v => Ok v | None => Raise Unmodelled end.

(* ------------------------------------------------------------ number literals *)
(* Python: decinteger (Emit.v py_decint) or floatnumber.  The float literal
   grammar  [digitpart] "." [digitpart] [exponent] | digitpart exponent  with
   single underscores between digits is the grammar float() applies to a text
   without sign and white space (Lib/Py.v parse_float: the exact rational).
   Integer literals with underscores or a base prefix, imaginary literals:
   None (not modelled). *)
Definition num_char (c : Z) : bool :=
  is_digit c || (c =? 46) || (c =? 101) || (c =? 69) || (c =? 43) || (c =? 45) || (c =? 95).
Definition float_mark (c : Z) : bool := (c =? 46) || (c =? 101) || (c =? 69).

Definition py_number (s : list Z) : option pyval :=
  match s with
  | [] => None
  | c :: _ =>
      if forallb is_digit s then option_map VInt (py_decint s)
      else if (is_digit c || (c =? 46)) && forallb num_char s && existsb float_mark s then
        match parse_float s with Ok q => Some (VFloat q) | Raise _ => None end
      else None
  end.

(* Excel: digits [ "." digits ] [ ("E"|"e") ["+"|"-"] digits ] with at least one
   digit in the mantissa; the value is the rational it writes.  Exponents
   beyond 300 are outside the model (Excel's own limit is 1E+307). *)
Definition xl_sign (r : list Z) : bool * list Z :=
  match r with
  | c :: r' => if c =? 45 then (true, r') else if c =? 43 then (false, r') else (false, r)
  | [] => (false, r)
  end.
Definition xl_mant (ip fp : list Z) : Q :=
  (inject_Z (dec_value ip 0) + inject_Z (dec_value fp 0) / inject_Z (10 ^ zlen fp))%Q.
Definition xl_scale (neg : bool) (x : Z) (m : Q) : Q :=
  (if neg then m / inject_Z (10 ^ x) else m * inject_Z (10 ^ x))%Q.

Definition xl_number (s : list Z) : option Q :=
  let '(ip, r1) := span is_digit s in
  let '(fp, r2) := match r1 with
                   | c :: r => if c =? 46 then span is_digit r else ([], r1)
                   | [] => ([], r1)
                   end in
  match ip ++ fp with
  | [] => None
  | _ :: _ =>
      match r2 with
      | [] => Some (xl_mant ip fp)
      | e :: r3 =>
          if (e =? 69) || (e =? 101) then
            let '(neg, r4) := xl_sign r3 in
            let '(ed, r5) := span is_digit r4 in
            match ed, r5 with
            | _ :: _, [] =>
                let x := dec_value ed 0 in
                if 300 <? x then None else Some (xl_scale neg x (xl_mant ip fp))
            | _, _ => None
            end
          else None
      end
  end.

(* pycel's carrier: a number written with digits only is an int, any other a float *)
Definition xl_numval (s : list Z) : option pyval :=
  match xl_number s with
  | Some q => Some (if forallb is_digit s then VInt (dec_value s 0) else VFloat (Qred q))
  | None => None
  end.

(* no superfluous leading zero on an integer (the known finding) *)
Definition zeros_ok (s : list Z) : bool :=
  negb (forallb is_digit s) || negb (hd 0 s =? 48) || forallb (fun d => d =? 48) s.

(* ------------------------------------------------------------ text literals *)
(* Excel's reading of a TEXT token: the characters between the quotes, a
   doubled quote is one quote *)
Fixpoint xl_unq (r : list Z) : option (list Z) :=     (* body and the closing quote *)
  match r with
  | [] => None
  | c :: r' =>
      if c =? dq then
        match r' with
        | [] => Some []
        | d :: r'' => if d =? dq then option_map (cons dq) (xl_unq r'') else None
        end
      else option_map (cons c) (xl_unq r')
  end.
Definition xl_unquote (v : list Z) : option (list Z) :=
  match v with
  | c :: r => if c =? dq then xl_unq r else None
  | [] => None
  end.

(* no quote, backslash, line feed, carriage return *)
Definition plain_char (c : Z) : bool :=
  negb (c =? dq) && negb (c =? bs) && negb (c =? 10) && negb (c =? 13).
Definition plain (s : list Z) : bool := forallb plain_char s.

(* ------------------------------------------------------------ Python side *)
Definition ast_op (p : pyop) : Ops.op :=
  match p with
  | PAdd => Ops.Add | PSub => Ops.Sub | PMul => Ops.Mult | PDiv => Ops.Div | PPow => Ops.Pow
  | PBitAnd => Ops.BitAnd | PEq => Ops.Eq | PNe => Ops.NotEq | PLt => Ops.Lt | PLe => Ops.LtE
  | PGt => Ops.Gt | PGe => Ops.GtE
  end.

Definition n_ref : list Z := zs "_REF_".
Definition is_ref_call (x : pyexpr) : bool :=
  match x with XCall f _ => str_eqb f n_ref | _ => false end.
(* OperatorWrapper.is_addr_and *)
Definition is_addr_and (p : pyop) (l r : pyexpr) : bool :=
  match p with PBitAnd => is_ref_call l && is_ref_call r | _ => false end.

Definition is_ident_start (c : Z) : bool := is_alpha c || (c =? 95).
Definition is_ident (s : list Z) : bool :=
  match s with
  | c :: r => is_ident_start c && forallb (fun c => is_ident_start c || is_digit c) r
  | [] => false
  end.

(* an atom of the emitted code: string literal, number literal, None / True /
   False, or a name *)
Definition py_atom (E : env) (s : list Z) : res pyval :=
  match s with
  | [] => Raise Unmodelled
  | c :: _ =>
      if c =? dq then
        match py_string_literal s with Some t => Ok (VStr t) | None => Raise Unmodelled end
      else if is_digit c || (c =? 46) then
        match py_number s with Some v => Ok v | None => Raise Unmodelled end
      else if str_eqb s (zs "None") then Ok VNone
      else if str_eqb s (zs "True") then Ok (VBool true)
      else if str_eqb s (zs "False") then Ok (VBool false)
      else if is_ident s then lookup_name E s
      else Raise Unmodelled
  end.

Definition EMPTY : pyval := excelutil.c_EMPTY.

Fixpoint pyeval (E : env) (x : pyexpr) : res pyval :=
  match x with
  | XAtom s => py_atom E s
  | XNeg a => v <- pyeval E a ;; op_fixup EMPTY Ops.USub v
  | XBin p l r =>
      if is_addr_and p l r then Raise Unmodelled
      else a <- pyeval E l ;; b <- pyeval E r ;; op_fixup a (ast_op p) b
  | XCall f args =>
      match e_fun E f with
      | None => Raise Unmodelled          (* NameError, before the arguments *)
      | Some g =>
          vs <- (fix go (l : list pyexpr) : res (list pyval) :=
                   match l with
                   | [] => Ok []
                   | a :: l' => v <- pyeval E a ;; r <- go l' ;; Ok (v :: r)
                   end) args ;;
          g vs
      end
  | XOther => Raise Unmodelled
  end.

(* ------------------------------------------------------------ Excel side *)
Definition xl_op (o : binop) : option Ops.op :=
  match o with
  | OEq => Some Ops.Eq | ONe => Some Ops.NotEq | OLt => Some Ops.Lt | OLe => Some Ops.LtE
  | OGt => Some Ops.Gt | OGe => Some Ops.GtE
  | OCat => Some Ops.BitAnd       (* the name fixup knows text concatenation by *)
  | OAdd => Some Ops.Add | OSub => Some Ops.Sub | OMul => Some Ops.Mult | ODiv => Some Ops.Div
  | OPow => Some Ops.Pow
  | OIsect | OColon | OUnion => None
  end.

Definition xl_operand (E : env) (k : okind) (v : list Z) : res pyval :=
  match k with
  | KNumber => match xl_numval v with Some n => Ok n | None => Raise Unmodelled end
  | KText => match xl_unquote v with Some s => Ok (VStr s) | None => Raise Unmodelled end
  | KLogical =>
      if str_eqb v (zs "TRUE") then Ok (VBool true)
      else if str_eqb v (zs "FALSE") then Ok (VBool false)
      else Raise Unmodelled
  | KError => Ok (VStr v)
  | KEmpty => Ok VNone
  | KRange =>
      match ref_parts v with
      | Some (sh, r, rng) => call E (if rng then zs "_R_" else zs "_C_") [VStr (sh ++ r)]
      | None => Raise Unmodelled
      end
  end.

Fixpoint xleval (E : env) (e : expr) : res pyval :=
  match e with
  | EOperand k v => xl_operand E k v
  | EPre a => v <- xleval E a ;; op_fixup EMPTY Ops.USub v
  | EPost a => v <- xleval E a ;; op_fixup v Ops.Div (VInt 100)
  | EBin o l r =>
      match xl_op o with
      | Some p => a <- xleval E l ;; b <- xleval E r ;; op_fixup a p b
      | None => Raise Unmodelled          (* reference operators *)
      end
  | EFunc name args =>
      let f := func_key name in
      if str_eqb f (zs "pi") then lookup_name E (zs "pi")
      else if str_eqb f (zs "true") then Ok (VBool true)
      else if str_eqb f (zs "false") then Ok (VBool false)
      else if is_handler f then Raise Unmodelled
      else
        match e_fun E (mapped_func f) with
        | None => Raise Unmodelled
        | Some g =>
            vs <- (fix go (l : list expr) : res (list pyval) :=
                     match l with
                     | [] => Ok []
                     | a :: l' => v <- xleval E a ;; r <- go l' ;; Ok (v :: r)
                     end) args ;;
            g vs
        end
  end.

(* eval_func's last line: ret_val if ret_val not in (None, EMPTY) else 0 *)
Definition finish (r : res pyval) : res pyval :=
  v <- r ;; Ok (if is_blank v then VInt 0 else v).

(* the value of the compiled formula / of the Excel tree *)
Definition py_value (E : env) (e : expr) : res pyval := finish (pyeval E (pyabs (emit CtxTop e))).
Definition xl_value (E : env) (e : expr) : res pyval := finish (xleval E e).

(* ------------------------------------------------------------ the fragment *)
(* literals the evaluation theorem speaks about: numbers of Excel's grammar
   without a superfluous leading zero, complete text tokens, TRUE / FALSE,
   error constants free of quotes and backslashes (all of Excel's are);
   no function whose Python name is _REF_ (is_addr_and would see it) *)
Definition literal_ok (k : okind) (v : list Z) : bool :=
  match k with
  | KNumber => match xl_number v with Some _ => zeros_ok v | None => false end
  | KText => match xl_unquote v with Some _ => true | None => false end
  | KLogical => str_eqb v (zs "TRUE") || str_eqb v (zs "FALSE")
  | KError => (2 <? zlen v) && plain v
  | KEmpty => true
  | KRange => true
  end.

Fixpoint lit_ok (e : expr) : Prop :=
  match e with
  | EOperand k v => literal_ok k v = true
  | EPre a | EPost a => lit_ok a
  | EBin _ l r => lit_ok l /\ lit_ok r
  | EFunc name args =>
      str_eqb (mapped_func (func_key name)) n_ref = false /\
      (fix al (l : list expr) : Prop :=
         match l with [] => True | a :: l' => lit_ok a /\ al l' end) args
  end.

(* executable version of [arith /\ lit_ok] for the harness *)
Definition is_some {A} (o : option A) : bool := match o with Some _ => true | None => false end.
Fixpoint evalb (e : expr) : bool :=
  match e with
  | EOperand k v =>
      literal_ok k v && match k with KRange => ref_modelled v | _ => true end
  | EPre a | EPost a => evalb a
  | EBin o l r => is_some (pyop_of o) && evalb l && evalb r
  | EFunc name args =>
      let f := func_key name in
      (negb (is_handler f) || str_eqb f (zs "pi") || str_eqb f (zs "true") || str_eqb f (zs "false"))
      && negb (str_eqb (mapped_func f) n_ref)
      && forallb evalb args
  end.
