(* Model/Threads.v — several threads evaluating compiled workbooks.

   Shared by all compilers of a process (module-level singletons,
   /repo/src/pycel/excelutil.py): [iterative_eval_tracker] and
   [in_array_formula_context].  Both keep their state in a class-level
   threading.local(): every thread sees its own namespace, whose attributes do not
   exist until the [ns] property creates them:
     _IterativeEvalTracker.ns : todo = set(), computed = set(), iteration_number = 0,
                                iterations = 100, tolerance = 0.001
     _ArrayFormulaContext.ns  : ctx_addresses = [False], _ctx_address = None
   Everything else an evaluation touches lives in the compiler (cell_map: the
   cells' _value/_prev_value/wip, the ranges' cached values).

   A thread runs one operation as a small-step machine whose steps are the entries
   of ExcelCompiler._evaluate (the granularity at which the harness pre-empts real
   threads): step 0 is everything before the first entry (tracker(iterations,
   tolerance), inc_iteration_number, graph construction), step i runs from the i-th
   entry to the next one — reading a cell that needs no calculation, start_calcs +
   pushing the array context for a formula cell, and, when a formula's last operand
   has arrived, fit_to_range (reads the top of the context stack), popping the
   context, the value setter, the return into the waiting formula, the end-of-pass
   test and the next pass's inc_iteration_number.  Formulas are those of
   Model/Iter.v without SUM terms.  A schedule is a list of thread ids.

   Not modelled (the check is labelled partial for this): pre-emption inside one
   step (C-level operations, the GIL hand-over inside numpy/openpyxl), state
   reachable only through objects outside the inventory of harness/props/c07.py. *)
From Coq Require Import ZArith QArith List Bool Lia.
From PV Require Import Lib.Py Model.Iter.
Import ListNotations.
Open Scope Z_scope.

(* ---- the two thread-local namespaces ---- *)
Inductive cref := CFalse | CNone | CAddr (h w : nat).
Record actx := { ctx_addresses : list cref; ctx_pending : cref }.
Definition create_actx : actx := {| ctx_addresses := [CFalse]; ctx_pending := CNone |}.

Record rawns := { r_todo : list nat; r_computed : list nat; r_itn : Z;
                  r_iters : option Z; r_tol : option Q }.     (* None: the attribute does not exist *)
Definition create_ns : rawns :=
  {| r_todo := []; r_computed := []; r_itn := 0; r_iters := Some 100; r_tol := Some tol_default |}.

(* threading.local() of one thread: nothing exists until first use *)
Record tns := { n_tr : option rawns; n_ctx : option actx }.
Definition absent : tns := {| n_tr := None; n_ctx := None |}.
Definition the_ns (n : tns) : rawns := match n_tr n with Some r => r | None => create_ns end.
Definition the_ctx (n : tns) : actx := match n_ctx n with Some c => c | None => create_actx end.

(* ---- per-compiler state ---- *)
Record comp := { k_cells : list cell; k_rngs : list rng }.
Definition init_comp (w : wbook) : comp :=
  {| k_cells := cells (init_state w); k_rngs := rngs (init_state w) |}.

(* reading ns.tolerance / ns.iterations of a namespace that lacks them is an AttributeError *)
Definition assemble (k : comp) (r : rawns) : option state :=
  match r_iters r, r_tol r with
  | Some i, Some t => Some {| cells := k_cells k; rngs := k_rngs k;
                              tr := {| todo := r_todo r; computed := r_computed r; itn := r_itn r;
                                       iters := i; tol := t |} |}
  | _, _ => None
  end.
Definition raw_of (st : state) : rawns :=
  {| r_todo := todo (tr st); r_computed := computed (tr st); r_itn := itn (tr st);
     r_iters := Some (iters (tr st)); r_tol := Some (tol (tr st)) |}.
Definition comp_of (st : state) : comp := {| k_cells := cells st; k_rngs := rngs st |}.

(* ---- the machine of one thread ---- *)
Inductive kind :=
| KEval (t : nat) (it : Z) (tolv : Q)     (* evaluate(address, iterations, tolerance) *)
| KSet (c : nat) (v : val)                (* set_value on an iterative compiler *)
| KBuild (seed : nat).                    (* cell construction: load / trim_graph / _gen_graph *)

Inductive phase :=
| PInit                 (* nothing done yet *)
| PCall (j : nat)       (* at the entry of _evaluate(j) *)
| PDone
| PFail (e : exn)
| PMissing.             (* a namespace attribute that does not exist was read *)

(* a formula waiting for a reading: cell, coefficient of the reading, terms left, sum so far *)
Inductive frame := Fr (c : nat) (a : Q) (rest : list term) (acc : Q).

Record mach := { m_kind : kind; m_phase : phase; m_stack : list frame;
                 m_res : val; m_passes : Z; m_calls : nat; m_fit : list cref }.
Definition start (kd : kind) : mach :=
  {| m_kind := kd; m_phase := PInit; m_stack := []; m_res := None; m_passes := 0; m_calls := 0%nat;
     m_fit := [] |}.

(* working tuple of one step *)
Record sim := { s_st : state; s_ctx : actx; s_stack : list frame; s_res : val;
                s_phase : phase; s_passes : Z; s_fit : list cref }.

Definition ctx_push (c : actx) (a : cref) : actx :=          (* ctx(address); __enter__ *)
  {| ctx_addresses := ctx_addresses c ++ [a]; ctx_pending := CNone |}.
Definition ctx_top (c : actx) : cref := last (ctx_addresses c) CFalse.
Definition ctx_pop (c : actx) : actx :=                       (* __exit__ *)
  {| ctx_addresses := removelast (ctx_addresses c); ctx_pending := ctx_pending c |}.

Inductive pending := Ret (v : val) | Cont.

Definition target_of (kd : kind) : nat := match kd with KEval t _ _ => t | KSet c _ => c | KBuild s => s end.

(* run until the next _evaluate entry *)
Fixpoint settle (w : wbook) (t : nat) (fuel : nat) (p : pending) (s : sim) : sim :=
  match fuel with
  | O => {| s_st := s_st s; s_ctx := s_ctx s; s_stack := s_stack s; s_res := s_res s;
            s_phase := PFail OutOfFuel; s_passes := s_passes s; s_fit := s_fit s |}
  | S f =>
    match p, s_stack s with
    | Ret v, [] =>                                   (* the top-level _evaluate returned *)
        if done (s_st s)
        then {| s_st := s_st s; s_ctx := s_ctx s; s_stack := []; s_res := v; s_phase := PDone;
                s_passes := itn (tr (s_st s)); s_fit := s_fit s |}
        else {| s_st := inc_iteration (s_st s); s_ctx := s_ctx s; s_stack := []; s_res := v;
                s_phase := PCall t; s_passes := s_passes s; s_fit := s_fit s |}
    | Ret v, Fr c a rest acc :: stk =>
        settle w t f Cont {| s_st := s_st s; s_ctx := s_ctx s;
                             s_stack := Fr c a rest (Qred (acc + a * num v)) :: stk; s_res := s_res s;
                             s_phase := s_phase s; s_passes := s_passes s; s_fit := s_fit s |}
    | Cont, [] => s
    | Cont, Fr c a [] acc :: stk =>                  (* the formula is complete *)
        let st1 := setter c (Some acc) (s_st s) in
        settle w t f (Ret (readv st1 c))
               {| s_st := st1; s_ctx := ctx_pop (s_ctx s); s_stack := stk; s_res := s_res s;
                  s_phase := s_phase s; s_passes := s_passes s;
                  s_fit := s_fit s ++ [ctx_top (s_ctx s)] |}       (* what fit_to_range saw *)
    | Cont, Fr c _ (TCell a j :: rest) acc :: stk =>
        {| s_st := s_st s; s_ctx := s_ctx s; s_stack := Fr c a rest acc :: stk; s_res := s_res s;
           s_phase := PCall j; s_passes := s_passes s; s_fit := s_fit s |}
    | Cont, Fr c _ (TSum _ _ :: _) _ :: _ =>
        {| s_st := s_st s; s_ctx := s_ctx s; s_stack := s_stack s; s_res := s_res s;
           s_phase := PFail Unmodelled; s_passes := s_passes s; s_fit := s_fit s |}
    end
  end.

Definition settle_fuel (s : sim) : nat :=
  S (S (2 * fold_left (fun n fr => match fr with Fr _ _ rest _ => n + S (length rest) end) (s_stack s) 0))%nat.

(* the entry of _evaluate(j) *)
Definition enter (w : wbook) (t : nat) (j : nat) (s : sim) : sim :=
  let st := s_st s in
  if negb (built (getc st j)) then
    {| s_st := st; s_ctx := s_ctx s; s_stack := s_stack s; s_res := s_res s;
       s_phase := PFail Unmodelled; s_passes := s_passes s; s_fit := s_fit s |}
  else if needs_calc st j then
    match formula (spec w j) with
    | None => settle w t (settle_fuel s) (Ret (readv st j)) s
    | Some (b, ts) =>
        let s1 := {| s_st := start_calcs j st; s_ctx := ctx_push (s_ctx s) CNone;
                     s_stack := Fr j 0 ts (Qred b) :: s_stack s; s_res := s_res s;
                     s_phase := s_phase s; s_passes := s_passes s; s_fit := s_fit s |} in
        settle w t (settle_fuel s1) Cont s1
    end
  else settle w t (settle_fuel s) (Ret (readv st j)) s.

Definition fail (m : mach) (p : phase) : mach :=
  {| m_kind := m_kind m; m_phase := p; m_stack := m_stack m; m_res := m_res m;
     m_passes := m_passes m; m_calls := m_calls m; m_fit := m_fit m |}.

Definition with_tr (n : tns) (r : rawns) : tns := {| n_tr := Some r; n_ctx := n_ctx n |}.

(* one step of one thread: a function of its own namespace and its own compiler *)
Definition tstep (w : wbook) (m : mach) (n : tns) (k : comp) : mach * tns * comp :=
  match m_phase m with
  | PDone | PFail _ | PMissing => (m, n, k)
  | PInit =>
      match m_kind m with
      | KEval t it tolv =>
          (* tracker(iterations, tolerance): creates the namespace if needed, sets three fields *)
          let r := the_ns n in
          let r1 := {| r_todo := r_todo r; r_computed := r_computed r; r_itn := 0;
                       r_iters := Some it; r_tol := Some tolv |} in
          match assemble k r1 with
          | None => (fail m PMissing, with_tr n r1, k)
          | Some st =>
              let st1 := inc_iteration st in
              match (if built (getc st1 t) then Ok st1 else gen_graph w t st1) with
              | Raise e => (fail m (PFail e), with_tr n (raw_of st1), comp_of st1)
              | Ok st2 => (fail m (PCall t), with_tr n (raw_of st2), comp_of st2)
              end
          end
      | KSet c v =>
          if negb (built (nth c (k_cells k) cell0)) then (fail m (PFail AssertionError), n, k)
          else
            let x := nth c (k_cells k) cell0 in
            if val_eqb (if wip x then prev x else value x) v then (fail m PDone, n, k)
            else match assemble k (the_ns n) with           (* the setter reads ns.tolerance *)
                 | None => (fail m PMissing, with_tr n (the_ns n), k)
                 | Some st => let st1 := setter c v (setter c v st) in
                              (fail m PDone, with_tr n (raw_of st1), comp_of st1)
                 end
      | KBuild seed =>
          match assemble k (the_ns n) with                   (* every constructed cell goes through the setter *)
          | None => (fail m PMissing, with_tr n (the_ns n), k)
          | Some st =>
              match gen_graph w seed st with
              | Raise e => (fail m (PFail e), with_tr n (the_ns n), k)
              | Ok st1 => (fail m PDone, with_tr n (raw_of st1), comp_of st1)
              end
          end
      end
  | PCall j =>
      match assemble k (the_ns n) with
      | None => (fail m PMissing, n, k)
      | Some st =>
          let s := enter w (target_of (m_kind m)) j
                         {| s_st := st; s_ctx := the_ctx n; s_stack := m_stack m; s_res := m_res m;
                            s_phase := PFail OutOfFuel; s_passes := m_passes m; s_fit := m_fit m |} in
          ({| m_kind := m_kind m; m_phase := s_phase s; m_stack := s_stack s; m_res := s_res s;
              m_passes := s_passes s; m_calls := S (m_calls m); m_fit := s_fit s |},
           {| n_tr := Some (raw_of (s_st s)); n_ctx := Some (s_ctx s) |},
           comp_of (s_st s))
      end
  end.

(* ---- the process: threads, namespaces, compilers ---- *)
Record config := { c_wb : nat -> wbook;       (* workbook of the compiler a thread works on *)
                   c_comp : nat -> nat;        (* thread -> compiler *)
                   c_ns : nat -> nat }.        (* thread -> namespace (threading.local: the identity) *)
Record glob := { g_m : nat -> mach; g_ns : nat -> tns; g_k : nat -> comp }.

Definition fupd {A} (f : nat -> A) (i : nat) (x : A) : nat -> A := fun j => if Nat.eqb j i then x else f j.

Definition gstep (cf : config) (G : glob) (t : nat) : glob :=
  let '(m, n, k) := tstep (c_wb cf t) (g_m G t) (g_ns G (c_ns cf t)) (g_k G (c_comp cf t)) in
  {| g_m := fupd (g_m G) t m; g_ns := fupd (g_ns G) (c_ns cf t) n; g_k := fupd (g_k G) (c_comp cf t) k |}.

Definition run (cf : config) (sched : list nat) (G : glob) : glob := fold_left (gstep cf) sched G.

(* what thread t can observe: its machine, its namespace, its compiler *)
Definition view (cf : config) (t : nat) (G : glob) : mach * tns * comp :=
  (g_m G t, g_ns G (c_ns cf t), g_k G (c_comp cf t)).

Definition only (t : nat) (sched : list nat) : list nat := filter (Nat.eqb t) sched.
