(* Model/Scan.v — C04: the declared precedents of a formula and what its
   evaluation can read.

   * [pytokens ren t] = the NAME / OP / STRING / NUMBER stream Python's
     tokenize produces for the emitted code ([ren]: inside a region whose text
     had _R_ / _C_ renamed to _REF_ by OperatorNode.emit / _build_reference);
   * [scan] transcribes ExcelFormula.needed_addresses (excelformula.py 588-606):
     a NAME in ADDR_FUNCS_NAMES (GENERATED constant) whose next token is "(" and
     whose third token is ")" contributes the second token's text without its
     first and last character; [needed e] = uniqueify of that;
   * [reads t] = the addresses the compiled code can pass to _C_ / _R_ when it
     runs (Python evaluates every argument, so every _C_/_R_ call node is a
     possible read; _REF_ only builds an address and reads nothing):
       RExact a    the cell / range a itself,
       RWithin l   a range computed by the intersection operator from the
                   written ranges l (hence contained in each of them: C11),
       RNew        a range computed by the range-union operator ":" between
                   computed references — may contain new cells.
   Text literals are assumed free of backslash / newline (C02) and of the
   substrings _R_ / _C_ (the renaming is textual in the implementation). *)
From Coq Require Import String Ascii.
From Coq Require Import ZArith List Bool.
From PV Require Import Lib.Py Model.Syntax Model.Emit.
From PV Require Gen.excelformula.
Import ListNotations.
Open Scope Z_scope.

Inductive ptok := KName (s : list Z) | KOp (s : list Z) | KStr (s : list Z) | KNum (s : list Z).
Definition tok_text (t : ptok) : list Z :=
  match t with KName s | KOp s | KStr s | KNum s => s end.

Definition n_R : list Z := zs "_R_"%string.
Definition n_C : list Z := zs "_C_"%string.
Definition n_REF : list Z := zs "_REF_"%string.
Definition n_str : list Z := zs "str"%string.
Definition t_open : list Z := zs "("%string.
Definition t_close : list Z := zs ")"%string.
Definition t_comma : list Z := zs ","%string.

Definition ren_name (ren : bool) (n : list Z) : list Z :=
  if ren && (str_eqb n n_R || str_eqb n n_C) then n_REF else n.

Definition is_string_atom (s : list Z) : bool :=
  match s with c :: _ => c =? dq | [] => false end.
Definition classify (ren : bool) (s : list Z) : ptok :=
  match s with
  | c :: _ => if c =? dq then KStr s
              else if is_digit c || (c =? 46) then KNum s else KName (ren_name ren s)
  | [] => KOp []
  end.

Fixpoint pytokens (ren : bool) (t : pycst) : list ptok :=
  match t with
  | PAtom s => [classify ren s]
  | PParen t => KOp t_open :: pytokens ren t ++ [KOp t_close]
  | PNeg t => KOp (zs "-"%string) :: pytokens ren t
  | PBin o l r => pytokens ren l ++ KOp (pyop_text o) :: pytokens ren r
  | PCall f args =>
      KName (ren_name ren f) :: KOp t_open ::
      join_toks [KOp t_comma] (map (pytokens ren) args) ++ [KOp t_close]
  | PTuple1 t => KOp t_open :: pytokens ren t ++ [KOp t_comma; KOp t_close]
  | PSeq items => join_toks [KOp t_comma] (map (pytokens ren) items)
  | PRefOp o l r =>
      KName n_R :: KOp t_open :: KName n_str :: KOp t_open ::
      (pytokens true l ++ KOp (pyop_text o) :: pytokens true r) ++ [KOp t_close; KOp t_close]
  | PRaw s => [KOp s]
  | PRenamed t => pytokens true t
  end.

(* t.string in ADDR_FUNCS_NAMES *)
Definition is_addr_name (n : list Z) : bool :=
  match excelformula.c_ADDR_FUNCS_NAMES with
  | VTuple l => existsb (fun v => py_eq v (VStr n)) l
  | _ => false
  end.

(* string[1:-1] *)
Definition strip1 (s : list Z) : list Z := removelast (tl s).

Definition scan_head (t : ptok) (rest : list ptok) : list (list Z) :=
  match t, rest with
  | KName n, t1 :: t2 :: t3 :: _ =>
      if is_addr_name n && str_eqb (tok_text t1) t_open && str_eqb (tok_text t3) t_close
      then [strip1 (tok_text t2)] else []
  | _, _ => []
  end.
Fixpoint scan (ts : list ptok) : list (list Z) :=
  match ts with
  | [] => []
  | t :: rest => scan_head t rest ++ scan rest
  end.

(* excelutil.uniqueify: first occurrences, in order *)
Fixpoint uniq_go (seen l : list (list Z)) : list (list Z) :=
  match l with
  | [] => []
  | x :: l' => if existsb (str_eqb x) seen then uniq_go seen l' else x :: uniq_go (x :: seen) l'
  end.
Definition uniq (l : list (list Z)) : list (list Z) := uniq_go [] l.

Definition needed (e : expr) : list (list Z) := uniq (scan (pytokens false (emit CtxTop e))).

(* ------------------------------------------------------------ the read trace *)
Inductive rd := RExact (a : list Z) | RWithin (l : list (list Z)) | RNew.

Definition direct_ref (f : list Z) (args : list pycst) : list (list Z) :=
  match args with
  | [PAtom s] => if is_string_atom s then [strip1 s] else []
  | _ => []
  end.
Definition is_ref_fun (f : list Z) : bool := str_eqb f n_R || str_eqb f n_C || str_eqb f n_REF.
Definition is_read_fun (f : list Z) : bool := str_eqb f n_R || str_eqb f n_C.

(* addresses written in the code as _C_("..") / _R_("..") / _REF_("..") *)
Fixpoint written (t : pycst) : list (list Z) :=
  match t with
  | PAtom _ | PRaw _ => []
  | PParen t | PNeg t | PTuple1 t | PRenamed t => written t
  | PBin _ l r | PRefOp _ l r => written l ++ written r
  | PCall f args =>
      (if is_ref_fun f then direct_ref f args else []) ++ concat (map written args)
  | PSeq items => concat (map written items)
  end.

Fixpoint reads (t : pycst) : list rd :=
  match t with
  | PAtom _ | PRaw _ => []
  | PParen t | PNeg t | PTuple1 t => reads t
  | PBin _ l r => reads l ++ reads r
  | PCall f args =>
      (if is_read_fun f then map RExact (direct_ref f args) else []) ++ concat (map reads args)
  | PSeq items => concat (map reads items)
  | PRefOp o l r =>
      match o with
      | PBitAnd => [RWithin (written l ++ written r)]
      | _ => [RNew]
      end
  | PRenamed _ => []          (* _REF_(..) builds an address: nothing is read *)
  end.

Definition covered (S : list (list Z)) (r : rd) : Prop :=
  match r with
  | RExact a => In a S
  | RWithin l => forall a, In a l -> In a S
  | RNew => False
  end.

(* formulas whose references are written: no range-union between computed
   references, nothing outside the emitter model *)
Fixpoint refs_written (t : pycst) : bool :=
  match t with
  | PAtom _ => true
  | PRaw _ => false
  | PParen t | PNeg t | PTuple1 t | PRenamed t => refs_written t
  | PBin _ l r => refs_written l && refs_written r
  | PRefOp o l r => (match o with PBitAnd => true | _ => false end) && refs_written l && refs_written r
  | PCall _ args | PSeq args => forallb refs_written args
  end.
