(* Model/TextFormat.v — TEXT(x, f) for a number x and a one-section format f
   over the characters 0 # , . % with at most one '.', transcribed by hand from
   pycel.lib.text.TextFormat (_tokenize_format restricted to these characters,
   format_value's number path, _number_converter, _number_token_converter).
   Everything else (dates, text values, other format characters, sections) is
   Unmodelled.  Python's format(x, '.nf') and round(x, 0) are the
   round-half-even of the exact value of the double; the model is handed that
   exact value as a rational. *)
From Coq Require Import ZArith QArith Qround Qabs List Bool Lia.
From PV Require Import Lib.Py.
From PV Require Gen.excelutil Gen.text.
From PV Require Import Model.Text.
Import ListNotations.
Open Scope Z_scope.

Inductive tok :=
| TNum (c : Z) (n : nat)     (* a run of n identical placeholders '0' or '#' *)
| TDot                       (* the decimal point (the first '.'), a NUMBER token *)
| TStr (c : Z).              (* a literal character *)

Definition is_ph (c : Z) : bool := (c =? 48) || (c =? 35).
Definition opt_ph (o : option Z) : bool := match o with Some c => is_ph c | None => false end.

Record tstate := { t_toks : list tok (* reversed *); t_dec : bool; t_thou : bool; t_pct : nat }.

(* one character of the format; prev/next are the neighbouring characters *)
Definition tok_step (st : tstate) (prev : option Z) (c : Z) (next : option Z) : res tstate :=
  if is_ph c then
    match prev, t_toks st with
    | Some p, TNum d n :: ts =>
        if (p =? c) && (d =? c)
        then Ok {| t_toks := TNum d (S n) :: ts; t_dec := t_dec st; t_thou := t_thou st; t_pct := t_pct st |}
        else Ok {| t_toks := TNum c 1 :: t_toks st; t_dec := t_dec st; t_thou := t_thou st; t_pct := t_pct st |}
    | _, _ => Ok {| t_toks := TNum c 1 :: t_toks st; t_dec := t_dec st; t_thou := t_thou st; t_pct := t_pct st |}
    end
  else if c =? 44 then
    if t_dec st || t_thou st
       || match prev with None => true | Some _ => false end
       || match next with None => true | Some _ => false end
       || negb (opt_ph prev) || negb (opt_ph next)
    then (if opt_ph prev then Ok st
          else Ok {| t_toks := TStr 44 :: t_toks st; t_dec := t_dec st; t_thou := t_thou st; t_pct := t_pct st |})
    else Ok {| t_toks := t_toks st; t_dec := t_dec st; t_thou := true; t_pct := t_pct st |}
  else if c =? 46 then
    if t_dec st then Raise Unmodelled
    else Ok {| t_toks := TDot :: t_toks st; t_dec := true; t_thou := t_thou st; t_pct := t_pct st |}
  else if c =? 37 then
    Ok {| t_toks := TStr 37 :: t_toks st; t_dec := t_dec st; t_thou := t_thou st; t_pct := S (t_pct st) |}
  else Raise Unmodelled.

Fixpoint tok_loop (st : tstate) (prev : option Z) (s : str) : res tstate :=
  match s with
  | [] => Ok st
  | c :: s' =>
      st' <- tok_step st prev c (match s' with d :: _ => Some d | [] => None end) ;;
      tok_loop st' (Some c) s'
  end.

Definition tokenize (f : str) : res tstate :=
  tok_loop {| t_toks := []; t_dec := false; t_thou := false; t_pct := 0 |} None f.

(* ----------------------------------------------------- digits of the number *)
Fixpoint group_rev (l : str) (k : nat) : str :=     (* l: digits, least significant first *)
  match l with
  | [] => []
  | d :: l' => match k with
               | 3%nat => 44 :: d :: group_rev l' 1
               | _ => d :: group_rev l' (S k)
               end
  end.
Fixpoint lstrip0 (s : str) : str :=
  match s with c :: s' => if c =? 48 then lstrip0 s' else s | [] => [] end.
Definition rstrip0 (s : str) : str := rev (lstrip0 (rev s)).
Definition pad0 (n : nat) (s : str) : str := repeat 48 (n - length s) ++ s.

(* ------------------------------------------------ _number_token_converter *)
Definition next_d (dflt : option Z) (ds : str) : option Z * str :=
  match ds with d :: ds' => (Some d, ds') | [] => (dflt, []) end.
Definition is_digit (c : Z) : bool := (48 <=? c) && (c <=? 57).
Fixpoint place (n : nat) (dflt : option Z) (ds : str) : str * str :=
  match n with
  | O => ([], ds)
  | S n' =>
      let '(c, ds1) := next_d dflt ds in
      match c with
      | None => place n' dflt ds1
      | Some c =>
          if is_digit c then let '(r, ds2) := place n' dflt ds1 in (c :: r, ds2)
          else let '(c2, ds2) := next_d dflt ds1 in
               let '(r, ds3) := place n' dflt ds2 in
               (c :: match c2 with Some x => x :: r | None => r end, ds3)
      end
  end.
Fixpoint conv (toks : list tok) (ds filler : str) : str :=
  match toks with
  | [] => ds ++ filler
  | TStr c :: ts => conv ts ds (filler ++ [c])
  | TDot :: ts => conv ts ds filler           (* never reached: split off before *)
  | TNum c n :: ts =>
      let '(r, ds') := place n (if c =? 35 then None else Some 48) ds in
      filler ++ r ++ conv ts ds' []
  end.

Fixpoint split_dot (toks : list tok) : list tok * list tok :=
  match toks with
  | [] => ([], [])
  | TDot :: ts => ([], ts)
  | t :: ts => let '(a, b) := split_dot ts in (t :: a, b)
  end.
Fixpoint count_ph (toks : list tok) : nat :=
  match toks with
  | [] => O
  | TNum _ n :: ts => (n + count_ph ts)%nat
  | _ :: ts => count_ph ts
  end.
Definition is_number_tok (t : tok) : bool := match t with TStr _ => false | _ => true end.
Definition tok_chars (toks : list tok) : str :=
  flat_map (fun t => match t with TStr c => [c] | TDot => [46] | TNum c n => repeat c n end) toks.

(* TEXT of the exact number x *)
Definition text_fmt (x : Q) (f : str) : res str :=
  st <- tokenize f ;;
  let toks := rev (t_toks st) in
  match toks with
  | [] => Ok (if q_ltb x 0 then [45] else [])
  | _ :: _ =>
      let neg := q_ltb x 0 in
      let ax := Qabs x in
      let toks := if neg then TStr 45 :: toks else toks in
      if negb (existsb is_number_tok toks) then Ok (tok_chars toks)
      else
        let scaled := (ax * inject_Z (100 ^ Z.of_nat (t_pct st)))%Q in
        let grp (ds : str) := if t_thou st then rev (group_rev (rev ds) 0) else ds in
        let '(ltoks, rtoks) := split_dot toks in
        if t_dec st then
          let n := count_ph rtoks in
          let m := q_round_half_even (scaled * inject_Z (10 ^ Z.of_nat n)) in
          let ip := m / 10 ^ Z.of_nat n in
          let fp := m mod 10 ^ Z.of_nat n in
          let left := lstrip0 (grp (str_of_Z ip)) in
          let right := rstrip0 (pad0 n (if (n =? 0)%nat then [] else str_of_Z fp)) in
          Ok (rev (conv (rev ltoks) (rev left) []) ++ 46 :: conv rtoks right [])
        else
          let m := q_round_half_even scaled in
          let left := lstrip0 (grp (str_of_Z m)) in
          Ok (rev (conv (rev ltoks) (rev left) []))
  end.

Definition text_body (a : list pyval) : res pyval :=
  match a with
  | [x; VStr f] =>
      match x with
      | VNone => r <- text_fmt 0 f ;; Ok (VStr r)
      | VInt z => r <- text_fmt (inject_Z z) f ;; Ok (VStr r)
      | VFloat q => r <- text_fmt q f ;; Ok (VStr r)
      | _ => Raise Unmodelled
      end
  | [_; _] => Raise Unmodelled
  | _ => Raise TypeError
  end.
Definition X_text : list pyval -> res pyval := wrap [1%nat] [] text_body.
