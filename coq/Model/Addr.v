(* Model/Addr.v — executable model of pycel's address algebra
   (/repo/src/pycel/excelutil.py: AddressMixin, AddressRange, AddressCell,
   unquote_sheetname, split_sheetname, range_boundaries, r1c1_boundaries) and
   of the openpyxl helpers it calls (get_column_letter,
   column_index_from_string, range_boundaries, quote_sheetname).

   A cell is (sheet, col, row); a range is (sheet, two corners); a corner
   coordinate 0 means "unbounded side", as in the code.  The text fields the
   implementation stores in its namedtuples (address, coordinate) are functions
   of these numbers and are recomputed by [address]/[coordinate].

   Outside the model (answered with [Raise Unmodelled]): coordinate text with
   non-ASCII characters (Python's \d matches Unicode digits) or a line feed
   (Python's $ matches before a trailing \n), structured table references,
   defined names, multi-colon ranges, multi-area ranges. *)
From Coq Require Import ZArith List Bool Lia.
From PV Require Import Lib.Py.
Import ListNotations.
Open Scope Z_scope.

Definition MAX_COL : Z := 16384.
Definition MAX_ROW : Z := 1048576.

Definition NULL_ERROR : str := [35; 78; 85; 76; 76; 33].            (* #NULL! *)
Definition VALUE_ERROR : str := [35; 86; 65; 76; 85; 69; 33].       (* #VALUE! *)
(* openpyxl Tokenizer.ERROR_CODES *)
Definition ERROR_CODES : list str :=
  [ NULL_ERROR
  ; [35; 68; 73; 86; 47; 48; 33]                                    (* #DIV/0! *)
  ; VALUE_ERROR
  ; [35; 82; 69; 70; 33]                                            (* #REF! *)
  ; [35; 78; 65; 77; 69; 63]                                        (* #NAME? *)
  ; [35; 78; 85; 77; 33]                                            (* #NUM! *)
  ; [35; 78; 47; 65]                                                (* #N/A *)
  ; [35; 71; 69; 84; 84; 73; 78; 71; 95; 68; 65; 84; 65] ].         (* #GETTING_DATA *)
Definition is_error_code (s : str) : bool := existsb (str_eqb s) ERROR_CODES.

(* ------------------------------------------------------- characters *)
Definition is_upper (c : Z) : bool := (65 <=? c) && (c <=? 90).
Definition is_lower (c : Z) : bool := (97 <=? c) && (c <=? 122).
Definition is_alpha (c : Z) : bool := is_upper c || is_lower c.
Definition is_digit (c : Z) : bool := (48 <=? c) && (c <=? 57).
Definition upper (c : Z) : Z := if is_lower c then c - 32 else c.
Definition nonempty (s : str) : bool := match s with [] => false | _ => true end.
Definition mem (ch : Z) (s : str) : bool := existsb (Z.eqb ch) s.

Fixpoint span (p : Z -> bool) (s : str) : str * str :=
  match s with
  | [] => ([], [])
  | c :: r => if p c then (c :: fst (span p r), snd (span p r)) else ([], s)
  end.

(* ------------------------------------------------- column letters *)
(* openpyxl get_column_letter's loop: divmod by 26, a zero remainder is the
   letter Z and borrows one from the quotient *)
Fixpoint letters_fuel (fuel : nat) (n : Z) (acc : str) : str :=
  match fuel with
  | O => acc
  | S f =>
      if n <=? 0 then acc
      else let q := n / 26 in let r := n mod 26 in
           if r =? 0 then letters_fuel f (q - 1) (90 :: acc)
           else letters_fuel f q ((64 + r) :: acc)
  end.
Definition letters_of_col (n : Z) : str :=
  letters_fuel (S (Z.to_nat (Z.log2 n))) n [].
Definition get_column_letter (n : Z) : res str :=
  if (1 <=? n) && (n <=? 18278) then Ok (letters_of_col n) else Raise ValueError.

(* value of a letter string, most significant letter first; case-insensitive *)
Definition col_step (a c : Z) : Z := a * 26 + (upper c - 64).
Definition col_of_letters (s : str) : Z := fold_left col_step s 0.
Definition column_index_from_string (s : str) : res Z :=
  if existsb (fun c => 127 <? c) s then Raise Unmodelled     (* str.upper() of non-ASCII text *)
  else if 3 <? zlen s then Raise ValueError
  else if forallb is_alpha s then
    let v := col_of_letters s in
    if (0 <? v) && (v <? 18279) then Ok v else Raise ValueError
  else Raise ValueError.

(* int() of a string of ASCII decimal digits *)
Definition dec_step (a c : Z) : Z := a * 10 + (c - 48).
Definition dec_of (s : str) : Z := fold_left dec_step s 0.

(* ------------------------------------------------------- addresses *)
Inductive addr :=
| ACell (sheet : str) (col row : Z)
| ARange (sheet : str) (c1 r1 c2 r2 : Z).
(* what an operator or the factory can return: an address or an error text *)
Inductive aval := VA (a : addr) | VE (e : str).

Definition column (col : Z) : str := if col =? 0 then [] else letters_of_col col.
Definition coord_text (col row : Z) : str :=
  column col ++ (if row =? 0 then [] else str_of_Z row).
Definition abs_coord_text (col row : Z) : str :=
  36 :: column col ++ 36 :: str_of_Z row.

(* AddressCell((col, row, col, row), sheet=...) : fails when the column has
   no letters (get_column_letter raises ValueError) *)
Definition mk_cell (sheet : str) (col row : Z) : res addr :=
  _ <- (if col =? 0 then Ok [] else get_column_letter col) ;;
  Ok (ACell sheet col row).
(* AddressRange((c1, r1, c2, r2), sheet=...) *)
Definition mk_range (sheet : str) (c1 r1 c2 r2 : Z) : res addr :=
  _ <- mk_cell sheet c1 r1 ;; _ <- mk_cell sheet c2 r2 ;;
  Ok (ARange sheet c1 r1 c2 r2).

Definition a_sheet (a : addr) : str :=
  match a with ACell s _ _ => s | ARange s _ _ _ _ => s end.
Definition a_col (a : addr) : Z :=
  match a with ACell _ c _ => c | ARange _ c _ _ _ => c end.
Definition a_row (a : addr) : Z :=
  match a with ACell _ _ r => r | ARange _ _ r _ _ => r end.

Definition coordinate (a : addr) : str :=
  match a with
  | ACell _ c r => coord_text c r
  | ARange _ c1 r1 c2 r2 => coord_text c1 r1 ++ 58 :: coord_text c2 r2
  end.
Definition abs_coordinate (a : addr) : str :=
  match a with
  | ACell _ c r => abs_coord_text c r
  | ARange _ c1 r1 c2 r2 => abs_coord_text c1 r1 ++ 58 :: abs_coord_text c2 r2
  end.

(* Python str.replace(old, new) for non-empty [old]: leftmost, non-overlapping.
   [skip] characters of a match already replaced are dropped. *)
Fixpoint replace_skip (old new : str) (skip : nat) (s : str) : str :=
  match s with
  | [] => []
  | c :: r =>
      match skip with
      | S k => replace_skip old new k r
      | O => if str_prefix old s then new ++ replace_skip old new (length old - 1) r
             else c :: replace_skip old new O r
      end
  end.
Definition py_replace (old new s : str) : str := replace_skip old new O s.

(* openpyxl quote_sheetname *)
Definition quote_sheetname (s : str) : str :=
  39 :: py_replace [39] [39; 39] s ++ [39].
(* str.isalnum() of one character where the model decides it (same policy as Lib/Py.v's
   case_known): ASCII and Latin-1 exactly (Unicode 15: the letters, the ordinal indicators and micro
   sign, the superscript digits and the vulgar fractions of Latin-1 are alphanumeric), the CJK unified
   ideographs (letters), the pictograph planes (symbols); None: not decided *)
Definition isalnum_char (c : Z) : option bool :=
  if c <? 128 then Some (is_digit c || is_alpha c)
  else if c <=? 255 then
    Some (((192 <=? c) && negb (c =? 215) && negb (c =? 247))
          || mem c [170; 178; 179; 181; 185; 186; 188; 189; 190])
  else if (19968 <=? c) && (c <=? 40959) then Some true
  else if (127744 <=? c) && (c <=? 129791) then Some false
  else None.
(* c.isalnum() or c in '_.' *)
Definition plain_char (c : Z) : option bool :=
  if (c =? 95) || (c =? 46) then Some true else isalnum_char c.
Definition char_needs_quote (c : Z) : bool := match plain_char c with Some false => true | _ => false end.
Definition char_undecided (c : Z) : bool := match plain_char c with None => true | _ => false end.
(* not all(c.isalnum() or c in '_.' for c in sheet): one character that certainly is neither
   decides it whatever the others are; otherwise an undecided character leaves it Unmodelled *)
Definition quote_needed (s : str) : res bool :=
  if existsb char_needs_quote s then Ok true
  else if existsb char_undecided s then Raise Unmodelled
  else Ok false.
(* AddressMixin.quote_sheet (after 4860474): a name is quoted unless it consists of
   letters, digits, '_' and '.' *)
Definition quote_sheet (s : str) : res str :=
  q <- quote_needed s ;; Ok (if q then quote_sheetname s else s).

(* the three printed forms *)
Definition address (a : addr) : str :=
  if nonempty (a_sheet a) then a_sheet a ++ 33 :: coordinate a else coordinate a.
Definition quoted_address (a : addr) : res str :=
  q <- quote_sheet (a_sheet a) ;; Ok (q ++ 33 :: coordinate a).
Definition abs_address (a : addr) : res str :=
  q <- quote_sheet (a_sheet a) ;; Ok (q ++ 33 :: abs_coordinate a).

(* ---------------------------------------------------------- parsing *)
Definition starts39 (s : str) : bool :=
  match s with c :: _ => c =? 39 | [] => false end.
Definition ends39 (s : str) : bool := last s 0 =? 39.
Definition unquote_sheetname (s : str) : str :=
  if starts39 s && ends39 s then py_replace [39; 39] [39] (removelast (tl s)) else s.

(* s.split(ch, maxsplit=1) when ch occurs *)
Fixpoint split_first (ch : Z) (s : str) : option (str * str) :=
  match s with
  | [] => None
  | c :: r => if c =? ch then Some ([], r)
              else match split_first ch r with
                   | Some (a, b) => Some (c :: a, b)
                   | None => None
                   end
  end.

Definition split_sheetname (address sheet : str) : res (str * str) :=
  match split_first 33 address with
  | None => Ok (sheet, address)
  | Some (sh, part) =>
      let redundant := py_replace [39] [39; 39] (unquote_sheetname sh) in
      let part := py_replace (39 :: redundant ++ [39; 33]) [] part in
      if mem 33 part then Raise NotImplementedError
      else let sh := unquote_sheetname sh in
           if nonempty sh && nonempty sheet && negb (str_eqb sh sheet) then Raise ValueError
           else Ok (if nonempty sheet then sheet else sh, part)
  end.

(* --- openpyxl ABSOLUTE_RE: [$]?([A-Za-z]{1,3})?[$]?(\d+)? (: the same)? *)
Definition opt_char (ch : Z) (s : str) : str :=
  match s with c :: r => if c =? ch then r else s | [] => [] end.
Definition starts_with (ch : Z) (s : str) : bool :=
  match s with c :: _ => c =? ch | [] => false end.
Definition half (s : str) : option (str * str * str) :=
  let s1 := opt_char 36 s in
  let L := fst (span is_alpha s1) in
  if 3 <? zlen L then None
  else let s3 := opt_char 36 (snd (span is_alpha s1)) in
       Some (L, fst (span is_digit s3), snd (span is_digit s3)).

Definition bounds := (option Z * option Z * option Z * option Z)%type.
Definition opt_col (L : str) : option Z :=
  match L with [] => None | _ => Some (col_of_letters L) end.
Definition opt_row (D : str) : option Z :=
  match D with [] => None | _ => Some (dec_of D) end.

Definition openpyxl_range_boundaries (s : str) : res bounds :=
  match half s with
  | None => Raise ValueError
  | Some (L1, D1, []) => Ok (opt_col L1, opt_row D1, opt_col L1, opt_row D1)
  | Some (L1, D1, c :: r) =>
      if c =? 58 then
        match half r with
        | Some (L2, D2, []) =>
            let c1 := nonempty L1 in let c2 := nonempty L2 in
            let r1 := nonempty D1 in let r2 := nonempty D2 in
            if (c1 && c2 && r1 && r2) || (c1 && c2 && negb (r1 || r2))
               || (r1 && r2 && negb (c1 || c2))
            then Ok (opt_col L1, opt_row D1,
                     match L2 with [] => opt_col L1 | _ => opt_col L2 end,
                     match D2 with [] => opt_row D1 | _ => opt_row D2 end)
            else Raise ValueError
        | _ => Raise ValueError
        end
      else Raise ValueError
  end.

(* --- R1C1_RANGE_RE *)
Inductive rc := RAbs (n : Z) | RRel (k : Z) | RBare.
(* one optional group  X(\[-?\d+\]|\d+)?  ; None: the group is absent *)
Definition rc_item (letter : Z) (s : str) : option rc * str :=
  match s with
  | c :: r =>
      if c =? letter then
        if starts_with 91 r then
          let r1 := tl r in
          let neg := starts_with 45 r1 in
          let r2 := opt_char 45 r1 in
          let D := fst (span is_digit r2) in
          let r3 := snd (span is_digit r2) in
          if nonempty D && starts_with 93 r3
          then (Some (RRel (if neg then - dec_of D else dec_of D)), tl r3)
          else (Some RBare, r)
        else
          let D := fst (span is_digit r) in
          if nonempty D then (Some (RAbs (dec_of D)), snd (span is_digit r))
          else (Some RBare, r)
      else (None, s)
  | [] => (None, s)
  end.

Record r1c1m := { m_row1 : option rc; m_col1 : option rc; m_colon : bool;
                  m_row2 : option rc; m_col2 : option rc }.
Definition r1c1_match (s : str) : option r1c1m :=
  let a := rc_item 82 s in
  let b := rc_item 67 (snd a) in
  match snd b with
  | [] => Some {| m_row1 := fst a; m_col1 := fst b; m_colon := false;
                  m_row2 := None; m_col2 := None |}
  | c :: r =>
      if c =? 58 then
        let a2 := rc_item 82 r in
        let b2 := rc_item 67 (snd a2) in
        match snd b2 with
        | [] => Some {| m_row1 := fst a; m_col1 := fst b; m_colon := true;
                        m_row2 := fst a2; m_col2 := fst b2 |}
        | _ => None
        end
      else None
  end.

Definition inc_col (col inc : Z) : Z := (col + inc - 1) mod MAX_COL + 1.
Definition inc_row (row inc : Z) : Z := (row + inc - 1) mod MAX_ROW + 1.

(* from_relative_to_absolute; cell = (row, col_idx) of the anchor *)
Definition rc_abs (is_row : bool) (cell : option (Z * Z)) (x : option rc) : res (option Z) :=
  match x with
  | None => Ok None
  | Some (RAbs n) => Ok (Some n)
  | Some RBare =>
      match cell with
      | None => Raise AssertionError
      | Some (r, c) => Ok (Some (if is_row then r else c))
      end
  | Some (RRel k) =>
      match cell with
      | None => Raise AssertionError
      | Some (r, c) => Ok (Some (if is_row then inc_row r k else inc_col c k))
      end
  end.

Definition some {A} (o : option A) : bool := match o with Some _ => true | None => false end.
Definition or_else {A} (a b : option A) : option A := match a with Some _ => a | None => b end.

(* None: the text is not of R1C1 shape *)
Definition r1c1_boundaries (s : str) (cell : option (Z * Z)) : res (option bounds) :=
  match r1c1_match s with
  | None => Ok None
  | Some m =>
      c1 <- rc_abs false cell (m_col1 m) ;; r1 <- rc_abs true cell (m_row1 m) ;;
      c2 <- rc_abs false cell (m_col2 m) ;; r2 <- rc_abs true cell (m_row2 m) ;;
      let valid :=
        if m_colon m then
          (negb (some c1) && some r1 && negb (some c2) && some r2)
          || (some c1 && negb (some r1) && some c2 && negb (some r2))
          || (some c1 && some r1 && some c2 && some r2)
        else some c1 && some r1      (* without a colon there is no second corner *) in
      if valid then Ok (Some (c1, r1, or_else c2 c1, or_else r2 r1)) else Raise ValueError
  end.

Definition bad_chars (s : str) : bool := existsb (fun c => (c =? 10) || (127 <? c)) s.
Definition count_char (ch : Z) (s : str) : Z := zlen (filter (Z.eqb ch) s).

Definition all_some (b : bounds) : bool :=
  match b with (Some _, Some _, Some _, Some _) => true | _ => false end.

(* excelutil.range_boundaries without a workbook (no tables, no defined names) *)
Definition range_boundaries (s : str) (cell : option (Z * Z)) : res bounds :=
  if bad_chars s then Raise Unmodelled else
  let fallback :=
    b <- r1c1_boundaries s cell ;;
    match b with
    | Some b => Ok b
    | None => if mem 91 s || (1 <? count_char 58 s) then Raise Unmodelled
              else Raise ValueError
    end in
  match openpyxl_range_boundaries s with
  | Ok b => if all_some b || mem 58 s then Ok b else fallback
  | Raise ValueError => fallback
  | Raise e => Raise e
  end.

Definition oz (o : option Z) : Z := match o with Some z => z | None => 0 end.

(* the tail of AddressRange.create: a range unless both corners coincide *)
Definition from_bounds (sheet : str) (b : bounds) : res addr :=
  match b with
  | (Some c1, Some r1, Some c2, Some r2) =>
      if (c1 =? c2) && (r1 =? r2) then mk_cell sheet c1 r1
      else mk_range sheet c1 r1 c2 r2
  | (c1, r1, c2, r2) => mk_range sheet (oz c1) (oz r1) (oz c2) (oz r2)
  end.

(* AddressRange.create(address, sheet=sheet, cell=cell) / AddressRange(address) *)
Definition create (text sheet : str) (cell : option (Z * Z)) : res aval :=
  if is_error_code text then Ok (VE text) else
  p <- split_sheetname text sheet ;;
  b <- range_boundaries (snd p) cell ;;
  a <- from_bounds (fst p) b ;;
  Ok (VA a).
(* AddressCell.create / AddressCell(address) *)
Definition create_cell (text sheet : str) (cell : option (Z * Z)) : res aval :=
  v <- create text sheet cell ;;
  match v with VA (ACell _ _ _) => Ok v | _ => Raise ValueError end.

(* ------------------------------------------ size, contains, cells *)
Definition a_size (a : addr) : Z * Z :=          (* (height, width) *)
  match a with
  | ACell _ _ _ => (1, 1)
  | ARange _ c1 r1 c2 r2 =>
      (if (r2 =? 0) || (r1 =? 0) then MAX_ROW else r2 - r1 + 1,
       if (c2 =? 0) || (c1 =? 0) then MAX_COL else c2 - c1 + 1)
  end.
Definition height (a : addr) : Z := fst (a_size a).
Definition width (a : addr) : Z := snd (a_size a).

Definition addr_eqb (a b : addr) : bool :=
  match a, b with
  | ACell s c r, ACell s' c' r' => str_eqb s s' && (c =? c') && (r =? r')
  | ARange s c1 r1 c2 r2, ARange s' c1' r1' c2' r2' =>
      str_eqb s s' && (c1 =? c1') && (r1 =? r1') && (c2 =? c2') && (r2 =? r2')
  | _, _ => false
  end.

(* x in a   (x must be a cell: AddressCell(range) fails its assertion) *)
Definition contains (a x : addr) : res bool :=
  match x with
  | ARange _ _ _ _ _ => Raise AssertionError
  | ACell _ c r =>
      match a with
      | ACell _ _ _ => Ok (addr_eqb a x)
      | ARange _ c1 r1 c2 r2 =>
          Ok ((r1 <=? r) && (r <=? r2) && (c1 <=? c) && (c <=? c2))
      end
  end.

Definition zrange_incl (lo hi : Z) : list Z := zrange (Z.to_nat (hi + 1 - lo)) lo.

(* resolve_range: rows of cells *)
Definition resolve_range (a : addr) : res (list (list addr)) :=
  match a with
  | ACell _ _ _ => Ok [[a]]
  | ARange s c1 r1 c2 r2 =>
      if (height a =? MAX_ROW) || (width a =? MAX_COL) then Raise AssertionError
      else mapM (fun row => mapM (fun col => mk_cell s col row) (zrange_incl c1 c2))
                (zrange_incl r1 r2)
  end.

(* ------------------------------------------- intersection, union *)
(* the body of _union_instersection once [other] is an address *)
Definition ui_core (mn mx : Z -> Z -> Z) (self o : addr) : res aval :=
  let s1 := a_sheet self in let s2 := a_sheet o in
  if nonempty s1 && nonempty s2 && negb (str_eqb s1 s2) then Ok (VE VALUE_ERROR)
  else
    let min_col := mn (a_col self) (a_col o) in
    let min_row := mn (a_row self) (a_row o) in
    let max_col := mx (a_col self + width self) (a_col o + width o) - 1 in
    let max_row := mx (a_row self + height self) (a_row o + height o) - 1 in
    if (max_col <? min_col) || (max_row <? min_row) then Ok (VE NULL_ERROR)
    else
      let sh := if nonempty s1 then s1 else s2 in
      if (max_col =? min_col) && (max_row =? min_row)
      then a <- mk_cell sh min_col min_row ;; Ok (VA a)
      else a <- mk_range sh min_col min_row max_col max_row ;; Ok (VA a).

Definition union_intersection (mn mx : Z -> Z -> Z) (self : addr) (other : aval) : res aval :=
  match other with
  | VA o => ui_core mn mx self o
  | VE e =>
      (* not an address: other = AddressRange.create(other); an error code comes
         back as text and is returned as is (the #NULL! of an empty intersection) *)
      v <- create e [] None ;;
      match v with
      | VE e' => Ok (VE e')
      | VA o => ui_core mn mx self o
      end
  end.

(* x ** y and x & y as Python dispatches them (__pow__/__rpow__, __and__/__rand__) *)
Definition binop (mn mx : Z -> Z -> Z) (x y : aval) : res aval :=
  match x, y with
  | VA a, _ => union_intersection mn mx a y
  | VE _, VA b => union_intersection mn mx b x
  | VE _, VE _ => Raise TypeError
  end.
Definition op_union : aval -> aval -> res aval := binop Z.min Z.max.
Definition op_inter : aval -> aval -> res aval := binop Z.max Z.min.

(* ------------------------------------------------------- offsets *)
Definition address_at_offset (a : addr) (row_inc col_inc : Z) : res addr :=
  mk_cell (a_sheet a) (inc_col (a_col a) col_inc) (inc_row (a_row a) row_inc).
