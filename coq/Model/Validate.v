(* Model/Validate.v — ExcelCompiler.validate_calcs (non-iterative workbooks),
   hand-transcribed from /repo/src/pycel/excelcompiler.py
     validate_calcs            lines 600-685 (the work-list loop, 622-659)
     _CellBase.close_enough    lines 1044-1053
   on top of the cache machine of Model/Graph.v (build = _gen_graph,
   evaluate = evaluate/_evaluate).

   What is NOT modelled (oracle-only in harness/props/c12.py): the [except]
   branch of the loop (lines 660-683: classification of an exception into
   'exceptions' / 'not-implemented') — formula meaning [sem] is a total
   function here, so nothing raises; [sheet] filtering, [verify_tree=False],
   [raise_exceptions], the iterative tracker (self.cycles), unbounded ranges.
   Numbers are exact rationals: [(1 + rel) * tol] and math.isclose are computed
   without IEEE rounding (the differential inputs stay away from the boundary). *)
From Coq Require Import List Arith Bool ZArith QArith Qabs.
From PV Require Import Lib.Py Model.Graph.
Import ListNotations.
Local Open Scope nat_scope.

(* ----------------------------------------------------------- close_enough
     def close_enough(self, value, rel=0.00001, tol=None):
         if isinstance(self.value, Number) and isinstance(value, Number):
             if tol is not None:  return abs(value - self.value) < (1 + rel) * tol
             elif value and self.value: return math.isclose(self.value, value, rel_tol=rel)
             else: return math.isclose(self.value, value, abs_tol=1e-8)
         else: return self.value == value
   bool is a Number in Python (as_num covers VBool, VInt, VFloat).
   math.isclose(a, b, rel_tol, abs_tol) on finite numbers:
     a == b or |b-a| <= |rel_tol*b| or |b-a| <= |rel_tol*a| or |b-a| <= abs_tol
   (defaults rel_tol = 1e-9, abs_tol = 0). *)
Definition rel_default : Q := (1 # 100000)%Q.

Definition q_isclose (a b rel_tol abs_tol : Q) : bool :=
  (q_eqb a b ||
   (let diff := Qabs (b - a) in
    q_leb diff (Qabs (rel_tol * b)) || q_leb diff (Qabs (rel_tol * a)) || q_leb diff abs_tol))%Q.

(* [self] = the cell's value (recomputed), [value] = the original (stored) one;
   [tol] = None | Some t *)
Definition close_enough (tol : option Q) (self value : pyval) : bool :=
  match as_num self, as_num value with
  | Some x, Some y =>
      let a := num_q x in
      let b := num_q y in
      match tol with
      | Some t => q_ltb (Qabs (b - a)%Q) ((1 + rel_default) * t)%Q          (* line 1047 *)
      | None =>
          if negb (q_is_zero b) && negb (q_is_zero a)
          then q_isclose a b rel_default 0%Q                             (* line 1049 *)
          else q_isclose a b (1 # 1000000000)%Q (1 # 100000000)%Q        (* line 1051 *)
      end
  | _, _ => py_eq self value                                             (* line 1053 *)
  end.

(* ------------------------------------------------------ failed['mismatch']
   a dict  address -> Mismatch(original, calced, formula): insertion ordered,
   assignment to an existing key overwrites in place *)
Definition report := list (nat * (pyval * pyval)).

Fixpoint rep_set (r : report) (n : nat) (x : pyval * pyval) : report :=
  match r with
  | [] => [(n, x)]
  | (m, y) :: r' => if Nat.eqb m n then (m, x) :: r' else (m, y) :: rep_set r' n x
  end.

Fixpoint rep_get (r : report) (n : nat) : option (pyval * pyval) :=
  match r with
  | [] => None
  | (m, y) :: r' => if Nat.eqb m n then Some y else rep_get r' n
  end.

Definition mem (n : nat) (l : list nat) : bool := existsb (Nat.eqb n) l.
(* verified.add(addr) *)
Definition vadd (n : nat) (l : list nat) : list nat := if mem n l then l else n :: l.

Section Validate.
  Variable W : workbook.
  Variable sem : nat -> list pyval -> pyval.
  Variable ftext : nat -> list Z.          (* str(cell.formula), e.g. "=A1+A2" *)
  Variable tol : option Q.                 (* the [tolerance] argument *)

  (* isinstance(cell, _Cell) and cell.python_code  (line 631): a formula cell,
     not an input cell and not a _CellRange node *)
  Definition is_fcell (n : nat) : bool := negb (wb_input W n) && negb (wb_range W n).

  (* cell.value = None; self.evaluate(addr.address)   (lines 639-640, 652-653):
     the cache entry is cleared WITHOUT resetting the dependants *)
  Definition recalc (s : state) (n : nat) : state :=
    fst (evaluate W sem {| st_cache := upd (st_cache s) n VNone; st_built := st_built s |} n).

  Record vstate := {
    vs_st : state;                 (* the compiler: cell_map values / built cells *)
    vs_todo : list nat;            (* to_verify, a stack: head = the element pop() returns *)
    vs_verified : list nat;        (* verified (a set) *)
    vs_report : report             (* failed['mismatch'] *)
  }.

  (* for addr in cell.needed_addresses: if addr not in verified: to_verify.append(addr)
     (lines 655-658) *)
  Definition push_deps (n : nat) (verified todo : list nat) : list nat :=
    fold_left (fun td d => if mem d verified then td else d :: td) (wb_deps W n) todo.

  (* one iteration of  while to_verify:  (lines 624-659) *)
  Definition vstep (vs : vstate) : vstate :=
    match vs_todo vs with
    | [] => vs
    | n :: rest =>                                          (* addr = to_verify.pop() *)
        let s1 := build W sem (vs_st vs) n in               (* self._gen_graph(addr) *)
        let finish (s : state) (r : report) :=              (* lines 655-658 *)
          let v' := vadd n (vs_verified vs) in              (* verified.add(addr), line 654 *)
          {| vs_st := s; vs_todo := push_deps n v' rest; vs_verified := v'; vs_report := r |} in
        if is_fcell n then
          let original := st_cache s1 n in                  (* line 634 *)
          if py_eq original (VStr (ftext n)) then           (* lines 635-637: continue *)
            {| vs_st := s1; vs_todo := rest; vs_verified := vs_verified vs;
               vs_report := vs_report vs |}
          else
            let s2 := recalc s1 n in                        (* lines 639-640 *)
            let calced := st_cache s2 n in
            if is_none original || close_enough tol calced original   (* lines 642-643 *)
            then finish s2 (vs_report vs)
            else                                            (* lines 644-653 *)
              finish (recalc s2 n) (rep_set (vs_report vs) n (original, calced))
        else finish s1 (vs_report vs)
    end.

  Fixpoint vloop (fuel : nat) (vs : vstate) : vstate :=
    match fuel with
    | O => vs
    | S f => match vs_todo vs with [] => vs | _ => vloop f (vstep vs) end
    end.

  (* number of precedent edges of the workbook *)
  Definition edges : nat := fold_right (fun n a => length (wb_deps W n) + a) 0 (seq 0 (wb_n W)).

  (* to_verify = [AddressCell(a) for a in output_addrs] (the stack's top is the
     LAST output); output_addrs=None is [outs] = all formula cells in sheet
     order.  Enough fuel when no cell is skipped by the 'No Orig data?' branch
     (Proofs/C12.v validate_terminates): each node is pushed at most once per
     incoming edge and once per occurrence among the outputs. *)
  Definition validate_from (s : state) (outs : list nat) : vstate :=
    vloop (length outs + edges + 1)
          {| vs_st := s; vs_todo := rev outs; vs_verified := []; vs_report := [] |}.

  Definition validate (outs : list nat) : vstate := validate_from (init W) outs.

  Definition all_formulas : list nat := filter is_fcell (seq 0 (wb_n W)).
End Validate.
