(* Model/Graph.v — the lazy evaluation cache of ExcelCompiler (non-iterative
   mode), hand-transcribed from /repo/src/pycel/excelcompiler.py:
     set_value / _reset            (lines 417-473, with the two set_value repairs
                                    e0ad119 and 761df50 of /repo)
     _evaluate / _evaluate_range   (lines 765-838)
     _gen_graph / _make_cells / _process_gen_graph (lines 708-763, 901-961)

   A workbook is a finite DAG in topological presentation: node n is an input
   cell, a formula cell or a range node, and every precedent of n has a smaller
   index.  Cell values are [pyval]s; [VNone] is Python's None, which the code
   uses BOTH for "blank" and for "needs calc" (needs_calc = value is None).

   The meaning of a formula/range node is a parameter [sem n vals] (the value
   computed from the values of its precedents, in order); Model/GraphExpr.v
   instantiates it with a concrete expression language for the differential
   runs, Proofs/C01.v proves the coherence theorem for EVERY [sem]. *)
From Coq Require Import List Arith Bool.
From PV Require Import Lib.Py.
Import ListNotations.

Record workbook := {
  wb_n : nat;                          (* nodes 0 .. wb_n - 1 *)
  wb_input : nat -> bool;              (* an input cell (no formula) *)
  wb_deps : nat -> list nat;           (* precedents that the formula reads / members of a range *)
  wb_range : nat -> bool;              (* a range node (_CellRange) *)
  wb_inp0 : nat -> pyval;              (* the workbook's own value of each input cell *)
  wb_stored : nat -> pyval;            (* the result stored in the file for each formula cell
                                          (VNone everywhere: no-data workbook / loaded model) *)
}.

Definition cache := nat -> pyval.
Definition upd (c : cache) (n : nat) (v : pyval) : cache :=
  fun m => if Nat.eqb m n then v else c m.
Definition is_none (v : pyval) : bool := match v with VNone => true | _ => false end.

Record state := { st_cache : cache; st_built : nat -> bool }.

Section Machine.
  Variable W : workbook.
  Variable sem : nat -> list pyval -> pyval.

  Definition init : state :=
    {| st_cache := fun n => if wb_input W n then wb_inp0 W n else VNone;
       st_built := fun _ => false |}.

  (* dependants of n among the built nodes: dep_graph.successors *)
  Definition succs (b : nat -> bool) (n : nat) : list nat :=
    filter (fun d => b d && existsb (Nat.eqb n) (wb_deps W d)) (seq 0 (wb_n W)).

  (* ---------------------------------------------------------------- _reset
       if cell.needs_calc: return
       cell.value = None
       for child in successors(cell): if child.value is not None: _reset(child) *)
  Fixpoint reset (f : nat) (b : nat -> bool) (n : nat) (c : cache) : cache :=
    match f with
    | O => c
    | S f' =>
        if is_none (c n) then c
        else fold_left (fun c ch => if is_none (c ch) then c else reset f' b ch c)
                       (succs b n) (upd c n VNone)
    end.

  (* ------------------------------------------------------------- set_value
       if cell.value != value or type(cell.value) is not type(value):
           cell.value = value; self._reset(cell, force=True); cell.value = value
     [_reset(cell, force=True)] skips the needs_calc early return for the
     written cell itself (only for it: the recursive calls are not forced) *)
  Definition same_type (a b : pyval) : bool :=
    match a, b with
    | VNone, VNone | VBool _, VBool _ | VInt _, VInt _ | VFloat _, VFloat _
    | VStr _, VStr _ | VTuple _, VTuple _ | VList _, VList _ | VSet _, VSet _
    | VDict _, VDict _ | VFun _, VFun _ => true
    | _, _ => false
    end.

  Definition reset_forced (b : nat -> bool) (n : nat) (c : cache) : cache :=
    fold_left (fun c ch => if is_none (c ch) then c else reset (wb_n W) b ch c)
              (succs b n) (upd c n VNone).

  Definition set_value (s : state) (a : nat) (v : pyval) : state :=
    if negb (st_built s a) then s            (* AssertionError: not in the cell map *)
    else if py_eq (st_cache s a) v && same_type (st_cache s a) v then s
    else
      let c2 := reset_forced (st_built s) a (upd (st_cache s) a v) in
      {| st_cache := upd c2 a v; st_built := st_built s |}.

  (* ------------------------------------------------------------- _evaluate
       if cell.needs_calc: (range: tuple of member evaluations | formula: eval)
       return cell.value *)
  Fixpoint eval (f : nat) (c : cache) (n : nat) {struct f} : cache * pyval :=
    match f with
    | O => (c, VNone)
    | S f' =>
        if wb_input W n then (c, c n)
        else if is_none (c n) then
          let '(c', vals) :=
            fold_left (fun (acc : cache * list pyval) d =>
                         let '(c1, vs) := acc in
                         let '(c2, v) := eval f' c1 d in (c2, vs ++ [v]))
                      (wb_deps W n) (c, []) in
          let v := sem n vals in
          (upd c' n v, v)
        else (c, c n)
    end.

  (* ---------------------------------------------- _gen_graph / _make_cells
     every precedent is built with the cell; a new formula cell starts from the
     stored result, a new range node from None and is evaluated at the end of
     _process_gen_graph *)
  Fixpoint closure (f : nat) (b : nat -> bool) (n : nat) : nat -> bool :=
    match f with
    | O => b
    | S f' =>
        if b n then b
        else fold_left (fun b d => closure f' b d) (wb_deps W n)
                       (fun m => if Nat.eqb m n then true else b m)
    end.

  Definition build (s : state) (n : nat) : state :=
    let b' := closure (S (wb_n W)) (st_built s) n in
    let fresh m := b' m && negb (st_built s m) in
    let c1 : cache := fun m =>
      if fresh m && negb (wb_input W m)
      then (if wb_range W m then VNone else wb_stored W m)
      else st_cache s m in
    let c2 := fold_left (fun c m => if fresh m && wb_range W m
                                    then fst (eval (S (wb_n W)) c m) else c)
                        (seq 0 (wb_n W)) c1 in
    {| st_cache := c2; st_built := b' |}.

  Definition evaluate (s : state) (n : nat) : state * pyval :=
    let s1 := build s n in
    let '(c, v) := eval (S (wb_n W)) (st_cache s1) n in
    ({| st_cache := c; st_built := st_built s1 |}, v).

  Inductive gop := Evaluate (n : nat) | SetValue (a : nat) (v : pyval) | Build (n : nat).

  Definition step (s : state) (o : gop) : state * pyval :=
    match o with
    | Evaluate n => evaluate s n
    | SetValue a v => (set_value s a v, VNone)
    | Build n => (build s n, VNone)
    end.

  (* run a history; the trace of returned values, oldest first *)
  Fixpoint run (s : state) (h : list gop) : state * list pyval :=
    match h with
    | [] => (s, [])
    | o :: h' => let '(s1, v) := step s o in
                 let '(s2, vs) := run s1 h' in (s2, v :: vs)
    end.

  (* ------------------------------------------------- the from-scratch value *)
  Fixpoint spec_fuel (f : nat) (inp : nat -> pyval) (n : nat) : pyval :=
    match f with
    | O => VNone
    | S f' => if wb_input W n then inp n
              else sem n (map (spec_fuel f' inp) (wb_deps W n))
    end.
  Definition spec (inp : nat -> pyval) (n : nat) : pyval := spec_fuel (S n) inp n.
End Machine.
