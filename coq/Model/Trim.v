(* Model/Trim.v — ExcelCompiler.trim_graph, hand-transcribed from
   /repo/src/pycel/excelcompiler.py lines 501-576 (with repair 3259fa5: a cell
   is evaluated before it is frozen), on top of the machine of Model/Graph.v.

     trim_graph(input_addrs, output_addrs)
       1) self._gen_graph(output_addrs)                              (506-507)
       2) needed_cells := every dependant (dep_graph.successors,
          transitively) of every input that is in the cell map       (509-526)
          ... inputs without dependants: ValueError                  (527-540)
          needed_cells += outputs                                    (542-544)
       3) walk_precedents(output): a precedent that is needed or is a range
          is walked into; any other precedent is evaluated, loses its
          formula and becomes needed                                 (546-564)
       4) log only                                                   (566-570)
       5) every cell that is not needed is deleted from cell_map     (572-576)

   The result is a NEW workbook and a state of the machine over it:
     * a frozen cell is an input cell of the new workbook (no precedents) whose
       own value is the value it held when it was frozen;
     * a deleted cell is not built; its entry is the initial one (an input
       cell that is read again comes from the file; a formula cell or a range
       node that is read again is computed again — _evaluate_range lines
       765-771 re-create a deleted range node on demand, in the machine [eval]
       recomputes an empty entry whether or not the node is built).

   Limits (documented, checked by the differential run on the outputs only):
   trim_graph removes cells from cell_map but leaves them in dep_graph; the
   machine has ONE built set, so after a trim it is a model of the compiler
   for writes to the declared inputs and evaluations of the declared outputs
   (the property's quantifier), not for writes to other surviving cells.
   Saving and loading the trimmed model is not modelled (oracle, and C03). *)
From Coq Require Import List Arith Bool.
From PV Require Import Lib.Py Model.Graph.
Import ListNotations.

Definition bset := nat -> bool.
Definition badd (b : bset) (n : nat) : bset := fun m => if Nat.eqb m n then true else b m.
Definition memb (l : list nat) (n : nat) : bool := existsb (Nat.eqb n) l.

(* the workbook in which the cells of [fz] have lost their formula: each is an
   input cell holding the value [c] has for it *)
Definition cut (W : workbook) (fz : bset) (c : cache) : workbook :=
  {| wb_n := wb_n W;
     wb_input := fun n => wb_input W n || fz n;
     wb_deps := fun n => if fz n then [] else wb_deps W n;
     wb_range := fun n => wb_range W n && negb (fz n);
     wb_inp0 := fun n => if fz n then c n else wb_inp0 W n;
     wb_stored := wb_stored W |}.

Section Trim.
  Variable W : workbook.
  Variable sem : nat -> list pyval -> pyval.

  (* 1) self._gen_graph(output_addrs)                                  (507) *)
  Definition build_all (O : list nat) (s : state) : state := fold_left (build W sem) O s.

  (* 2) walk_dependents(cell):                                     (512-518)
          for child_cell in self.dep_graph.successors(cell):
              if child_addr not in needed_cells:
                  needed_cells.add(child_addr); walk_dependents(child_cell)   *)
  Fixpoint walk_dep (f : nat) (b : bset) (n : nat) (nd : bset) : bset :=
    match f with
    | O => nd
    | S f' => fold_left (fun (nd : bset) (ch : nat) => if nd ch then nd else walk_dep f' b ch (badd nd ch))
                        (succs W b n) nd
    end.

  (*    for addr in input_addrs: if addr in self.cell_map: walk_dependents(...)
        (an input that is not in the cell map is only warned about)   (521-526) *)
  Definition dependants (b : bset) (I : list nat) : bset :=
    fold_left (fun (nd : bset) (a : nat) => if b a then walk_dep (wb_n W) b a nd else nd) I (fun _ => false).

  (*    networkx raises for a cell that is not a node of dep_graph: an input
        cell that nothing built reads; unless it is an output this becomes
        the ValueError of lines 538-540                               (527-540) *)
  Definition refused (b : bset) (I O : list nat) : bool :=
    existsb (fun a => b a && wb_input W a && negb (memb O a)
                      && match succs W b a with [] => true | _ => false end) I.

  (*    for addr in output_addrs: needed_cells.add(addr.address)      (543-544) *)
  Definition add_all (nd : bset) (l : list nat) : bset := fold_left badd l nd.

  (* 3) walk_precedents(cell):                                      (549-561)
          for child_address in cell.needed_addresses:
              if child_address not in processed_cells:
                  processed_cells.add(child_address)
                  if child_address in needed_cells or ':' in child_address:
                      walk_precedents(child_cell)
                  else:
                      needed_cells.add(child_address)
                      self._evaluate(child_address)
                      child_cell.formula = None
     [_evaluate] runs on the compiler in which earlier cells are frozen
     already: a frozen cell holds its value and has no formula, so evaluating
     through it returns that value.  The machine's [eval] returns the held
     value too (it recomputes a frozen cell only if the held value is blank,
     and computes the same blank). *)
  Record pw := { pw_proc : bset; pw_need : bset; pw_frz : bset; pw_cache : cache }.

  Definition freeze (st : pw) (ch : nat) : pw :=
    {| pw_proc := pw_proc st;
       pw_need := badd (pw_need st) ch;
       pw_frz := badd (pw_frz st) ch;
       pw_cache := fst (eval W sem (S (wb_n W)) (pw_cache st) ch) |}.

  Definition mark (st : pw) (ch : nat) : pw :=
    {| pw_proc := badd (pw_proc st) ch; pw_need := pw_need st; pw_frz := pw_frz st;
       pw_cache := pw_cache st |}.

  Fixpoint walk_prec (f : nat) (n : nat) (st : pw) : pw :=
    match f with
    | O => st
    | S f' =>
        fold_left (fun (st : pw) (ch : nat) =>
                     if pw_proc st ch then st
                     else let st1 := mark st ch in
                          if pw_need st1 ch || wb_range W ch then walk_prec f' ch st1
                          else freeze st1 ch)
                  (wb_deps W n) st
    end.

  (*    for addr in output_addrs: walk_precedents(self.cell_map[addr]) (563-564) *)
  Definition walk_outputs (O : list nat) (st : pw) : pw :=
    fold_left (fun (st : pw) (o : nat) => walk_prec (S (wb_n W)) o st) O st.

  Record trimmed := {
    tr_wb : workbook;         (* the workbook after the trim *)
    tr_st : state;            (* the machine state over it *)
    tr_need : bset;           (* needed_cells *)
    tr_frz : bset;            (* cells that went through the freezing branch *)
    tr_proc : bset            (* processed_cells *)
  }.

  Definition trim (I O : list nat) (s : state) : trimmed :=
    let s0 := build_all O s in
    let b := st_built s0 in
    let nd1 := add_all (dependants b I) O in
    let st3 := walk_outputs O {| pw_proc := fun _ => false; pw_need := nd1;
                                 pw_frz := fun _ => false; pw_cache := st_cache s0 |} in
    (* 5) cells_to_remove = addr in cell_map and not in needed_cells  (572-576) *)
    let kept n := b n && pw_need st3 n in
    let V := cut W (pw_frz st3) (pw_cache st3) in
    {| tr_wb := V;
       tr_st := {| st_cache := fun n => if kept n then pw_cache st3 n
                                        else if wb_input V n then wb_inp0 V n else VNone;
                   st_built := kept |};
       tr_need := pw_need st3; tr_frz := pw_frz st3; tr_proc := pw_proc st3 |}.
End Trim.
