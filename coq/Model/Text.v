(* Model/Text.v — the Excel text functions as pycel evaluates them.

   The function bodies of left/right/mid/replace/find/exact/upper/lower/len_/
   concatenate are NOT written here: they are regenerated from
   /repo/src/pycel/lib/text.py into Gen/text.v on every run.  This file adds,
   by hand (tied to the code by the correspondence run of harness/props/c20.py):

   * [wrap]: what pycel.lib.function_helpers.apply_meta puts around a function
     decorated with @excel_helper(str_params=S, number_params=N) — outermost
     first: strs_wrapper (coerce_to_string on S, first error code among S wins),
     nums_wrapper (coerce_to_number(convert_all=True) on N, first error code
     among N, then #VALUE! when one of N is not a number), error_string_wrapper
     on all parameters (err_str_params = -1 is the decorator's default).
     cse_array_wrapper/refs_wrapper are the identity on scalars; tuple/list
     arguments are outside the model (Unmodelled).
   * substitute (a while loop), trim (a regular expression + strip), concat.
   * TEXT(x, f) for formats over the characters 0 # , . % (see [text_fmt]). *)
From Coq Require Import ZArith QArith Qround List Bool Lia.
From PV Require Import Lib.Py.
From PV Require Gen.excelutil Gen.text.
Import ListNotations.
Open Scope Z_scope.

Definition VALUE_ERROR : pyval := excelutil.c_VALUE_ERROR.

Definition in_idx (i : nat) (ps : list nat) : bool := existsb (Nat.eqb i) ps.

Fixpoint map_idx (f : nat -> pyval -> res pyval) (i : nat) (l : list pyval)
  : res (list pyval) :=
  match l with
  | [] => Ok []
  | a :: l' => b <- f i a ;; r <- map_idx f (S i) l' ;; Ok (b :: r)
  end.

(* next((a for i, a in enumerate(args) if i in ps and a in ERROR_CODES), None) *)
Fixpoint first_code (ps : list nat) (i : nat) (l : list pyval) : res (option pyval) :=
  match l with
  | [] => Ok None
  | a :: l' =>
      if in_idx i ps then
        (c <- py_in a excelutil.c_ERROR_CODES ;;
         if c then Ok (Some a) else first_code ps (S i) l')
      else first_code ps (S i) l'
  end.

(* any(i in ps and not is_number(a) for i, a in enumerate(args)) *)
Fixpoint any_not_number (ps : list nat) (i : nat) (l : list pyval) : res bool :=
  match l with
  | [] => Ok false
  | a :: l' =>
      if in_idx i ps then
        (c <- cond_of (excelutil.f_is_number a) ;;
         if c then any_not_number ps (S i) l' else Ok true)
      else any_not_number ps (S i) l'
  end.

(* error_string_wrapper over all parameters: the first argument that is text
   and an error code is returned *)
Fixpoint first_err_string (l : list pyval) : res (option pyval) :=
  match l with
  | [] => Ok None
  | a :: l' =>
      match a with
      | VStr _ => c <- py_in a excelutil.c_ERROR_CODES ;;
                  if c then Ok (Some a) else first_err_string l'
      | _ => first_err_string l'
      end
  end.

Definition is_scalar (v : pyval) : bool :=
  match v with
  | VNone | VBool _ | VInt _ | VFloat _ | VStr _ => true
  | _ => false
  end.

Definition wrap (S N : list nat) (f : list pyval -> res pyval) (args : list pyval)
  : res pyval :=
  if negb (forallb is_scalar args) then Raise Unmodelled else
  a1 <- map_idx (fun i a => if in_idx i S then excelutil.f_coerce_to_string a else Ok a) 0 args ;;
  e1 <- first_code S 0 a1 ;;
  match e1 with
  | Some e => Ok e
  | None =>
      a2 <- map_idx (fun i a => if in_idx i N
                                then excelutil.f_coerce_to_number py_fuel a (VBool true)
                                else Ok a) 0 a1 ;;
      e2 <- first_code N 0 a2 ;;
      match e2 with
      | Some e => Ok e
      | None =>
          nn <- any_not_number N 0 a2 ;;
          if nn then Ok VALUE_ERROR else
          e3 <- first_err_string a2 ;;
          match e3 with
          | Some e => Ok e
          | None => f a2
          end
      end
  end.

(* ------------------------------------------------------------ the functions *)
Definition X_left : list pyval -> res pyval :=
  wrap [0%nat] [1%nat] (fun a => match a with
    | [t] => text.f_left t (VInt 1)
    | [t; n] => text.f_left t n
    | _ => Raise TypeError end).
Definition X_right : list pyval -> res pyval :=
  wrap [0%nat] [1%nat] (fun a => match a with
    | [t] => text.f_right t (VInt 1)
    | [t; n] => text.f_right t n
    | _ => Raise TypeError end).
Definition X_mid : list pyval -> res pyval :=
  wrap [0%nat] [1%nat; 2%nat] (fun a => match a with
    | [t; n; k] => text.f_mid t n k
    | _ => Raise TypeError end).
Definition X_replace : list pyval -> res pyval :=
  wrap [0%nat; 3%nat] [1%nat; 2%nat] (fun a => match a with
    | [t; n; k; u] => text.f_replace t n k u
    | _ => Raise TypeError end).
Definition X_find : list pyval -> res pyval :=
  wrap [0%nat; 1%nat] [2%nat] (fun a => match a with
    | [f; w] => text.f_find f w (VInt 1)
    | [f; w; st] => text.f_find f w st
    | _ => Raise TypeError end).
Definition X_exact : list pyval -> res pyval :=
  wrap [0%nat; 1%nat] [] (fun a => match a with
    | [x; y] => text.f_exact x y
    | _ => Raise TypeError end).
Definition X_len : list pyval -> res pyval :=
  wrap [] [] (fun a => match a with
    | [x] => text.f_len_ x
    | _ => Raise TypeError end).
Definition X_lower : list pyval -> res pyval :=
  wrap [0%nat] [] (fun a => match a with
    | [x] => text.f_lower x
    | _ => Raise TypeError end).
Definition X_upper : list pyval -> res pyval :=
  wrap [0%nat] [] (fun a => match a with
    | [x] => text.f_upper x
    | _ => Raise TypeError end).

(* trim: RE_MULTI_SPACE.sub(' ', text).strip(' ') — runs of U+0020 become one
   space, then the spaces (U+0020 only) at both ends are removed *)
Fixpoint lstrip32 (s : str) : str :=
  match s with c :: s' => if c =? 32 then lstrip32 s' else s | [] => [] end.
Fixpoint rstrip32 (s : str) : str :=
  match s with
  | [] => []
  | c :: s' => match rstrip32 s' with
               | [] => if c =? 32 then [] else [c]
               | r => c :: r
               end
  end.
Definition trim_chars (s : str) : str := rstrip32 (lstrip32 (squeeze_spaces s)).
Definition X_trim : list pyval -> res pyval :=
  wrap [0%nat] [] (fun a => match a with
    | [VStr t] => Ok (VStr (trim_chars t))
    | [_] => Raise Unmodelled
    | _ => Raise TypeError end).

(* concatenate/concat carry no @excel_helper metadata: apply_meta returns them
   unwrapped.  concat flattens its arguments first (identity on scalars). *)
Definition X_concatenate (args : list pyval) : res pyval :=
  if negb (forallb is_scalar args) then Raise Unmodelled else
  text.f_concatenate (VTuple args).
Definition X_concat (args : list pyval) : res pyval :=
  if negb (forallb is_scalar args) then Raise Unmodelled else
  text.f_concatenate (VTuple (flatten (VTuple args))).

(* substitute.  The while loop
       start = 0
       while instance_num > 1:
           new_start = text[start:].find(old_text)
           if new_start == -1: return text
           instance_num -= 1
           start += new_start + len(old_text)
   yields either "return text" (None) or the final start (Some start).  With a
   non-empty pattern start grows by at least 1 per round and the search fails
   once start exceeds the length, so length text + 2 rounds of fuel suffice;
   with the empty pattern start stays 0 whatever the instance number. *)
Fixpoint subst_loop (fuel : nat) (t old : str) (inst start : Z) : res (option Z) :=
  match fuel with
  | O => Raise OutOfFuel
  | S f =>
      if 1 <? inst then
        let ns := str_find_idx (slice_list t (Some start) None) old 0 in
        if ns =? -1 then Ok None
        else subst_loop f t old (inst - 1) (start + ns + zlen old)
      else Ok (Some start)
  end.

Definition subst_nth (t old new : str) (inst : Z) : res str :=
  r <- match old with
       | [] => Ok (Some 0)
       | _ :: _ => subst_loop (S (S (length t))) t old inst 0
       end ;;
  match r with
  | None => Ok t
  | Some start =>
      Ok (slice_list t None (Some start)
          ++ str_replace_cnt (slice_list t (Some start) None) old new (Some 1%nat))
  end.

Definition substitute_body (a : list pyval) : res pyval :=
  match a with
  | [VStr t; VStr o; VStr n] => Ok (VStr (str_replace_cnt t o n None))
  | [VStr t; VStr o; VStr n; inst] =>
      match inst with
      | VNone => Ok (VStr (str_replace_cnt t o n None))
      | VBool _ => Ok VALUE_ERROR
      | _ =>
          match py_int inst with
          | Raise ValueError => Ok VALUE_ERROR
          | Raise e => Raise e
          | Ok (VInt i) =>
              if i <=? 0 then Ok VALUE_ERROR
              else r <- subst_nth t o n i ;; Ok (VStr r)
          | Ok _ => Raise Unmodelled
          end
      end
  | [_; _; _] | [_; _; _; _] => Raise Unmodelled
  | _ => Raise TypeError
  end.
Definition X_substitute : list pyval -> res pyval :=
  wrap [0%nat; 1%nat; 2%nat] [] substitute_body.
