(* Model/DayTime.v — date_time.time_from_serialnumber in IEEE binary64
   (Coq's primitive floats, bit-exact), hand-transcribed:
       at_hours = (serialnumber + MICROSECOND) * 24
       hours = floor(at_hours);  at_mins = (at_hours - hours) * 60
       mins = floor(at_mins);    secs = (at_mins - mins) * 60
       return hours % 24, mins, int(round(secs - 1.1E-6, 0))
   with SECOND = 1/24/60/60, MICROSECOND = SECOND/1E6 computed the same way.
   The tie to the code is the exhaustive comparison of all 86400 second values
   s/86400 against the implementation on every run (harness/props/c17.py). *)
From Coq Require Import ZArith List Bool Uint63 PrimFloat FloatOps SpecFloat.
Import ListNotations.
Open Scope Z_scope.

Definition fl (z : Z) : float := of_uint63 (Uint63.of_Z z).       (* exact for 0 <= z < 2^53 *)

(* floor of a finite float, as an integer *)
Definition ffloor (f : float) : Z :=
  match Prim2SF f with
  | S754_zero _ => 0
  | S754_finite s m e =>
      let mag_floor := if 0 <=? e then Zpos m * 2 ^ e else Zpos m / 2 ^ (- e) in
      let exact := if 0 <=? e then true else (Zpos m mod 2 ^ (- e) =? 0) in
      if s then (if exact then - mag_floor else - mag_floor - 1) else mag_floor
  | _ => 0
  end.

(* round(x, 0) for x >= -1: half to even, as an integer *)
Definition fround0 (f : float) : Z :=
  let lo := ffloor f in
  let flo : float := if (lo <? 0)%Z then PrimFloat.opp (fl (- lo)%Z) else fl lo in
  let r := PrimFloat.sub f flo in                                     (* exact *)
  match PrimFloat.compare r 0.5%float with
  | FLt => lo
  | FGt => lo + 1
  | _ => if Z.even lo then lo else lo + 1
  end.

Definition SECOND : float := (1 / 24 / 60 / 60)%float.
Definition MICROSECOND : float := (SECOND / 1e6)%float.

Definition time_from_serialnumber (x : float) : Z * Z * Z :=
  let at_hours := ((x + MICROSECOND) * 24)%float in
  let hours := ffloor at_hours in
  let at_mins := ((at_hours - fl hours) * 60)%float in
  let mins := ffloor at_mins in
  let secs := ((at_mins - fl mins) * 60)%float in
  (hours mod 24, mins, fround0 (secs - 1.1e-6)%float).

(* HOUR/MINUTE/SECOND of the s-th second of the day, s/86400 computed in binary64 *)
Definition hms (s : Z) : Z * Z * Z := time_from_serialnumber (fl s / 86400)%float.
Definition pack (t : Z * Z * Z) : Z := let '(h, m, s) := t in h * 3600 + m * 60 + s.

Fixpoint mism (l : list Z) (s : Z) : list Z :=
  match l with
  | [] => []
  | a :: l' => if pack (hms s) =? a then mism l' (s + 1) else s :: mism l' (s + 1)
  end.
Definition daytime_mismatches (answers : list Z) : list Z := mism answers 0.

Fixpoint all_secs (n : nat) (s : Z) : bool :=
  match n with
  | O => true
  | S n' => (pack (hms s) =? s) && all_secs n' (s + 1)
  end.
