(* Model/MathFuncs.v — the rounding family as pycel evaluates it: the bodies are
   GENERATED (Gen/excellib.v, from /repo/src/pycel/excellib.py); this file only
   puts the @excel_math_func wrapper (Model/Wrap.v) and default arguments
   around them. *)
From Coq Require Import ZArith List.
From PV Require Import Lib.Py Model.Wrap.
From PV Require Gen.excelutil Gen.excellib.
Import ListNotations.
Open Scope Z_scope.

Definition arity1 (f : pyval -> res pyval) (a : list pyval) : res pyval :=
  match a with [x] => f x | _ => Raise TypeError end.
Definition arity2 (f : pyval -> pyval -> res pyval) (a : list pyval) : res pyval :=
  match a with [x; y] => f x y | _ => Raise TypeError end.
Definition arity12 (f : pyval -> pyval -> res pyval) (d : pyval) (a : list pyval) : res pyval :=
  match a with [x] => f x d | [x; y] => f x y | _ => Raise TypeError end.
Definition arity123 (f : pyval -> pyval -> pyval -> res pyval) (d1 d2 : pyval) (a : list pyval)
  : res pyval :=
  match a with [x] => f x d1 d2 | [x; y] => f x y d2 | [x; y; z] => f x y z
  | _ => Raise TypeError end.

Definition X_ceiling := math_wrap (arity2 excellib.f_ceiling).
Definition X_ceiling_math := math_wrap (arity123 excellib.f_ceiling_math (VInt 1) (VInt 0)).
Definition X_ceiling_precise := math_wrap (arity12 excellib.f_ceiling_precise (VInt 1)).
Definition X_floor := math_wrap (arity2 excellib.f_floor).
Definition X_floor_math := math_wrap (arity123 excellib.f_floor_math (VInt 1) (VInt 0)).
Definition X_floor_precise := math_wrap (arity12 excellib.f_floor_precise (VInt 1)).
Definition X_even := math_wrap (arity1 excellib.f_even).
Definition X_odd := math_wrap (arity1 excellib.f_odd).
Definition X_int := math_wrap (arity1 excellib.f_int_).
Definition X_mod := math_wrap (arity2 excellib.f_mod).
Definition X_round := math_wrap (arity12 excellib.f_round_ (VInt 0)).
Definition X_rounddown := math_wrap (arity2 excellib.f_rounddown).
Definition X_roundup := math_wrap (arity2 excellib.f_roundup).
Definition X_trunc := math_wrap (arity12 excellib.f_trunc (VInt 0)).
Definition X_sign := math_wrap (arity1 excellib.f_sign).
Definition X_abs := math_wrap (arity1 excellib.f_abs_).
