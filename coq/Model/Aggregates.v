(* Model/Aggregates.v — the two pieces of C14 that are outside the translated
   subset, written on top of the GENERATED pieces:

   * excellib.sumproduct (excellib.py 364-398: numpy, a for loop with early
     returns) — transcribed branch by branch; the error scan, is_array_arg and
     the constants are the generated ones;
   * excelformula.FunctionNode.func_subtotal (excelformula.py 503-519: a method
     of an AST node that emits source text) — the table is the generated
     constant c_FunctionNode_SUBTOTAL_FUNCS, the function number goes through the
     generated coerce_to_number, and the emitted function name is resolved to
     the generated aggregate it names in pycel.excellib / pycel.lib.stats.

   SUM / AVERAGE / COUNT / MAX / MIN / _numerics themselves are generated:
   Gen/aggregates.v (f__numerics, f_sum_) and Gen/stats.v (f_average, f_count,
   f_max_, f_min_). *)
From Coq Require Import ZArith QArith List Bool.
From PV Require Import Lib.Py.
From PV Require Gen.excelutil Gen.aggregates Gen.stats Gen.excelformula.
Import ListNotations.
Open Scope Z_scope.

(* ------------------------------------------------------------ numbers *)
(* Python's int/float arithmetic on the [num] view of Lib/Py.v: int with int
   stays int, anything else is a (reduced) float *)
Definition num_mul (a b : num) : num :=
  match a, b with
  | NI x, NI y => NI (x * y)
  | _, _ => NF (Qred (num_q a * num_q b))
  end.
Definition num_add (a b : num) : num :=
  match a, b with
  | NI x, NI y => NI (x + y)
  | _, _ => NF (Qred (num_q a + num_q b))
  end.
Definition num_val (n : num) : pyval :=
  match n with NI z => VInt z | NF q => VFloat q end.

(* "x if isinstance(x, (float, int)) and not isinstance(x, bool) else 0" *)
Definition sp_cell (v : pyval) : num :=
  match v with VInt z => NI z | VFloat q => NF q | _ => NI 0 end.

Fixpoint zip_mul (acc l : list num) : list num :=
  match acc, l with
  | a :: acc', x :: l' => num_mul a x :: zip_mul acc' l'
  | _, _ => []
  end.

(* np.sum(np.prod(values, axis=0)): values has one row per argument.  numpy
   gives the array one dtype (int64 when every entry is an int, float64
   otherwise); in exact arithmetic the mixed int/float operations give the same
   number, and the result is an int exactly when every entry is one.  int64
   wrap-around is NOT modelled (the model's integers are unbounded). *)
Definition sp_value (vecs : list (list num)) : num :=
  match vecs with
  | [] => NI 0
  | v0 :: vs => fold_left num_add (fold_left zip_mul vs v0) (NI 0)
  end.

(* ------------------------------------------------------- sumproduct *)
Definition is_container (v : pyval) : bool :=
  match v with VTuple _ | VList _ | VSet _ | VDict _ => true | _ => false end.

(* a row of c cells, none of them a container *)
Definition row_ok (c : Z) (r : pyval) : bool :=
  match r with
  | VTuple cells => (zlen cells =? c) && forallb (fun x => negb (is_container x)) cells
  | _ => false
  end.

(* the all-scalars case: math.prod over "x if number-or-None else 0" *)
Definition sp_scalar (v : pyval) : pyval :=
  match v with VInt _ | VFloat _ | VNone => v | _ => VInt 0 end.
Fixpoint py_prod_list (l : list pyval) (acc : pyval) : res pyval :=
  match l with
  | [] => Ok acc
  | x :: l' => a <- py_mul acc x ;; py_prod_list l' a
  end.
Definition sp_all_scalars (args : list pyval) : res pyval :=
  try_except (py_prod_list (map sp_scalar args) (VInt 1)) [TypeError]
             (Ok excelutil.c_VALUE_ERROR).

(* the "for arg in args" loop: Ok (inl v) = returned v, Ok (inr sizes) = fell
   through with the shapes seen (most recent first) *)
Fixpoint sp_check (all_scalar : bool) (args rest : list pyval) (sizes : list (Z * Z))
  : res (pyval + list (Z * Z)) :=
  match rest with
  | [] => Ok (inr sizes)
  | arg :: rest' =>
      match arg with
      | VTuple rows =>
          a <- excelutil.f_is_array_arg arg ;;
          if py_truthy a then
            match rows with
            | VTuple c0 :: _ => sp_check all_scalar args rest' ((zlen rows, zlen c0) :: sizes)
            | _ => Raise Unmodelled
            end
          else Raise AssertionError
      | VList _ | VSet _ | VDict _ | VFun _ => Raise Unmodelled
      | _ => if all_scalar then (v <- sp_all_scalars args ;; Ok (inl v))
             else Ok (inl excelutil.c_VALUE_ERROR)
      end
  end.

Definition size_eqb (a b : Z * Z) : bool := (fst a =? fst b) && (snd a =? snd b).

Definition not_tuple (v : pyval) : bool := match v with VTuple _ => false | _ => true end.

(* flattened numeric vector of one rectangular argument; None when the
   argument is not a rectangle of scalars with at least one column *)
Definition sp_vector (arg : pyval) : option (list num) :=
  match arg with
  | VTuple (VTuple c0 :: rows') =>
      let c := zlen c0 in
      if (1 <=? c) && forallb (row_ok c) (VTuple c0 :: rows')
      then Some (map sp_cell (flatten arg)) else None
  | _ => None
  end.
Fixpoint sp_vectors (args : list pyval) : option (list (list num)) :=
  match args with
  | [] => Some []
  | a :: args' =>
      match sp_vector a, sp_vectors args' with
      | Some v, Some vs => Some (v :: vs)
      | _, _ => None
      end
  end.

Definition sumproduct (v_args : pyval) : res pyval :=
  match v_args with
  | VTuple args =>
      err <- gen_next (fun x => Ok x) (fun x => py_in x excelutil.c_ERROR_CODES)
                      (flatten v_args) VNone ;;
      if py_truthy err then Ok err else
      chk <- sp_check (forallb not_tuple args) args args [] ;;
      match chk with
      | inl v => Ok v
      | inr sizes =>
          match sizes with
          | s0 :: ss =>
              if forallb (size_eqb s0) ss then
                match sp_vectors args with
                | Some vecs => Ok (num_val (sp_value vecs))
                | None => Raise Unmodelled      (* ragged / nested / zero columns *)
                end
              else Ok excelutil.c_VALUE_ERROR
          | [] => Ok excelutil.c_VALUE_ERROR     (* len(set()) = 0 != 1 *)
          end
      end
  | _ => Raise Unmodelled
  end.

(* --------------------------------------------------------- SUBTOTAL *)
Definition subtotal_table : pyval := excelformula.c_FunctionNode_SUBTOTAL_FUNCS.

(* func_subtotal up to "func = self.SUBTOTAL_FUNCS[func_num]": [emit] is the
   emitted first child (the text of the literal function number) *)
Definition subtotal_name (emit : pyval) : res pyval :=
  n <- excelutil.f_coerce_to_number py_fuel emit (VBool false) ;;
  b <- py_in n subtotal_table ;;
  if b then py_getitem subtotal_table n
  else
    m <- py_sub n (VInt 100) ;;
    b' <- py_in m subtotal_table ;;
    if b' then py_getitem subtotal_table m else Raise ValueError.

(* the emitted call "name(args)" evaluated in the namespace of the loaded
   modules: the five aggregates of this property; the other six names
   (counta, product, stdev, stdevp, var, varp) are outside the model *)
Definition named_aggregate (name : pyval) : option (pyval -> res pyval) :=
  match name with
  | VStr [97; 118; 101; 114; 97; 103; 101] => Some stats.f_average      (* average *)
  | VStr [99; 111; 117; 110; 116] => Some stats.f_count                 (* count *)
  | VStr [109; 97; 120; 95] => Some stats.f_max_                        (* max_ *)
  | VStr [109; 105; 110; 95] => Some stats.f_min_                       (* min_ *)
  | VStr [115; 117; 109; 95] => Some aggregates.f_sum_                    (* sum_ *)
  | _ => None
  end.

Definition subtotal (emit v_args : pyval) : res pyval :=
  name <- subtotal_name emit ;;
  match named_aggregate name with
  | Some f => f v_args
  | None => Raise Unmodelled
  end.
