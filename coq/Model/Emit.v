(* Model/Emit.v — the Python side of C02: code emission.

   * [emit par e] transcribes OperatorNode.emit / OperandNode.emit /
     RangeNode.emit / FunctionNode.emit (excelformula.py 267-519) as a concrete
     Python syntax tree [pycst]; the context says what the parent node is: none
     or a FunctionNode (no parentheses), an operator (operator nodes are wrapped
     in parentheses, a prefix operator is emitted bare), the operator ^ (a
     prefix operator is wrapped too).  [pyflat] is the text; [code e] is what
     ExcelFormula.python_code returns.  op_map / func_map are the GENERATED
     tables of Gen/excelformula.v.
   * Python's expression grammar for the emitted sub-language: [PyWF] =
     precedence-correct trees in PYTHON's table ([pylevel]: comparisons 1,
     & 4, + - 6, * / 7, unary - 8, ** 9 right-associative whose left operand
     must be a primary, atoms 11); [pyabs] = the tree denoted (parentheses
     dropped) — what ast.parse returns.  That [pyflat t] parses to [pyabs t]
     for PyWF t is checked against CPython by the harness, not proved.
   * [translate e] = the Python AST that means [e]: what OperatorWrapper turns
     into excel_operator_operand_fixup calls.
   * literals: [emit_text] against [py_string_literal] (Python's decoding of a
     double-quoted literal), numbers against [py_decint]. *)
From Coq Require Import ZArith List Bool String Ascii.
From PV Require Import Lib.Py Model.Syntax.
From PV Require Gen.excelformula.
Import ListNotations.
Open Scope Z_scope.

(* ------------------------------------------------------------ Python trees *)
Inductive pyop := PAdd | PSub | PMul | PDiv | PPow | PBitAnd
                | PEq | PNe | PLt | PLe | PGt | PGe.

Inductive pycst :=
| PAtom (s : list Z)                  (* name, number, string literal, None, True *)
| PParen (t : pycst)
| PNeg (t : pycst)
| PBin (o : pyop) (l r : pycst)
| PCall (f : list Z) (args : list pycst)
| PTuple1 (t : pycst)                 (* "(" t ",)" *)
| PSeq (items : list pycst)           (* "a, b" — not an expression by itself *)
| PRefOp (o : pyop) (l r : pycst)     (* _R_(str(<l> op <r>)) with _R_/_C_ renamed _REF_ *)
| PRaw (s : list Z)                   (* text outside the model *)
| PRenamed (t : pycst).                (* the text of t with _R_/_C_ renamed _REF_ (ROW/COLUMN) *)

Definition pyop_text (o : pyop) : list Z :=
  match o with
  | PAdd => zs "+" | PSub => zs "-" | PMul => zs "*" | PDiv => zs "/" | PPow => zs "**"
  | PBitAnd => zs "&" | PEq => zs "==" | PNe => zs "!=" | PLt => zs "<" | PLe => zs "<="
  | PGt => zs ">" | PGe => zs ">="
  end.

Fixpoint join_str (sep : list Z) (l : list (list Z)) : list Z :=
  match l with
  | [] => []
  | [x] => x
  | x :: l' => x ++ sep ++ join_str sep l'
  end.

Definition replace_all (old new s : list Z) : list Z := str_replace_cnt s old new None.
(* .replace('_R_', '_REF_').replace('_C_', '_REF_') *)
Definition to_ref (s : list Z) : list Z :=
  replace_all (zs "_C_") (zs "_REF_") (replace_all (zs "_R_") (zs "_REF_") s).

Fixpoint pyflat (t : pycst) : list Z :=
  match t with
  | PAtom s => s
  | PParen t => zs "(" ++ pyflat t ++ zs ")"
  | PNeg t => zs "-" ++ pyflat t
  | PBin o l r => pyflat l ++ zs " " ++ pyop_text o ++ zs " " ++ pyflat r
  | PCall f args => f ++ zs "(" ++ join_str (zs ", ") (map pyflat args) ++ zs ")"
  | PTuple1 t => zs "(" ++ pyflat t ++ zs ",)"
  | PSeq items => join_str (zs ", ") (map pyflat items)
  | PRefOp o l r =>
      zs "_R_" ++ to_ref (zs "(str(" ++ pyflat l ++ zs " " ++ pyop_text o ++ zs " " ++ pyflat r
                          ++ zs "))")
  | PRaw s => s
  | PRenamed t => to_ref (pyflat t)
  end.

(* ------------------------------------------------------------ tables *)
Definition dict_str (d : pyval) (k : list Z) : option (list Z) :=
  match d with
  | VDict l => match dict_get l (VStr k) with Some (VStr s) => Some s | _ => None end
  | _ => None
  end.

(* OperatorNode.op_map.get(xop, xop) as a Python operator *)
Definition pyop_of_text (s : list Z) : option pyop :=
  if str_eqb s (zs "+") then Some PAdd else if str_eqb s (zs "-") then Some PSub
  else if str_eqb s (zs "*") then Some PMul else if str_eqb s (zs "/") then Some PDiv
  else if str_eqb s (zs "**") then Some PPow else if str_eqb s (zs "&") then Some PBitAnd
  else if str_eqb s (zs "==") then Some PEq else if str_eqb s (zs "!=") then Some PNe
  else if str_eqb s (zs "<") then Some PLt else if str_eqb s (zs "<=") then Some PLe
  else if str_eqb s (zs ">") then Some PGt else if str_eqb s (zs ">=") then Some PGe
  else None.
Definition mapped_op (o : binop) : list Z :=
  match dict_str excelformula.c_OperatorNode_op_map (op_text o) with
  | Some s => s | None => op_text o end.
(* the arithmetic / comparison operators; the reference operators have no
   Python operator of their own *)
Definition pyop_of (o : binop) : option pyop :=
  match o with
  | OIsect | OColon | OUnion => None
  | _ => pyop_of_text (mapped_op o)
  end.

(* ------------------------------------------------------------ operands *)
Definition dq : Z := 34.    (* double quote *)
Definition bs : Z := 92.    (* backslash *)

(* value.replace(two double quotes, backslash + double quote): left to right, non-overlapping *)
Fixpoint repl_qq (s : list Z) : list Z :=
  match s with
  | [] => []
  | c :: s' =>
      if c =? dq then
        match s' with
        | d :: s'' => if d =? dq then bs :: dq :: repl_qq s'' else c :: repl_qq s'
        | [] => [c]
        end
      else c :: repl_qq s'
  end.

Definition strip_quotes (v : list Z) : list Z :=
  match v with
  | c :: r =>
      match rev r with
      | d :: m => if (c =? dq) && (d =? dq) then rev m else v
      | [] => v
      end
  | [] => v
  end.

(* value.replace(backslash, two backslashes) *)
Fixpoint esc_bs (s : list Z) : list Z :=
  match s with [] => [] | c :: s' => if c =? bs then bs :: bs :: esc_bs s' else c :: esc_bs s' end.
(* value.replace(LF, backslash n).replace(CR, backslash r) *)
Fixpoint esc_nl (s : list Z) : list Z :=
  match s with
  | [] => []
  | c :: s' => if c =? 10 then bs :: 110 :: esc_nl s'
               else if c =? 13 then bs :: 114 :: esc_nl s' else c :: esc_nl s'
  end.

(* OperandNode.emit for TEXT / ERROR tokens: backslashes doubled first, then
   doubled quotes escaped, then line breaks *)
Definition emit_text (v : list Z) : list Z :=
  if (2 <? zlen v) then dq :: esc_nl (repl_qq (esc_bs (strip_quotes v))) ++ [dq] else v.

Definition lower (s : list Z) : list Z := map ascii_lower s.
Definition upper (s : list Z) : list Z := map ascii_upper s.
Definition is_ascii (s : list Z) : bool := forallb (fun c => (0 <=? c) && (c <? 128)) s.

(* RangeNode.emit without a cell: "$" removed, AddressRange.create, str().
   Modelled for the plain written forms [sheet!]COL ROW[:COL ROW] with an
   alphanumeric sheet name (upper-cased coordinates; a range keeps both
   corners as written — the harness writes them top-left:bottom-right). *)
Definition is_alpha (c : Z) : bool := ((65 <=? c) && (c <=? 90)) || ((97 <=? c) && (c <=? 122)).
Definition is_digit (c : Z) : bool := (48 <=? c) && (c <=? 57).
Fixpoint span (p : Z -> bool) (s : list Z) : list Z * list Z :=
  match s with
  | c :: s' => if p c then let '(a, b) := span p s' in (c :: a, b) else ([], s)
  | [] => ([], [])
  end.
Definition coord_ok (s : list Z) : option (list Z) :=   (* rest after COL ROW *)
  let '(col, r1) := span is_alpha s in
  let '(row, r2) := span is_digit r1 in
  match col, row with
  | _ :: _, d :: _ => if (d =? 48) || (3 <? zlen col) then None else Some r2
  | _, _ => None
  end.
Definition split_sheet (s : list Z) : list Z * list Z :=   (* (sheet incl "!", rest) *)
  let '(a, b) := span (fun c => is_alpha c || is_digit c) s in
  match b with
  | 33 :: r => (a ++ [33], r)
  | _ => ([], s)
  end.
Definition ref_parts (v : list Z) : option (list Z * list Z * bool) :=
  let s := filter (fun c => negb (c =? 36)) v in
  let '(sh, r) := split_sheet s in
  match coord_ok r with
  | Some [] => Some (sh, upper r, false)
  | Some (58 :: r2) =>
      match coord_ok r2 with
      | Some [] => Some (sh, upper r, true)
      | _ => None
      end
  | _ => None
  end.
Definition ref_modelled (v : list Z) : bool :=
  match ref_parts v with Some _ => true | None => false end.
Definition emit_ref (v : list Z) : pycst :=
  match ref_parts v with
  | Some (sh, r, rng) =>
      PCall (if rng then zs "_R_" else zs "_C_") [PAtom (dq :: sh ++ r ++ [dq])]
  | None => PRaw []
  end.

Definition emit_operand (k : okind) (v : list Z) : pycst :=
  match k with
  | KLogical => PAtom (if str_eqb (lower v) (zs "true") then zs "True" else zs "False")
  | KEmpty => PAtom (zs "None")
  | KText | KError => PAtom (emit_text v)
  | KNumber => PAtom v
  | KRange => emit_ref v
  end.

(* ------------------------------------------------------------ functions *)
Fixpoint lstrip_c (c : Z) (s : list Z) : list Z :=
  match s with x :: s' => if x =? c then lstrip_c c s' else s | [] => [] end.
Definition strip_c (c : Z) (s : list Z) : list Z := rev (lstrip_c c (rev (lstrip_c c s))).

(* FunctionNode.emit: the python-side function name *)
Definition func_key (name : list Z) : list Z :=
  let f := strip_c 40 (lower name) in
  let f := match f, rev f with
           | a :: _, b :: _ => if (a =? 95) && (b =? 95) then upper f else f
           | _, _ => f end in
  let f := if str_prefix (zs "_xlfn.") f then skipn 6 f else f in
  replace_all (zs ".") (zs "_") f.

Definition mapped_func (f : list Z) : list Z :=
  match dict_str excelformula.c_FunctionNode_func_map f with Some s => s | None => f end.

(* names for which getattr(self, 'func_' + name) finds something *)
Definition handler_names : list (list Z) :=
  [zs "pi"; zs "true"; zs "false"; zs "array"; zs "arrayrow"; zs "row"; zs "column";
   zs "offset"; zs "indirect"; zs "subtotal"; zs "map"].
Definition is_handler (f : list Z) : bool := existsb (str_eqb f) handler_names.

(* _build_reference for at least one child: the child's text with _R_/_C_
   renamed _REF_; when that starts with "_REF_(str(" (the child is a reference
   operator node, emitted without parentheses below a function) the wrapper
   _REF_(str( ... )) is cut off: address[10:-2] *)
Definition build_reference (t : pycst) : pycst :=
  match t with
  | PRefOp o l r => PRenamed (PBin o l r)
  | _ => PRenamed t
  end.

(* the parent of the node being emitted: none or a FunctionNode / an operator
   other than ^ / the operator ^ *)
Inductive pctx := CtxTop | CtxOp | CtxPow.
Definition is_par (c : pctx) : bool := match c with CtxTop => false | _ => true end.

Definition wrap (par : bool) (t : pycst) : pycst := if par then PParen t else t.

Fixpoint emit (c : pctx) (e : expr) : pycst :=
  match e with
  | EOperand k v => emit_operand k v
  | EPre a =>
      (* a prefix operator is emitted bare, except below ^ (Python binds **
         tighter than a unary minus on its left) *)
      match c with
      | CtxPow => PParen (PNeg (emit CtxOp a))
      | _ => PNeg (emit CtxOp a)
      end
  | EPost a => wrap (is_par c) (PBin PDiv (emit CtxOp a) (PAtom (zs "100")))
  | EBin o l r =>
      match o with
      | OIsect => wrap (is_par c) (PRefOp PBitAnd (emit CtxOp l) (emit CtxOp r))
      | OColon => wrap (is_par c) (PRefOp PPow (emit CtxOp l) (emit CtxOp r))
      | OUnion => wrap (is_par c) (PSeq [emit CtxOp l; emit CtxOp r])
      | OPow =>
          match pyop_of o with
          | Some p => wrap (is_par c) (PBin p (emit CtxPow l) (emit CtxPow r))
          | None => PRaw []
          end
      | _ =>
          match pyop_of o with
          | Some p => wrap (is_par c) (PBin p (emit CtxOp l) (emit CtxOp r))
          | None => PRaw []
          end
      end
  | EFunc name args =>
      let f := func_key name in
      if str_eqb f (zs "pi") then PAtom (zs "pi")
      else if str_eqb f (zs "true") then PAtom (zs "True")
      else if str_eqb f (zs "false") then PAtom (zs "False")
      else if str_eqb f (zs "array") then
        PTuple1 (PSeq (map (fun a => PTuple1 (emit CtxTop a)) args))
      else if str_eqb f (zs "arrayrow") then PSeq (map (emit CtxTop) args)
      else if str_eqb f (zs "row") || str_eqb f (zs "column") then
        match args with
        | a :: _ => PCall f [build_reference (emit CtxTop a)]
        | [] => PRaw []
        end
      else PCall (mapped_func f) (map (emit CtxTop) args)
  end.

(* what the emitter model covers (outside: OFFSET / INDIRECT / SUBTOTAL / a
   function called MAP, ROW() / COLUMN() without argument — they need the cell —
   and references that are not of the plain written form) *)
Fixpoint modelled (e : expr) : bool :=
  match e with
  | EOperand KRange v => ref_modelled v
  | EOperand _ _ => true
  | EPre a | EPost a => modelled a
  | EBin o l r => modelled l && modelled r
  | EFunc name args =>
      let f := func_key name in
      is_ascii name && forallb modelled args &&
      negb (existsb (str_eqb f) [zs "offset"; zs "indirect"; zs "subtotal"; zs "map"]) &&
      (if str_eqb f (zs "row") || str_eqb f (zs "column")
       then match args with [] => false | _ => true end else true)
  end.

(* ExcelFormula.python_code *)
Definition code (e : expr) : list Z := pyflat (emit CtxTop e).

(* ------------------------------------------------ Python's grammar (sub-language) *)
Definition pylevel (o : pyop) : Z :=
  match o with
  | PEq | PNe | PLt | PLe | PGt | PGe => 1
  | PBitAnd => 4 | PAdd | PSub => 6 | PMul | PDiv => 7 | PPow => 9
  end.
Definition pytop (t : pycst) : Z :=
  match t with
  | PNeg _ => 8
  | PBin o _ _ => pylevel o
  | PSeq _ => 0
  | _ => 11
  end.

(* precedence-correct in Python's grammar:
     comparison: both operands above level 1 (a < b < c would be a chain);
     & + - * / : left-associative;
     power ::= primary ["**" u_expr]  (left operand a primary, right one may be
     a unary minus or another power);  u_expr ::= power | "-" u_expr *)
Definition is_cmp_op (o : pyop) : bool :=
  match o with PEq | PNe | PLt | PLe | PGt | PGe => true | _ => false end.
Fixpoint pywfb (t : pycst) : bool :=
  match t with
  | PAtom _ => true
  | PParen t => pywfb t && (1 <=? pytop t)
  | PNeg t => pywfb t && (8 <=? pytop t)
  | PBin o l r =>
      pywfb l && pywfb r &&
      match o with
      | PPow => (10 <=? pytop l) && (8 <=? pytop r)
      | _ => if is_cmp_op o then (1 <? pytop l) && (1 <? pytop r)
             else (pylevel o <=? pytop l) && (pylevel o <? pytop r)
      end
  | PCall _ args => forallb (fun a => pywfb a && (1 <=? pytop a)) args
  | PTuple1 _ | PSeq _ | PRefOp _ _ _ | PRaw _ | PRenamed _ => false
  end.
Definition PyWF (t : pycst) : Prop := pywfb t = true.

Inductive pyexpr :=
| XAtom (s : list Z)
| XNeg (x : pyexpr)
| XBin (o : pyop) (l r : pyexpr)
| XCall (f : list Z) (args : list pyexpr)
| XOther.

Fixpoint pyabs (t : pycst) : pyexpr :=
  match t with
  | PAtom s => XAtom s
  | PParen t => pyabs t
  | PNeg t => XNeg (pyabs t)
  | PBin o l r => XBin o (pyabs l) (pyabs r)
  | PCall f args => XCall f (map pyabs args)
  | _ => XOther
  end.

(* the fully parenthesised text of a Python tree (for the CPython cross-check) *)
Fixpoint xflat (x : pyexpr) : list Z :=
  match x with
  | XAtom s => s
  | XNeg a => zs "(-" ++ xflat a ++ zs ")"
  | XBin o l r => zs "(" ++ xflat l ++ zs " " ++ pyop_text o ++ zs " " ++ xflat r ++ zs ")"
  | XCall f args => f ++ zs "(" ++ join_str (zs ", ") (map xflat args) ++ zs ")"
  | XOther => zs "?"
  end.

(* the meaning of an Excel tree as a Python tree *)
Fixpoint translate (e : expr) : pyexpr :=
  match e with
  | EOperand k v => pyabs (emit_operand k v)
  | EPre a => XNeg (translate a)
  | EPost a => XBin PDiv (translate a) (XAtom (zs "100"))
  | EBin o l r =>
      match pyop_of o with
      | Some p => XBin p (translate l) (translate r)
      | None => XOther
      end
  | EFunc name args =>
      let f := func_key name in
      if str_eqb f (zs "pi") then XAtom (zs "pi")
      else if str_eqb f (zs "true") then XAtom (zs "True")
      else if str_eqb f (zs "false") then XAtom (zs "False")
      else if is_handler f then XOther
      else XCall (mapped_func f) (map translate args)
  end.

(* the fragment of the emitter theorem: arithmetic / comparison / & operators,
   prefix -, postfix %, literals, plain references, ordinary function calls
   (no arrays, no reference operators, no ROW/COLUMN/OFFSET/INDIRECT/SUBTOTAL) *)
Fixpoint arith (e : expr) : Prop :=
  match e with
  | EOperand KRange v => ref_modelled v = true
  | EOperand _ _ => True
  | EPre a | EPost a => arith a
  | EBin o l r => (exists p, pyop_of o = Some p) /\ arith l /\ arith r
  | EFunc name args =>
      (is_handler (func_key name) = false \/ func_key name = zs "pi"
       \/ func_key name = zs "true" \/ func_key name = zs "false") /\
      (fix al (l : list expr) : Prop :=
         match l with [] => True | a :: l' => arith a /\ al l' end) args
  end.

(* ------------------------------------------------------------ literals *)
(* Excel's TEXT token for the characters s: quotes doubled, wrapped in quotes *)
Fixpoint dbl (s : list Z) : list Z :=
  match s with [] => [] | c :: s' => if c =? dq then dq :: dq :: dbl s' else c :: dbl s' end.
Definition excel_quote (s : list Z) : list Z := dq :: dbl s ++ [dq].

(* Python's decoding of the body of a "..." literal (not raw, not triple):
   None = not one complete literal (ends early / unterminated / raw newline),
   or an escape this model does not decode (octal, \x, \u, \N, line
   continuation, unknown escapes) *)
Fixpoint py_unescape (s : list Z) : option (list Z) :=
  match s with
  | [] => None                                   (* unterminated *)
  | c :: s' =>
      if c =? dq then match s' with [] => Some [] | _ => None end
      else if (c =? 10) || (c =? 13) then None   (* raw newline: SyntaxError *)
      else if c =? bs then
        match s' with
        | d :: s'' =>
            let esc (x : Z) := match py_unescape s'' with Some r => Some (x :: r) | None => None end in
            if d =? dq then esc dq
            else if d =? bs then esc bs
            else if d =? 39 then esc 39
            else if d =? 110 then esc 10
            else if d =? 116 then esc 9
            else if d =? 114 then esc 13
            else None
        | [] => None
        end
      else match py_unescape s' with Some r => Some (c :: r) | None => None end
  end.
Definition py_string_literal (t : list Z) : option (list Z) :=
  match t with
  | c :: body => if c =? dq then py_unescape body else None
  | [] => None
  end.

(* Python's decinteger: nonzerodigit digit* | "0"+ ; the value of the digits *)
Fixpoint dec_value (s : list Z) (acc : Z) : Z :=
  match s with [] => acc | c :: s' => dec_value s' (10 * acc + (c - 48)) end.
Definition py_decint (s : list Z) : option Z :=
  match s with
  | [] => None
  | c :: _ =>
      if forallb is_digit s then
        if c =? 48 then (if forallb (fun d => d =? 48) s then Some 0 else None)
        else Some (dec_value s 0)
      else None
  end.
