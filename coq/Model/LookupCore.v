(* Model/LookupCore.v — pycel.lib.lookup._match (lines 66-141) and
   pycel.lib.lookup.index (lines 234-298), transcribed by hand: _match builds
   closures and calls bisect on ExcelCmp objects, index has a closure and a
   numpy branch, so neither is in the translator's subset.  The tie to the
   source is the correspondence run of harness/props/c16.py.  The bodies of
   match / vlookup / hlookup / lookup ARE translated (Gen/lookup.v) and call
   [match_] below.

   ExcelCmp objects (excelutil.py 1144-1184) are the keys of Model/Ops.v:
   (cmp_type, value) with text lower-cased; the third namedtuple field
   [empty] never decides a comparison (it is a function of cmp_type, or equal
   to the value for error codes) and is only kept for the lookup value, where
   it is what a blank cell is replaced by (ExcelCmp(None, empty=self)). *)
From Coq Require Import ZArith QArith List Bool Lia.
From PV Require Import Lib.Py Model.Ops.
From PV Require Gen.excelutil.
Import ListNotations.
Open Scope Z_scope.

Definition key := (Z * pyval)%type.

Definition NA : pyval := excelutil.c_NA_ERROR.
Definition REF : pyval := excelutil.c_REF_ERROR.
Definition VALUE : pyval := excelutil.c_VALUE_ERROR.

Definition is_scalar (v : pyval) : bool :=
  match v with
  | VNone | VBool _ | VInt _ | VFloat _ | VStr _ => true
  | _ => false
  end.

(* ExcelCmp(lookup_value): the key and its [empty] field *)
Definition lv_key (v : pyval) : res (key * pyval) :=
  if negb (is_scalar v) then Raise Unmodelled else
  match v with
  | VNone => Ok ((0, VFloat 0), VFloat 0)
  | _ => k <- excel_cmp_key v ;;
         tv <- excelutil.f_type_cmp_value v ;;
         d <- py_getitem tv (VInt 1) ;;
         Ok (k, d)
  end.

(* ExcelCmp(cell): a blank cell is the number 0.0 *)
Definition abs_key (c : pyval) : res key :=
  if negb (is_scalar c) then Raise Unmodelled else
  match c with
  | VNone => Ok (0, VFloat 0)
  | _ => excel_cmp_key c
  end.

(* ExcelCmp(cell, empty=x): a blank cell takes x's type and x's empty value *)
Definition rel_key (x : key * pyval) (c : pyval) : res key :=
  if negb (is_scalar c) then Raise Unmodelled else
  match c with
  | VNone => Ok (fst (fst x), snd x)
  | _ => excel_cmp_key c
  end.

(* "x < cell" as bisect evaluates it: ExcelCmp.__lt__(x, cell) *)
Definition x_lt_cell (x : key * pyval) (c : pyval) : res bool :=
  k <- rel_key x c ;; key_lt true (fst x) k.

(* bisect.bisect_right(a, x, lo, hi) — CPython's loop
     while lo < hi: mid = (lo + hi) // 2
                    if x < a[mid]: hi = mid  else: lo = mid + 1
   over an arbitrary test [lt c] for "x < c". *)
Fixpoint bisect_loop (fuel : nat) (lt : pyval -> res bool) (a : list pyval) (lo hi : Z)
  : res Z :=
  match fuel with
  | O => Raise OutOfFuel
  | S f =>
      if lo <? hi then
        let mid := (lo + hi) / 2 in
        match nth_error a (Z.to_nat mid) with
        | None => Raise IndexError
        | Some c =>
            b <- lt c ;;
            if b then bisect_loop f lt a lo mid else bisect_loop f lt a (mid + 1) hi
        end
      else Ok lo
  end.
Definition bisect_right (lt : pyval -> res bool) (a : list pyval) (lo hi : Z) : res Z :=
  bisect_loop (S (Z.to_nat (hi - lo))) lt a lo hi.

(* number of leading blanks *)
Fixpoint lead_none (l : list pyval) : nat :=
  match l with VNone :: l' => S (lead_none l') | _ => O end.

(* "while result and x.cmp_type != ExcelCmp(a[result-1]).cmp_type: result -= 1"
   on the reversed prefix a[result-1], a[result-2], …, a[0] *)
Fixpoint backoff (t : Z) (rprefix : list pyval) : res nat :=
  match rprefix with
  | [] => Ok O
  | c :: r' => k <- abs_key c ;;
               if fst k =? t then Ok (length rprefix) else backoff t r'
  end.

Definition match1 (x : key * pyval) (a : list pyval) : res pyval :=
  let lo := Z.of_nat (lead_none a) in
  let hi := Z.of_nat (length a - lead_none (rev a)) in
  r <- bisect_right (x_lt_cell x) a lo hi ;;
  r' <- backoff (fst (fst x)) (rev (firstn (Z.to_nat r) a)) ;;
  match r' with
  | O => Ok NA
  | S j => match nth_error a j with
           | Some VNone => Ok NA
           | Some _ => Ok (VInt (Z.of_nat r'))
           | None => Raise IndexError
           end
  end.

(* match_type 0: "for i, value in enumerate(a, 1): if value not in ERROR_CODES:
   value = ExcelCmp(value); if value.cmp_type == x.cmp_type and compare(i, value): break" *)
Fixpoint scan0 (test : key -> res bool) (t : Z) (l : list pyval) (i : Z) : res pyval :=
  match l with
  | [] => Ok NA
  | c :: l' =>
      e <- in_error_codes c ;;
      if e then scan0 test t l' (i + 1) else
      k <- abs_key c ;;
      if fst k =? t then
        (b <- test k ;; if b then Ok (VInt i) else scan0 test t l' (i + 1))
      else scan0 test t l' (i + 1)
  end.

(* match_type -1: compare = "if val < x: return True; result = idx; return val == x" *)
Fixpoint scan_m1 (xk : key) (l : list pyval) (i : Z) (last : pyval) : res pyval :=
  match l with
  | [] => Ok last
  | c :: l' =>
      e <- in_error_codes c ;;
      if e then scan_m1 xk l' (i + 1) last else
      k <- abs_key c ;;
      if fst k =? fst xk then
        (b <- key_lt true k xk ;;
         if b then Ok last
         else if key_eq k xk then Ok (VInt i)
         else scan_m1 xk l' (i + 1) (VInt i))
      else scan_m1 xk l' (i + 1) last
  end.

(* build_wildcard_re(pattern): every '*' becomes '.*', every '?' becomes '.'
   (the "(?<!~)" look-behinds of STAR_RE / QUESTION_MARK_RE test the character
   just consumed, so '~' escapes nothing), the result is compiled as
   '^…$' WITHOUT escaping the other characters.  [glob p s] is that regular
   expression for patterns free of other regex metacharacters: '.' does not
   match a line feed, '$' also matches before a final line feed. *)
Definition is_wild (c : Z) : bool := (c =? 42) || (c =? 63).
Definition regex_meta (c : Z) : bool :=
  (c =? 46) || (c =? 94) || (c =? 36) || (c =? 43) || (c =? 123) || (c =? 125)
  || (c =? 91) || (c =? 93) || (c =? 92) || (c =? 124) || (c =? 40) || (c =? 41).

Fixpoint glob (p : str) : str -> bool :=
  match p with
  | [] => fun s => match s with [] => true | [c] => c =? 10 | _ => false end
  | c :: p' =>
      if c =? 42 then
        (fix star (s : str) : bool :=
           glob p' s || match s with [] => false | d :: s' => negb (d =? 10) && star s' end)
      else if c =? 63 then
        fun s => match s with d :: s' => negb (d =? 10) && glob p' s' | [] => false end
      else
        fun s => match s with d :: s' => (d =? c) && glob p' s' | [] => false end
  end.

(* the [compare] closure of match_type 0 *)
Definition test0 (xk : key) : res (key -> res bool) :=
  match xk with
  | (1, VStr p) =>
      if existsb is_wild p then
        (if existsb regex_meta p then Raise Unmodelled
         else Ok (fun k => match snd k with
                           | VStr s => Ok (glob p s)
                           | _ => Raise Unmodelled
                           end))
      else Ok (fun k => Ok (key_eq k xk))
  | _ => Ok (fun k => Ok (key_eq k xk))
  end.

Definition seq_items (v : pyval) : res (list pyval) :=
  match v with VTuple l | VList l => Ok l | _ => Raise Unmodelled end.

(* _match(lookup_value, lookup_array, match_type) *)
Definition match_ (v arr mt : pyval) : res pyval :=
  a <- seq_items arr ;;
  x <- lv_key v ;;
  if py_eq mt (VInt 1) then match1 x a
  else if py_eq mt (VInt 0) then
    (t <- test0 (fst x) ;; scan0 t (fst (fst x)) a 1)
  else scan_m1 (fst x) a 1 NA.

(* ------------------------------------------------------------------ index *)
Definition range0 (n : pyval) : res (list pyval) :=
  match n with VInt z => Ok (map VInt (zrange (Z.to_nat z) 0)) | _ => Raise TypeError end.

(* array_data(row, col) = array[row][col] (no address arrays in the model) *)
Definition array_data (array row col : pyval) : res pyval :=
  r <- py_getitem array row ;; py_getitem r col.

Definition index_body (array row_num col_num : pyval) : res pyval :=
  if py_truthy row_num && py_truthy col_num then
    (b <- b_or (py_lt row_num (VInt 0)) (py_lt col_num (VInt 0)) ;;
     if b then Ok VALUE else
     r <- py_sub row_num (VInt 1) ;; c <- py_sub col_num (VInt 1) ;; array_data array r c)
  else if py_truthy row_num then
    (b <- py_lt row_num (VInt 0) ;;
     if b then Ok VALUE else
     a0 <- py_getitem array (VInt 0) ;; w <- py_len a0 ;;
     if py_eq w (VInt 1) then (r <- py_sub row_num (VInt 1) ;; array_data array r (VInt 0))
     else h <- py_len array ;;
     if py_eq h (VInt 1) then (r <- py_sub row_num (VInt 1) ;; array_data array (VInt 0) r)
     else r <- py_sub row_num (VInt 1) ;; cols <- range0 w ;;
          cells <- mapM (fun c => array_data array r c) cols ;;
          Ok (VTuple [VTuple cells]))
  else if py_truthy col_num then
    (b <- py_lt col_num (VInt 0) ;;
     if b then Ok VALUE else
     h <- py_len array ;;
     if py_eq h (VInt 1) then (c <- py_sub col_num (VInt 1) ;; array_data array (VInt 0) c)
     else a0 <- py_getitem array (VInt 0) ;; w <- py_len a0 ;;
     if py_eq w (VInt 1) then (c <- py_sub col_num (VInt 1) ;; array_data array c (VInt 0))
     else c <- py_sub col_num (VInt 1) ;; rows <- range0 h ;;
          cells <- mapM (fun r => x <- array_data array r c ;; Ok (VTuple [x])) rows ;;
          Ok (VTuple cells))
  else Ok array.

(* index(array, row_num, col_num=None) *)
Definition index_ (array row_num col_num : pyval) : res pyval :=
  ll <- cond_of (excelutil.f_list_like array) ;;
  if negb ll then
    (e <- in_error_codes array ;; if e then Ok array else Ok VALUE)
  else
  a0 <- py_getitem array (VInt 0) ;;
  ll0 <- cond_of (excelutil.f_list_like a0) ;;
  if negb ll0 then Ok VALUE else
  _ <- py_getitem a0 (VInt 0) ;;          (* is_address(array[0][0]) *)
  try_except (index_body array row_num col_num) [IndexError] (Ok REF).
