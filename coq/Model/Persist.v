(* Model/Persist.v — to_file / from_file of ExcelCompiler, hand-transcribed from
   /repo/src/pycel/excelcompiler.py on top of Model/Graph.v:
     _to_text                       lines 184-228
     _from_text                     lines 230-280
     to_file / from_file            lines 282-381
     _CompiledImporter              lines 1192-1239
     _Cell.serialize / _CellRange.serialize   lines 1109, 1089-1092

   A compiled model ([pmodel]) is a Graph.v machine state over a workbook,
   together with what the machine abstracts away but persistence needs: the
   python code of every formula cell, the insertion order of the cell map
   (dict order: it is what [sorted] has to make irrelevant) and the settings
   (cycles, workbook file name, source hash, user extra_data).

   What is NOT modelled, and how it is represented:
   * the bytes of the yaml / json / pickle encodings.  The file is the parsed
     document: an ordered top-level mapping key -> value whose "cell_map" entry
     is an ordered mapping address -> scalar.  The scalar printers/parsers of
     ruamel.yaml / json are the Section pair [print]/[parse] of
     Proofs/C03.v with the trusted hypothesis parse (print v) = v (policed by
     the harness's awkward-content pool).  pickle.load (pickle.dump x) = x is
     the second trusted round trip: [to_file] pickles _from_text(_to_text(M))
     (line 341), so a pkl load is [from_text] of [to_text] as well.
   * AddressRange: what an address IS (a range or a cell, the members of a
     range, its sort key) is a [geometry], independent of any workbook.
   * ExcelFormula: the python code of a formula is a text; its precedents
     (needed_addresses) and its meaning are [cdeps]/[csem] of that text.
   * iterative models (cycles <> False): the settings are carried, the
     evaluator is Graph.v's non-iterative one (oracle-only in the harness).
   * serialised range nodes (CSE array formulas: _CellRange.serialize is
     bool(self.formula)): not in Graph.v; a range address inside a file's cell
     map is [Raise Unmodelled]. *)
From Coq Require Import List Arith Bool ZArith.
From PV Require Import Lib.Py Model.Graph.
Import ListNotations.
Local Open Scope nat_scope.

(* ------------------------------------------------------------- geometry *)
Record geometry := {
  g_n : nat;                        (* addresses 0 .. g_n - 1 *)
  g_range : nat -> bool;            (* AddressRange(a).is_range *)
  g_members : nat -> list nat;      (* resolve_range, row-major *)
  g_key : nat -> nat;               (* AddressRange(a).sort_key: (sheet, col, row) of the start cell *)
}.

(* --------------------------------------------------- ordered dictionaries *)
Section Dict.
  Context {A : Type}.
  Definition dict := list (str * A).
  (* d[k] = v : an existing key keeps its position, a new key goes last *)
  Fixpoint d_set (d : dict) (k : str) (v : A) : dict :=
    match d with
    | [] => [(k, v)]
    | (k', v') :: d' => if str_eqb k' k then (k', v) :: d' else (k', v') :: d_set d' k v
    end.
  Fixpoint d_get (d : dict) (k : str) : option A :=
    match d with
    | [] => None
    | (k', v') :: d' => if str_eqb k' k then Some v' else d_get d' k
    end.
  Fixpoint d_del (d : dict) (k : str) : dict :=
    match d with
    | [] => []
    | (k', v') :: d' => if str_eqb k' k then d_del d' k else (k', v') :: d_del d' k
    end.                  (* keys of a Python dict are unique: at most one entry goes *)
End Dict.
Arguments dict A : clear implicits.

(* a top-level value of the document: a scalar / user data, or the cell map *)
Inductive tval := TV (v : pyval) | TCells (l : list (nat * pyval)).
Definition file := dict tval.

Definition k_cycles : str := ([99; 121; 99; 108; 101; 115])%Z.                        (* "cycles" *)
Definition k_hash : str := ([101; 120; 99; 101; 108; 95; 104; 97; 115; 104])%Z.       (* "excel_hash" *)
Definition k_cells : str := ([99; 101; 108; 108; 95; 109; 97; 112])%Z.                (* "cell_map" *)
Definition k_filename : str := ([102; 105; 108; 101; 110; 97; 109; 101])%Z.           (* "filename" *)

(* ------------------------------------------------------------ the model *)
Record pmodel := {
  pm_wb : workbook;
  pm_code : nat -> str;             (* cell.formula.python_code of a formula cell *)
  pm_state : state;
  pm_order : list nat;              (* cell_map.keys(), insertion order *)
  pm_cycles : pyval;                (* False | {'iterations':…, 'tolerance':…} *)
  pm_filename : pyval;
  pm_hash : pyval;                  (* _excel_file_md5_digest *)
  pm_extra : option file;           (* extra_data: None | dict *)
}.

Fixpoint lookup (l : list (nat * pyval)) (n : nat) : option pyval :=
  match l with
  | [] => None
  | (m, v) :: l' => if Nat.eqb m n then Some v else lookup l' n
  end.

(* sorted(items, key=…): stable insertion sort *)
Section Sort.
  Context {A : Type} (key : A -> nat).
  Fixpoint insert (a : A) (l : list A) : list A :=
    match l with
    | [] => [a]
    | b :: l' => if key a <=? key b then a :: b :: l' else b :: insert a l'
    end.
  Fixpoint isort (l : list A) : list A :=
    match l with
    | [] => []
    | a :: l' => insert a (isort l')
    end.
End Sort.

(* a text that starts with "=" *)
Definition code_of (v : pyval) : option str :=
  match v with
  | VStr (61%Z :: t) => Some t
  | _ => None
  end.

Section Persist.
  Variable G : geometry.
  (* ExcelFormula(python code): needed_addresses and the compiled meaning *)
  Variable cdeps : str -> list nat.
  Variable csem : str -> list pyval -> pyval.
  (* the value of a range node: the tuple of rows of its members' values *)
  Variable rsem : nat -> list pyval -> pyval.

  (* meaning of the nodes of a model with the given code table *)
  Definition sem_of (isrange : nat -> bool) (code : nat -> str) (n : nat) (vals : list pyval) : pyval :=
    if isrange n then rsem n vals else csem (code n) vals.
  Definition pm_sem (M : pmodel) := sem_of (wb_range (pm_wb M)) (pm_code M).

  (* ------------------------------------------------------------ _to_text
       def cell_value(a_cell):                                   (188-194)
           if a_cell.formula and a_cell.formula.python_code:
               return '=' + a_cell.formula.python_code
           elif isinstance(a_cell.value, np.float64): return float(a_cell.value)
           else: return a_cell.value
     (np.float64 and float are the same [VFloat] here) *)
  Definition cell_value (M : pmodel) (n : nat) : pyval :=
    if wb_input (pm_wb M) n then st_cache (pm_state M) n
    else VStr (61%Z :: pm_code M n).

  (*   cell_map=dict(sorted(((addr, cell_value(cell))               (199-203)
                             for addr, cell in self.cell_map.items() if cell.serialize),
                            key=lambda x: AddressRange(x[0]).sort_key))
     _Cell.serialize = True; _CellRange.serialize = bool(formula) = False here *)
  Definition saved_cells (M : pmodel) : list (nat * pyval) :=
    isort (fun x => g_key G (fst x))
          (map (fun n => (n, cell_value M n))
               (filter (fun n => negb (wb_range (pm_wb M) n)) (pm_order M))).

  (*   extra_data = {} if self.extra_data is None else self.extra_data   (186)
       extra_data.update(dict(cycles=…, excel_hash=…, cell_map=…, filename=…))   (196-206)
       dump(extra_data);  del extra_data['cell_map']                     (214-223)
     the update happens IN the user's dictionary: the document is returned
     together with the model as it is after the call *)
  Definition to_text (M : pmodel) : file * pmodel :=
    let d0 := match pm_extra M with None => [] | Some d => d end in
    let d1 := d_set (d_set (d_set (d_set d0 k_cycles (TV (pm_cycles M)))
                                  k_hash (TV (pm_hash M)))
                           k_cells (TCells (saved_cells M)))
                    k_filename (TV (pm_filename M)) in
    (d1,
     {| pm_wb := pm_wb M; pm_code := pm_code M; pm_state := pm_state M; pm_order := pm_order M;
        pm_cycles := pm_cycles M; pm_filename := pm_filename M; pm_hash := pm_hash M;
        pm_extra := match pm_extra M with None => None | Some _ => Some (d_del d1 k_cells) end |}).

  (* ---------------------------------------------------- _CompiledImporter
       def _get_cell(self, address):                              (1229-1239)
           cell_value = self.cell_map.get(str(address))
           if cell_value is None:            RangeData(address, '', None)     blank input
           elif isinstance(cell_value, str) and cell_value.startswith('='):
                                             RangeData(address, cell_value, None)   formula
           else:                             RangeData(address, '', cell_value)     input
       get_range of a range address without formula: the block of its cells  (1219-1227)
     an address that is not in the file is a blank input cell *)
  Definition imp_code (l : list (nat * pyval)) (n : nat) : option str :=
    match lookup l n with
    | Some v => code_of v
    | None => None
    end.

  Definition imp_wb (l : list (nat * pyval)) : workbook :=
    {| wb_n := g_n G;
       wb_input := fun n => negb (g_range G n) &&
                            match imp_code l n with Some _ => false | None => true end;
       wb_deps := fun n => if g_range G n then g_members G n
                           else match imp_code l n with Some t => cdeps t | None => [] end;
       wb_range := g_range G;
       wb_inp0 := fun n => match lookup l n with
                           | Some v => match code_of v with Some _ => VNone | None => v end
                           | None => VNone
                           end;
       wb_stored := fun _ => VNone |}.                (* build_cell: a formula cell starts with value None *)

  Definition imp_codes (l : list (nat * pyval)) (n : nat) : str :=
    match imp_code l n with Some t => t | None => [] end.

  (* ----------------------------------------------------------- _from_text
       data = YAML().load(f)                                       (241-242)
       excel = _CompiledImporter(filename, data)                   (244)
           self.filename = file_data.get('filename', <stem of the file name>)   (1197)
           self.cell_map = file_data['cell_map']                   (1199)  KeyError
       excel_compiler = cls(excel=excel, cycles=data.pop('cycles', False))     (245)
       for address, python_code in data['cell_map'].items():       (256-263)
           if address.is_range: range_todos.append(…)   [serialised ranges: Unmodelled]
           else: excel_compiler._make_cells(address)
       excel_compiler._process_gen_graph()                         (270)
           links every formula cell to its precedents, builds the range nodes the
           formulas read (from their members, which are all in the file) and
           evaluates the new range nodes eagerly — Graph.build, cell by cell; the
           order in which the eager evaluations run does not change the resulting
           cache (each fills exactly the ancestors of the range with their
           from-scratch values: Proofs/C01Eval.v)
       del data['cell_map']                                        (271)
       excel_compiler._excel_file_md5_digest = data['excel_hash']; del data['excel_hash']  (274-275)  KeyError
       excel_compiler.extra_data = data                            (276)
     the file name default (the stem of the path) is not modelled: VNone *)
  Definition load (f : file) (l : list (nat * pyval)) (h : pyval) : pmodel :=
    let W := imp_wb l in
    let code := imp_codes l in
    let sem := sem_of (g_range G) code in
    let s := fold_left (fun s n => build W sem s n) (map fst l) (init W) in
    {| pm_wb := W; pm_code := code; pm_state := s;
       (* cells in file order, then the range nodes made by _process_gen_graph *)
       pm_order := map fst l ++ filter (fun n => st_built s n && g_range G n) (seq 0 (g_n G));
       pm_cycles := match d_get f k_cycles with Some (TV c) => c | _ => VBool false end;
       pm_filename := match d_get f k_filename with Some (TV n) => n | _ => VNone end;
       pm_hash := h;
       pm_extra := Some (d_del (d_del (d_del f k_cycles) k_cells) k_hash) |}.

  Definition from_text (f : file) : res pmodel :=
    match d_get f k_cells with
    | Some (TCells l) =>
        if existsb (fun x => g_range G (fst x) || negb (fst x <? g_n G)) l then Raise Unmodelled
        else
        match d_get f k_hash with
        | Some (TV h) => Ok (load f l h)
        | Some (TCells _) => Raise Unmodelled
        | None => Raise KeyError
        end
    | Some (TV _) => Raise Unmodelled
    | None => Raise KeyError
    end.

  (* ------------------------------------------------- to_file / from_file
     text formats: the document goes through the scalar printer and parser *)
  Section Disk.
    Variable print : pyval -> str.
    Variable parse : str -> pyval.
    Inductive dval := DV (t : str) | DCells (l : list (nat * str)).
    Definition write_file (f : file) : dict dval :=
      map (fun kv => (fst kv, match snd kv with
                              | TV v => DV (print v)
                              | TCells l => DCells (map (fun x => (fst x, print (snd x))) l)
                              end)) f.
    Definition read_file (d : dict dval) : file :=
      map (fun kv => (fst kv, match snd kv with
                              | DV t => TV (parse t)
                              | DCells l => TCells (map (fun x => (fst x, parse (snd x))) l)
                              end)) d.
    (* from_file(name.yml|json) after to_file(name, yml|json) *)
    Definition roundtrip_text (M : pmodel) : res pmodel :=
      from_text (read_file (write_file (fst (to_text M)))).
  End Disk.

  (* to_file(name, 'pkl'): pickle.dump(self._from_text(text_name)) (340-346);
     from_file: pickle.load (366-368) — the pickle round trip is the identity
     on the object (trusted), so: *)
  Definition roundtrip_pkl (M : pmodel) : res pmodel := from_text (fst (to_text M)).
End Persist.
