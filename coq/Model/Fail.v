(* Model/Fail.v — Model/Graph.v extended with formulas whose evaluation RAISES
   (C09).  Hand-transcribed from
     /repo/src/pycel/excelformula.py  eval_func (lines 919-951):
        NameError            -> UnknownFunction     (line 936-938)
        any other Exception  -> FormulaEvalError    (line 943-946; this clause also
                                catches the pycel error raised by a PRECEDENT that is
                                evaluated inside the formula, so a dependant formula
                                always re-raises FormulaEvalError)
     /repo/src/pycel/excelcompiler.py
        _evaluate            (lines 803-838): cell.value is assigned AFTER self.eval
                                returned; when eval raises nothing is stored
        _evaluate_range      (lines 765-801): no try/except; the tuple of member
                                evaluations is abandoned at the first member that
                                raises, cell_range.value is not assigned, the
                                exception passes through unchanged
        _make_cells / _gen_graph / _process_gen_graph (lines 708-763, 925-961):
                                the new range nodes are evaluated in
                                reversed(range_todos) inside try/finally; the first
                                one that raises aborts the loop (the remaining new
                                range nodes stay None, all new cells stay in cell_map)
        _evaluate_non_iterative (lines 840-872): when _gen_graph raises, _evaluate is
                                not reached
   set_value/_reset do not evaluate anything: they are Graph.set_value unchanged.

   Where a formula fails:
     [fpre n = Some k]  the compiled lambda raises NameError after it has read the
                        first k precedents (=NOSUCHFUNC(A1,A2): Python looks the
                        function name up BEFORE it evaluates the arguments, k = 0)
     [fsem n vals = None] every precedent has been read and the function called
                        with their values raises (a library / plugin function)
   Nothing here depends on time or on a call counter: "the plugin raises from its
   k-th call on" is a change of [fsem] between two operations (the state of the
   machine does not mention [fsem]). *)
From Coq Require Import List Arith Bool.
From PV Require Import Lib.Py Model.Graph.
Import ListNotations.

Inductive errclass := EUnknown | EFormula.     (* UnknownFunction | FormulaEvalError *)
Inductive fres := FVal (v : pyval) | FRaise (e : errclass).

Definition fval (r : fres) : option pyval := match r with FVal v => Some v | FRaise _ => None end.
Definition is_raise (r : fres) : bool := match r with FVal _ => false | FRaise _ => true end.

(* the values of a list of outcomes, or the first failure *)
Fixpoint seq_res (l : list fres) : list pyval + errclass :=
  match l with
  | [] => inl []
  | FRaise e :: _ => inr e
  | FVal v :: l' => match seq_res l' with inl vs => inl (v :: vs) | inr e => inr e end
  end.

Section FailMachine.
  Variable W : workbook.
  Variable fsem : nat -> list pyval -> option pyval.
  Variable fpre : nat -> option nat.
  (* the order in which _process_gen_graph evaluates the new range nodes (built
     set before the call, seed); the theorems hold for EVERY such function, the
     differential run uses [gen_order] below *)
  Variable rorder : (nat -> bool) -> nat -> list nat.

  (* the precedents a formula reads before it returns or raises *)
  Definition reads (n : nat) : list nat :=
    match fpre n with Some k => firstn k (wb_deps W n) | None => wb_deps W n end.

  (* eval_func's except clauses: the failure of a precedent read inside a formula
     is re-raised as FormulaEvalError; _evaluate_range lets it through *)
  Definition wrap (n : nat) (e : errclass) : errclass := if wb_range W n then e else EFormula.

  (* the formula itself, once its precedents are read *)
  Definition compute (n : nat) (vals : list pyval) : fres :=
    match fpre n with
    | Some _ => FRaise EUnknown
    | None => match fsem n vals with Some v => FVal v | None => FRaise EFormula end
    end.

  (* one precedent inside the evaluation of a node: stop at the first failure *)
  Definition fstep (ev : cache -> nat -> cache * fres)
             (acc : cache * (list pyval + errclass)) (d : nat) : cache * (list pyval + errclass) :=
    match acc with
    | (c1, inl vs) => let '(c2, r) := ev c1 d in
                      (c2, match r with FVal v => inl (vs ++ [v]) | FRaise e => inr e end)
    | (c1, inr e) => (c1, inr e)
    end.

  (* ------------------------------------------------------------- _evaluate
       if cell.needs_calc:
           value = self.eval(cell)         <- may raise: nothing assigned
           cell.value = value
       return cell.value *)
  Fixpoint eval_f (f : nat) (c : cache) (n : nat) {struct f} : cache * fres :=
    match f with
    | O => (c, FVal VNone)
    | S f' =>
        if wb_input W n then (c, FVal (c n))
        else if is_none (c n) then
          let '(c', r) := fold_left (fstep (eval_f f')) (reads n) (c, inl []) in
          match r with
          | inr e => (c', FRaise (wrap n e))
          | inl vals => match compute n vals with
                        | FVal v => (upd c' n v, FVal v)
                        | FRaise e => (c', FRaise e)
                        end
          end
        else (c, FVal (c n))
    end.

  (* ------------------------------------------- _gen_graph / _process_gen_graph
       try:    for range_todo in reversed(self.range_todos): self._evaluate_range(range_todo)
       finally: self.range_todos = []
     the accumulator is (cache, None | Some failure); after a failure nothing more
     is evaluated *)
  Definition bstep_f (b0 b' : nat -> bool) (acc : cache * option errclass) (m : nat)
    : cache * option errclass :=
    match acc with
    | (c, Some e) => (c, Some e)
    | (c, None) =>
        if b' m && negb (b0 m) && wb_range W m then
          let '(c2, r) := eval_f (S (wb_n W)) c m in
          (c2, match r with FVal _ => None | FRaise e => Some e end)
        else (c, None)
    end.

  (* _make_cells: a new formula cell starts from its stored result, a new range
     node from None (Graph.build's [c1], written as updates of the cache) *)
  Definition new_cells (s : state) (b' : nat -> bool) : cache :=
    fold_left (fun (c : cache) m =>
                 if b' m && negb (st_built s m) && negb (wb_input W m)
                 then upd c m (if wb_range W m then VNone else wb_stored W m) else c)
              (seq 0 (wb_n W)) (st_cache s).

  Definition build_f (s : state) (n : nat) : state * option errclass :=
    let b' := closure W (S (wb_n W)) (st_built s) n in
    let c1 := new_cells s b' in
    (* the code's order first; the tail makes sure that a build that does not fail
       has evaluated every new range node whatever [rorder] is (evaluating a range
       node that holds a value is a no-op) *)
    let '(c2, r) := fold_left (bstep_f (st_built s) b')
                              (rorder (st_built s) n ++ seq 0 (wb_n W)) (c1, None) in
    ({| st_cache := c2; st_built := b' |}, r).

  (* ------------------------------------------------- _evaluate_non_iterative
       if address not in cell_map: self._gen_graph(address)    <- may raise
       result = self._evaluate(address)                         <- may raise *)
  Definition evaluate_f (s : state) (n : nat) : state * fres :=
    let '(s1, r) := build_f s n in
    match r with
    | Some e => (s1, FRaise e)
    | None => let '(c, v) := eval_f (S (wb_n W)) (st_cache s1) n in
              ({| st_cache := c; st_built := st_built s1 |}, v)
    end.

  Definition step_f (s : state) (o : gop) : state * fres :=
    match o with
    | Evaluate n => evaluate_f s n
    | SetValue a v => (set_value W s a v, FVal VNone)
    | Build n => let '(s1, r) := build_f s n in
                 (s1, match r with Some e => FRaise e | None => FVal VNone end)
    end.

  Fixpoint run_f (s : state) (h : list gop) : state * list fres :=
    match h with
    | [] => (s, [])
    | o :: h' => let '(s1, v) := step_f s o in
                 let '(s2, vs) := run_f s1 h' in (s2, v :: vs)
    end.

  (* ------------------------------------------- the from-scratch outcome *)
  Fixpoint fspec_fuel (f : nat) (inp : nat -> pyval) (n : nat) : fres :=
    match f with
    | O => FVal VNone
    | S f' => if wb_input W n then FVal (inp n)
              else match seq_res (map (fspec_fuel f' inp) (reads n)) with
                   | inr e => FRaise (wrap n e)
                   | inl vals => compute n vals
                   end
    end.
  Definition fspec (inp : nat -> pyval) (n : nat) : fres := fspec_fuel (S n) inp n.
End FailMachine.

(* ------------------------------------------------------------------------
   The order of range_todos: _make_cells / _process_gen_graph as a worklist.
     _make_cells(address)                         (lines 708-763)
        range: self.range_todos.append(address); cell_map[address] = range;
               for addr in needed_addresses: if addr not in cell_map: _make_cells(addr)
               graph_todos.append(range)
        cell:  cell_map[address] = cell; if cell.formula: graph_todos.append(cell)
     _process_gen_graph                           (lines 935-950)
        while graph_todos: dependant = graph_todos.pop()
            for precedent in dependant.needed_addresses:
                if precedent not in cell_map: _gen_graph(precedent, recursed=True)
   [g_todo]: the stack, top first.  [g_ranges]: range_todos, LAST appended first —
   that is reversed(range_todos), the order of evaluation. *)
Record gst := { g_built : nat -> bool; g_todo : list nat; g_ranges : list nat }.

Section GenOrder.
  Variable W : workbook.

  Definition mark (b : nat -> bool) (n : nat) : nat -> bool :=
    fun m => if Nat.eqb m n then true else b m.

  Fixpoint make_cells (f : nat) (n : nat) (g : gst) {struct f} : gst :=
    match f with
    | O => g
    | S f' =>
        if g_built g n then g
        else if wb_range W n then
          let g1 := {| g_built := mark (g_built g) n; g_todo := g_todo g;
                       g_ranges := n :: g_ranges g |} in
          let g2 := fold_left (fun g m => make_cells f' m g) (wb_deps W n) g1 in
          {| g_built := g_built g2; g_todo := n :: g_todo g2; g_ranges := g_ranges g2 |}
        else
          {| g_built := mark (g_built g) n;
             g_todo := if wb_input W n then g_todo g else n :: g_todo g;
             g_ranges := g_ranges g |}
    end.

  Fixpoint process (f : nat) (g : gst) {struct f} : gst :=
    match f with
    | O => g
    | S f' =>
        match g_todo g with
        | [] => g
        | n :: rest =>
            process f' (fold_left (fun g p => make_cells (S (wb_n W)) p g) (wb_deps W n)
                                  {| g_built := g_built g; g_todo := rest; g_ranges := g_ranges g |})
        end
    end.

  Definition gen_order (b : nat -> bool) (n : nat) : list nat :=
    if b n then []
    else g_ranges (process (S (wb_n W))
                           (make_cells (S (wb_n W)) n {| g_built := b; g_todo := []; g_ranges := [] |})).
End GenOrder.
