(* Model/ValidateFail.v — ExcelCompiler.validate_calcs WITH its [except] branch:
   the work-list loop of Model/Validate.v over the machine of Model/Fail.v
   (formulas whose evaluation raises), hand-transcribed from
   /repo/src/pycel/excelcompiler.py validate_calcs (lines 603-690):

     while to_verify:
         addr = to_verify.pop()
         try:
             self._gen_graph(addr)                         <- may raise (a new range node
             cell = self.cell_map[addr.address]               is evaluated while the graph is built)
             if isinstance(cell, _Cell) and cell.python_code ...:
                 original_value = cell.value
                 if original_value == str(cell.formula): continue
                 cell.value = None
                 self.evaluate(addr.address)               <- may raise
                 if not (original_value is None or cell.close_enough(...)):
                     failed.setdefault('mismatch', {})[str(addr)] = Mismatch(...)
                     cell.value = None
                     self.evaluate(cell.address.address)   <- may raise (the mismatch stays)
             verified.add(addr)
             for addr in cell.needed_addresses:
                 if addr not in verified: to_verify.append(addr)
         except Exception as exc:
             if raise_exceptions: raise
             cell = self.cell_map.get(addr.address, None)
             formula = cell and cell.formula.base_formula
             exc_str = str(exc); exc_str_split = exc_str.split('\n')
             if 'is not implemented' in exc_str:
                 exc_str_key = exc_str.split('is not implemented')[0]
                 exc_str_key = exc_str_key.strip().rsplit(' ', 1)[1].upper()
                 not_implemented = True
             else:
                 if len(exc_str_split) == 1: exc_str_key = f'{type(exc).__name__}: {exc_str}'
                 else: exc_str_key = exc_str_split[-2]
                 not_implemented = exc_str_key.startswith('NotImplementedError: ')
             bucket = 'not-implemented' if not_implemented else 'exceptions'
             failed.setdefault(bucket, {}).setdefault(exc_str_key, []).append(
                 (str(addr), formula, exc_str))

   and, since repair bbbc9be of /repo ("validate_calcs keeps walking below a
   cell it can not evaluate"), at the end of the [except] branch:
             verified.add(addr)
             if verify_tree and cell is not None:
                 for needed_addr in cell.needed_addresses:
                     if needed_addr not in verified: to_verify.append(needed_addr)
   ([cell] is None only when _gen_graph failed before the cell was created — a
   bad address —, which the model does not have: after a failed _gen_graph every
   new cell is in the cell map, Model/Fail.v.)  A cell that raises is therefore
   processed like any other: marked verified, its precedents walked.

   Bucket and key are functions of the exception's TEXT, not of its class.  The
   text of a pycel evaluation error (excelformula.py eval_func / error_logger,
   lines 886-957) is the traceback of the failure followed by one line
   "Eval: <address>: <python code>" per formula cell whose eval_func caught it,
   innermost first:
     a cell r calling an unknown function
        ...NameError...\nEval: <code of r>\nFunction F is not implemented. ...
     a cell r whose (plugin) function raises exception class X with message M
        ...\nX: M\nEval: r: <code of r>
     a cell n one of whose precedents failed with text T
        <traceback lines>\nT\nEval: n: <code of n>
   A range node (_evaluate_range) and _gen_graph let the exception through
   unchanged.  So the text is modelled by the CHAIN of formula cells whose
   eval_func produced it, outermost first, the root (the cell whose own
   function failed) last; what the branch reads off the text is
     'is not implemented' in text   <->  the root calls an unknown function
     the word before it, upper-cased <->  KFunc root   (the function's name)
     text.split('\n')[-2]            <->  chain [r]:       KOwn r   "X: M"
                                          chain _::m::_:   KEval m  "Eval: m: <code of m>"
     key.startswith('NotImplementedError: ') <-> chain [r] and r's function
                                          raises NotImplementedError ([fnimp r])
   (file names and line numbers inside the traceback lines are not modelled;
   the differential run compares the chain with the "Eval:" lines of exc_str).

   The machine is Model/Fail.v's, instrumented: [eval_c] / [build_c] /
   [evaluate_c] return the chain next to the error class and are otherwise the
   same functions (Proofs/C12Chain.v: erasing the chain gives eval_f / build_f /
   evaluate_f, state included). *)
From Coq Require Import List Arith Bool ZArith QArith.
From PV Require Import Lib.Py Model.Graph Model.Fail Model.Validate.
Import ListNotations.
Local Open Scope nat_scope.

Definition chain := list nat.
Inductive cres := CVal (v : pyval) | CRaise (e : errclass) (c : chain).

Definition erase (r : cres) : fres :=
  match r with CVal v => FVal v | CRaise e _ => FRaise e end.

Section ChainMachine.
  Variable W : workbook.
  Variable fsem : nat -> list pyval -> option pyval.
  Variable fpre : nat -> option nat.
  Variable rorder : (nat -> bool) -> nat -> list nat.

  (* eval_func catches the failure of a precedent and appends its own "Eval:" line *)
  Definition wrap_c (n : nat) (c : chain) : chain := if wb_range W n then c else n :: c.

  Definition compute_c (n : nat) (vals : list pyval) : cres :=
    match compute fsem fpre n vals with
    | FVal v => CVal v
    | FRaise e => CRaise e [n]
    end.

  Definition cstep (ev : cache -> nat -> cache * cres)
             (acc : cache * (list pyval + errclass * chain)) (d : nat)
    : cache * (list pyval + errclass * chain) :=
    match acc with
    | (c1, inl vs) => let '(c2, r) := ev c1 d in
                      (c2, match r with CVal v => inl (vs ++ [v]) | CRaise e ch => inr (e, ch) end)
    | (c1, inr x) => (c1, inr x)
    end.

  (* Fail.eval_f with the chain *)
  Fixpoint eval_c (f : nat) (c : cache) (n : nat) {struct f} : cache * cres :=
    match f with
    | O => (c, CVal VNone)
    | S f' =>
        if wb_input W n then (c, CVal (c n))
        else if is_none (c n) then
          let '(c', r) := fold_left (cstep (eval_c f')) (reads W fpre n) (c, inl []) in
          match r with
          | inr (e, ch) => (c', CRaise (wrap W n e) (wrap_c n ch))
          | inl vals => match compute_c n vals with
                        | CVal v => (upd c' n v, CVal v)
                        | CRaise e ch => (c', CRaise e ch)
                        end
          end
        else (c, CVal (c n))
    end.

  (* Fail.bstep_f / build_f with the chain *)
  Definition bstep_c (b0 b' : nat -> bool) (acc : cache * option (errclass * chain)) (m : nat)
    : cache * option (errclass * chain) :=
    match acc with
    | (c, Some x) => (c, Some x)
    | (c, None) =>
        if b' m && negb (b0 m) && wb_range W m then
          let '(c2, r) := eval_c (S (wb_n W)) c m in
          (c2, match r with CVal _ => None | CRaise e ch => Some (e, ch) end)
        else (c, None)
    end.

  Definition build_c (s : state) (n : nat) : state * option (errclass * chain) :=
    let b' := closure W (S (wb_n W)) (st_built s) n in
    let c1 := new_cells W s b' in
    let '(c2, r) := fold_left (bstep_c (st_built s) b')
                              (rorder (st_built s) n ++ seq 0 (wb_n W)) (c1, None) in
    ({| st_cache := c2; st_built := b' |}, r).

  (* Fail.evaluate_f with the chain *)
  Definition evaluate_c (s : state) (n : nat) : state * cres :=
    let '(s1, r) := build_c s n in
    match r with
    | Some (e, ch) => (s1, CRaise e ch)
    | None => let '(c, v) := eval_c (S (wb_n W)) (st_cache s1) n in
              ({| st_cache := c; st_built := st_built s1 |}, v)
    end.
End ChainMachine.

(* ------------------------------------------- what the except branch reads off the text *)
Inductive exckey :=
  | KFunc (r : nat)      (* NAME of the unknown function cell r calls, upper-cased *)
  | KOwn (r : nat)       (* "X: M": the exception line of the function of cell r *)
  | KEval (m : nat).     (* "Eval: <address of m>: <python code of m>" *)

Definition root (c : chain) : nat := last c 0.

Section Classify.
  Variable fpre : nat -> option nat.
  Variable fnimp : nat -> bool.       (* the function of the cell raises NotImplementedError *)

  (* 'is not implemented' in exc_str *)
  Definition text_not_impl (c : chain) : bool :=
    match fpre (root c) with Some _ => true | None => false end.

  Definition key_of (c : chain) : exckey :=
    if text_not_impl c then KFunc (root c)
    else match c with
         | _ :: m :: _ => KEval m
         | [r] => KOwn r
         | [] => KOwn 0
         end.

  Definition not_implemented (c : chain) : bool :=
    text_not_impl c || match c with [r] => fnimp r | _ => false end.
End Classify.

(* failed[bucket]: key text -> list of (address, chain); insertion ordered.  The
   formula text of an entry is the formula of its address (cell.formula.base_formula,
   a function of the address alone) *)
Definition entry := (nat * chain)%type.
Definition bucket := list (list Z * list entry).

Fixpoint zs_eqb (a b : list Z) : bool :=
  match a, b with
  | [], [] => true
  | x :: a', y :: b' => Z.eqb x y && zs_eqb a' b'
  | _, _ => false
  end.

(* failed.setdefault(bucket, {}).setdefault(key, []).append(e) *)
Fixpoint bucket_add (b : bucket) (k : list Z) (e : entry) : bucket :=
  match b with
  | [] => [(k, [e])]
  | (k', es) :: b' => if zs_eqb k' k then (k', es ++ [e]) :: b' else (k', es) :: bucket_add b' k e
  end.

Section ValidateFail.
  Variable W : workbook.
  Variable fsem : nat -> list pyval -> option pyval.
  Variable fpre : nat -> option nat.
  Variable rorder : (nat -> bool) -> nat -> list nat.
  Variable ftext : nat -> list Z.          (* str(cell.formula) *)
  Variable tol : option Q.                 (* tolerance *)
  Variable raise_exc : bool.               (* raise_exceptions *)

  (* cell.value = None; self.evaluate(addr.address) *)
  Definition recalc_c (s : state) (n : nat) : state * cres :=
    evaluate_c W fsem fpre rorder
               {| st_cache := upd (st_cache s) n VNone; st_built := st_built s |} n.

  Record fstate := {
    fs_st : state;
    fs_todo : list nat;              (* to_verify: head = what pop() returns *)
    fs_verified : list nat;
    fs_report : report;              (* failed['mismatch'] *)
    fs_exc : list entry;             (* every entry appended by the except branch, oldest first *)
    fs_raised : option entry         (* raise_exceptions=True: the exception that left the loop *)
  }.

  Definition vstep_f (vs : fstate) : fstate :=
    match fs_todo vs with
    | [] => vs
    | n :: rest =>
        let fail (s : state) (r : report) (ch : chain) :=       (* the except branch *)
          if raise_exc
          then {| fs_st := s; fs_todo := rest; fs_verified := fs_verified vs; fs_report := r;
                  fs_exc := fs_exc vs; fs_raised := Some (n, ch) |}
          else                                                  (* repair bbbc9be: verified.add(addr);
                                                                   push cell.needed_addresses *)
            let v' := vadd n (fs_verified vs) in
            {| fs_st := s; fs_todo := push_deps W n v' rest; fs_verified := v'; fs_report := r;
               fs_exc := fs_exc vs ++ [(n, ch)]; fs_raised := None |} in
        let finish (s : state) (r : report) :=                  (* lines 657-661 *)
          let v' := vadd n (fs_verified vs) in
          {| fs_st := s; fs_todo := push_deps W n v' rest; fs_verified := v'; fs_report := r;
             fs_exc := fs_exc vs; fs_raised := None |} in
        match build_c W fsem fpre rorder (fs_st vs) n with        (* self._gen_graph(addr) *)
        | (s1, Some (_, ch)) => fail s1 (fs_report vs) ch
        | (s1, None) =>
            if is_fcell W n then
              let original := st_cache s1 n in
              if py_eq original (VStr (ftext n)) then             (* 'No Orig data?': continue *)
                {| fs_st := s1; fs_todo := rest; fs_verified := fs_verified vs;
                   fs_report := fs_report vs; fs_exc := fs_exc vs; fs_raised := None |}
              else
                match recalc_c s1 n with                          (* lines 641-642 *)
                | (s2, CRaise _ ch) => fail s2 (fs_report vs) ch
                | (s2, CVal _) =>
                    let calced := st_cache s2 n in
                    if is_none original || close_enough tol calced original
                    then finish s2 (fs_report vs)
                    else
                      let r' := rep_set (fs_report vs) n (original, calced) in   (* line 646 *)
                      match recalc_c s2 n with                    (* lines 654-655 *)
                      | (s3, CRaise _ ch) => fail s3 r' ch
                      | (s3, CVal _) => finish s3 r'
                      end
                end
            else finish s1 (fs_report vs)
        end
    end.

  (* while to_verify: — and nothing more once an exception has left the loop *)
  Fixpoint vloop_f (fuel : nat) (vs : fstate) : fstate :=
    match fuel with
    | O => vs
    | S f => match fs_raised vs with
             | Some _ => vs
             | None => match fs_todo vs with [] => vs | _ => vloop_f f (vstep_f vs) end
             end
    end.

  (* the fuel of Validate.validate: every node is pushed at most once per
     incoming edge and once per occurrence among the outputs; enough whenever no
     cell is skipped by the 'No Orig data?' branch (Proofs/C12Fail.v terminates_f) *)
  Definition validate_f_from (s : state) (outs : list nat) : fstate :=
    vloop_f (length outs + edges W + 1)
          {| fs_st := s; fs_todo := rev outs; fs_verified := []; fs_report := [];
             fs_exc := []; fs_raised := None |}.

  Definition validate_f (outs : list nat) : fstate := validate_f_from (init W) outs.
End ValidateFail.

(* ------------------------------------------------ the two dictionaries of [failed]
   [ktext] = the text of a key (the function's name, the exception line of a
   plugin function, the "Eval:" line of a cell): two keys are the same
   dictionary key iff their texts are equal *)
Section Buckets.
  Variable fpre : nat -> option nat.
  Variable fnimp : nat -> bool.
  Variable ktext : exckey -> list Z.

  (* (failed['not-implemented'], failed['exceptions']) *)
  Definition failed_add (acc : bucket * bucket) (e : entry) : bucket * bucket :=
    let k := ktext (key_of fpre (snd e)) in
    if not_implemented fpre fnimp (snd e)
    then (bucket_add (fst acc) k e, snd acc)
    else (fst acc, bucket_add (snd acc) k e).

  Definition failed_buckets (l : list entry) : bucket * bucket :=
    fold_left failed_add l ([], []).
End Buckets.
