(* Model/Lookup.v — MATCH / VLOOKUP / HLOOKUP / LOOKUP / INDEX as pycel calls
   them: the function bodies (Gen/lookup.v, regenerated from lookup.py;
   Model/LookupCore.v for _match and index) inside the wrappers that
   function_helpers.apply_meta builds from the @excel_helper metadata.
   Outermost first: cse_array_wrapper (the call is repeated for every element
   of an array lookup value), nums_wrapper (coerce_to_number(convert_all=True),
   first error code, #VALUE! for a non-number), error_string_wrapper (the first
   parameter in index order that is an error code, or a tuple containing one).
   bool_params is recorded by excel_helper but apply_meta builds no wrapper
   for it.  refs_wrapper is the identity on values.  Hand-written; tied to the
   code by the correspondence run. *)
From Coq Require Import ZArith QArith List Bool Lia.
From PV Require Import Lib.Py Model.Ops Model.LookupCore.
From PV Require Gen.excelutil Gen.lookup.
Import ListNotations.
Open Scope Z_scope.

Definition in_idx (i : nat) (ps : list nat) : bool := existsb (Nat.eqb i) ps.

Fixpoint map_idx (f : nat -> pyval -> res pyval) (i : nat) (l : list pyval)
  : res (list pyval) :=
  match l with
  | [] => Ok []
  | a :: l' => b <- f i a ;; r <- map_idx f (S i) l' ;; Ok (b :: r)
  end.

(* next((a for i, a in enumerate(args) if i in ps and a in ERROR_CODES), None) *)
Fixpoint first_code (ps : list nat) (i : nat) (l : list pyval) : res (option pyval) :=
  match l with
  | [] => Ok None
  | a :: l' =>
      if in_idx i ps then
        (c <- py_in a excelutil.c_ERROR_CODES ;;
         if c then Ok (Some a) else first_code ps (S i) l')
      else first_code ps (S i) l'
  end.

(* any(i in ps and not is_number(a) for i, a in enumerate(args)) *)
Fixpoint any_not_number (ps : list nat) (i : nat) (l : list pyval) : res bool :=
  match l with
  | [] => Ok false
  | a :: l' =>
      if in_idx i ps then
        (c <- cond_of (excelutil.f_is_number a) ;;
         if c then any_not_number ps (S i) l' else Ok true)
      else any_not_number ps (S i) l'
  end.

Definition nums_wrapper (N : list nat) (f : list pyval -> res pyval) (args : list pyval)
  : res pyval :=
  a2 <- map_idx (fun i a => if in_idx i N
                            then excelutil.f_coerce_to_number py_fuel a (VBool true)
                            else Ok a) 0 args ;;
  e <- first_code N 0 a2 ;;
  match e with
  | Some e => Ok e
  | None => nn <- any_not_number N 0 a2 ;; if nn then Ok VALUE else f a2
  end.

(* first error code among the leaves of a tuple argument *)
Fixpoint first_err_leaf (l : list pyval) : res (option pyval) :=
  match l with
  | [] => Ok None
  | a :: l' =>
      match a with
      | VStr _ => c <- py_in a excelutil.c_ERROR_CODES ;;
                  if c then Ok (Some a) else first_err_leaf l'
      | _ => first_err_leaf l'
      end
  end.

(* error_string_wrapper: parameters in increasing index order (E is sorted) *)
Fixpoint err_params (E : list nat) (args : list pyval) : res (option pyval) :=
  match E with
  | [] => Ok None
  | i :: E' =>
      match nth_error args i with
      | None => Ok None                                   (* IndexError: break *)
      | Some (VStr s) =>
          c <- py_in (VStr s) excelutil.c_ERROR_CODES ;;
          if c then Ok (Some (VStr s)) else err_params E' args
      | Some (VTuple l) =>
          e <- first_err_leaf (flatten (VTuple l)) ;;
          match e with Some x => Ok (Some x) | None => err_params E' args end
      | Some _ => err_params E' args
      end
  end.
Definition err_wrapper (E : list nat) (f : list pyval -> res pyval) (args : list pyval)
  : res pyval :=
  e <- err_params E args ;;
  match e with Some x => Ok x | None => f args end.

(* cse_array_wrapper on parameter 0 (the only CSE parameter of these functions) *)
Definition cse0 (f : list pyval -> res pyval) (args : list pyval) : res pyval :=
  match args with
  | a0 :: rest =>
      isarr <- cond_of (excelutil.f_is_array_arg a0) ;;
      if isarr then
        rows <- seq_items a0 ;;
        r0 <- py_getitem a0 (VInt 0) ;; nc <- py_len r0 ;; cols <- range0 nc ;;
        out <- mapM (fun row =>
                 cells <- mapM (fun c => x <- py_getitem row c ;; f (x :: rest)) cols ;;
                 Ok (VTuple cells)) rows ;;
        Ok (VTuple out)
      else f args
  | [] => f args
  end.

Definition X_match : list pyval -> res pyval :=
  cse0 (nums_wrapper [2%nat] (err_wrapper [0%nat; 2%nat] (fun a => match a with
    | [v; arr] => lookup.f_match v arr (VInt 1)
    | [v; arr; mt] => lookup.f_match v arr mt
    | _ => Raise TypeError end))).

Definition X_vlookup : list pyval -> res pyval :=
  cse0 (nums_wrapper [2%nat] (err_wrapper [0%nat; 2%nat; 3%nat] (fun a => match a with
    | [v; t; k] => lookup.f_vlookup v t k (VBool true)
    | [v; t; k; r] => lookup.f_vlookup v t k r
    | _ => Raise TypeError end))).

Definition X_hlookup : list pyval -> res pyval :=
  cse0 (nums_wrapper [2%nat] (err_wrapper [0%nat; 2%nat; 3%nat] (fun a => match a with
    | [v; t; k] => lookup.f_hlookup v t k (VBool true)
    | [v; t; k; r] => lookup.f_hlookup v t k r
    | _ => Raise TypeError end))).

Definition X_lookup : list pyval -> res pyval :=
  cse0 (err_wrapper [0%nat] (fun a => match a with
    | [v; arr] => lookup.f_lookup v arr VNone
    | [v; arr; rr] => lookup.f_lookup v arr rr
    | _ => Raise TypeError end)).

Definition X_index : list pyval -> res pyval :=
  nums_wrapper [1%nat; 2%nat] (err_wrapper [1%nat; 2%nat] (fun a => match a with
    | [arr; r] => index_ arr r VNone
    | [arr; r; c] => index_ arr r c
    | _ => Raise TypeError end)).
