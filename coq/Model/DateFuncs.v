(* Model/DateFuncs.v — the date functions as pycel evaluates them: bodies are
   GENERATED (Gen/date_time.v from /repo/src/pycel/lib/date_time.py); this file
   adds by hand the decorator wrappers: @excel_helper metadata (Model/Wrap.v)
   and serial_number_wrapper (number coercion of the single argument, #NUM!
   below 0 or from DATE_MAX_INT on). *)
From Coq Require Import ZArith List Bool.
From PV Require Import Lib.Py Lib.PyDate Model.Wrap.
From PV Require Gen.excelutil Gen.date_time.
Import ListNotations.
Open Scope Z_scope.

Definition serial_wrap (f : pyval -> res pyval) : list pyval -> res pyval :=
  wrap [] [0%nat] (fun a =>
    match a with
    | [x] =>
        lo <- py_lt x (VInt 0) ;;
        if lo then Ok excelutil.c_NUM_ERROR else
        hi <- py_ge x date_time.c_DATE_MAX_INT ;;
        if hi then Ok excelutil.c_NUM_ERROR else f x
    | _ => Raise TypeError
    end).

Definition X_year := serial_wrap date_time.f_year.
Definition X_month := serial_wrap date_time.f_month.
Definition X_day := serial_wrap date_time.f_day.
Definition X_weekday := serial_wrap date_time.f_weekday.
Definition X_date := wrap [] all_idx (fun a =>
  match a with [y; m; d] => date_time.f_date y m d | _ => Raise TypeError end).
Definition X_edate := wrap [] [] (fun a =>
  match a with [s; m] => date_time.f_edate s m | _ => Raise TypeError end).
Definition X_eomonth := wrap [] [] (fun a =>
  match a with [s; m] => date_time.f_eomonth s m | _ => Raise TypeError end).
Definition X_yearfrac := wrap_gen [] [] [2%nat] (fun a =>
  match a with
  | [s; e] => date_time.f_yearfrac s e (VInt 0)
  | [s; e; b] => date_time.f_yearfrac s e b
  | _ => Raise TypeError end).
