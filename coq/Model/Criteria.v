(* Model/Criteria.v — conditional aggregation (C15).

   Hand transcription, branch by branch, of
     excelutil.criteria_parser / build_wildcard_re / find_corresponding_index /
     handle_ifs                                   (src/pycel/excelutil.py)
     excellib.sumif / sumifs / _numerics          (src/pycel/excellib.py)
     stats.countif / countifs / averageif / averageifs / maxifs / minifs
   on top of the GENERATED helpers of Gen/excelutil.v (is_number,
   coerce_to_number, list_like, the OPERATORS table, ERROR_CODES, DIV0,
   VALUE_ERROR: re-translated from the source on every run).

   criteria_parser returns closures: here a criterion is a datatype
   ([criterion]) produced by [parse_criteria] and interpreted by [sat].
   build_wildcard_re builds a Python regex (question mark -> dot, star -> dot star, nothing
   else escaped, the tilde look-behinds never fire) and matches it against
   x.lower() of a text cell (any other cell does not match): [glob_match] is a regex-free model of
   the generated pattern for criteria whose text has no regex metacharacter
   other than ? and *; anything else is Unmodelled, as are texts with a line
   feed ('.' and '$' treat it specially).  Ranges are tuples/lists of row
   tuples/lists; a row that is not a sequence is Unmodelled. *)
From Coq Require Import ZArith QArith List Bool.
From PV Require Import Lib.Py.
From PV Require Gen.excelutil.
Import ListNotations.
Open Scope Z_scope.

(* ------------------------------------------------------------ criteria *)
Inductive cop := OEq | ONe | OLt | OLe | OGt | OGe.

Definition cop_of_builtin (b : builtin) : option cop :=
  match b with
  | BOpEq => Some OEq | BOpNe => Some ONe | BOpLt => Some OLt
  | BOpLe => Some OLe | BOpGt => Some OGt | BOpGe => Some OGe
  | _ => None
  end.
Definition is_ne (o : cop) : bool := match o with ONe => true | _ => false end.
Definition is_eq (o : cop) : bool := match o with OEq => true | _ => false end.

Inductive criterion :=
| CNumEq (n : pyval)               (* numeric equals comparison *)
| CWild (p : str)                  (* lower-cased ?/* pattern *)
| COpNum (o : cop) (n : pyval)     (* operator with a numeric operand *)
| COpText (o : cop) (v : str).     (* operator with a lower-cased text operand *)

(* op(a, b) for the six operator functions *)
Definition cmp_cop (o : cop) (a b : pyval) : res bool :=
  match o with
  | OEq => Ok (py_eq a b)
  | ONe => Ok (negb (py_eq a b))
  | OLt => py_lt a b
  | OLe => py_le a b
  | OGt => py_gt a b
  | OGe => py_ge a b
  end.

(* the pattern '^' + p with ? -> . and * -> .* + '$' against s (no line feed in s) *)
Fixpoint glob_match (p : str) : str -> bool :=
  match p with
  | [] => fun s => match s with [] => true | _ :: _ => false end
  | c :: p' =>
      if c =? 42 then
        fix star (s : str) : bool :=
          glob_match p' s || match s with [] => false | _ :: s' => star s' end
      else
        fun s => match s with
                 | [] => false
                 | d :: s' => ((c =? 63) || (c =? d)) && glob_match p' s'
                 end
  end.

Definition is_wild_char (c : Z) : bool := (c =? 63) || (c =? 42).
Definition has_wild (s : str) : bool := existsb is_wild_char s.
(* dot, caret, dollar, plus, braces, brackets, backslash, bar, parentheses *)
Definition is_meta_char (c : Z) : bool :=
  (c =? 46) || (c =? 94) || (c =? 36) || (c =? 43) || (c =? 123) || (c =? 125)
  || (c =? 91) || (c =? 93) || (c =? 92) || (c =? 124) || (c =? 40) || (c =? 41).
Definition has_meta (s : str) : bool := existsb is_meta_char s.
Definition has_newline (s : str) : bool := existsb (fun c => c =? 10) s.

Definition is_num (v : pyval) : res bool :=
  r <- excelutil.f_is_number v ;; Ok (py_truthy r).
Definition to_num (v : pyval) : res pyval :=
  excelutil.f_coerce_to_number py_fuel v (VBool false).
Definition lower_str (s : str) : res str :=
  w <- str_lower (VStr s) ;; match w with VStr w' => Ok w' | _ => Raise Unmodelled end.

(* OPERATORS_RE: an optional operator  = | <> | <= | < | >= | >  (tried in
   this order), the rest of the line is the value *)
Definition split_op (s : str) : str * str :=
  match s with
  | a :: t =>
      if a =? 61 then ([61], t)
      else if a =? 60 then
        match t with
        | b :: u => if b =? 62 then ([60; 62], u) else if b =? 61 then ([60; 61], u) else ([60], t)
        | [] => ([60], t)
        end
      else if a =? 62 then
        match t with
        | b :: u => if b =? 61 then ([62; 61], u) else ([62], t)
        | [] => ([62], t)
        end
      else ([], s)
  | [] => ([], s)
  end.

Definition lookup_op (os : str) : res cop :=
  f <- py_getitem excelutil.c_OPERATORS (VStr os) ;;
  match f with
  | VFun b => match cop_of_builtin b with Some o => Ok o | None => Raise Unmodelled end
  | _ => Raise Unmodelled
  end.

Definition parse_criteria (c : pyval) : res criterion :=
  isn <- is_num c ;;
  if isn then (n <- to_num c ;; Ok (CNumEq n))
  else match c with
  | VStr s =>
      if has_newline s then Raise Unmodelled else
      let os := fst (split_op s) in
      let v := snd (split_op s) in
      o <- lookup_op os ;;
      vn <- is_num (VStr v) ;;
      if is_eq o && vn then (n <- to_num (VStr v) ;; Ok (CNumEq n))
      else if is_eq o && has_wild v then
        (if has_meta v then Raise Unmodelled
         else w <- lower_str v ;; Ok (CWild w))
      else if vn then (n <- to_num (VStr v) ;; Ok (COpNum o n))
      else (w <- lower_str v ;; Ok (COpText o w))
  | _ => Raise ValueError
  end.

(* the closure returned by criteria_parser, applied to a cell *)
Definition sat (c : criterion) (x : pyval) : res bool :=
  match c with
  | CNumEq n =>
      isn <- is_num x ;;
      if isn then (v <- to_num x ;; Ok (py_eq v n)) else Ok false
  | CWild p =>
      match x with                 (* isinstance(x, str) and compiled.match(x.lower()) *)
      | VStr s => w <- lower_str s ;;
                  if has_newline w then Raise Unmodelled else Ok (glob_match p w)
      | _ => Ok false
      end
  | COpNum o n =>
      match x with
      | VStr _ | VNone => Ok (is_ne o)
      | VBool _ | VInt _ | VFloat _ => cmp_cop o x n
      | _ => Raise Unmodelled
      end
  | COpText o v =>
      match x with
      | VNone => Ok (xorb (match v with [] => true | _ => false end) (is_ne o))
      | VStr s => w <- lower_str s ;; cmp_cop o (VStr w) (VStr v)
      | _ => Ok (is_ne o)
      end
  end.

(* ------------------------------------------------- scanning one range *)
Definition idx := (Z * Z)%type.

Fixpoint enum_row (r c : Z) (row : list pyval) : list (idx * pyval) :=
  match row with
  | [] => []
  | x :: row' => ((r, c), x) :: enum_row r (c + 1) row'
  end.
Fixpoint enum_rows (r : Z) (rows : list (list pyval)) : list (idx * pyval) :=
  match rows with
  | [] => []
  | row :: rows' => enum_row r 0 row ++ enum_rows (r + 1) rows'
  end.

Fixpoint filterM {A} (f : A -> res bool) (l : list A) : res (list A) :=
  match l with
  | [] => Ok []
  | x :: l' => b <- f x ;; r <- filterM f l' ;; Ok (if b then x :: r else r)
  end.

Definition find_cells (c : criterion) (cells : list (idx * pyval)) : res (list idx) :=
  l <- filterM (fun p => sat c (snd p)) cells ;; Ok (map fst l).

Definition as_row (row : pyval) : res (list pyval) :=
  match row with VTuple r | VList r => Ok r | _ => Raise Unmodelled end.
Definition as_rows (rng : pyval) : res (list (list pyval)) :=
  match rng with
  | VTuple l | VList l => mapM as_row l
  | _ => Raise Unmodelled
  end.

Definition list_like (v : pyval) : res bool :=
  r <- excelutil.f_list_like v ;; Ok (py_truthy r).
(* "r if list_like(r) else ((r,),)" *)
Definition wrap (r : pyval) : res pyval :=
  ll <- list_like r ;; Ok (if ll then r else VTuple [VTuple [r]]).

(* parse, then scan in row-major order: the first failing cell raises *)
Definition scan (rows : list (list pyval)) (crit : pyval) : res (list idx) :=
  c <- parse_criteria crit ;; find_cells c (enum_rows 0 rows).

Definition find_corresponding_index (rng crit : pyval) : res (list idx) :=
  c <- parse_criteria crit ;;
  ll <- list_like rng ;;
  if negb ll then Raise TypeError else
  rows <- as_rows rng ;;
  find_cells c (enum_rows 0 rows).

(* ------------------------------------------------------------ handle_ifs *)
Definition idx_dec : forall a b : idx, {a = b} + {a <> b}.
Proof. decide equality; apply Z.eq_dec. Defined.
Definition idx_eqb (a b : idx) : bool := if idx_dec a b then true else false.

(* collections.Counter(iterable): keys in order of first occurrence, each with
   its number of occurrences *)
Fixpoint uniq (l : list idx) : list idx :=
  match l with
  | [] => []
  | x :: l' => x :: filter (fun y => negb (idx_eqb x y)) (uniq l')
  end.
Definition counter (l : list idx) : list (idx * nat) :=
  map (fun i => (i, count_occ idx_dec l i)) (uniq l).
(* tuple(idx for idx, cnt in counts.items() if cnt == k) *)
Definition select (k : nat) (m : list (idx * nat)) : list idx :=
  map fst (filter (fun p => Nat.eqb (snd p) k) m).

Fixpoint pair_up (l : list pyval) : option (list (pyval * pyval)) :=
  match l with
  | [] => Some []
  | a :: b :: l' => match pair_up l' with Some r => Some ((a, b) :: r) | None => None end
  | _ => None
  end.

Definition size_of (rows : list (list pyval)) : res (Z * Z) :=
  match rows with
  | [] => Raise IndexError                 (* len(a[0]) *)
  | r0 :: _ => Ok (zlen rows, zlen r0)
  end.
Definition size_eqb (a b : Z * Z) : bool := (fst a =? fst b) && (snd a =? snd b).

(* the stage after the shape checks: per-criterion index lists, in argument
   order, then the cells counted once per criterion *)
Definition select_stage (prs : list (list (list pyval) * pyval)) : res (list idx) :=
  ls <- mapM (fun p => scan (fst p) (snd p)) prs ;;
  Ok (select (length prs) (counter (concat ls))).

(* shape checks of handle_ifs: inl = the error text returned *)
Definition shape_stage (args : list pyval) (op_range : option pyval)
  : res (pyval + list (list (list pyval) * pyval)) :=
  match pair_up args with
  | None | Some [] => Raise AssertionError
  | Some prs =>
      rngs <- mapM (fun p => wrap (fst p)) prs ;;
      rows <- mapM as_rows rngs ;;
      sizes <- mapM size_of rows ;;
      match sizes with
      | [] => Raise Unmodelled
      | s0 :: rest =>
          if negb (forallb (size_eqb s0) rest) then Ok (inl excelutil.c_VALUE_ERROR) else
          ok <- match op_range with
                | None => Ok true
                | Some opr =>
                    o1 <- wrap opr ;; orows <- as_rows o1 ;; so <- size_of orows ;;
                    Ok (size_eqb so s0)
                end ;;
          if negb ok then Ok (inl excelutil.c_VALUE_ERROR)
          else Ok (inr (combine rows (map snd prs)))
      end
  end.

Definition handle_ifs (args : list pyval) (op_range : option pyval)
  : res (pyval + list idx) :=
  sh <- shape_stage args op_range ;;
  match sh with
  | inl e => Ok (inl e)
  | inr prs => l <- select_stage prs ;; Ok (inr l)
  end.

Definition coord_val (i : idx) : pyval := VTuple [VInt (fst i); VInt (snd i)].

(* ------------------------------------------------------------- consumers *)
Definition getcell (rng : pyval) (i : idx) : res pyval :=
  row <- py_getitem rng (VInt (fst i)) ;; py_getitem row (VInt (snd i)).

Definition is_scalar (v : pyval) : bool :=
  match v with VNone | VBool _ | VInt _ | VFloat _ | VStr _ => true | _ => false end.

Fixpoint first_error (l : list pyval) : res (option pyval) :=
  match l with
  | [] => Ok None
  | x :: l' => e <- py_in x excelutil.c_ERROR_CODES ;;
               if e then Ok (Some x) else first_error l'
  end.
Definition is_numeric (v : pyval) : bool := py_isinstance v [TInt; TFloat].

(* excellib._numerics(cells, keep_bools=True) over scalar cells *)
Definition numerics_keep (cells : list pyval) : res pyval :=
  if negb (forallb is_scalar cells) then Raise Unmodelled else
  e <- first_error cells ;;
  match e with
  | Some x => Ok x
  | None => Ok (VTuple (filter is_numeric cells))
  end.

(* the data handed to sum/max/min: _numerics of the selected cells, or the
   error text returned by handle_ifs *)
Definition selected_data (agg_range : pyval) (args : list pyval) : res (pyval + pyval) :=
  sr <- wrap agg_range ;;
  h <- handle_ifs args (Some sr) ;;
  match h with
  | inl e => Ok (inl e)
  | inr coords => cells <- mapM (getcell sr) coords ;;
                  d <- numerics_keep cells ;; Ok (inr d)
  end.

Definition countif (rng crit : pyval) : res pyval :=
  r <- wrap rng ;; l <- find_corresponding_index r crit ;; Ok (VInt (zlen l)).

Definition countifs (args : list pyval) : res pyval :=
  h <- handle_ifs args None ;;
  match h with inl e => Ok e | inr coords => Ok (VInt (zlen coords)) end.

Definition sumifs (sum_range : pyval) (args : list pyval) : res pyval :=
  d <- selected_data sum_range args ;;
  match d with inl e => Ok e | inr data => py_sum data end.

Definition sumif (rng crit sum_range : pyval) : res pyval :=
  sumifs (match sum_range with VNone => rng | _ => sum_range end) [rng; crit].

Definition averageifs (avg_range : pyval) (args : list pyval) : res pyval :=
  d <- selected_data avg_range args ;;
  match d with
  | inl e => Ok e
  | inr data =>
      n <- py_len data ;;
      if py_eq n (VInt 0) then Ok excelutil.c_DIV0
      else (s <- py_sum data ;; py_truediv s n)
  end.

Definition averageif (rng crit avg_range : pyval) : res pyval :=
  averageifs (match avg_range with VNone => rng | _ => avg_range end) [rng; crit].

Definition maxifs (max_range : pyval) (args : list pyval) : res pyval :=
  try_except
    (d <- selected_data max_range args ;;
     match d with inl e => Ok e | inr data => l <- py_iter data ;; py_max_list l end)
    [ValueError] (Ok (VInt 0)).

Definition minifs (min_range : pyval) (args : list pyval) : res pyval :=
  try_except
    (d <- selected_data min_range args ;;
     match d with inl e => Ok e | inr data => l <- py_iter data ;; py_min_list l end)
    [ValueError] (Ok (VInt 0)).

(* entry points for the differential run *)
Definition handle_ifs_val (args : list pyval) (op_range : pyval) (with_op : bool) : res pyval :=
  h <- (if with_op then (o <- wrap op_range ;; handle_ifs args (Some o))
        else handle_ifs args None) ;;
  match h with inl e => Ok e | inr coords => Ok (VTuple (map coord_val coords)) end.
Definition criteria_check (crit x : pyval) : res pyval :=
  c <- parse_criteria crit ;; b <- sat c x ;; Ok (VBool b).
