(* Lib/Py.v — the fragment of Python's dynamic semantics that the translator
   (translator/pylite.py) targets.  Every translated function is a term over
   [pyval] in the exception monad [res].  Numbers are exact: Python [int] is
   [Z], Python [float] is a reduced [Q] (DESIGN.md 3.2: IEEE rounding of
   individual operations is not modelled; the correspondence check draws its
   inputs from the domain on which the implementation's float operations are
   exact).  Anything Python does that this file does not model is answered
   with [Raise Unmodelled], never with a made-up value. *)
From Coq Require Import ZArith QArith Qround Qabs List Bool Lia.
Import ListNotations.
Open Scope Z_scope.

Inductive exn :=
| ValueError | TypeError | ZeroDivisionError | IndexError | KeyError
| AssertionError | AttributeError | OverflowError | NotImplementedError
| RecursionError | StopIteration
| Unmodelled   (* Python does something here that the model does not cover *)
| OutOfFuel.   (* a translated loop/recursion ran out of fuel *)

Definition exn_eqb (a b : exn) : bool :=
  match a, b with
  | ValueError, ValueError | TypeError, TypeError
  | ZeroDivisionError, ZeroDivisionError | IndexError, IndexError
  | KeyError, KeyError | AssertionError, AssertionError
  | AttributeError, AttributeError | OverflowError, OverflowError
  | NotImplementedError, NotImplementedError | RecursionError, RecursionError
  | StopIteration, StopIteration
  | Unmodelled, Unmodelled | OutOfFuel, OutOfFuel => true
  | _, _ => false
  end.

Inductive res (A : Type) := Ok (a : A) | Raise (e : exn).
Arguments Ok {A} a.
Arguments Raise {A} e.

Definition bind {A B} (m : res A) (f : A -> res B) : res B :=
  match m with Ok a => f a | Raise e => Raise e end.
Notation "x <- m ;; k" := (bind m (fun x => k))
  (at level 61, m at next level, right associativity).
Notation "' p <- m ;; k" := (bind m (fun x => let p := x in k))
  (at level 61, p pattern, m at next level, right associativity).

(* "except E1, E2: h" around m.  Unmodelled / OutOfFuel are never caught:
   they are not Python exceptions. *)
Definition catches (es : list exn) (e : exn) : bool :=
  match e with
  | Unmodelled | OutOfFuel => false
  | _ => existsb (exn_eqb e) es
  end.
Definition try_except {A} (m : res A) (es : list exn) (h : res A) : res A :=
  match m with
  | Ok a => Ok a
  | Raise e => if catches es e then h else Raise e
  end.

Inductive builtin := BBin | BOct | BHex | BMin | BMax
  | BOpEq | BOpNe | BOpLt | BOpLe | BOpGt | BOpGe.

Inductive pyval :=
| VNone
| VBool (b : bool)
| VInt (z : Z)
| VFloat (q : Q)
| VStr (s : list Z)                 (* code points *)
| VTuple (l : list pyval)
| VList (l : list pyval)
| VSet (l : list pyval)              (* set / frozenset; order irrelevant *)
| VDict (l : list (pyval * pyval))
| VFun (b : builtin).

Inductive pyty := TBool | TInt | TFloat | TStr | TTuple | TList | TNone
                | TSet | TDict.

(* ---------------------------------------------------------------- text *)
Definition str := list Z.
Fixpoint str_eqb (a b : str) : bool :=
  match a, b with
  | [], [] => true
  | x :: a', y :: b' => (x =? y) && str_eqb a' b'
  | _, _ => false
  end.
Fixpoint str_ltb (a b : str) : bool :=          (* lexicographic, code points *)
  match a, b with
  | _, [] => false
  | [], _ :: _ => true
  | x :: a', y :: b' => if x <? y then true else if y <? x then false else str_ltb a' b'
  end.
Fixpoint str_prefix (p s : str) : bool :=
  match p, s with
  | [], _ => true
  | x :: p', y :: s' => (x =? y) && str_prefix p' s'
  | _ :: _, [] => false
  end.
Fixpoint str_contains (p s : str) : bool :=
  str_prefix p s || match s with [] => false | _ :: s' => str_contains p s' end.

(* ------------------------------------------------------------- numbers *)
Inductive num := NI (z : Z) | NF (q : Q).
Definition as_num (v : pyval) : option num :=
  match v with
  | VBool b => Some (NI (if b then 1 else 0))
  | VInt z => Some (NI z)
  | VFloat q => Some (NF q)
  | _ => None
  end.
Definition num_q (n : num) : Q := match n with NI z => inject_Z z | NF q => q end.
Definition mkfloat (q : Q) : pyval := VFloat (Qred q).
Definition q_is_zero (q : Q) : bool := (Qnum q =? 0).
Definition q_ltb (a b : Q) : bool := match Qcompare a b with Lt => true | _ => false end.
Definition q_leb (a b : Q) : bool := match Qcompare a b with Gt => false | _ => true end.
Definition q_eqb (a b : Q) : bool := Qeq_bool a b.

Definition q_pow (q : Q) (n : Z) : Q :=         (* n >= 0 *)
  match n with Zpos p => Qpower_positive q p | _ => 1%Q end.

Definition arith (fi : Z -> Z -> Z) (fq : Q -> Q -> Q) (a b : pyval) : res pyval :=
  match as_num a, as_num b with
  | Some (NI x), Some (NI y) => Ok (VInt (fi x y))
  | Some x, Some y => Ok (mkfloat (fq (num_q x) (num_q y)))
  | _, _ => Raise TypeError
  end.

Definition py_add (a b : pyval) : res pyval :=
  match a, b with
  | VStr x, VStr y => Ok (VStr (x ++ y))
  | VTuple x, VTuple y => Ok (VTuple (x ++ y))
  | VList x, VList y => Ok (VList (x ++ y))
  | _, _ => arith Z.add Qplus a b
  end.
Definition py_sub := arith Z.sub Qminus.

Fixpoint rep_list {A} (n : nat) (l : list A) : list A :=
  match n with O => [] | S n' => l ++ rep_list n' l end.
Definition seq_mul {A} (l : list A) (n : Z) : list A := rep_list (Z.to_nat n) l.
Definition py_mul (a b : pyval) : res pyval :=
  match a, b with
  | VStr x, (VInt n) | VInt n, VStr x => Ok (VStr (seq_mul x n))
  | VTuple x, VInt n | VInt n, VTuple x => Ok (VTuple (seq_mul x n))
  | VList x, VInt n | VInt n, VList x => Ok (VList (seq_mul x n))
  | _, _ => arith Z.mul Qmult a b
  end.

Definition py_truediv (a b : pyval) : res pyval :=
  match as_num a, as_num b with
  | Some x, Some y =>
      if q_is_zero (num_q y) then Raise ZeroDivisionError
      else Ok (mkfloat (num_q x / num_q y))
  | _, _ => Raise TypeError
  end.
Definition py_floordiv (a b : pyval) : res pyval :=
  match as_num a, as_num b with
  | Some (NI x), Some (NI y) =>
      if y =? 0 then Raise ZeroDivisionError else Ok (VInt (x / y))
  | Some x, Some y =>
      if q_is_zero (num_q y) then Raise ZeroDivisionError
      else Ok (mkfloat (inject_Z (Qfloor (num_q x / num_q y))))
  | _, _ => Raise TypeError
  end.
Definition py_mod (a b : pyval) : res pyval :=
  match as_num a, as_num b with
  | Some (NI x), Some (NI y) =>
      if y =? 0 then Raise ZeroDivisionError else Ok (VInt (x mod y))
  | Some x, Some y =>
      let qx := num_q x in let qy := num_q y in
      if q_is_zero qy then Raise ZeroDivisionError
      else Ok (mkfloat (qx - qy * inject_Z (Qfloor (qx / qy))))
  | _, _ => Raise TypeError
  end.
(* ** : integer exponents only; anything transcendental is Unmodelled *)
Definition py_pow (a b : pyval) : res pyval :=
  match as_num a, as_num b with
  | Some (NI x), Some (NI n) =>
      if 0 <=? n then Ok (VInt (x ^ n))
      else if x =? 0 then Raise ZeroDivisionError
      else Ok (mkfloat (/ inject_Z (x ^ (- n))))
  | Some (NF x), Some (NI n) =>
      if 0 <=? n then Ok (mkfloat (q_pow x n))
      else if q_is_zero x then Raise ZeroDivisionError
      else Ok (mkfloat (/ q_pow x (- n)))
  | Some x, Some (NF q) =>
      (* a float exponent with an integral value: the result is a float *)
      let r := Qred q in
      if Zpos (Qden r) =? 1 then
        let n := Qnum r in
        if 0 <=? n then Ok (mkfloat (q_pow (num_q x) n))
        else if q_is_zero (num_q x) then Raise ZeroDivisionError
        else Ok (mkfloat (/ q_pow (num_q x) (- n)))
      else Raise Unmodelled
  | _, _ => Raise TypeError
  end.
Definition py_neg (a : pyval) : res pyval :=
  match as_num a with
  | Some (NI x) => Ok (VInt (- x))
  | Some (NF q) => Ok (mkfloat (- q))
  | None => Raise TypeError
  end.
Definition py_pos (a : pyval) : res pyval :=
  match as_num a with
  | Some (NI x) => Ok (VInt x)
  | Some (NF q) => Ok (VFloat q)
  | None => Raise TypeError
  end.
Definition py_abs (a : pyval) : res pyval :=
  match as_num a with
  | Some (NI x) => Ok (VInt (Z.abs x))
  | Some (NF q) => Ok (mkfloat (Qabs q))
  | None => Raise TypeError
  end.
Definition py_invert (a : pyval) : res pyval :=
  match as_num a with Some (NI x) => Ok (VInt (Z.lnot x)) | _ => Raise TypeError end.
Definition bitop (f : Z -> Z -> Z) (a b : pyval) : res pyval :=
  match a, b with
  | VBool x, VBool y => Ok (VBool (negb (f (if x then 1 else 0) (if y then 1 else 0) =? 0)))
  | _, _ =>
    match as_num a, as_num b with
    | Some (NI x), Some (NI y) => Ok (VInt (f x y))
    | _, _ => Raise TypeError
    end
  end.
Definition py_bitand := bitop Z.land.
Definition py_bitor := bitop Z.lor.
Definition py_bitxor := bitop Z.lxor.
Definition py_lshift (a b : pyval) : res pyval :=
  match as_num a, as_num b with
  | Some (NI x), Some (NI y) => if y <? 0 then Raise ValueError else Ok (VInt (Z.shiftl x y))
  | _, _ => Raise TypeError
  end.
Definition py_rshift (a b : pyval) : res pyval :=
  match as_num a, as_num b with
  | Some (NI x), Some (NI y) => if y <? 0 then Raise ValueError else Ok (VInt (Z.shiftr x y))
  | _, _ => Raise TypeError
  end.

(* ---------------------------------------------------- equality, order *)
Section ListEq.
  Variable eqv : pyval -> pyval -> bool.
  Fixpoint list_eqb (a b : list pyval) : bool :=
    match a, b with
    | [], [] => true
    | x :: a', y :: b' => eqv x y && list_eqb a' b'
    | _, _ => false
    end.
End ListEq.

Fixpoint py_eq (a b : pyval) {struct a} : bool :=
  match a, b with
  | VNone, VNone => true
  | VStr x, VStr y => str_eqb x y
  | VTuple x, VTuple y | VList x, VList y =>
      (fix go (x y : list pyval) {struct x} : bool :=
         match x, y with
         | [], [] => true
         | u :: x', v :: y' => py_eq u v && go x' y'
         | _, _ => false
         end) x y
  | VFun f, VFun g =>
      match f, g with
      | BBin, BBin | BOct, BOct | BHex, BHex | BMin, BMin | BMax, BMax
      | BOpEq, BOpEq | BOpNe, BOpNe | BOpLt, BOpLt | BOpLe, BOpLe
      | BOpGt, BOpGt | BOpGe, BOpGe => true
      | _, _ => false
      end
  | _, _ =>
      match as_num a, as_num b with
      | Some (NI x), Some (NI y) => x =? y
      | Some x, Some y => q_eqb (num_q x) (num_q y)
      | _, _ => false        (* sets/dicts: never compared by translated code *)
      end
  end.

(* <, <=: numbers with numbers, text with text, tuples lexicographically (one
   level of nesting is enough for the code that is translated: the elements of
   the compared tuples are scalars) *)
Definition scalar_lt (a b : pyval) : res bool :=
  match a, b with
  | VStr x, VStr y => Ok (str_ltb x y)
  | _, _ =>
      match as_num a, as_num b with
      | Some (NI x), Some (NI y) => Ok (x <? y)
      | Some x, Some y => Ok (q_ltb (num_q x) (num_q y))
      | _, _ => Raise TypeError
      end
  end.
Fixpoint tuple_lt (x y : list pyval) (strict : bool) : res bool :=
  match x, y with
  | [], [] => Ok (negb strict)
  | [], _ :: _ => Ok true
  | _ :: _, [] => Ok false
  | u :: x', v :: y' =>
      if py_eq u v then tuple_lt x' y' strict else scalar_lt u v
  end.
Definition py_lt (a b : pyval) : res bool :=
  match a, b with
  | VTuple x, VTuple y => tuple_lt x y true
  | VList x, VList y => tuple_lt x y true
  | _, _ => scalar_lt a b
  end.
Definition py_le (a b : pyval) : res bool :=
  match a, b with
  | VTuple x, VTuple y => tuple_lt x y false
  | VList x, VList y => tuple_lt x y false
  | VStr x, VStr y => Ok (negb (str_ltb y x))
  | _, _ =>
      match as_num a, as_num b with
      | Some (NI x), Some (NI y) => Ok (x <=? y)
      | Some x, Some y => Ok (q_leb (num_q x) (num_q y))
      | _, _ => Raise TypeError
      end
  end.
Definition py_gt (a b : pyval) : res bool := py_lt b a.
Definition py_ge (a b : pyval) : res bool := py_le b a.

Definition py_truthy (v : pyval) : bool :=
  match v with
  | VNone => false
  | VBool b => b
  | VInt z => negb (z =? 0)
  | VFloat q => negb (q_is_zero q)
  | VStr s => match s with [] => false | _ => true end
  | VTuple l | VList l | VSet l => match l with [] => false | _ => true end
  | VDict l => match l with [] => false | _ => true end
  | VFun _ => true
  end.

Definition hashable (v : pyval) : bool :=
  match v with VList _ | VSet _ | VDict _ => false | _ => true end.

Definition py_in (x c : pyval) : res bool :=
  match c with
  | VTuple l | VList l => Ok (existsb (py_eq x) l)
  | VSet l => if hashable x then Ok (existsb (py_eq x) l) else Raise TypeError
  | VDict l => if hashable x then Ok (existsb (fun kv => py_eq x (fst kv)) l) else Raise TypeError
  | VStr s => match x with VStr p => Ok (str_contains p s) | _ => Raise TypeError end
  | _ => Raise TypeError
  end.

(* ------------------------------------------------ sequences and slices *)
Definition zlen {A} (l : list A) : Z := Z.of_nat (length l).
Definition py_len (v : pyval) : res pyval :=
  match v with
  | VStr s => Ok (VInt (zlen s))
  | VTuple l | VList l | VSet l => Ok (VInt (zlen l))
  | VDict l => Ok (VInt (zlen l))
  | _ => Raise TypeError
  end.

Definition index_nth {A} (l : list A) (i : Z) : option A :=
  let n := zlen l in
  let j := if i <? 0 then i + n else i in
  if (j <? 0) || (n <=? j) then None else nth_error l (Z.to_nat j).

Definition as_index (v : pyval) : option Z :=
  match v with VInt z => Some z | VBool b => Some (if b then 1 else 0) | _ => None end.

Fixpoint dict_get (l : list (pyval * pyval)) (k : pyval) : option pyval :=
  match l with
  | [] => None
  | (k', v) :: l' => if py_eq k k' then Some v else dict_get l' k
  end.

Definition py_getitem (c i : pyval) : res pyval :=
  match c with
  | VDict l => if hashable i then
                 match dict_get l i with Some v => Ok v | None => Raise KeyError end
               else Raise TypeError
  | VTuple l | VList l =>
      match as_index i with
      | Some z => match index_nth l z with Some v => Ok v | None => Raise IndexError end
      | None => Raise TypeError
      end
  | VStr s =>
      match as_index i with
      | Some z => match index_nth s z with Some ch => Ok (VStr [ch]) | None => Raise IndexError end
      | None => Raise TypeError
      end
  | _ => Raise TypeError
  end.

(* Python slice with step 1: bounds are clamped, negatives count from the end *)
Definition clamp_idx (n : Z) (o : option Z) (dflt : Z) : Z :=
  match o with
  | None => dflt
  | Some i => let j := if i <? 0 then i + n else i in Z.max 0 (Z.min n j)
  end.
Definition slice_list {A} (l : list A) (lo hi : option Z) : list A :=
  let n := zlen l in
  let a := clamp_idx n lo 0 in
  let b := clamp_idx n hi n in
  firstn (Z.to_nat (b - a)) (skipn (Z.to_nat a) l).
Definition opt_index (v : pyval) : res (option Z) :=
  match v with
  | VNone => Ok None
  | _ => match as_index v with Some z => Ok (Some z) | None => Raise TypeError end
  end.
Definition py_slice (c lo hi : pyval) : res pyval :=
  l <- opt_index lo ;; h <- opt_index hi ;;
  match c with
  | VStr s => Ok (VStr (slice_list s l h))
  | VTuple x => Ok (VTuple (slice_list x l h))
  | VList x => Ok (VList (slice_list x l h))
  | _ => Raise TypeError
  end.

Definition py_iter (v : pyval) : res (list pyval) :=
  match v with
  | VTuple l | VList l | VSet l => Ok l
  | VStr s => Ok (map (fun c => VStr [c]) s)
  | VDict l => Ok (map fst l)
  | _ => Raise TypeError
  end.
Definition py_tuple (v : pyval) : res pyval := l <- py_iter v ;; Ok (VTuple l).
Definition py_list (v : pyval) : res pyval := l <- py_iter v ;; Ok (VList l).

Fixpoint zrange (n : nat) (start : Z) : list Z :=
  match n with O => [] | S n' => start :: zrange n' (start + 1) end.
Definition py_range2 (a b : pyval) : res pyval :=
  match as_index a, as_index b with
  | Some x, Some y => Ok (VList (map VInt (zrange (Z.to_nat (y - x)) x)))
  | _, _ => Raise TypeError
  end.

Fixpoint mapM {A B} (f : A -> res B) (l : list A) : res (list B) :=
  match l with
  | [] => Ok []
  | x :: l' => y <- f x ;; ys <- mapM f l' ;; Ok (y :: ys)
  end.
(* "(elt for x in it if cond)" materialised, evaluated left to right *)
Fixpoint genexp (elt : pyval -> res pyval) (cond : pyval -> res bool)
         (l : list pyval) : res (list pyval) :=
  match l with
  | [] => Ok []
  | x :: l' =>
      c <- cond x ;;
      if c then (y <- elt x ;; ys <- genexp elt cond l' ;; Ok (y :: ys))
      else genexp elt cond l'
  end.
(* next((elt for x in it if cond), default): lazy — stops at the first hit *)
Fixpoint gen_next (elt : pyval -> res pyval) (cond : pyval -> res bool)
         (l : list pyval) (dflt : pyval) : res pyval :=
  match l with
  | [] => Ok dflt
  | x :: l' => c <- cond x ;; if c then elt x else gen_next elt cond l' dflt
  end.
Fixpoint gen_any (cond : pyval -> res bool) (l : list pyval) : res bool :=
  match l with
  | [] => Ok false
  | x :: l' => c <- cond x ;; if c then Ok true else gen_any cond l'
  end.
Fixpoint gen_all (cond : pyval -> res bool) (l : list pyval) : res bool :=
  match l with
  | [] => Ok true
  | x :: l' => c <- cond x ;; if c then gen_all cond l' else Ok false
  end.
Fixpoint py_sum_list (l : list pyval) (acc : pyval) : res pyval :=
  match l with
  | [] => Ok acc
  | x :: l' => a <- py_add acc x ;; py_sum_list l' a
  end.
Definition py_sum (v : pyval) : res pyval := l <- py_iter v ;; py_sum_list l (VInt 0).

Fixpoint fold_minmax (lt : pyval -> pyval -> res bool) (l : list pyval) (acc : pyval)
  : res pyval :=
  match l with
  | [] => Ok acc
  | x :: l' => c <- lt x acc ;; fold_minmax lt l' (if c then x else acc)
  end.
Definition py_min_list (l : list pyval) : res pyval :=
  match l with [] => Raise ValueError | x :: l' => fold_minmax py_lt l' x end.
Definition py_max_list (l : list pyval) : res pyval :=
  match l with [] => Raise ValueError | x :: l' => fold_minmax py_gt l' x end.
Definition py_min2 (a b : pyval) := py_min_list [a; b].
Definition py_max2 (a b : pyval) := py_max_list [a; b].

(* ---------------------------------------------------------- isinstance *)
Definition has_ty (v : pyval) (t : pyty) : bool :=
  match v, t with
  | VBool _, TBool | VBool _, TInt => true
  | VInt _, TInt => true
  | VFloat _, TFloat => true
  | VStr _, TStr => true
  | VTuple _, TTuple => true
  | VList _, TList => true
  | VNone, TNone => true
  | VSet _, TSet => true
  | VDict _, TDict => true
  | _, _ => false
  end.
Definition py_isinstance (v : pyval) (ts : list pyty) : bool := existsb (has_ty v) ts.
(* collections.abc.Iterable *)
Definition is_iterable (v : pyval) : bool :=
  match v with
  | VStr _ | VTuple _ | VList _ | VSet _ | VDict _ => true
  | _ => false
  end.

(* ------------------------------------------------- floor / ceil / round *)
Definition py_floor (v : pyval) : res pyval :=
  match as_num v with
  | Some (NI z) => Ok (VInt z)
  | Some (NF q) => Ok (VInt (Qfloor q))
  | None => Raise TypeError
  end.
Definition py_ceil (v : pyval) : res pyval :=
  match as_num v with
  | Some (NI z) => Ok (VInt z)
  | Some (NF q) => Ok (VInt (Qceiling q))
  | None => Raise TypeError
  end.
Definition q_trunc (q : Q) : Z := if q_ltb q 0 then Qceiling q else Qfloor q.
Definition py_copysign (a b : pyval) : res pyval :=   (* math.copysign: float *)
  match as_num a, as_num b with
  | Some x, Some y =>
      let m := Qabs (num_q x) in
      (* the sign of a float zero is not modelled: copysign(x, -0.0) differs *)
      Ok (mkfloat (if q_ltb (num_q y) 0 then - m else m))
  | _, _ => Raise TypeError
  end.

(* round half to even of q to an integer *)
Definition q_round_half_even (q : Q) : Z :=
  let f := Qfloor q in
  let r := (q - inject_Z f)%Q in
  match Qcompare r (1 # 2) with
  | Lt => f
  | Gt => f + 1
  | Eq => if Z.even f then f else f + 1
  end.
(* round half away from zero *)
Definition q_round_half_up (q : Q) : Z :=
  if q_ltb q 0 then - Qfloor (- q + (1 # 2)) else Qfloor (q + (1 # 2)).
Definition q_round_up (q : Q) : Z :=       (* away from zero *)
  if q_ltb q 0 then Qfloor q else Qceiling q.

Definition pow10 (n : Z) : Q :=
  if 0 <=? n then inject_Z (10 ^ n) else (/ inject_Z (10 ^ (- n)))%Q.

Inductive rounding := ROUND_HALF_UP | ROUND_UP | ROUND_DOWN | ROUND_HALF_EVEN.
Definition q_round_mode (m : rounding) (q : Q) : Z :=
  match m with
  | ROUND_HALF_UP => q_round_half_up q
  | ROUND_UP => q_round_up q
  | ROUND_DOWN => q_trunc q
  | ROUND_HALF_EVEN => q_round_half_even q
  end.
(* float(Decimal(repr(x)).quantize(Decimal('1E-nd'), rounding=m)): the exact
   value is rounded to a multiple of 10^-nd.  (Decimal(repr(x)) = x is the
   exact-arithmetic abstraction; the 28-digit context is not modelled.) *)
Definition py_quantize (x nd : pyval) (m : rounding) : res pyval :=
  match as_num x, nd with
  | Some n, VInt d =>
      let unit := pow10 (- d) in
      Ok (mkfloat (inject_Z (q_round_mode m (num_q n / unit)) * unit))
  | _, _ => Raise TypeError
  end.
(* builtin round(x, nd): half to even; int stays int, float stays float *)
Definition py_round2 (x nd : pyval) : res pyval :=
  match as_num x, nd with
  | Some (NI z), VInt d =>
      if 0 <=? d then Ok (VInt z)
      else let u := 10 ^ (- d) in
           Ok (VInt (q_round_half_even (inject_Z z / inject_Z u) * u))
  | Some (NF q), VInt d =>
      let unit := pow10 (- d) in
      Ok (mkfloat (inject_Z (q_round_half_even (q / unit)) * unit))
  | _, _ => Raise TypeError
  end.

(* ---------------------------------------------------- int(), str(), … *)
Definition is_space (c : Z) : bool :=
  (c =? 32) || ((9 <=? c) && (c <=? 13)) || ((28 <=? c) && (c <=? 31)).
Fixpoint lstrip (s : str) : str :=
  match s with c :: s' => if is_space c then lstrip s' else s | [] => [] end.
Definition strip (s : str) : str := rev (lstrip (rev (lstrip s))).

Definition digit_val (c : Z) : option Z :=
  if (48 <=? c) && (c <=? 57) then Some (c - 48)
  else if (97 <=? c) && (c <=? 122) then Some (c - 97 + 10)
  else if (65 <=? c) && (c <=? 90) then Some (c - 65 + 10)
  else None.

(* digits with single underscores between digits (PEP 515), value by Horner.
   [prev_us]: the previous character was '_' (or we are at the start, where an
   underscore is illegal too unless a base prefix preceded). *)
Fixpoint parse_digits (base : Z) (s : str) (acc : Z) (prev_digit : bool) : option Z :=
  match s with
  | [] => if prev_digit then Some acc else None
  | c :: s' =>
      if c =? 95 then
        (if prev_digit then
           match s' with [] => None | _ => parse_digits base s' acc false end
         else None)
      else match digit_val c with
           | Some d => if d <? base then parse_digits base s' (acc * base + d) true else None
           | None => None
           end
  end.

Definition non_ascii (s : str) : bool := existsb (fun c => 127 <? c) s.

Definition base_prefix (base : Z) (s : str) : option str :=
  match s with
  | 48 :: c :: s' =>
      let lc := if (65 <=? c) && (c <=? 90) then c + 32 else c in
      if ((base =? 2) && (lc =? 98)) || ((base =? 8) && (lc =? 111))
         || ((base =? 16) && (lc =? 120)) then Some s' else None
  | _ => None
  end.

(* int(s, base) for base in {2, 8, 10, 16}, as CPython parses it: surrounding
   whitespace, one sign, an optional 0b/0o/0x prefix that matches the base
   (after which one underscore is allowed), digits with single underscores.
   Non-ASCII input (Unicode digits, exotic spaces) is Unmodelled. *)
Definition py_int_base (s : str) (base : Z) : res pyval :=
  if non_ascii s then Raise Unmodelled else
  let t := strip s in
  let '(neg, t) := match t with
                   | 45 :: t' => (true, t')
                   | 43 :: t' => (false, t')
                   | _ => (false, t)
                   end in
  let body := match base_prefix base t with
              | Some (95 :: t') => parse_digits base t' 0 false
              | Some t' => parse_digits base t' 0 false
              | None => parse_digits base t 0 false
              end in
  match body with
  | Some z => Ok (VInt (if neg then - z else z))
  | None => Raise ValueError
  end.

Fixpoint digits_fuel (fuel : nat) (base n : Z) (acc : str) : str :=
  match fuel with
  | O => acc
  | S f =>
      let d := n mod base in
      let c := if d <? 10 then 48 + d else 97 + d - 10 in
      if n <? base then c :: acc else digits_fuel f base (n / base) (c :: acc)
  end.
(* digits of n >= 0 in [base], lower case, no prefix *)
Definition digits (base n : Z) : str :=
  digits_fuel (S (Z.to_nat (Z.log2 n))) base n [].
Definition str_of_Z (z : Z) : str :=
  if z <? 0 then 45 :: digits 10 (- z) else digits 10 z.

Definition py_int (v : pyval) : res pyval :=
  match v with
  | VBool b => Ok (VInt (if b then 1 else 0))
  | VInt z => Ok (VInt z)
  | VFloat q => Ok (VInt (q_trunc q))
  | VStr s => py_int_base s 10
  | _ => Raise TypeError
  end.

(* float(s): CPython's grammar for ASCII decimal literals (surrounding
   whitespace, sign, digits with single underscores, fraction, exponent).
   The value is the exact rational; "inf"/"nan" spellings, non-ASCII input
   and exponents beyond +-300 are Unmodelled. *)
Fixpoint split_digits (s : str) (acc : Z) (n : Z) (prev_digit : bool)
  : option (Z * Z * str) :=          (* value, digit count, rest *)
  match s with
  | c :: s' =>
      if (48 <=? c) && (c <=? 57) then split_digits s' (acc * 10 + (c - 48)) (n + 1) true
      else if c =? 95 then
        (if prev_digit then
           match s' with
           | d :: _ => if (48 <=? d) && (d <=? 57) then split_digits s' acc n false else None
           | [] => None
           end
         else None)
      else Some (acc, n, s)
  | [] => Some (acc, n, [])
  end.
Definition parse_float (s : str) : res Q :=
  if non_ascii s then Raise Unmodelled else
  let t := strip s in
  let '(neg, t) := match t with
                   | 45 :: t' => (true, t') | 43 :: t' => (false, t') | _ => (false, t) end in
  match t with
  | c :: _ =>
    if (c =? 105) || (c =? 73) || (c =? 110) || (c =? 78) then Raise Unmodelled (* inf / nan *)
    else
    match split_digits t 0 0 false with
    | None => Raise ValueError
    | Some (ip, ni, r1) =>
        let frac := match r1 with
                    | 46 :: r2 =>
                        match split_digits r2 0 0 false with
                        | Some (fp, nf, r3) => Some (fp, nf, r3)
                        | None => None
                        end
                    | _ => Some (0, 0, r1)
                    end in
        match frac with
        | None => Raise ValueError
        | Some (fp, nf, r3) =>
            if (ni =? 0) && (nf =? 0) then Raise ValueError else
            let mant := (inject_Z ip + inject_Z fp * pow10 (- nf))%Q in
            let fin (e : Z) :=
              if 300 <? Z.abs e then Raise Unmodelled
              else Ok (Qred ((if neg then - mant else mant) * pow10 e)) in
            match r3 with
            | [] => fin 0
            | e :: r4 =>
                if (e =? 101) || (e =? 69) then
                  let '(eneg, r5) := match r4 with
                                     | 45 :: r' => (true, r') | 43 :: r' => (false, r')
                                     | _ => (false, r4) end in
                  match split_digits r5 0 0 false with
                  | Some (ev, ne, []) =>
                      if ne =? 0 then Raise ValueError else fin (if eneg then - ev else ev)
                  | _ => Raise ValueError
                  end
                else Raise ValueError
            end
        end
    end
  | [] => Raise ValueError
  end.
Definition py_float (v : pyval) : res pyval :=
  match v with
  | VBool b => Ok (VFloat (if b then 1 else 0))
  | VInt z => Ok (VFloat (inject_Z z))
  | VFloat q => Ok (VFloat q)
  | VStr s => q <- parse_float s ;; Ok (VFloat q)
  | _ => Raise TypeError
  end.

Definition py_bool (v : pyval) : res pyval := Ok (VBool (py_truthy v)).

Definition prefixed (neg : bool) (p : Z) (body : str) : str :=
  (if neg then [45] else []) ++ 48 :: p :: body.
Definition py_bin (v : pyval) : res pyval :=
  match as_index v with
  | Some z => Ok (VStr (prefixed (z <? 0) 98 (digits 2 (Z.abs z))))
  | None => Raise TypeError end.
Definition py_oct (v : pyval) : res pyval :=
  match as_index v with
  | Some z => Ok (VStr (prefixed (z <? 0) 111 (digits 8 (Z.abs z))))
  | None => Raise TypeError end.
Definition py_hex (v : pyval) : res pyval :=
  match as_index v with
  | Some z => Ok (VStr (prefixed (z <? 0) 120 (digits 16 (Z.abs z))))
  | None => Raise TypeError end.

(* str.upper / str.lower: ASCII and Latin-1 letters exactly; CJK ideographs,
   kana-free symbol/emoji planes are caseless; anything else is Unmodelled *)
Definition ascii_upper (c : Z) : Z := if (97 <=? c) && (c <=? 122) then c - 32 else c.
Definition ascii_lower (c : Z) : Z := if (65 <=? c) && (c <=? 90) then c + 32 else c.
Definition case_known (c : Z) : bool :=
  (c <? 128)
  || ((160 <=? c) && (c <=? 254) && negb (c =? 181) && negb (c =? 223) && negb (c =? 170) && negb (c =? 186))
  || ((19968 <=? c) && (c <=? 40959))          (* CJK unified ideographs *)
  || ((127744 <=? c) && (c <=? 129791)).       (* pictographs / emoji *)
Definition uni_upper (c : Z) : Z :=
  if (224 <=? c) && (c <=? 254) && negb (c =? 247) then c - 32 else ascii_upper c.
Definition uni_lower (c : Z) : Z :=
  if (192 <=? c) && (c <=? 222) && negb (c =? 215) then c + 32 else ascii_lower c.
Definition case_ok (s : str) : bool := forallb case_known s.
Definition str_upper (v : pyval) : res pyval :=
  match v with
  | VStr s => if non_ascii s
              then (if case_ok s then Ok (VStr (map uni_upper s)) else Raise Unmodelled)
              else Ok (VStr (map ascii_upper s))
  | _ => Raise AttributeError end.
Definition str_lower (v : pyval) : res pyval :=
  match v with
  | VStr s => if non_ascii s
              then (if case_ok s then Ok (VStr (map uni_lower s)) else Raise Unmodelled)
              else Ok (VStr (map ascii_lower s))
  | _ => Raise AttributeError end.
Definition str_zfill (v w : pyval) : res pyval :=
  match v, as_index w with
  | VStr s, Some n =>
      let pad := Z.to_nat (n - zlen s) in
      match s with
      | c :: s' => if (c =? 43) || (c =? 45)
                   then Ok (VStr (c :: repeat 48 pad ++ s'))
                   else Ok (VStr (repeat 48 pad ++ s))
      | [] => Ok (VStr (repeat 48 pad))
      end
  | VStr _, None => Raise TypeError
  | _, _ => Raise AttributeError
  end.

(* repr/str of a float.  Modelled exactly when the value has a finite decimal
   expansion of at most 15 significant digits and 1e-4 <= |x| < 1e16: then the
   shortest round-tripping string that CPython prints IS that expansion
   (15 <= DBL_DIG).  Everything else is Unmodelled. *)
Fixpoint strip_factor (fuel : nat) (p d : Z) (cnt : Z) : Z * Z :=
  match fuel with
  | O => (d, cnt)
  | S f => if (d mod p =? 0) && (1 <? d) then strip_factor f p (d / p) (cnt + 1) else (d, cnt)
  end.
Definition pad_left (n : nat) (s : str) : str := repeat 48 (n - length s) ++ s.
Definition float_repr (q : Q) : res str :=
  let r := Qred q in
  let n := Qnum r in let d := Zpos (Qden r) in
  if d =? 1 then
    (if Z.abs n <? 10 ^ 16 then Ok (str_of_Z n ++ [46; 48]) else Raise Unmodelled)
  else
  let '(d2, a) := strip_factor 64 2 d 0 in
  let '(d5, b) := strip_factor 64 5 d2 0 in
  if negb (d5 =? 1) then Raise Unmodelled else
  let f := Z.max a b in
  let m := Z.abs n * 10 ^ f / d in                 (* exact: d | 10^f *)
  if (10 ^ 15 <=? m) then Raise Unmodelled else     (* more than 15 significant digits *)
  if (Z.abs n * 10000 <? d) then Raise Unmodelled else   (* |x| < 1e-4: exponent form *)
  let ds := digits 10 m in
  let ds := pad_left (Z.to_nat (f + 1)) ds in
  let ip := firstn (length ds - Z.to_nat f) ds in
  let fp := skipn (length ds - Z.to_nat f) ds in
  Ok ((if n <? 0 then [45] else []) ++ ip ++ [46] ++ fp).

Definition py_str (v : pyval) : res pyval :=
  match v with
  | VStr s => Ok (VStr s)
  | VInt z => Ok (VStr (str_of_Z z))
  | VBool true => Ok (VStr [84; 114; 117; 101])
  | VBool false => Ok (VStr [70; 97; 108; 115; 101])
  | VNone => Ok (VStr [78; 111; 110; 101])
  | VFloat q => s <- float_repr q ;; Ok (VStr s)
  | _ => Raise Unmodelled
  end.
Definition py_repr (v : pyval) : res pyval :=
  match v with
  | VStr _ => Raise Unmodelled        (* quoting rules not modelled *)
  | _ => py_str v
  end.

Definition py_call (f : pyval) (args : list pyval) : res pyval :=
  match f, args with
  | VFun BBin, [x] => py_bin x
  | VFun BOct, [x] => py_oct x
  | VFun BHex, [x] => py_hex x
  | VFun BMin, [a; b] => py_min2 a b
  | VFun BMax, [a; b] => py_max2 a b
  | VFun BOpEq, [a; b] => Ok (VBool (py_eq a b))
  | VFun BOpNe, [a; b] => Ok (VBool (negb (py_eq a b)))
  | VFun BOpLt, [a; b] => c <- py_lt a b ;; Ok (VBool c)
  | VFun BOpLe, [a; b] => c <- py_le a b ;; Ok (VBool c)
  | VFun BOpGt, [a; b] => c <- py_gt a b ;; Ok (VBool c)
  | VFun BOpGe, [a; b] => c <- py_ge a b ;; Ok (VBool c)
  | VFun _, _ => Raise TypeError
  | _, _ => Raise TypeError
  end.

(* value-context boolean operators: "a and b" / "a or b" return operands *)
Definition py_and (a : res pyval) (b : res pyval) : res pyval :=
  x <- a ;; if py_truthy x then b else Ok x.
Definition py_or (a : res pyval) (b : res pyval) : res pyval :=
  x <- a ;; if py_truthy x then Ok x else b.
Definition cond_of (m : res pyval) : res bool := x <- m ;; Ok (py_truthy x).
Definition val_of (m : res bool) : res pyval := b <- m ;; Ok (VBool b).
Definition b_and (a b : res bool) : res bool := x <- a ;; if x then b else Ok false.
Definition b_or (a b : res bool) : res bool := x <- a ;; if x then Ok true else b.
Definition b_not (a : res bool) : res bool := x <- a ;; Ok (negb x).
Definition lift2 (f : pyval -> pyval -> res pyval) (a b : res pyval) : res pyval :=
  x <- a ;; y <- b ;; f x y.
Definition lift1 (f : pyval -> res pyval) (a : res pyval) : res pyval :=
  x <- a ;; f x.
Definition cmp2 (f : pyval -> pyval -> res bool) (a b : res pyval) : res bool :=
  x <- a ;; y <- b ;; f x y.
Definition eq2 (a b : res pyval) : res bool := x <- a ;; y <- b ;; Ok (py_eq x y).
Definition ne2 (a b : res pyval) : res bool := x <- a ;; y <- b ;; Ok (negb (py_eq x y)).
Definition is_none (a : res pyval) : res bool :=
  x <- a ;; Ok match x with VNone => true | _ => false end.

(* excelutil.flatten (a generator, modelled as the list it yields) over
   nested tuples/lists: depth-first, text and every other scalar is a leaf.
   Only the default coerce (identity) is modelled. *)
Fixpoint flatten (v : pyval) : list pyval :=
  match v with
  | VTuple l | VList l | VSet l =>
      (fix go (l : list pyval) : list pyval :=
         match l with
         | [] => []
         | x :: l' => flatten x ++ go l'
         end) l
  | _ => [v]
  end.
Definition py_flatten (v : pyval) : res pyval :=
  match v with VDict _ => Raise Unmodelled | _ => Ok (VList (flatten v)) end.

(* fuel handed to translated self-recursive functions whose recursion depth is
   the nesting depth of their argument *)
Definition py_fuel : nat := 64.

(* ---------------------------------------------- C20: str methods (appended)
   str.find, str.replace (with and without count), str.join, f-strings with
   plain {expr} fields, re.sub(' +', ' ', s).  Text is a list of code points;
   indices are code-point indices as in CPython. *)

(* least index >= i (counting from i at the head of s) where p is a prefix *)
Fixpoint find_from (p s : str) (i : Z) : option Z :=
  if str_prefix p s then Some i
  else match s with [] => None | _ :: s' => find_from p s' (i + 1) end.

(* s.find(p, start): start is adjusted as CPython's ADJUST_INDICES does
   (negative: + len, then clamped at 0; NOT clamped at len: a start beyond the
   end gives -1 even for the empty pattern) *)
Definition str_find_idx (s p : str) (start : Z) : Z :=
  let n := zlen s in
  let j := if start <? 0 then Z.max 0 (start + n) else start in
  if n <? j then -1
  else match find_from p (skipn (Z.to_nat j) s) j with Some i => i | None => -1 end.

Definition str_find2 (v p st : pyval) : res pyval :=      (* v.find(p, st) *)
  match v, p with
  | VStr s, VStr q =>
      match st with
      | VNone => Ok (VInt (str_find_idx s q 0))
      | _ => match as_index st with
             | Some z => Ok (VInt (str_find_idx s q z))
             | None => Raise TypeError
             end
      end
  | VStr _, _ => Raise TypeError
  | _, _ => Raise AttributeError
  end.
Definition str_find1 (v p : pyval) : res pyval := str_find2 v p VNone.

(* s.replace(old, new[, count]).  [cnt = None]: no limit. *)
Definition cnt_dec (c : option nat) : option (option nat) :=
  match c with None => Some None | Some O => None | Some (S k) => Some (Some k) end.
Fixpoint replace_ne (fuel : nat) (old new : str) (cnt : option nat) (s : str) : str :=
  match fuel with
  | O => s
  | S f =>
      match cnt_dec cnt with
      | None => s
      | Some cnt' =>
          if str_prefix old s then new ++ replace_ne f old new cnt' (skipn (length old) s)
          else match s with [] => [] | x :: s' => x :: replace_ne f old new cnt s' end
      end
  end.
(* empty pattern: new is inserted before every character and at the end *)
Fixpoint replace_empty (new : str) (cnt : option nat) (s : str) : str :=
  match cnt_dec cnt with
  | None => s
  | Some cnt' => new ++ match s with [] => [] | x :: s' => x :: replace_empty new cnt' s' end
  end.
Definition str_replace_cnt (s old new : str) (cnt : option nat) : str :=
  match old with
  | [] => replace_empty new cnt s
  | _ :: _ => replace_ne (S (length s)) old new cnt s
  end.
Definition str_replace2 (v old new : pyval) : res pyval :=   (* v.replace(old, new) *)
  match v, old, new with
  | VStr s, VStr o, VStr n => Ok (VStr (str_replace_cnt s o n None))
  | VStr _, _, _ => Raise TypeError
  | _, _, _ => Raise AttributeError
  end.

(* sep.join(iterable of str) *)
Fixpoint join_strs (sep : str) (l : list pyval) : res str :=
  match l with
  | [] => Ok []
  | VStr a :: l' =>
      match l' with
      | [] => Ok a
      | _ :: _ => r <- join_strs sep l' ;; Ok (a ++ sep ++ r)
      end
  | _ :: _ => Raise TypeError
  end.
Definition str_join (sep it : pyval) : res pyval :=
  match sep with
  | VStr p => l <- py_iter it ;; r <- join_strs p l ;; Ok (VStr r)
  | _ => Raise AttributeError
  end.

(* f'{a}{b}…' with plain fields: format(x, '') = str(x) for the modelled types *)
Fixpoint py_fstr (l : list pyval) : res pyval :=
  match l with
  | [] => Ok (VStr [])
  | x :: l' =>
      a <- py_str x ;; b <- py_fstr l' ;;
      match a, b with VStr u, VStr w => Ok (VStr (u ++ w)) | _, _ => Raise TypeError end
  end.

(* re.sub(' +', ' ', s): every maximal run of U+0020 becomes one space *)
Fixpoint squeeze_spaces (s : str) : str :=
  match s with
  | [] => []
  | c :: s' =>
      if (c =? 32) && match s' with d :: _ => d =? 32 | [] => false end
      then squeeze_spaces s' else c :: squeeze_spaces s'
  end.

(* quantize with the rounding mode given as decimal's constant (a string) *)
Definition rounding_of (m : pyval) : option rounding :=
  match m with
  | VStr s =>
      if str_eqb s [82;79;85;78;68;95;72;65;76;70;95;85;80] then Some ROUND_HALF_UP
      else if str_eqb s [82;79;85;78;68;95;85;80] then Some ROUND_UP
      else if str_eqb s [82;79;85;78;68;95;68;79;87;78] then Some ROUND_DOWN
      else if str_eqb s [82;79;85;78;68;95;72;65;76;70;95;69;86;69;78] then Some ROUND_HALF_EVEN
      else None
  | _ => None
  end.
Definition py_quantize_v (x nd m : pyval) : res pyval :=
  match rounding_of m with
  | Some r => py_quantize x nd r
  | None => Raise Unmodelled
  end.
(* ---- appended for C13: _ArrayFormulaContext.fit_to_range.  The context
   object is modelled by the value of its [ctx_address] (None = not in an array
   formula), an address by its [size], and an AddressSize(height, width) by the
   pair (height, width): the only attributes fit_to_range reads. *)
Definition attr_ctx_address (self : pyval) : res pyval := Ok self.
Definition attr_size (addr : pyval) : res pyval :=
  match addr with VTuple [_; _] => Ok addr | _ => Raise AttributeError end.
Definition attr_height (sz : pyval) : res pyval :=
  match sz with VTuple [h; _] => Ok h | _ => Raise AttributeError end.
Definition attr_width (sz : pyval) : res pyval :=
  match sz with VTuple [_; w] => Ok w | _ => Raise AttributeError end.
Definition py_address_size (h w : pyval) : res pyval := Ok (VTuple [h; w]).
