(* Lib/PyDate.v — the proleptic Gregorian calendar of CPython's datetime
   (Lib/_pydatetime.py: _ymd2ord, _ord2ymd, _days_in_month) and what the
   translated date code needs of datetime/calendar.  A datetime at midnight is
   its ordinal (an int); datetime + timedelta(days=x) is ordinal + x; the date
   part of an ordinal with a fraction is its floor.  Non-integer year/month/day
   arguments are Unmodelled. *)
From Coq Require Import ZArith QArith Qround List Bool.
From PV Require Import Lib.Py.
Import ListNotations.
Open Scope Z_scope.

Definition is_leap (y : Z) : bool :=
  (y mod 4 =? 0) && (negb (y mod 100 =? 0) || (y mod 400 =? 0)).
Definition days_before_year (year : Z) : Z :=
  let y := year - 1 in y * 365 + y / 4 - y / 100 + y / 400.
Definition days_in_month_tbl (m : Z) : Z :=
  match m with
  | 1 => 31 | 2 => 28 | 3 => 31 | 4 => 30 | 5 => 31 | 6 => 30
  | 7 => 31 | 8 => 31 | 9 => 30 | 10 => 31 | 11 => 30 | 12 => 31 | _ => 0
  end.
Definition days_before_month_tbl (m : Z) : Z :=
  match m with
  | 1 => 0 | 2 => 31 | 3 => 59 | 4 => 90 | 5 => 120 | 6 => 151
  | 7 => 181 | 8 => 212 | 9 => 243 | 10 => 273 | 11 => 304 | 12 => 334 | _ => 0
  end.
Definition days_in_month (y m : Z) : Z :=
  if (m =? 2) && is_leap y then 29 else days_in_month_tbl m.
Definition days_before_month (y m : Z) : Z :=
  days_before_month_tbl m + (if (2 <? m) && is_leap y then 1 else 0).
Definition ymd2ord (y m d : Z) : Z := days_before_year y + days_before_month y m + d.

Definition DI400Y : Z := 146097.
Definition DI100Y : Z := 36524.
Definition DI4Y : Z := 1461.

Definition ord2ymd (n0 : Z) : Z * Z * Z :=
  let n := n0 - 1 in
  let n400 := n / DI400Y in let n := n mod DI400Y in
  let year := n400 * 400 + 1 in
  let n100 := n / DI100Y in let n := n mod DI100Y in
  let n4 := n / DI4Y in let n := n mod DI4Y in
  let n1 := n / 365 in let n := n mod 365 in
  let year := year + n100 * 100 + n4 * 4 + n1 in
  if (n1 =? 4) || (n100 =? 4) then (year - 1, 12, 31)
  else
    let leapyear := (n1 =? 3) && (negb (n4 =? 24) || (n100 =? 3)) in
    let month := Z.shiftr (n + 50) 5 in
    let preceding := days_before_month_tbl month + (if (2 <? month) && leapyear then 1 else 0) in
    if n <? preceding then
      let month := month - 1 in
      let preceding := preceding - (days_in_month_tbl month + (if (month =? 2) && leapyear then 1 else 0)) in
      (year, month, n - preceding + 1)
    else (year, month, n - preceding + 1).

Definition MAXORD : Z := 3652059.   (* 9999-12-31 *)

(* dt.datetime(y, m, d): the ordinal, ValueError outside the calendar *)
Definition py_datetime (y m d : pyval) : res pyval :=
  match y, m, d with
  | VInt y, VInt m, VInt d =>
      if (1 <=? y) && (y <=? 9999) && (1 <=? m) && (m <=? 12) && (1 <=? d) && (d <=? days_in_month y m)
      then Ok (VInt (ymd2ord y m d)) else Raise ValueError
  | _, _, _ => Raise Unmodelled
  end.
(* dt.timedelta(days=x): x days *)
Definition py_timedelta (x : pyval) : res pyval :=
  match x with
  | VInt z => if Z.abs z <=? 999999999 then Ok (VInt z) else Raise OverflowError
  | VFloat q => if Z.abs (Qfloor q) <=? 999999999 then Ok (VFloat q) else Raise OverflowError
  | VBool b => Ok (VInt (if b then 1 else 0))
  | _ => Raise TypeError
  end.
(* (datetime - datetime).days, for our midnight datetimes *)
Definition py_delta_days (v : pyval) : res pyval :=
  match v with
  | VInt z => Ok (VInt z)
  | VFloat q => Ok (VInt (Qfloor q))
  | _ => Raise AttributeError
  end.
(* date part of "DATE_ZERO + timedelta(days=x)": a result beyond 9999-12-31 or
   before 0001-01-01 is OverflowError (raised by the addition in CPython; the
   translated code reads the parts immediately, so raising here is equivalent) *)
Definition date_ord (v : pyval) : res Z :=
  match v with
  | VInt z => if (1 <=? z) && (z <=? MAXORD) then Ok z else Raise OverflowError
  | VFloat q => let z := Qfloor q in
                if (1 <=? z) && (z <=? MAXORD) then Ok z else Raise OverflowError
  | _ => Raise AttributeError
  end.
Definition py_date_year (v : pyval) : res pyval :=
  z <- date_ord v ;; Ok (VInt (fst (fst (ord2ymd z)))).
Definition py_date_month (v : pyval) : res pyval :=
  z <- date_ord v ;; Ok (VInt (snd (fst (ord2ymd z)))).
Definition py_date_day (v : pyval) : res pyval :=
  z <- date_ord v ;; Ok (VInt (snd (ord2ymd z))).

(* calendar.monthrange(year, month) -> (weekday of the 1st, days in month);
   month outside 1..12 is IllegalMonthError (a ValueError); years outside
   1..9999 are folded into 2000 + year mod 400 for the weekday, as calendar
   does; the leap rule uses the year itself *)
Definition py_monthrange (y m : pyval) : res pyval :=
  match y, m with
  | VInt y, VInt m =>
      if (1 <=? m) && (m <=? 12) then
        let yy := if (1 <=? y) && (y <=? 9999) then y else 2000 + y mod 400 in
        let wd := (ymd2ord yy m 1 + 6) mod 7 in
        Ok (VTuple [VInt wd; VInt (days_in_month y m)])
      else Raise ValueError
  | _, _ => Raise Unmodelled
  end.

(* Python's recursion limit, as fuel for translated self-recursive functions
   (normalize_year recurses once per month carried) *)
Definition py_recursion_fuel : nat := 900.
(* stand-in for functions that are not translated *)
Definition py_unmodelled2 (_ _ : pyval) : res pyval := Raise Unmodelled.
