(* Extract/C20.v — entry points of the text-function model for the harness.
   Every entry takes the argument list of the Excel call (so that optional
   arguments are simply absent). *)
From Coq Require Import ZArith List String Extraction ExtrOcamlBasic.
From PV Require Import Lib.Py Extract.Sx.
From PV Require Gen.excelutil Gen.text.
From PV Require Import Model.Text Model.TextFormat Proofs.C20TextSpec.
Import ListNotations.
Open Scope string_scope.

Fixpoint dec_args (l : list sx) : option (list pyval) :=
  match l with
  | [] => Some []
  | a :: l' => match dec_val a, dec_args l' with
               | Some v, Some r => Some (v :: r)
               | _, _ => None
               end
  end.
Definition callL (f : list pyval -> res pyval) (args : list sx) : sx :=
  match dec_args args with Some l => enc_res (f l) | None => bad_args end.

Definition table : list entry :=
  [ E "left" (callL X_left)
  ; E "right" (callL X_right)
  ; E "mid" (callL X_mid)
  ; E "replace" (callL X_replace)
  ; E "find" (callL X_find)
  ; E "exact" (callL X_exact)
  ; E "len_" (callL X_len)
  ; E "lower" (callL X_lower)
  ; E "upper" (callL X_upper)
  ; E "trim" (callL X_trim)
  ; E "concatenate" (callL X_concatenate)
  ; E "concat" (callL X_concat)
  ; E "substitute" (callL X_substitute)
  ; E "text" (callL X_text)
  ; E "text_spec" (callL spec_entry)     (* Proofs/C20TextSpec.v: [mode; x; f] -> (text_spec, is a tie) *)
  ].

Definition dispatch (name : list Z) (args : list sx) : sx :=
  match lookup table name with
  | Some f => f args
  | None => SL [SZ 3]
  end.

Extraction Language OCaml.
Extraction "model_C20.ml" dispatch Z.add Z.mul Z.opp Z.div_eucl Z.of_nat Z.ltb Z.eqb.
