(* Extract/C12.v — validate_calcs (Model/Validate.v) on a workbook given on the
   wire (same node format as Extract/C01.v, whose decoders are repeated here);
   the history/spec entries of C01 are kept.

   wire: validate (nodes texts tol outs)
     texts = one (c1 c2 …) per node: str(cell.formula) of a formula cell
     tol   = () for tolerance=None | (num den)
     outs  = (n1 n2 …) the checked outputs, in the order given to validate_calcs
         close_enough (tol self value)   ->  (1 b)   [_CellBase.close_enough]
   answer: ((left…) (verified…) ((n original calced)…) snapshot)
     left = what remains on the stack (non-empty = out of fuel), the report in
     dictionary order, snapshot = (built? value) per node after the run.

   wire: history (nodes ops)      spec (nodes)
     node = (input? range? deps inp0 stored formula)
     formula = (0) | (1 cols) | (2 operand) | (3 opcode operand operand)
             | (4 operand) | (5 which operand)
     operand = (0 i) | (1 z) | (2 c1 c2 …)
     op = (0 n) evaluate | (1 a value) set_value | (2 n) build            *)
From Coq Require Import ZArith List String Extraction ExtrOcamlBasic.
From Coq Require Import QArith.
From PV Require Import Lib.Py Extract.Sx Model.Ops Model.Graph Model.GraphExpr Model.Validate.
From PV Require Import Model.Fail Model.ValidateFail.
Import ListNotations.
Open Scope string_scope.

Definition dec_operand (x : sx) : option operand :=
  match x with
  | SL [SZ 0; SZ i] => Some (ORef (Z.to_nat i))
  | SL [SZ 1; SZ z] => Some (OLit z)
  | SL (SZ 2 :: l) => match sx_zs l with Some s => Some (OText s) | None => None end
  | _ => None
  end%Z.

Definition op_of_code (z : Z) : option Ops.op :=
  match z with
  | 0 => Some Add | 1 => Some Sub | 2 => Some Mult | 3 => Some Div | 4 => Some Pow
  | 5 => Some BitAnd | 6 => Some USub | 7 => Some Eq | 8 => Some NotEq
  | 9 => Some Lt | 10 => Some LtE | 11 => Some Gt | 12 => Some GtE
  | _ => None
  end%Z.

Definition dec_formula (x : sx) : option formula :=
  match x with
  | SL [SZ 0] => Some FNone
  | SL [SZ 1; SZ c] => Some (FRange (Z.to_nat c))
  | SL [SZ 2; a] => option_map FRef (dec_operand a)
  | SL [SZ 3; SZ o; a; b] =>
      match op_of_code o, dec_operand a, dec_operand b with
      | Some o, Some a, Some b => Some (FBin o a b) | _, _, _ => None end
  | SL [SZ 4; a] => option_map FNeg (dec_operand a)
  | SL [SZ 5; SZ w; a] => option_map (FAgg (Z.to_nat w)) (dec_operand a)
  | _ => None
  end%Z.

Record nodeinfo := { ni_input : bool; ni_range : bool; ni_deps : list nat;
                     ni_inp0 : pyval; ni_stored : pyval; ni_formula : formula }.

Definition dec_node (x : sx) : option nodeinfo :=
  match x with
  | SL [SZ i; SZ r; SL ds; v0; st; fm] =>
      match sx_zs ds, dec_val v0, dec_val st, dec_formula fm with
      | Some ds, Some v0, Some st, Some fm =>
          Some {| ni_input := negb (i =? 0)%Z; ni_range := negb (r =? 0)%Z;
                  ni_deps := map Z.to_nat ds; ni_inp0 := v0; ni_stored := st; ni_formula := fm |}
      | _, _, _, _ => None
      end
  | _ => None
  end.

Fixpoint dec_list {A} (f : sx -> option A) (l : list sx) : option (list A) :=
  match l with
  | [] => Some []
  | x :: l' => match f x, dec_list f l' with
               | Some a, Some r => Some (a :: r) | _, _ => None end
  end.

Definition dflt : nodeinfo :=
  {| ni_input := true; ni_range := false; ni_deps := []; ni_inp0 := VNone;
     ni_stored := VNone; ni_formula := FNone |}.

Definition mk_wb (nodes : list nodeinfo) : workbook :=
  {| wb_n := List.length nodes;
     wb_input := fun n => ni_input (nth n nodes dflt);
     wb_deps := fun n => ni_deps (nth n nodes dflt);
     wb_range := fun n => ni_range (nth n nodes dflt);
     wb_inp0 := fun n => ni_inp0 (nth n nodes dflt);
     wb_stored := fun n => ni_stored (nth n nodes dflt) |}.

Definition mk_sem (nodes : list nodeinfo) (n : nat) (vals : list pyval) : pyval :=
  sem_formula (ni_formula (nth n nodes dflt)) vals.

Definition dec_op (x : sx) : option gop :=
  match x with
  | SL [SZ 0; SZ n] => Some (Evaluate (Z.to_nat n))
  | SL [SZ 1; SZ a; v] => option_map (SetValue (Z.to_nat a)) (dec_val v)
  | SL [SZ 2; SZ n] => Some (Build (Z.to_nat n))
  | _ => None
  end%Z.

Definition snapshot (W : workbook) (s : state) : sx :=
  SL (map (fun n => SL [SZ (if st_built s n then 1 else 0)%Z; enc_val (st_cache s n)])
          (seq 0 (wb_n W))).

Fixpoint run_trace (W : workbook) (sem : nat -> list pyval -> pyval) (s : state) (h : list gop)
  : list sx :=
  match h with
  | [] => []
  | o :: h' =>
      let '(s1, v) := step W sem s o in
      SL [enc_val v; snapshot W s1] :: run_trace W sem s1 h'
  end.

Definition history_entry (args : list sx) : sx :=
  match args with
  | [SL nodes; SL ops] =>
      match dec_list dec_node nodes, dec_list dec_op ops with
      | Some ns, Some os =>
          let W := mk_wb ns in
          SL (run_trace W (mk_sem ns) (init W) os)
      | _, _ => bad_args
      end
  | _ => bad_args
  end.

(* from-scratch values of every node under the workbook's inputs (the specification) *)
Definition spec_entry (args : list sx) : sx :=
  match args with
  | [SL nodes] =>
      match dec_list dec_node nodes with
      | Some ns =>
          let W := mk_wb ns in
          SL (map (fun n => enc_val (spec W (mk_sem ns) (wb_inp0 W) n)) (seq 0 (wb_n W)))
      | None => bad_args
      end
  | _ => bad_args
  end.

(* ------------------------------------------------------------ validate_calcs *)
Definition dec_tol (x : sx) : option (option Q) :=
  match x with
  | SL [] => Some None
  | SL [SZ n; SZ (Zpos d)] => Some (Some (n # d))
  | _ => None
  end.

Definition dec_text (x : sx) : option (list Z) :=
  match x with SL l => sx_zs l | _ => None end.

Definition validate_entry (args : list sx) : sx :=
  match args with
  | [SL nodes; SL texts; tol; SL outs] =>
      match dec_list dec_node nodes, dec_list dec_text texts, dec_tol tol, sx_zs outs with
      | Some ns, Some ts, Some t, Some os =>
          let W := mk_wb ns in
          let vs := validate W (mk_sem ns) (fun n => nth n ts []) t (map Z.to_nat os) in
          SL [ SL (map (fun n => SZ (Z.of_nat n)) (vs_todo vs));
               SL (map (fun n => SZ (Z.of_nat n)) (vs_verified vs));
               SL (map (fun e => SL [SZ (Z.of_nat (fst e)); enc_val (fst (snd e));
                                     enc_val (snd (snd e))]) (vs_report vs));
               snapshot W (vs_st vs) ]
      | _, _, _, _ => bad_args
      end
  | _ => bad_args
  end.

Definition close_entry (args : list sx) : sx :=
  match args with
  | [tol; a; b] =>
      match dec_tol tol, dec_val a, dec_val b with
      | Some t, Some a, Some b => enc_val (VBool (close_enough t a b))
      | _, _, _ => bad_args
      end
  | _ => bad_args
  end.

(* ------------------------------------------- validate_calcs with failing cells
   wire: validate_f (fnodes failing nimp texts tol outs raise keytexts)
     fnode    = node ++ (fault)      fault = (0) | (1 k) unknown function after k
                                     precedents | (2) plugin function (as Extract/C09.v)
     failing  = plugin nodes whose function raises (the others return 7)
     nimp     = plugin nodes whose function raises NotImplementedError
     raise    = 0 | 1   raise_exceptions
     keytexts = one (name own eval) per node: the texts of KFunc / KOwn / KEval
   answer: (left verified mismatch snapshot not-implemented exceptions raised)
     bucket = ((keytext ((n chain…)…))…)     raised = () | (n chain…)           *)
Inductive fault := NoFault | Unknown (k : nat) | Plugin.

Definition dec_fault (x : sx) : option fault :=
  match x with
  | SL [SZ 0] => Some NoFault
  | SL [SZ 1; SZ k] => Some (Unknown (Z.to_nat k))
  | SL [SZ 2] => Some Plugin
  | _ => None
  end%Z.

Definition dec_fnode (x : sx) : option (nodeinfo * fault) :=
  match x with
  | SL [i; r; ds; v0; st; fm; ft] =>
      match dec_node (SL [i; r; ds; v0; st; fm]), dec_fault ft with
      | Some ni, Some f => Some (ni, f)
      | _, _ => None
      end
  | _ => None
  end.

Definition fault_of (fs : list fault) (n : nat) : fault := nth n fs NoFault.

Definition mk_fpre (fs : list fault) (n : nat) : option nat :=
  match fault_of fs n with Unknown k => Some k | _ => None end.

Definition mk_fsem (ns : list nodeinfo) (fs : list fault) (failing : nat -> bool)
           (n : nat) (vals : list pyval) : option pyval :=
  match fault_of fs n with
  | Plugin => if failing n then None else Some (VInt 7)
  | _ => Some (mk_sem ns n vals)
  end.

Definition dec_keytexts (x : sx) : option (list Z * list Z * list Z) :=
  match x with
  | SL [a; b; c] =>
      match dec_text a, dec_text b, dec_text c with
      | Some a, Some b, Some c => Some (a, b, c)
      | _, _, _ => None
      end
  | _ => None
  end.

Definition enc_nat (n : nat) : sx := SZ (Z.of_nat n).
Definition enc_entry (e : ValidateFail.entry) : sx := SL (enc_nat (fst e) :: map enc_nat (snd e)).
Definition enc_bucket (b : bucket) : sx :=
  SL (map (fun ke => SL [SL (map SZ (fst ke)); SL (map enc_entry (snd ke))]) b).

Definition validate_f_entry (args : list sx) : sx :=
  match args with
  | [SL nodes; SL failing; SL nimp; SL texts; tol; SL outs; SZ rz; SL kts] =>
      match dec_list dec_fnode nodes, sx_zs failing, sx_zs nimp, dec_list dec_text texts,
            dec_tol tol, sx_zs outs, dec_list dec_keytexts kts with
      | Some nfs, Some fl, Some nl, Some ts, Some t, Some os, Some ks =>
          let ns := map fst nfs in
          let fs := map snd nfs in
          let W := mk_wb ns in
          let inl (l : list Z) n := existsb (fun z => Nat.eqb (Z.to_nat z) n) l in
          let fpre := mk_fpre fs in
          let kt n := nth n ks ([], [], []) in
          let ktext k := match k with
                         | KFunc r => fst (fst (kt r))
                         | KOwn r => snd (fst (kt r))
                         | KEval m => snd (kt m)
                         end in
          let vs := validate_f W (mk_fsem ns fs (inl fl)) fpre (gen_order W)
                               (fun n => nth n ts []) t (negb (rz =? 0)%Z) (map Z.to_nat os) in
          let bs := failed_buckets fpre (inl nl) ktext (fs_exc vs) in
          SL [ SL (map enc_nat (fs_todo vs));
               SL (map enc_nat (fs_verified vs));
               SL (map (fun e => SL [enc_nat (fst e); enc_val (fst (snd e));
                                     enc_val (snd (snd e))]) (fs_report vs));
               snapshot W (fs_st vs);
               enc_bucket (fst bs); enc_bucket (snd bs);
               match fs_raised vs with Some e => enc_entry e | None => SL [] end ]
      | _, _, _, _, _, _, _ => bad_args
      end
  | _ => bad_args
  end.

Definition table : list Sx.entry :=
  [ E "history" history_entry; E "spec" spec_entry; E "validate" validate_entry;
    E "close_enough" close_entry; E "validate_f" validate_f_entry ].

Definition dispatch (name : list Z) (args : list sx) : sx :=
  match lookup table name with
  | Some f => f args
  | None => SL [SZ 3]
  end.

Extraction Language OCaml.
Extraction "model_C12.ml" dispatch Z.add Z.mul Z.opp Z.div_eucl Z.of_nat Z.ltb Z.eqb.
