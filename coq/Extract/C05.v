(* Extract/C05.v (same entries as C01) — run a history of Evaluate/SetValue/Build on a workbook given
   on the wire; answer, per operation, the returned value and the snapshot of
   the cache (built flag and value of every node).

   wire: history (nodes ops)      spec (nodes)
     node = (input? range? deps inp0 stored formula)
     formula = (0) | (1 cols) | (2 operand) | (3 opcode operand operand)
             | (4 operand) | (5 which operand)
     operand = (0 i) | (1 z) | (2 c1 c2 …)
     op = (0 n) evaluate | (1 a value) set_value | (2 n) build            *)
From Coq Require Import ZArith List String Extraction ExtrOcamlBasic.
From PV Require Import Lib.Py Extract.Sx Model.Ops Model.Graph Model.GraphExpr Model.C05List.
Import ListNotations.
Open Scope string_scope.

Definition dec_operand (x : sx) : option operand :=
  match x with
  | SL [SZ 0; SZ i] => Some (ORef (Z.to_nat i))
  | SL [SZ 1; SZ z] => Some (OLit z)
  | SL (SZ 2 :: l) => match sx_zs l with Some s => Some (OText s) | None => None end
  | _ => None
  end%Z.

Definition op_of_code (z : Z) : option Ops.op :=
  match z with
  | 0 => Some Add | 1 => Some Sub | 2 => Some Mult | 3 => Some Div | 4 => Some Pow
  | 5 => Some BitAnd | 6 => Some USub | 7 => Some Eq | 8 => Some NotEq
  | 9 => Some Lt | 10 => Some LtE | 11 => Some Gt | 12 => Some GtE
  | _ => None
  end%Z.

Definition dec_formula (x : sx) : option formula :=
  match x with
  | SL [SZ 0] => Some FNone
  | SL [SZ 1; SZ c] => Some (FRange (Z.to_nat c))
  | SL [SZ 2; a] => option_map FRef (dec_operand a)
  | SL [SZ 3; SZ o; a; b] =>
      match op_of_code o, dec_operand a, dec_operand b with
      | Some o, Some a, Some b => Some (FBin o a b) | _, _, _ => None end
  | SL [SZ 4; a] => option_map FNeg (dec_operand a)
  | SL [SZ 5; SZ w; a] => option_map (FAgg (Z.to_nat w)) (dec_operand a)
  | SL [SZ 6] => Some FAlias       (* reference cell of an unbounded range: see Extract/C01.v *)
  | SL [SZ 7; SZ w; a; SZ o; b] =>
      match op_of_code o, dec_operand a, dec_operand b with
      | Some o, Some a, Some b => Some (FAggBin (Z.to_nat w) a o b) | _, _, _ => None end
  | _ => None
  end%Z.

Record nodeinfo := { ni_input : bool; ni_range : bool; ni_deps : list nat;
                     ni_inp0 : pyval; ni_stored : pyval; ni_formula : formula }.

Definition dec_node (x : sx) : option nodeinfo :=
  match x with
  | SL [SZ i; SZ r; SL ds; v0; st; fm] =>
      match sx_zs ds, dec_val v0, dec_val st, dec_formula fm with
      | Some ds, Some v0, Some st, Some fm =>
          Some {| ni_input := negb (i =? 0)%Z; ni_range := negb (r =? 0)%Z;
                  ni_deps := map Z.to_nat ds; ni_inp0 := v0; ni_stored := st; ni_formula := fm |}
      | _, _, _, _ => None
      end
  | _ => None
  end.

Fixpoint dec_list {A} (f : sx -> option A) (l : list sx) : option (list A) :=
  match l with
  | [] => Some []
  | x :: l' => match f x, dec_list f l' with
               | Some a, Some r => Some (a :: r) | _, _ => None end
  end.

Definition dflt : nodeinfo :=
  {| ni_input := true; ni_range := false; ni_deps := []; ni_inp0 := VNone;
     ni_stored := VNone; ni_formula := FNone |}.

Definition mk_wb (nodes : list nodeinfo) : workbook :=
  {| wb_n := List.length nodes;
     wb_input := fun n => ni_input (nth n nodes dflt);
     wb_deps := fun n => ni_deps (nth n nodes dflt);
     wb_range := fun n => ni_range (nth n nodes dflt);
     wb_inp0 := fun n => ni_inp0 (nth n nodes dflt);
     wb_stored := fun n => ni_stored (nth n nodes dflt) |}.

Definition mk_sem (nodes : list nodeinfo) (n : nat) (vals : list pyval) : pyval :=
  sem_formula (ni_formula (nth n nodes dflt)) vals.

Definition dec_op (x : sx) : option gop :=
  match x with
  | SL [SZ 0; SZ n] => Some (Evaluate (Z.to_nat n))
  | SL [SZ 1; SZ a; v] => option_map (SetValue (Z.to_nat a)) (dec_val v)
  | SL [SZ 2; SZ n] => Some (Build (Z.to_nat n))
  | _ => None
  end%Z.

Definition snapshot (W : workbook) (s : state) : sx :=
  SL (map (fun n => SL [SZ (if st_built s n then 1 else 0)%Z; enc_val (st_cache s n)])
          (seq 0 (wb_n W))).

Fixpoint run_trace (W : workbook) (sem : nat -> list pyval -> pyval) (s : state) (h : list gop)
  : list sx :=
  match h with
  | [] => []
  | o :: h' =>
      let '(s1, v) := step W sem s o in
      SL [enc_val v; snapshot W s1] :: run_trace W sem s1 h'
  end.

Definition history_entry (args : list sx) : sx :=
  match args with
  | [SL nodes; SL ops] =>
      match dec_list dec_node nodes, dec_list dec_op ops with
      | Some ns, Some os =>
          let W := mk_wb ns in
          SL (run_trace W (mk_sem ns) (init W) os)
      | _, _ => bad_args
      end
  | _ => bad_args
  end.

(* from-scratch values of every node under the workbook's inputs (the specification) *)
Definition spec_entry (args : list sx) : sx :=
  match args with
  | [SL nodes] =>
      match dec_list dec_node nodes with
      | Some ns =>
          let W := mk_wb ns in
          SL (map (fun n => enc_val (spec W (mk_sem ns) (wb_inp0 W) n)) (seq 0 (wb_n W)))
      | None => bad_args
      end
  | _ => bad_args
  end.

(* evlist (nodes ops addrs): run the history, then evaluate the address list
   (Model/C05List.v evaluate_list); answer = (values, snapshot of the final state) *)
Definition evlist_entry (args : list sx) : sx :=
  match args with
  | [SL nodes; SL ops; SL addrs] =>
      match dec_list dec_node nodes, dec_list dec_op ops, sx_zs addrs with
      | Some ns, Some os, Some l =>
          let W := mk_wb ns in
          let s := fst (run W (mk_sem ns) (init W) os) in
          let '(s1, vs) := evaluate_list W (mk_sem ns) s (map Z.to_nat l) in
          SL [SL (map enc_val vs); snapshot W s1]
      | _, _, _ => bad_args
      end
  | _ => bad_args
  end.

Definition table : list entry :=
  [ E "history" history_entry; E "spec" spec_entry; E "evlist" evlist_entry ].

Definition dispatch (name : list Z) (args : list sx) : sx :=
  match lookup table name with
  | Some f => f args
  | None => SL [SZ 3]
  end.

Extraction Language OCaml.
Extraction "model_C05.ml" dispatch Z.add Z.mul Z.opp Z.div_eucl Z.of_nat Z.ltb Z.eqb.
