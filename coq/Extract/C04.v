(* Extract/C04.v — entry point of the precedent-scan model for the harness.
   "needed" takes a concrete tree (wire format of Extract/C02.v) and answers
   [0, code, list of addresses, modelled, refs_written, list of reads], a read
   being [0, address] (RExact), [1, address, ...] (RWithin) or [2] (RNew);
   or [1] when the model's parser rejects the token string.
   "traces" takes a workbook and a history on the wire of Extract/C01.v and
   answers, per operation, [value, [[reader, read], ...]]: the read trace of
   Model/ReadTrace.v run_traced. *)
From Coq Require Import ZArith List Bool String Extraction ExtrOcamlBasic.
From PV Require Import Lib.Py Extract.Sx Model.Syntax Model.Emit Model.Scan.
From PV Require Extract.C02.
From PV Require Model.Graph Model.ReadTrace Extract.C01.
Import ListNotations.
Open Scope Z_scope.

Definition enc_str (s : list Z) : sx := SL (map SZ s).
Definition enc_bool (b : bool) : sx := SZ (if b then 1 else 0).
Definition enc_rd (r : rd) : sx :=
  match r with
  | RExact a => SL [SZ 0; enc_str a]
  | RWithin l => SL (SZ 1 :: map enc_str l)
  | RNew => SL [SZ 2]
  end.

Definition needed_entry (args : list sx) : sx :=
  match args with
  | [x] =>
      match C02.dec_cst x with
      | Some c =>
          match parse (flat c) with
          | Some e =>
              SL [SZ 0; enc_str (code e); SL (map enc_str (needed e)); enc_bool (modelled e);
                  enc_bool (refs_written (emit CtxTop e)); SL (map enc_rd (reads (emit CtxTop e)))]
          | None => SL [SZ 1]
          end
      | None => bad_args
      end
  | _ => bad_args
  end.

Definition enc_pair (x : nat * nat) : sx := SL [SZ (Z.of_nat (fst x)); SZ (Z.of_nat (snd x))].
Definition traces_entry (args : list sx) : sx :=
  match args with
  | [SL nodes; SL ops] =>
      match C01.dec_list C01.dec_node nodes, C01.dec_list C01.dec_op ops with
      | Some ns, Some os =>
          let W := C01.mk_wb ns in
          SL (map (fun vt : pyval * ReadTrace.rtrace => SL [enc_val (fst vt); SL (map enc_pair (snd vt))])
                  (snd (ReadTrace.run_traced W (C01.mk_sem ns) (Graph.init W) os)))
      | _, _ => bad_args
      end
  | _ => bad_args
  end.

Open Scope string_scope.
Definition table : list entry := [ E "needed" needed_entry; E "traces" traces_entry ].

Definition dispatch (name : list Z) (args : list sx) : sx :=
  match lookup table name with
  | Some f => f args
  | None => SL [SZ 3]
  end.

Extraction Language OCaml.
Extraction "model_C04.ml" dispatch Z.add Z.mul Z.opp Z.div_eucl Z.of_nat Z.ltb Z.eqb.
