(* Extract/C08.v — C01's entries plus [trim]; run a history of Evaluate/SetValue/Build on a workbook given
   on the wire; answer, per operation, the returned value and the snapshot of
   the cache (built flag and value of every node).

   wire: history (nodes ops)      spec (nodes)
     node = (input? range? deps inp0 stored formula)
     formula = (0) | (1 cols) | (2 operand) | (3 opcode operand operand)
             | (4 operand) | (5 which operand)
     operand = (0 i) | (1 z) | (2 c1 c2 …)
     op = (0 n) evaluate | (1 a value) set_value | (2 n) build
   trim (nodes pre_ops inputs outputs rounds)
     pre_ops: history run before the trim; inputs/outputs: node indices;
     rounds = ((a value) ...) ...: per round the set_values on the trimmed
     machine, then one evaluate per output
     answer: (refused kept frozen snapshot ((value ...) ...))
       kept/frozen: one 0/1 flag per node (cell map after the trim; cells that
       went through the freezing branch), snapshot: as in history, after the trim
   trimk: the same with Model/TrimKeep.v trim_keepref (repair 17855a0) *)
From Coq Require Import ZArith List String Extraction ExtrOcamlBasic.
From PV Require Import Lib.Py Extract.Sx Model.Ops Model.Graph Model.GraphExpr Model.Trim Model.TrimKeep.
Import ListNotations.
Open Scope string_scope.

Definition dec_operand (x : sx) : option operand :=
  match x with
  | SL [SZ 0; SZ i] => Some (ORef (Z.to_nat i))
  | SL [SZ 1; SZ z] => Some (OLit z)
  | SL (SZ 2 :: l) => match sx_zs l with Some s => Some (OText s) | None => None end
  | _ => None
  end%Z.

Definition op_of_code (z : Z) : option Ops.op :=
  match z with
  | 0 => Some Add | 1 => Some Sub | 2 => Some Mult | 3 => Some Div | 4 => Some Pow
  | 5 => Some BitAnd | 6 => Some USub | 7 => Some Eq | 8 => Some NotEq
  | 9 => Some Lt | 10 => Some LtE | 11 => Some Gt | 12 => Some GtE
  | _ => None
  end%Z.

Definition dec_formula (x : sx) : option formula :=
  match x with
  | SL [SZ 0] => Some FNone
  | SL [SZ 1; SZ c] => Some (FRange (Z.to_nat c))
  | SL [SZ 2; a] => option_map FRef (dec_operand a)
  | SL [SZ 3; SZ o; a; b] =>
      match op_of_code o, dec_operand a, dec_operand b with
      | Some o, Some a, Some b => Some (FBin o a b) | _, _, _ => None end
  | SL [SZ 4; a] => option_map FNeg (dec_operand a)
  | SL [SZ 5; SZ w; a] => option_map (FAgg (Z.to_nat w)) (dec_operand a)
  | SL [SZ 6] => Some FAlias       (* reference cell of an unbounded range: see Extract/C01.v *)
  | SL [SZ 7; SZ w; a; SZ o; b] =>
      match op_of_code o, dec_operand a, dec_operand b with
      | Some o, Some a, Some b => Some (FAggBin (Z.to_nat w) a o b) | _, _, _ => None end
  | _ => None
  end%Z.

Record nodeinfo := { ni_input : bool; ni_range : bool; ni_deps : list nat;
                     ni_inp0 : pyval; ni_stored : pyval; ni_formula : formula }.

Definition dec_node (x : sx) : option nodeinfo :=
  match x with
  | SL [SZ i; SZ r; SL ds; v0; st; fm] =>
      match sx_zs ds, dec_val v0, dec_val st, dec_formula fm with
      | Some ds, Some v0, Some st, Some fm =>
          Some {| ni_input := negb (i =? 0)%Z; ni_range := negb (r =? 0)%Z;
                  ni_deps := map Z.to_nat ds; ni_inp0 := v0; ni_stored := st; ni_formula := fm |}
      | _, _, _, _ => None
      end
  | _ => None
  end.

Fixpoint dec_list {A} (f : sx -> option A) (l : list sx) : option (list A) :=
  match l with
  | [] => Some []
  | x :: l' => match f x, dec_list f l' with
               | Some a, Some r => Some (a :: r) | _, _ => None end
  end.

Definition dflt : nodeinfo :=
  {| ni_input := true; ni_range := false; ni_deps := []; ni_inp0 := VNone;
     ni_stored := VNone; ni_formula := FNone |}.

Definition mk_wb (nodes : list nodeinfo) : workbook :=
  {| wb_n := List.length nodes;
     wb_input := fun n => ni_input (nth n nodes dflt);
     wb_deps := fun n => ni_deps (nth n nodes dflt);
     wb_range := fun n => ni_range (nth n nodes dflt);
     wb_inp0 := fun n => ni_inp0 (nth n nodes dflt);
     wb_stored := fun n => ni_stored (nth n nodes dflt) |}.

Definition mk_sem (nodes : list nodeinfo) (n : nat) (vals : list pyval) : pyval :=
  sem_formula (ni_formula (nth n nodes dflt)) vals.

Definition dec_op (x : sx) : option gop :=
  match x with
  | SL [SZ 0; SZ n] => Some (Evaluate (Z.to_nat n))
  | SL [SZ 1; SZ a; v] => option_map (SetValue (Z.to_nat a)) (dec_val v)
  | SL [SZ 2; SZ n] => Some (Build (Z.to_nat n))
  | _ => None
  end%Z.

Definition snapshot (W : workbook) (s : state) : sx :=
  SL (map (fun n => SL [SZ (if st_built s n then 1 else 0)%Z; enc_val (st_cache s n)])
          (seq 0 (wb_n W))).

Fixpoint run_trace (W : workbook) (sem : nat -> list pyval -> pyval) (s : state) (h : list gop)
  : list sx :=
  match h with
  | [] => []
  | o :: h' =>
      let '(s1, v) := step W sem s o in
      SL [enc_val v; snapshot W s1] :: run_trace W sem s1 h'
  end.

Definition history_entry (args : list sx) : sx :=
  match args with
  | [SL nodes; SL ops] =>
      match dec_list dec_node nodes, dec_list dec_op ops with
      | Some ns, Some os =>
          let W := mk_wb ns in
          SL (run_trace W (mk_sem ns) (init W) os)
      | _, _ => bad_args
      end
  | _ => bad_args
  end.

(* from-scratch values of every node under the workbook's inputs (the specification) *)
Definition spec_entry (args : list sx) : sx :=
  match args with
  | [SL nodes] =>
      match dec_list dec_node nodes with
      | Some ns =>
          let W := mk_wb ns in
          SL (map (fun n => enc_val (spec W (mk_sem ns) (wb_inp0 W) n)) (seq 0 (wb_n W)))
      | None => bad_args
      end
  | _ => bad_args
  end.

(* trim_graph on the machine, then rounds of writes to the inputs on the trimmed machine *)
Definition dec_assign (x : sx) : option (nat * pyval) :=
  match x with
  | SL [SZ a; v] => option_map (fun v => (Z.to_nat a, v)) (dec_val v)
  | _ => None
  end.
Definition dec_round (x : sx) : option (list (nat * pyval)) :=
  match x with SL l => dec_list dec_assign l | _ => None end.

Fixpoint run_rounds (V : workbook) (sem : nat -> list pyval -> pyval) (outs : list nat)
                    (s : state) (rounds : list (list (nat * pyval))) : list sx :=
  match rounds with
  | [] => []
  | r :: rest =>
      let s1 := fold_left (fun s av => set_value V s (fst av) (snd av)) r s in
      let '(s2, vals) := fold_left (fun (acc : state * list sx) o =>
                                      let '(s, vs) := acc in
                                      let '(s', v) := evaluate V sem s o in (s', app vs [enc_val v]))
                                   outs (s1, []) in
      SL vals :: run_rounds V sem outs s2 rest
  end.

Definition flags (W : workbook) (b : nat -> bool) : sx :=
  SL (map (fun n => SZ (if b n then 1 else 0)%Z) (seq 0 (wb_n W))).

(* [keep]: Model/TrimKeep.v trim_keepref (repair 17855a0: the reference cell of an unbounded range,
   = a node whose formula is FAlias, is kept whenever walk_precedents walks into it) instead of
   Model/Trim.v trim *)
Definition is_alias (ns : list nodeinfo) (n : nat) : bool :=
  match ni_formula (nth n ns dflt) with FAlias => true | _ => false end.

Definition trim_entry_gen (keep : bool) (args : list sx) : sx :=
  match args with
  | [SL nodes; SL ops; SL ins; SL outs; SL rounds] =>
      match dec_list dec_node nodes, dec_list dec_op ops, sx_zs ins, sx_zs outs,
            dec_list dec_round rounds with
      | Some ns, Some os, Some ins, Some outs, Some rs =>
          let W := mk_wb ns in
          let sem := mk_sem ns in
          let I := map Z.to_nat ins in
          let O := map Z.to_nat outs in
          let s := fst (run W sem (init W) os) in
          let t := if keep then trim_keepref W sem (is_alias ns) I O s else trim W sem I O s in
          let V := tr_wb t in
          SL [ SZ (if refused W (st_built (build_all W sem O s)) I O then 1 else 0)%Z;
               flags W (st_built (tr_st t));
               flags W (tr_frz t);
               snapshot V (tr_st t);
               SL (run_rounds V sem O (tr_st t) rs) ]
      | _, _, _, _, _ => bad_args
      end
  | _ => bad_args
  end.
Definition trim_entry := trim_entry_gen false.
Definition trimk_entry := trim_entry_gen true.

Definition table : list entry :=
  [ E "history" history_entry; E "spec" spec_entry; E "trim" trim_entry; E "trimk" trimk_entry ].

Definition dispatch (name : list Z) (args : list sx) : sx :=
  match lookup table name with
  | Some f => f args
  | None => SL [SZ 3]
  end.

Extraction Language OCaml.
Extraction "model_C08.ml" dispatch Z.add Z.mul Z.opp Z.div_eucl Z.of_nat Z.ltb Z.eqb.
