(* Extract/C02.v — entry points of the parser / emitter model for the harness.

   wire format of a concrete tree (cst):
     (0 kind (chars))  atom      kind: 0 number 1 text 2 logical 3 error 4 range 5 empty
     (1 c) parenthesis   (2 c) prefix minus   (3 c) postfix %
     (4 op l r) binary   (5 (name chars) (args)) call   (6 (rows)) array   (7 (items)) row
     (8) omitted argument
   "parse" answers
     (0 ((value chars) nargs)* ) (code chars) (xflat of translate) modelled same_tree)
     or (1) when the model's parser rejects the token string.
   wire format of a Python concrete tree (pycst):
     (0 (chars)) atom  (1 t) parenthesis  (2 t) minus  (3 op l r) binary  (4 (name) (args)) call
   "pytree" answers (pywf (pyflat chars) (xflat (pyabs t) chars)).
   "eval" (cst, cells, table): the value of the compiled formula in an
     environment given by the harness: cells = ((address chars) value)*,
     table = ((python function name chars) (argument values) result)* — the
     meanings of the library functions at the argument tuples met so far
     (result = (0 value) | (1 exception code)).  Answers
       (0 py_value xl_value evalb)  — both as (0 value) | (1 exception code)
       (4 (name chars) (argument values)) — the first call (evaluation order,
           arguments evaluated) whose meaning the table does not give yet: the
           harness asks the implementation's function and calls again
       (1) no parse.
   "number" (chars): (py_number | (1)) (xl_numval | (1)) zeros_ok. *)
From Coq Require Import ZArith List Bool String Extraction ExtrOcamlBasic.
From Coq Require Import QArith.
From PV Require Import Lib.Py Extract.Sx Model.Syntax Model.Emit Model.FormulaEval.
Import ListNotations.
Open Scope Z_scope.

Definition kind_of (z : Z) : option okind :=
  match z with
  | 0 => Some KNumber | 1 => Some KText | 2 => Some KLogical | 3 => Some KError
  | 4 => Some KRange | 5 => Some KEmpty | _ => None end.
Definition binop_of (z : Z) : option binop :=
  match z with
  | 0 => Some OEq | 1 => Some ONe | 2 => Some OLt | 3 => Some OLe | 4 => Some OGt
  | 5 => Some OGe | 6 => Some OCat | 7 => Some OAdd | 8 => Some OSub | 9 => Some OMul
  | 10 => Some ODiv | 11 => Some OPow | 12 => Some OIsect | 13 => Some OColon
  | 14 => Some OUnion | _ => None end.
Definition pyop_of_code (z : Z) : option pyop :=
  match z with
  | 0 => Some PAdd | 1 => Some PSub | 2 => Some PMul | 3 => Some PDiv | 4 => Some PPow
  | 5 => Some PBitAnd | 6 => Some PEq | 7 => Some PNe | 8 => Some PLt | 9 => Some PLe
  | 10 => Some PGt | 11 => Some PGe | _ => None end.

Fixpoint dec_cst (x : sx) : option cst :=
  let many := fix go (l : list sx) : option (list cst) :=
                match l with
                | [] => Some []
                | y :: l' => match dec_cst y, go l' with
                             | Some v, Some r => Some (v :: r) | _, _ => None end
                end in
  match x with
  | SL [SZ 0; SZ k; SL v] =>
      match kind_of k, sx_zs v with Some k, Some v => Some (CAtom k v) | _, _ => None end
  | SL [SZ 1; c] => option_map CParen (dec_cst c)
  | SL [SZ 2; c] => option_map CNeg (dec_cst c)
  | SL [SZ 3; c] => option_map CPct (dec_cst c)
  | SL [SZ 4; SZ o; l; r] =>
      match binop_of o, dec_cst l, dec_cst r with
      | Some o, Some l, Some r => Some (CBin o l r) | _, _, _ => None end
  | SL [SZ 5; SL n; SL args] =>
      match sx_zs n, many args with Some n, Some a => Some (CCall n a) | _, _ => None end
  | SL [SZ 6; SL rows] => option_map CArray (many rows)
  | SL [SZ 7; SL items] => option_map CRow (many items)
  | SL [SZ 8] => Some CEmpty
  | _ => None
  end.

Fixpoint dec_pycst (x : sx) : option pycst :=
  let many := fix go (l : list sx) : option (list pycst) :=
                match l with
                | [] => Some []
                | y :: l' => match dec_pycst y, go l' with
                             | Some v, Some r => Some (v :: r) | _, _ => None end
                end in
  match x with
  | SL [SZ 0; SL v] => option_map PAtom (sx_zs v)
  | SL [SZ 1; c] => option_map PParen (dec_pycst c)
  | SL [SZ 2; c] => option_map PNeg (dec_pycst c)
  | SL [SZ 3; SZ o; l; r] =>
      match pyop_of_code o, dec_pycst l, dec_pycst r with
      | Some o, Some l, Some r => Some (PBin o l r) | _, _, _ => None end
  | SL [SZ 4; SL n; SL args] =>
      match sx_zs n, many args with Some n, Some a => Some (PCall n a) | _, _ => None end
  | _ => None
  end.

Definition okind_eqb (a b : okind) : bool :=
  match a, b with
  | KNumber, KNumber | KText, KText | KLogical, KLogical | KError, KError
  | KRange, KRange | KEmpty, KEmpty => true
  | _, _ => false end.
Fixpoint expr_eqb (a b : expr) : bool :=
  match a, b with
  | EOperand k v, EOperand k' v' => okind_eqb k k' && zs_eqb v v'
  | EPre x, EPre y | EPost x, EPost y => expr_eqb x y
  | EBin o l r, EBin o' l' r' => zs_eqb (op_text o) (op_text o') && expr_eqb l l' && expr_eqb r r'
  | EFunc n xs, EFunc n' ys =>
      zs_eqb n n' &&
      (fix go (xs ys : list expr) : bool :=
         match xs, ys with
         | [], [] => true
         | x :: xs', y :: ys' => expr_eqb x y && go xs' ys'
         | _, _ => false end) xs ys
  | _, _ => false
  end.

Definition enc_str (s : list Z) : sx := SL (map SZ s).
Definition enc_bool (b : bool) : sx := SZ (if b then 1 else 0).

Definition parse_entry (args : list sx) : sx :=
  match args with
  | [x] =>
      match dec_cst x with
      | Some c =>
          match sy (flat c) with
          | Some r =>
              match build r with
              | Some e =>
                  SL [SZ 0;
                      SL (map (fun i => let '(v, n) := rpn_text i in SL [enc_str v; SZ n]) r);
                      enc_str (code e); enc_str (xflat (translate e));
                      enc_bool (modelled e); enc_bool (expr_eqb e (abs c));
                      enc_bool (pywfb (emit CtxTop e))]
              | None => SL [SZ 1]
              end
          | None => SL [SZ 1]
          end
      | None => bad_args
      end
  | _ => bad_args
  end.

Definition pytree_entry (args : list sx) : sx :=
  match args with
  | [x] =>
      match dec_pycst x with
      | Some t => SL [enc_bool (pywfb t); enc_str (pyflat t); enc_str (xflat (pyabs t))]
      | None => bad_args
      end
  | _ => bad_args
  end.

(* literals: (emit_text of the TEXT token, Python's decoding of it or (1)) *)
Definition text_entry (args : list sx) : sx :=
  match args with
  | [SL v] =>
      match sx_zs v with
      | Some s =>
          let t := emit_text (excel_quote s) in
          SL [enc_str (excel_quote s); enc_str t;
              match py_string_literal t with Some r => SL [SZ 0; enc_str r] | None => SL [SZ 1] end]
      | None => bad_args
      end
  | _ => bad_args
  end.
Definition decint_entry (args : list sx) : sx :=
  match args with
  | [SL v] =>
      match sx_zs v with
      | Some s => match py_decint s with Some z => SL [SZ 0; SZ z] | None => SL [SZ 1] end
      | None => bad_args
      end
  | _ => bad_args
  end.

(* ------------------------------------------------------------ evaluation *)
Fixpoint val_eqb (a b : pyval) : bool :=
  match a, b with
  | VNone, VNone => true
  | VBool x, VBool y => Bool.eqb x y
  | VInt x, VInt y => x =? y
  | VFloat x, VFloat y => Qeq_bool x y
  | VStr x, VStr y => zs_eqb x y
  | VTuple x, VTuple y =>
      (fix go (x y : list pyval) : bool :=
         match x, y with
         | [], [] => true
         | u :: x', v :: y' => val_eqb u v && go x' y'
         | _, _ => false end) x y
  | _, _ => false
  end.
Fixpoint vals_eqb (x y : list pyval) : bool :=
  match x, y with
  | [], [] => true
  | u :: x', v :: y' => val_eqb u v && vals_eqb x' y'
  | _, _ => false
  end.

Definition fentry := (list Z * list pyval * res pyval)%type.

Fixpoint dec_vals (l : list sx) : option (list pyval) :=
  match l with
  | [] => Some []
  | y :: l' => match dec_val y, dec_vals l' with Some v, Some r => Some (v :: r) | _, _ => None end
  end.
Definition exn_of_code (z : Z) : exn :=
  match z with
  | 1 => ValueError | 2 => TypeError | 3 => ZeroDivisionError | 4 => IndexError | 5 => KeyError
  | 6 => AssertionError | 7 => AttributeError | 8 => OverflowError | 9 => NotImplementedError
  | 10 => RecursionError | 11 => StopIteration | 99 => OutOfFuel | _ => Unmodelled
  end.
Definition dec_fres (x : sx) : option (res pyval) :=
  match x with
  | SL [SZ 0; v] => option_map Ok (dec_val v)
  | SL [SZ 1; SZ c] => Some (Raise (exn_of_code c))
  | _ => None
  end.
Fixpoint dec_table (l : list sx) : option (list fentry) :=
  match l with
  | [] => Some []
  | SL [SL n; SL a; r] :: l' =>
      match sx_zs n, dec_vals a, dec_fres r, dec_table l' with
      | Some n, Some a, Some r, Some t => Some ((n, a, r) :: t)
      | _, _, _, _ => None
      end
  | _ => None
  end.
Fixpoint dec_cells (l : list sx) : option (list (list Z * pyval)) :=
  match l with
  | [] => Some []
  | SL [SL n; v] :: l' =>
      match sx_zs n, dec_val v, dec_cells l' with
      | Some n, Some v, Some t => Some ((n, v) :: t)
      | _, _, _ => None
      end
  | _ => None
  end.

Fixpoint tlookup (t : list fentry) (f : list Z) (vs : list pyval) : option (res pyval) :=
  match t with
  | [] => None
  | (n, a, r) :: t' => if zs_eqb n f && vals_eqb a vs then Some r else tlookup t' f vs
  end.
Fixpoint clookup (c : list (list Z * pyval)) (a : list Z) : option pyval :=
  match c with
  | [] => None
  | (n, v) :: c' => if zs_eqb n a then Some v else clookup c' a
  end.

Definition n_C : list Z := zs "_C_".
Definition n_R : list Z := zs "_R_".
(* the harness' cell reader raises KeyError for an unknown address and for
   every range; every other name is a library function given by the table
   (OutOfFuel marks "not in the table yet": the answer is then (4 ...)) *)
Definition mk_env (cells : list (list Z * pyval)) (t : list fentry) : env :=
  {| e_fun := fun f =>
       if zs_eqb f n_C then
         Some (fun vs => match vs with
                         | [VStr a] => match clookup cells a with Some v => Ok v | None => Raise KeyError end
                         | _ => Raise TypeError end)
       else if zs_eqb f n_R then Some (fun _ => Raise KeyError)
       else Some (fun vs => match tlookup t f vs with Some r => r | None => Raise OutOfFuel end);
     e_name := fun _ => None |}.

Definition is_lib (f : list Z) : bool := negb (zs_eqb f n_C || zs_eqb f n_R).

Fixpoint need (E : env) (t : list fentry) (x : pyexpr) : option (list Z * list pyval) :=
  match x with
  | XAtom _ | XOther => None
  | XNeg a => need E t a
  | XBin _ l r => match need E t l with Some n => Some n | None => need E t r end
  | XCall f args =>
      match (fix go (l : list pyexpr) : option (list Z * list pyval) :=
               match l with
               | [] => None
               | a :: l' => match need E t a with Some n => Some n | None => go l' end
               end) args with
      | Some n => Some n
      | None =>
          if is_lib f then
            match mapM (pyeval E) args with
            | Ok vs => match tlookup t f vs with Some _ => None | None => Some (f, vs) end
            | Raise _ => None
            end
          else None
      end
  end.

Definition eval_entry (args : list sx) : sx :=
  match args with
  | [x; SL cells; SL table] =>
      match dec_cst x, dec_cells cells, dec_table table with
      | Some c, Some cells, Some t =>
          match parse (flat c) with
          | Some e =>
              let E := mk_env cells t in
              match need E t (pyabs (emit CtxTop e)) with
              | Some (f, vs) => SL [SZ 4; enc_str f; SL (map enc_val vs)]
              | None => SL [SZ 0; enc_res (py_value E e); enc_res (xl_value E e); enc_bool (evalb e)]
              end
          | None => SL [SZ 1]
          end
      | _, _, _ => bad_args
      end
  | _ => bad_args
  end.

Definition number_entry (args : list sx) : sx :=
  match args with
  | [SL v] =>
      match sx_zs v with
      | Some s =>
          let enc o := match o with Some v => SL [SZ 0; enc_val v] | None => SL [SZ 1] end in
          SL [enc (py_number s); enc (xl_numval s); enc_bool (zeros_ok s)]
      | None => bad_args
      end
  | _ => bad_args
  end.

Open Scope string_scope.
Definition table : list entry :=
  [ E "parse" parse_entry
  ; E "pytree" pytree_entry
  ; E "text" text_entry
  ; E "decint" decint_entry
  ; E "eval" eval_entry
  ; E "number" number_entry
  ].

Definition dispatch (name : list Z) (args : list sx) : sx :=
  match lookup table name with
  | Some f => f args
  | None => SL [SZ 3]
  end.

Extraction Language OCaml.
Extraction "model_C02.ml" dispatch Z.add Z.mul Z.opp Z.div_eucl Z.of_nat Z.ltb Z.eqb.
