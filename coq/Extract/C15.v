(* Extract/C15.v — entry points of the conditional-aggregation model.
   Variadic calls take their criteria arguments as one tuple. *)
From Coq Require Import ZArith List String Extraction ExtrOcamlBasic.
From PV Require Import Lib.Py Extract.Sx Model.Criteria.
From PV Require Gen.excelutil.
Import ListNotations.
Open Scope string_scope.

Definition with_args (f : list pyval -> res pyval) (v : pyval) : res pyval :=
  match v with VTuple l => f l | _ => Raise Unmodelled end.

Definition table : list entry :=
  [ E "countif" (call2 countif)
  ; E "countifs" (call1 (with_args countifs))
  ; E "sumif" (call3 sumif)
  ; E "sumifs" (call2 (fun r a => with_args (sumifs r) a))
  ; E "averageif" (call3 averageif)
  ; E "averageifs" (call2 (fun r a => with_args (averageifs r) a))
  ; E "maxifs" (call2 (fun r a => with_args (maxifs r) a))
  ; E "minifs" (call2 (fun r a => with_args (minifs r) a))
  ; E "handle_ifs" (call1 (with_args (fun a => handle_ifs_val a VNone false)))
  ; E "handle_ifs_op" (call2 (fun a o => with_args (fun l => handle_ifs_val l o true) a))
  ; E "check" (call2 criteria_check)
  ].

Definition dispatch (name : list Z) (args : list sx) : sx :=
  match lookup table name with
  | Some f => f args
  | None => SL [SZ 3]
  end.

Extraction Language OCaml.
Extraction "model_C15.ml" dispatch Z.add Z.mul Z.opp Z.div_eucl Z.of_nat Z.ltb Z.eqb.
