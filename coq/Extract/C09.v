(* Extract/C09.v — run a history of Evaluate/SetValue/Build on a workbook with
   FAILING formulas (Model/Fail.v) given on the wire; answer, per operation,
   whether it raised (and which pycel error), the returned value and the
   snapshot of the cache (built flag and value of every node).

   wire: fhistory (nodes ops)     fspec (nodes failing)      history / spec as in C01
     node = (input? range? deps inp0 stored formula fault)
     fault = (0) none
           | (1 k) unknown function: NameError after the first k precedents are read
           | (2)   plugin function: returns 7, raises while the node is in the failing set
     formula = (0) | (1 cols) | (2 operand) | (3 opcode operand operand)
             | (4 operand) | (5 which operand)
     operand = (0 i) | (1 z) | (2 c1 c2 …)
     op = (0 n) evaluate | (1 a value) set_value | (2 n) build
        | (3 n flag) the plugin function of node n starts (1) / stops (0) raising
     answer per op = (status value snapshot), status 0 returned, 1 UnknownFunction,
                     2 FormulaEvalError; (3) for a flag operation                 *)
From Coq Require Import ZArith List String Extraction ExtrOcamlBasic.
From PV Require Import Lib.Py Extract.Sx Model.Ops Model.Graph Model.GraphExpr Model.Fail.
Import ListNotations.
Open Scope string_scope.

Definition dec_operand (x : sx) : option operand :=
  match x with
  | SL [SZ 0; SZ i] => Some (ORef (Z.to_nat i))
  | SL [SZ 1; SZ z] => Some (OLit z)
  | SL (SZ 2 :: l) => match sx_zs l with Some s => Some (OText s) | None => None end
  | _ => None
  end%Z.

Definition op_of_code (z : Z) : option Ops.op :=
  match z with
  | 0 => Some Add | 1 => Some Sub | 2 => Some Mult | 3 => Some Div | 4 => Some Pow
  | 5 => Some BitAnd | 6 => Some USub | 7 => Some Eq | 8 => Some NotEq
  | 9 => Some Lt | 10 => Some LtE | 11 => Some Gt | 12 => Some GtE
  | _ => None
  end%Z.

Definition dec_formula (x : sx) : option formula :=
  match x with
  | SL [SZ 0] => Some FNone
  | SL [SZ 1; SZ c] => Some (FRange (Z.to_nat c))
  | SL [SZ 2; a] => option_map FRef (dec_operand a)
  | SL [SZ 3; SZ o; a; b] =>
      match op_of_code o, dec_operand a, dec_operand b with
      | Some o, Some a, Some b => Some (FBin o a b) | _, _, _ => None end
  | SL [SZ 4; a] => option_map FNeg (dec_operand a)
  | SL [SZ 5; SZ w; a] => option_map (FAgg (Z.to_nat w)) (dec_operand a)
  | _ => None
  end%Z.

Record nodeinfo := { ni_input : bool; ni_range : bool; ni_deps : list nat;
                     ni_inp0 : pyval; ni_stored : pyval; ni_formula : formula }.

Definition dec_node (x : sx) : option nodeinfo :=
  match x with
  | SL [SZ i; SZ r; SL ds; v0; st; fm] =>
      match sx_zs ds, dec_val v0, dec_val st, dec_formula fm with
      | Some ds, Some v0, Some st, Some fm =>
          Some {| ni_input := negb (i =? 0)%Z; ni_range := negb (r =? 0)%Z;
                  ni_deps := map Z.to_nat ds; ni_inp0 := v0; ni_stored := st; ni_formula := fm |}
      | _, _, _, _ => None
      end
  | _ => None
  end.

Fixpoint dec_list {A} (f : sx -> option A) (l : list sx) : option (list A) :=
  match l with
  | [] => Some []
  | x :: l' => match f x, dec_list f l' with
               | Some a, Some r => Some (a :: r) | _, _ => None end
  end.

Definition dflt : nodeinfo :=
  {| ni_input := true; ni_range := false; ni_deps := []; ni_inp0 := VNone;
     ni_stored := VNone; ni_formula := FNone |}.

Definition mk_wb (nodes : list nodeinfo) : workbook :=
  {| wb_n := List.length nodes;
     wb_input := fun n => ni_input (nth n nodes dflt);
     wb_deps := fun n => ni_deps (nth n nodes dflt);
     wb_range := fun n => ni_range (nth n nodes dflt);
     wb_inp0 := fun n => ni_inp0 (nth n nodes dflt);
     wb_stored := fun n => ni_stored (nth n nodes dflt) |}.

Definition mk_sem (nodes : list nodeinfo) (n : nat) (vals : list pyval) : pyval :=
  sem_formula (ni_formula (nth n nodes dflt)) vals.

Definition dec_op (x : sx) : option gop :=
  match x with
  | SL [SZ 0; SZ n] => Some (Evaluate (Z.to_nat n))
  | SL [SZ 1; SZ a; v] => option_map (SetValue (Z.to_nat a)) (dec_val v)
  | SL [SZ 2; SZ n] => Some (Build (Z.to_nat n))
  | _ => None
  end%Z.

Definition snapshot (W : workbook) (s : state) : sx :=
  SL (map (fun n => SL [SZ (if st_built s n then 1 else 0)%Z; enc_val (st_cache s n)])
          (seq 0 (wb_n W))).

Fixpoint run_trace (W : workbook) (sem : nat -> list pyval -> pyval) (s : state) (h : list gop)
  : list sx :=
  match h with
  | [] => []
  | o :: h' =>
      let '(s1, v) := step W sem s o in
      SL [enc_val v; snapshot W s1] :: run_trace W sem s1 h'
  end.

Definition history_entry (args : list sx) : sx :=
  match args with
  | [SL nodes; SL ops] =>
      match dec_list dec_node nodes, dec_list dec_op ops with
      | Some ns, Some os =>
          let W := mk_wb ns in
          SL (run_trace W (mk_sem ns) (init W) os)
      | _, _ => bad_args
      end
  | _ => bad_args
  end.

(* from-scratch values of every node under the workbook's inputs (the specification) *)
Definition spec_entry (args : list sx) : sx :=
  match args with
  | [SL nodes] =>
      match dec_list dec_node nodes with
      | Some ns =>
          let W := mk_wb ns in
          SL (map (fun n => enc_val (spec W (mk_sem ns) (wb_inp0 W) n)) (seq 0 (wb_n W)))
      | None => bad_args
      end
  | _ => bad_args
  end.

(* ------------------------------------------------------------ C09: faults *)
Inductive fault := NoFault | Unknown (k : nat) | Plugin.

Definition dec_fault (x : sx) : option fault :=
  match x with
  | SL [SZ 0] => Some NoFault
  | SL [SZ 1; SZ k] => Some (Unknown (Z.to_nat k))
  | SL [SZ 2] => Some Plugin
  | _ => None
  end%Z.

Definition dec_fnode (x : sx) : option (nodeinfo * fault) :=
  match x with
  | SL [i; r; ds; v0; st; fm; ft] =>
      match dec_node (SL [i; r; ds; v0; st; fm]), dec_fault ft with
      | Some ni, Some f => Some (ni, f)
      | _, _ => None
      end
  | _ => None
  end.

Definition fault_of (fs : list fault) (n : nat) : fault := nth n fs NoFault.

Definition mk_fpre (fs : list fault) (n : nat) : option nat :=
  match fault_of fs n with Unknown k => Some k | _ => None end.

(* the plugin function returns 7 (harness/props/c09.py) unless it is raising *)
Definition mk_fsem (ns : list nodeinfo) (fs : list fault) (failing : nat -> bool)
           (n : nat) (vals : list pyval) : option pyval :=
  match fault_of fs n with
  | Plugin => if failing n then None else Some (VInt 7)
  | _ => Some (mk_sem ns n vals)
  end.

Inductive fop := Op (o : gop) | Flag (n : nat) (b : bool).

Definition dec_fop (x : sx) : option fop :=
  match x with
  | SL [SZ 3; SZ n; SZ b] => Some (Flag (Z.to_nat n) (negb (b =? 0)%Z))
  | _ => option_map Op (dec_op x)
  end%Z.

Definition enc_fres (r : fres) : list sx :=
  match r with
  | FVal v => [SZ 0; enc_val v]
  | FRaise EUnknown => [SZ 1; enc_val VNone]
  | FRaise EFormula => [SZ 2; enc_val VNone]
  end%Z.

Fixpoint frun_trace (W : workbook) (ns : list nodeinfo) (fs : list fault)
         (failing : nat -> bool) (s : state) (h : list fop) : list sx :=
  match h with
  | [] => []
  | Flag n b :: h' =>
      SL [SZ 3] :: frun_trace W ns fs (fun m => if Nat.eqb m n then b else failing m) s h'
  | Op o :: h' =>
      let '(s1, r) := step_f W (mk_fsem ns fs failing) (mk_fpre fs) (gen_order W) s o in
      SL (enc_fres r ++ [snapshot W s1]) :: frun_trace W ns fs failing s1 h'
  end.

Definition fhistory_entry (args : list sx) : sx :=
  match args with
  | [SL nodes; SL ops] =>
      match dec_list dec_fnode nodes, dec_list dec_fop ops with
      | Some nfs, Some os =>
          let ns := map fst nfs in
          let W := mk_wb ns in
          SL (frun_trace W ns (map snd nfs) (fun _ => false) (init W) os)
      | _, _ => bad_args
      end
  | _ => bad_args
  end.

(* from-scratch outcome of every node under the workbook's inputs, the plugin
   nodes listed in [failing] raising *)
Definition fspec_entry (args : list sx) : sx :=
  match args with
  | [SL nodes; SL failing] =>
      match dec_list dec_fnode nodes, sx_zs failing with
      | Some nfs, Some fl =>
          let ns := map fst nfs in
          let fs := map snd nfs in
          let W := mk_wb ns in
          let failing n := existsb (fun z => Nat.eqb (Z.to_nat z) n) fl in
          SL (map (fun n => SL (enc_fres (fspec W (mk_fsem ns fs failing) (mk_fpre fs) (wb_inp0 W) n)))
                  (seq 0 (wb_n W)))
      | _, _ => bad_args
      end
  | _ => bad_args
  end.

Definition table : list entry :=
  [ E "history" history_entry; E "spec" spec_entry;
    E "fhistory" fhistory_entry; E "fspec" fspec_entry ].

Definition dispatch (name : list Z) (args : list sx) : sx :=
  match lookup table name with
  | Some f => f args
  | None => SL [SZ 3]
  end.

Extraction Language OCaml.
Extraction "model_C09.ml" dispatch Z.add Z.mul Z.opp Z.div_eucl Z.of_nat Z.ltb Z.eqb.
