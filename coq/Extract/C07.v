(* Extract/C07.v — entry point of the thread model: two threads, each with one
   operation on its own compiler, run under a given schedule with thread-local
   (shared = 0) or one shared (shared = 1) namespace.
   sched(cellsA, cellsB, kindA, kindB, (tid...), shared) -> (outcomeA outcomeB),
   outcome = (phase result passes calls (fit...)). *)
From Coq Require Import ZArith QArith List String Extraction ExtrOcamlBasic.
From PV Require Import Lib.Py Extract.Sx Model.Iter Model.Threads.
From PV Require Extract.C06.
Import ListNotations.
Open Scope string_scope.

Definition dec_kind (x : sx) : option kind :=
  match x with
  | SL [SZ 0; SZ t; SZ it; q] =>
      match C06.dec_q q with Some tolv => Some (KEval (Z.to_nat t) it tolv) | None => None end
  | SL [SZ 1; SZ c; v] =>
      match C06.dec_v v with Some v => Some (KSet (Z.to_nat c) v) | None => None end
  | SL [SZ 2; SZ s] => Some (KBuild (Z.to_nat s))
  | _ => None
  end%Z.

Definition enc_phase (p : phase) : sx :=
  match p with
  | PInit => SL [SZ 0] | PCall j => SL [SZ 1; SZ (Z.of_nat j)] | PDone => SL [SZ 2]
  | PFail e => SL [SZ 3; SZ (exn_code e)] | PMissing => SL [SZ 4]
  end%Z.
Definition enc_cref (c : cref) : sx :=
  match c with CFalse => SZ 0 | CNone => SZ 1 | CAddr _ _ => SZ 2 end%Z.
Definition enc_mach (m : mach) : sx :=
  SL [enc_phase (m_phase m); C06.enc_v (m_res m); SZ (m_passes m); SZ (Z.of_nat (m_calls m));
      SL (map enc_cref (m_fit m))].

Definition sched_entry (args : list sx) : sx :=
  match args with
  | [SL ca; SL cb; ka; kb; SL sc; SZ shared] =>
      match C06.dec_list C06.dec_cell ca, C06.dec_list C06.dec_cell cb, dec_kind ka, dec_kind kb,
            C06.dec_list C06.dec_nat sc with
      | Some ca, Some cb, Some ka, Some kb, Some sc =>
          let wa := {| w_cells := ca; w_ranges := [] |} in
          let wb := {| w_cells := cb; w_ranges := [] |} in
          let cf := {| c_wb := fun t => match t with O => wa | _ => wb end;
                       c_comp := fun t => t;
                       c_ns := fun t => if (shared =? 0)%Z then t else O |} in
          let G := {| g_m := fun t => start (match t with O => ka | _ => kb end);
                      g_ns := fun _ => absent;
                      g_k := fun t => init_comp (match t with O => wa | _ => wb end) |} in
          let G' := run cf sc G in
          SL [enc_mach (g_m G' 0%nat); enc_mach (g_m G' 1%nat)]
      | _, _, _, _, _ => bad_args
      end
  | _ => bad_args
  end.

(* any number of threads: schedn((cells_0 ...), (kind_0 ...), (tid ...), shared) -> (outcome_0 ...);
   thread i runs kind_i on its own compiler i (workbook cells_i) *)
Definition dec_cells (x : sx) : option (list cellspec) :=
  match x with SL ca => C06.dec_list C06.dec_cell ca | _ => None end.
Definition schedn_entry (args : list sx) : sx :=
  match args with
  | [SL cs; SL ks; SL sc; SZ shared] =>
      match C06.dec_list dec_cells cs, C06.dec_list dec_kind ks, C06.dec_list C06.dec_nat sc with
      | Some cs, Some ks, Some sc =>
          let wbs := map (fun c => {| w_cells := c; w_ranges := [] |}) cs in
          let wb0 := {| w_cells := []; w_ranges := [] |} in
          let cf := {| c_wb := fun t => nth t wbs wb0;
                       c_comp := fun t => t;
                       c_ns := fun t => if (shared =? 0)%Z then t else O |} in
          let G := {| g_m := fun t => start (nth t ks (KBuild 0));
                      g_ns := fun _ => absent;
                      g_k := fun t => init_comp (nth t wbs wb0) |} in
          let G' := run cf sc G in
          SL (map (fun t => enc_mach (g_m G' t)) (seq 0 (List.length ks)))
      | _, _, _ => bad_args
      end
  | _ => bad_args
  end.

Definition table : list entry := [ E "sched" sched_entry; E "schedn" schedn_entry ].

Definition dispatch (name : list Z) (args : list sx) : sx :=
  match lookup table name with
  | Some f => f args
  | None => SL [SZ 3]
  end.

Extraction Language OCaml.
Extraction "model_C07.ml" dispatch Z.add Z.mul Z.opp Z.div_eucl Z.of_nat Z.ltb Z.eqb.
