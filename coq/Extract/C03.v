(* Extract/C03.v — entry points for C03: the persisted model of Model/Persist.v
   on the concrete formula language of Model/GraphExpr.v.

   wire (workbooks, values and operations as in Extract/C01.v):
     history (nodes ops), spec (nodes)            the C01 entries
     persist (nodes codes keys order pre settings post)
       codes    = per node the python code text of its formula ((…code points…); () for non-formulas)
       keys     = per node its sort key
       order    = key order of the cell map when the model is saved (node indices)
       pre      = operations that bring init to the state that is saved
       settings = (cycles filename hash extra), extra = (0) None | (1 ((key value) …))
       post     = the post-load history
     answer = (doc trace_original loaded doc-of-a-second-save-of-the-same-object)
       doc    = ((key (0 value) | (1 ((n value) …))) …) in key order
       trace  = ((value snapshot) …) as in the history entry
       loaded = (0 exn-code)
              | (1 (cycles filename hash) snapshot trace doc-of-a-save-of-the-loaded-model keys-of-extra_data) *)
From Coq Require Import ZArith List Bool String Extraction ExtrOcamlBasic.
From PV Require Import Lib.Py Extract.Sx Model.Ops Model.Graph Model.GraphExpr Model.Persist.
From PV Require Import Extract.C01.
Import ListNotations.
Open Scope string_scope.
Open Scope bool_scope.

Definition dec_str (x : sx) : option (list Z) :=
  match x with SL l => sx_zs l | _ => None end.
Definition dec_nat (x : sx) : option nat :=
  match x with SZ z => Some (Z.to_nat z) | _ => None end.

Definition dec_extra (x : sx) : option (option file) :=
  match x with
  | SL [SZ 0] => Some None
  | SL [SZ 1; SL l] =>
      option_map Some
        (dec_list (fun kv => match kv with
                             | SL [k; v] => match dec_str k, dec_val v with
                                            | Some k, Some v => Some (k, TV v) | _, _ => None end
                             | _ => None end) l)
  | _ => None
  end%Z.

Definition enc_doc (f : file) : sx :=
  SL (map (fun kv => SL [SL (map SZ (fst kv));
                         match snd kv with
                         | TV v => SL [SZ 0; enc_val v]
                         | TCells l => SL [SZ 1; SL (map (fun x => SL [SZ (Z.of_nat (fst x)); enc_val (snd x)]) l)]
                         end]) f).

Section Concrete.
  Variable nodes : list nodeinfo.
  Variable codes : list (list Z).
  Variable keys : list nat.

  Definition W0 : workbook := mk_wb nodes.
  Definition code0 (n : nat) : list Z := nth n codes [].
  Definition geo : geometry :=
    {| g_n := wb_n W0; g_range := wb_range W0;
       g_members := fun n => if wb_range W0 n then wb_deps W0 n else [];
       g_key := fun n => nth n keys 0%nat |}.
  (* ExcelFormula(python code): the formula node of the workbook that carries this code *)
  Definition find_code (t : list Z) : option nodeinfo :=
    match find (fun n => negb (wb_input W0 n) && negb (wb_range W0 n) && str_eqb (code0 n) t)
               (seq 0 (wb_n W0)) with
    | Some n => Some (nth n nodes dflt)
    | None => None
    end.
  Definition cdeps0 (t : list Z) : list nat :=
    match find_code t with Some ni => ni_deps ni | None => [] end.
  Definition csem0 (t : list Z) (vals : list pyval) : pyval :=
    match find_code t with Some ni => sem_formula (ni_formula ni) vals | None => raised end.
  Definition rsem0 (n : nat) (vals : list pyval) : pyval :=
    sem_formula (ni_formula (nth n nodes dflt)) vals.
End Concrete.

Definition persist_entry (args : list sx) : sx :=
  match args with
  | [SL nodes; SL codes; SL keys; SL order; SL pre; SL [cy; fn; hs; ex]; SL post] =>
      match dec_list dec_node nodes, dec_list dec_str codes, dec_list dec_nat keys,
            dec_list dec_nat order, dec_list dec_op pre, dec_list dec_op post with
      | Some ns, Some cs, Some ks, Some ord, Some pre, Some post =>
          match dec_val cy, dec_val fn, dec_val hs, dec_extra ex with
          | Some cy, Some fn, Some hs, Some ex =>
              let W := W0 ns in
              let G := geo ns ks in
              let cd := cdeps0 ns cs in let cse := csem0 ns cs in let rs := rsem0 ns in
              let sem := sem_of cse rs (wb_range W) (code0 cs) in
              let M := {| pm_wb := W; pm_code := code0 cs;
                          pm_state := fst (run W sem (init W) pre);
                          pm_order := ord; pm_cycles := cy; pm_filename := fn; pm_hash := hs;
                          pm_extra := ex |} in
              let doc := fst (to_text G M) in
              SL [ enc_doc doc;
                   SL (run_trace W (pm_sem cse rs M) (pm_state M) post);
                   match from_text G cd cse rs doc with
                   | Ok M' =>
                       SL [SZ 1; SL [enc_val (pm_cycles M'); enc_val (pm_filename M'); enc_val (pm_hash M')];
                           snapshot (pm_wb M') (pm_state M');
                           SL (run_trace (pm_wb M') (pm_sem cse rs M') (pm_state M') post);
                           enc_doc (fst (to_text G M'));
                           SL (map (fun kv => SL (map SZ (fst kv)))
                                   (match pm_extra M' with Some d => d | None => [] end))]
                   | Raise e => SL [SZ 0; SZ (exn_code e)]
                   end;
                   enc_doc (fst (to_text G (snd (to_text G M)))) ]
          | _, _, _, _ => bad_args
          end
      | _, _, _, _, _, _ => bad_args
      end
  | _ => bad_args
  end%Z.

Definition table : list entry :=
  [ E "history" history_entry; E "spec" spec_entry; E "persist" persist_entry ].

Definition dispatch (name : list Z) (args : list sx) : sx :=
  match Sx.lookup table name with
  | Some f => f args
  | None => SL [SZ 3]
  end.

Extraction Language OCaml.
Extraction "model_C03.ml" dispatch Z.add Z.mul Z.opp Z.div_eucl Z.of_nat Z.ltb Z.eqb.
