(* Extract/C18.v — entry points of the radix model for the harness. *)
From Coq Require Import ZArith List String Extraction ExtrOcamlBasic.
From PV Require Import Lib.Py Extract.Sx.
From PV Require Gen.excelutil Gen.engineering.
Import ListNotations.
Open Scope string_scope.

Definition table : list entry :=
  [ E "bin2dec" (call1 engineering.f_bin2dec)
  ; E "oct2dec" (call1 engineering.f_oct2dec)
  ; E "hex2dec" (call1 engineering.f_hex2dec)
  ; E "dec2bin" (call2 engineering.f_dec2bin)
  ; E "dec2oct" (call2 engineering.f_dec2oct)
  ; E "dec2hex" (call2 engineering.f_dec2hex)
  ; E "bin2oct" (call2 engineering.f_bin2oct)
  ; E "bin2hex" (call2 engineering.f_bin2hex)
  ; E "oct2bin" (call2 engineering.f_oct2bin)
  ; E "oct2hex" (call2 engineering.f_oct2hex)
  ; E "hex2bin" (call2 engineering.f_hex2bin)
  ; E "hex2oct" (call2 engineering.f_hex2oct)
  ].

Definition dispatch (name : list Z) (args : list sx) : sx :=
  match lookup table name with
  | Some f => f args
  | None => SL [SZ 3]
  end.

Extraction Language OCaml.
Extraction "model_C18.ml" dispatch Z.add Z.mul Z.opp Z.div_eucl Z.of_nat Z.ltb Z.eqb.
