(* Extract/C13.v — entry points of the array (CSE) models. *)
From Coq Require Import ZArith List String Extraction ExtrOcamlBasic.
From PV Require Import Lib.Py Extract.Sx Model.Ops Model.Arrays Model.CseCells.
From PV Require Gen.excelutil Gen.arrayfit.
Import ListNotations.
Open Scope string_scope.

Definition op_of_code (z : Z) : option op :=
  match z with
  | 0 => Some Add | 1 => Some Sub | 2 => Some Mult | 3 => Some Div | 4 => Some Pow
  | 5 => Some BitAnd | 6 => Some USub | 7 => Some Eq | 8 => Some NotEq
  | 9 => Some Lt | 10 => Some LtE | 11 => Some Gt | 12 => Some GtE
  | _ => None
  end%Z.

Definition op_entry (g : pyval -> op -> pyval -> res pyval) (args : list sx) : sx :=
  match args with
  | [a; SZ o; b] =>
      match dec_val a, op_of_code o, dec_val b with
      | Some l, Some o, Some r => enc_res (g l o r)
      | _, _, _ => bad_args
      end
  | _ => bad_args
  end.

(* cse_wrapper with the probe function that returns its argument tuple; the parameter indices
   come as a list of integers, [-1] = all parameters *)
Definition idx_of (l : list sx) : nat -> bool :=
  fun i => existsb (fun s => match s with
                             | SZ z => orb (z =? -1)%Z (z =? Z.of_nat i)%Z
                             | _ => false end) l.

Definition cse_probe_entry (args : list sx) : sx :=
  match args with
  | [SL idx; a] =>
      match dec_val a with
      | Some (VTuple l) => enc_res (cse_wrapper (fun xs => Ok (VTuple xs)) (idx_of idx) l)
      | _ => bad_args
      end
  | _ => bad_args
  end.

(* every member cell of a CSE range of size h x w whose formula returns [result] *)
Definition cse_members_entry (args : list sx) : sx :=
  match args with
  | [SZ h; SZ w; a] =>
      match dec_val a with
      | Some v => enc_res (target_cells h w v)
      | None => bad_args
      end
  | _ => bad_args
  end.

(* _evaluate_range of a CSE range of size h x w *)
Definition range_value_entry (args : list sx) : sx :=
  match args with
  | [SZ h; SZ w; a] =>
      match dec_val a with
      | Some v => enc_res (cse_range_value h w v)
      | None => bad_args
      end
  | _ => bad_args
  end.

(* the sheet side: [row; col; i; j; h; w; start_col; start_row; end_col; end_row] per member *)
Definition load_members_entry (args : list sx) : sx :=
  match args with
  | [SZ r0; SZ c0; SZ h; SZ w] =>
      enc_res (Ok (VTuple (map (fun m =>
        let '((row, col), s) := m in
        let '(i, j, hh, ww) := s in
        let '(sc, sr, ec, er) := member_range row col s in
        VTuple (map VInt [row; col; i; j; hh; ww; sc; sr; ec; er]))
        (load_members r0 c0 h w))))
  | _ => bad_args
  end.

(* range_formula: rows of cells, a cell = [] (anything else) or [text; i; j; h; w];
   answer: (True, text) or (False,) *)
Definition dec_cell (c : sx) : option sheet_cell :=
  match c with
  | SL [] => Some Other
  | SL [t; SZ i; SZ j; SZ h; SZ w] =>
      match dec_val t with Some (VStr f) => Some (Member f (i, j, h, w)) | _ => None end
  | _ => None
  end.
Fixpoint dec_all {A} (d : sx -> option A) (l : list sx) : option (list A) :=
  match l with
  | [] => Some []
  | x :: l' => match d x, dec_all d l' with Some a, Some r => Some (a :: r) | _, _ => None end
  end.
Definition range_formula_entry (args : list sx) : sx :=
  match args with
  | [SL rows] =>
      match dec_all (fun r => match r with SL cs => dec_all dec_cell cs | _ => None end) rows with
      | Some cells =>
          enc_res (Ok match range_formula cells with
                      | Some f => VTuple [VBool true; VStr f]
                      | None => VTuple [VBool false]
                      end)
      | None => bad_args
      end
  | _ => bad_args
  end.

(* any range of a sheet: [[r0; c0; h; w; text; result] …] = the array formulas (reference
   range, text, what the formula's code returns), then the range r0 c0 nr nc; every other
   cell is empty *)
Definition dec_af (x : sx) : option (array_formula * pyval) :=
  match x with
  | SL [SZ r0; SZ c0; SZ h; SZ w; t; r] =>
      match dec_val t, dec_val r with
      | Some (VStr f), Some v =>
          Some ({| af_r0 := r0; af_c0 := c0; af_h := h; af_w := w; af_text := f |}, v)
      | _, _ => None
      end
  | _ => None
  end.
Definition sheet_range_entry (args : list sx) : sx :=
  match args with
  | [SL afs; SZ r0; SZ c0; SZ nr; SZ nc] =>
      match dec_all dec_af afs with
      | Some l =>
          let fv := fun t => match find (fun p => str_eqb (af_text (fst p)) t) l with
                             | Some p => snd p | None => VNone end in
          enc_res (sheet_range_value (sheet_of (map fst l)) fv (fun _ _ => VNone)
                                     r0 c0 (Z.to_nat nr) (Z.to_nat nc))
      | None => bad_args
      end
  | _ => bad_args
  end.

Definition table : list entry :=
  [ E "op_fixup" (op_entry op_fixup)
  ; E "array_fixup" (op_entry array_fixup)
  ; E "fit_to_range" (call2 arrayfit.f__ArrayFormulaContext_fit_to_range)
  ; E "cse_probe" cse_probe_entry
  ; E "target_cells" cse_members_entry
  ; E "load_members" load_members_entry
  ; E "range_formula" range_formula_entry
  ; E "range_value" range_value_entry
  ; E "sheet_range_value" sheet_range_entry
  ].

Definition dispatch (name : list Z) (args : list sx) : sx :=
  match lookup table name with
  | Some f => f args
  | None => SL [SZ 3]
  end.

Extraction Language OCaml.
Extraction "model_C13.ml" dispatch Z.add Z.mul Z.opp Z.div_eucl Z.of_nat Z.ltb Z.eqb.
