(* Extract/C10.v — entry points of the operator model. *)
From Coq Require Import ZArith List String Extraction ExtrOcamlBasic.
From PV Require Import Lib.Py Extract.Sx Model.Ops.
From PV Require Gen.excelutil.
Import ListNotations.
Open Scope string_scope.

Definition op_of_code (z : Z) : option op :=
  match z with
  | 0 => Some Add | 1 => Some Sub | 2 => Some Mult | 3 => Some Div | 4 => Some Pow
  | 5 => Some BitAnd | 6 => Some USub | 7 => Some Eq | 8 => Some NotEq
  | 9 => Some Lt | 10 => Some LtE | 11 => Some Gt | 12 => Some GtE
  | _ => None
  end%Z.

Definition fixup_entry (args : list sx) : sx :=
  match args with
  | [a; SZ o; b] =>
      match dec_val a, op_of_code o, dec_val b with
      | Some l, Some o, Some r => enc_res (fixup l o r)
      | _, _, _ => bad_args
      end
  | _ => bad_args
  end.

Definition table : list entry :=
  [ E "fixup" fixup_entry
  ; E "coerce_to_number" (call2 (excelutil.f_coerce_to_number py_fuel))
  ; E "coerce_to_string" (call1 excelutil.f_coerce_to_string)
  ; E "is_number" (call1 excelutil.f_is_number)
  ; E "type_cmp_value" (call1 excelutil.f_type_cmp_value)
  ; E "list_like" (call1 excelutil.f_list_like)
  ; E "is_array_arg" (call1 excelutil.f_is_array_arg)
  ].

Definition dispatch (name : list Z) (args : list sx) : sx :=
  match lookup table name with
  | Some f => f args
  | None => SL [SZ 3]
  end.

Extraction Language OCaml.
Extraction "model_C10.ml" dispatch Z.add Z.mul Z.opp Z.div_eucl Z.of_nat Z.ltb Z.eqb.
