(* Extract/C16.v — entry points of the lookup model for the harness.  The X_
   entries take the argument list of the Excel call (optional arguments are
   simply absent); _match and bisect are exposed for direct comparison. *)
From Coq Require Import ZArith List String Extraction ExtrOcamlBasic.
From PV Require Import Lib.Py Extract.Sx.
From PV Require Gen.excelutil Gen.lookup.
From PV Require Import Model.LookupCore Model.Lookup.
Import ListNotations.
Open Scope string_scope.

Fixpoint dec_args (l : list sx) : option (list pyval) :=
  match l with
  | [] => Some []
  | a :: l' => match dec_val a, dec_args l' with
               | Some v, Some r => Some (v :: r)
               | _, _ => None
               end
  end.
Definition callL (f : list pyval -> res pyval) (args : list sx) : sx :=
  match dec_args args with Some l => enc_res (f l) | None => bad_args end.

(* bisect_right(a, ExcelCmp(x), lo, hi) *)
Definition bisect_entry (args : list pyval) : res pyval :=
  match args with
  | [arr; v; VInt lo; VInt hi] =>
      bind (seq_items arr) (fun a => bind (lv_key v) (fun x =>
      bind (bisect_right (x_lt_cell x) a lo hi) (fun r => Ok (VInt r))))
  | _ => Raise TypeError
  end.

Definition table : list entry :=
  [ E "match" (callL X_match)
  ; E "vlookup" (callL X_vlookup)
  ; E "hlookup" (callL X_hlookup)
  ; E "lookup" (callL X_lookup)
  ; E "index" (callL X_index)
  ; E "_match" (call3 match_)
  ; E "bisect" (callL bisect_entry)
  ].

Definition dispatch (name : list Z) (args : list sx) : sx :=
  match lookup table name with
  | Some f => f args
  | None => SL [SZ 3]
  end.

Extraction Language OCaml.
Extraction "model_C16.ml" dispatch Z.add Z.mul Z.opp Z.div_eucl Z.of_nat Z.ltb Z.eqb.
