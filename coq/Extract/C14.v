(* Extract/C14.v — entry points of the aggregate models: the generated
   _numerics / sum_ / average / count / max_ / min_, the hand-written
   sumproduct and SUBTOTAL dispatch (Model/Aggregates.v), and the generated
   SUBTOTAL_FUNCS table itself. *)
From Coq Require Import ZArith List String Extraction ExtrOcamlBasic.
From PV Require Import Lib.Py Extract.Sx Model.Aggregates.
From PV Require Gen.excelutil Gen.aggregates Gen.stats Gen.excelformula.
Import ListNotations.
Open Scope string_scope.

Definition table_entry (args : list sx) : sx :=
  match args with
  | [] => enc_res (Ok subtotal_table)
  | _ => bad_args
  end.

Definition table : list entry :=
  [ E "_numerics" (call2 aggregates.f__numerics)
  ; E "sum_" (call1 aggregates.f_sum_)
  ; E "average" (call1 stats.f_average)
  ; E "count" (call1 stats.f_count)
  ; E "max_" (call1 stats.f_max_)
  ; E "min_" (call1 stats.f_min_)
  ; E "sumproduct" (call1 sumproduct)
  ; E "subtotal_name" (call1 subtotal_name)
  ; E "subtotal" (call2 subtotal)
  ; E "subtotal_table" table_entry
  ].

Definition dispatch (name : list Z) (args : list sx) : sx :=
  match lookup table name with
  | Some f => f args
  | None => SL [SZ 3]
  end.

Extraction Language OCaml.
Extraction "model_C14.ml" dispatch Z.add Z.mul Z.opp Z.div_eucl Z.of_nat Z.ltb Z.eqb.
