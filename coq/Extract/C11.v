(* Extract/C11.v — entry points of the address model for the harness.
   Addresses travel as tuples: a cell is (sheet, col, row), a range is
   (sheet, c1, r1, c2, r2), an error value is its text.  Results carry the
   printed address too: (address, sheet, col, row) / (address, sheet, c1, r1, c2, r2). *)
From Coq Require Import ZArith List String Extraction ExtrOcamlBasic.
From PV Require Import Lib.Py Extract.Sx Model.Addr.
Import ListNotations.
Open Scope Z_scope.

Definition bad : res pyval := Ok (VStr [66; 65; 68; 65; 82; 71; 83]).   (* "BADARGS" *)

Definition aval_of_py (v : pyval) : option aval :=
  match v with
  | VTuple [VStr s; VInt c; VInt r] => Some (VA (ACell s c r))
  | VTuple [VStr s; VInt c1; VInt r1; VInt c2; VInt r2] => Some (VA (ARange s c1 r1 c2 r2))
  | VStr e => Some (VE e)
  | _ => None
  end.
Definition addr_of_py (v : pyval) : option addr :=
  match aval_of_py v with Some (VA a) => Some a | _ => None end.
Definition py_of_addr (a : addr) : pyval :=
  match a with
  | ACell s c r => VTuple [VStr (address a); VStr s; VInt c; VInt r]
  | ARange s c1 r1 c2 r2 => VTuple [VStr (address a); VStr s; VInt c1; VInt r1; VInt c2; VInt r2]
  end.
Definition py_of_aval (v : aval) : pyval :=
  match v with VA a => py_of_addr a | VE e => VStr e end.
Definition cell_of_py (v : pyval) : option (option (Z * Z)) :=
  match v with
  | VNone => Some None
  | VTuple [VInt r; VInt c] => Some (Some (r, c))
  | _ => None
  end.

Definition e_col_letter (v : pyval) : res pyval :=
  match v with VInt n => s <- get_column_letter n ;; Ok (VStr s) | _ => bad end.
Definition e_col_index (v : pyval) : res pyval :=
  match v with VStr s => n <- column_index_from_string s ;; Ok (VInt n) | _ => bad end.
Definition e_create (t sh cell : pyval) : res pyval :=
  match t, sh, cell_of_py cell with
  | VStr t, VStr sh, Some c => v <- create t sh c ;; Ok (py_of_aval v)
  | _, _, _ => bad
  end.
Definition e_create_cell (t sh cell : pyval) : res pyval :=
  match t, sh, cell_of_py cell with
  | VStr t, VStr sh, Some c => v <- create_cell t sh c ;; Ok (py_of_aval v)
  | _, _, _ => bad
  end.
Definition e_prints (a : pyval) : res pyval :=
  match addr_of_py a with
  | Some a => q <- quoted_address a ;; b <- abs_address a ;;
              Ok (VTuple [VStr (address a); VStr q; VStr b;
                          VStr (coordinate a); VStr (abs_coordinate a)])
  | None => bad
  end.
Definition e_size (a : pyval) : res pyval :=
  match addr_of_py a with
  | Some a => Ok (VTuple [VInt (height a); VInt (width a)])
  | None => bad
  end.
Definition e_contains (a x : pyval) : res pyval :=
  match addr_of_py a, addr_of_py x with
  | Some a, Some x => b <- contains a x ;; Ok (VBool b)
  | _, _ => bad
  end.
Definition e_resolve (a : pyval) : res pyval :=
  match addr_of_py a with
  | Some a => rows <- resolve_range a ;;
              Ok (VTuple (map (fun row => VTuple (map py_of_addr row)) rows))
  | None => bad
  end.
Definition e_bin (op : aval -> aval -> res aval) (a b : pyval) : res pyval :=
  match aval_of_py a, aval_of_py b with
  | Some a, Some b => v <- op a b ;; Ok (py_of_aval v)
  | _, _ => bad
  end.
Definition e_left (op : aval -> aval -> res aval) (a b c : pyval) : res pyval :=
  match aval_of_py a, aval_of_py b, aval_of_py c with
  | Some a, Some b, Some c => x <- op a b ;; v <- op x c ;; Ok (py_of_aval v)
  | _, _, _ => bad
  end.
Definition e_right (op : aval -> aval -> res aval) (a b c : pyval) : res pyval :=
  match aval_of_py a, aval_of_py b, aval_of_py c with
  | Some a, Some b, Some c => x <- op b c ;; v <- op a x ;; Ok (py_of_aval v)
  | _, _, _ => bad
  end.
Definition e_offset (a dr dc : pyval) : res pyval :=
  match addr_of_py a, dr, dc with
  | Some a, VInt dr, VInt dc => v <- address_at_offset a dr dc ;; Ok (py_of_addr v)
  | _, _, _ => bad
  end.
Definition e_inc (f : Z -> Z -> Z) (a k : pyval) : res pyval :=
  match a, k with VInt a, VInt k => Ok (VInt (f a k)) | _, _ => bad end.
Definition e_str1 (f : str -> str) (s : pyval) : res pyval :=
  match s with VStr s => Ok (VStr (f s)) | _ => bad end.
Definition e_quote_sheet (s : pyval) : res pyval :=
  match s with VStr s => q <- quote_sheet s ;; Ok (VStr q) | _ => bad end.
Definition e_split (t sh : pyval) : res pyval :=
  match t, sh with
  | VStr t, VStr sh => p <- split_sheetname t sh ;; Ok (VTuple [VStr (fst p); VStr (snd p)])
  | _, _ => bad
  end.

Open Scope string_scope.
Definition table : list entry :=
  [ E "col_letter" (call1 e_col_letter)
  ; E "col_index" (call1 e_col_index)
  ; E "create" (call3 e_create)
  ; E "create_cell" (call3 e_create_cell)
  ; E "prints" (call1 e_prints)
  ; E "size" (call1 e_size)
  ; E "contains" (call2 e_contains)
  ; E "resolve" (call1 e_resolve)
  ; E "union" (call2 (e_bin op_union))
  ; E "inter" (call2 (e_bin op_inter))
  ; E "union_l" (call3 (e_left op_union))
  ; E "union_r" (call3 (e_right op_union))
  ; E "inter_l" (call3 (e_left op_inter))
  ; E "inter_r" (call3 (e_right op_inter))
  ; E "offset" (call3 e_offset)
  ; E "inc_col" (call2 (e_inc inc_col))
  ; E "inc_row" (call2 (e_inc inc_row))
  ; E "quote_sheet" (call1 e_quote_sheet)
  ; E "quote_sheetname" (call1 (e_str1 quote_sheetname))
  ; E "unquote_sheetname" (call1 (e_str1 unquote_sheetname))
  ; E "split_sheetname" (call2 e_split)
  ].

Definition dispatch (name : list Z) (args : list sx) : sx :=
  match lookup table name with
  | Some f => f args
  | None => SL [SZ 3]
  end.

Extraction Language OCaml.
Extraction "model_C11.ml" dispatch Z.add Z.mul Z.opp Z.div_eucl Z.of_nat Z.ltb Z.eqb.
