(* Extract/Sx.v — the wire format between the Python harness and the
   extracted model: S-expressions over integers, and the pyval codec. *)
From Coq Require Import ZArith QArith List Bool String Ascii.
From PV Require Import Lib.Py.
Import ListNotations.
Open Scope Z_scope.

Inductive sx := SZ (z : Z) | SL (l : list sx).

Definition s2z (s : string) : list Z :=
  map (fun c => Z.of_N (N_of_ascii c)) (list_ascii_of_string s).

Fixpoint sx_zs (l : list sx) : option (list Z) :=
  match l with
  | [] => Some []
  | SZ z :: l' => match sx_zs l' with Some r => Some (z :: r) | None => None end
  | _ => None
  end.

Fixpoint dec_val (x : sx) : option pyval :=
  match x with
  | SL [SZ 0] => Some VNone
  | SL [SZ 1; SZ b] => Some (VBool (negb (b =? 0)))
  | SL [SZ 2; SZ z] => Some (VInt z)
  | SL [SZ 3; SZ n; SZ (Zpos d)] => Some (VFloat (n # d))
  | SL (SZ 4 :: l) => match sx_zs l with Some s => Some (VStr s) | None => None end
  | SL (SZ 5 :: l) =>
      match (fix go (l : list sx) : option (list pyval) :=
               match l with
               | [] => Some []
               | y :: l' => match dec_val y, go l' with
                            | Some v, Some r => Some (v :: r) | _, _ => None end
               end) l with Some r => Some (VTuple r) | None => None end
  | SL (SZ 6 :: l) =>
      match (fix go (l : list sx) : option (list pyval) :=
               match l with
               | [] => Some []
               | y :: l' => match dec_val y, go l' with
                            | Some v, Some r => Some (v :: r) | _, _ => None end
               end) l with Some r => Some (VList r) | None => None end
  | _ => None
  end.

Definition enc_q (q : Q) : sx :=
  let r := Qred q in SL [SZ 3; SZ (Qnum r); SZ (Zpos (Qden r))].

Fixpoint enc_val (v : pyval) : sx :=
  match v with
  | VNone => SL [SZ 0]
  | VBool b => SL [SZ 1; SZ (if b then 1 else 0)]
  | VInt z => SL [SZ 2; SZ z]
  | VFloat q => enc_q q
  | VStr s => SL (SZ 4 :: map SZ s)
  | VTuple l => SL (SZ 5 :: map enc_val l)
  | VList l => SL (SZ 6 :: map enc_val l)
  | VSet l => SL (SZ 7 :: map enc_val l)
  | VDict l => SL (SZ 8 :: map (fun kv => SL [enc_val (fst kv); enc_val (snd kv)]) l)
  | VFun _ => SL [SZ 9]
  end.

Definition exn_code (e : exn) : Z :=
  match e with
  | ValueError => 1 | TypeError => 2 | ZeroDivisionError => 3 | IndexError => 4
  | KeyError => 5 | AssertionError => 6 | AttributeError => 7 | OverflowError => 8
  | NotImplementedError => 9 | RecursionError => 10 | StopIteration => 11
  | Unmodelled => 98 | OutOfFuel => 99
  end.

Definition enc_res (r : res pyval) : sx :=
  match r with
  | Ok v => SL [SZ 0; enc_val v]
  | Raise e => SL [SZ 1; SZ (exn_code e)]
  end.

Definition bad_args : sx := SL [SZ 2].

Definition call1 (f : pyval -> res pyval) (args : list sx) : sx :=
  match args with
  | [a] => match dec_val a with Some x => enc_res (f x) | None => bad_args end
  | _ => bad_args end.
Definition call2 (f : pyval -> pyval -> res pyval) (args : list sx) : sx :=
  match args with
  | [a; b] => match dec_val a, dec_val b with
              | Some x, Some y => enc_res (f x y) | _, _ => bad_args end
  | _ => bad_args end.
Definition call3 (f : pyval -> pyval -> pyval -> res pyval) (args : list sx) : sx :=
  match args with
  | [a; b; c] => match dec_val a, dec_val b, dec_val c with
                 | Some x, Some y, Some z => enc_res (f x y z) | _, _, _ => bad_args end
  | _ => bad_args end.
Definition call4 (f : pyval -> pyval -> pyval -> pyval -> res pyval) (args : list sx) : sx :=
  match args with
  | [a; b; c; d] => match dec_val a, dec_val b, dec_val c, dec_val d with
                 | Some x, Some y, Some z, Some w => enc_res (f x y z w) | _, _, _, _ => bad_args end
  | _ => bad_args end.

Definition entry := (list Z * (list sx -> sx))%type.
Definition E (name : string) (f : list sx -> sx) : entry := (s2z name, f).

Fixpoint zs_eqb (a b : list Z) : bool :=
  match a, b with
  | [], [] => true
  | x :: a', y :: b' => (x =? y) && zs_eqb a' b'
  | _, _ => false
  end.
Fixpoint lookup (tbl : list entry) (name : list Z) : option (list sx -> sx) :=
  match tbl with
  | [] => None
  | (n, f) :: t => if zs_eqb n name then Some f else lookup t name
  end.
