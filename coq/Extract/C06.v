(* Extract/C06.v — entry point of the iterative-evaluation model.
   run(workbook, ranges, ops) -> one observation per operation.
   Wire: q = (n d); val = () | (n d); term = (0 q j) | (1 q r);
   cell = (val ()) | (val (b (term...))); op = (0 t it tol) | (1 c val). *)
From Coq Require Import ZArith QArith List String Extraction ExtrOcamlBasic.
From PV Require Import Lib.Py Extract.Sx Model.Iter.
Import ListNotations.
Open Scope string_scope.

Definition dec_q (x : sx) : option Q :=
  match x with
  | SL [SZ n; SZ (Zpos d)] => Some (n # d)
  | _ => None
  end.
Definition dec_v (x : sx) : option val :=
  match x with
  | SL [] => Some None
  | _ => match dec_q x with Some q => Some (Some q) | None => None end
  end.
Fixpoint dec_list {A} (f : sx -> option A) (l : list sx) : option (list A) :=
  match l with
  | [] => Some []
  | x :: l' => match f x, dec_list f l' with
               | Some a, Some r => Some (a :: r)
               | _, _ => None
               end
  end.
Definition dec_nat (x : sx) : option nat :=
  match x with SZ z => Some (Z.to_nat z) | _ => None end.
Definition dec_term (x : sx) : option term :=
  match x with
  | SL [SZ 0; q; SZ j] => match dec_q q with Some a => Some (TCell a (Z.to_nat j)) | None => None end
  | SL [SZ 1; q; SZ r] => match dec_q q with Some a => Some (TSum a (Z.to_nat r)) | None => None end
  | _ => None
  end%Z.
Definition dec_cell (x : sx) : option cellspec :=
  match x with
  | SL [v; SL []] =>
      match dec_v v with Some s => Some {| stored := s; formula := None |} | None => None end
  | SL [v; SL [b; SL ts]] =>
      match dec_v v, dec_q b, dec_list dec_term ts with
      | Some s, Some b, Some ts => Some {| stored := s; formula := Some (b, ts) |}
      | _, _, _ => None
      end
  | _ => None
  end.
Definition dec_range (x : sx) : option (list nat) :=
  match x with SL l => dec_list dec_nat l | _ => None end.
Definition dec_op (x : sx) : option op :=
  match x with
  | SL [SZ 0; SZ t; SZ it; q] =>
      match dec_q q with Some tolv => Some (OEval (Z.to_nat t) it tolv) | None => None end
  | SL [SZ 1; SZ c; v] =>
      match dec_v v with Some v => Some (OSet (Z.to_nat c) v) | None => None end
  | _ => None
  end%Z.

Definition enc_qq (q : Q) : sx := let r := Qred q in SL [SZ (Qnum r); SZ (Zpos (Qden r))].
Definition enc_v (v : val) : sx := match v with None => SL [] | Some q => enc_qq q end.
Definition enc_b (b : bool) : sx := SZ (if b then 1 else 0)%Z.
Definition enc_n (n : nat) : sx := SZ (Z.of_nat n).
Definition enc_state (st : state) : sx :=
  SL [ SL (map (fun x => SL [enc_b (built x); enc_v (value x); enc_v (prev x); enc_b (wip x)]) (cells st))
     ; SL (map (fun x => SL [enc_b (rbuilt x);
                             match rvalue x with None => SL [] | Some vs => SL [SL (map enc_v vs)] end])
               (rngs st))
     ; SL (map enc_n (todo (tr st)))
     ; SL (map enc_n (computed (tr st))) ].
Definition enc_obs (o : obs) : sx :=
  match o with
  | BEval v st => SL [SZ 0; enc_v v; SZ (itn (tr st)); enc_state st]
  | BSet st => SL [SZ 1; enc_state st]
  | BErr e => SL [SZ 2; SZ (exn_code e)]
  end%Z.

Definition run_entry (args : list sx) : sx :=
  match args with
  | [SL cs; SL rs; SL os] =>
      match dec_list dec_cell cs, dec_list dec_range rs, dec_list dec_op os with
      | Some cs, Some rs, Some os =>
          let w := {| w_cells := cs; w_ranges := rs |} in
          SL (map enc_obs (run_ops w os (init_state w)))
      | _, _, _ => bad_args
      end
  | _ => bad_args
  end.

Definition table : list entry := [ E "run" run_entry ].

Definition dispatch (name : list Z) (args : list sx) : sx :=
  match lookup table name with
  | Some f => f args
  | None => SL [SZ 3]
  end.

Extraction Language OCaml.
Extraction "model_C06.ml" dispatch Z.add Z.mul Z.opp Z.div_eucl Z.of_nat Z.ltb Z.eqb.
