(* Extract/C19.v — entry points of the rounding family. *)
From Coq Require Import ZArith List String Extraction ExtrOcamlBasic.
From PV Require Import Lib.Py Extract.Sx Model.MathFuncs.
Import ListNotations.
Open Scope string_scope.

Fixpoint dec_all (l : list sx) : option (list pyval) :=
  match l with
  | [] => Some []
  | x :: l' => match dec_val x, dec_all l' with
               | Some v, Some r => Some (v :: r) | _, _ => None end
  end.
Definition callL (f : list pyval -> res pyval) (args : list sx) : sx :=
  match dec_all args with Some a => enc_res (f a) | None => bad_args end.

Definition table : list entry :=
  [ E "ceiling" (callL X_ceiling); E "ceiling_math" (callL X_ceiling_math)
  ; E "ceiling_precise" (callL X_ceiling_precise)
  ; E "floor" (callL X_floor); E "floor_math" (callL X_floor_math)
  ; E "floor_precise" (callL X_floor_precise)
  ; E "even" (callL X_even); E "odd" (callL X_odd); E "int_" (callL X_int)
  ; E "mod" (callL X_mod); E "round_" (callL X_round)
  ; E "rounddown" (callL X_rounddown); E "roundup" (callL X_roundup)
  ; E "trunc" (callL X_trunc); E "sign" (callL X_sign); E "abs_" (callL X_abs)
  ].

Definition dispatch (name : list Z) (args : list sx) : sx :=
  match lookup table name with
  | Some f => f args
  | None => SL [SZ 3]
  end.

Extraction Language OCaml.
Extraction "model_C19.ml" dispatch Z.add Z.mul Z.opp Z.div_eucl Z.of_nat Z.ltb Z.eqb.
