(* Extract/C17.v — entry points of the date model. *)
From Coq Require Import ZArith List String Extraction ExtrOcamlBasic.
From PV Require Import Lib.Py Lib.PyDate Extract.Sx Model.DateFuncs.
From PV Require Gen.date_time.
Import ListNotations.
Open Scope string_scope.

Fixpoint dec_all (l : list sx) : option (list pyval) :=
  match l with
  | [] => Some []
  | x :: l' => match dec_val x, dec_all l' with
               | Some v, Some r => Some (v :: r) | _, _ => None end
  end.
Definition callL (f : list pyval -> res pyval) (args : list sx) : sx :=
  match dec_all args with Some a => enc_res (f a) | None => bad_args end.

Definition table : list entry :=
  [ E "year" (callL X_year); E "month" (callL X_month); E "day" (callL X_day)
  ; E "weekday" (callL X_weekday); E "date" (callL X_date)
  ; E "edate" (callL X_edate); E "eomonth" (callL X_eomonth)
  ; E "yearfrac" (callL X_yearfrac)
  ; E "date_from_int" (call1 date_time.f_date_from_int)
  ; E "normalize_year" (call3 (date_time.f_normalize_year py_recursion_fuel))
  ; E "is_leap_year" (call1 date_time.f_is_leap_year)
  ; E "max_days_in_month" (call2 date_time.f_max_days_in_month)
  ].

Definition dispatch (name : list Z) (args : list sx) : sx :=
  match lookup table name with
  | Some f => f args
  | None => SL [SZ 3]
  end.

Extraction Language OCaml.
Extraction "model_C17.ml" dispatch Z.add Z.mul Z.opp Z.div_eucl Z.of_nat Z.ltb Z.eqb.
