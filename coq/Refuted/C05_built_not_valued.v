(* Refuted/C05_built_not_valued.v — advisory (not in the default build): the
   literal reading "after ANY two histories the final machine states agree on
   every cell both have built" is false in the faithful machine (and in the
   implementation) when the histories do not consist of the same operations: a
   formula cell without a stored result that was only compiled into the model
   (Build = _gen_graph) in one history and evaluated in the other is in both
   cell maps, holds None (needs_calc) in one and its value in the other.  This is not a
   violation of C05 — evaluate returns the same value in both states
   (C05_order) — it only shows that the side condition "holds a value in both"
   of C05_states_agree, and "the same operations" of C05_history_order, cannot
   be dropped.  Workbook: Proofs/C01AliasExample.v exaW, node 4 = a formula
   over the whole-column reference. *)
From Coq Require Import ZArith List.
From PV Require Import Lib.Py Model.Graph Proofs.C01AliasExample.
Import ListNotations.
Local Open Scope nat_scope.

Theorem C05_built_not_valued_refuted : exists h1 h2 m,
  st_built (fst (run exaW exa_sem (init exaW) h1)) m = true
  /\ st_built (fst (run exaW exa_sem (init exaW) h2)) m = true
  /\ st_cache (fst (run exaW exa_sem (init exaW) h1)) m = VNone
  /\ st_cache (fst (run exaW exa_sem (init exaW) h2)) m = VInt 11%Z
  /\ snd (evaluate exaW exa_sem (fst (run exaW exa_sem (init exaW) h1)) m)
     = snd (evaluate exaW exa_sem (fst (run exaW exa_sem (init exaW) h2)) m).
Proof. exists [Build 4], [Evaluate 4], 4. vm_compute. repeat split. Qed.
