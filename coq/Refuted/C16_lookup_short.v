(* Refuted/C16_lookup_short.v — "LOOKUP(v, lv, rr) = INDEX(rr, MATCH(v, lv, 1))"
   without the hypothesis of C16_lookup_vector_col that the result vector is at
   least as long as the search vector: in the faithful model (and the
   implementation: known finding C16-lookup-short-result-range) a shorter
   result vector makes result[match_idx - 1] raise IndexError where INDEX
   answers #REF!. *)
From Coq Require Import ZArith QArith List.
From PV Require Import Lib.Py Model.LookupCore Proofs.C16 Proofs.C16Lookup.
From PV Require Gen.lookup.
Import ListNotations.
Open Scope Z_scope.

Theorem C16_lookup_short_refuted : exists v rows rr,
  rect 1 rows /\ rows <> [] /\ rect 1 rr /\ 2 <= zlen rr /\ zlen rr < search_len 1 rows
  /\ lookup.f_lookup v (VTuple rows) (VTuple rr) = Raise IndexError
  /\ (m <- match_ v (search_vec 1 rows) (VInt 1) ;;
      if is_int m then index_ (VTuple rr) m VNone else Ok m) = Ok REF.
Proof.
  exists (VInt 3), [VTuple [VInt 1]; VTuple [VInt 2]; VTuple [VInt 3]], [VTuple [s_a]; VTuple [s_b]].
  split; [repeat constructor; eexists; split; reflexivity|].
  split; [discriminate|].
  split; [repeat constructor; eexists; split; reflexivity|].
  vm_compute. repeat split; discriminate.
Qed.
