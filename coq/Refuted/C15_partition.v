(* Refuted/C15_partition.v — "=x" and "<>x" do not partition the range
   (advisory; witnesses = the findings). *)
From Coq Require Import ZArith List.
From PV Require Import Lib.Py Model.Criteria.
Import ListNotations.
Open Scope Z_scope.

Definition t_apple : pyval := VStr [97; 112; 112; 108; 101].

(* wildcard operand: "<>a*" is compared literally, so "apple" satisfies both
   "=a*" and "<>a*" *)
Theorem C15_partition_wildcard_refuted : exists x v,
  criteria_check (VStr (61 :: v)) x = Ok (VBool true)
  /\ criteria_check (VStr (60 :: 62 :: v)) x = Ok (VBool true).
Proof. exists t_apple, [97; 42]. vm_compute. split; reflexivity. Qed.

(* numeric operand over a numeric text cell: the text "1" satisfies "=1"
   (read as a number) and "<>1" (text always satisfies <>) *)
Theorem C15_partition_numeric_text_refuted : exists x v,
  criteria_check (VStr (61 :: v)) x = Ok (VBool true)
  /\ criteria_check (VStr (60 :: 62 :: v)) x = Ok (VBool true).
Proof. exists (VStr [49]), [49]. vm_compute. split; reflexivity. Qed.
