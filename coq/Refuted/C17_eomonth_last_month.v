(* Refuted/C17_eomonth_last_month.v — advisory.  "EOMONTH returns a month's last
   day" (Props/C17.v C17_eomonth, target months 1900-03 .. 9999-11) is REFUTED by
   the generated model of date_time.months_inc for the target month 9999-12: the
   result is computed as DATE(first of the next month) - 1 and January 10000 is
   out of range, so EOMONTH(9999-12-31, 0) is #NUM! and not 2958465.
   (Known finding C17-eomonth-last-month.) *)
From Coq Require Import ZArith List.
From PV Require Import Lib.Py Lib.PyDate.
From PV Require Gen.excelutil Gen.date_time.
Import ListNotations.
Open Scope Z_scope.

Theorem C17_eomonth_last_month_refuted :
  exists n k, ord2ymd (693594 + n) = (9999, 12, 31)
    /\ date_time.f_eomonth (VInt n) (VInt k) = Ok excelutil.c_NUM_ERROR
    /\ date_time.f_eomonth (VInt (n - 31)) (VInt (k + 1)) = Ok excelutil.c_NUM_ERROR.
Proof. exists 2958465, 0. vm_compute. repeat split; reflexivity. Qed.
Print Assumptions C17_eomonth_last_month_refuted.
