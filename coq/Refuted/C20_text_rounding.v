(* Refuted: "TEXT renders the half-away-from-zero decimal rounding".
   TEXT(2.5,"0") = "2", TEXT(0.125,"0.00") = "0.12" (round-half-even).
   Also recorded: LEN(3.0) = 3 (len_ uses str(), not the Excel rendering). *)
From Coq Require Import ZArith QArith List.
From PV Require Import Lib.Py Model.Text Model.TextFormat Proofs.C20.
Import ListNotations.
Open Scope Z_scope.
Theorem C20_text_half_up_refuted :
  X_text [VFloat (5 # 2); VStr [48]] = Ok (VStr [50])
  /\ X_text [VFloat (1 # 8); VStr [48; 46; 48; 48]] = Ok (VStr [48; 46; 49; 50]).
Proof. split; vm_compute; reflexivity. Qed.
Print Assumptions C20_text_half_up_refuted.
Theorem C20_len_number_refuted : X_len [VFloat (inject_Z 3)] = Ok (VInt 3).
Proof. vm_compute. reflexivity. Qed.
Print Assumptions C20_len_number_refuted.
