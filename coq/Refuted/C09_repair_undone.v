(* Refuted/C09_repair_undone.v — C09_repair without the restriction on later
   writes: overwriting the failing formula cell with a constant keeps the
   formula attached, so a later write to one of its precedents resets the cell
   and the failure returns.
     A1 = 1 (input)   B1 = NOSUCHFUNC(A1)   C1 = B1 + 1
   evaluate C1 raises (FormulaEvalError: B1's UnknownFunction re-raised by C1);
   set B1 = 5; evaluate C1 = 6 (as in the workbook where B1 is the constant 5);
   set A1 = 9: _reset empties B1 and C1; evaluate C1 raises again — in the
   workbook where B1 is an input holding 5, C1 is still 6.
   Known finding C09-repair-undone-by-upstream-write (replays on the
   implementation: harness/props/c09.py, phase repair-then-upstream-write).
   Concrete formula semantics of the differential runs (Extract/C09.v). *)
From Coq Require Import ZArith List Lia.
From PV Require Import Lib.Py Model.Ops Model.Graph Model.GraphExpr Model.Fail Extract.C09.
From PV Require Import Proofs.C01Base Proofs.C09Repair.
Import ListNotations.
Local Open Scope nat_scope.

Definition inp (v : pyval) : nodeinfo :=
  {| ni_input := true; ni_range := false; ni_deps := []; ni_inp0 := v;
     ni_stored := VNone; ni_formula := FNone |}.
Definition fml (ds : list nat) (f : formula) : nodeinfo :=
  {| ni_input := false; ni_range := false; ni_deps := ds; ni_inp0 := VNone;
     ni_stored := VNone; ni_formula := f |}.

Theorem C09_repair_undone_refuted : exists nodes faults h,
  let W := mk_wb nodes in
  let fsem := mk_fsem nodes faults (fun _ => false) in
  let fpre := mk_fpre faults in
  wfb W = true
  /\ map (wb_stored W) (seq 0 (wb_n W)) = [VNone; VNone; VNone]
  /\ snd (run_f W fsem fpre (gen_order W) (init W) h)
     = [FRaise EFormula; FVal VNone; FVal (VInt 6); FVal VNone; FRaise EFormula]
  (* the cell's value has been reset: *)
  /\ st_cache (fst (run_f W fsem fpre (gen_order W) (init W) h)) 1 = VNone
  (* from scratch, in the workbook where B1 is an input holding 5, A1 = 9: *)
  /\ fspec (as_input W 1 (VInt 5)) fsem fpre
           (upd (st_cache (fst (run_f W fsem fpre (gen_order W) (init W) h))) 1 (VInt 5)) 2
     = FVal (VInt 6).
Proof.
  exists [ inp (VInt 1); fml [0] (FRef (ORef 0)); fml [1] (FBin Add (ORef 0) (OLit 1)) ].
  exists [ NoFault; Unknown 0; NoFault ].
  exists [ Evaluate 2; SetValue 1 (VInt 5); Evaluate 2; SetValue 0 (VInt 9); Evaluate 2 ].
  cbn zeta. repeat split; vm_compute; reflexivity.
Qed.
