(* Refuted/C16_blank_cell.v — "MATCH(v, a, 0) returns the first position whose
   VALUE equals v": in the faithful model (and the implementation) a blank
   cell is found as the number 0 by match types 0 and -1 (ExcelCmp(None) =
   (0, 0.0)), although match type 1 treats the same cell as holding nothing. *)
From Coq Require Import ZArith QArith List.
From PV Require Import Lib.Py Model.LookupCore.
Import ListNotations.
Open Scope Z_scope.

Theorem C16_blank_cell_refuted : exists a,
  match_ (VInt 0) (VTuple a) (VInt 0) = Ok (VInt 1) /\ nth_error a 0 = Some VNone
  /\ match_ (VInt 0) (VTuple a) (VInt 1) = Ok NA
  /\ match_ (VInt (-2)) (VTuple a) (VInt (-1)) = Ok (VInt 1).
Proof. exists [VNone]. vm_compute. repeat split. Qed.
