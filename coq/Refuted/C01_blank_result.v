(* Refuted/C01_blank_result.v — C01 without side condition (d): a formula whose
   computed value is blank (None) cannot be told from "needs calc", so _reset
   stops at it while its dependants stay cached.
     A1 blank (input)   A1:A1 (range node)   B1 = A1:A1 (value None)   C1 = B1 + 1
   evaluate C1 = 1; set A1 = 5: _reset empties the range node and stops at B1
   (already None); evaluate C1 still gives 1 — a from-scratch compile gives 6.
   No stored results, well-formed workbook, the written cell is a built input
   and the written value a number; only sem_nonblank fails (B1 computes None).
   Concrete formula semantics of the differential runs (Model/GraphExpr.v). *)
From Coq Require Import ZArith List Lia.
From PV Require Import Lib.Py Model.Ops Model.Graph Model.GraphExpr Extract.C01.
From PV Require Import Proofs.C01Base Proofs.C01Inv Proofs.C01.
Import ListNotations.
Local Open Scope nat_scope.

Definition inp (v : pyval) : nodeinfo :=
  {| ni_input := true; ni_range := false; ni_deps := []; ni_inp0 := v;
     ni_stored := VNone; ni_formula := FNone |}.
Definition fml (ds : list nat) (f : formula) : nodeinfo :=
  {| ni_input := false; ni_range := false; ni_deps := ds; ni_inp0 := VNone;
     ni_stored := VNone; ni_formula := f |}.
Definition rng (ds : list nat) (cols : nat) : nodeinfo :=
  {| ni_input := false; ni_range := true; ni_deps := ds; ni_inp0 := VNone;
     ni_stored := VNone; ni_formula := FRange cols |}.

Theorem C01_blank_result_refuted : exists nodes h,
  let W := mk_wb nodes in let sem := mk_sem nodes in
  wfb W = true
  /\ map (wb_stored W) (seq 0 (wb_n W)) = [VNone; VNone; VNone; VNone]
  /\ ok_history W sem (ok_op_free W) (init W) h
  /\ spec W sem (wb_inp0 W) 2 = VNone
  /\ nth 2 (snd (run W sem (init W) h)) VNone = VInt 1
  /\ nth 2 (run_spec W sem (wb_inp0 W) h) VNone = VInt 6.
Proof.
  exists [ inp VNone; rng [0] 1; fml [1] (FRef (ORef 0)); fml [2] (FBin Add (ORef 0) (OLit 1)) ].
  exists [ Evaluate 3; SetValue 0 (VInt 5); Evaluate 3 ].
  cbn zeta. cbn [ok_history]. repeat split; try (vm_compute; reflexivity); vm_compute; lia.
Qed.
