(* Refuted/C01_stored_partial.v — C01 without the second clause of [stored_ok]
   (a cell with a stored result has stored results for the formula cells it
   reads): a variant of side conditions (c)/(d) found while proving that build
   preserves the closure invariant I2; predicted from the model and then
   reproduced on the implementation (an .xlsx whose sheet XML has <v>3</v> for
   C1 only: evaluate C1 = 3, set_value(A1, 5), evaluate C1 = 3, fresh model 7).
     A1 = 1 (input)   B1 = A1 + 1 (NO stored result)   C1 = B1 + 1 (stored 3)
   evaluate C1 = 3 (the stored result; B1 stays None = "needs calc"); set
   A1 = 5: _reset reaches B1, finds it empty and stops; evaluate C1 still gives
   3 — a from-scratch compile gives 7.  All cells are built before the write
   and the one stored result is the from-scratch value.  Concrete formula
   semantics of the differential runs (Model/GraphExpr.v via Extract/C01.v). *)
From Coq Require Import ZArith List Lia.
From PV Require Import Lib.Py Model.Ops Model.Graph Model.GraphExpr Extract.C01.
From PV Require Import Proofs.C01Base Proofs.C01Inv Proofs.C01.
Import ListNotations.
Local Open Scope nat_scope.

Definition inp (v : pyval) : nodeinfo :=
  {| ni_input := true; ni_range := false; ni_deps := []; ni_inp0 := v;
     ni_stored := VNone; ni_formula := FNone |}.
Definition fml (ds : list nat) (st : pyval) (f : formula) : nodeinfo :=
  {| ni_input := false; ni_range := false; ni_deps := ds; ni_inp0 := VNone;
     ni_stored := st; ni_formula := f |}.

Theorem C01_stored_partial_refuted : exists nodes h,
  let W := mk_wb nodes in let sem := mk_sem nodes in
  wfb W = true
  /\ wb_stored W 1 = VNone /\ wb_stored W 2 = spec W sem (wb_inp0 W) 2
  /\ ok_history W sem (ok_op_free W) (init W) h
  /\ map (st_built (fst (run W sem (init W) (firstn 1 h)))) [0; 1; 2] = [true; true; true]
  /\ nth 2 (snd (run W sem (init W) h)) VNone = VInt 3
  /\ nth 2 (run_spec W sem (wb_inp0 W) h) VNone = VInt 7.
Proof.
  exists [ inp (VInt 1); fml [0] VNone (FBin Add (ORef 0) (OLit 1));
           fml [1] (VInt 3) (FBin Add (ORef 0) (OLit 1)) ].
  exists [ Evaluate 2; SetValue 0 (VInt 5); Evaluate 2 ].
  cbn zeta. cbn [ok_history]. repeat split; try (vm_compute; reflexivity); vm_compute; lia.
Qed.
