(* Refuted/C03_eq_text.v — C03 without the side condition [no_eq_text]: an
   INPUT cell that holds a text starting with "=" (written with set_value, or a
   string cell of the .xlsx) is saved as that text (cell_value, line 194) and
   read back by _CompiledImporter._get_cell (line 1235: isinstance(str) and
   startswith('=')) as a FORMULA whose python code is the rest of the text.
   The loaded model denotes another workbook and answers differently.
   Reproduced on the implementation (all three formats):
     A1 = 2, A2 = "abc", A3 = A1+1, A4 = A2&"x"; evaluate all;
     set_value('S!A2', '=abc'); to_file; from_file;
     original.evaluate('S!A4') = '=abcx'; loaded.evaluate('S!A4') raises
     (NameError: name 'abc' is not defined -> UnknownFunction).
   The model instance is Proofs/C03Example.v's four-node model with A2 = "=x":
   every other hypothesis of C03_abs / C03_equiv_partial holds. *)
From Coq Require Import List Arith Bool ZArith.
From PV Require Import Lib.Py Model.Graph Model.Persist.
From PV Require Import Proofs.C01Base Proofs.C01Inv Proofs.C01.
From PV Require Import Proofs.C03Graph Proofs.C03 Proofs.C03Example.
Import ListNotations.
Local Open Scope nat_scope.

Theorem C03_eq_text_refuted : exists M,
  pm_ok G0 cdeps0 M /\ wf (pm_wb M) /\ code_nonblank csem0 rsem0
  /\ Inv (pm_wb M) (pm_sem csem0 rsem0 M) (pm_state M)
  /\ stored_ok (pm_wb M) (pm_sem csem0 rsem0 M) /\ allcells (pm_wb M) (pm_state M)
  /\ inputs_exact (pm_wb M) (st_cache (pm_state M))
  /\ match roundtrip_pkl G0 cdeps0 csem0 rsem0 M with
     | Ok M' =>
         abs M' <> abs M
         /\ snd (run (pm_wb M) (pm_sem csem0 rsem0 M) (pm_state M) [Evaluate 1]) = [VStr [61; 120]%Z]
         /\ snd (run (pm_wb M') (pm_sem csem0 rsem0 M') (pm_state M') [Evaluate 1])
            = [VTuple [VStr [120%Z]]]
     | Raise _ => False
     end.
Proof.
  exists (mk (VStr [61; 120]%Z) None).
  destruct (mk_ok (VStr [61; 120]%Z) None eq_refl) as (A & B & C & D & E & F & H).
  repeat (split; [assumption|]).
  vm_compute. repeat split. discriminate.
Qed.
Print Assumptions C03_eq_text_refuted.
