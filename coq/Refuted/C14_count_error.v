(* Refuted/C14_count_error.v — advisory.  The property lists COUNT among the
   aggregates that "return the first error value present".  The generated
   model of stats.count (Gen/stats.v) never looks for errors: over the range
   [1, #N/A] it answers 1.  (Known finding C14-count-ignores-errors; SUM,
   AVERAGE, MAX, MIN do return the error: Props/C14.v C14_first_error.) *)
From Coq Require Import ZArith List.
From PV Require Import Lib.Py Proofs.C14.
From PV Require Gen.excelutil Gen.stats.
Import ListNotations.
Open Scope Z_scope.

Theorem C14_count_error_refuted :
  exists args e, scalars (cells_of args) /\ first_error (cells_of args) = Some e
                 /\ count args = Ok (VInt 1) /\ sum_ args = Ok e.
Proof.
  exists [VTuple [VTuple [VInt 1; excelutil.c_NA_ERROR]]], excelutil.c_NA_ERROR.
  split; [repeat constructor|]. vm_compute. repeat split; reflexivity.
Qed.
Print Assumptions C14_count_error_refuted.
