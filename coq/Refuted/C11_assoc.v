(* Refuted/C11_assoc.v — the full associativity statement of & fails in the
   faithful model: when an inner intersection is empty its value is the text
   "#NULL!", and the outer operator then raises AttributeError instead of
   answering #NULL!.  Witness: (A1:B2 & C3:D4) & A1:A2. *)
From Coq Require Import ZArith List Bool Lia.
From PV Require Import Lib.Py Model.Addr Proofs.C11 Proofs.C11Lattice.
Import ListNotations.
Open Scope Z_scope.

Theorem C11_assoc_null_refuted : exists a b c, wf a /\ wf b /\ wf c
  /\ empty_rect (meet_rect (meet_rect a b) c) = true          (* the common cells: none, so #NULL! is wanted *)
  /\ bind (op_inter (VA (norm [] a)) (VA (norm [] b))) (fun x => op_inter x (VA (norm [] c)))
     = Raise AttributeError
  /\ bind (op_inter (VA (norm [] b)) (VA (norm [] c))) (fun x => op_inter (VA (norm [] a)) x)
     = Raise AttributeError.
Proof.
  exists {| x1 := 1; y1 := 1; x2 := 2; y2 := 2 |}, {| x1 := 3; y1 := 3; x2 := 4; y2 := 4 |},
         {| x1 := 1; y1 := 1; x2 := 1; y2 := 2 |}.
  repeat split; try (unfold MAX_COL, MAX_ROW; cbn; lia); vm_compute; reflexivity.
Qed.
Print Assumptions C11_assoc_null_refuted.
