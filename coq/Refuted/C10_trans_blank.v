(* Refuted/C10_trans_blank.v — advisory (not needed by any check).
   Through a BLANK operand neither <= nor = is transitive, in the faithful model
   and in the implementation alike.  This is inherent in the rule as the
   property words it — "blank as the neutral value of the other side": blank
   equals 0 against a number, "" against text and FALSE against a logical, so
   "" = blank and blank = 0 although text is above every number.  It is not a
   defect; the transitivity theorems of Props/C10.v (C10_le_transitive,
   C10_lt_transitive, C10_eq_equivalence) are therefore stated for non-blank
   operands, for which they hold without exception.
   Witnesses:  "" <= blank <= 0 but not "" <= 0;   0 = blank = "" but 0 <> "";
               FALSE = #EMPTY! = 0 but FALSE <> 0 (a logical is above every number). *)
From Coq Require Import ZArith QArith List.
From PV Require Import Lib.Py Model.Ops Proofs.C10 Proofs.C10Order.
From PV Require Gen.excelutil.
Import ListNotations.
Open Scope Z_scope.

Theorem C10_le_trans_blank_refuted :
  exists a b c, scalar a /\ scalar b /\ scalar c /\ is_blank b = true /\
    fixup a LtE b = Ok (VBool true) /\ fixup b LtE c = Ok (VBool true) /\
    fixup a LtE c = Ok (VBool false).
Proof. exists (VStr []), VNone, (VInt 0). vm_compute. repeat split; reflexivity. Qed.
Print Assumptions C10_le_trans_blank_refuted.

Theorem C10_eq_trans_blank_refuted :
  exists a b c, scalar a /\ scalar b /\ scalar c /\ is_blank b = true /\
    fixup a Eq b = Ok (VBool true) /\ fixup b Eq c = Ok (VBool true) /\
    fixup a Eq c = Ok (VBool false).
Proof. exists (VInt 0), VNone, (VStr []). vm_compute. repeat split; reflexivity. Qed.
Print Assumptions C10_eq_trans_blank_refuted.

Theorem C10_eq_trans_empty_refuted :       (* the same through the text "#EMPTY!" *)
  exists a b c, is_blank b = true /\
    fixup a Eq b = Ok (VBool true) /\ fixup b Eq c = Ok (VBool true) /\
    fixup a Eq c = Ok (VBool false).
Proof. exists (VBool false), excelutil.c_EMPTY, (VInt 0). vm_compute. repeat split; reflexivity. Qed.
Print Assumptions C10_eq_trans_empty_refuted.
