(* Refuted/C02_emit_neg_pow.v — "the emitted text is, by Python's grammar, the
   tree translate e": a prefix minus is emitted bare (OperatorNode.emit returns
   value + child for OP_PRE, without parentheses), so for e = (-2)^2 — which is
   what Excel's grammar makes of "-2^2", "(-2)^2" and, with a reference, of
   "-A1^2" — the code is "-2 ** 2".  That text is the flattening of the
   precedence-correct Python tree -(2 ** 2), whose meaning is not translate e:
   the compiled formula evaluates to -4 instead of 4. *)
From Coq Require Import ZArith List.
From PV Require Import Lib.Py Model.Syntax Model.Emit.
Import ListNotations.
Open Scope Z_scope.

Theorem C02_emit_refuted : exists e t,
  arith e /\ pyflat t = code e /\ PyWF t /\ pyabs t <> translate e
  /\ ~ PyWF (emit false e).
Proof.
  exists (EBin OPow (EPre (EOperand KNumber [50])) (EOperand KNumber [50])).
  exists (PNeg (PBin PPow (PAtom [50]) (PAtom [50]))).
  split; [|split; [|split; [|split]]].
  - cbn [arith]. split; [exists PPow; vm_compute; reflexivity|split; exact I].
  - vm_compute. reflexivity.
  - vm_compute. reflexivity.
  - vm_compute. discriminate.
  - unfold PyWF. vm_compute. discriminate.
Qed.
