(* Refuted/C13_scalar_error.v — advisory (built only through EXTRA_TARGETS).
   The full pointwise statement for the whole fix-up function is false in the
   faithful model: with a scalar error on the right, the position whose left
   element is itself an error shows the right error, while the scalar operator
   (and Excel) give the left one.  Witness: ((#REF!, 1),) + #N/A. *)
From Coq Require Import ZArith QArith List.
From PV Require Import Lib.Py Model.Ops Model.Arrays.
From PV Require Gen.excelutil.
Import ListNotations.
Open Scope Z_scope.

Theorem C13_scalar_error_right_refuted :
  exists (x : list pyval) (o : op) (r u res : pyval),
    x = [VTuple [excelutil.c_REF_ERROR; VInt 1]] /\ r = excelutil.c_NA_ERROR /\
    u = excelutil.c_REF_ERROR /\
    op_fixup (VTuple x) o r = Ok res /\ res = r /\ fixup u o r = Ok u /\ py_eq u res = false.
Proof.
  exists [VTuple [excelutil.c_REF_ERROR; VInt 1]], Add, excelutil.c_NA_ERROR,
         excelutil.c_REF_ERROR, excelutil.c_NA_ERROR.
  vm_compute. repeat split; reflexivity.
Qed.
Print Assumptions C13_scalar_error_right_refuted.
