(* Refuted/C15_error_cells.v — "cells of any type never make the function
   fail" is false for the AGGREGATED range (advisory; witnesses = the known
   finding C15-error-in-aggregated-cells). *)
From Coq Require Import ZArith List.
From PV Require Import Lib.Py Model.Criteria.
Import ListNotations.
Open Scope Z_scope.

Definition t_div0 : pyval := VStr [35; 68; 73; 86; 47; 48; 33].

(* an error value among the selected cells of the aggregated range:
   SUMIFS raises TypeError (sum() of the error text), MAXIFS returns the
   largest character of the error text *)
Theorem C15_error_cell_sum_refuted : exists agg rng crit,
  sumifs agg [rng; crit] = Raise TypeError.
Proof.
  exists (VTuple [VTuple [t_div0; VInt 2]]), (VTuple [VTuple [VInt 1; VInt 1]]), (VInt 1).
  vm_compute. reflexivity.
Qed.
Theorem C15_error_cell_max_refuted : exists agg rng crit,
  maxifs agg [rng; crit] = Ok (VStr [86]).
Proof.
  exists (VTuple [VTuple [t_div0; VInt 2]]), (VTuple [VTuple [VInt 1; VInt 1]]), (VInt 1).
  vm_compute. reflexivity.
Qed.
