(* Refuted/C03_resave_extra_data.v — "saving an unchanged model again leaves the
   text file byte-identical" fails when extra_data is a dictionary: _to_text
   updates the USER's dictionary in place (line 196) and afterwards deletes only
   'cell_map' (line 223), so at the second save the keys cycles / excel_hash /
   filename are already present and keep their position while 'cell_map' is
   appended last: the two documents have the same content (Proofs/C03.v
   resave_content) but another key order, i.e. other bytes.
   Reproduced on the implementation (yml and json):
     comp.extra_data = {'note': 1}; comp.to_file(stem, 'yml') twice:
     first  file: note, cycles, excel_hash, cell_map, filename
     second file: note, cycles, excel_hash, filename, cell_map
   With extra_data = None the documents are equal (C03_resave_partial). *)
From Coq Require Import List Arith Bool ZArith.
From PV Require Import Lib.Py Model.Graph Model.Persist.
From PV Require Import Proofs.C03 Proofs.C03Example.
Import ListNotations.
Local Open Scope nat_scope.

Definition k_note : str := [110; 111; 116; 101]%Z.

Theorem C03_resave_refuted : exists M,
  let f1 := fst (to_text G0 M) in
  let f2 := fst (to_text G0 (snd (to_text G0 M))) in
  f2 <> f1
  /\ map fst f1 = [k_note; k_cycles; k_hash; k_cells; k_filename]
  /\ map fst f2 = [k_note; k_cycles; k_hash; k_filename; k_cells].
Proof.
  exists (mk (VInt 3) (Some [(k_note, TV (VInt 1))])).
  vm_compute. repeat split. discriminate.
Qed.
Print Assumptions C03_resave_refuted.
