(* Refuted/C01_stored_late_build.v — C01 without side condition (c): with
   stored results (.xlsx), a dependant that is built only AFTER an upstream
   write starts from its stale stored result.
     A1 = 1 (input)   B1 = A1 + 1 (stored 2)   C1 = B1 + A1 (stored 3)
   evaluate B1 (C1 is not in the cell map yet); set A1 = 5; evaluate C1 gives
   the stored 3 — a from-scratch compile gives 11.  Everything else the
   coherence theorem asks for holds: the workbook is well-formed, the stored
   results are the from-scratch values of the workbook's inputs, the written
   cell is a built input and the written value a number.  Concrete formula
   semantics of the differential runs (Model/GraphExpr.v via Extract/C01.v). *)
From Coq Require Import ZArith List Lia.
From PV Require Import Lib.Py Model.Ops Model.Graph Model.GraphExpr Extract.C01.
From PV Require Import Proofs.C01Base Proofs.C01Inv Proofs.C01.
Import ListNotations.
Local Open Scope nat_scope.

Definition inp (v : pyval) : nodeinfo :=
  {| ni_input := true; ni_range := false; ni_deps := []; ni_inp0 := v;
     ni_stored := VNone; ni_formula := FNone |}.
Definition fml (ds : list nat) (st : pyval) (f : formula) : nodeinfo :=
  {| ni_input := false; ni_range := false; ni_deps := ds; ni_inp0 := VNone;
     ni_stored := st; ni_formula := f |}.

Theorem C01_stored_late_build_refuted : exists nodes h,
  let W := mk_wb nodes in let sem := mk_sem nodes in
  wfb W = true
  /\ map (wb_stored W) [1; 2] = map (spec W sem (wb_inp0 W)) [1; 2]
  /\ ok_history W sem (ok_op_free W) (init W) h
  /\ nth 2 (snd (run W sem (init W) h)) VNone = VInt 3
  /\ nth 2 (run_spec W sem (wb_inp0 W) h) VNone = VInt 11.
Proof.
  exists [ inp (VInt 1); fml [0] (VInt 2) (FBin Add (ORef 0) (OLit 1));
           fml [1; 0] (VInt 3) (FBin Add (ORef 0) (ORef 1)) ].
  exists [ Evaluate 1; SetValue 0 (VInt 5); Evaluate 2 ].
  cbn zeta. cbn [ok_history]. repeat split; try (vm_compute; reflexivity); vm_compute; lia.
Qed.
