(* Refuted/C12_failed_cell_precedents.v — the property's "every formula cell
   reachable from the checked outputs is compared or reported" with cells that
   raise: the [except] branch of validate_calcs (excelcompiler.py lines 662-688)
   neither adds the address to [verified] nor pushes cell.needed_addresses, so
   the walk STOPS at a cell that raises.
     A1 = 1 (input)
     A2 = A1+1          stored result altered: 3 (the formula gives 2)
     A3 = BOOM(A2)      a plugin function that raises
     A4 = A3+1
   validate_calcs(output_addrs=[A4]) lists A4 under 'exceptions' (key: the
   "Eval: A3" line of the message) and nothing else:
     - the altered A2 is reachable from A4, is not verified, not reported as a
       mismatch and not listed;
     - A3, the cell that really cannot be evaluated, is not listed under its
       own address either (it only appears inside the text of A4's message).
   Reproduced on the implementation by the first case of the failing stream of
   harness/props/c12.py (predicate C12-failed-cell-precedents-not-walked).
   What IS true: Props/C12.v C12_nothing_silently_skipped_f_partial (reachable
   through cells that evaluate). *)
From Coq Require Import ZArith QArith List Lia.
From PV Require Import Lib.Py Model.Graph Model.Fail Model.Validate Model.ValidateFail.
From PV Require Import Proofs.C01Base Proofs.C12FailBase Proofs.C12Fail.
Import ListNotations.
Local Open Scope nat_scope.

Definition w_deps (n : nat) : list nat := match n with 1 => [0] | 2 => [1] | 3 => [2] | _ => [] end.
Definition wW : workbook :=
  {| wb_n := 4; wb_input := fun n => Nat.eqb n 0; wb_deps := w_deps; wb_range := fun _ => false;
     wb_inp0 := fun n => if Nat.eqb n 0 then VInt 1 else VNone;
     wb_stored := fun n => if Nat.eqb n 1 then VInt 3 else VNone |}.
Definition w_sem (n : nat) (vals : list pyval) : option pyval :=
  match n, vals with
  | 1, [VInt a] => Some (VInt (a + 1))
  | 3, [VInt a] => Some (VInt (a + 1))
  | 2, _ => None
  | _, _ => Some (VStr [35%Z])
  end.

Theorem C12_failed_cell_precedents_refuted :
  let fpre := fun _ : nat => @None nat in
  let F := fspec wW w_sem fpre (wb_inp0 wW) in
  let vs := validate_f wW w_sem fpre (fun _ _ => []) (fun n => [61%Z; Z.of_nat n]) None false [3] in
  wfb wW = true
  /\ anc wW 1 3 /\ anc wW 2 3                                  (* A2, A3 reachable from the output A4 *)
  /\ is_fcell wW 1 = true /\ F 1 = FVal (VInt 2)
  /\ close_enough None (VInt 2) (wb_stored wW 1) = false        (* A2's stored result is wrong *)
  /\ is_raise (F 2) = true                                      (* A3 cannot be evaluated *)
  /\ fs_todo vs = [] /\ fs_raised vs = None                     (* the run is complete *)
  /\ fs_exc vs = [(3, [3; 2])]                                  (* only A4 is listed … *)
  /\ key_of fpre [3; 2] = KEval 2 /\ not_implemented fpre (fun _ => false) [3; 2] = false
  /\ fs_report vs = []                                          (* … A2's mismatch is not reported *)
  /\ mem 1 (fs_verified vs) = false /\ mem 2 (fs_verified vs) = false.
Proof.
  cbn zeta. repeat split; try (vm_compute; reflexivity).
  - apply (anc_trans wW 1 2 3); [constructor; left; reflexivity|left; reflexivity].
  - constructor. left. reflexivity.
Qed.
Print Assumptions C12_failed_cell_precedents_refuted.
