(* Refuted/C01_reference_not_evaluated.v — advisory witness: why the reference
   cell of an unbounded range must be a node of RANGE kind in the machine (what
   repair f35c77a of /repo established in the code: the reference gets its value
   when the graph is built).

     B1 = 1, B2 = 2 (inputs)   B1:B2 (range node)   B:B (reference, alias of B1:B2)
     A1 = SUM(B:B), stored result 3

   If the reference is treated like an ordinary formula cell (not of range kind:
   it starts from its "stored result" None and is not evaluated by the build),
   evaluate A1 returns the stored 3 and leaves B:B empty; set_value(B1, 5) resets
   B1 -> B1:B2 -> B:B, finds B:B empty and stops (the early return of _reset);
   evaluate A1 still gives 3 — a from-scratch compile gives 7.  This is clause S2
   of [stored_ok] failing (Refuted/C01_stored_partial.v) for the reference cell;
   it replays on /repo with f35c77a reverted (the unb_stored stream of
   harness/props/c01.py reports it as a divergence and a failing input).  With
   the reference of range kind — the model of the differential runs — the same
   history gives 7.  Concrete semantics: Model/GraphExpr.v via Extract/C01.v. *)
From Coq Require Import ZArith List Lia.
From PV Require Import Lib.Py Model.Ops Model.Graph Model.GraphExpr Extract.C01.
From PV Require Import Proofs.C01Base Proofs.C01Inv Proofs.C01.
Import ListNotations.
Local Open Scope nat_scope.

Definition inp (v : pyval) : nodeinfo :=
  {| ni_input := true; ni_range := false; ni_deps := []; ni_inp0 := v;
     ni_stored := VNone; ni_formula := FNone |}.
Definition rng (ds : list nat) : nodeinfo :=
  {| ni_input := false; ni_range := true; ni_deps := ds; ni_inp0 := VNone;
     ni_stored := VNone; ni_formula := FRange 1 |}.
Definition ref (range_kind : bool) (p : nat) : nodeinfo :=
  {| ni_input := false; ni_range := range_kind; ni_deps := [p]; ni_inp0 := VNone;
     ni_stored := VNone; ni_formula := FAlias |}.
Definition fml (ds : list nat) (st : pyval) (f : formula) : nodeinfo :=
  {| ni_input := false; ni_range := false; ni_deps := ds; ni_inp0 := VNone;
     ni_stored := st; ni_formula := f |}.

Definition book (range_kind : bool) : list nodeinfo :=
  [ inp (VInt 1); inp (VInt 2); rng [0; 1]; ref range_kind 2; fml [3] (VInt 3) (FAgg 0 (ORef 0)) ].

Theorem C01_reference_not_evaluated_refuted : exists h,
  let W := mk_wb (book false) in let sem := mk_sem (book false) in
  let W' := mk_wb (book true) in let sem' := mk_sem (book true) in
  wfb W = true /\ wfb W' = true
  /\ wb_stored W 4 = spec W sem (wb_inp0 W) 4
  /\ ok_history W sem (ok_op_free W) (init W) h
  /\ map (st_built (fst (run W sem (init W) (firstn 1 h)))) [0; 1; 2; 3; 4] = [true; true; true; true; true]
  (* the reference as an ordinary cell: stale *)
  /\ snd (run W sem (init W) h) = [VInt 3; VNone; VInt 3]
  /\ run_spec W sem (wb_inp0 W) h = [VInt 3; VNone; VInt 7]
  (* the reference of range kind: coherent *)
  /\ snd (run W' sem' (init W') h) = [VInt 3; VNone; VInt 7].
Proof.
  exists [ Evaluate 4; SetValue 0 (VInt 5); Evaluate 4 ].
  cbn zeta. cbn [ok_history]. repeat split; try (vm_compute; reflexivity); vm_compute; lia.
Qed.
Print Assumptions C01_reference_not_evaluated_refuted.
