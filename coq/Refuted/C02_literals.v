(* Refuted/C02_literals.v — "numbers denote their value": OperandNode.emit
   copies a number token as it is, and the Excel number 007 is not a Python
   integer literal (leading zeros): the formula does not compile. *)
From Coq Require Import ZArith List.
From PV Require Import Lib.Py Model.Syntax Model.Emit.
Import ListNotations.
Open Scope Z_scope.

Theorem C02_number_refuted : exists s,
  forallb is_digit s = true /\ dec_value s 0 = 7 /\ py_decint s = None.
Proof. exists [48; 48; 55]. vm_compute. repeat split. Qed.
