(* Refuted/C02_literals.v — "a text literal yields exactly its characters,
   numbers their value": OperandNode.emit copies the characters of an Excel text
   literal into a Python string literal and only rewrites doubled quotes, and
   copies a number token as it is.
   * the Excel text  a\nb  (a, backslash, n, b) becomes the Python literal
     "a\nb", which Python decodes to a, LINE FEED, b;
   * the Excel text  a\  becomes "a\" — not a complete Python literal;
   * the Excel number 007 is not a Python integer literal (leading zeros). *)
From Coq Require Import ZArith List.
From PV Require Import Lib.Py Model.Syntax Model.Emit.
Import ListNotations.
Open Scope Z_scope.

Theorem C02_text_refuted : exists s r,
  py_string_literal (emit_text (excel_quote s)) = Some r /\ r <> s.
Proof. exists [97; 92; 110; 98], [97; 10; 98]. split; [vm_compute; reflexivity|discriminate]. Qed.

Theorem C02_text_backslash_end_refuted : exists s,
  py_string_literal (emit_text (excel_quote s)) = None.
Proof. exists [97; 92]. vm_compute. reflexivity. Qed.

Theorem C02_number_refuted : exists s,
  forallb is_digit s = true /\ dec_value s 0 = 7 /\ py_decint s = None.
Proof. exists [48; 48; 55]. vm_compute. repeat split. Qed.
