(* Refuted/C11_dollar_sheet.v — advisory (not needed by any check).
   A sheet name may contain '$'.  AddressRange.create keeps it (Example ex_quoted_dollar in
   Proofs/C11Parse.v: 'a$b'!B3 parses back), but the formula compiler strips every '$' from a
   range token before parsing it (excelformula.py, RangeNode._emit:
   `addr_str = value.replace('$', '')`), so the printed address of a cell on sheet a$b, embedded
   in a formula, comes back on sheet "ab".  This is why sheet_ok_formula excludes '$'. *)
From Coq Require Import ZArith List Bool Lia.
From PV Require Import Lib.Py Model.Addr Proofs.C11 Proofs.C11Parse.
Import ListNotations.
Open Scope Z_scope.

Theorem C11_dollar_sheet_stripped_refuted :
  exists a, on_sheet a /\ sheet_ok_quoted (a_sheet a) = true
    /\ bind (abs_address a) (fun t => create t [] None) = Ok (VA a)
    /\ bind (abs_address a) (fun t => create (strip_dollar t) [] None) = Ok (VA (ACell [97; 98] 2 3))
    /\ bind (quoted_address a) (fun t => create (strip_dollar t) [] None) = Ok (VA (ACell [97; 98] 2 3)).
Proof.
  exists (ACell [97; 36; 98] 2 3). split; [cbn; unfold MAX_COL, MAX_ROW; lia|].
  repeat split; vm_compute; reflexivity.
Qed.
Print Assumptions C11_dollar_sheet_stripped_refuted.
