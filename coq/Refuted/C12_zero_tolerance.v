(* Refuted/C12_zero_tolerance.v — C12_sound without [tol_pos]: with
   tolerance=0 (or negative) close_enough is  abs(a - b) < (1 + rel) * 0,
   never true, so validate_calcs reports EVERY formula cell holding a number
   on a perfectly consistent file, each with original = calced.
     A1 = 1 (input)   A2 = A1 + 1 (stored 2)
   validate_calcs(tolerance=0)  ->  {'mismatch': {A2: Mismatch(2, 2, …)}}
   Everything else C12_sound asks for holds.  Concrete formula semantics of
   the differential runs (Model/GraphExpr.v via Extract/C12.v); reproduced on
   the implementation by the 'tolerance=0' correspondence stream of
   harness/props/c12.py. *)
From Coq Require Import ZArith QArith List Lia.
From PV Require Import Lib.Py Model.Ops Model.Graph Model.GraphExpr Model.Validate Extract.C12.
From PV Require Import Proofs.C01Base Proofs.C01 Proofs.C12Base.
Import ListNotations.
Local Open Scope nat_scope.

Definition inp (v : pyval) : nodeinfo :=
  {| ni_input := true; ni_range := false; ni_deps := []; ni_inp0 := v;
     ni_stored := VNone; ni_formula := FNone |}.
Definition fml (ds : list nat) (st : pyval) (f : formula) : nodeinfo :=
  {| ni_input := false; ni_range := false; ni_deps := ds; ni_inp0 := VNone;
     ni_stored := st; ni_formula := f |}.

Theorem C12_zero_tolerance_refuted : exists nodes ftext outs,
  let W := mk_wb nodes in let sem := mk_sem nodes in
  wfb W = true
  /\ map (wb_stored W) [1] = map (spec W sem (wb_inp0 W)) [1]          (* consistent *)
  /\ (forall o, In o outs -> o < wb_n W)
  /\ vs_report (validate W sem ftext (Some 0%Q) outs) = [(1, (VInt 2, VInt 2))].
Proof.
  exists [ inp (VInt 1); fml [0] (VInt 2) (FBin Add (ORef 0) (OLit 1)) ].
  exists (fun _ => [61%Z]). exists [1].
  cbn zeta. repeat split; try (vm_compute; reflexivity).
  intros o [<-|[]]. vm_compute. lia.
Qed.
