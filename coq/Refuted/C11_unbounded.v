(* Refuted/C11_unbounded.v — advisory (not needed by any check).
   pycel stores a whole-column range A:C as (1, 0, 3, 0) and computes & , ** and
   `in` with these numbers: the extent of an unbounded axis is taken as
   0 .. M-1 (start 0, size M), and __contains__ compares with the stored 0s.
   On unbounded operands the faithful model (and the implementation, see
   harness/props/c11.py, known predicate C11-unbounded-algebra) therefore
   violates the property's statement:  *)
From Coq Require Import ZArith List Bool Lia.
From PV Require Import Lib.Py Model.Addr Proofs.C11 Proofs.C11Lattice Proofs.C11Parse Proofs.C11Unbounded
  Proofs.C11UnboundedParse.
Import ListNotations.
Open Scope Z_scope.

Lemma ac_uwf : uwf (colrange 1 3).
Proof. apply colrange_uwf; unfold MAX_COL; lia. Qed.
Lemma cell_uwf c r : 1 <= c <= MAX_COL -> 1 <= r <= MAX_ROW -> uwf {| x1 := c; y1 := r; x2 := c; y2 := r |}.
Proof. intros A B. split; left; cbn; lia. Qed.

(* `B2 in A:C` is False *)
Theorem C11_unbounded_contains_refuted :
  exists r c row, uwf r /\ uinside r c row /\ contains (unorm [] r) (ACell [] c row) = Ok false.
Proof.
  exists (colrange 1 3), 2, 2. split; [exact ac_uwf|]. split.
  - unfold uinside, ax_in, MAX_COL, MAX_ROW. cbn. lia.
  - vm_compute. reflexivity.
Qed.
Print Assumptions C11_unbounded_contains_refuted.

(* A:C & A:C = A:C ** A:C = A:C1048575, not A:C *)
Theorem C11_unbounded_idem_refuted :
  exists r z, uwf r /\ op_inter (VA (unorm [] r)) (VA (unorm [] r)) = Ok (VA z)
              /\ op_union (VA (unorm [] r)) (VA (unorm [] r)) = Ok (VA z) /\ z <> unorm [] r.
Proof.
  exists (colrange 1 3), (ARange [] 1 0 3 1048575). split; [exact ac_uwf|].
  split; [vm_compute; reflexivity|]. split; [vm_compute; reflexivity|]. vm_compute. discriminate.
Qed.
Print Assumptions C11_unbounded_idem_refuted.

(* ... and that result prints to "A:C1048575", which does not parse *)
Theorem C11_unbounded_result_unparsable :
  exists z, op_inter (VA (unorm [] (colrange 1 3))) (VA (unorm [] (colrange 1 3))) = Ok (VA z)
            /\ create (address z) [] None = Raise ValueError.
Proof. exists (ARange [] 1 0 3 1048575). split; vm_compute; reflexivity. Qed.
Print Assumptions C11_unbounded_result_unparsable.

(* A:C & B1048576 = #NULL!, although B1048576 is a cell of column B;
   A:C & B1:B1048576 = B1:B1048575 *)
Theorem C11_unbounded_last_row_refuted :
  exists a b c row, uwf a /\ uwf b /\ uinside a c row /\ uinside b c row
    /\ op_inter (VA (unorm [] a)) (VA (unorm [] b)) = Ok (VE NULL_ERROR)
    /\ op_inter (VA (unorm [] a)) (VA (ARange [] 2 1 2 1048576)) = Ok (VA (ARange [] 2 1 2 1048575)).
Proof.
  exists (colrange 1 3), {| x1 := 2; y1 := 1048576; x2 := 2; y2 := 1048576 |}, 2, 1048576.
  split; [exact ac_uwf|]. split; [apply cell_uwf; unfold MAX_COL, MAX_ROW; lia|].
  split; [unfold uinside, ax_in, MAX_COL, MAX_ROW; cbn; lia|].
  split; [unfold uinside, ax_in, MAX_COL, MAX_ROW; cbn; lia|].
  split; vm_compute; reflexivity.
Qed.
Print Assumptions C11_unbounded_last_row_refuted.

(* (A:C ** E1048576) ** F1 = A:F1048575 but A:C ** (E1048576 ** F1) = A:F1048576 *)
Theorem C11_unbounded_union_assoc_refuted :
  exists a b c x y, uwf a /\ uwf b /\ uwf c
    /\ bind (op_union (VA (unorm [] a)) (VA (unorm [] b))) (fun x => op_union x (VA (unorm [] c))) = Ok (VA x)
    /\ bind (op_union (VA (unorm [] b)) (VA (unorm [] c))) (fun x => op_union (VA (unorm [] a)) x) = Ok (VA y)
    /\ x <> y.
Proof.
  exists (colrange 1 3), {| x1 := 5; y1 := 1048576; x2 := 5; y2 := 1048576 |},
         {| x1 := 6; y1 := 1; x2 := 6; y2 := 1 |}, (ARange [] 1 0 6 1048575), (ARange [] 1 0 6 1048576).
  split; [exact ac_uwf|]. split; [apply cell_uwf; unfold MAX_COL, MAX_ROW; lia|].
  split; [apply cell_uwf; unfold MAX_COL, MAX_ROW; lia|].
  split; [vm_compute; reflexivity|]. split; [vm_compute; reflexivity|]. discriminate.
Qed.
Print Assumptions C11_unbounded_union_assoc_refuted.

(* A:C ** 2:5 is the whole sheet, stored as (0, 0, 16383, 1048575) and printed ":XFC1048575" *)
Theorem C11_unbounded_cols_rows_union :
  exists z, op_union (VA (unorm [] (colrange 1 3))) (VA (unorm [] (rowrange 2 5))) = Ok (VA z)
    /\ address z = [58; 88; 70; 67; 49; 48; 52; 56; 53; 55; 53] /\ create (address z) [] None = Raise ValueError.
Proof. exists (ARange [] 0 0 16383 1048575). repeat split; vm_compute; reflexivity. Qed.
Print Assumptions C11_unbounded_cols_rows_union.

(* the absolute form of the single column A:A, "$A$0:$A$0", reads back as a cell (1, 0) *)
Theorem C11_unbounded_abs_roundtrip_refuted :
  exists a, unbounded_on_sheet a /\ bind (abs_address a) (fun t => create t [] None) = Ok (VA (ACell [83] 1 0)).
Proof. exists (ARange [83] 1 0 1 0). split; [left; unfold MAX_COL; lia|vm_compute; reflexivity]. Qed.
Print Assumptions C11_unbounded_abs_roundtrip_refuted.
