(* Refuted/C15_total.v — "cells of any type in the range never make the
   function fail" is false in the model (advisory; witnesses = the findings). *)
From Coq Require Import ZArith List.
From PV Require Import Lib.Py Model.Criteria.
Import ListNotations.
Open Scope Z_scope.

Definition t_apple : pyval := VStr [97; 112; 112; 108; 101].
Definition t_a_star : pyval := VStr [97; 42].
Definition t_div0 : pyval := VStr [35; 68; 73; 86; 47; 48; 33].

(* COUNTIF({"apple";1}, "a*") raises AttributeError: x.lower() on a number *)
Theorem C15_total_refuted : exists rng crit, countif rng crit = Raise AttributeError.
Proof.
  exists (VTuple [VTuple [t_apple]; VTuple [VInt 1]]), t_a_star. vm_compute. reflexivity.
Qed.

(* ... and on a logical, through SUMIFS *)
Theorem C15_total_sumifs_refuted : exists rng crit,
  sumifs rng [rng; crit] = Raise AttributeError.
Proof.
  exists (VTuple [VTuple [t_apple; VBool true]]), t_a_star. vm_compute. reflexivity.
Qed.

(* an error value among the selected cells of the aggregated range:
   SUMIFS raises TypeError (sum() of the error text), MAXIFS returns the
   largest character of the error text *)
Theorem C15_error_cell_sum_refuted : exists agg rng crit,
  sumifs agg [rng; crit] = Raise TypeError.
Proof.
  exists (VTuple [VTuple [t_div0; VInt 2]]), (VTuple [VTuple [VInt 1; VInt 1]]), (VInt 1).
  vm_compute. reflexivity.
Qed.
Theorem C15_error_cell_max_refuted : exists agg rng crit,
  maxifs agg [rng; crit] = Ok (VStr [86]).
Proof.
  exists (VTuple [VTuple [t_div0; VInt 2]]), (VTuple [VTuple [VInt 1; VInt 1]]), (VInt 1).
  vm_compute. reflexivity.
Qed.
