(* Refuted/C12_order.v — "the report does not depend on the ORDER of the checked
   outputs" and "validate_calcs(outs1 + outs2) reports the union of the two
   reports" are FALSE for the cells BELOW an altered cell (advisory; what IS
   independent of order, repetition and choice of the outputs is the entry of
   every cell whose ancestors all carry consistent results: C12_decided_entries).
     A1 = 1 (input)   A2 = A1 + 1 (stored 5: ALTERED, true value 2)
     A3 = A2 + 1 (stored 3 = its from-scratch value)
   The stack's top is the LAST output.
     outputs [A2; A3]: A3 is popped first and recomputed from the altered A2 still
       in the cache: 6 against the stored 3 -> A3 AND A2 are reported
     outputs [A3; A2]: A2 is popped first and recomputed (2); then A3 recomputes to
       its stored 3 -> only A2 is reported
     outputs [A3] alone: A3, A2;  outputs [A2] alone: A2 — the union is {A3, A2},
       the run on [A3] ++ [A2] reports {A2}
   The property allows both (every reported cell depends on the altered one, and
   the altered one is always reported): no defect, but no order theorem either. *)
From Coq Require Import ZArith QArith List Lia.
From PV Require Import Lib.Py Model.Ops Model.Graph Model.GraphExpr Model.Validate Extract.C12.
From PV Require Import Proofs.C01Base Proofs.C01 Proofs.C12Base.
Import ListNotations.
Local Open Scope nat_scope.

Definition inp (v : pyval) : nodeinfo :=
  {| ni_input := true; ni_range := false; ni_deps := []; ni_inp0 := v;
     ni_stored := VNone; ni_formula := FNone |}.
Definition fml (ds : list nat) (st : pyval) (f : formula) : nodeinfo :=
  {| ni_input := false; ni_range := false; ni_deps := ds; ni_inp0 := VNone;
     ni_stored := st; ni_formula := f |}.

Theorem C12_order_refuted : exists nodes ftext,
  let W := mk_wb nodes in let sem := mk_sem nodes in
  let rep outs := vs_report (validate W sem ftext None outs) in
  wfb W = true
  /\ map (spec W sem (wb_inp0 W)) [1; 2] = [VInt 2; VInt 3]
  /\ map (wb_stored W) [1; 2] = [VInt 5; VInt 3]                 (* only A2 is altered *)
  /\ rep [1; 2] = [(2, (VInt 3, VInt 6)); (1, (VInt 5, VInt 2))]
  /\ rep [2; 1] = [(1, (VInt 5, VInt 2))]
  /\ rep [2] = [(2, (VInt 3, VInt 6)); (1, (VInt 5, VInt 2))]
  /\ rep [1] = [(1, (VInt 5, VInt 2))].
Proof.
  exists [ inp (VInt 1); fml [0] (VInt 5) (FBin Add (ORef 0) (OLit 1));
           fml [1] (VInt 3) (FBin Add (ORef 0) (OLit 1)) ].
  exists (fun _ => [61%Z]).
  cbn zeta. repeat split; vm_compute; reflexivity.
Qed.
Print Assumptions C12_order_refuted.
