(* Refuted/C07_shared.v — C07_noninterference needs the thread-locality: with ONE
   namespace for all threads (what a plain module-level object would be) two
   iterative evaluations with different settings disturb each other.  Advisory. *)
From Coq Require Import ZArith QArith List.
From PV Require Import Lib.Py Model.Iter Model.Threads Proofs.C07.
Import ListNotations.

Theorem C07_shared_refuted :
  exists cf kinds comps sched t,
    (forall a b, a <> b -> c_comp cf a <> c_comp cf b) /\
    m_passes (g_m (run cf sched (fresh_process kinds comps)) t)
    <> m_passes (g_m (run cf (only t sched) (fresh_process kinds comps)) t).
Proof.
  exists shared_cf, two_kinds, (fun _ => init_comp wbA), sched2, 0%nat.
  split; [intros a b H; exact H|]. vm_compute. discriminate.
Qed.
