(* Refuted/C13_adjacent_ranges.v — advisory (built only through EXTRA_TARGETS).
   "Evaluating a range gives every cell its own value" is false in the faithful
   model of _OpxRange.__new__ (Model/CseCells.v range_formula): a range that
   starts at the top left of an array formula's reference range and runs on
   into an adjacent reference range whose formula text starts with the same
   text (the same formula entered twice, or e.g. =A1:B1*2 next to =A1:B1*20) is
   taken for ONE array formula over the larger range.  Witness: =A1:B1*2 over
   F10:G10 and again over H10:I10; the range F10:I10 evaluates to
   (2, 4, #N/A, #N/A) while H10, I10 show 2, 4 — SUM(F10:I10) is #N/A. *)
From Coq Require Import ZArith QArith List.
From PV Require Import Lib.Py Model.Ops Model.Arrays Model.CseCells.
From PV Require Gen.excelutil.
Import ListNotations.
Open Scope Z_scope.

Theorem C13_adjacent_ranges_refuted :
  exists (f : str) (result : pyval) (cells : list (list sheet_cell)),
    (* the cells of F10:I10: two array formulas with the text f over adjacent 1 x 2 ranges *)
    cells = [hd [] (sheet_rows f 1 2) ++ hd [] (sheet_rows f 1 2)] /\
    (* the 1 x 4 range is given the formula f … *)
    range_formula cells = Some f /\
    (* … and evaluated as one array formula of size 1 x 4 *)
    cse_range_value 1 4 result = Ok (matrix [[VInt 2; VInt 4; NA; NA]]) /\
    (* while its third and fourth cells are members (1, 1), (1, 2) of the second formula *)
    cse_member 1 2 result 1 1 = Ok (VInt 2) /\ cse_member 1 2 result 1 2 = Ok (VInt 4).
Proof.
  exists [65; 49; 58; 66; 49; 42; 50], (matrix [[VInt 2; VInt 4]]), 
         [hd [] (sheet_rows [65; 49; 58; 66; 49; 42; 50] 1 2) ++ hd [] (sheet_rows [65; 49; 58; 66; 49; 42; 50] 1 2)].
  split; [reflexivity|]. split; [vm_compute; reflexivity|]. split; [vm_compute; reflexivity|].
  split; vm_compute; reflexivity.
Qed.
Print Assumptions C13_adjacent_ranges_refuted.
