(* Refuted/C12_formula_text.v — C12_complete / C12_no_silent_skip without the
   side condition "the stored value is not the text of the cell's formula":
   lines 635-637 of validate_calcs
       if original_value == str(cell.formula): … continue
   skip the cell BEFORE verified.add and before its precedents are pushed.
     A1 = 1 (input)   A2 = A1 + 1 (stored 2)
     A3 = A2 * 2      (stored result replaced by the text "=A2*2"; true value 4)
   validate_calcs(output_addrs=[A3])  ->  {}  : the altered cell is not
   reported, it is not in [verified], and its precedent A2 is never looked at.
   Concrete formula semantics of the differential runs; reproduced on the
   implementation by the 'formula-text' correspondence stream of
   harness/props/c12.py. *)
From Coq Require Import ZArith QArith List Lia.
From PV Require Import Lib.Py Model.Ops Model.Graph Model.GraphExpr Model.Validate Extract.C12.
From PV Require Import Proofs.C01Base Proofs.C01 Proofs.C12Base Proofs.C12.
Import ListNotations.
Local Open Scope nat_scope.

Definition inp (v : pyval) : nodeinfo :=
  {| ni_input := true; ni_range := false; ni_deps := []; ni_inp0 := v;
     ni_stored := VNone; ni_formula := FNone |}.
Definition fml (ds : list nat) (st : pyval) (f : formula) : nodeinfo :=
  {| ni_input := false; ni_range := false; ni_deps := ds; ni_inp0 := VNone;
     ni_stored := st; ni_formula := f |}.

Definition txt3 : list Z := [61; 65; 50; 42; 50]%Z.      (* "=A2*2" *)

Theorem C12_formula_text_refuted : exists nodes ftext outs p v',
  let W := mk_wb nodes in let sem := mk_sem nodes in
  let vs := validate (perturb W p v') sem ftext None outs in
  wfb W = true
  /\ map (wb_stored W) [1; 2] = map (spec W sem (wb_inp0 W)) [1; 2]     (* consistent before the change *)
  /\ In p outs /\ is_fcell W p = true /\ v' <> VNone
  /\ close_enough None (spec W sem (wb_inp0 W) p) v' = false            (* altered beyond any tolerance *)
  /\ v' = VStr (ftext p)                                                (* … to the formula's own text *)
  /\ vs_todo vs = [] /\ vs_report vs = []                               (* nothing is reported *)
  /\ mem p (vs_verified vs) = false /\ mem 1 (vs_verified vs) = false.  (* p and its precedent are skipped *)
Proof.
  exists [ inp (VInt 1); fml [0] (VInt 2) (FBin Add (ORef 0) (OLit 1));
           fml [1] (VInt 4) (FBin Mult (ORef 0) (OLit 2)) ].
  exists (fun n => if Nat.eqb n 2 then txt3 else [61%Z]). exists [2]. exists 2. exists (VStr txt3).
  cbn zeta. repeat split; try (vm_compute; reflexivity); try discriminate.
  left. reflexivity.
Qed.
