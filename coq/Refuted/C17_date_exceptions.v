(* Refuted/C17_date_exceptions.v — advisory.  "Out-of-range results are #NUM!,
   never an exception" is proved for DATE with ANY year and month and |day| <= 25000,
   EDATE/EOMONTH with ANY serial number and shift, and YEAR/MONTH/DAY/WEEKDAY of
   every integer (Props/C17.v C17_date_total_partial, C17_serial_total).  Beyond the
   day bound the generated model of date_time.py DOES raise, as the implementation
   does: normalize_year recurses once per month carried, so DATE(2000, 1, 40000) needs
   1300 nested calls; the implementation raises RecursionError (limit 1000), the model
   (budget 900 calls) answers OutOfFuel.  Known finding C17-day-recursion; outside the
   quantifier of the property (days -40..60).
   (The TypeError class of this file's first version — February of a year <= 0 —
   was removed by repair 7da3fd9: Props/C17.v C17_date_before_year1.) *)
From Coq Require Import ZArith List.
From PV Require Import Lib.Py Lib.PyDate.
From PV Require Gen.excelutil Gen.date_time.
Import ListNotations.
Open Scope Z_scope.

Theorem C17_date_exceptions_refuted :
  date_time.f_date (VInt 2000) (VInt 1) (VInt 40000) = Raise OutOfFuel
  /\ date_time.f_date (VInt 2000) (VInt 1) (VInt (-40000)) = Raise OutOfFuel.
Proof. vm_compute. repeat split; reflexivity. Qed.
Print Assumptions C17_date_exceptions_refuted.
