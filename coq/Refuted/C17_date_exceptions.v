(* Refuted/C17_date_exceptions.v — advisory.  "Out-of-range results are #NUM!,
   never an exception" is proved for DATE with month >= -11000 and |day| <= 25000,
   EDATE/EOMONTH with shift >= -10000 and YEAR/MONTH/DAY/WEEKDAY of every integer
   (Props/C17.v C17_date_total, C17_months_total, C17_serial_total).  Beyond those
   bounds the generated model of date_time.py DOES raise, as the implementation does:
   - normalize_year reaching February of a year <= 0 calls is_leap_year(year <= 0),
     which raises TypeError: DATE(1900, -22810, 1), EOMONTH(100, -22815), EDATE(100, -22814);
   - normalize_year recurses once per month carried: DATE(2000, 1, 40000) needs 1300 nested
     calls; the implementation raises RecursionError (limit 1000), the model (budget 900
     calls) answers OutOfFuel.
   Both are outside the quantifier of the property (months/days -40..60, shifts -1200..1200). *)
From Coq Require Import ZArith List.
From PV Require Import Lib.Py Lib.PyDate.
From PV Require Gen.excelutil Gen.date_time.
Import ListNotations.
Open Scope Z_scope.

Theorem C17_date_exceptions_refuted :
  date_time.f_date (VInt 1900) (VInt (-22810)) (VInt 1) = Raise TypeError
  /\ date_time.f_eomonth (VInt 100) (VInt (-22815)) = Raise TypeError
  /\ date_time.f_edate (VInt 100) (VInt (-22814)) = Raise TypeError
  /\ date_time.f_date (VInt 2000) (VInt 1) (VInt 40000) = Raise OutOfFuel
  /\ date_time.f_date (VInt 2000) (VInt 1) (VInt (-40000)) = Raise OutOfFuel.
Proof. vm_compute. repeat split; reflexivity. Qed.
Print Assumptions C17_date_exceptions_refuted.
