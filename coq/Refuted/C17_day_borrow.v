(* Refuted/C17_day_borrow.v — advisory.  The property's day carry
   DATE(y, m, d) = DATE(y, m, 1) + d - 1 holds for d >= 1 (Props/C17.v
   C17_day_carry) but is REFUTED for d <= 0 by the generated model of
   date_time.normalize_year: a day <= 0 borrows the length of month m instead of
   month m - 1, so DATE(2000, 3, 0) is March 2 (36587) and not Feb 29 (36585).
   (Known finding C17-day-borrow.) *)
From Coq Require Import ZArith List.
From PV Require Import Lib.Py Lib.PyDate.
From PV Require Gen.date_time.
Import ListNotations.
Open Scope Z_scope.

Theorem C17_day_borrow_refuted :
  exists y m d n1, 1900 <= y <= 9999 /\ 1 <= m <= 12 /\ d <= 0
    /\ date_time.f_date (VInt y) (VInt m) (VInt 1) = Ok (VInt n1)
    /\ date_time.f_date (VInt y) (VInt m) (VInt d) = Ok (VInt (n1 + d - 1 + 2)).
Proof.
  exists 2000, 3, 0, 36586. vm_compute. repeat split; discriminate.
Qed.
Print Assumptions C17_day_borrow_refuted.
