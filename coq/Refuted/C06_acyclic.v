(* Refuted/C06_acyclic.v — the acyclic clause of C06 without the restrictions of
   C06_acyclic_partial is false in the model (and in the implementation: the
   harness exhibits the same two histories on the real ExcelCompiler). Advisory. *)
From Coq Require Import ZArith QArith List.
From PV Require Import Lib.Py Model.Iter.
Import ListNotations.
Open Scope Q_scope.

Definition konst (q : Q) : cellspec := {| stored := Some q; formula := None |}.

(* A1 = 1, B1 = 1 + A1, C1 = 2 * B1: after evaluate(B1) = 2 the first iterative
   evaluate of C1 returns the blank the cell was constructed with, not 4 *)
Definition w1 : wbook :=
  {| w_cells := [konst 1; {| stored := None; formula := Some (1, [TCell 1 0%nat]) |};
                 {| stored := None; formula := Some (0, [TCell 2 1%nat]) |}]; w_ranges := [] |}.

Theorem C06_acyclic_first_use_refuted :
  exists w t u it tolv st1 st2, w_ranges w = [] /\ is_formula w t = true /\
    evaluate_iterative w u it tolv (init_state w) = Ok (Some 2, st1) /\
    evaluate_iterative w t it tolv st1 = Ok (None, st2).
Proof.
  exists w1, 2%nat, 1%nat, 5%Z, 1. do 2 eexists. split; [reflexivity|].
  split; [vm_compute; reflexivity|]. split; vm_compute; reflexivity.
Qed.

(* A1..A3 = 1,2,3; B1 = SUM(A1:A3): 6; after set_value(A1, 10) still 6, not 15 *)
Definition w2 : wbook :=
  {| w_cells := [konst 1; konst 2; konst 3; {| stored := None; formula := Some (0, [TSum 1 0%nat]) |}];
     w_ranges := [[0; 1; 2]%nat] |}.

Theorem C06_acyclic_range_refuted :
  exists w t c it tolv st1 st2 st3 v,
    evaluate_iterative w t it tolv (init_state w) = Ok (Some 6, st1) /\
    set_value c (Some 10) st1 = Ok st2 /\
    evaluate_iterative w t it tolv st2 = Ok (v, st3) /\ val_eqb v (Some 6) = true.
Proof.
  exists w2, 3%nat, 0%nat, 5%Z, 1. do 4 eexists.
  split; [vm_compute; reflexivity|]. split; [vm_compute; reflexivity|]. split; vm_compute; reflexivity.
Qed.
