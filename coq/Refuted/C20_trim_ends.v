(* Refuted: "TRIM leaves no space at the ends".  TRIM(" a  b ") = " a b ". *)
From Coq Require Import ZArith List.
From PV Require Import Lib.Py Model.Text Proofs.C20.
Import ListNotations.
Open Scope Z_scope.
Theorem C20_trim_ends_refuted :
  exists s t, not_code s /\ X_trim [VStr s] = Ok (VStr t) /\ hd 0 t = 32 /\ last t 0 = 32.
Proof. exists [32; 97; 32; 32; 98; 32], [32; 97; 32; 98; 32]. vm_compute. auto. Qed.
Print Assumptions C20_trim_ends_refuted.
