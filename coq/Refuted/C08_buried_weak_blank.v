(* Refuted/C08_buried_weak_blank.v — advisory (not in the default build): why
   C08_preserve_buried_weak_partial has the extra hypothesis [nonblank_write].
   Under the WEAK non-blank condition a node whose meaning is "the value of my
   precedent" is admissible when the precedent is a formula cell.  If that
   formula cell is a buried input (frozen by the trim) and is written BLANK, the
   reference node computes a blank, i.e. stays "needs calc" — and _reset stops
   at a cell that needs calc, so a later write to the buried input does not
   reach the dependants of the reference node: they keep the stale value.
     0: X = 1 (input)   1: P = f1(X)   2: R = "the value of P"   3: D = f3(R)
     trim([P], [D]);  P := blank;  evaluate D;  P := 5;  evaluate D
   the trimmed machine answers 3 twice; the from-scratch value after P := 5 is 8.
   Not an implementation finding: the only reference cells the compiler makes
   (S!B:B) stand for a RANGE node, which is never frozen and never blank. *)
From Coq Require Import ZArith List Arith Lia.
From PV Require Import Lib.Py Model.Graph Model.Trim.
From PV Require Import Proofs.C01Base Proofs.C01Inv Proofs.C01 Proofs.C01Example Proofs.C01Weak
                       Proofs.C01Alias Proofs.C08 Proofs.C08Weak.
Import ListNotations.
Local Open Scope nat_scope.

Definition bw_sem (n : nat) (vals : list pyval) : pyval :=
  if n =? 2 then nth 0 vals VNone else VInt (Z.of_nat n + tot (VTuple vals)).
Definition bwW : workbook :=
  {| wb_n := 4;
     wb_input := fun n => n =? 0;
     wb_deps := fun n => match n with 1 => [0] | 2 => [1] | 3 => [2] | _ => [] end;
     wb_range := fun _ => false;
     wb_inp0 := fun n => match n with 0 => VInt 1 | _ => VNone end;
     wb_stored := fun _ => VNone |}.

Lemma bw_weak : sem_nonblank_weak bwW bw_sem.
Proof.
  apply alias_weak. intros n L I. destruct (Nat.eq_dec n 2) as [->|NE].
  - left. exists 1. repeat split; try reflexivity. cbn. lia.
  - right. intros vals. unfold bw_sem. destruct (Nat.eqb_spec n 2); [congruence|discriminate].
Qed.

Theorem C08_buried_weak_blank_refuted :
  let T := trim bwW bw_sem [1] [3] (init bwW) in
  let h := [SetValue 1 VNone; Evaluate 3; SetValue 1 (VInt 5); Evaluate 3] in
  wfb bwW = true /\ sem_nonblank_weak bwW bw_sem
  /\ (wb_input (tr_wb T) 1, st_built (tr_st T) 1, st_cache (tr_st T) 1) = (true, true, VInt 2)
  /\ Forall (io_op [1] [3]) h /\ ~ Forall (nonblank_write bwW) h
  /\ snd (run (tr_wb T) bw_sem (tr_st T) h) = [VNone; VInt 3; VNone; VInt 3]
  /\ run_spec (tr_wb T) bw_sem (st_cache (tr_st T)) h = [VNone; VInt 3; VNone; VInt 8].
Proof.
  cbn zeta. split; [reflexivity|]. split; [apply bw_weak|]. split; [vm_compute; reflexivity|].
  split; [repeat constructor|]. split.
  - intros F. inversion F as [|? ? H _]; subst. destruct H as [H|H]; [discriminate|now apply H].
  - split; vm_compute; reflexivity.
Qed.
