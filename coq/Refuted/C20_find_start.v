(* Refuted: "FIND with a start position below 1 is #VALUE!" and "FIND never
   raises".  FIND("c","abc",0) = 3 (start 0 becomes Python index -1);
   FIND("c","abc",1.5) raises TypeError (str.find with a float index). *)
From Coq Require Import ZArith QArith List.
From PV Require Import Lib.Py Model.Text Proofs.C20.
Import ListNotations.
Open Scope Z_scope.
Theorem C20_find_start0_refuted :
  exists f w st p, not_code f /\ not_code w /\ st < 1
                   /\ X_find [VStr f; VStr w; VInt st] = Ok (VInt p).
Proof. exists [99], [97; 98; 99], 0, 3. vm_compute. auto. Qed.
Print Assumptions C20_find_start0_refuted.
Theorem C20_find_fraction_refuted :
  exists f w q, X_find [VStr f; VStr w; VFloat q] = Raise TypeError.
Proof. exists [99], [97; 98; 99], (3 # 2)%Q. vm_compute. reflexivity. Qed.
Print Assumptions C20_find_fraction_refuted.
