(* Refuted/C16_wildcard_tilde.v — "?/* wildcards for text": "~*" is meant to be
   a literal asterisk (excelutil.STAR_RE = r'\*(?<!~)'), but the look-behind
   tests the asterisk itself, so "a~*" is the pattern a, ~, anything: it finds
   "a~bc" and not the cell "a*". *)
From Coq Require Import ZArith QArith List.
From PV Require Import Lib.Py Model.LookupCore.
Import ListNotations.
Open Scope Z_scope.

Theorem C16_wildcard_tilde_refuted : exists p a,
  p = VStr [97; 126; 42] /\ a = [VStr [97; 42]; VStr [97; 126; 98; 99]]
  /\ match_ p (VTuple a) (VInt 0) = Ok (VInt 2).
Proof. eexists. eexists. split; [reflexivity|]. split; [reflexivity|]. vm_compute. reflexivity. Qed.
