(* Refuted/C08_range_input.v — C08 with an input given as a RANGE: trim_graph
   walks the dependants of the range NODE only (walk_dependents(cell_map[addr]),
   lines 521-523), so a formula that reads a member cell of the range directly
   is not "needed": walk_precedents freezes it to its current value, and a
   later write to the range (set_value writes the member cells) leaves it stale.
     A1 = 1, A2 = 2 (inputs)   A1:A2 (range node)   A3 = A1 + 10   A4 = SUM(A1:A2) + A3
     trim_graph(['A1:A2'], ['A4']);  set A1 = 5;  evaluate A4
   untrimmed: 5 + 2 + 15 = 22.  The model freezes A3 at 11 and answers 18.
   The implementation (same input, /repo at 4ad9eb7) is wrong too but answers
   another number: it additionally resets the frozen A3 through the edges that
   stay in dep_graph (A3 is then empty for ever: no formula), SUM + None = 7
   (with both members written, (5, 7): untrimmed 27, trimmed 12).  The machine
   after a trim has no edges into a frozen cell, which is exact for inputs that
   are cells (C08_frozen_independent: a frozen cell is never below an input)
   and is NOT exact here.  Concrete formula semantics of the differential runs. *)
From Coq Require Import ZArith List Lia.
From PV Require Import Lib.Py Model.Ops Model.Graph Model.GraphExpr Model.Trim Extract.C08.
From PV Require Import Proofs.C01Base Proofs.C01Inv Proofs.C01.
Import ListNotations.
Local Open Scope nat_scope.

Definition inp (v : pyval) : nodeinfo :=
  {| ni_input := true; ni_range := false; ni_deps := []; ni_inp0 := v;
     ni_stored := VNone; ni_formula := FNone |}.
Definition fml (ds : list nat) (f : formula) : nodeinfo :=
  {| ni_input := false; ni_range := false; ni_deps := ds; ni_inp0 := VNone;
     ni_stored := VNone; ni_formula := f |}.
Definition rng (ds : list nat) (cols : nat) : nodeinfo :=
  {| ni_input := false; ni_range := true; ni_deps := ds; ni_inp0 := VNone;
     ni_stored := VNone; ni_formula := FRange cols |}.

(* node 4 stands for SUM(A1:A2); node 5 = node 4 + A3 is the output *)
Theorem C08_range_input_refuted : exists nodes I O h,
  let W := mk_wb nodes in let sem := mk_sem nodes in
  let T := trim W sem I O (init W) in
  wfb W = true
  /\ map (wb_stored W) (seq 0 (wb_n W)) = [VNone; VNone; VNone; VNone; VNone; VNone]
  /\ I = [2] /\ wb_range W 2 = true /\ wb_deps W 2 = [0; 1]        (* the input is the range A1:A2 *)
  /\ h = [SetValue 0 (VInt 5); Evaluate 5]                          (* a write to its member A1 *)
  /\ map (tr_frz T) (seq 0 (wb_n W)) = [true; true; false; true; false; false]   (* A3 is frozen *)
  /\ snd (run W sem (build_all W sem O (init W)) h) = [VNone; VInt 22]
  /\ snd (run (tr_wb T) sem (tr_st T) h) = [VNone; VInt 18].
Proof.
  exists [ inp (VInt 1); inp (VInt 2); rng [0; 1] 1;
           fml [0] (FBin Add (ORef 0) (OLit 10));
           fml [2] (FAgg 0 (ORef 0));
           fml [4; 3] (FBin Add (ORef 0) (ORef 1)) ].
  exists [2], [5], [SetValue 0 (VInt 5); Evaluate 5].
  cbn zeta. repeat split; vm_compute; reflexivity.
Qed.
