(* Refuted: "RIGHT(s,k) is the last k characters" for a fractional count below 1:
   RIGHT("abc", 0.5) = "abc" (-int(0.5) = 0, and s[0:] is the whole text). *)
From Coq Require Import ZArith QArith List.
From PV Require Import Lib.Py Model.Text Proofs.C20.
Import ListNotations.
Open Scope Z_scope.
Theorem C20_right_fraction_refuted :
  exists s q, (0 < q < 1)%Q /\ s <> [] /\ X_right [VStr s; VFloat q] = Ok (VStr s).
Proof.
  exists [97; 98; 99], (1 # 2)%Q. split; [split; reflexivity|].
  split; [discriminate|]. vm_compute. reflexivity.
Qed.
Print Assumptions C20_right_fraction_refuted.
