(* Refuted/C09_stored_results.v — C09 without "no stored results": in a file
   with PARTIALLY stored results a failing build leaves a new range node empty
   under a dependant that holds its stored value, so the retry returns the
   stored value instead of failing, and a later upstream write does not reset it.
     A1 = 1 (input)   A2 = BOOMID(A1) (raises; no stored result)
     A1:A2 (range node)   A3 = SUM(A1:A2) (stored result 8)
   evaluate A3 raises FormulaEvalError (the new range node is evaluated while
   the graph is built); evaluate A3 again returns 8; set A1 = 100; evaluate A3
   returns 8 — its from-scratch evaluation raises.  The invariant's closure
   clause is broken in that state (an empty built range node with a non-empty
   dependant).  Reproduced on the implementation with an .xlsx whose sheet XML
   has a cached value for A3 only (see the final report / harness predicate
   C09-stored-partial-retry-returns-stored). *)
From Coq Require Import ZArith List Lia.
From PV Require Import Lib.Py Model.Ops Model.Graph Model.GraphExpr Model.Fail Extract.C09.
From PV Require Import Proofs.C01Base.
Import ListNotations.
Local Open Scope nat_scope.

Definition inp (v : pyval) : nodeinfo :=
  {| ni_input := true; ni_range := false; ni_deps := []; ni_inp0 := v;
     ni_stored := VNone; ni_formula := FNone |}.
Definition fml (ds : list nat) (st : pyval) (f : formula) : nodeinfo :=
  {| ni_input := false; ni_range := false; ni_deps := ds; ni_inp0 := VNone;
     ni_stored := st; ni_formula := f |}.
Definition rng (ds : list nat) (cols : nat) : nodeinfo :=
  {| ni_input := false; ni_range := true; ni_deps := ds; ni_inp0 := VNone;
     ni_stored := VNone; ni_formula := FRange cols |}.

Theorem C09_stored_results_refuted : exists nodes faults h,
  let W := mk_wb nodes in
  let fsem := mk_fsem nodes faults (fun n => Nat.eqb n 1) in
  let fpre := mk_fpre faults in
  let s := fst (run_f W fsem fpre (gen_order W) (init W) h) in
  wfb W = true
  /\ map (wb_stored W) (seq 0 (wb_n W)) = [VNone; VNone; VNone; VInt 8]
  /\ snd (run_f W fsem fpre (gen_order W) (init W) h)
     = [FRaise EFormula; FVal (VInt 8); FVal VNone; FVal (VInt 8)]
  /\ is_raise (fspec W fsem fpre (st_cache s) 3) = true
  /\ map (st_built s) [2; 3] = [true; true] /\ map (st_cache s) [2; 3] = [VNone; VInt 8].
Proof.
  exists [ inp (VInt 1); fml [0] VNone (FRef (ORef 0)); rng [0; 1] 1; fml [2] (VInt 8) (FAgg 0 (ORef 0)) ].
  exists [ NoFault; Plugin; NoFault; NoFault ].
  exists [ Evaluate 3; Evaluate 3; SetValue 0 (VInt 100); Evaluate 3 ].
  cbn zeta. repeat split; vm_compute; reflexivity.
Qed.
