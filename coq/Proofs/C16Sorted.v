(* Proofs/C16Sorted.v — MATCH(v, a, 1) on data sorted ascending in Excel order
   (numbers < text < logicals < error codes, within a type by value, text
   case-insensitively; duplicates allowed; blanks only at the two ends):
   the position returned holds the largest value <= v among the cells of v's
   type — the LAST such position when the maximum is repeated — and #N/A is
   returned exactly when there is no such cell.  Any length. *)
From Coq Require Import ZArith QArith List Bool Lia.
From PV Require Import Lib.Py Model.Ops Proofs.C10 Proofs.C10Order Model.LookupCore Proofs.C16
  Proofs.C16Order.
Import ListNotations.
Open Scope Z_scope.

(* ------------------------------------------------------------ the hypothesis *)
(* blanks, then non-blank cells whose keys ascend (adjacent pairs <=), then
   blanks; either run of blanks may be empty, so may the middle *)
Definition excel_ascending (a : list pyval) : Prop :=
  exists nl mid nt ks, a = repeat VNone nl ++ mid ++ repeat VNone nt
    /\ Forall (fun c => c <> VNone) mid /\ mapM abs_key mid = Ok ks /\ ascending ks.

(* "c is a non-blank cell of x's type whose value is <= x" (k its key) *)
Definition holds_le (x : key * pyval) (c : pyval) (k : key) : Prop :=
  c <> VNone /\ abs_key c = Ok k /\ fst k = fst (fst x) /\ kle k (fst x).

(* ------------------------------------------------------------------ lists *)
Lemma lead_none_blanks n l : lead_none (repeat VNone n ++ l) = (n + lead_none l)%nat.
Proof. induction n as [|n IH]; [reflexivity|]. cbn [repeat app lead_none]. rewrite IH. reflexivity. Qed.

Lemma lead_none_nonblank l r : Forall (fun c => c <> VNone) l -> l <> [] -> lead_none (l ++ r) = 0%nat.
Proof.
  destruct l as [|c l]; [congruence|]. intros H _. inversion H as [|? ? Hc _]; subst.
  destruct c; try reflexivity. congruence.
Qed.

Lemma rev_blanks n : rev (repeat VNone n) = repeat VNone n.
Proof.
  induction n as [|n IH]; [reflexivity|]. cbn [repeat rev]. rewrite IH.
  clear IH. induction n as [|n IH]; [reflexivity|]. cbn [repeat app]. rewrite IH. reflexivity.
Qed.

Lemma repeat_nth {A} (x y : A) n j : nth_error (repeat x n) j = Some y -> y = x.
Proof. intros H. apply nth_error_In in H. apply repeat_spec in H. exact H. Qed.

Lemma blanks_nth n j : (j < n)%nat -> nth_error (repeat VNone n) j = Some VNone.
Proof.
  revert j. induction n as [|n IH]; intros j Hj; [lia|]. destruct j as [|j]; [reflexivity|].
  cbn [repeat nth_error]. apply IH. lia.
Qed.

Lemma nth_mid {A} (l1 l2 l3 : list A) q : (q < length l2)%nat ->
  nth_error (l1 ++ l2 ++ l3) (length l1 + q) = nth_error l2 q.
Proof.
  intros H. rewrite nth_error_app2 by lia. replace (length l1 + q - length l1)%nat with q by lia.
  apply nth_error_app1. exact H.
Qed.

(* a non-blank cell of blanks ++ mid ++ blanks lies in mid *)
Lemma nonblank_in_mid nl mid nt j c :
  nth_error (repeat VNone nl ++ mid ++ repeat VNone nt) j = Some c -> c <> VNone ->
  exists q, j = (nl + q)%nat /\ nth_error mid q = Some c.
Proof.
  intros H Hc. destruct (Nat.lt_ge_cases j nl) as [Hj|Hj].
  - rewrite nth_error_app1 in H by (rewrite repeat_length; exact Hj).
    apply repeat_nth in H. congruence.
  - rewrite nth_error_app2 in H by (rewrite repeat_length; exact Hj). rewrite repeat_length in H.
    exists (j - nl)%nat. split; [lia|].
    destruct (Nat.lt_ge_cases (j - nl) (length mid)) as [Hq|Hq].
    + rewrite nth_error_app1 in H by exact Hq. exact H.
    + rewrite nth_error_app2 in H by exact Hq. apply repeat_nth in H. congruence.
Qed.

Lemma firstn_snoc {A} (l : list A) n c : nth_error l n = Some c -> firstn (S n) l = firstn n l ++ [c].
Proof.
  revert n. induction l as [|d l IH]; intros [|n] H; cbn [nth_error] in H; try discriminate.
  - injection H as <-. reflexivity.
  - rewrite (firstn_cons (S n)), (firstn_cons n), (IH n H). reflexivity.
Qed.

Lemma nth_firstn {A} (l : list A) m q : (q < m)%nat -> nth_error (firstn m l) q = nth_error l q.
Proof.
  revert m q. induction l as [|d l IH]; intros m q H.
  - rewrite firstn_nil. reflexivity.
  - destruct m as [|m]; [lia|]. rewrite firstn_cons. destruct q as [|q]; [reflexivity|].
    cbn [nth_error]. apply IH. lia.
Qed.

Lemma mapM_app {A B} (f : A -> res B) l1 l2 k1 k2 :
  mapM f l1 = Ok k1 -> mapM f l2 = Ok k2 -> mapM f (l1 ++ l2) = Ok (k1 ++ k2).
Proof.
  revert k1. induction l1 as [|a l1 IH]; intros k1; cbn [mapM app].
  - intros H. injection H as <-. auto.
  - destruct (f a) as [b|e]; cbn [bind]; [|discriminate].
    destruct (mapM f l1) as [k1'|e]; cbn [bind]; [|discriminate].
    intros H H2. injection H as <-. rewrite (IH k1' eq_refl H2). reflexivity.
Qed.

Lemma mapM_length {A B} (f : A -> res B) l ks : mapM f l = Ok ks -> length ks = length l.
Proof. intros H. apply (mapM_nth f l ks H). Qed.

(* ---------------------------------------------------------- keys of cells *)
Lemma rel_key_nonblank x c : c <> VNone -> rel_key x c = abs_key c.
Proof. intros H. unfold rel_key, abs_key. destruct c; try reflexivity. congruence. Qed.

Lemma mapM_rel_blanks x n :
  mapM (rel_key x) (repeat VNone n) = Ok (repeat (fst (fst x), snd x) n).
Proof.
  induction n as [|n IH]; [reflexivity|]. cbn [repeat mapM]. rewrite IH. reflexivity.
Qed.

Lemma mapM_rel_mid x mid : Forall (fun c => c <> VNone) mid ->
  mapM (rel_key x) mid = mapM abs_key mid.
Proof.
  induction 1 as [|c l Hc _ IH]; [reflexivity|]. cbn [mapM].
  rewrite (rel_key_nonblank x c Hc), IH. reflexivity.
Qed.

Lemma abs_key_blank : abs_key VNone = Ok (0, VFloat 0).
Proof. reflexivity. Qed.

(* ------------------------------------------------------------ the back-off *)
Lemma backoff_blanks t n : backoff t (repeat VNone n) = Ok (if 0 =? t then n else 0%nat).
Proof.
  induction n as [|n IH]; [destruct (0 =? t); reflexivity|].
  cbn [repeat]. cbn [backoff]. rewrite abs_key_blank. cbn [bind fst].
  destruct (0 =? t) eqn:E; [|exact IH]. cbn [length]. rewrite repeat_length. reflexivity.
Qed.

Lemma backoff_skip t l1 l2 :
  Forall (fun c => exists k, abs_key c = Ok k /\ fst k <> t) l1 ->
  backoff t (l1 ++ l2) = backoff t l2.
Proof.
  induction 1 as [|c l (k & Hk & Hne) _ IH]; [reflexivity|].
  cbn [app backoff]. rewrite Hk. cbn [bind].
  replace (fst k =? t) with false by (symmetry; apply Z.eqb_neq; exact Hne). exact IH.
Qed.

Lemma backoff_stop t c l k : abs_key c = Ok k -> fst k = t -> backoff t (c :: l) = Ok (S (length l)).
Proof.
  intros Hk Ht. cbn [backoff]. rewrite Hk. cbn [bind].
  replace (fst k =? t) with true by (symmetry; apply Z.eqb_eq; exact Ht). reflexivity.
Qed.

(* the last statement of the type-1 branch *)
Definition finish (a : list pyval) (r' : nat) : res pyval :=
  match r' with
  | O => Ok NA
  | S j => match nth_error a j with
           | Some VNone => Ok NA
           | Some _ => Ok (VInt (Z.of_nat r'))
           | None => Raise IndexError
           end
  end.

Lemma match1_unfold x a :
  match1 x a
  = (r <- bisect_right (x_lt_cell x) a (Z.of_nat (lead_none a))
            (Z.of_nat (length a - lead_none (rev a))) ;;
     r' <- backoff (fst (fst x)) (rev (firstn (Z.to_nat r) a)) ;; finish a r').
Proof. reflexivity. Qed.

(* stopping on the leading blanks (or at the very beginning) is #N/A *)
Lemma finish_blanks t nl rest :
  finish (repeat VNone nl ++ rest) (if 0 =? t then nl else 0%nat) = Ok NA.
Proof.
  destruct (0 =? t); [|reflexivity]. destruct nl as [|j]; [reflexivity|].
  unfold finish. rewrite nth_error_app1 by (rewrite repeat_length; lia).
  rewrite blanks_nth by lia. reflexivity.
Qed.

Lemma type_nonneg k : kwf k -> 0 <= fst k.
Proof.
  destruct k as [t v]. unfold kwf. cbn [fst snd]. destruct v; try contradiction; lia.
Qed.

(* -------------------------------------------------------------- the theorem *)
Section Match1.
  Variables (v : pyval) (x : key * pyval) (nl nt : nat) (mid : list pyval) (ks : list key).
  Hypothesis Hv : lv_key v = Ok x.
  Hypothesis Hnb : Forall (fun c => c <> VNone) mid.
  Hypothesis Hks : mapM abs_key mid = Ok ks.
  Hypothesis Hasc : ascending ks.

  Let a := repeat VNone nl ++ mid ++ repeat VNone nt.
  Let tx := fst (fst x).

  Lemma Wx : kwf (fst x).
  Proof. exact (proj1 (lv_key_wf v x Hv)). Qed.
  Lemma Wks : Forall kwf ks.
  Proof. exact (mapM_abs_wf mid ks Hks). Qed.
  Lemma Hlen : length ks = length mid.
  Proof. exact (mapM_length abs_key mid ks Hks). Qed.

  Lemma mid_key q c : nth_error mid q = Some c ->
    exists k, abs_key c = Ok k /\ nth_error ks q = Some k /\ kwf k.
  Proof.
    intros H. destruct (proj2 (mapM_nth abs_key mid ks Hks) q c H) as (k & Hk & Hn).
    exists k. repeat split; auto. eapply abs_key_wf; eauto.
  Qed.

  Lemma pairwise i j ki kj : (i <= j)%nat ->
    nth_error ks i = Some ki -> nth_error ks j = Some kj -> kle ki kj.
  Proof. apply ascending_pairwise; [exact Wks|exact Hasc]. Qed.

  (* all blank *)
  Lemma match1_all_blank : mid = [] -> match1 x a = Ok NA.
  Proof.
    intros E. subst a. rewrite E. cbn [app]. rewrite <- repeat_app. set (n := (nl + nt)%nat).
    rewrite match1_unfold. rewrite rev_blanks.
    replace (lead_none (repeat VNone n)) with n
      by (rewrite <- (app_nil_r (repeat VNone n)), lead_none_blanks; cbn [lead_none]; lia).
    rewrite repeat_length. replace (n - n)%nat with 0%nat by lia.
    unfold bisect_right. cbn [bisect_loop].
    replace (Z.of_nat n <? Z.of_nat 0) with false by (symmetry; apply Z.ltb_ge; lia).
    cbn [bind]. rewrite Nat2Z.id.
    rewrite firstn_all2 by (rewrite repeat_length; lia). rewrite rev_blanks.
    rewrite backoff_blanks. cbn [bind].
    rewrite <- (app_nil_r (repeat VNone n)) at 1. apply finish_blanks.
  Qed.

  Hypothesis Hne : mid <> [].

  Lemma lo_eq : lead_none a = nl.
  Proof.
    subst a. rewrite lead_none_blanks. rewrite (lead_none_nonblank mid _ Hnb Hne). lia.
  Qed.
  Lemma hi_eq : (length a - lead_none (rev a))%nat = (nl + length mid)%nat.
  Proof.
    subst a. rewrite !rev_app_distr, !rev_blanks, <- app_assoc, lead_none_blanks.
    rewrite lead_none_nonblank.
    - rewrite !app_length, !repeat_length. lia.
    - apply Forall_rev. exact Hnb.
    - intros E. apply (f_equal (@rev pyval)) in E. rewrite rev_involutive in E. cbn in E. congruence.
  Qed.

  (* the keys as bisect sees them *)
  Let bk : key := (fst (fst x), snd x).
  Let ks' := repeat bk nl ++ ks ++ repeat bk nt.

  Lemma rel_keys : mapM (rel_key x) a = Ok ks'.
  Proof.
    subst a ks'. apply mapM_app; [apply mapM_rel_blanks|].
    apply mapM_app; [|apply mapM_rel_blanks]. rewrite (mapM_rel_mid x mid Hnb). exact Hks.
  Qed.

  Lemma ks'_mid q : (q < length ks)%nat -> nth_error ks' (nl + q) = nth_error ks q.
  Proof.
    intros H. subst ks'. rewrite <- (repeat_length bk nl) at 2. apply nth_mid. exact H.
  Qed.

  (* the partition point *)
  Lemma partition :
    exists m, (m <= length mid)%nat
      /\ bisect_right (x_lt_cell x) a (Z.of_nat nl) (Z.of_nat (nl + length mid)) = Ok (Z.of_nat (nl + m))
      /\ (forall q k, (q < m)%nat -> nth_error ks q = Some k -> kle k (fst x))
      /\ (forall q k, (m <= q)%nat -> nth_error ks q = Some k -> klt (fst x) k).
  Proof.
    destruct (bisect_sorted v x a ks' (Z.of_nat nl) (Z.of_nat (nl + length mid)) Hv rel_keys)
      as (r & Hr & Hb & Hlo & Hup).
    - lia.
    - lia.
    - subst a. unfold zlen. rewrite !app_length, !repeat_length. lia.
    - intros i j ki kj Hi Hij Hj Hki Hkj.
      replace (Z.to_nat i) with (nl + (Z.to_nat i - nl))%nat in Hki by lia.
      replace (Z.to_nat j) with (nl + (Z.to_nat j - nl))%nat in Hkj by lia.
      rewrite ks'_mid in Hki by (rewrite Hlen; lia). rewrite ks'_mid in Hkj by (rewrite Hlen; lia).
      apply (pairwise (Z.to_nat i - nl) (Z.to_nat j - nl) ki kj); [lia|exact Hki|exact Hkj].
    - exists (Z.to_nat r - nl)%nat. split; [lia|]. split.
      + rewrite Hr. f_equal. lia.
      + split.
        * intros q k Hq Hk. apply (Hlo (Z.of_nat (nl + q))); [lia|].
          rewrite Nat2Z.id. rewrite ks'_mid by (apply nth_error_Some; congruence). exact Hk.
        * intros q k Hq Hk.
          assert (Hql : (q < length ks)%nat) by (apply nth_error_Some; congruence).
          apply (Hup (Z.of_nat (nl + q))); [rewrite Hlen in Hql; lia|].
          rewrite Nat2Z.id. rewrite ks'_mid by exact Hql. exact Hk.
  Qed.

  Lemma prefix m : (m <= length mid)%nat -> firstn (nl + m) a = repeat VNone nl ++ firstn m mid.
  Proof.
    intros Hm. subst a. rewrite firstn_app, repeat_length.
    rewrite firstn_all2 by (rewrite repeat_length; lia).
    replace (nl + m - nl)%nat with m by lia.
    rewrite firstn_app. replace (m - length mid)%nat with 0%nat by lia.
    cbn [firstn]. rewrite app_nil_r. reflexivity.
  Qed.

  (* a candidate sits in mid, with its key in ks *)
  Lemma candidate j c k : nth_error a j = Some c -> holds_le x c k ->
    exists q, j = (nl + q)%nat /\ nth_error mid q = Some c /\ nth_error ks q = Some k.
  Proof.
    intros Hj (Hc & Hk & _). destruct (nonblank_in_mid nl mid nt j c Hj Hc) as (q & -> & Hq).
    exists q. repeat split; auto. destruct (mid_key q c Hq) as (k0 & Hk0 & Hn & _). congruence.
  Qed.

  Theorem match1_nonblank :
    (exists i c k, match1 x a = Ok (VInt i) /\ 1 <= i <= zlen a
        /\ nth_error a (Z.to_nat (i - 1)) = Some c /\ holds_le x c k
        /\ forall j c' k', nth_error a j = Some c' -> holds_le x c' k' ->
                           kle k' k /\ Z.of_nat j <= i - 1)
    \/ (match1 x a = Ok NA /\ forall j c' k', nth_error a j = Some c' -> ~ holds_le x c' k').
  Proof.
    destruct partition as (m & Hm & Hr & Hlo & Hup).
    rewrite match1_unfold, lo_eq, hi_eq, Hr. cbn [bind]. rewrite Nat2Z.id, (prefix m Hm).
    rewrite rev_app_distr, rev_blanks.
    (* no candidate at or beyond the partition point *)
    assert (Hbeyond : forall q k, (m <= q)%nat -> nth_error ks q = Some k -> ~ kle k (fst x)).
    { intros q k Hq Hk. apply klt_not_kle; [exact Wx|exact (nth_error_wf ks q k Wks Hk)|eauto]. }
    (* when nothing of x's type lies before the partition point *)
    assert (Hnone : (forall q k, (q < m)%nat -> nth_error ks q = Some k -> fst k <> tx) ->
              backoff tx (rev (firstn m mid) ++ repeat VNone nl) = Ok (if 0 =? tx then nl else 0%nat)
              /\ forall j c' k', nth_error a j = Some c' -> ~ holds_le x c' k').
    { intros Hty. split.
      - rewrite backoff_skip; [apply backoff_blanks|]. apply Forall_rev. apply Forall_forall.
        intros c Hin. apply In_nth_error in Hin. destruct Hin as (q & Hq).
        assert (Hqm : (q < m)%nat).
        { assert (nth_error (firstn m mid) q <> None) by congruence.
          apply nth_error_Some in H. rewrite firstn_length in H. lia. }
        rewrite nth_firstn in Hq by exact Hqm.
        destruct (mid_key q c Hq) as (k & Hk & Hn & _). exists k. split; [exact Hk|]. eauto.
      - intros j c' k' Hj Hh. destruct (candidate j c' k' Hj Hh) as (q & -> & Hq & Hn).
        destruct Hh as (_ & _ & Ht & Hle).
        destruct (Nat.lt_ge_cases q m) as [Hqm|Hqm]; [exact (Hty q k' Hqm Hn Ht)|].
        exact (Hbeyond q k' Hqm Hn Hle). }
    destruct m as [|m'].
    - (* partition point at the first non-blank cell *)
      right. destruct Hnone as [Hb Hno]; [intros q k Hq; lia|].
      cbn [firstn rev app] in *. fold tx. rewrite Hb. cbn [bind]. split; [apply finish_blanks|exact Hno].
    - destruct (nth_error mid m') as [c|] eqn:Hc; [|apply nth_error_None in Hc; lia].
      destruct (mid_key m' c Hc) as (k & Hk & Hn & Wk).
      assert (Hkx : kle k (fst x)) by (apply (Hlo m' k); [lia|exact Hn]).
      rewrite (firstn_snoc mid m' c Hc), rev_app_distr. cbn [rev app]. fold tx.
      destruct (Z.eq_dec (fst k) tx) as [Et|Et].
      + (* the cell before the partition point has x's type: it is the answer *)
        left. rewrite (backoff_stop tx c _ k Hk Et). cbn [bind].
        rewrite app_length, rev_length, firstn_length_le, repeat_length by lia.
        assert (Hnth : nth_error a (m' + nl) = Some c).
        { subst a. rewrite (Nat.add_comm m' nl). rewrite <- (repeat_length VNone nl) at 2.
          rewrite nth_mid by lia. exact Hc. }
        assert (Hcn : c <> VNone).
        { rewrite Forall_forall in Hnb. apply Hnb. eapply nth_error_In; eauto. }
        exists (Z.of_nat (S (m' + nl))), c, k. split.
        { unfold finish. rewrite Hnth. destruct c; try reflexivity. congruence. }
        split.
        { subst a. unfold zlen. rewrite !app_length, !repeat_length. lia. }
        split.
        { replace (Z.to_nat (Z.of_nat (S (m' + nl)) - 1)) with (m' + nl)%nat by lia. exact Hnth. }
        split.
        { repeat split; auto. }
        intros j c' k' Hj Hh. destruct (candidate j c' k' Hj Hh) as (q & -> & Hq & Hnq).
        destruct Hh as (_ & _ & _ & Hle).
        destruct (Nat.lt_ge_cases q (S m')) as [Hqm|Hqm].
        * split; [|lia]. apply (pairwise q m' k' k); [lia|exact Hnq|exact Hn].
        * exfalso. exact (Hbeyond q k' Hqm Hnq Hle).
      + (* it has a smaller type: so has everything before it *)
        right. assert (Hlt : fst k < tx) by (pose proof (kle_type _ _ Hkx); subst tx; lia).
        destruct Hnone as [Hb Hno].
        { intros q k0 Hq Hk0. pose proof (kle_type _ _ (pairwise q m' k0 k ltac:(lia) Hk0 Hn)). lia. }
        rewrite (firstn_snoc mid m' c Hc), rev_app_distr in Hb. cbn [rev app] in Hb.
        rewrite Hb. cbn [bind]. split; [apply finish_blanks|exact Hno].
  Qed.
End Match1.

Lemma match1_eq v x a : lv_key v = Ok x -> match_ v (VTuple a) (VInt 1) = match1 x a.
Proof. intros H. unfold match_. cbn [seq_items bind]. rewrite H. reflexivity. Qed.

(* C16_match1_sorted *)
Theorem match1_sorted v x a : lv_key v = Ok x -> excel_ascending a ->
  (exists i c k, match_ v (VTuple a) (VInt 1) = Ok (VInt i) /\ 1 <= i <= zlen a
      /\ nth_error a (Z.to_nat (i - 1)) = Some c /\ holds_le x c k
      /\ forall j c' k', nth_error a j = Some c' -> holds_le x c' k' ->
                         kle k' k /\ Z.of_nat j <= i - 1)
  \/ (match_ v (VTuple a) (VInt 1) = Ok NA
      /\ forall j c' k', nth_error a j = Some c' -> ~ holds_le x c' k').
Proof.
  intros Hv (nl & mid & nt & ks & -> & Hnb & Hks & Hasc). rewrite (match1_eq v x _ Hv).
  destruct mid as [|c0 mid0] eqn:Em.
  - right. split; [apply (match1_all_blank x nl nt []); reflexivity|].
    intros j c' k' Hj (Hc & _). cbn [app] in Hj. rewrite <- repeat_app in Hj.
    apply repeat_nth in Hj. congruence.
  - rewrite <- Em in *. apply (match1_nonblank v x nl nt mid ks Hv Hnb Hks Hasc). congruence.
Qed.

(* #N/A exactly when no cell of v's type is <= v *)
Corollary match1_sorted_na v x a : lv_key v = Ok x -> excel_ascending a ->
  (match_ v (VTuple a) (VInt 1) = Ok NA
   <-> forall j c' k', nth_error a j = Some c' -> ~ holds_le x c' k').
Proof.
  intros Hv Ha.
  destruct (match1_sorted v x a Hv Ha) as [(i & c & k & Hm & _ & Hn & Hh & _)|[Hm Hno]].
  - split.
    + rewrite Hm. discriminate.
    + intros Hno. exfalso. exact (Hno _ c k Hn Hh).
  - split; auto.
Qed.

(* ------------------------------------------------------ examples (non-vacuity) *)
Example ex_ascending :
  excel_ascending [VNone; VInt 1; VFloat (5 # 2); VFloat (5 # 2); s_a; s_B; VBool true;
                   excelutil.c_DIV0; VNone; VNone].
Proof.
  exists 1%nat, [VInt 1; VFloat (5 # 2); VFloat (5 # 2); s_a; s_B; VBool true; excelutil.c_DIV0], 2%nat.
  eexists. split; [reflexivity|]. split.
  - repeat constructor; discriminate.
  - split; [vm_compute; reflexivity|].
    intros i ki kj. do 7 (destruct i as [|i]; [cbn [nth_error]; intros H1 H2; try discriminate;
      injection H1 as <-; injection H2 as <-; vm_compute; reflexivity|]).
    cbn [nth_error]. destruct i; discriminate.
Qed.
Example ex_match1_dups :
  match_ (VFloat (5 # 2))
    (VTuple [VNone; VInt 1; VFloat (5 # 2); VFloat (5 # 2); s_a; s_B; VBool true;
             excelutil.c_DIV0; VNone; VNone]) (VInt 1) = Ok (VInt 4).
Proof. vm_compute. reflexivity. Qed.
Example ex_match1_hyps : exists x, lv_key (VFloat (5 # 2)) = Ok x
  /\ excel_ascending [VNone; VInt 1; VFloat (5 # 2); VFloat (5 # 2); s_a; s_B; VBool true;
                      excelutil.c_DIV0; VNone; VNone].
Proof. eexists. split; [vm_compute; reflexivity|exact ex_ascending]. Qed.
