(* Proofs/C08Example.v — C08: the hypotheses of the theorems are satisfiable on
   a concrete workbook that shows every branch of the trim (tests, not theorems).
     0: A1 = 1 (input, THE input)   1: A2 = 2 (input)   2: A3 = 3 (input)
     3: A2:A3 (range node)          4: B1 = f(A2:A3)    5: B2 = f(A1, B1)
     6: C1 = f(B2, A2:A3) (THE output)                  7: D1 = f(A2) (never built)
   trim([A1], [C1]): B2 is below A1 and stays a formula; B1 is not: frozen at 9;
   the range node A2:A3 is read by the output directly: walked into, its
   members A2, A3 are kept (frozen input cells), the node itself is deleted;
   D1 is not in the model at all.  Second example: B1 as a buried input. *)
From Coq Require Import List Arith Bool Lia ZArith.
From PV Require Import Lib.Py Model.Graph Model.Trim.
From PV Require Import Proofs.C01Base Proofs.C01Inv Proofs.C01 Proofs.C01Example Proofs.C08.
Import ListNotations.
Local Open Scope nat_scope.

Definition t_sem (n : nat) (vals : list pyval) : pyval :=
  if n =? 3 then VTuple vals else VInt (Z.of_nat n + tot (VTuple vals)).

Definition tW : workbook :=
  {| wb_n := 8;
     wb_input := fun n => n <? 3;
     wb_deps := fun n => match n with 3 => [1; 2] | 4 => [3] | 5 => [0; 4] | 6 => [5; 3]
                                 | 7 => [1] | _ => [] end;
     wb_range := fun n => n =? 3;
     wb_inp0 := fun n => match n with 0 => VInt 1 | 1 => VInt 2 | 2 => VInt 3 | _ => VNone end;
     wb_stored := fun _ => VNone |}.

Example t_wf : wf tW.
Proof. apply wfb_sound. reflexivity. Qed.
Example t_nonblank : sem_nonblank tW t_sem.
Proof. intros n vals _ _. unfold t_sem. destruct (n =? 3); discriminate. Qed.
Example t_stored : stored_ok tW t_sem.
Proof. apply stored_ok_nodata. reflexivity. Qed.
Example t_inv : Inv tW t_sem (init tW).
Proof. apply Inv_init; [apply t_wf|apply t_stored]. Qed.

Definition tT := trim tW t_sem [0] [6] (init tW).

(* cell map after the trim, cells through the freezing branch, values *)
Example t_kept : map (st_built (tr_st tT)) (seq 0 8)
                 = [true; true; true; false; true; true; true; false].
Proof. vm_compute. reflexivity. Qed.
Example t_frozen : map (tr_frz tT) (seq 0 8)
                   = [true; true; true; false; true; false; false; false].
Proof. vm_compute. reflexivity. Qed.
Example t_formulas_left : map (wb_input (tr_wb tT)) (seq 0 8)
                          = [true; true; true; false; true; false; false; false].
Proof. vm_compute. reflexivity. Qed.
Example t_values : map (st_cache (tr_st tT)) (seq 0 8)
                   = [VInt 1; VInt 2; VInt 3; VNone; VInt 9; VNone; VNone; VNone].
Proof. vm_compute. reflexivity. Qed.

(* the hypotheses of C08_preserve / C08_preserve_machine *)
Example t_inputs : forall a, In a [0] -> wb_input tW a = true /\ exists o, In o [6] /\ anc tW a o.
Proof.
  intros a [<-|[]]. split; [reflexivity|]. exists 6. split; [left; auto|].
  apply anc_trans with (b := 5); [constructor|]; cbn; auto.
Qed.
Example t_exact : inputs_exact tW (st_cache (init tW)).
Proof. intros m _ _. destruct m as [|[|[|m]]]; reflexivity. Qed.
Example t_late : forall a, In a [0] -> late_ok tW (build_all tW t_sem [6] (init tW)) a.
Proof. intros a _ d _ _ _. right. reflexivity. Qed.

Definition t_h : list gop :=
  [ Evaluate 6; SetValue 0 (VInt 10); Evaluate 6; SetValue 0 (VInt 10); SetValue 0 VNone;
    Evaluate 6; SetValue 0 (VBool true); Evaluate 6 ].
Example t_h_ok : Forall (io_op [0] [6]) t_h.
Proof. repeat constructor. Qed.

Example t_trace_trimmed : snd (run (tr_wb tT) t_sem (tr_st tT) t_h)
  = [VInt 26; VNone; VInt 35; VNone; VNone; VInt 25; VNone; VInt 25].
Proof. vm_compute. reflexivity. Qed.
Example t_trace_untrimmed : snd (run tW t_sem (build_all tW t_sem [6] (init tW)) t_h)
  = [VInt 26; VNone; VInt 35; VNone; VNone; VInt 25; VNone; VInt 25].
Proof. vm_compute. reflexivity. Qed.

(* the theorem applied *)
Example t_preserved :
  snd (run (tr_wb tT) t_sem (tr_st tT) t_h) = snd (run tW t_sem (build_all tW t_sem [6] (init tW)) t_h).
Proof.
  apply (preserve_machine tW t_sem t_wf t_nonblank t_stored [0] [6] (init tW) t_inv).
  - intros o [<-|[]]. cbn. lia.
  - apply t_inputs.
  - intros a [<-|[]]. reflexivity.
  - apply t_exact.
  - apply t_late.
  - apply t_h_ok.
Qed.

(* ---- a buried input: B1 (a formula cell that is not below another input) *)
Definition tB := trim tW t_sem [4] [6] (init tW).
Example b_hyp : forall a, In a [4] -> wb_input (tr_wb tB) a = true /\ st_built (tr_st tB) a = true
                                     /\ scalar_exact (st_cache (tr_st tB) a) = true.
Proof. intros a [<-|[]]. repeat split; vm_compute; reflexivity. Qed.
(* A1 is frozen too now; the precedents of B1 that nothing else reads are gone *)
Example b_kept : map (st_built (tr_st tB)) (seq 0 8)
                 = [true; true; true; false; true; true; true; false].
Proof. vm_compute. reflexivity. Qed.
Example b_trace : snd (run (tr_wb tB) t_sem (tr_st tB) [Evaluate 6; SetValue 4 (VInt 100); Evaluate 6])
  = [VInt 26; VNone; VInt 117].
Proof. vm_compute. reflexivity. Qed.
Example b_trace_untrimmed :
  snd (run tW t_sem (build_all tW t_sem [6] (init tW)) [Evaluate 6; SetValue 4 (VInt 100); Evaluate 6])
  = [VInt 26; VNone; VInt 117].
Proof. vm_compute. reflexivity. Qed.
