(* Proofs/C12TolWeakExample.v — the hypotheses of Proofs/C12TolWeak.v are satisfiable
   (tests, not theorems): on the whole-column workbook of Proofs/C12WeakExample.v
   (strong non-blank condition fails) with tolerance None, and on the text workbook
   of Proofs/C12TolExample.v with tolerance 0. *)
From Coq Require Import List Arith Bool Lia ZArith QArith.
From PV Require Import Lib.Py Model.Graph Model.Validate.
From PV Require Import Proofs.C01Base Proofs.C01Inv Proofs.C01 Proofs.C01Weak Proofs.C01Alias
                       Proofs.C01AliasExample Proofs.C01Example Proofs.C12Base Proofs.C12 Proofs.C12Weak
                       Proofs.C12WeakExample Proofs.C12Tol Proofs.C12TolExample Proofs.C12TolWeak.
Import ListNotations.
Local Open Scope nat_scope.

Example xtw_refl : forall n, n < wb_n exaWs -> is_fcell exaWs n = true ->
  close_enough None (spec exaWs exa_sem (wb_inp0 exaWs) n) (spec exaWs exa_sem (wb_inp0 exaWs) n) = true.
Proof. intros n L F. apply close_enough_refl; [exact I|now apply xv_scalar]. Qed.

Example xtw_sound : vs_report (validate exaWs exa_sem xv_text None [5; 4; 5]) = [].
Proof.
  apply (sound_tw exaWs exa_sem xv_text None (exa_wf _) (exa_weak _) exas_consistent
           xtw_refl xv_text_ok).
  intros o [<-|[<-|[<-|[]]]]; cbn; lia.
Qed.

Example xtw_complete :
  let r := vs_report (validate (perturb exaWs 4 (VInt 12)) exa_sem xv_text None [5]) in
  rep_get r 4 = Some (VInt 12, spec exaWs exa_sem (wb_inp0 exaWs) 4) /\
  forall n, rep_get r n <> None -> n = 4 \/ anc exaWs 4 n.
Proof.
  assert (L4: 4 < wb_n exaWs) by (cbn; lia).
  apply (complete_tw exaWs exa_sem xv_text None 4 (VInt 12) (exa_wf _) (exa_weak _) exas_consistent
           L4 eq_refl xtw_refl xv_text_ok ltac:(discriminate) eq_refl eq_refl [5]).
  - intros o [<-|[]]. cbn. lia.
  - exists 5. split; [left; auto|]. right. constructor. cbn. auto.
Qed.

(* tolerance 0, text results *)
Example xtw_sound_tol0 : vs_report (validate txWs tx_sem tx_text tol0 [4; 3; 4]) = [].
Proof.
  apply (sound_tw txWs tx_sem tx_text tol0 (ex_wf _) (nonblank_weaken _ _ tx_nonblank) tx_consistent
           tx_refl tx_notext).
  intros o [<-|[<-|[<-|[]]]]; cbn; lia.
Qed.
