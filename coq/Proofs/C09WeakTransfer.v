(* Proofs/C09WeakTransfer.v — C09 under the weak non-blank condition, part 1:
   the transfer of Proofs/C01Weak.v for the machine with failures
   (Model/Fail.v).  The partial meaning [fsem : nat -> list pyval -> option
   pyval] is guarded like the total one: [guard_f fsem] is [fsem] on admissible
   argument lists and returns 0 elsewhere; if [sem] completes [fsem] then
   [guard W sem] completes [guard_f fsem].  The machine ([eval_f], [build_f],
   [evaluate_f], [step_f], [run_f]) and the from-scratch outcome ([fspec])
   cannot tell two partial meanings apart that agree on admissible lists when
   the second one never returns a blank.  [fspec] is treated for a workbook V
   in which some input cells are known to hold non-blank values (the repaired
   workbook of C09_repair: as_input W f0 v0), as in Proofs/C08WeakCut.v. *)
From Coq Require Import List Arith Bool Lia.
From PV Require Import Lib.Py Model.Graph Model.Fail.
From PV Require Import Proofs.C01Base Proofs.C01Reset Proofs.C01Eval Proofs.C01Inv Proofs.C01
                       Proofs.C01Weak Proofs.C08WeakCut
                       Proofs.C09Eval Proofs.C09Inv Proofs.C09 Proofs.C09Repair.
Import ListNotations.

(* ------------------------------------------------------------ the machine *)
Section FTransfer.
  Variable W : workbook.
  Variables fsem1 fsem2 : nat -> list pyval -> option pyval.
  Variable fpre : nat -> option nat.
  Variable rorder : (nat -> bool) -> nat -> list nat.

  Notation N := (wb_n W).
  Notation deps := (wb_deps W).
  Notation isinput := (wb_input W).

  Hypothesis WF : wf W.
  Hypothesis NB2 : forall n vals v, n < N -> isinput n = false -> fpre n = None ->
                     fsem2 n vals = Some v -> v <> VNone.
  Hypothesis AG : forall n vals, n < N -> isinput n = false -> args_ok W n vals ->
                    fsem1 n vals = fsem2 n vals.

  Lemma compute_nb n vals v : n < N -> isinput n = false ->
    compute fsem2 fpre n vals = FVal v -> v <> VNone.
  Proof.
    intros L I. unfold compute. destruct (fpre n) eqn:P; [discriminate|].
    destruct (fsem2 n vals) as [w|] eqn:E; [|discriminate]. intros H. inversion H; subst.
    eapply NB2; eauto.
  Qed.

  Lemma eval_f_okv f c d v : d < N -> snd (eval_f W fsem2 fpre (S f) c d) = FVal v ->
    isinput d || negb (is_none v) = true.
  Proof.
    intros L. rewrite eval_f_unfold. destruct (isinput d) eqn:I; [reflexivity|]. cbn [orb].
    intros H. apply negb_true_iff, is_none_false. destruct (is_none (c d)) eqn:E.
    - destruct (fold_left (fstep (eval_f W fsem2 fpre f)) (reads W fpre d) (c, inl [])) as [c' r].
      destruct r as [vals|e]; [|discriminate].
      destruct (compute fsem2 fpre d vals) as [w|e] eqn:C; cbn [snd] in H; [|discriminate].
      inversion H; subst. eapply compute_nb; eauto.
    - cbn [snd] in H. inversion H; subst. now apply is_none_false.
  Qed.

  Lemma ffold_transfer f :
    (forall d c, d < f -> d < N -> eval_f W fsem1 fpre f c d = eval_f W fsem2 fpre f c d) ->
    forall l, (forall d, In d l -> d < f /\ d < N) ->
    forall c a,
      fold_left (fstep (eval_f W fsem1 fpre f)) l (c, a)
      = fold_left (fstep (eval_f W fsem2 fpre f)) l (c, a)
      /\ forall vs vals, a = inl vs ->
           snd (fold_left (fstep (eval_f W fsem2 fpre f)) l (c, a)) = inl vals ->
           exists vs', vals = vs ++ vs' /\ args_okb W l vs' = true.
  Proof.
    intros IH. induction l as [|d l IHl]; intros Hl c a; cbn [fold_left].
    - split; auto. intros vs vals -> H. cbn [snd] in H. inversion H; subst.
      exists []. cbn. now rewrite app_nil_r.
    - destruct (Hl d (or_introl eq_refl)) as [Lf LN].
      assert (Hl': forall x, In x l -> x < f /\ x < N) by (intros; apply Hl; right; auto).
      destruct a as [vs|e].
      + cbn [fstep]. rewrite (IH d c Lf LN).
        destruct (eval_f W fsem2 fpre f c d) as [c2 r] eqn:Ev.
        destruct (IHl Hl' c2 (match r with FVal v => inl (vs ++ [v]) | FRaise e => inr e end))
          as [E K].
        split; [exact E|]. intros vs0 vals Ha H. inversion Ha; subst vs0.
        destruct r as [v|e].
        * destruct (K (vs ++ [v]) vals eq_refl H) as (vs' & V & OK).
          exists (v :: vs'). split; [now rewrite V, <- app_assoc|].
          cbn [args_okb]. rewrite OK, andb_true_r.
          destruct f as [|f0]; [lia|]. apply (eval_f_okv f0 c d v LN). now rewrite Ev.
        * rewrite fstep_stuck in H. discriminate.
      + cbn [fstep]. destruct (IHl Hl' c (inr e)) as [E _]. split; [exact E|].
        intros vs vals Ha. discriminate.
  Qed.

  Lemma eval_f_transfer : forall f n c, n < f -> n < N ->
    eval_f W fsem1 fpre f c n = eval_f W fsem2 fpre f c n.
  Proof.
    induction f as [|f IH]; intros n c Lf L; [lia|].
    rewrite !eval_f_unfold. destruct (isinput n) eqn:I; auto. destruct (is_none (c n)); auto.
    destruct (ffold_transfer f (fun d c Hd Ld => IH d c Hd Ld) (reads W fpre n)
                ltac:(intros d Hd; pose proof (deps_lt W WF n d L (reads_deps W fpre n d Hd)); split; lia)
                c (inl [])) as [E K].
    rewrite E. destruct (fold_left (fstep (eval_f W fsem2 fpre f)) (reads W fpre n) (c, inl []))
      as [c' r] eqn:Fo.
    destruct r as [vals|e]; auto.
    assert (C: compute fsem1 fpre n vals = compute fsem2 fpre n vals).
    { unfold compute. destruct (fpre n) eqn:P; auto.
      destruct (K [] vals eq_refl eq_refl) as (vs' & V & OK). cbn [app] in V. subst vs'.
      unfold reads in OK. rewrite P in OK. rewrite (AG n vals L I OK). reflexivity. }
    now rewrite C.
  Qed.

  Lemma bfold_f_transfer b0 b' : forall l, (forall m, In m l -> b' m && negb (b0 m) = true -> m < N) ->
    forall acc, fold_left (bstep_f W fsem1 fpre b0 b') l acc = fold_left (bstep_f W fsem2 fpre b0 b') l acc.
  Proof.
    induction l as [|m l IH]; intros Hl acc; cbn [fold_left]; auto.
    assert (E: bstep_f W fsem1 fpre b0 b' acc m = bstep_f W fsem2 fpre b0 b' acc m).
    { unfold bstep_f. destruct acc as [c [e|]]; auto.
      destruct (b' m && negb (b0 m)) eqn:C; cbn [andb]; auto.
      destruct (wb_range W m); auto.
      assert (Lm: m < N) by (apply Hl; auto; left; auto).
      rewrite eval_f_transfer; auto. }
    rewrite E. apply IH. intros; apply Hl; auto. right; auto.
  Qed.

  Lemma build_f_transfer s n : n < N -> (forall m, st_built s m = true -> m < N) ->
    build_f W fsem1 fpre rorder s n = build_f W fsem2 fpre rorder s n.
  Proof.
    intros L BL. unfold build_f. cbv zeta.
    rewrite (bfold_f_transfer (st_built s) (closure W (S N) (st_built s) n)); auto.
    intros m _ C. apply andb_prop in C. destruct C as [C1 C2]. apply negb_true_iff in C2.
    destruct (closure_anc W _ _ _ _ C1) as [H|[E|H]]; [congruence|subst; auto|].
    pose proof (anc_lt W WF m n L H). lia.
  Qed.

  Lemma evaluate_f_transfer s n : n < N -> (forall m, st_built s m = true -> m < N) ->
    evaluate_f W fsem1 fpre rorder s n = evaluate_f W fsem2 fpre rorder s n.
  Proof.
    intros L BL. unfold evaluate_f. rewrite (build_f_transfer s n L BL).
    destruct (build_f W fsem2 fpre rorder s n) as [s1 [e|]]; auto.
    now rewrite eval_f_transfer by auto.
  Qed.

  (* operations that name a node of the workbook *)
  Definition fop_lt (o : gop) : Prop :=
    match o with Evaluate n | Build n => n < N | SetValue _ _ => True end.
  Definition built_lt (s : state) : Prop := forall m, st_built s m = true -> m < N.

  Lemma step_f_transfer s o : fop_lt o -> built_lt s ->
    step_f W fsem1 fpre rorder s o = step_f W fsem2 fpre rorder s o.
  Proof.
    destruct o as [n|a v|n]; cbn [fop_lt step_f]; intros L BL.
    - now apply evaluate_f_transfer.
    - reflexivity.
    - now rewrite build_f_transfer.
  Qed.

  Lemma build_f_built_lt fs s n : n < N -> built_lt s -> built_lt (fst (build_f W fs fpre rorder s n)).
  Proof.
    intros L BL m. unfold build_f. cbv zeta.
    destruct (fold_left (bstep_f W fs fpre (st_built s) (closure W (S N) (st_built s) n))
                (rorder (st_built s) n ++ seq 0 N) (new_cells W s (closure W (S N) (st_built s) n), None))
      as [c2 r]. cbn [fst st_built]. intros C.
    destruct (closure_anc W _ _ _ _ C) as [H|[E|H]]; [now apply BL|subst; auto|].
    pose proof (anc_lt W WF m n L H). lia.
  Qed.

  Lemma step_f_built_lt fs s o : fop_lt o -> built_lt s ->
    built_lt (fst (step_f W fs fpre rorder s o)).
  Proof.
    destruct o as [n|a v|n]; cbn [fop_lt step_f]; intros L BL.
    - unfold evaluate_f. pose proof (build_f_built_lt fs s n L BL) as B1.
      destruct (build_f W fs fpre rorder s n) as [s1 [e|]]; cbn [fst] in *; auto.
      destruct (eval_f W fs fpre (S N) (st_cache s1) n). cbn [fst st_built]. exact B1.
    - cbn [fst]. rewrite set_value_unfold. destruct (negb (st_built s a)); auto.
      destruct (py_eq (st_cache s a) v && same_type (st_cache s a) v); auto.
    - pose proof (build_f_built_lt fs s n L BL) as B1.
      destruct (build_f W fs fpre rorder s n) as [s1 r]. exact B1.
  Qed.

  Lemma run_f_transfer : forall h s, Forall fop_lt h -> built_lt s ->
    run_f W fsem1 fpre rorder s h = run_f W fsem2 fpre rorder s h.
  Proof.
    induction h as [|o h IH]; intros s F BL; [reflexivity|].
    inversion F as [|? ? Fo Fh]; subst. cbn [run_f].
    rewrite (step_f_transfer s o Fo BL).
    pose proof (step_f_built_lt fsem2 s o Fo BL) as B1.
    destruct (step_f W fsem2 fpre rorder s o) as [s1 v]. cbn [fst] in B1.
    now rewrite (IH s1 Fh B1).
  Qed.

  Lemma fok_lt s o : fok_op W s o -> fop_lt o.
  Proof. destruct o; cbn; auto. Qed.
  Lemma rok_lt f0 s o : rok_op W f0 s o -> fop_lt o.
  Proof. destruct o; cbn; auto. Qed.

  Lemma fok_history_transfer : forall h s, built_lt s -> fok_history W fsem1 fpre rorder s h ->
    fok_history W fsem2 fpre rorder s h /\ Forall fop_lt h.
  Proof.
    induction h as [|o h IH]; intros s BL OK; [split; [exact I|constructor]|].
    destruct OK as [Oo Oh]. pose proof (fok_lt s o Oo) as Lo.
    rewrite (step_f_transfer s o Lo BL) in Oh.
    destruct (IH _ (step_f_built_lt fsem2 s o Lo BL) Oh) as [A B].
    split; [split; auto|constructor; auto].
  Qed.

  Lemma rok_history_transfer f0 : forall h s, built_lt s -> rok_history W fsem1 fpre rorder f0 s h ->
    rok_history W fsem2 fpre rorder f0 s h /\ Forall fop_lt h.
  Proof.
    induction h as [|o h IH]; intros s BL OK; [split; [exact I|constructor]|].
    destruct OK as [Oo Oh]. pose proof (rok_lt f0 s o Oo) as Lo.
    rewrite (step_f_transfer s o Lo BL) in Oh.
    destruct (IH _ (step_f_built_lt fsem2 s o Lo BL) Oh) as [A B].
    split; [split; auto|constructor; auto].
  Qed.
End FTransfer.

(* --------------------------------------------------- the from-scratch outcome *)
Section FSpecTransfer.
  Variable V : workbook.
  Variable free : nat -> bool.
  Variables fsem1 fsem2 : nat -> list pyval -> option pyval.
  Variable fpre : nat -> option nat.

  Notation N := (wb_n V).
  Hypothesis WF : wf V.
  Hypothesis NB2 : forall n vals v, n < N -> wb_input V n = false -> fpre n = None ->
                     fsem2 n vals = Some v -> v <> VNone.
  Hypothesis AG : forall n vals, n < N -> wb_input V n = false ->
                    okb free (wb_deps V n) vals = true -> fsem1 n vals = fsem2 n vals.

  Lemma fspec_okv inp d v : CI V free inp -> d < N -> fspec V fsem2 fpre inp d = FVal v ->
    free d || negb (is_none v) = true.
  Proof.
    intros K L. destruct (free d) eqn:F; [reflexivity|]. cbn [orb].
    rewrite (fspec_unfold V fsem2 fpre WF inp d L). intros H.
    apply negb_true_iff, is_none_false. destruct (wb_input V d) eqn:I.
    - inversion H; subst. now apply K.
    - destruct (seq_res (map (fspec V fsem2 fpre inp) (reads V fpre d))) as [vals|e]; [|discriminate].
      unfold compute in H. destruct (fpre d) eqn:P; [discriminate|].
      destruct (fsem2 d vals) as [w|] eqn:E; [|discriminate]. inversion H; subst. eapply NB2; eauto.
  Qed.

  Lemma seq_res_okb inp : CI V free inp -> forall l vals, (forall d, In d l -> d < N) ->
    seq_res (map (fspec V fsem2 fpre inp) l) = inl vals -> okb free l vals = true.
  Proof.
    intros K. induction l as [|d l IH]; intros vals Hl S; cbn [map seq_res] in S.
    - inversion S. reflexivity.
    - destruct (fspec V fsem2 fpre inp d) as [v|e] eqn:G; [|discriminate S].
      destruct (seq_res (map (fspec V fsem2 fpre inp) l)) as [vs|e] eqn:S'; [|discriminate S].
      inversion S; subst. cbn [okb]. rewrite (IH vs) by (auto; intros; apply Hl; right; auto).
      rewrite andb_true_r. apply (fspec_okv inp d v K); auto. apply Hl. left; auto.
  Qed.

  Lemma fspec_transfer inp : CI V free inp -> forall n, n < N ->
    fspec V fsem1 fpre inp n = fspec V fsem2 fpre inp n.
  Proof.
    intros K. induction n as [n IH] using lt_wf_ind. intros L.
    rewrite (fspec_unfold V fsem1 fpre WF inp n L), (fspec_unfold V fsem2 fpre WF inp n L).
    destruct (wb_input V n) eqn:I; auto.
    rewrite (seq_res_map_ext (fspec V fsem1 fpre inp) (fspec V fsem2 fpre inp)).
    2:{ intros d Hd. pose proof (deps_lt V WF n d L (reads_deps V fpre n d Hd)). apply IH; lia. }
    destruct (seq_res (map (fspec V fsem2 fpre inp) (reads V fpre n))) as [vals|e] eqn:S; auto.
    unfold compute. destruct (fpre n) eqn:P; auto.
    unfold reads in S. rewrite P in S.
    rewrite (AG n vals L I); auto. apply (seq_res_okb inp K _ _); auto.
    intros d Hd. eapply deps_ltN; eauto.
  Qed.
End FSpecTransfer.

(* ------------------------------------------------------------ the guard *)
Section GuardF.
  Variable W : workbook.
  Variable fsem : nat -> list pyval -> option pyval.
  Variable fpre : nat -> option nat.
  Variable rorder : (nat -> bool) -> nat -> list nat.
  Variable sem : nat -> list pyval -> pyval.

  Notation N := (wb_n W).
  Notation g := (guard W sem).

  Definition guard_f (n : nat) (vals : list pyval) : option pyval :=
    if args_okb W (wb_deps W n) vals then fsem n vals else Some (VInt BinNums.Z0).
  Notation gf := guard_f.

  Hypothesis WF : wf W.
  Hypothesis NBW : sem_nonblank_weak W sem.
  Hypothesis CP : completes fsem fpre sem.

  Lemma guard_f_agree n vals : args_ok W n vals -> fsem n vals = gf n vals.
  Proof. unfold args_ok, guard_f. intros ->. reflexivity. Qed.

  Lemma guard_f_completes : completes gf fpre g.
  Proof.
    intros n vals v P. unfold guard_f, guard. destruct (args_okb W (wb_deps W n) vals).
    - now apply CP.
    - intros H. now inversion H.
  Qed.

  Lemma guard_f_nb n vals v : n < N -> wb_input W n = false -> fpre n = None ->
    gf n vals = Some v -> v <> VNone.
  Proof.
    intros L I P. unfold guard_f. destruct (args_okb W (wb_deps W n) vals) eqn:OK.
    - intros H. rewrite <- (CP n vals v P H). now apply NBW.
    - intros H. inversion H. discriminate.
  Qed.

  Let AGf : forall n vals, n < N -> wb_input W n = false -> args_ok W n vals ->
              fsem n vals = gf n vals := fun n vals _ _ H => guard_f_agree n vals H.

  (* ---- the machine *)
  Lemma evaluate_f_guard s n : n < N -> (forall m, st_built s m = true -> m < N) ->
    evaluate_f W fsem fpre rorder s n = evaluate_f W gf fpre rorder s n.
  Proof. apply (evaluate_f_transfer W fsem gf fpre rorder WF guard_f_nb AGf). Qed.

  Lemma step_f_guard s o : fop_lt W o -> built_lt W s ->
    step_f W fsem fpre rorder s o = step_f W gf fpre rorder s o.
  Proof. apply (step_f_transfer W fsem gf fpre rorder WF guard_f_nb AGf). Qed.

  Lemma run_f_guard h s : Forall (fop_lt W) h -> built_lt W s ->
    run_f W fsem fpre rorder s h = run_f W gf fpre rorder s h.
  Proof. apply (run_f_transfer W fsem gf fpre rorder WF guard_f_nb AGf). Qed.

  Lemma fok_history_guard h s : built_lt W s -> fok_history W fsem fpre rorder s h ->
    fok_history W gf fpre rorder s h /\ Forall (fop_lt W) h.
  Proof. apply (fok_history_transfer W fsem gf fpre rorder WF guard_f_nb AGf). Qed.

  Lemma rok_history_guard f0 h s : built_lt W s -> rok_history W fsem fpre rorder f0 s h ->
    rok_history W gf fpre rorder f0 s h /\ Forall (fop_lt W) h.
  Proof. apply (rok_history_transfer W fsem gf fpre rorder WF guard_f_nb AGf). Qed.

  (* ---- the from-scratch outcome over W *)
  Lemma CI_W inp : CI W (wb_input W) inp.
  Proof. intros d _ I F. congruence. Qed.

  Lemma fspec_guard inp n : n < N -> fspec W fsem fpre inp n = fspec W gf fpre inp n.
  Proof.
    apply (fspec_transfer W (wb_input W) fsem gf fpre WF guard_f_nb); [|apply CI_W].
    intros k vals L I OK. now apply guard_f_agree.
  Qed.

  Lemma FSound_guard c : FSound W fsem fpre c <-> FSound W gf fpre c.
  Proof.
    unfold FSound. split; intros H m L I Hm.
    - rewrite <- fspec_guard by auto. now apply H.
    - rewrite fspec_guard by auto. now apply H.
  Qed.

  Lemma FInv_guard s : FInv W fsem fpre sem s <-> FInv W gf fpre g s.
  Proof.
    unfold FInv. rewrite (Inv_guard W sem WF NBW s), FSound_guard. tauto.
  Qed.

  Lemma fext_guard R c c' : fext W fsem fpre R c c' <-> fext W gf fpre R c c'.
  Proof.
    unfold fext. split; intros H m; destruct (H m) as [E|(A1&A2&A3&A4&A5&A6)]; auto; right;
      repeat split; try tauto.
    - rewrite <- fspec_guard by auto. tauto.
    - rewrite fspec_guard by auto. tauto.
  Qed.

  Lemma fails_at_guard inp k : k < N ->
    (fails_at W fsem fpre sem inp k <-> fails_at W gf fpre g inp k).
  Proof.
    intros L. unfold fails_at.
    assert (E: map (spec W sem inp) (reads W fpre k) = map (spec W g inp) (reads W fpre k)).
    { apply map_ext_in. intros d Hd. apply (spec_guard W sem WF NBW).
      eapply deps_ltN; eauto. eapply reads_deps; eauto. }
    rewrite E.
    assert (C: wb_input W k = false ->
               compute fsem fpre k (map (spec W g inp) (reads W fpre k))
               = compute gf fpre k (map (spec W g inp) (reads W fpre k))).
    { intros I. unfold compute. destruct (fpre k) eqn:P; auto.
      unfold reads. rewrite P.
      rewrite (guard_f_agree k (map (spec W g inp) (wb_deps W k))); auto.
      unfold args_ok. apply (C01Weak.args_spec W g WF (guard_nonblank W sem NBW)).
      intros d Hd. eapply deps_ltN; eauto. }
    split; intros [I H]; split; auto; [rewrite <- C|rewrite C]; auto.
  Qed.

  Lemma FInv_built_lt s : FInv W gf fpre g s -> built_lt W s.
  Proof. intros [I _] m. apply (inv_lt W g s I). Qed.
End GuardF.
