(* Proofs/C12TolExample.v — the hypotheses of the any-tolerance theorems
   (Proofs/C12Tol.v) are satisfiable with tolerance = 0 (tests, not theorems): the
   5-node shape of Proofs/C01Example.v with TEXT results
     0: A1 = 1 (input)   1: A2 = 2 (input)   2: A1:A2 (range node)
     3: B1 = one character computed from A1:A2, stored "j" (code 106)
     4: C1 = one character computed from B1 and A1, stored code 211
   and tolerance = 0 (which reports every NUMBER cell: Refuted/C12_zero_tolerance.v). *)
From Coq Require Import List Arith Bool Lia ZArith QArith.
From PV Require Import Lib.Py Model.Graph Model.Validate.
From PV Require Import Proofs.C01Base Proofs.C01Inv Proofs.C01 Proofs.C01Example.
From PV Require Import Proofs.C12Base Proofs.C12 Proofs.C12Tol Proofs.C12Once.
Import ListNotations.
Local Open Scope nat_scope.

Fixpoint ttot (v : pyval) : Z :=
  match v with
  | VInt z => z
  | VStr (c :: _) => c
  | VTuple l => (fix go (l : list pyval) : Z :=
                   match l with [] => 0%Z | x :: r => (ttot x + go r)%Z end) l
  | _ => 0%Z
  end.

Definition tx_sem (n : nat) (vals : list pyval) : pyval :=
  if n =? 2 then VTuple vals else VStr [(100 + Z.of_nat n + ttot (VTuple vals))%Z].

Definition txWs := ex_wb (fun n => match n with 3 => VStr [106%Z] | 4 => VStr [211%Z] | _ => VNone end).
Definition tx_text (n : nat) : list Z := [61%Z; Z.of_nat n].
Definition tol0 : option Q := Some 0%Q.

Example tx_spec : map (spec txWs tx_sem (wb_inp0 txWs)) [3; 4] = [VStr [106%Z]; VStr [211%Z]].
Proof. vm_compute. reflexivity. Qed.
Example tx_spec_nonconstant : spec txWs tx_sem (upd (wb_inp0 txWs) 0 (VInt 10)) 4 = VStr [229%Z].
Proof. vm_compute. reflexivity. Qed.

Example tx_nonblank : sem_nonblank txWs tx_sem.
Proof. intros n vals _ _. unfold tx_sem. destruct (n =? 2); discriminate. Qed.

Example tx_consistent : stored_consistent txWs tx_sem.
Proof.
  intros n L I R. destruct n as [|[|[|[|[|n]]]]]; vm_compute in I, R; try discriminate;
    try reflexivity.
  vm_compute in L. lia.
Qed.

(* the hypothesis that replaces tol_pos + is_scalar: met with tolerance 0 *)
Example tx_refl : forall n, n < wb_n txWs -> is_fcell txWs n = true ->
  close_enough tol0 (spec txWs tx_sem (wb_inp0 txWs) n) (spec txWs tx_sem (wb_inp0 txWs) n) = true.
Proof.
  intros n L FC. destruct n as [|[|[|[|[|n]]]]]; try discriminate; try (vm_compute; reflexivity).
  cbn in L; lia.
Qed.
Example tx_not_tol_pos : ~ tol_pos tol0.
Proof. intros H. vm_compute in H. discriminate. Qed.

Example tx_notext : forall n vals, n < wb_n txWs -> is_fcell txWs n = true ->
  py_eq (tx_sem n vals) (VStr (tx_text n)) = false.
Proof.
  intros n vals L FC. destruct n as [|[|[|[|[|n]]]]]; try discriminate; try (cbn in L; lia).
  all: unfold tx_sem, tx_text; cbn [Nat.eqb py_eq str_eqb]; now rewrite andb_false_r.
Qed.

Example tx_outs : forall o, In o [4] -> o < wb_n txWs.
Proof. intros o [<-|[]]. cbn. lia. Qed.

Example tx_sound : vs_report (validate txWs tx_sem tx_text tol0 [4]) = [].
Proof.
  apply T.sound; auto using tx_refl, tx_notext, tx_outs.
  - apply ex_wf. - apply tx_nonblank. - apply tx_consistent.
Qed.

(* B1's stored "j" replaced by the NUMBER 7, tolerance 0: B1 reported with (7, "j") *)
Example tx_complete :
  let r := vs_report (validate (perturb txWs 3 (VInt 7)) tx_sem tx_text tol0 [4]) in
  rep_get r 3 = Some (VInt 7, VStr [106%Z]) /\ forall n, rep_get r n <> None -> n = 3 \/ anc txWs 3 n.
Proof.
  pose proof (T.complete txWs tx_sem tx_text tol0 3 (VInt 7) (ex_wf _) tx_nonblank tx_consistent
                ltac:(cbn; lia) eq_refl tx_refl tx_notext ltac:(discriminate) eq_refl
                eq_refl [4] tx_outs) as H.
  apply H. exists 4. split; [left; auto|right]. constructor. cbn. auto.
Qed.
Example tx_complete_computed :
  vs_report (validate (perturb txWs 3 (VInt 7)) tx_sem tx_text tol0 [4])
  = [(4, (VStr [211%Z], VStr [112%Z])); (3, (VInt 7, VStr [106%Z]))].
Proof. vm_compute. reflexivity. Qed.

(* decided_entries: B1's entry is the same under outputs [4], [3; 4; 3], [4; 3] *)
Example tx_decided :
  rep_get (vs_report (validate (perturb txWs 3 (VInt 7)) tx_sem tx_text tol0 [4])) 3
  = rep_get (vs_report (validate (perturb txWs 3 (VInt 7)) tx_sem tx_text tol0 [3; 4; 3])) 3.
Proof. vm_compute. reflexivity. Qed.

(* reported_once on a run that pops B1 twice *)
Example tx_once :
  NoDup (map fst (vs_report (validate (perturb txWs 3 (VInt 7)) tx_sem tx_text tol0 [3; 4; 3]))).
Proof. apply reported_once. Qed.
