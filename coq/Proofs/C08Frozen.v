(* Proofs/C08Frozen.v — C08, the clause "cells that feed the outputs but do not
   depend on an input are frozen to the value they had at trim time", and the
   shape of cell_map after the trim (observe_at: set(cell_map) after trim).

   frozen_holds_value   a frozen cell is a built input cell of the trimmed
                        workbook whose value is the from-scratch value of the
                        original workbook under the trim-time inputs
   trim_outputs_kept    every output is in the trimmed cell_map
   trim_only_deletes    the trim adds no cell: trimmed cell_map is a subset of
                        the cell_map of the model after step 1
   trim_kept_needed     a kept cell is a needed cell; a built cell that is not
                        needed is deleted  *)
From Coq Require Import List Arith Bool Lia.
From PV Require Import Lib.Py Model.Graph Model.Trim.
From PV Require Import Proofs.C01Base Proofs.C01Inv Proofs.C01
                       Proofs.C08Walk Proofs.C08Run Proofs.C08Trim Proofs.C08.
Import ListNotations.
Local Open Scope nat_scope.

Section C08Frozen.
  Variable W : workbook.
  Variable sem : nat -> list pyval -> pyval.
  Hypothesis WF : wf W.
  Hypothesis NB : sem_nonblank W sem.
  Hypothesis SO : stored_ok W sem.
  Variable I O : list nat.
  Variable s : state.
  Hypothesis INV : Inv W sem s.
  Hypothesis OL : forall o, In o O -> o < wb_n W.

  Notation T := (trim W sem I O s).
  Notation s0 := (build_all W sem O s).

  Theorem frozen_holds_value f : tr_frz T f = true ->
    st_built (tr_st T) f = true /\
    wb_input (tr_wb T) f = true /\
    st_cache (tr_st T) f = spec W sem (st_cache s0) f.
  Proof.
    intros F.
    pose proof (frz_kept W sem WF NB SO I O s INV OL f F) as K.
    pose proof (frz_lv W sem WF NB SO I O s INV OL f F) as L.
    pose proof (lv_built W sem WF NB SO I O s INV OL f L) as B.
    pose proof (bb_lt W sem WF NB SO I O s INV OL f B) as Lt.
    split; [exact K|]. split.
    - change (tr_wb T) with (cut W (pw_frz (C08Trim.st3 W sem I O s)) (C08Trim.c3 W sem I O s)).
      cbn [cut wb_input]. change (tr_frz T f) with (pw_frz (C08Trim.st3 W sem I O s) f) in F.
      rewrite F. apply orb_true_r.
    - change (st_cache (tr_st T) f) with (st_cache (C08Trim.tt W sem I O s) f).
      rewrite (kept_cache W sem WF NB SO I O s INV OL f K).
      rewrite (frozen_value W sem WF NB SO I O s INV OL f F).
      apply (c3_spec W sem WF NB SO I O s INV OL f Lt).
  Qed.

  Theorem trim_outputs_kept o : In o O -> st_built (tr_st T) o = true.
  Proof. intros Ho. apply (out_live W sem WF NB SO I O s INV OL o Ho). Qed.

  Theorem trim_only_deletes n : st_built (tr_st T) n = true -> st_built s0 n = true.
  Proof.
    intros K. change (st_built (tr_st T) n) with (C08Trim.KK W sem I O s n) in K.
    rewrite (KK_eq W sem WF NB SO I O s INV OL) in K. apply andb_true_iff in K. apply K.
  Qed.

  Theorem trim_kept_needed n :
    st_built (tr_st T) n = (st_built s0 n && tr_need T n).
  Proof. apply (KK_eq W sem WF NB SO I O s INV OL). Qed.
End C08Frozen.
