(* Proofs/C06Example.v — the hypotheses of C06_cone_pass / C06_decay /
   C06_exhausted / C06_converged / C06_acyclic_total / C06_total are satisfiable
   on concrete workbooks, and the bounds are attained to the stated order.
   Everything here is a test on literals (vm_compute on closed terms only). *)
From Coq Require Import ZArith QArith Qabs Qpower List Bool Lia Lqa.
From PV Require Import Lib.Py Model.Iter Proofs.C06 Proofs.C06Lin Proofs.C06Struct Proofs.C06Cone Proofs.C06Conv Proofs.C06Ready.
Import ListNotations.
Open Scope Q_scope.

Definition st_of (w : wbook) (r : res (val * state)) : state :=
  match r with Ok (_, s) => s | Raise _ => init_state w end.
Definition v_of (r : res (val * state)) : val := match r with Ok (v, _) => v | Raise _ => None end.
Definition tol3 : Q := 1 # 1000.

Ltac closed_le := apply Qle_bool_iff; vm_compute; reflexivity.

(* ------------------------------------------------------------------ *)
(* 1. The 2-cell ring  x = 0.5 y + 1,  y = 0.25 x + 2                   *)
(*    (fixed point x = 16/7, y = 18/7; ||A||inf = 1/2).                 *)

Definition w2 : wbook :=
  {| w_cells := [ {| stored := None; formula := Some (1, [TCell (1#2) 1%nat]) |};
                  {| stored := None; formula := Some (2, [TCell (1#4) 0%nat]) |} ];
     w_ranges := [] |}.
Definition xs2 (c : nat) : Q := match c with 0%nat => 16#7 | 1%nat => 18#7 | _ => 0 end.

(* the state after the first evaluate (which builds both cells) *)
Definition st2a : state := Eval vm_compute in st_of w2 (evaluate_iterative w2 0 1 tol3 (init_state w2)).
Definition r2 : res (val * state) := Eval vm_compute in evaluate_iterative w2 0 100 tol3 st2a.
Definition v2 : val := Eval vm_compute in v_of r2.
Definition st2b : state := Eval vm_compute in st_of w2 r2.

Example ring2_no_sum : no_sum w2.
Proof.
  intros [|[|[|c]]] b ts F; cbn in F; inversion F; subst; intros t [<-|[]]; exact I.
Qed.
Example ring2_fixed_point : fixed_point w2 xs2.
Proof.
  intros [|[|[|c]]] b ts F; cbn in F; inversion F; subst; vm_compute; reflexivity.
Qed.
Example ring2_row_bound : row_bound_f w2 (1#2).
Proof.
  intros [|[|[|c]]] b ts F; cbn in F; inversion F; subst; closed_le.
Qed.
Example ring2_ready : cone_ready w2 xs2 0 st2a.
Proof.
  split; [reflexivity|]. split.
  - intros [|[|[|c]]]; reflexivity.
  - intros [|[|[|c]]] _ Hf Hb; cbn in Hf, Hb; discriminate.
Qed.
Example ring2_within : cone_within w2 xs2 0 (18#7) st2a.
Proof.
  intros [|[|[|c]]] _ Hf Hb; cbn in Hf, Hb; try discriminate; closed_le.
Qed.
Lemma ring2_reach : forall c, reach w2 0 c -> c = 0%nat \/ c = 1%nat.
Proof.
  intros c H. induction H as [|c b ts a j H IH F Hin]; [auto|].
  destruct IH as [-> | ->]; cbn in F; inversion F; subst; destruct Hin as [Heq|[]]; inversion Heq; auto.
Qed.
Example ring2_cone_built : cone_built w2 0 st2a.
Proof. intros c H. destruct (ring2_reach c H) as [-> | ->]; reflexivity. Qed.

(* hypotheses of C06_pass_total / C06_fuel_sufficient / C06_total *)
Example ring2_fuel_hyps : built (getc st2a 0) = true /\ (length (cells st2a) <= length (w_cells w2))%nat.
Proof. split; [reflexivity|cbn; lia]. Qed.
Example ring2_total : forall it tolv, exists v st', evaluate_iterative w2 0 it tolv st2a = Ok (v, st').
Proof.
  intros it tolv. apply iterative_ok; [exact ring2_no_sum|exact ring2_cone_built|cbn; lia].
Qed.

Example ring2_run : evaluate_iterative w2 0 100 tol3 st2a = Ok (v2, st2b).
Proof. vm_compute. reflexivity. Qed.
Example ring2_early : (itn (tr st2b) < 100)%Z.
Proof. vm_compute. reflexivity. Qed.

(* the theorem applies: the answer is within q/(1-q) (1+1e-5) tolerance of 16/7 *)
Example ring2_converged : dist xs2 0 v2 <= (1#2) / (1 - (1#2)) * (rel1 * tol3).
Proof.
  assert (Hq0 : 0 <= 1#2) by closed_le. assert (Hq1 : (1#2) < 1) by reflexivity.
  destruct (converged w2 xs2 (1#2) ring2_no_sum ring2_fixed_point ring2_row_bound Hq0 Hq1
              0%nat 100%Z tol3 st2a v2 st2b ring2_ready ring2_run ring2_early) as (_ & H & _).
  apply H. reflexivity.
Qed.
(* ... and not far inside it: more than 1/16 of the bound (here the composite
   map x -> 0.125 x + 2 contracts by 1/8 per pass, so the error is ~1/7 of the
   last movement) *)
Example ring2_order : (1#16) * ((1#2) / (1 - (1#2)) * (rel1 * tol3)) <= dist xs2 0 v2.
Proof. closed_le. Qed.

(* all passes used: 3 passes from distance <= 18/7 leave at most (1/2)^3 18/7 *)
Definition r2x : res (val * state) := Eval vm_compute in evaluate_iterative w2 0 3 tol3 st2a.
Example ring2_run3 : evaluate_iterative w2 0 3 tol3 st2a = Ok (v_of r2x, st_of w2 r2x).
Proof. vm_compute. reflexivity. Qed.
Example ring2_exhausted : dist xs2 0 (v_of r2x) <= (1#2) ^ 3 * (18#7).
Proof.
  assert (Hq0 : 0 <= 1#2) by closed_le. assert (Hq1 : (1#2) <= 1) by closed_le.
  assert (HE : 0 <= 18#7) by closed_le.
  destruct (exhausted w2 xs2 (1#2) (18#7) ring2_no_sum ring2_fixed_point ring2_row_bound Hq0 Hq1 HE
              0%nat 3%Z tol3 st2a _ _ ring2_ready ring2_within ring2_run3) as (_ & H).
  - lia.
  - vm_compute. discriminate.
  - apply H. reflexivity.
Qed.

(* ------------------------------------------------------------------ *)
(* 2. The self reference  x = 0.5 x + 1  (fixed point 2, q = 1/2):      *)
(*    both bounds are sharp.                                            *)

Definition w1 : wbook :=
  {| w_cells := [ {| stored := Some 0; formula := Some (1, [TCell (1#2) 0%nat]) |} ]; w_ranges := [] |}.
Definition xs1 (c : nat) : Q := match c with 0%nat => 2 | _ => 0 end.
Definition st1a : state := Eval vm_compute in st_of w1 (evaluate_iterative w1 0 1 tol3 (init_state w1)).
Definition r1 : res (val * state) := Eval vm_compute in evaluate_iterative w1 0 100 tol3 st1a.
Definition r1x : res (val * state) := Eval vm_compute in evaluate_iterative w1 0 5 tol3 st1a.

Example self_no_sum : no_sum w1.
Proof. intros [|[|c]] b ts F; cbn in F; inversion F; subst; intros t [<-|[]]; exact I. Qed.
Example self_fixed_point : fixed_point w1 xs1.
Proof. intros [|[|c]] b ts F; cbn in F; inversion F; subst; vm_compute; reflexivity. Qed.
Example self_row_bound : row_bound_f w1 (1#2).
Proof. intros [|[|c]] b ts F; cbn in F; inversion F; subst; closed_le. Qed.
Example self_ready : cone_ready w1 xs1 0 st1a.
Proof.
  split; [reflexivity|]. split.
  - intros [|[|c]]; reflexivity.
  - intros [|[|c]] _ Hf Hb; cbn in Hf, Hb; discriminate.
Qed.
Example self_within : cone_within w1 xs1 0 2 st1a.
Proof. intros [|[|c]] _ Hf Hb; cbn in Hf, Hb; try discriminate; closed_le. Qed.

Example self_run : evaluate_iterative w1 0 100 tol3 st1a = Ok (v_of r1, st_of w1 r1).
Proof. vm_compute. reflexivity. Qed.
Example self_early : (itn (tr (st_of w1 r1)) < 100)%Z.
Proof. vm_compute. reflexivity. Qed.
Example self_converged : dist xs1 0 (v_of r1) <= (1#2) / (1 - (1#2)) * (rel1 * tol3).
Proof.
  assert (Hq0 : 0 <= 1#2) by closed_le. assert (Hq1 : (1#2) < 1) by reflexivity.
  destruct (converged w1 xs1 (1#2) self_no_sum self_fixed_point self_row_bound Hq0 Hq1
              0%nat 100%Z tol3 st1a _ _ self_ready self_run self_early) as (_ & H & _).
  apply H. reflexivity.
Qed.
(* the a-posteriori bound is attained within 3 percent *)
Example self_sharp : (97#100) * ((1#2) / (1 - (1#2)) * (rel1 * tol3)) <= dist xs1 0 (v_of r1).
Proof. closed_le. Qed.

Example self_run5 : evaluate_iterative w1 0 5 tol3 st1a = Ok (v_of r1x, st_of w1 r1x).
Proof. vm_compute. reflexivity. Qed.
Example self_exhausted : dist xs1 0 (v_of r1x) <= (1#2) ^ 5 * 2.
Proof.
  assert (Hq0 : 0 <= 1#2) by closed_le. assert (Hq1 : (1#2) <= 1) by closed_le.
  assert (HE : 0 <= 2) by closed_le.
  destruct (exhausted w1 xs1 (1#2) 2 self_no_sum self_fixed_point self_row_bound Hq0 Hq1 HE
              0%nat 5%Z tol3 st1a _ _ self_ready self_within self_run5) as (_ & H).
  - lia.
  - vm_compute. discriminate.
  - apply H. reflexivity.
Qed.
(* the geometric bound is attained exactly *)
Example self_exhausted_sharp : dist xs1 0 (v_of r1x) == (1#2) ^ 5 * 2.
Proof. vm_compute. reflexivity. Qed.

(* ------------------------------------------------------------------ *)
(* 3. An acyclic workbook  A = 3,  B = 1 + 2 A.                         *)

Definition w3 : wbook :=
  {| w_cells := [ {| stored := Some 3; formula := None |};
                  {| stored := None; formula := Some (1, [TCell 2 0%nat]) |} ];
     w_ranges := [] |}.
Definition sv3 (c : nat) : Q := match c with 0%nat => 3 | 1%nat => 7 | _ => 0 end.
Definition st3a : state := Eval vm_compute in st_of w3 (evaluate_iterative w3 1 1 tol3 (init_state w3)).

Example acy_no_sum : no_sum w3.
Proof. intros [|[|[|c]]] b ts F; cbn in F; inversion F; subst; intros t [<-|[]]; exact I. Qed.
Example acy_fixed_point : fixed_point w3 sv3.
Proof. intros [|[|[|c]]] b ts F; cbn in F; inversion F; subst; vm_compute; reflexivity. Qed.
Example acy_acyclic : acyclic w3 (fun c => c).
Proof.
  intros [|[|[|c]]] b ts a j F Hin; cbn in F; inversion F; subst.
  destruct Hin as [Heq|[]]; inversion Heq; subst. lia.
Qed.
Example acy_quiet : quiet w3 sv3 1 st3a.
Proof.
  split; [reflexivity|]. split.
  - intros [|[|[|c]]]; reflexivity.
  - intros [|[|[|c]]] Hb Hf; cbn in Hf, Hb; try discriminate. vm_compute. reflexivity.
Qed.
Lemma acy_reach : forall c, reach w3 1 c -> c = 1%nat \/ c = 0%nat.
Proof.
  intros c H. induction H as [|c b ts a j H IH F Hin]; [auto|].
  destruct IH as [-> | ->]; cbn in F; inversion F; subst; destruct Hin as [Heq|[]]; inversion Heq; auto.
Qed.
Example acy_cone_built : cone_built w3 1 st3a.
Proof. intros c H. destruct (acy_reach c H) as [-> | ->]; reflexivity. Qed.

(* for every (iterations, tolerance) the evaluation returns, and returns 7 *)
Example acy_total : forall it tolv, exists v st',
  evaluate_iterative w3 1 it tolv st3a = Ok (v, st') /\ num v == 7.
Proof.
  intros it tolv.
  destruct (acyclic_total w3 sv3 (fun c => c) acy_no_sum acy_fixed_point acy_acyclic 1%nat it tolv st3a
              acy_quiet acy_cone_built) as (v & st' & E & Hv & _).
  - cbn. lia.
  - exists v, st'. split; [exact E|exact Hv].
Qed.

(* ------------------------------------------------------------------ *)
(* 4. From the initial state: a system with a constant k (= 1, later     *)
(*    written to 8):  x = 0.25 y + k,  y = 0.25 x + 2  (the reference  *)
(*    to the constant, coefficient 1, is not part of ||A||inf = 1/4).    *)
(*    The hypotheses of C06_converged follow from the history alone.    *)

Definition w4 : wbook :=
  {| w_cells := [ {| stored := None; formula := Some (0, [TCell (1#4) 1%nat; TCell 1 2%nat]) |};
                  {| stored := None; formula := Some (2, [TCell (1#4) 0%nat]) |};
                  {| stored := Some 1; formula := None |} ];
     w_ranges := [] |}.
(* fixed point for k: x = (16 k + 8) / 15, y = (4 k + 32) / 15 *)
Definition xs4 (k : Q) (c : nat) : Q :=
  match c with 0%nat => (16 * k + 8) / 15 | 1%nat => (4 * k + 32) / 15 | 2%nat => k | _ => 0 end.

Example hist_no_sum : no_sum w4.
Proof.
  intros [|[|[|[|c]]]] b ts F; cbn in F; inversion F; subst; intros t Ht; cbn in Ht;
    repeat (destruct Ht as [<-|Ht]; [exact I|]); destruct Ht.
Qed.
Example hist_fixed_point : forall k, fixed_point w4 (xs4 k).
Proof.
  intros k [|[|[|[|c]]]] b ts F; cbn in F; inversion F; subst; cbn [tdot xs4]; field.
Qed.
Example hist_row_bound : row_bound_f w4 (1#4).
Proof. intros [|[|[|[|c]]]] b ts F; cbn in F; inversion F; subst; closed_le. Qed.

Definition r4a : res (val * state) := Eval vm_compute in evaluate_iterative w4 0 100 tol3 (init_state w4).
Definition st4a : state := Eval vm_compute in st_of w4 r4a.
Definition st4b : state :=
  Eval vm_compute in match set_value 2 (Some 8) st4a with Ok s => s | Raise _ => st4a end.
Definition r4c : res (val * state) := Eval vm_compute in evaluate_iterative w4 0 100 tol3 st4b.

Example hist_run1 : evaluate_iterative w4 0 100 tol3 (init_state w4) = Ok (v_of r4a, st4a).
Proof. vm_compute. reflexivity. Qed.
Example hist_write : set_value 2 (Some 8) st4a = Ok st4b.
Proof. vm_compute. reflexivity. Qed.
Example hist_run2 : evaluate_iterative w4 0 100 tol3 st4b = Ok (v_of r4c, st_of w4 r4c).
Proof. vm_compute. reflexivity. Qed.
Example hist_early : (itn (tr (st_of w4 r4c)) < 100)%Z.
Proof. vm_compute. reflexivity. Qed.

(* initial state -> evaluate -> write k := 8 -> cone_ready for the new fixed point *)
Example hist_ready : cone_ready w4 (xs4 8) 0 st4b.
Proof.
  assert (H0 : calm (init_state w4) /\ consts_ok w4 (xs4 1) (init_state w4)).
  { apply ready_init. intros [|[|[|[|c]]]] Hf; cbn in Hf; try discriminate; vm_compute; reflexivity. }
  destruct H0 as [C0 K0].
  destruct (ready_evaluate _ _ _ _ _ _ _ _ C0 K0 hist_run1) as (C1 & K1 & _).
  destruct (ready_write w4 (xs4 1) (xs4 8) 2%nat (Some 8) st4a st4b C1 K1 eq_refl hist_write) as (C2 & K2).
  - vm_compute. reflexivity.
  - intros [|[|[|[|c]]]] Hne Hf; cbn in Hf; try discriminate; try congruence; vm_compute; reflexivity.
  - apply ready_cone; [exact C2|exact K2|reflexivity].
Qed.

(* the re-evaluation after the write is within q/(1-q) (1+1e-5) tol of the new fixed point 8/3 *)
Example hist_converged : dist (xs4 8) 0 (v_of r4c) <= (1#4) / (1 - (1#4)) * (rel1 * tol3).
Proof.
  assert (Hq0 : 0 <= 1#4) by closed_le. assert (Hq1 : (1#4) < 1) by reflexivity.
  destruct (converged w4 (xs4 8) (1#4) hist_no_sum (hist_fixed_point 8) hist_row_bound Hq0 Hq1
              0%nat 100%Z tol3 st4b _ _ hist_ready hist_run2 hist_early) as (_ & H & _).
  apply H. reflexivity.
Qed.
(* with the coefficient of k counted, the row norm would be 5/4: no contraction *)
Example hist_row_tnorm : ~ row_bound w4 1.
Proof. intros H. specialize (H 0%nat _ _ eq_refl). vm_compute in H. apply H. reflexivity. Qed.
