(* Proofs/C12FailBase.v — C12, failing cells, part 1: the chain machine on a cache
   that is sound on a precedent-closed set G of nodes ("every cached value of a
   G-node is the value its formula produces from scratch") — nothing is assumed
   outside G (altered stored results, stored results on cells that raise …):
   [eval_c] keeps the cache sound on G, fills only empty entries, fills an entry
   all of whose precedents are in G only with its from-scratch value, returns
   the from-scratch outcome (value, or failure) for such a node, and every chain
   it reports consists of non-input cells at or above the node and ends in a cell
   whose own function fails; the same for [build_c] (_gen_graph) and [recalc_c]
   (cell.value = None; evaluate). *)
From Coq Require Import List Arith Bool Lia ZArith QArith.
From PV Require Import Lib.Py Model.Graph Model.Fail Model.Validate Model.ValidateFail.
From PV Require Import Proofs.C01Base Proofs.C01Eval Proofs.C01Inv Proofs.C09Eval Proofs.C09Inv.
Import ListNotations.
Local Open Scope nat_scope.

Lemma last_cons_ne {A} (x : A) l d : l <> [] -> last (x :: l) d = last l d.
Proof. destruct l; [congruence|reflexivity]. Qed.

Section FBase.
  Variable W : workbook.
  Variable fsem : nat -> list pyval -> option pyval.
  Variable fpre : nat -> option nat.
  Variable rorder : (nat -> bool) -> nat -> list nat.
  Variable G : nat -> Prop.

  Notation N := (wb_n W).
  Notation deps := (wb_deps W).
  Notation isinput := (wb_input W).
  Notation isrange := (wb_range W).
  Notation stored := (wb_stored W).
  Notation F := (fspec W fsem fpre (wb_inp0 W)).
  Notation eval_c := (eval_c W fsem fpre).
  Notation anc := (anc W).

  Hypothesis WF : wf W.
  Hypothesis GD : forall n d, n < N -> G n -> In d (deps n) -> G d.

  (* every precedent of the node is in G *)
  Definition semiG (n : nat) : Prop := forall d, In d (deps n) -> G d.

  Lemma G_semiG n : n < N -> G n -> semiG n.
  Proof. intros L g d Hd. eapply GD; eauto. Qed.

  Lemma G_anc a n : anc a n -> n < N -> G n -> G a.
  Proof.
    intros A. induction A as [a n H|a b n A IH H]; intros L g.
    - eapply GD; eauto.
    - apply IH; [eapply deps_ltN; eauto|eapply GD; eauto].
  Qed.

  Definition SoundG (c : cache) : Prop :=
    (forall m, isinput m = true -> c m = wb_inp0 W m) /\
    (forall m, m < N -> G m -> isinput m = false -> c m <> VNone -> F m = FVal (c m)).

  (* c' extends c: inputs untouched, only empty entries filled, an entry whose
     precedents are all in G only by its from-scratch value *)
  (* a value some call of the cell's function returned *)
  Definition computed (m : nat) (v : pyval) : Prop := exists vals, fsem m vals = Some v.

  Definition Ext (c c' : cache) : Prop :=
    (forall m, isinput m = true -> c' m = c m) /\
    (forall m, c m <> VNone -> c' m = c m) /\
    (forall m, m < N -> semiG m -> c' m = c m \/ F m = FVal (c' m)) /\
    (forall m, c' m = c m \/ computed m (c' m)).

  Lemma Ext_refl c : Ext c c.
  Proof. repeat split; auto. Qed.

  Lemma Ext_trans c0 c1 c2 : Ext c0 c1 -> Ext c1 c2 -> Ext c0 c2.
  Proof.
    intros (A1 & A2 & A3 & A4) (B1 & B2 & B3 & B4). repeat split.
    - intros m I. now rewrite B1, A1.
    - intros m H. rewrite B2; [now apply A2|]. now rewrite A2.
    - intros m L S. destruct (B3 m L S) as [E|H]; [|right; auto].
      rewrite E. apply A3; auto.
    - intros m. destruct (B4 m) as [E|H]; [|right; auto]. rewrite E. apply A4.
  Qed.

  Lemma Ext_sound c c' : SoundG c -> Ext c c' -> SoundG c'.
  Proof.
    intros [S1 S2] (A1 & A2 & A3 & _). split.
    - intros m I. now rewrite A1, S1.
    - intros m L g I H. destruct (A3 m L (G_semiG m L g)) as [E|R]; auto.
      rewrite E in *. now apply S2.
  Qed.

  (* ------------------------------------------------------------- chains *)
  Definition self_fails (r : nat) : Prop :=
    r < N /\ isinput r = false /\ (fpre r <> None \/ exists vals, fsem r vals = None).

  (* the text names non-input cells at or above n, innermost = a cell whose own
     function failed *)
  Definition chain_ok (n : nat) (ch : chain) : Prop :=
    ch <> [] /\ (forall m, In m ch -> (m = n \/ anc m n) /\ isinput m = false) /\ self_fails (root ch).

  Definition agrees (r : cres) (n : nat) : Prop :=
    match r with CVal v => F n = FVal v | CRaise _ _ => is_raise (F n) = true end.

  Lemma cstep_stuck ev l c x : fold_left (cstep ev) l (c, inr x) = (c, inr x).
  Proof. induction l; cbn; auto. Qed.

  Lemma eval_c_unfold f c n : eval_c (S f) c n =
    if isinput n then (c, CVal (c n))
    else if is_none (c n) then
      let '(c', r) := fold_left (cstep (eval_c f)) (reads W fpre n) (c, inl []) in
      match r with
      | inr (e, ch) => (c', CRaise (wrap W n e) (wrap_c W n ch))
      | inl vals => match compute_c fsem fpre n vals with
                    | CVal v => (upd c' n v, CVal v)
                    | CRaise e ch => (c', CRaise e ch)
                    end
      end
    else (c, CVal (c n)).
  Proof. reflexivity. Qed.

  Definition eval_c_ok (f : nat) := forall n c, n < f -> n < N -> SoundG c ->
    let r := eval_c f c n in
    Ext c (fst r) /\
    (semiG n -> (G n \/ c n = VNone \/ isinput n = true) -> agrees (snd r) n) /\
    (forall e ch, snd r = CRaise e ch -> chain_ok n ch /\ c n = VNone) /\
    (forall v, snd r = CVal v -> fst r n = v).

  Lemma cfold f n : eval_c_ok f -> n < N ->
    forall l, (forall d, In d l -> In d (deps n)) -> (forall d, In d l -> d < f) ->
    forall c1 vs, SoundG c1 ->
      let r := fold_left (cstep (eval_c f)) l (c1, inl vs) in
      Ext c1 (fst r) /\
      ((forall d, In d l -> G d) ->
         match seq_res (map F l) with
         | inl ws => snd r = inl (vs ++ ws)
         | inr _ => exists e ch, snd r = inr (e, ch)
         end) /\
      (forall e ch, snd r = inr (e, ch) ->
         ch <> [] /\ (forall m, In m ch -> anc m n /\ isinput m = false) /\ self_fails (root ch)).
  Proof.
    intros IH L. induction l as [|d l IHl]; intros Sub Fu c1 vs K; cbn [fold_left].
    - cbn [fst snd map seq_res]. split; [apply Ext_refl|split].
      + intros _. now rewrite app_nil_r.
      + intros e ch H. discriminate.
    - cbn [cstep]. assert (Dn: In d (deps n)) by (apply Sub; left; auto).
      assert (Ld: d < N) by (eapply deps_ltN; eauto).
      destruct (IH d c1 ltac:(apply Fu; left; auto) Ld K) as (E1 & V1 & C1 & _).
      destruct (eval_c f c1 d) as [c2 rd]. cbn [fst snd] in E1, V1, C1.
      destruct rd as [v|e ch].
      + assert (K2: SoundG c2) by (eapply Ext_sound; eauto).
        destruct (IHl ltac:(intros; apply Sub; right; auto) ltac:(intros; apply Fu; right; auto)
                      c2 (vs ++ [v]) K2) as (E2 & V2 & C2).
        cbn zeta in *. split; [eapply Ext_trans; eauto|split; [|exact C2]].
        intros AG. cbn [map seq_res].
        assert (Gd: G d) by (apply AG; left; auto).
        specialize (V1 (G_semiG d Ld Gd) (or_introl Gd)). cbn [agrees] in V1. rewrite V1.
        specialize (V2 ltac:(intros; apply AG; right; auto)).
        destruct (seq_res (map F l)) as [ws|e0]; auto.
        rewrite V2, <- app_assoc. reflexivity.
      + rewrite cstep_stuck. cbn [fst snd]. split; [exact E1|split].
        * intros AG. cbn [map seq_res].
          assert (Gd: G d) by (apply AG; left; auto).
          specialize (V1 (G_semiG d Ld Gd) (or_introl Gd)). cbn [agrees] in V1.
          destruct (F d) as [v'|e']; [discriminate|]. eauto.
        * intros e0 ch0 H. inversion H; subst e0 ch0.
          destruct (C1 e ch eq_refl) as ((NE & EL & SF) & _). split; [auto|split; [|auto]].
          intros m Hm. destruct (EL m Hm) as [[->|A] I]; split; auto.
          -- now constructor.
          -- eapply anc_trans; eauto.
  Qed.

  Lemma compute_value n vals v : compute fsem fpre n vals = FVal v -> fsem n vals = Some v.
  Proof.
    unfold compute. destruct (fpre n); [discriminate|].
    destruct (fsem n vals); [|discriminate]. intros H. now inversion H.
  Qed.

  Lemma compute_raise n vals e : compute fsem fpre n vals = FRaise e ->
    fpre n <> None \/ exists vals, fsem n vals = None.
  Proof.
    unfold compute. destruct (fpre n) eqn:P; [left; congruence|].
    destruct (fsem n vals) eqn:S; [discriminate|]. right. eauto.
  Qed.

  Lemma eval_c_spec : forall f, eval_c_ok f.
  Proof.
    induction f as [|f IH]; intros n c Lf L K; [lia|]. cbn zeta. rewrite eval_c_unfold.
    pose proof (fspec_unfold W fsem fpre WF (wb_inp0 W) n L) as FU.
    destruct K as [K1 K2]. destruct (isinput n) eqn:I.
    { cbn [fst snd]. split; [apply Ext_refl|split; [|split; [discriminate|]]].
      - intros _ _. cbn [agrees]. rewrite FU. f_equal. symmetry. now apply K1.
      - intros v H. now inversion H. }
    destruct (is_none (c n)) eqn:E.
    2:{ apply is_none_false in E. cbn [fst snd]. split; [apply Ext_refl|split; [|split; [discriminate|]]].
        - intros _ [g|[H|H]]; [|congruence|congruence]. cbn [agrees]. now apply K2.
        - intros v H. now inversion H. }
    apply is_none_true in E.
    destruct (cfold f n IH L (reads W fpre n) (reads_deps W fpre n)
                    ltac:(intros d Hd; pose proof (deps_lt W WF _ _ L (reads_deps _ _ _ _ Hd)); lia)
                    c [] (conj K1 K2)) as (E1 & V1 & C1).
    cbn zeta in E1, V1, C1.
    destruct (fold_left (cstep (eval_c f)) (reads W fpre n) (c, inl [])) as [c' r]. cbn [fst snd] in *.
    assert (AG: semiG n -> forall d, In d (reads W fpre n) -> G d).
    { intros S d Hd. apply S. eapply reads_deps; eauto. }
    destruct r as [vals|[e ch]].
    - assert (Vn: semiG n -> F n = compute fsem fpre n vals).
      { intros S. specialize (V1 (AG S)). rewrite FU.
        destruct (seq_res (map F (reads W fpre n))) as [ws|e0].
        - cbn [app] in V1. inversion V1. reflexivity.
        - destruct V1 as (e1 & ch1 & H). discriminate. }
      unfold compute_c. destruct (compute fsem fpre n vals) as [v|e] eqn:Cp; cbn [fst snd].
      + split; [|split; [|split; [discriminate|]]].
        * destruct E1 as (A1 & A2 & A3 & A4). repeat split.
          -- intros m Im. rewrite upd_other by (intros ->; congruence). auto.
          -- intros m Hm. rewrite upd_other by (intros ->; congruence). auto.
          -- intros m Lm Sm. destruct (Nat.eq_dec m n) as [->|NE].
             ++ right. rewrite upd_same. now apply Vn.
             ++ rewrite upd_other by auto. now apply A3.
          -- intros m. destruct (Nat.eq_dec m n) as [->|NE].
             ++ right. rewrite upd_same. exists vals. now apply compute_value.
             ++ rewrite upd_other by auto. apply A4.
        * intros S _. cbn [agrees]. now apply Vn.
        * intros v' H. inversion H. apply upd_same.
      + split; [exact E1|split; [|split; [|discriminate]]].
        * intros S _. cbn [agrees]. now rewrite (Vn S).
        * intros e0 ch0 H. inversion H; subst. split; [|exact E]. split; [discriminate|split].
          -- intros m [<-|[]]. auto.
          -- unfold root. cbn [last]. split; [auto|split; [auto|]]. eapply compute_raise; eauto.
    - cbn [fst snd]. split; [exact E1|split; [|split; [|discriminate]]].
      + intros S _. cbn [agrees]. specialize (V1 (AG S)). rewrite FU.
        destruct (seq_res (map F (reads W fpre n))) as [ws|e0]; [discriminate|reflexivity].
      + intros e0 ch0 H. inversion H; subst e0 ch0.
        destruct (C1 e ch eq_refl) as (NE & EL & SF). split; [|exact E]. unfold wrap_c.
        destruct (isrange n).
        * split; [auto|split; [|auto]]. intros m Hm. destruct (EL m Hm). auto.
        * split; [discriminate|split].
          -- intros m [<-|Hm]; [auto|]. destruct (EL m Hm). auto.
          -- unfold root. rewrite last_cons_ne by auto. exact SF.
  Qed.

  Lemma eval_c_top c n : n < N -> SoundG c ->
    let r := eval_c (S N) c n in
    Ext c (fst r) /\
    (semiG n -> (G n \/ c n = VNone \/ isinput n = true) -> agrees (snd r) n) /\
    (forall e ch, snd r = CRaise e ch -> chain_ok n ch /\ c n = VNone) /\
    (forall v, snd r = CVal v -> fst r n = v).
  Proof. intros L K. apply eval_c_spec; auto. Qed.

  Lemma chain_ok_up m n ch : (m = n \/ anc m n) -> chain_ok m ch -> chain_ok n ch.
  Proof.
    intros A (NE & EL & SF). split; [auto|split; [|auto]].
    intros x Hx. destruct (EL x Hx) as [B I]. split; auto.
    destruct B as [->|B]; auto. destruct A as [->|A]; [auto|]. right. eapply anc_anc; eauto.
  Qed.

  (* ---------------------------------------------------------- _make_cells *)
  Lemma nc_fold (cond : nat -> bool) (val : nat -> pyval) : forall l (c : cache), NoDup l -> forall m,
    fold_left (fun (c : cache) k => if cond k then upd c k (val k) else c) l c m
    = if existsb (Nat.eqb m) l && cond m then val m else c m.
  Proof.
    induction l as [|k l IH]; intros c ND m; cbn [fold_left existsb]; auto.
    inversion ND as [|k' l' NI ND']; subst. rewrite IH by auto.
    destruct (Nat.eqb_spec m k) as [->|NE].
    - assert (X: existsb (Nat.eqb k) l = false).
      { destruct (existsb (Nat.eqb k) l) eqn:X; auto. apply existsb_exists in X.
        destruct X as (x & Hx & Ex). apply Nat.eqb_eq in Ex. subst. contradiction. }
      rewrite X. cbn [andb orb]. destruct (cond k); [apply upd_same|reflexivity].
    - cbn [orb]. destruct (existsb (Nat.eqb m) l && cond m); auto.
      destruct (cond k); [now apply upd_other|reflexivity].
  Qed.

  Lemma new_cells_at s b' : (forall m, b' m = true -> m < N) -> forall m,
    new_cells W s b' m = if b' m && negb (st_built s m) && negb (isinput m)
                         then (if isrange m then VNone else stored m) else st_cache s m.
  Proof.
    intros BL m. unfold new_cells.
    rewrite (nc_fold (fun m => b' m && negb (st_built s m) && negb (isinput m))
                     (fun m => if isrange m then VNone else stored m)) by apply seq_NoDup.
    destruct (b' m && negb (st_built s m) && negb (isinput m)) eqn:C; [|now rewrite andb_false_r].
    assert (X: existsb (Nat.eqb m) (seq 0 N) = true).
    { apply existsb_exists. exists m. split; [|apply Nat.eqb_refl]. apply in_seq.
      apply andb_prop in C. destruct C as [C _]. apply andb_prop in C. destruct C as [C _].
      pose proof (BL m C). lia. }
    now rewrite X.
  Qed.

  (* the stored results of the G-cells that are present are what their formulas
     produce from scratch (a G-cell that raises has none) *)
  Hypothesis GS : forall m, m < N -> G m -> is_fcell W m = true ->
    stored m = VNone \/ F m = FVal (stored m).

  Record SJ (s : state) : Prop := {
    j_lt : forall n, st_built s n = true -> n < N;
    j_deps : forall n d, st_built s n = true -> In d (deps n) -> st_built s d = true;
    j_sound : SoundG (st_cache s)
  }.

  Lemma SJ_init : SJ (init W).
  Proof.
    split; cbn [init st_built st_cache]; try discriminate. split.
    - intros m I. now rewrite I.
    - intros m _ _ I H. rewrite I in H. congruence.
  Qed.

  Notation bstep_c := (bstep_c W fsem fpre).

  Lemma bstep_c_stuck b0 b' l c x : fold_left (bstep_c b0 b') l (c, Some x) = (c, Some x).
  Proof. induction l; cbn; auto. Qed.

  Lemma bfold_c b0 b' n : n < N ->
    (forall m, b' m = true -> m < N) ->
    (forall m, b' m = true -> b0 m = false -> m = n \/ anc m n) ->
    forall l c, SoundG c ->
      let r := fold_left (bstep_c b0 b') l (c, None) in
      Ext c (fst r) /\
      match snd r with
      | Some (e, ch) => chain_ok n ch /\
                        exists m, (m = n \/ anc m n) /\ m < N /\ b0 m = false /\
                                  (semiG m -> is_raise (F m) = true)
      | None => True
      end.
  Proof.
    intros L BL FA. induction l as [|m l IHl]; intros c K; cbn [fold_left].
    - cbn. split; [apply Ext_refl|auto].
    - cbn [ValidateFail.bstep_c]. destruct (b' m && negb (b0 m) && isrange m) eqn:C.
      2:{ apply IHl; auto. }
      apply andb_prop in C. destruct C as [C Rm]. apply andb_prop in C. destruct C as [Bm B0m].
      apply negb_true_iff in B0m. pose proof (BL m Bm) as Lm. pose proof (FA m Bm B0m) as Am.
      destruct (eval_c_top c m Lm K) as (E & V & Ch & _).
      destruct (eval_c (S N) c m) as [c2 r]. cbn [fst snd] in E, V, Ch.
      destruct r as [v|e ch].
      + assert (K2: SoundG c2) by (eapply Ext_sound; eauto).
        destruct (IHl c2 K2) as [E2 F2]. cbn zeta in *. split; [eapply Ext_trans; eauto|exact F2].
      + rewrite bstep_c_stuck. cbn [fst snd]. split; [exact E|].
        destruct (Ch e ch eq_refl) as [CO Cn]. split; [eapply chain_ok_up; eauto|].
        exists m. repeat split; auto. intros S. apply (V S). auto.
  Qed.

  Lemma build_c_unfold s n : build_c W fsem fpre rorder s n =
    let b' := closure W (S N) (st_built s) n in
    let r := fold_left (bstep_c (st_built s) b') (rorder (st_built s) n ++ seq 0 N)
                       (new_cells W s b', None) in
    ({| st_cache := fst r; st_built := b' |}, snd r).
  Proof.
    unfold ValidateFail.build_c. cbn zeta.
    destruct (fold_left _ (rorder (st_built s) n ++ seq 0 N) _). reflexivity.
  Qed.

  (* a completion of the partial semantics, to use C09's lemmas about fspec *)
  Definition csem (n : nat) (vals : list pyval) : pyval :=
    match fsem n vals with Some v => v | None => VNone end.
  Lemma csem_completes : completes fsem fpre csem.
  Proof. intros n vals v _ H. unfold csem. now rewrite H. Qed.

  Lemma raise_up m n : n < N -> (m = n \/ anc m n) -> is_raise (F m) = true -> is_raise (F n) = true.
  Proof.
    intros L [->|A] R; auto. destruct (is_raise (F n)) eqn:Rn; auto.
    rewrite (fspec_val_anc W fsem fpre csem WF csem_completes _ n m L A Rn) in R. discriminate.
  Qed.


  (* _gen_graph of an address that is already in the cell map *)
  Lemma build_c_noop s n : (forall m, st_built s m = true -> m < N) -> st_built s n = true ->
    snd (build_c W fsem fpre rorder s n) = None /\
    st_built (fst (build_c W fsem fpre rorder s n)) = st_built s /\
    forall m, st_cache (fst (build_c W fsem fpre rorder s n)) m = st_cache s m.
  Proof.
    intros BL Bn. rewrite build_c_unfold. cbn zeta.
    assert (Eb: closure W (S N) (st_built s) n = st_built s) by (now rewrite closure_unfold, Bn).
    rewrite Eb.
    assert (Z: forall l c, fold_left (bstep_c (st_built s) (st_built s)) l (c, None) = (c, None)).
    { induction l as [|x l IHl]; intros c; cbn [fold_left]; auto.
      cbn [ValidateFail.bstep_c]. destruct (st_built s x); cbn [negb andb]; apply IHl. }
    rewrite Z. cbn [fst snd st_cache st_built]. split; [auto|split; [auto|]].
    intros m. rewrite (new_cells_at s (st_built s) BL).
    destruct (st_built s m); cbn [negb andb]; reflexivity.
  Qed.

  Lemma SoundG_clear c n : isinput n = false -> SoundG c -> SoundG (upd c n VNone).
  Proof.
    intros I [K1 K2]. split.
    - intros m Im. rewrite upd_other by (intros ->; congruence). auto.
    - intros m L g Im. destruct (Nat.eq_dec m n) as [->|NE].
      + rewrite upd_same. congruence.
      + rewrite upd_other by auto. auto.
  Qed.

  Lemma evaluate_c_unfold s n : evaluate_c W fsem fpre rorder s n =
    match snd (build_c W fsem fpre rorder s n) with
    | Some (e, ch) => (fst (build_c W fsem fpre rorder s n), CRaise e ch)
    | None => ({| st_cache := fst (eval_c (S N) (st_cache (fst (build_c W fsem fpre rorder s n))) n);
                  st_built := st_built (fst (build_c W fsem fpre rorder s n)) |},
               snd (eval_c (S N) (st_cache (fst (build_c W fsem fpre rorder s n))) n))
    end.
  Proof.
    unfold ValidateFail.evaluate_c. destruct (build_c W fsem fpre rorder s n) as [s1 [[e ch]|]]; cbn [fst snd]; auto.
    destruct (eval_c (S N) (st_cache s1) n); reflexivity.
  Qed.

  (* cell.value = None; self.evaluate(address) on a cell of the map *)
  Lemma recalc_c_SJ s n : SJ s -> st_built s n = true -> isinput n = false ->
    let r := recalc_c W fsem fpre rorder s n in
    SJ (fst r) /\ st_built (fst r) = st_built s
    /\ (forall m, m <> n ->
          (st_cache s m <> VNone -> st_cache (fst r) m = st_cache s m) /\
          (m < N -> semiG m -> st_cache (fst r) m = st_cache s m \/ F m = FVal (st_cache (fst r) m)))
    /\ (semiG n -> st_cache (fst r) n = VNone \/ F n = FVal (st_cache (fst r) n))
    /\ (semiG n -> agrees (snd r) n)
    /\ (forall e ch, snd r = CRaise e ch -> chain_ok n ch)
    /\ (forall v, snd r = CVal v -> st_cache (fst r) n = v)
    /\ (forall m, st_cache (fst r) m = st_cache s m \/ st_cache (fst r) m = VNone \/
                  computed m (st_cache (fst r) m)).
  Proof.
    intros [J1 J2 J3] Bn I. pose proof (J1 n Bn) as L. unfold recalc_c. cbn zeta.
    set (s0 := {| st_cache := upd (st_cache s) n VNone; st_built := st_built s |}).
    rewrite evaluate_c_unfold.
    destruct (build_c_noop s0 n J1 Bn) as (B1 & B2 & B3). rewrite B1.
    set (c1 := st_cache (fst (build_c W fsem fpre rorder s0 n))) in *.
    assert (K0: SoundG (upd (st_cache s) n VNone)) by (now apply SoundG_clear).
    assert (K1: SoundG c1).
    { destruct K0 as [A B]. split.
      - intros m Im. unfold c1. rewrite B3. now apply A.
      - intros m Lm g Im. unfold c1. rewrite B3. now apply B. }
    assert (C1n: c1 n = VNone) by (unfold c1; rewrite B3; apply upd_same).
    destruct (eval_c_top c1 n L K1) as (E & V & Ch & Vl).
    destruct (eval_c (S N) c1 n) as [c2 r]. cbn [fst snd] in *.
    destruct E as (A1 & A2 & A3 & A4).
    split; [|split; [exact B2|split; [|split; [|split; [|split; [|split]]]]]].
    - split; cbn [st_cache st_built]; rewrite ?B2; auto.
      eapply Ext_sound; [exact K1|]. repeat split; auto.
    - intros m NE. assert (X: c1 m = st_cache s m) by (unfold c1; rewrite B3; now apply upd_other).
      rewrite <- X. split; auto.
    - intros S. rewrite <- C1n. now apply A3.
    - intros S. apply V; auto.
    - intros e ch H. now apply (Ch e ch H).
    - exact Vl.
    - intros m. cbn [st_cache]. destruct (A4 m) as [E|H]; [|auto]. rewrite E. unfold c1. rewrite B3. unfold s0. cbn [st_cache].
      destruct (Nat.eq_dec m n) as [->|NE]; [rewrite upd_same; auto|rewrite upd_other; auto].
  Qed.

  Lemma build_c_SJ s n : SJ s -> n < N ->
    let r := build_c W fsem fpre rorder s n in
    SJ (fst r) /\ st_built (fst r) n = true
    /\ (forall m, st_built s m = true -> st_built (fst r) m = true)
    /\ (st_built s n = true -> st_built (fst r) = st_built s)
    /\ (forall m, st_built s m = true ->
          (st_cache s m <> VNone -> st_cache (fst r) m = st_cache s m) /\
          (m < N -> semiG m -> st_cache (fst r) m = st_cache s m \/ F m = FVal (st_cache (fst r) m)))
    /\ (forall m, st_built s m = false -> st_built (fst r) m = true -> is_fcell W m = true ->
          stored m <> VNone -> st_cache (fst r) m = stored m)
    /\ (forall m, st_cache (fst r) m = st_cache s m \/ st_cache (fst r) m = VNone \/
                  st_cache (fst r) m = stored m \/ computed m (st_cache (fst r) m))
    /\ match snd r with
       | Some (e, ch) => chain_ok n ch /\ st_built s n = false /\
                         ((forall a, anc a n -> G a) -> is_raise (F n) = true)
       | None => True
       end.
  Proof.
    intros [J1 J2 J3] L. rewrite build_c_unfold. cbn zeta.
    set (b' := closure W (S N) (st_built s) n).
    destruct (closure_props W WF (st_built s) n L J1 J2) as (C1 & C2 & C3 & C4).
    fold b' in C1, C2, C3, C4.
    assert (FA: forall m, b' m = true -> st_built s m = false -> m = n \/ anc m n).
    { intros m Bm B0. destruct (closure_anc _ _ _ _ _ Bm) as [H|H]; [congruence|auto]. }
    pose proof (new_cells_at s b' C3) as NC.
    assert (S1: SoundG (new_cells W s b')).
    { destruct J3 as [K1 K2]. split.
      - intros m I. rewrite NC, I. cbn [negb]. rewrite andb_false_r. now apply K1.
      - intros m Lm g I. rewrite NC, I. cbn [negb]. rewrite andb_true_r.
        destruct (b' m && negb (st_built s m)) eqn:Fr; [|now apply K2].
        destruct (isrange m) eqn:R; [congruence|]. intros H.
        destruct (GS m Lm g) as [X|X]; [unfold is_fcell; now rewrite I, R|congruence|exact X]. }
    destruct (bfold_c (st_built s) b' n L C3 FA (rorder (st_built s) n ++ seq 0 N)
                      (new_cells W s b') S1) as [E Fl].
    set (r := fold_left (bstep_c (st_built s) b') (rorder (st_built s) n ++ seq 0 N)
                        (new_cells W s b', None)) in *.
    cbn zeta in E, Fl. cbn [fst snd st_cache st_built].
    assert (Old: forall m, st_built s m = true -> new_cells W s b' m = st_cache s m).
    { intros m Bm. rewrite NC, Bm. cbn [negb]. now rewrite andb_false_r. }
    split; [|split; [exact C2|split; [exact C1|split; [|split; [|split; [|split]]]]]].
    - split; cbn [st_cache st_built]; auto. eapply Ext_sound; eauto.
    - intros Bn. unfold b'. now rewrite closure_unfold, Bn.
    - intros m Bm. destruct E as (A1 & A2 & A3 & _). rewrite <- (Old m Bm). split; auto.
    - intros m B0 Bm FC SN. destruct E as (_ & A2 & _).
      assert (X: new_cells W s b' m = stored m).
      { rewrite NC, Bm, B0. unfold is_fcell in FC. apply andb_prop in FC. destruct FC as [I R].
        rewrite I. apply negb_true_iff in R. now rewrite R. }
      rewrite <- X. apply A2. now rewrite X.
    - intros m. destruct E as (_ & _ & _ & A4). destruct (A4 m) as [X|X]; [|auto]. rewrite X, NC.
      destruct (b' m && negb (st_built s m) && negb (isinput m)); auto.
      destruct (wb_range W m); auto.
    - destruct (snd r) as [[e ch]|] eqn:Sr; auto.
      destruct Fl as (CO & m & Am & Lm & B0 & Rm). split; [exact CO|split].
      + destruct (st_built s n) eqn:Bn; auto. exfalso.
        assert (Eb: b' = st_built s) by (unfold b'; now rewrite closure_unfold, Bn).
        (* nothing is fresh: no range node was evaluated *)
        assert (Z: forall l c, fold_left (bstep_c (st_built s) b') l (c, None) = (c, None)).
        { induction l as [|x l IHl]; intros c; cbn [fold_left]; auto.
          cbn [ValidateFail.bstep_c].
          assert (Fx: b' x && negb (st_built s x) = false) by (rewrite Eb; destruct (st_built s x); reflexivity).
          rewrite Fx. cbn [andb]. apply IHl. }
        assert (Y: snd r = None) by (unfold r; now rewrite Z).
        congruence.
      + intros AG. apply (raise_up m n L Am). apply Rm.
        destruct Am as [->|Am]; [intros d Hd; apply AG; now constructor|].
        apply G_semiG; auto.
  Qed.
End FBase.
