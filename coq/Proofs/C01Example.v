(* Proofs/C01Example.v — C01: the hypotheses of the coherence theorems are
   satisfiable on a 5-node workbook with a range node, in both configurations
   (tests, not theorems).
     0: A1 = 1 (input)   1: A2 = 2 (input)   2: A1:A2 (range node)
     3: B1 = f3(A1:A2)   4: C1 = f4(B1, A1)                                 *)
From Coq Require Import List Arith Bool Lia ZArith.
From PV Require Import Lib.Py Model.Graph.
From PV Require Import Proofs.C01Base Proofs.C01Inv Proofs.C01.
Import ListNotations.
Local Open Scope nat_scope.

Fixpoint tot (v : pyval) : Z :=
  match v with
  | VInt z => z
  | VTuple l => (fix go (l : list pyval) : Z :=
                   match l with [] => 0%Z | x :: r => (tot x + go r)%Z end) l
  | _ => 0%Z
  end.

(* range node: the tuple of its members; formula node n: n + the sum of the numbers it reads *)
Definition ex_sem (n : nat) (vals : list pyval) : pyval :=
  if n =? 2 then VTuple vals else VInt (Z.of_nat n + tot (VTuple vals)).

Definition ex_wb (st : nat -> pyval) : workbook :=
  {| wb_n := 5;
     wb_input := fun n => n <? 2;
     wb_deps := fun n => match n with 2 => [0; 1] | 3 => [2] | 4 => [3; 0] | _ => [] end;
     wb_range := fun n => n =? 2;
     wb_inp0 := fun n => match n with 0 => VInt 1 | 1 => VInt 2 | _ => VNone end;
     wb_stored := st |}.

Definition exW := ex_wb (fun _ => VNone).                                     (* no stored results *)
Definition exWs := ex_wb (fun n => match n with 3 => VInt 6 | 4 => VInt 11 | _ => VNone end).

Example ex_wf st : wf (ex_wb st).
Proof. apply wfb_sound. reflexivity. Qed.
Example ex_nonblank st : sem_nonblank (ex_wb st) ex_sem.
Proof. intros n vals _ _. unfold ex_sem. destruct (n =? 2); discriminate. Qed.
Example ex_exact st : inputs_exact (ex_wb st) (wb_inp0 (ex_wb st)).
Proof. intros m _ _. destruct m as [|[|m]]; reflexivity. Qed.

(* the from-scratch values, and they do depend on the inputs *)
Example ex_spec : map (spec exW ex_sem (wb_inp0 exW)) [2; 3; 4]
                  = [VTuple [VInt 1; VInt 2]; VInt 6; VInt 11].
Proof. vm_compute. reflexivity. Qed.
Example ex_spec_nonconstant :
  spec exW ex_sem (upd (wb_inp0 exW) 0 (VInt 10)) 4 = VInt 29.
Proof. vm_compute. reflexivity. Qed.

(* ---- configuration without stored results: any order of operations *)
Definition ex_h : list gop :=
  [ Evaluate 3; SetValue 0 (VInt 10); Evaluate 4; SetValue 1 VNone; Evaluate 4;
    SetValue 0 (VBool true); Build 2; Evaluate 3; SetValue 0 (VInt 1); Evaluate 4 ].

Example ex_h_ok : ok_history exW ex_sem (ok_op_free exW) (init exW) ex_h.
Proof. cbn [ok_history ex_h]. repeat split; try (vm_compute; reflexivity); vm_compute; lia. Qed.

Example ex_h_trace : snd (run exW ex_sem (init exW) ex_h)
  = [VInt 6; VNone; VInt 29; VNone; VInt 27; VNone; VNone; VInt 3; VNone; VInt 9].
Proof. vm_compute. reflexivity. Qed.

(* the same trace, obtained from the theorem *)
Example ex_h_coherent :
  snd (run exW ex_sem (init exW) ex_h) = run_spec exW ex_sem (wb_inp0 exW) ex_h.
Proof.
  apply coherent_nodata.
  - apply ex_wf. - apply ex_nonblank. - intros n; reflexivity. - apply (ex_exact (fun _ => VNone)).
  - apply ex_h_ok.
Qed.

(* ---- configuration with stored results: dependants built before the write *)
Example exs_consistent : stored_consistent exWs ex_sem.
Proof.
  intros n L I R. destruct n as [|[|[|[|[|n]]]]]; vm_compute in I, R; try discriminate;
    try reflexivity.
  vm_compute in L. lia.
Qed.

Definition exs_h : list gop :=
  [ Evaluate 4; SetValue 0 (VInt 10); Evaluate 4; SetValue 1 (VStr []); Evaluate 3; Evaluate 4 ].

Example exs_h_ok : ok_history exWs ex_sem (ok_op_built exWs) (init exWs) exs_h.
Proof.
  cbn [ok_history exs_h]. repeat split; try (vm_compute; reflexivity); try (vm_compute; lia).
  all: intros d Ld _; destruct d as [|[|[|[|[|d]]]]]; try (vm_compute; reflexivity);
       cbn in Ld; lia.
Qed.

Example exs_h_coherent :
  snd (run exWs ex_sem (init exWs) exs_h) = run_spec exWs ex_sem (wb_inp0 exWs) exs_h.
Proof.
  apply coherent_stored.
  - apply ex_wf. - apply ex_nonblank. - apply exs_consistent. - apply (ex_exact (wb_stored exWs)).
  - apply exs_h_ok.
Qed.

Example exs_h_trace : snd (run exWs ex_sem (init exWs) exs_h)
  = [VInt 11; VNone; VInt 29; VNone; VInt 13; VInt 27].
Proof. vm_compute. reflexivity. Qed.
