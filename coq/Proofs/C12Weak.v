(* Proofs/C12Weak.v — C12 (Model/Validate.v) under the weak non-blank
   condition of Proofs/C01Weak.v.  The loop of validate_calcs reaches [sem]
   only through [build] and [evaluate] of nodes of the workbook, and those
   cannot tell [sem] from [guard W sem] in ANY state (C01Weak.build_transfer,
   evaluate_transfer need no invariant — recalc's "value = None without a
   reset" is covered); so the whole loop coincides ([validate_guard]) and the
   theorems of Proofs/C12.v are carried back. *)
From Coq Require Import List Arith Bool Lia QArith.
From PV Require Import Lib.Py Model.Graph Model.Validate.
From PV Require Import Proofs.C01Base Proofs.C01Inv Proofs.C01 Proofs.C01Weak
                       Proofs.C12Base Proofs.C12.
Import ListNotations.
Local Open Scope nat_scope.

Lemma push_deps_in (v : list nat) : forall (l td : list nat) x,
  In x (fold_left (fun td d => if mem d v then td else d :: td) l td) ->
  In x td \/ In x l.
Proof.
  induction l as [|d l IH]; intros td x H; cbn [fold_left] in H; auto.
  apply IH in H. destruct H as [H|H]; [|right; right; auto].
  destruct (mem d v); auto. destruct H as [->|H]; auto. right. left. auto.
Qed.

Section C12Weak.
  Variable W : workbook.
  Variable sem : nat -> list pyval -> pyval.
  Variable ftext : nat -> list BinNums.Z.
  Variable tol : option Q.
  Hypothesis WF : wf W.
  Hypothesis NBW : sem_nonblank_weak W sem.

  Notation N := (wb_n W).
  Notation g := (guard W sem).
  Let NB2 : sem_nonblank W g := guard_nonblank W sem NBW.
  Let AG : forall n vals, n < N -> wb_input W n = false -> args_ok W n vals ->
             sem n vals = g n vals := fun n vals _ _ H => guard_agree W sem n vals H.

  Lemma recalc_guard s n : n < N -> recalc W sem s n = recalc W g s n.
  Proof. intros L. unfold recalc. now rewrite (evaluate_transfer W sem g WF NB2 AG _ n L). Qed.

  Lemma vstep_guard vs : (forall n, In n (vs_todo vs) -> n < N) ->
    vstep W sem ftext tol vs = vstep W g ftext tol vs
    /\ (forall n, In n (vs_todo (vstep W g ftext tol vs)) -> n < N).
  Proof.
    intros T. unfold vstep. destruct (vs_todo vs) as [|n rest] eqn:E.
    - split; auto. rewrite E. intros ? [].
    - assert (L: n < N) by (apply T; left; auto).
      assert (R: forall x, In x rest -> x < N) by (intros; apply T; right; auto).
      assert (P: forall v x, In x (push_deps W n v rest) -> x < N).
      { intros v x H. unfold push_deps in H. apply push_deps_in in H. destruct H as [H|H]; auto.
        eapply deps_ltN; eauto. }
      cbv zeta. rewrite (build_transfer W sem g WF NB2 AG).
      rewrite !(recalc_guard _ n L). split; [reflexivity|].
      destruct (is_fcell W n); [|cbn [vs_todo]; apply P].
      destruct (py_eq (st_cache (build W g (vs_st vs) n) n) (VStr (ftext n))); [cbn [vs_todo]; exact R|].
      destruct (is_none (st_cache (build W g (vs_st vs) n) n)
                || close_enough tol (st_cache (recalc W g (build W g (vs_st vs) n) n) n)
                                (st_cache (build W g (vs_st vs) n) n)); cbn [vs_todo]; apply P.
  Qed.

  Lemma vloop_guard : forall f vs, (forall n, In n (vs_todo vs) -> n < N) ->
    vloop W sem ftext tol f vs = vloop W g ftext tol f vs.
  Proof.
    induction f as [|f IH]; intros vs T; [reflexivity|]. cbn [vloop].
    destruct (vs_todo vs) eqn:E; [reflexivity|]. rewrite <- E in T.
    destruct (vstep_guard vs T) as [S T']. rewrite S. now apply IH.
  Qed.

  Lemma validate_guard outs : (forall o, In o outs -> o < N) ->
    validate W sem ftext tol outs = validate W g ftext tol outs.
  Proof.
    intros OL. unfold validate, validate_from. apply vloop_guard. cbn [vs_todo].
    intros n H. apply in_rev in H. now apply OL.
  Qed.

  (* ---- the side conditions *)
  Lemma consistent_guard : stored_consistent W sem -> stored_consistent W g.
  Proof. intros SC n L I R. rewrite <- (spec_guard W sem WF NBW) by auto. now apply SC. Qed.

  Lemma scalar_guard :
    (forall n, n < N -> is_fcell W n = true -> is_scalar (spec W sem (wb_inp0 W) n) = true) ->
    (forall n, n < N -> is_fcell W n = true -> is_scalar (spec W g (wb_inp0 W) n) = true).
  Proof. intros H n L F. rewrite <- (spec_guard W sem WF NBW) by auto. now apply H. Qed.

  Lemma text_guard :
    (forall n vals, n < N -> is_fcell W n = true -> py_eq (sem n vals) (VStr (ftext n)) = false) ->
    (forall n vals, n < N -> is_fcell W n = true -> py_eq (g n vals) (VStr (ftext n)) = false).
  Proof.
    intros H n vals L F. unfold guard. destruct (args_okb W (wb_deps W n) vals); [now apply H|reflexivity].
  Qed.

  Lemma good_guard b : good W sem b <-> good W g b.
  Proof.
    unfold good. split; intros H L F.
    - rewrite <- (spec_guard W sem WF NBW) by auto. now apply H.
    - rewrite (spec_guard W sem WF NBW) by auto. now apply H.
  Qed.
  Lemma clean_guard n : clean W sem n -> clean W g n.
  Proof. intros C b Hb. apply good_guard. now apply C. Qed.
  Lemma semiclean_guard n : semiclean W sem n -> semiclean W g n.
  Proof. intros C b Hb. apply good_guard. now apply C. Qed.
End C12Weak.

(* ----------------------------------------------------------- the theorems *)
Theorem sound_weak : forall W sem ftext tol,
  wf W -> sem_nonblank_weak W sem -> stored_consistent W sem -> tol_pos tol ->
  (forall n, n < wb_n W -> is_fcell W n = true -> is_scalar (spec W sem (wb_inp0 W) n) = true) ->
  (forall n vals, n < wb_n W -> is_fcell W n = true -> py_eq (sem n vals) (VStr (ftext n)) = false) ->
  forall outs, (forall o, In o outs -> o < wb_n W) ->
    vs_report (validate W sem ftext tol outs) = [].
Proof.
  intros W sem ftext tol WF NBW SC TP HS HT outs OL.
  rewrite (validate_guard W sem ftext tol WF NBW outs OL).
  apply (sound W (guard W sem) ftext tol WF (guard_nonblank W sem NBW)); auto.
  - now apply consistent_guard.
  - now apply scalar_guard.
  - now apply text_guard.
Qed.

Theorem complete_weak : forall W sem ftext tol p v',
  wf W -> sem_nonblank_weak W sem -> stored_consistent W sem ->
  p < wb_n W -> is_fcell W p = true -> tol_pos tol ->
  (forall n, n < wb_n W -> is_fcell W n = true -> is_scalar (spec W sem (wb_inp0 W) n) = true) ->
  (forall n vals, n < wb_n W -> is_fcell W n = true -> py_eq (sem n vals) (VStr (ftext n)) = false) ->
  v' <> VNone -> py_eq v' (VStr (ftext p)) = false ->
  close_enough tol (spec W sem (wb_inp0 W) p) v' = false ->
  forall outs, (forall o, In o outs -> o < wb_n W) ->
    (exists o, In o outs /\ (p = o \/ anc W p o)) ->
    let r := vs_report (validate (perturb W p v') sem ftext tol outs) in
    rep_get r p = Some (v', spec W sem (wb_inp0 W) p) /\
    forall n, rep_get r n <> None -> n = p \/ anc W p n.
Proof.
  intros W sem ftext tol p v' WF NBW SC Lp Fp TP HS HT NN TXp CE outs OL EX.
  (* perturb changes the stored results only: guard, wf and the weak condition are those of W *)
  pose proof (validate_guard (perturb W p v') sem ftext tol WF NBW outs OL) as E.
  change (guard (perturb W p v') sem) with (guard W sem) in E.
  cbv zeta. rewrite E, (spec_guard W sem WF NBW _ p Lp).
  apply (complete W (guard W sem) ftext tol p v' WF (guard_nonblank W sem NBW)); auto.
  - now apply consistent_guard.
  - now apply scalar_guard.
  - now apply text_guard.
  - now rewrite <- (spec_guard W sem WF NBW _ p Lp).
Qed.

Section General.
  Variable W : workbook.
  Variable sem : nat -> list pyval -> pyval.
  Variable ftext : nat -> list BinNums.Z.
  Variable tol : option Q.
  Variable outs : list nat.
  Hypothesis WF : wf W.
  Hypothesis NBW : sem_nonblank_weak W sem.
  Hypothesis SF : stored_full W.
  Hypothesis TS : forall n, n < wb_n W -> is_fcell W n = true ->
                    py_eq (wb_stored W n) (VStr (ftext n)) = false.
  Hypothesis TV : forall n vals, n < wb_n W -> is_fcell W n = true ->
                    py_eq (sem n vals) (VStr (ftext n)) = false.
  Hypothesis HS : forall n, n < wb_n W -> is_fcell W n = true ->
                    is_scalar (spec W sem (wb_inp0 W) n) = true.
  Hypothesis TP : tol_pos tol.
  Hypothesis OL : forall o, In o outs -> o < wb_n W.

  Theorem processed_all_weak :
    vs_todo (validate W sem ftext tol outs) = [] /\
    forall o n, In o outs -> n = o \/ anc W n o ->
      mem n (vs_verified (validate W sem ftext tol outs)) = true.
  Proof.
    rewrite (validate_guard W sem ftext tol WF NBW outs OL).
    apply (processed_all W (guard W sem) ftext tol outs WF (guard_nonblank W sem NBW) SF TS
             (text_guard W sem ftext TV) (scalar_guard W sem WF NBW HS) TP OL).
  Qed.

  Theorem clean_not_reported_weak n : clean W sem n ->
    rep_get (vs_report (validate W sem ftext tol outs)) n = None.
  Proof.
    intros C. rewrite (validate_guard W sem ftext tol WF NBW outs OL).
    apply (clean_not_reported W (guard W sem) ftext tol outs WF (guard_nonblank W sem NBW) SF TS
             (text_guard W sem ftext TV) (scalar_guard W sem WF NBW HS) TP OL).
    now apply clean_guard.
  Qed.

  Theorem bad_reported_weak o n : In o outs -> n = o \/ anc W n o -> n < wb_n W ->
    is_fcell W n = true -> semiclean W sem n ->
    close_enough tol (spec W sem (wb_inp0 W) n) (wb_stored W n) = false ->
    rep_get (vs_report (validate W sem ftext tol outs)) n
    = Some (wb_stored W n, spec W sem (wb_inp0 W) n).
  Proof.
    intros Ho Hn L F C CE. rewrite (validate_guard W sem ftext tol WF NBW outs OL).
    rewrite (spec_guard W sem WF NBW _ n L) in *.
    apply (bad_reported W (guard W sem) ftext tol outs WF (guard_nonblank W sem NBW) SF TS
             (text_guard W sem ftext TV) (scalar_guard W sem WF NBW HS) TP OL o n); auto.
    now apply semiclean_guard.
  Qed.
End General.
