(* Proofs/C03Sort.v — C03, part 1: the stable insertion sort of Model/Persist.v
   (Python's sorted), ordered dictionaries, association lists. *)
From Coq Require Import List Arith Bool Lia Permutation Sorted ZArith.
From PV Require Import Lib.Py Model.Graph Model.Persist.
Import ListNotations.
Local Open Scope nat_scope.

(* ------------------------------------------------------------------ sort *)
Section SortLemmas.
  Context {A : Type} (key : A -> nat).
  Definition kle (a b : A) : Prop := key a <= key b.

  Lemma insert_perm a l : Permutation (a :: l) (insert key a l).
  Proof.
    induction l as [|b l IH]; cbn [insert]; auto.
    destruct (key a <=? key b); auto.
    eapply perm_trans; [apply perm_swap|]. now constructor.
  Qed.

  Lemma isort_perm l : Permutation l (isort key l).
  Proof.
    induction l as [|a l IH]; cbn [isort]; auto.
    eapply perm_trans; [|apply insert_perm]. now constructor.
  Qed.

  Lemma insert_sorted a l : StronglySorted kle l -> StronglySorted kle (insert key a l).
  Proof.
    induction l as [|b l IH]; intros S; cbn [insert].
    - repeat constructor.
    - inversion S as [|? ? S' F]; subst. destruct (key a <=? key b) eqn:E.
      + apply Nat.leb_le in E. constructor; auto. constructor; auto.
        eapply Forall_impl; [|exact F]. unfold kle. intros x Hx. lia.
      + apply Nat.leb_gt in E. constructor; auto.
        eapply Permutation_Forall; [apply insert_perm|]. constructor; auto. unfold kle. lia.
  Qed.

  Lemma isort_sorted l : StronglySorted kle (isort key l).
  Proof. induction l as [|a l IH]; cbn [isort]; [constructor|now apply insert_sorted]. Qed.

  (* sorting a sorted list changes nothing (stability is what makes this true
     without any condition on the keys) *)
  Lemma isort_id l : StronglySorted kle l -> isort key l = l.
  Proof.
    induction l as [|a l IH]; intros S; cbn [isort]; auto.
    inversion S as [|? ? S' F]; subst. rewrite IH by auto.
    destruct l as [|b l]; cbn [insert]; auto.
    inversion F as [|? ? Hb _]; subst. unfold kle in Hb.
    apply Nat.leb_le in Hb. now rewrite Hb.
  Qed.

  Lemma key_inj l a b : NoDup (map key l) -> In a l -> In b l -> key a = key b -> a = b.
  Proof.
    induction l as [|x l IH]; intros ND Ha Hb E; [destruct Ha|].
    cbn [map] in ND. inversion ND as [|? ? Nx ND']; subst.
    destruct Ha as [->|Ha], Hb as [->|Hb]; auto.
    - exfalso. apply Nx. rewrite E. now apply in_map.
    - exfalso. apply Nx. rewrite <- E. now apply in_map.
  Qed.

  Lemma sorted_unique : forall l1 l2, StronglySorted kle l1 -> StronglySorted kle l2 ->
    Permutation l1 l2 -> NoDup (map key l1) -> l1 = l2.
  Proof.
    induction l1 as [|a l1 IH]; intros l2 S1 S2 P ND.
    - apply Permutation_nil in P. now subst.
    - destruct l2 as [|b l2]; [apply Permutation_sym, Permutation_nil in P; discriminate|].
      inversion S1 as [|? ? S1' F1]; subst. inversion S2 as [|? ? S2' F2]; subst.
      assert (Hab: a = b).
      { assert (Ia: In a (b :: l2)) by (eapply Permutation_in; [exact P|now left]).
        assert (Ib: In b (a :: l1)) by (eapply Permutation_in; [apply Permutation_sym; exact P|now left]).
        apply (key_inj (a :: l1)); auto; [now left|].
        destruct Ia as [->|Ia]; auto. destruct Ib as [->|Ib]; auto.
        rewrite Forall_forall in F1, F2. specialize (F1 b Ib). specialize (F2 a Ia).
        unfold kle in *. lia. }
      subst b. f_equal. apply IH; auto.
      + eapply Permutation_cons_inv; eauto.
      + cbn [map] in ND. now inversion ND.
  Qed.

  (* with distinct keys the result of sorted() does not depend on the order
     in which the items are presented *)
  Lemma isort_deterministic l1 l2 : Permutation l1 l2 -> NoDup (map key l1) ->
    isort key l1 = isort key l2.
  Proof.
    intros P ND. apply sorted_unique; auto using isort_sorted.
    - eapply perm_trans; [apply Permutation_sym, isort_perm|].
      eapply perm_trans; [exact P|apply isort_perm].
    - eapply Permutation_NoDup; [|exact ND]. apply Permutation_map, isort_perm.
  Qed.
End SortLemmas.

(* ---------------------------------------------------------------- lookup *)
Lemma lookup_in l : NoDup (map fst l) -> forall n v, In (n, v) l -> lookup l n = Some v.
Proof.
  induction l as [|[m w] l IH]; intros ND n v H; [destruct H|].
  cbn [map fst] in ND. inversion ND as [|? ? Nm ND']; subst. cbn [lookup].
  destruct H as [H|H].
  - inversion H; subst. now rewrite Nat.eqb_refl.
  - destruct (Nat.eqb_spec m n) as [->|NE]; auto.
    exfalso. apply Nm. change n with (fst (n, v)). now apply in_map.
Qed.
Lemma lookup_notin l n : ~ In n (map fst l) -> lookup l n = None.
Proof.
  induction l as [|[m w] l IH]; intros H; auto. cbn [lookup].
  destruct (Nat.eqb_spec m n) as [->|NE]; [exfalso; apply H; now left|].
  apply IH. intros H'. apply H. now right.
Qed.
Lemma lookup_perm l l' n : NoDup (map fst l) -> Permutation l l' -> lookup l n = lookup l' n.
Proof.
  intros ND P.
  assert (ND': NoDup (map fst l')) by (eapply Permutation_NoDup; [apply Permutation_map; exact P|auto]).
  destruct (in_dec Nat.eq_dec n (map fst l)) as [H|H].
  - apply in_map_iff in H. destruct H as [[m v] [E H]]. cbn in E. subst m.
    rewrite (lookup_in l ND n v H). symmetry. apply lookup_in; auto. eapply Permutation_in; eauto.
  - rewrite (lookup_notin l n H). symmetry. apply lookup_notin. intros H'. apply H.
    eapply Permutation_in; [apply Permutation_sym, Permutation_map; exact P|auto].
Qed.

(* ------------------------------------------------------------------ dict *)
Lemma str_eqb_spec : forall a b, reflect (a = b) (str_eqb a b).
Proof.
  induction a as [|x a IH]; intros [|y b]; cbn; try (constructor; congruence).
  destruct (Z.eqb_spec x y) as [->|NE]; cbn.
  - destruct (IH b) as [->|NE]; constructor; congruence.
  - constructor. congruence.
Qed.

Section DictLemmas.
  Context {A : Type}.
  Implicit Types d : dict A.
  Lemma d_get_set d k v k' :
    d_get (d_set d k v) k' = if str_eqb k k' then Some v else d_get d k'.
  Proof.
    induction d as [|[k0 v0] d IH]; cbn [d_set d_get].
    - reflexivity.
    - destruct (str_eqb_spec k0 k) as [->|NE]; cbn [d_get].
      + destruct (str_eqb k k'); reflexivity.
      + rewrite IH. destruct (str_eqb_spec k0 k') as [->|NE'].
        * destruct (str_eqb_spec k k'); congruence.
        * reflexivity.
  Qed.
  Lemma d_get_del d k k' :
    d_get (d_del d k) k' = if str_eqb k k' then None else d_get d k'.
  Proof.
    induction d as [|[k0 v0] d IH]; cbn [d_del d_get].
    - destruct (str_eqb k k'); reflexivity.
    - destruct (str_eqb_spec k0 k) as [->|NE]; cbn [d_get].
      + rewrite IH. destruct (str_eqb k k'); reflexivity.
      + rewrite IH. destruct (str_eqb_spec k0 k') as [->|NE'].
        * destruct (str_eqb_spec k k'); congruence.
        * reflexivity.
  Qed.
End DictLemmas.
