(* Proofs/C09Repair.v — C09, part 4: overwriting the failing formula cell f0 with
   a constant.  The machine keeps the formula attached (as the code does):
   set_value only stores the constant in the cell's value.  As long as that
   value is not reset — no write to a precedent of f0 — the machine on W
   behaves EXACTLY as the machine on [as_input W f0 v], the workbook in which
   f0 is an input cell holding the constant; so every theorem about W' holds
   for the run on W. *)
From Coq Require Import List Arith Bool Lia.
From PV Require Import Lib.Py Model.Graph Model.Fail.
From PV Require Import Proofs.C01Base Proofs.C01Reset Proofs.C01Eval Proofs.C01Inv Proofs.C01.
From PV Require Import Proofs.C09Eval Proofs.C09Inv Proofs.C09.
Import ListNotations.

(* the workbook in which cell f0 is an input holding v *)
Definition as_input (W : workbook) (f0 : nat) (v : pyval) : workbook :=
  {| wb_n := wb_n W;
     wb_input := fun n => if Nat.eqb n f0 then true else wb_input W n;
     wb_deps := fun n => if Nat.eqb n f0 then [] else wb_deps W n;
     wb_range := fun n => if Nat.eqb n f0 then false else wb_range W n;
     wb_inp0 := fun n => if Nat.eqb n f0 then v else wb_inp0 W n;
     wb_stored := wb_stored W |}.

Lemma fold_left_ext_in {A B} (f g : A -> B -> A) : forall l a,
  (forall x a, In x l -> f a x = g a x) -> fold_left f l a = fold_left g l a.
Proof.
  induction l as [|x l IH]; intros a H; cbn; auto.
  rewrite (H x a (or_introl eq_refl)). apply IH. intros; apply H; right; auto.
Qed.

Lemma filter_ext_in' {A} (f g : A -> bool) : forall l,
  (forall x, In x l -> f x = g x) -> filter f l = filter g l.
Proof.
  induction l as [|x l IH]; intros H; cbn; auto.
  rewrite (H x (or_introl eq_refl)), IH; auto. intros; apply H; right; auto.
Qed.

Section Repair.
  Variable W : workbook.
  Variable fsem : nat -> list pyval -> option pyval.
  Variable fpre : nat -> option nat.
  Variable rorder : (nat -> bool) -> nat -> list nat.
  Variable sem : nat -> list pyval -> pyval.
  Variable f0 : nat.
  Variable v0 : pyval.

  Notation W' := (as_input W f0 v0).
  Notation N := (wb_n W).
  Notation deps := (wb_deps W).
  Notation isinput := (wb_input W).

  Hypothesis WF : wf W.
  Hypothesis NB : sem_nonblank W sem.
  Hypothesis CP : completes fsem fpre sem.
  Hypothesis NS : forall n, wb_stored W n = VNone.
  Hypothesis L0 : f0 < N.
  Hypothesis I0 : isinput f0 = false.
  Hypothesis NN : v0 <> VNone.

  (* ------------------------------------------------ W' is as good as W *)
  Lemma deps'_other n : n <> f0 -> wb_deps W' n = deps n.
  Proof. intros H. cbn. apply Nat.eqb_neq in H. now rewrite H. Qed.
  Lemma input'_other n : n <> f0 -> wb_input W' n = isinput n.
  Proof. intros H. cbn. apply Nat.eqb_neq in H. now rewrite H. Qed.
  Lemma range'_other n : n <> f0 -> wb_range W' n = wb_range W n.
  Proof. intros H. cbn. apply Nat.eqb_neq in H. now rewrite H. Qed.
  Lemma input'_f0 : wb_input W' f0 = true.
  Proof. cbn. now rewrite Nat.eqb_refl. Qed.
  Lemma deps'_f0 : wb_deps W' f0 = [].
  Proof. cbn. now rewrite Nat.eqb_refl. Qed.
  Lemma input'_false n : wb_input W' n = false -> n <> f0 /\ isinput n = false.
  Proof. cbn. destruct (Nat.eqb_spec n f0); [discriminate|auto]. Qed.
  Lemma deps'_incl n d : In d (wb_deps W' n) -> In d (deps n) /\ n <> f0.
  Proof. cbn. destruct (Nat.eqb_spec n f0); [intros []|auto]. Qed.

  Lemma wf' : wf W'.
  Proof.
    intros n L. change (wb_n W') with N in L. destruct (WF n L) as (A & B & C).
    destruct (Nat.eq_dec n f0) as [->|NE].
    - rewrite deps'_f0. repeat split; auto. intros d []. cbn. now rewrite Nat.eqb_refl.
    - rewrite deps'_other, input'_other, range'_other by auto. auto.
  Qed.
  Lemma nb' : sem_nonblank W' sem.
  Proof. intros n vals L I. apply input'_false in I. destruct I. apply NB; auto. Qed.
  Lemma anc'_anc a n : anc W' a n -> anc W a n.
  Proof.
    intros A. induction A as [a n H|a b n A IH H].
    - apply deps'_incl in H. now constructor.
    - apply deps'_incl in H. eapply anc_trans; eauto. apply H.
  Qed.
  Lemma anc_irrefl n : n < N -> ~ anc W n n.
  Proof. intros L A. pose proof (anc_lt W WF _ _ L A). lia. Qed.

  (* ----------------------------------------- fspec in W' and in W *)
  Notation fspecW := (fspec W fsem fpre).
  Notation fspecW' := (fspec W' fsem fpre).

  Lemma reads'_other n : n <> f0 -> reads W' fpre n = reads W fpre n.
  Proof. intros H. unfold reads. now rewrite deps'_other. Qed.
  Lemma wrap'_other n e : n <> f0 -> wrap W' n e = wrap W n e.
  Proof. intros H. unfold wrap. now rewrite range'_other. Qed.

  (* a cell that does not depend on f0 *)
  Lemma fspec'_indep c : forall n, n < N -> n <> f0 -> ~ anc W f0 n -> fspecW' c n = fspecW c n.
  Proof.
    induction n as [n IH] using lt_wf_ind. intros L NE NA.
    rewrite (fspec_unfold W' fsem fpre wf' c n L), (fspec_unfold W fsem fpre WF c n L).
    rewrite input'_other, reads'_other by auto. destruct (isinput n); auto.
    rewrite (seq_res_map_ext (fspecW' c) (fspecW c)).
    - destruct (seq_res (map (fspecW c) (reads W fpre n))); auto. now rewrite wrap'_other.
    - intros d Hd. apply (reads_deps W fpre) in Hd. pose proof (deps_lt W WF _ _ L Hd).
      apply IH; try lia.
      + intros ->. apply NA. now constructor.
      + intros A. apply NA. eapply anc_trans; eauto.
  Qed.

  (* every cell, when f0 holds the value its formula computes *)
  Lemma fspec'_same c : fspecW c f0 = FVal (c f0) -> forall n, n < N -> fspecW' c n = fspecW c n.
  Proof.
    intros H0. induction n as [n IH] using lt_wf_ind. intros L.
    destruct (Nat.eq_dec n f0) as [->|NE].
    - rewrite (fspec_unfold W' fsem fpre wf' c f0 L), input'_f0. now rewrite H0.
    - rewrite (fspec_unfold W' fsem fpre wf' c n L), (fspec_unfold W fsem fpre WF c n L).
      rewrite input'_other, reads'_other by auto. destruct (isinput n); auto.
      rewrite (seq_res_map_ext (fspecW' c) (fspecW c)).
      + destruct (seq_res (map (fspecW c) (reads W fpre n))); auto. now rewrite wrap'_other.
      + intros d Hd. apply (reads_deps W fpre) in Hd. pose proof (deps_lt W WF _ _ L Hd).
        apply IH; lia.
  Qed.

  (* ----------------------------- a state of W is a state of W' *)
  Notation FInvW := (FInv W fsem fpre sem).
  Notation FInvW' := (FInv W' fsem fpre sem).

  Lemma inv_desc_empty s p : Inv W sem s -> st_built s p = true -> isinput p = false ->
    st_cache s p = VNone -> forall m, anc W p m -> st_built s m = true -> st_cache s m = VNone.
  Proof.
    intros I Bp Ip Hp m A. induction A as [a n H|a b n A IH H]; intros Bm.
    - eapply (Inv_I2 W sem s I a n); eauto.
    - pose proof (inv_deps W sem s I n b Bm H) as Bb.
      pose proof (inv_lt W sem s I b Bb) as Lb.
      eapply (Inv_I2 W sem s I b n); eauto. eapply anc_noninput; eauto.
  Qed.

  Lemma vc'_other s n : n <> f0 -> vc W' s n = vc W s n.
  Proof. intros H. unfold vc. now rewrite input'_other, range'_other. Qed.

  Lemma finv_as_input s : FInvW s -> st_built s f0 = true -> FInvW' s.
  Proof.
    intros [I SD] B0.
    assert (SD': FSound W' fsem fpre (st_cache s)).
    { intros m Lm Im Hm. apply input'_false in Im. destruct Im as [NE Im].
      change (wb_n W') with N in Lm.
      destruct (is_none (st_cache s f0)) eqn:E0.
      - apply is_none_true in E0. rewrite fspec'_indep; auto.
        intros A. apply Hm. apply (inv_desc_empty s f0 I B0 I0 E0 m A).
        destruct (st_built s m) eqn:Bm; auto.
        rewrite (inv_unbuilt W sem s I m Bm), Im in Hm. congruence.
      - apply is_none_false in E0. rewrite fspec'_same; auto. }
    split; auto. split.
    - apply (inv_lt W sem s I).
    - intros n d Bn Hd. apply deps'_incl in Hd. eapply (inv_deps W sem s I); eauto. apply Hd.
    - intros n Bn. assert (NE: n <> f0) by (intros ->; congruence).
      rewrite input'_other by auto. cbn [wb_inp0 as_input].
      apply Nat.eqb_neq in NE. rewrite NE. now apply (inv_unbuilt W sem s I).
    - intros n Ln In Hn. pose proof (input'_false n In) as [NE In'].
      rewrite vc'_other in * by auto. change (wb_n W') with N in Ln.
      destruct (st_built s n) eqn:Bn.
      + rewrite (vc_built W s n Bn) in *.
        apply (FSound_coherent W' fsem fpre sem wf' CP _ SD' n Ln In Hn).
      + rewrite vc_unbuilt, NS in Hn by auto. destruct (wb_range W n); congruence.
    - intros p d Ld Hd Bp Ip Hp. apply deps'_incl in Hd. destruct Hd as [Hd NE].
      apply input'_false in Ip. destruct Ip as [_ Ip]. rewrite vc'_other by auto.
      apply (inv_clo W sem s I p d); auto.
  Qed.

  (* ------------------------------------ the two machines coincide *)
  Definition kept (s : state) : Prop := st_built s f0 = true /\ st_cache s f0 = v0.
  Lemma kept_some s : kept s -> st_cache s f0 <> VNone.
  Proof. intros [_ H]. now rewrite H. Qed.

  (* eval_f changes an entry only from empty *)
  Lemma eval_f_keeps (X : workbook) m : forall f (c : cache) n, c m <> VNone ->
    fst (eval_f X fsem fpre f c n) m = c m.
  Proof.
    induction f as [|f IH]; intros c n H; [reflexivity|]. cbn [eval_f].
    destruct (wb_input X n); auto. destruct (is_none (c n)) eqn:E; auto.
    apply is_none_true in E.
    assert (F: forall l (acc : cache * (list pyval + errclass)), fst acc m = c m ->
               fst (fold_left (fstep (eval_f X fsem fpre f)) l acc) m = c m).
    { induction l as [|d l IHl]; intros [c1 r] H1; cbn [fold_left]; auto.
      apply IHl. cbn [fst] in H1. unfold fstep. destruct r as [vs|e]; auto.
      pose proof (IH c1 d ltac:(congruence)) as K.
      destruct (eval_f X fsem fpre f c1 d) as [c2 r2]. cbn [fst] in *. congruence. }
    pose proof (F (reads X fpre n) (c, inl []) eq_refl) as K.
    destruct (fold_left (fstep (eval_f X fsem fpre f)) (reads X fpre n) (c, inl [])) as [c' r].
    cbn [fst] in K. destruct r as [vals|e]; [|exact K].
    destruct (compute fsem fpre n vals); [|exact K]. cbn [fst].
    rewrite upd_other; [exact K|]. intros ->. congruence.
  Qed.

  Lemma eval_f_sim : forall f (c : cache) n, c f0 <> VNone ->
    eval_f W fsem fpre f c n = eval_f W' fsem fpre f c n.
  Proof.
    induction f as [|f IH]; intros c n H; [reflexivity|]. cbn [eval_f].
    destruct (Nat.eq_dec n f0) as [->|NE].
    - rewrite input'_f0, I0. apply is_none_false in H. now rewrite H.
    - rewrite input'_other, reads'_other by auto.
      destruct (isinput n); auto. destruct (is_none (c n)); auto.
      assert (F: forall l (acc : cache * (list pyval + errclass)), fst acc f0 <> VNone ->
                 fold_left (fstep (eval_f W fsem fpre f)) l acc
                 = fold_left (fstep (eval_f W' fsem fpre f)) l acc).
      { induction l as [|d l IHl]; intros [c1 r] H1; cbn [fold_left]; auto.
        cbn [fst] in H1. unfold fstep at 2 4. destruct r as [vs|e]; [|apply IHl; auto].
        rewrite <- (IH c1 d H1). apply IHl.
        pose proof (eval_f_keeps W f0 f c1 d H1) as K.
        destruct (eval_f W fsem fpre f c1 d) as [c2 r2]. cbn [fst] in *. congruence. }
      rewrite (F (reads W fpre n) (c, inl []) H).
      destruct (fold_left (fstep (eval_f W' fsem fpre f)) (reads W fpre n) (c, inl [])) as [c' r].
      destruct r; auto. now rewrite wrap'_other.
  Qed.

  Lemma closure_mono (X : workbook) m : forall f b n, b m = true -> closure X f b n m = true.
  Proof.
    induction f as [|f IH]; intros b n H; cbn [closure]; auto.
    destruct (b n); auto.
    assert (F: forall l b1, b1 m = true ->
               fold_left (fun b d => closure X f b d) l b1 m = true).
    { induction l as [|d l IHl]; intros b1 H1; cbn [fold_left]; auto. }
    apply F. destruct (Nat.eqb m n); auto.
  Qed.

  Lemma closure_sim : forall f b n, b f0 = true -> closure W f b n = closure W' f b n.
  Proof.
    induction f as [|f IH]; intros b n H; cbn [closure]; auto.
    destruct (b n) eqn:Bn; auto.
    assert (NE: n <> f0) by (intros ->; congruence).
    rewrite deps'_other by auto.
    assert (F: forall l b1, b1 f0 = true ->
               fold_left (fun b d => closure W f b d) l b1
               = fold_left (fun b d => closure W' f b d) l b1).
    { induction l as [|d l IHl]; intros b1 H1; cbn [fold_left]; auto.
      rewrite <- (IH b1 d H1). apply IHl. now apply closure_mono. }
    apply F. destruct (Nat.eqb f0 n); auto.
  Qed.

  Lemma new_cells_sim s b' : st_built s f0 = true -> new_cells W s b' = new_cells W' s b'.
  Proof.
    intros B0. unfold new_cells. change (wb_n W') with N.
    apply fold_left_ext_in. intros m c _.
    destruct (Nat.eq_dec m f0) as [->|NE].
    - rewrite B0. cbn [negb]. now rewrite !andb_false_r.
    - now rewrite input'_other, range'_other by auto.
  Qed.

  Lemma bfold_sim b0 b' : b0 f0 = true -> forall l (acc : cache * option errclass), fst acc f0 <> VNone ->
    fold_left (bstep_f W fsem fpre b0 b') l acc = fold_left (bstep_f W' fsem fpre b0 b') l acc
    /\ fst (fold_left (bstep_f W fsem fpre b0 b') l acc) f0 = fst acc f0.
  Proof.
    intros B0. induction l as [|m l IHl]; intros [c r] H; cbn [fold_left]; auto.
    cbn [fst] in H.
    assert (St: bstep_f W fsem fpre b0 b' (c, r) m = bstep_f W' fsem fpre b0 b' (c, r) m
                /\ fst (bstep_f W fsem fpre b0 b' (c, r) m) f0 = c f0).
    { unfold bstep_f. destruct r as [e|]; auto. change (wb_n W') with N.
      destruct (Nat.eq_dec m f0) as [->|NE].
      - rewrite B0. cbn [negb]. rewrite !andb_false_r. cbn [andb]. auto.
      - rewrite range'_other by auto. destruct (b' m && negb (b0 m) && wb_range W m); auto.
        rewrite <- (eval_f_sim (S N) c m H).
        pose proof (eval_f_keeps W f0 (S N) c m H) as K.
        destruct (eval_f W fsem fpre (S N) c m) as [c2 r2]. auto. }
    destruct St as [St1 St2]. rewrite <- St1.
    destruct (IHl (bstep_f W fsem fpre b0 b' (c, r) m) ltac:(congruence)) as [A B].
    split; auto. cbn [fst]. congruence.
  Qed.

  Lemma build_f_sim s n : kept s ->
    build_f W fsem fpre rorder s n = build_f W' fsem fpre rorder s n
    /\ kept (fst (build_f W fsem fpre rorder s n)).
  Proof.
    intros [B0 H0]. unfold build_f. change (wb_n W') with N.
    rewrite <- (closure_sim (S N) (st_built s) n B0), <- (new_cells_sim s _ B0).
    set (b' := closure W (S N) (st_built s) n).
    assert (H1: new_cells W s b' f0 = v0).
    { unfold new_cells.
      assert (F: forall l (c : cache), c f0 = st_cache s f0 ->
        fold_left (fun (c : cache) m =>
                 if b' m && negb (st_built s m) && negb (isinput m)
                 then upd c m (if wb_range W m then VNone else wb_stored W m) else c) l c f0
        = st_cache s f0).
      { induction l as [|k l IHl]; intros c H; cbn [fold_left]; auto. apply IHl.
        destruct (b' k && negb (st_built s k) && negb (isinput k)) eqn:G; auto.
        rewrite upd_other; auto. intros <-. rewrite B0 in G. cbn [negb] in G.
        now rewrite andb_false_r in G. }
      rewrite F; auto. }
    assert (H2: fst (new_cells W s b', @None errclass) f0 <> VNone) by (cbn [fst]; now rewrite H1).
    destruct (bfold_sim (st_built s) b' B0 (rorder (st_built s) n ++ seq 0 N) _ H2) as [A B].
    rewrite <- A.
    destruct (fold_left (bstep_f W fsem fpre (st_built s) b') (rorder (st_built s) n ++ seq 0 N)
                        (new_cells W s b', None)) as [c2 r].
    split; auto. split; cbn [fst st_built st_cache] in *.
    - now apply closure_mono.
    - rewrite B. exact H1.
  Qed.

  Lemma evaluate_f_sim s n : kept s ->
    evaluate_f W fsem fpre rorder s n = evaluate_f W' fsem fpre rorder s n
    /\ kept (fst (evaluate_f W fsem fpre rorder s n)).
  Proof.
    intros K. unfold evaluate_f. destruct (build_f_sim s n K) as [A K1]. rewrite <- A.
    destruct (build_f W fsem fpre rorder s n) as [s1 [e|]]; cbn [fst] in *.
    - split; auto.
    - pose proof (kept_some s1 K1) as H1. destruct K1 as [B1 E1].
      change (wb_n W') with N. rewrite <- (eval_f_sim (S N) (st_cache s1) n H1).
      pose proof (eval_f_keeps W f0 (S N) (st_cache s1) n H1) as Kp.
      destruct (eval_f W fsem fpre (S N) (st_cache s1) n) as [c r]. split; auto.
      split; cbn [fst st_built st_cache] in *; auto. congruence.
  Qed.

  (* _reset from a cell that is not a precedent of f0 never looks at f0's formula *)
  Lemma succs_sim b n : ~ anc W n f0 -> succs W b n = succs W' b n.
  Proof.
    intros NA. unfold succs. change (wb_n W') with N. apply filter_ext_in'. intros d _.
    destruct (Nat.eq_dec d f0) as [->|NE]; [|now rewrite deps'_other].
    rewrite deps'_f0. cbn [existsb]. rewrite andb_false_r.
    destruct (existsb (Nat.eqb n) (deps f0)) eqn:E; [|now rewrite andb_false_r].
    exfalso. apply NA. apply existsb_exists in E. destruct E as (x & Hx & Ex).
    apply Nat.eqb_eq in Ex. subst. now constructor.
  Qed.

  Lemma reset_sim b : forall f n c, ~ anc W n f0 -> reset W f b n c = reset W' f b n c.
  Proof.
    induction f as [|f IH]; intros n c NA; [reflexivity|]. cbn [reset].
    destruct (is_none (c n)); auto. rewrite <- (succs_sim b n NA).
    apply fold_left_ext_in. intros ch c1 Hch. destruct (is_none (c1 ch)); auto.
    apply IH. apply succs_spec in Hch. destruct Hch as (_ & _ & Hd).
    intros A. apply NA. eapply anc_step; eauto.
  Qed.

  Lemma set_value_sim s a v : ~ anc W a f0 -> set_value W s a v = set_value W' s a v.
  Proof.
    intros NA. unfold set_value, reset_forced. change (wb_n W') with N.
    rewrite <- (succs_sim (st_built s) a NA).
    replace (fold_left (fun c ch => if is_none (c ch) then c else reset W' N (st_built s) ch c)
                       (succs W (st_built s) a) (upd (upd (st_cache s) a v) a VNone))
      with (fold_left (fun c ch => if is_none (c ch) then c else reset W N (st_built s) ch c)
                      (succs W (st_built s) a) (upd (upd (st_cache s) a v) a VNone)); auto.
    apply fold_left_ext_in. intros ch c1 Hch. destruct (is_none (c1 ch)); auto.
    apply reset_sim. apply succs_spec in Hch. destruct Hch as (_ & _ & Hd).
    intros A. apply NA. eapply anc_step; eauto.
  Qed.

  (* --------------------------------- histories after the repair *)
  (* the follow-up operations: evaluate / build anything; write input cells that
     are not precedents of the repaired cell *)
  Definition rok_op (s : state) (o : gop) : Prop :=
    match o with
    | Evaluate n => n < N
    | Build n => n < N
    | SetValue a v => st_built s a = true /\ isinput a = true /\ ~ anc W a f0
    end.
  Fixpoint rok_history (s : state) (h : list gop) : Prop :=
    match h with
    | [] => True
    | o :: h' => rok_op s o /\ rok_history (fst (step_f W fsem fpre rorder s o)) h'
    end.

  Lemma rok_fok s o : rok_op s o -> fok_op W' s o.
  Proof.
    destruct o as [n|a v|n]; cbn; auto. intros (A & B & C). split; auto.
    destruct (Nat.eqb a f0); auto.
  Qed.

  Lemma step_f_sim s o : FInvW' s -> kept s -> rok_op s o ->
    step_f W fsem fpre rorder s o = step_f W' fsem fpre rorder s o
    /\ kept (fst (step_f W fsem fpre rorder s o)).
  Proof.
    intros I K OK. destruct o as [n|a v|n]; cbn [step_f].
    - now apply evaluate_f_sim.
    - destruct OK as (Ba & Ia & NA). rewrite <- (set_value_sim s a v NA). split; auto.
      cbn [fst]. destruct K as [B0 H0]. rewrite set_value_unfold, Ba. cbn [negb].
      destruct (py_eq (st_cache s a) v && same_type (st_cache s a) v); [split; auto|].
      split; cbn [st_built st_cache]; auto.
      assert (NE: f0 <> a) by (intros <-; congruence).
      rewrite upd_other by auto.
      destruct (forced_desc W (st_built s) a (upd (st_cache s) a v) f0) as [E|[E|(A&_&_)]].
      + rewrite E, upd_other; auto.
      + congruence.
      + contradiction.
    - destruct (build_f_sim s n K) as [A B]. rewrite <- A.
      destruct (build_f W fsem fpre rorder s n) as [s1 r]. auto.
  Qed.

  Lemma run_f_sim : forall h s, FInvW' s -> kept s -> rok_history s h ->
    run_f W fsem fpre rorder s h = run_f W' fsem fpre rorder s h
    /\ kept (fst (run_f W fsem fpre rorder s h))
    /\ FInvW' (fst (run_f W fsem fpre rorder s h)).
  Proof.
    induction h as [|o h IH]; intros s I K OK; [cbn; auto|].
    destruct OK as [Oo Oh]. destruct (step_f_sim s o I K Oo) as [A B].
    assert (I1: FInvW' (fst (step_f W fsem fpre rorder s o))).
    { rewrite A. apply (step_f_inv W' fsem fpre rorder sem wf' nb' CP NS); auto. now apply rok_fok. }
    destruct (IH _ I1 B Oh) as (C & D & E).
    rewrite !run_f_cons, <- A, <- C. auto.
  Qed.

  (* ---------------------------------------------------- the repair *)
  Lemma repair_state s : FInvW s -> st_built s f0 = true -> st_cache s f0 = VNone ->
    let s1 := set_value W s f0 v0 in
    FInvW' s1 /\ kept s1.
  Proof.
    intros I B0 E0. cbn zeta.
    pose proof (finv_as_input s I B0) as I'.
    rewrite (set_value_sim s f0 v0 (anc_irrefl f0 L0)).
    rewrite set_value_unfold, B0, E0. cbn [negb].
    assert (G: py_eq VNone v0 && same_type VNone v0 = false).
    { destruct v0; try congruence; apply andb_false_r. }
    rewrite G.
    destruct (write_finv W' fsem fpre sem wf' NS s f0 v0 I' B0 input'_f0) as (A & Wa & _).
    cbn zeta in *. split; auto. split; auto.
  Qed.

  (* C09_repair (restricted): the failing cell f0 is overwritten with the constant
     v0; then ANY history of evaluations (failing or not), builds, and writes to
     input cells that are not precedents of f0; then evaluating any cell d
     returns / raises exactly as a from-scratch evaluation in the workbook where
     f0 is an input holding v0, under the current inputs *)
  Theorem repair : forall s h d, FInvW s -> st_built s f0 = true ->
    is_raise (fspec W fsem fpre (st_cache s) f0) = true ->
    let s1 := set_value W s f0 v0 in
    rok_history s1 h -> d < N ->
    let s2 := fst (run_f W fsem fpre rorder s1 h) in
    st_cache s2 f0 = v0 /\
    fval (snd (evaluate_f W fsem fpre rorder s2 d)) = fval (fspecW' (st_cache s2) d).
  Proof.
    intros s h d I B0 R0 s1 OK Ld s2.
    pose proof (FInv_fail_empty W fsem fpre sem s f0 I L0 I0 R0) as E0.
    destruct (repair_state s I B0 E0) as [I1 K1]. fold s1 in I1, K1.
    destruct (run_f_sim h s1 I1 K1 OK) as (_ & K2 & I2). fold s2 in K2, I2.
    split; [apply K2|].
    destruct (evaluate_f_sim s2 d K2) as [A _]. rewrite A.
    now apply (evaluate_f_inv W' fsem fpre rorder sem wf' nb' CP NS s2 d I2 Ld).
  Qed.

  (* … in particular a dependant with no failing cell left below it returns its
     from-scratch value in the repaired workbook *)
  Theorem repair_value : forall s h d, FInvW s -> st_built s f0 = true ->
    is_raise (fspec W fsem fpre (st_cache s) f0) = true ->
    let s1 := set_value W s f0 v0 in
    rok_history s1 h -> d < N ->
    let s2 := fst (run_f W fsem fpre rorder s1 h) in
    (forall k, k = d \/ anc W' k d -> ~ fails_at W' fsem fpre sem (st_cache s2) k) ->
    snd (evaluate_f W fsem fpre rorder s2 d) = FVal (spec W' sem (st_cache s2) d).
  Proof.
    intros s h d I B0 R0 s1 OK Ld s2 NF.
    destruct (repair s h d I B0 R0 OK Ld) as [_ V]. fold s1 s2 in V.
    rewrite (no_failing_ancestor W' fsem fpre sem wf' CP (st_cache s2) d Ld NF) in V.
    destruct (snd (evaluate_f W fsem fpre rorder s2 d)); cbn [fval] in V; congruence.
  Qed.
End Repair.
