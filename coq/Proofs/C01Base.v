(* Proofs/C01Base.v — C01, part 1: well-formed workbooks, the from-scratch
   value [spec] (fuel independence, unfolding, independence of inputs that are
   not ancestors), ancestors, successors. *)
From Coq Require Import List Arith Bool Lia.
From PV Require Import Lib.Py Model.Graph.
Import ListNotations.

Lemma is_none_true v : is_none v = true <-> v = VNone.
Proof. destruct v; cbn; split; intros H; try discriminate; auto. Qed.
Lemma is_none_false v : is_none v = false <-> v <> VNone.
Proof. destruct v; cbn; split; intros H; try discriminate; try congruence; auto. Qed.

Lemma upd_same c n v : upd c n v n = v.
Proof. unfold upd. now rewrite Nat.eqb_refl. Qed.
Lemma upd_other c n v m : m <> n -> upd c n v m = c m.
Proof. unfold upd. intros H. destruct (Nat.eqb_spec m n); congruence. Qed.

Section Base.
  Variable W : workbook.
  Variable sem : nat -> list pyval -> pyval.

  Notation N := (wb_n W).
  Notation deps := (wb_deps W).
  Notation isinput := (wb_input W).

  (* well-formed: topological presentation; inputs have no precedents; range
     nodes are not inputs *)
  Definition wf : Prop := forall n, n < N ->
    (forall d, In d (deps n) -> d < n)
    /\ (isinput n = true -> deps n = [])
    /\ (wb_range W n = true -> isinput n = false).

  Definition wfb : bool :=
    forallb (fun n => forallb (fun d => d <? n) (deps n)
                      && (if isinput n then match deps n with [] => true | _ => false end else true)
                      && (if wb_range W n then negb (isinput n) else true))
            (seq 0 N).

  Lemma wfb_sound : wfb = true -> wf.
  Proof.
    unfold wfb, wf. rewrite forallb_forall. intros H n L.
    specialize (H n). rewrite in_seq in H. specialize (H ltac:(lia)).
    apply andb_prop in H. destruct H as [H H3]. apply andb_prop in H. destruct H as [H1 H2].
    rewrite forallb_forall in H1. repeat split.
    - intros d Hd. apply H1 in Hd. now apply Nat.ltb_lt.
    - intros I. rewrite I in H2. destruct (deps n); auto; discriminate.
    - intros R. rewrite R in H3. now apply negb_true_iff.
  Qed.

  (* every formula / range node computes a non-blank value (side condition (d)) *)
  Definition sem_nonblank : Prop :=
    forall n vals, n < N -> isinput n = false -> sem n vals <> VNone.

  Hypothesis WF : wf.

  Lemma deps_lt n d : n < N -> In d (deps n) -> d < n.
  Proof. intros L. now apply WF. Qed.
  Lemma deps_ltN n d : n < N -> In d (deps n) -> d < N.
  Proof. intros L H. pose proof (deps_lt n d L H). lia. Qed.
  Lemma input_nodeps n : n < N -> isinput n = true -> deps n = [].
  Proof. intros L. now apply WF. Qed.
  Lemma dep_noninput n d : n < N -> In d (deps n) -> isinput n = false.
  Proof.
    intros L H. destruct (isinput n) eqn:I; auto.
    rewrite (input_nodeps n L I) in H. destruct H.
  Qed.
  Lemma range_noninput n : n < N -> wb_range W n = true -> isinput n = false.
  Proof. intros L. now apply WF. Qed.

  (* ------------------------------------------------------------- spec *)
  Notation spec := (spec W sem).
  Notation spec_fuel := (spec_fuel W sem).

  Lemma spec_fuel_eq inp : forall n f1 f2, n < N -> n < f1 -> n < f2 ->
    spec_fuel f1 inp n = spec_fuel f2 inp n.
  Proof.
    induction n as [n IH] using lt_wf_ind. intros [|f1] [|f2] LN L1 L2; try lia.
    cbn [Graph.spec_fuel]. destruct (isinput n); auto. f_equal.
    apply map_ext_in. intros d Hd. pose proof (deps_lt _ _ LN Hd). apply IH; lia.
  Qed.
  Lemma spec_fuel_enough f inp n : n < N -> n < f -> spec_fuel f inp n = spec inp n.
  Proof. intros. unfold Graph.spec. apply spec_fuel_eq; lia. Qed.
  Lemma spec_unfold inp n : n < N ->
    spec inp n = if isinput n then inp n else sem n (map (spec inp) (deps n)).
  Proof.
    intros L. unfold Graph.spec at 1. cbn [Graph.spec_fuel]. destruct (isinput n); auto.
    f_equal. apply map_ext_in. intros d Hd. pose proof (deps_lt _ _ L Hd).
    apply spec_fuel_enough; lia.
  Qed.
  Lemma spec_input inp n : n < N -> isinput n = true -> spec inp n = inp n.
  Proof. intros L I. rewrite spec_unfold, I; auto. Qed.
  Lemma spec_nonblank inp n : sem_nonblank -> n < N -> isinput n = false -> spec inp n <> VNone.
  Proof. intros NB L I. rewrite spec_unfold, I; auto. Qed.

  (* ancestors: [anc a n] = a is a strict ancestor (transitive precedent) of n *)
  Inductive anc : nat -> nat -> Prop :=
  | anc_dep a n : In a (deps n) -> anc a n
  | anc_trans a b n : anc a b -> In b (deps n) -> anc a n.

  Lemma anc_lt a n : n < N -> anc a n -> a < n.
  Proof.
    intros L A. induction A as [a n H|a b n A IH H].
    - now apply deps_lt.
    - pose proof (deps_lt _ _ L H). specialize (IH ltac:(lia)). lia.
  Qed.
  Lemma anc_noninput a n : n < N -> anc a n -> isinput n = false.
  Proof. intros L A. destruct A; eapply dep_noninput; eauto. Qed.
  Lemma anc_anc a b c : anc a b -> anc b c -> anc a c.
  Proof.
    intros A B. induction B as [b c H|b b' c B IH H].
    - eapply anc_trans; eauto.
    - eapply anc_trans; [apply IH; auto|auto].
  Qed.
  Lemma anc_step a b c : In a (deps b) -> anc b c -> anc a c.
  Proof. intros H. apply anc_anc. now constructor. Qed.

  (* spec reads the inputs only at the node itself and at its ancestors *)
  Lemma spec_agree inp inp' : forall n, n < N ->
    (forall m, isinput m = true -> m = n \/ anc m n -> inp m = inp' m) ->
    spec inp n = spec inp' n.
  Proof.
    induction n as [n IH] using lt_wf_ind. intros L E.
    rewrite !spec_unfold by auto. destruct (isinput n) eqn:I.
    - apply E; auto.
    - f_equal. apply map_ext_in. intros d Hd. pose proof (deps_lt _ _ L Hd).
      apply IH; [auto|lia|]. intros m Im [->|A]; apply E; auto.
      + right. now constructor.
      + right. eapply anc_trans; eauto.
  Qed.
  Lemma spec_ext inp inp' n : n < N ->
    (forall m, m < N -> isinput m = true -> inp m = inp' m) -> spec inp n = spec inp' n.
  Proof.
    intros L E. apply spec_agree; auto. intros m Im [->|A]; apply E; auto.
    pose proof (anc_lt _ _ L A). lia.
  Qed.
  Lemma spec_indep inp inp' x n : n < N ->
    (forall m, m < N -> isinput m = true -> m <> x -> inp m = inp' m) ->
    n <> x -> ~ anc x n -> spec inp n = spec inp' n.
  Proof.
    intros L E NX NA. apply spec_agree; auto. intros m Im [->|A]; apply E; auto.
    - pose proof (anc_lt _ _ L A). lia.
    - intros ->. auto.
  Qed.

  (* ------------------------------------------------------------- succs *)
  Lemma succs_spec b n d : In d (succs W b n) <-> d < N /\ b d = true /\ In n (deps d).
  Proof.
    unfold succs. rewrite filter_In, in_seq, andb_true_iff, existsb_exists. split.
    - intros [A [B [x [C D]]]]. apply Nat.eqb_eq in D. subst. repeat split; auto; lia.
    - intros [A [B C]]. split; [lia|]. split; auto. exists n. split; auto. apply Nat.eqb_refl.
  Qed.
End Base.
