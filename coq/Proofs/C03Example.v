(* Proofs/C03Example.v — C03: the hypotheses of the theorems are satisfiable
   (a concrete four-node model), and the non-injective sort key example.
     node 0 = A1 (input 2)   node 1 = A2 (input v)   node 2 = A1:A2 (range)
     node 3 = A3 (formula with code "S" reading the range) *)
From Coq Require Import List Arith Bool Lia ZArith Permutation.
From PV Require Import Lib.Py Model.Graph Model.Persist.
From PV Require Import Proofs.C01Base Proofs.C01Reset Proofs.C01Eval Proofs.C01Inv Proofs.C01.
From PV Require Import Proofs.C03Sort Proofs.C03Graph Proofs.C03.
Import ListNotations.
Local Open Scope nat_scope.

Definition G0 : geometry :=
  {| g_n := 4; g_range := fun n => n =? 2;
     g_members := fun n => if n =? 2 then [0; 1] else []; g_key := fun n => n |}.
Definition codeS : str := [83%Z].
Definition cdeps0 (t : str) : list nat := if str_eqb t codeS then [2] else [].
Definition csem0 (t : str) (vals : list pyval) : pyval := VTuple (VStr t :: vals).
Definition rsem0 (n : nat) (vals : list pyval) : pyval := VTuple vals.

Definition W0 (v : pyval) : workbook :=
  {| wb_n := 4;
     wb_input := fun n => n <? 2;
     wb_deps := fun n => match n with 2 => [0; 1] | 3 => [2] | _ => [] end;
     wb_range := fun n => n =? 2;
     wb_inp0 := fun n => match n with 0 => VInt 2 | 1 => v | _ => VNone end;
     wb_stored := fun _ => VNone |}.
Definition code0 (n : nat) : str := if n =? 3 then codeS else [].
Definition sem0 := sem_of csem0 rsem0 (fun n => n =? 2) code0.

(* the model after evaluating A3 (which builds everything), keys in build order *)
Definition mk (v : pyval) (extra : option file) : pmodel :=
  {| pm_wb := W0 v; pm_code := code0;
     pm_state := build_list (W0 v) sem0 (init (W0 v)) [3];
     pm_order := [3; 2; 0; 1];
     pm_cycles := VBool false; pm_filename := VStr [119%Z]; pm_hash := VNone;
     pm_extra := extra |}.

Lemma wf0 v : wf (W0 v).
Proof. apply wfb_sound. reflexivity. Qed.
Lemma cnb0 : code_nonblank csem0 rsem0.
Proof. split; intros; discriminate. Qed.
Lemma nb0 v : sem_nonblank (W0 v) sem0.
Proof. apply sem_of_nonblank, cnb0. Qed.
Lemma so0 v : stored_ok (W0 v) sem0.
Proof. apply stored_ok_nodata. reflexivity. Qed.

Lemma built0 v n : st_built (pm_state (mk v None)) n = (n <? 4).
Proof. do 4 (destruct n as [|n]; [reflexivity|]). reflexivity. Qed.

Lemma mk_ok v extra : scalar_exact v = true ->
  pm_ok G0 cdeps0 (mk v extra) /\ wf (W0 v) /\ code_nonblank csem0 rsem0
  /\ Inv (W0 v) sem0 (pm_state (mk v extra))
  /\ stored_ok (W0 v) sem0 /\ allcells (W0 v) (pm_state (mk v extra))
  /\ inputs_exact (W0 v) (st_cache (pm_state (mk v extra))).
Proof.
  intros Ev.
  destruct (build_list_inv (W0 v) sem0 (wf0 v) (nb0 v) (so0 v) [3] (init (W0 v))
              (Inv_init _ _ (wf0 v) (so0 v))) as (I & B & C).
  { intros n [<-|[]]. cbn. lia. }
  split; [|split; [apply wf0|split; [apply cnb0|split; [exact I|split; [apply so0|split]]]]].
  - split.
    + reflexivity.
    + reflexivity.
    + intros n _ R. cbn in R. apply Nat.eqb_eq in R. now subst.
    + intros n L _ In R. do 4 (destruct n as [|n]; try discriminate; try reflexivity).
    + repeat constructor; cbn; intuition discriminate.
    + intros n. change (pm_state (mk v extra)) with (pm_state (mk v None)). rewrite built0.
      cbn [pm_order mk In]. rewrite Nat.ltb_lt. lia.
  - intros n L _. change (pm_state (mk v extra)) with (pm_state (mk v None)). rewrite built0.
    now apply Nat.ltb_lt.
  - intros m L In. cbn [pm_state mk]. rewrite C by auto.
    do 2 (destruct m as [|m]; [cbn; auto|]). discriminate.
Qed.

(* all hypotheses of C03_abs / C03_equiv_partial / C03_idempotent hold for the
   model whose second input is the text "ab" *)
Example hypotheses_satisfiable :
  let M := mk (VStr [97%Z; 98%Z]) None in
  pm_ok G0 cdeps0 M /\ wf (pm_wb M) /\ code_nonblank csem0 rsem0
  /\ Inv (pm_wb M) (pm_sem csem0 rsem0 M) (pm_state M) /\ no_eq_text M
  /\ stored_ok (pm_wb M) (pm_sem csem0 rsem0 M)
  /\ allcells (pm_wb M) (pm_state M) /\ inputs_exact (pm_wb M) (st_cache (pm_state M))
  /\ Forall (post_ok (pm_wb M)) [Evaluate 3; SetValue 1 (VInt 5); Evaluate 3; Evaluate 2].
Proof.
  cbn zeta. destruct (mk_ok (VStr [97%Z; 98%Z]) None eq_refl) as (A & B & C & D & E & F & H).
  split; [exact A|split; [exact B|split; [exact C|split; [exact D|split]]]].
  - intros n Bn In. do 2 (destruct n as [|n]; [reflexivity|]). discriminate.
  - split; [exact E|split; [exact F|split; [exact H|]]].
    repeat constructor; cbn; lia.
Qed.

(* the round trip on this model, computed: same abstraction, same answers *)
Example roundtrip_computed :
  let M := mk (VStr [97%Z; 98%Z]) None in
  let h := [Evaluate 3; SetValue 1 (VInt 5); Evaluate 3; Evaluate 2] in
  match roundtrip_pkl G0 cdeps0 csem0 rsem0 M with
  | Ok M' => abs M' = abs M
             /\ snd (run (pm_wb M') (pm_sem csem0 rsem0 M') (pm_state M') h)
                = snd (run (pm_wb M) (pm_sem csem0 rsem0 M) (pm_state M) h)
             /\ map fst (saved_cells G0 M) = [0; 1; 3]
  | Raise _ => False
  end.
Proof. vm_compute. repeat split. Qed.

(* sort keys that are not injective (a CSE range and its top-left cell share a
   key in the implementation): two insertion orders of the same content give
   two different documents — the distinct-keys hypothesis of C03_deterministic
   is needed *)
Example same_key_order_matters :
  let G1 := {| g_n := 4; g_range := g_range G0; g_members := g_members G0; g_key := fun _ => 0 |} in
  let M := mk (VInt 3) None in
  let M2 := {| pm_wb := pm_wb M; pm_code := pm_code M; pm_state := pm_state M;
               pm_order := [0; 1; 2; 3];
               pm_cycles := pm_cycles M; pm_filename := pm_filename M; pm_hash := pm_hash M;
               pm_extra := None |} in
  Permutation (pm_order M) (pm_order M2)
  /\ map fst (saved_cells G1 M) = [3; 0; 1] /\ map fst (saved_cells G1 M2) = [0; 1; 3]
  /\ map fst (saved_cells G0 M) = map fst (saved_cells G0 M2).
Proof.
  cbn zeta. split; [|vm_compute; auto].
  cbn [pm_order mk].
  apply (perm_trans (l' := [2; 3; 0; 1])); [apply perm_swap|].
  apply (perm_trans (l' := [2; 0; 3; 1])); [apply perm_skip, perm_swap|].
  apply (perm_trans (l' := [0; 2; 3; 1])); [apply perm_swap|]. apply perm_skip.
  apply (perm_trans (l' := [2; 1; 3])); [apply perm_skip, perm_swap|].
  apply (perm_trans (l' := [1; 2; 3])); [apply perm_swap|]. apply Permutation_refl.
Qed.

(* ----------------------------------------------- a partially built model
   the same workbook with a fifth node A4 (formula with code "T" reading A2)
   that is NOT in the model when it is saved: the hypotheses of
   C03_equiv_region_partial hold, for a history inside the saved part *)
Definition codeT : str := [84%Z].
Definition G1 : geometry :=
  {| g_n := 5; g_range := fun n => n =? 2;
     g_members := fun n => if n =? 2 then [0; 1] else []; g_key := fun n => n |}.
Definition cdeps1 (t : str) : list nat :=
  if str_eqb t codeS then [2] else if str_eqb t codeT then [1] else [].
Definition W1 : workbook :=
  {| wb_n := 5;
     wb_input := fun n => n <? 2;
     wb_deps := fun n => match n with 2 => [0; 1] | 3 => [2] | 4 => [1] | _ => [] end;
     wb_range := fun n => n =? 2;
     wb_inp0 := fun n => match n with 0 => VInt 2 | 1 => VInt 7 | _ => VNone end;
     wb_stored := fun _ => VNone |}.
Definition code1 (n : nat) : str := match n with 3 => codeS | 4 => codeT | _ => [] end.
Definition sem1 := sem_of csem0 rsem0 (fun n => n =? 2) code1.
Definition M1 : pmodel :=
  {| pm_wb := W1; pm_code := code1;
     pm_state := build_list W1 sem1 (init W1) [3];
     pm_order := [3; 2; 0; 1];
     pm_cycles := VBool false; pm_filename := VStr [119%Z]; pm_hash := VNone; pm_extra := None |}.

Lemma built1 n : st_built (pm_state M1) n = (n <? 4).
Proof. do 5 (destruct n as [|n]; [reflexivity|]). reflexivity. Qed.

Example partial_hypotheses_satisfiable :
  let h := [Evaluate 3; SetValue 1 (VInt 5); Evaluate 3; Evaluate 2] in
  pm_ok G1 cdeps1 M1 /\ wf (pm_wb M1) /\ code_nonblank csem0 rsem0
  /\ Inv (pm_wb M1) (pm_sem csem0 rsem0 M1) (pm_state M1) /\ no_eq_text M1
  /\ stored_ok (pm_wb M1) (pm_sem csem0 rsem0 M1)
  /\ inputs_exact (pm_wb M1) (st_cache (pm_state M1))
  /\ st_built (pm_state M1) 4 = false
  /\ Forall (post_in M1) h
  /\ ok_history (pm_wb M1) (pm_sem csem0 rsem0 M1) (ok_op (pm_wb M1)) (pm_state M1) h.
Proof.
  cbn zeta.
  assert (WF: wf W1) by (apply wfb_sound; reflexivity).
  assert (NB: sem_nonblank W1 sem1) by apply sem_of_nonblank, cnb0.
  assert (SO: stored_ok W1 sem1) by (apply stored_ok_nodata; reflexivity).
  destruct (build_list_inv W1 sem1 WF NB SO [3] (init W1) (Inv_init _ _ WF SO)) as (I & B & C).
  { intros n [<-|[]]. cbn. lia. }
  split; [|split; [exact WF|split; [exact cnb0|split; [exact I|split; [|split; [exact SO|split; [|split]]]]]]].
  - split.
    + reflexivity.
    + reflexivity.
    + intros n _ R. cbn in R. apply Nat.eqb_eq in R. now subst.
    + intros n L _ In R. do 5 (destruct n as [|n]; try discriminate; try reflexivity).
    + repeat constructor; cbn; intuition discriminate.
    + intros n. rewrite built1. cbn [pm_order M1 In]. rewrite Nat.ltb_lt. lia.
  - intros n Bn In. do 2 (destruct n as [|n]; [reflexivity|]). discriminate.
  - intros m L In. cbn [pm_state M1]. rewrite C by auto.
    do 2 (destruct m as [|m]; [reflexivity|]). discriminate.
  - reflexivity.
  - split.
    + repeat constructor; cbn; try (left; reflexivity); auto.
    + cbn [ok_history]. repeat split; try (cbn; lia); try reflexivity.
      intros d _ _ _. right. reflexivity.
Qed.

Example partial_roundtrip_computed :
  let h := [Evaluate 3; SetValue 1 (VInt 5); Evaluate 3; Evaluate 2] in
  match roundtrip_pkl G1 cdeps1 csem0 rsem0 M1 with
  | Ok M' => snd (run (pm_wb M') (pm_sem csem0 rsem0 M') (pm_state M') h)
             = snd (run (pm_wb M1) (pm_sem csem0 rsem0 M1) (pm_state M1) h)
             /\ wb_input (pm_wb M') 4 = true /\ wb_input (pm_wb M1) 4 = false
  | Raise _ => False
  end.
Proof. vm_compute. repeat split. Qed.
