(* Proofs/C04.v — the scanned precedents cover every address the compiled code
   can read.  [written_scanned]: every _C_/_R_/_REF_ call node with a string
   literal argument, wherever it sits in the emitted tree (also inside a
   renamed region), is found by the token scan; [reads_written]: every
   possible read is such a node, or a range computed by the intersection
   operator from such nodes. *)
From Coq Require Import ZArith List Bool Lia.
From PV Require Import Lib.Py Model.Syntax Model.Emit Model.Scan.
Import ListNotations.
Open Scope Z_scope.

Lemma pycst_ind' (P : pycst -> Prop) :
  (forall s, P (PAtom s)) -> (forall t, P t -> P (PParen t)) -> (forall t, P t -> P (PNeg t)) ->
  (forall o l r, P l -> P r -> P (PBin o l r)) ->
  (forall f args, Forall P args -> P (PCall f args)) ->
  (forall t, P t -> P (PTuple1 t)) ->
  (forall items, Forall P items -> P (PSeq items)) ->
  (forall o l r, P l -> P r -> P (PRefOp o l r)) ->
  (forall s, P (PRaw s)) -> (forall t, P t -> P (PRenamed t)) -> forall t, P t.
Proof.
  intros HA HP HN HB HC HT HS HR HW HRn. fix IH 1.
  intros [s|t|t|o l r|f args|t|items|o l r|s|t].
  - apply HA.
  - apply HP, IH.
  - apply HN, IH.
  - apply HB; apply IH.
  - apply HC. induction args as [|a args IHl]; constructor; [apply IH|apply IHl].
  - apply HT, IH.
  - apply HS. induction items as [|a args IHl]; constructor; [apply IH|apply IHl].
  - apply HR; apply IH.
  - apply HW.
  - apply HRn, IH.
Qed.

(* ADDR_FUNCS_NAMES (generated) contains the three names *)
Lemma addr_names_ok :
  is_addr_name n_R = true /\ is_addr_name n_C = true /\ is_addr_name n_REF = true.
Proof. vm_compute. repeat split. Qed.

Lemma ref_fun_addr ren f : is_ref_fun f = true -> is_addr_name (ren_name ren f) = true.
Proof.
  destruct addr_names_ok as (A1 & A2 & A3). unfold is_ref_fun, ren_name. intros H.
  assert (E: forall a b, str_eqb a b = true -> a = b).
  { induction a as [|x a IHa]; destruct b as [|y b]; cbn; try discriminate; auto.
    intros Hx. apply andb_prop in Hx. destruct Hx as [Hx Hy]. apply Z.eqb_eq in Hx.
    f_equal; auto. }
  destruct (str_eqb f n_R) eqn:E1.
  { apply E in E1. subst f. destruct ren; cbn [andb orb]; auto. }
  destruct (str_eqb f n_C) eqn:E2.
  { apply E in E2. subst f. destruct ren; cbn [andb orb]; rewrite ?orb_true_r; auto. }
  cbn [orb] in H. apply E in H. subst f. rewrite andb_false_r. exact A3.
Qed.

(* the scan is monotone under adding tokens on either side *)
Lemma scan_head_app t x q a : In a (scan_head t x) -> In a (scan_head t (x ++ q)).
Proof.
  destruct t; cbn [scan_head]; auto.
  destruct x as [|t1 [|t2 [|t3 x]]]; cbn [app]; try contradiction; auto.
Qed.
Lemma scan_app_l x q a : In a (scan x) -> In a (scan (x ++ q)).
Proof.
  induction x as [|t x IH]; cbn [scan app]; [contradiction|]. intros H.
  apply in_app_or in H. apply in_or_app. destruct H as [H|H]; [left; apply scan_head_app, H|right; auto].
Qed.
Lemma scan_app_r p x a : In a (scan x) -> In a (scan (p ++ x)).
Proof. induction p as [|t p IH]; cbn [scan app]; auto. intros H. apply in_or_app. right. auto. Qed.
Lemma scan_mid p x q a : In a (scan x) -> In a (scan (p ++ x ++ q)).
Proof. intros H. apply scan_app_r, scan_app_l, H. Qed.

Lemma scan_join sep xs x a : In x xs -> In a (scan x) -> In a (scan (join_toks sep xs)).
Proof.
  induction xs as [|y xs IH]; [contradiction|]. intros [->|H] Ha.
  - destruct xs; cbn [join_toks]; auto. apply scan_app_l, Ha.
  - destruct xs as [|z xs]; [contradiction|].
    change (join_toks sep (y :: z :: xs)) with (y ++ sep ++ join_toks sep (z :: xs)).
    apply scan_app_r, scan_app_r, IH; auto.
Qed.

Lemma written_scanned t : forall ren a, In a (written t) -> In a (scan (pytokens ren t)).
Proof.
  induction t as [s|t IH|t IH|o l r IHl IHr|f args IH|t IH|items IH|o l r IHl IHr|s|t IH]
    using pycst_ind'; intros ren a H; cbn [written] in H; cbn [pytokens].
  - contradiction.
  - apply (scan_mid [KOp t_open] _ [KOp t_close]), IH, H.
  - apply (scan_app_r [KOp (pyop_text PSub)]), IH, H.
  - apply in_app_or in H. destruct H as [H|H].
    + apply scan_app_l, IHl, H.
    + apply scan_app_r. apply (scan_app_r [KOp (pyop_text o)]). apply IHr, H.
  - apply in_app_or in H. destruct H as [H|H].
    + destruct (is_ref_fun f) eqn:Ef; [|contradiction].
      unfold direct_ref in H. destruct args as [|[s| | | | | | | | |] [|? ?]]; try contradiction.
      destruct (is_string_atom s) eqn:Es; [|contradiction]. destruct H as [<-|[]].
      cbn [map join_toks pytokens app scan scan_head tok_text].
      rewrite (ref_fun_addr ren f Ef).
      assert (Cl: classify ren s = KStr s).
      { unfold classify, is_string_atom in *. destruct s; [discriminate|]. rewrite Es. reflexivity. }
      rewrite Cl. cbn [tok_text andb]. left. reflexivity.
    + apply in_concat in H. destruct H as (w & Hw & Ha). apply in_map_iff in Hw.
      destruct Hw as (x & <- & Hx). rewrite Forall_forall in IH.
      apply (scan_mid [KName (ren_name ren f); KOp t_open] _ [KOp t_close]).
      apply (scan_join _ _ (pytokens ren x)); [apply in_map, Hx|apply IH; auto].
  - apply (scan_mid [KOp t_open] _ [KOp t_comma; KOp t_close]), IH, H.
  - apply in_concat in H. destruct H as (w & Hw & Ha). apply in_map_iff in Hw.
    destruct Hw as (x & <- & Hx). rewrite Forall_forall in IH.
    apply (scan_join _ _ (pytokens ren x)); [apply in_map, Hx|apply IH; auto].
  - apply (scan_mid [KName n_R; KOp t_open; KName n_str; KOp t_open] _ [KOp t_close; KOp t_close]).
    apply in_app_or in H. destruct H as [H|H].
    + apply scan_app_l, IHl, H.
    + apply scan_app_r. apply (scan_app_r [KOp (pyop_text o)]). apply IHr, H.
  - contradiction.
  - apply IH, H.
Qed.

(* ------------------------------------------------------------ reads *)
Lemma covered_mono S S' r : (forall a, In a S -> In a S') -> covered S r -> covered S' r.
Proof. intros M. destruct r; cbn [covered]; auto. Qed.

Lemma reads_written t : refs_written t = true -> forall r, In r (reads t) -> covered (written t) r.
Proof.
  induction t as [s|t IH|t IH|o l r IHl IHr|f args IH|t IH|items IH|o l r IHl IHr|s|t IH]
    using pycst_ind'; intros W x H; cbn [reads] in H; cbn [refs_written] in W; cbn [written];
    try contradiction; try (apply IH; assumption).
  - apply andb_prop in W. destruct W as [Wl Wr]. apply in_app_or in H. destruct H as [H|H].
    + eapply covered_mono; [|apply IHl; eauto]. intros a Ha. apply in_or_app; auto.
    + eapply covered_mono; [|apply IHr; eauto]. intros a Ha. apply in_or_app; auto.
  - apply in_app_or in H. destruct H as [H|H].
    + destruct (is_read_fun f) eqn:Ef; [|contradiction].
      assert (Er: is_ref_fun f = true).
      { unfold is_ref_fun, is_read_fun in *. rewrite Ef. reflexivity. }
      rewrite Er. apply in_map_iff in H. destruct H as (a & <- & Ha). cbn [covered].
      apply in_or_app; auto.
    + apply in_concat in H. destruct H as (w & Hw & Hx). apply in_map_iff in Hw.
      destruct Hw as (y & <- & Hy). rewrite Forall_forall in IH. rewrite forallb_forall in W.
      eapply covered_mono; [|apply (IH y Hy (W y Hy)); eauto].
      intros a Ha. apply in_or_app. right. apply in_concat. exists (written y). split; auto.
      apply in_map, Hy.
  - apply in_concat in H. destruct H as (w & Hw & Hx). apply in_map_iff in Hw.
    destruct Hw as (y & <- & Hy). rewrite Forall_forall in IH. rewrite forallb_forall in W.
    eapply covered_mono; [|apply (IH y Hy (W y Hy)); eauto].
    intros a Ha. apply in_concat. exists (written y). split; auto. apply in_map, Hy.
  - destruct o; try discriminate. destruct H as [<-|[]]. cbn [covered]. auto.
Qed.

(* ------------------------------------------------------------ uniqueify *)
Lemma str_eqb_eq a b : str_eqb a b = true -> a = b.
Proof.
  revert b. induction a as [|x a IHa]; destruct b as [|y b]; cbn; try discriminate; auto.
  intros Hx. apply andb_prop in Hx. destruct Hx as [Hx Hy]. apply Z.eqb_eq in Hx. f_equal; auto.
Qed.
Lemma str_eqb_refl a : str_eqb a a = true.
Proof. induction a as [|x a IH]; cbn; auto. rewrite Z.eqb_refl, IH. reflexivity. Qed.

Lemma uniq_go_in l : forall seen a, In a l -> In a (uniq_go seen l) \/ In a seen.
Proof.
  induction l as [|x l IH]; intros seen a H; [contradiction|]. cbn [uniq_go].
  destruct (existsb (str_eqb x) seen) eqn:E.
  - destruct H as [->|H]; [|apply IH, H]. right. apply existsb_exists in E.
    destruct E as (y & Hy & Eq). apply str_eqb_eq in Eq. subst y. exact Hy.
  - destruct H as [->|H]; [left; left; reflexivity|].
    destruct (IH (x :: seen) a H) as [G|[->|G]]; [left; right; exact G|left; left; reflexivity|right; exact G].
Qed.
Lemma uniq_in l a : In a l -> In a (uniq l).
Proof. intros H. destruct (uniq_go_in l [] a H) as [G|[]]. exact G. Qed.

(* ------------------------------------------------------------ the theorem *)
Theorem cover e : refs_written (emit CtxTop e) = true ->
  forall r, In r (reads (emit CtxTop e)) -> covered (needed e) r.
Proof.
  intros W r H. eapply covered_mono; [|apply reads_written; eauto].
  intros a Ha. unfold needed. apply uniq_in, written_scanned, Ha.
Qed.

(* non-vacuity: =SUM(A1:B3 B2:C3)+C3 reads a range inside A1:B3 and B2:C3, and C3 *)
Example ex_cover :
  let e := EBin OAdd (EFunc [83; 85; 77; 40]
                        [EBin OIsect (EOperand KRange [65; 49; 58; 66; 51]) (EOperand KRange [66; 50; 58; 67; 51])])
                     (EOperand KRange [67; 51]) in
  refs_written (emit CtxTop e) = true /\
  reads (emit CtxTop e) = [RWithin [[65; 49; 58; 66; 51]; [66; 50; 58; 67; 51]]; RExact [67; 51]] /\
  needed e = [[65; 49; 58; 66; 51]; [66; 50; 58; 67; 51]; [67; 51]].
Proof. vm_compute. repeat split. Qed.
