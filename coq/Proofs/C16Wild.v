(* Proofs/C16Wild.v — MATCH(pattern, a, 0) with ?/* wildcards: the first
   position whose TEXT cell matches the pattern in the sense of the declarative
   relation [Glob] of Proofs/C15.v (? = one character, * = any run, anything
   else itself; compared on lower-cased text: case-insensitive), else #N/A.
   [glob] of Model/LookupCore.v (the regular expression build_wildcard_re
   compiles) equals Model/Criteria.v's matcher on text without a line feed.
   Known findings kept outside by the hypotheses / the reading of [Glob]:
   - C16-wildcard-regex-metachar: patterns with . ^ $ + { } [ ] \ | ( ) are
     Unmodelled (hypothesis existsb regex_meta p = false);
   - C16-wildcard-newline: '.' does not match a line feed and '$' matches
     before a final one (hypothesis: no line feed in the text cells);
   - C16-wildcard-tilde-escape: '~' is an ordinary character for [Glob] as it
     is for the implementation; Excel's ~? ~* ~~ escapes are NOT what is proved
     (for patterns free of '~' [Glob] is Excel's matcher). *)
From Coq Require Import ZArith QArith List Bool Lia.
From PV Require Import Lib.Py Model.Ops Model.Criteria Proofs.C15 Proofs.C10 Model.LookupCore
  Proofs.C16 Proofs.C16Desc.
Import ListNotations.
Open Scope Z_scope.

Definition no_lf (s : str) : bool := negb (existsb (Z.eqb 10) s).

Lemma glob_star_unfold p s :
  glob (42 :: p) s
  = glob p s || match s with [] => false | d :: s' => negb (d =? 10) && glob (42 :: p) s' end.
Proof. destruct s; reflexivity. Qed.

Lemma no_lf_cons d s : no_lf (d :: s) = true -> (d =? 10) = false /\ no_lf s = true.
Proof.
  unfold no_lf. cbn [existsb]. rewrite negb_orb, andb_true_iff, (Z.eqb_sym 10 d), negb_true_iff. auto.
Qed.

(* the two matchers agree on text without a line feed *)
Lemma glob_is_glob_match p : forall s, no_lf s = true -> glob p s = glob_match p s.
Proof.
  induction p as [|c p IHp]; intros s Hs.
  - destruct s as [|d [|e s]]; try reflexivity. apply no_lf_cons in Hs. cbn [glob glob_match]. tauto.
  - destruct (Z.eq_dec c 42) as [->|Hc].
    + induction s as [|d s IHs]; rewrite glob_star_unfold, C15.glob_star.
      * rewrite (IHp [] Hs). reflexivity.
      * destruct (no_lf_cons d s Hs) as [Hd Hs']. rewrite (IHp _ Hs), Hd, (IHs Hs'). reflexivity.
    + destruct s as [|d s].
      * rewrite glob_char_nil by exact Hc. cbn [glob].
        replace (c =? 42) with false by (symmetry; apply Z.eqb_neq; exact Hc).
        destruct (c =? 63); reflexivity.
      * destruct (no_lf_cons d s Hs) as [Hd Hs']. rewrite glob_char by exact Hc. cbn [glob].
        replace (c =? 42) with false by (symmetry; apply Z.eqb_neq; exact Hc).
        destruct (c =? 63) eqn:E63; cbn [orb]; rewrite (IHp s Hs').
        -- rewrite Hd. reflexivity.
        -- rewrite (Z.eqb_sym d c). reflexivity.
Qed.

Lemma glob_declarative p s : no_lf s = true -> (glob p s = true <-> Glob p s).
Proof. intros H. rewrite (glob_is_glob_match p s H). apply glob_spec. Qed.

(* "c is a text cell — not an error code — whose (lower-cased) text matches p" *)
Definition wild_hit (p : str) (c : pyval) : Prop :=
  exists s, in_error_codes c = Ok false /\ abs_key c = Ok (1, VStr s) /\ Glob p s.

(* no text cell contains a line feed *)
Definition no_lf_cells (a : list pyval) : Prop :=
  forall c s, In c a -> abs_key c = Ok (1, VStr s) -> no_lf s = true.

Definition wild_test (p : str) : key -> res bool :=
  fun k => match snd k with VStr s => Ok (glob p s) | _ => Raise Unmodelled end.

Lemma text_key k : kwf k -> fst k = 1 -> exists s, k = (1, VStr s).
Proof.
  destruct k as [t v]. unfold kwf. cbn [fst snd]. intros W ->.
  destruct v; try contradiction; try lia. eauto.
Qed.

(* the test of one cell decides [wild_hit]; it is defined when the cell has a key *)
Lemma wild_cell p c : (forall s, abs_key c = Ok (1, VStr s) -> no_lf s = true) ->
  (exists k, abs_key c = Ok k) ->
  exists b, matches0 1 (wild_test p) c = Ok b /\ (b = true <-> wild_hit p c).
Proof.
  intros Hlf (k & Hk). unfold matches0.
  destruct (in_error_of_key c k Hk) as (e & He). rewrite He. cbn [bind]. destruct e.
  { exists false. split; [reflexivity|]. split; [discriminate|]. intros (s & He' & _). congruence. }
  rewrite Hk. cbn [bind]. destruct (Z.eqb_spec (fst k) 1) as [Et|Et].
  - destruct (text_key k (abs_key_wf c k Hk) Et) as (s & ->). unfold wild_test. cbn [snd].
    exists (glob p s). split; [reflexivity|]. rewrite (glob_declarative p s (Hlf s Hk)). split.
    + intros G. exists s. auto.
    + intros (s' & _ & Hk' & G). rewrite Hk in Hk'. injection Hk' as <-. exact G.
  - exists false. split; [reflexivity|]. split; [discriminate|].
    intros (s & _ & Hk' & _). rewrite Hk in Hk'. injection Hk' as ->. cbn [fst] in Et. congruence.
Qed.

(* find_first with a test that is defined on every cell *)
Lemma find_first_decided (t : pyval -> res bool) (P : pyval -> Prop) l :
  (forall c, In c l -> exists b, t c = Ok b /\ (b = true <-> P c)) ->
  forall i, (find_first t l i = Ok NA /\ forall c, In c l -> ~ P c)
    \/ (exists n c, find_first t l i = Ok (VInt (i + Z.of_nat n)) /\ nth_error l n = Some c /\ P c
                    /\ forall n' c', (n' < n)%nat -> nth_error l n' = Some c' -> ~ P c').
Proof.
  induction l as [|c l IH]; intros Hdec i.
  - left. split; [reflexivity|]. intros c [].
  - destruct (Hdec c (or_introl eq_refl)) as (b & Hb & Hiff). cbn [find_first]. rewrite Hb. cbn [bind].
    destruct b.
    + right. exists 0%nat, c. rewrite Z.add_0_r. split; [reflexivity|]. split; [reflexivity|].
      split; [apply Hiff; reflexivity|]. intros n' c' Hlt. lia.
    + assert (Hnc : ~ P c) by (intros Hp; apply Hiff in Hp; discriminate).
      destruct (IH (fun c' Hin => Hdec c' (or_intror Hin)) (i + 1))
        as [[Hna Hall]|(n & c1 & Hr & Hn & Hp & Hbefore)].
      * left. split; [exact Hna|]. intros c' [<-|Hin]; auto.
      * right. exists (S n), c1. split; [rewrite Hr; do 2 f_equal; lia|]. split; [exact Hn|].
        split; [exact Hp|]. intros [|n'] c' Hlt; cbn [nth_error].
        -- intros E. injection E as <-. exact Hnc.
        -- apply Hbefore. lia.
Qed.

(* C16_match0_wildcard *)
Theorem match0_wildcard v x p a : lv_key v = Ok x -> fst x = (1, VStr p) ->
  existsb is_wild p = true -> existsb regex_meta p = false ->
  (forall c, In c a -> exists k, abs_key c = Ok k) -> no_lf_cells a ->
  (match_ v (VTuple a) (VInt 0) = Ok NA /\ forall c, In c a -> ~ wild_hit p c)
  \/ (exists n c, match_ v (VTuple a) (VInt 0) = Ok (VInt (1 + Z.of_nat n))
                  /\ nth_error a n = Some c /\ wild_hit p c
                  /\ forall n' c', (n' < n)%nat -> nth_error a n' = Some c' -> ~ wild_hit p c').
Proof.
  intros Hv Hx Hw Hm Hkeys Hlf. rewrite match0_is_find_first, Hv. cbn [bind]. rewrite Hx.
  rewrite (test0_wild p Hw Hm). cbn [bind fst]. fold (wild_test p).
  apply find_first_decided. intros c Hin. apply wild_cell; [|apply Hkeys; exact Hin].
  intros s Hs. exact (Hlf c s Hin Hs).
Qed.

(* ------------------------------------------------------ examples (non-vacuity) *)
Definition wild_vec := [VInt 1; s_b; VNone; excelutil.c_DIV0; VStr [65; 98; 99]; VStr [97]].
Example ex_wild_hyps : exists x, lv_key (VStr [65; 42]) = Ok x /\ fst x = (1, VStr [97; 42])
  /\ existsb is_wild [97; 42] = true /\ existsb regex_meta [97; 42] = false
  /\ (forall c, In c wild_vec -> exists k, abs_key c = Ok k) /\ no_lf_cells wild_vec.
Proof.
  eexists. split; [vm_compute; reflexivity|]. split; [reflexivity|]. split; [reflexivity|].
  split; [reflexivity|]. split.
  - intros c Hin. repeat (destruct Hin as [<-|Hin]; [eexists; vm_compute; reflexivity|]). destruct Hin.
  - intros c s Hin. repeat (destruct Hin as [<-|Hin]; [vm_compute; intros H; try discriminate;
      injection H as <-; reflexivity|]). destruct Hin.
Qed.
Example ex_wild_match : match_ (VStr [65; 42]) (VTuple wild_vec) (VInt 0) = Ok (VInt 5).
Proof. vm_compute. reflexivity. Qed.
