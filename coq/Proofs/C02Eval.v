(* Proofs/C02Eval.v — C02, evaluation: the code emitted for an Excel tree,
   evaluated the way the compiled lambda is (Model/FormulaEval.v pyeval: the
   OperatorWrapper rewrites), gives the Excel meaning of the tree (xleval) in
   every environment. *)
From Coq Require Import String.
From Coq Require Import ZArith QArith List Bool Lia.
From PV Require Import Lib.Py Model.Syntax Model.Emit Model.Ops Model.Arrays Model.FormulaEval.
From PV Require Import Proofs.C02Parse Proofs.C02 Proofs.C02Number.
Import ListNotations.
Open Scope Z_scope.

(* ------------------------------------------------------------ plain text *)
Lemma plain_char_spec c : plain_char c = true <-> c <> dq /\ c <> bs /\ c <> 10 /\ c <> 13.
Proof.
  unfold plain_char. rewrite !andb_true_iff, !negb_true_iff, !Z.eqb_neq. tauto.
Qed.

Lemma plain_dbl s : plain s = true -> dbl s = s.
Proof.
  induction s as [|c s IH]; intros P; [reflexivity|]. cbn [plain forallb] in P.
  apply andb_prop in P. destruct P as [P1 P2]. apply plain_char_spec in P1. destruct P1 as (N & _).
  cbn [dbl]. destruct (Z.eqb_spec c dq); [contradiction|]. rewrite (IH P2). reflexivity.
Qed.

Lemma plain_esc s : plain s = true -> esc s = s.
Proof.
  induction s as [|c s IH]; intros P; [reflexivity|]. cbn [plain forallb] in P.
  apply andb_prop in P. destruct P as [P1 P2]. apply plain_char_spec in P1.
  destruct P1 as (N1 & N2 & N3 & N4). cbn [esc].
  destruct (Z.eqb_spec c dq); [contradiction|]. destruct (Z.eqb_spec c bs); [contradiction|].
  destruct (Z.eqb_spec c 10); [contradiction|]. destruct (Z.eqb_spec c 13); [contradiction|].
  rewrite (IH P2). reflexivity.
Qed.

Lemma unescape_plain s : plain s = true -> py_unescape (s ++ [dq]) = Some s.
Proof. intros P. rewrite <- (plain_esc s P) at 1. apply unescape_esc. Qed.

Lemma literal_plain s : plain s = true -> py_string_literal (dq :: s ++ [dq]) = Some s.
Proof.
  intros P. cbn [py_string_literal]. change (dq =? dq) with true. cbv iota. apply unescape_plain, P.
Qed.

(* an error constant: emitted between quotes as it is *)
Lemma emit_text_plain v : (2 <? zlen v) = true -> plain v = true -> emit_text v = dq :: v ++ [dq].
Proof.
  intros L P. unfold emit_text. rewrite L.
  assert (S: strip_quotes v = v).
  { unfold strip_quotes. destruct v as [|c r]; [reflexivity|]. destruct (rev r) as [|d m]; [reflexivity|].
    cbn [plain forallb] in P. apply andb_prop in P. destruct P as [P1 _]. apply plain_char_spec in P1.
    destruct P1 as (N & _). destruct (Z.eqb_spec c dq); [contradiction|]. reflexivity. }
  rewrite S. rewrite <- (plain_dbl v P) at 1. rewrite emit_chain, (plain_esc v P). reflexivity.
Qed.

(* ------------------------------------------------------------ Excel's text token *)
Lemma xl_unq_dbl s : xl_unq (dbl s ++ [dq]) = Some s.
Proof.
  induction s as [|c s IH].
  - cbn [dbl app xl_unq]. change (dq =? dq) with true. reflexivity.
  - cbn [dbl]. destruct (Z.eqb_spec c dq) as [->|N].
    + cbn [app xl_unq]. change (dq =? dq) with true. cbv iota.
      rewrite IH. reflexivity.
    + cbn [app xl_unq]. destruct (Z.eqb_spec c dq); [contradiction|]. rewrite IH. reflexivity.
Qed.

Lemma xl_unq_inv_n n : forall r s, (length r <= n)%nat -> xl_unq r = Some s -> r = dbl s ++ [dq].
Proof.
  induction n as [|n IH]; intros r s L H.
  - destruct r; [discriminate H|cbn [length] in L; lia].
  - destruct r as [|c r']; [discriminate H|]. cbn [xl_unq] in H. cbn [length] in L.
    destruct (Z.eqb_spec c dq) as [->|N].
    + destruct r' as [|d r''].
      * injection H as <-. reflexivity.
      * destruct (Z.eqb_spec d dq) as [->|N2]; [|discriminate H].
        destruct (xl_unq r'') as [t|] eqn:U; [|discriminate H]. injection H as <-.
        cbn [length] in L. rewrite (IH r'' t) by (auto; lia). cbn [dbl]. change (dq =? dq) with true.
        reflexivity.
    + destruct (xl_unq r') as [t|] eqn:U; [|discriminate H]. injection H as <-.
      rewrite (IH r' t) by (auto; lia). cbn [dbl]. destruct (Z.eqb_spec c dq); [contradiction|].
      reflexivity.
Qed.

Lemma xl_unquote_inv v s : xl_unquote v = Some s -> v = excel_quote s.
Proof.
  unfold xl_unquote, excel_quote. destruct v as [|c r]; [discriminate|].
  destruct (Z.eqb_spec c dq) as [->|N]; [|discriminate]. intros H.
  rewrite (xl_unq_inv_n (length r) r s (le_n _) H). reflexivity.
Qed.

Lemma xl_unquote_quote s : xl_unquote (excel_quote s) = Some s.
Proof. unfold xl_unquote, excel_quote. change (dq =? dq) with true. cbv iota. apply xl_unq_dbl. Qed.

(* ------------------------------------------------------------ references *)
Definition okc (c : Z) : bool := is_alpha c || is_digit c || (c =? 58) || (c =? 33).

Lemma okc_range c : okc c = true ->
  48 <= c <= 57 \/ 65 <= c <= 90 \/ 97 <= c <= 122 \/ c = 58 \/ c = 33.
Proof.
  unfold okc, is_alpha, is_digit. rewrite !orb_true_iff, !andb_true_iff, !Z.leb_le, !Z.eqb_eq. lia.
Qed.

Lemma okc_upper_plain c : okc c = true -> plain_char (ascii_upper c) = true.
Proof.
  intros H. apply okc_range in H. apply plain_char_spec. unfold ascii_upper, dq, bs.
  destruct ((97 <=? c) && (c <=? 122)) eqn:U.
  - apply andb_prop in U. destruct U as [U1 U2]. apply Z.leb_le in U1. apply Z.leb_le in U2. lia.
  - lia.
Qed.
Lemma okc_plain c : okc c = true -> plain_char c = true.
Proof. intros H. apply okc_range in H. apply plain_char_spec. unfold dq, bs. lia. Qed.

Lemma forallb_weaken {A} (p q : A -> bool) l : (forall x, p x = true -> q x = true) ->
  forallb p l = true -> forallb q l = true.
Proof.
  intros W. induction l as [|x l IH]; [reflexivity|]. cbn [forallb]. intros H.
  apply andb_prop in H. destruct H as [H1 H2]. rewrite (W _ H1), (IH H2). reflexivity.
Qed.

Lemma coord_ok_shape s rest : coord_ok s = Some rest ->
  exists a, s = a ++ rest /\ forallb okc a = true.
Proof.
  unfold coord_ok. destruct (span is_alpha s) as [col r1] eqn:S1.
  destruct (span is_digit r1) as [row r2] eqn:S2.
  destruct (span_spec _ _ _ _ S1) as (E1 & A1 & _). destruct (span_spec _ _ _ _ S2) as (E2 & A2 & _).
  destruct col as [|c col]; [discriminate|]. destruct row as [|d row]; [discriminate|].
  destruct ((d =? 48) || (3 <? zlen (c :: col))); [discriminate|]. intros H. injection H as <-.
  exists ((c :: col) ++ (d :: row)). subst s r1. rewrite app_assoc. split; [reflexivity|].
  rewrite forallb_app.
  rewrite (forallb_weaken is_alpha okc (c :: col)), (forallb_weaken is_digit okc (d :: row)); auto;
    intros x Hx; unfold okc; rewrite Hx; rewrite ?orb_true_r; reflexivity.
Qed.

Lemma split_sheet_shape s sh r : split_sheet s = (sh, r) -> forallb okc sh = true.
Proof.
  unfold split_sheet. destruct (span (fun c => is_alpha c || is_digit c) s) as [a b] eqn:S.
  destruct (span_spec _ _ _ _ S) as (_ & A & _).
  assert (D: forall x y, (x, y) = (sh, r) -> x = [] -> forallb okc sh = true).
  { intros x y H ->. injection H as <- _. reflexivity. }
  destruct b as [|c b']; [intros H; exact (D _ _ H eq_refl)|].
  destruct (Z.eq_dec c 33) as [->|N].
  - intros H. injection H as <- _. rewrite forallb_app. cbn [forallb].
    rewrite (forallb_weaken (fun c => is_alpha c || is_digit c) okc a); auto. intros x Hx. unfold okc.
    rewrite Hx. reflexivity.
  - intros H. destruct c as [|p|p]; try exact (D _ _ H eq_refl);
      repeat (destruct p as [p|p|]; try exact (D _ _ H eq_refl)); contradiction N; reflexivity.
Qed.

Lemma upper_plain s : forallb okc s = true -> plain (upper s) = true.
Proof.
  unfold plain, upper. induction s as [|c s IH]; [reflexivity|]. cbn [forallb map]. intros H.
  apply andb_prop in H. destruct H as [H1 H2]. rewrite (okc_upper_plain c H1), (IH H2). reflexivity.
Qed.

Lemma ref_parts_plain v sh r rng : ref_parts v = Some (sh, r, rng) -> plain (sh ++ r) = true.
Proof.
  unfold ref_parts. set (s := filter _ v). destruct (split_sheet s) as [sh0 r0] eqn:SS.
  pose proof (split_sheet_shape _ _ _ SS) as Psh.
  assert (Fin: forall rng', forallb okc r0 = true ->
               Some (sh0, upper r0, rng') = Some (sh, r, rng) -> plain (sh ++ r) = true).
  { intros rng' O H. injection H as <- <- _. unfold plain. rewrite forallb_app.
    rewrite (forallb_weaken okc plain_char sh0 okc_plain Psh). apply (upper_plain r0 O). }
  destruct (coord_ok r0) as [rest|] eqn:C1; [|discriminate].
  destruct (coord_ok_shape _ _ C1) as (a & Ea & Oa).
  destruct rest as [|c r2].
  - intros H. apply (Fin false); [|exact H]. rewrite Ea, app_nil_r. exact Oa.
  - destruct (Z.eq_dec c 58) as [->|N].
    + destruct (coord_ok r2) as [rest2|] eqn:C2; [|discriminate].
      destruct rest2; [|discriminate]. destruct (coord_ok_shape _ _ C2) as (a2 & Ea2 & Oa2).
      intros H. apply (Fin true); [|exact H]. rewrite Ea, Ea2, app_nil_r.
      rewrite forallb_app. cbn [forallb]. rewrite Oa, Oa2. reflexivity.
    + intros H. destruct c as [|p|p]; try discriminate H;
        repeat (destruct p as [p|p|]; try discriminate H); contradiction N; reflexivity.
Qed.

(* ------------------------------------------------------------ atoms *)
Lemma py_atom_string E s : py_atom E (dq :: s) =
  match py_string_literal (dq :: s) with Some t => Ok (VStr t) | None => Raise Unmodelled end.
Proof. unfold py_atom. change (dq =? dq) with true. reflexivity. Qed.

Lemma py_atom_text E s : py_atom E (emit_text (excel_quote s)) = Ok (VStr s).
Proof.
  pose proof (text_correct s) as T. unfold emit_text in *.
  destruct (2 <? zlen (excel_quote s)).
  - rewrite py_atom_string, T. reflexivity.
  - unfold excel_quote in *. rewrite py_atom_string, T. reflexivity.
Qed.

Lemma py_atom_number E c s : (is_digit c || (c =? 46)) = true ->
  py_atom E (c :: s) = match py_number (c :: s) with Some v => Ok v | None => Raise Unmodelled end.
Proof.
  intros C. unfold py_atom. rewrite C.
  assert (N: (c =? dq) = false).
  { apply Z.eqb_neq. unfold dq. apply orb_prop in C. destruct C as [C|C].
    - apply is_digit_range in C. lia.
    - apply Z.eqb_eq in C. lia. }
  rewrite N. reflexivity.
Qed.

Lemma str_eqb_true a : forall b, str_eqb a b = true -> a = b.
Proof.
  induction a as [|x a IH]; intros [|y b] H; try discriminate; auto.
  cbn [str_eqb] in H. apply andb_prop in H. destruct H as [H1 H2]. apply Z.eqb_eq in H1.
  rewrite H1, (IH b H2). reflexivity.
Qed.

Lemma atom_operand E k v : literal_ok k v = true -> (k = KRange -> ref_modelled v = true) ->
  pyeval E (pyabs (emit_operand k v)) = xl_operand E k v.
Proof.
  intros O R. destruct k; cbn [emit_operand pyabs pyeval xl_operand literal_ok] in *.
  - (* number *)
    destruct (xl_number v) as [q|] eqn:X; [|discriminate].
    destruct (number_correct v q X O) as (P & _).
    destruct (xl_number_shape v q X) as (ip & fr & ex & Ev & W & _).
    destruct (ntext_head ip fr ex W) as (c & t & Ec & C). subst v. rewrite Ec in *.
    rewrite (py_atom_number E c t C), P. reflexivity.
  - (* text *)
    destruct (xl_unquote v) as [s|] eqn:U; [|discriminate].
    rewrite (xl_unquote_inv v s U). apply py_atom_text.
  - (* logical *)
    apply orb_prop in O. destruct O as [O|O]; apply str_eqb_true in O; subst v; reflexivity.
  - (* error constant *)
    apply andb_prop in O. destruct O as [L P]. rewrite (emit_text_plain v L P).
    rewrite py_atom_string, (literal_plain v P). reflexivity.
  - (* reference *)
    specialize (R eq_refl). unfold ref_modelled in R. unfold emit_ref.
    destruct (ref_parts v) as [[[sh r] rng]|] eqn:RP; [|discriminate].
    pose proof (ref_parts_plain v sh r rng RP) as P.
    cbn [pyabs map pyeval]. unfold call.
    destruct (e_fun E (if rng then zs "_R_" else zs "_C_")) as [g|]; [|reflexivity].
    replace (dq :: sh ++ r ++ [dq]) with (dq :: (sh ++ r) ++ [dq]) by (rewrite <- app_assoc; reflexivity).
    rewrite py_atom_string, (literal_plain _ P). reflexivity.
  - (* omitted argument *) reflexivity.
Qed.

(* ------------------------------------------------------------ operators *)
Lemma xl_op_pyop o p : pyop_of o = Some p -> xl_op o = Some (ast_op p).
Proof.
  destruct o; vm_compute; intros H; try discriminate; injection H as <-; reflexivity.
Qed.

Lemma py_atom_100 E : py_atom E (zs "100") = Ok (VInt 100).
Proof. reflexivity. Qed.

Lemma lit_ok_func n args :
  lit_ok (EFunc n args) <->
  str_eqb (mapped_func (func_key n)) n_ref = false /\ Forall lit_ok args.
Proof.
  cbn [lit_ok]. split; intros [H1 H2]; split; auto.
  - induction args as [|a l IH]; [constructor|]. destruct H2 as [Ha Hl]. constructor; auto.
  - induction H2 as [|a l Ha Hl IH]; [exact I|]. split; auto.
Qed.

(* no operand of the emitted code is a call of _REF_ *)
Lemma not_ref_call e : arith e -> lit_ok e -> is_ref_call (translate e) = false.
Proof.
  destruct e as [k v|a|a|o l r|n args]; intros A L.
  - destruct k; try reflexivity. cbn [translate emit_operand]. unfold emit_ref.
    destruct (ref_parts v) as [[[sh r] [|]]|]; reflexivity.
  - reflexivity.
  - reflexivity.
  - cbn [translate]. destruct (pyop_of o); reflexivity.
  - apply lit_ok_func in L. destruct L as [L _]. cbn [translate].
    destruct (str_eqb (func_key n) (zs "pi")); [reflexivity|].
    destruct (str_eqb (func_key n) (zs "true")); [reflexivity|].
    destruct (str_eqb (func_key n) (zs "false")); [reflexivity|].
    destruct (is_handler (func_key n)); [reflexivity|]. cbn [is_ref_call]. exact L.
Qed.

(* ------------------------------------------------------------ the theorem *)
Theorem eval_translate E e : arith e -> lit_ok e -> pyeval E (translate e) = xleval E e.
Proof.
  induction e as [k v|e IH|e IH|o l r IHl IHr|n args IH] using expr_ind'; intros A L.
  - cbn [translate xleval]. apply atom_operand; [exact L|]. intros ->. exact A.
  - cbn [arith lit_ok] in *. cbn [translate pyeval xleval]. rewrite (IH A L). reflexivity.
  - cbn [arith lit_ok] in *. cbn [translate pyeval xleval is_addr_and].
    rewrite (IH A L), py_atom_100. reflexivity.
  - cbn [arith lit_ok] in *. destruct A as ([p Hp] & Al & Ar). destruct L as [Ll Lr].
    cbn [translate xleval]. rewrite Hp, (xl_op_pyop o p Hp). cbn [pyeval].
    assert (NA: is_addr_and p (translate l) (translate r) = false).
    { unfold is_addr_and. rewrite (not_ref_call l Al Ll). destruct p; reflexivity. }
    rewrite NA, (IHl Al Ll), (IHr Ar Lr). reflexivity.
  - apply arith_func in A. destruct A as [Hh Aa]. apply lit_ok_func in L. destruct L as [Lr La].
    cbn [translate xleval].
    assert (Args: forall (g : list pyval -> res pyval),
      (vs <- (fix go (l : list pyexpr) : res (list pyval) :=
                match l with
                | [] => Ok []
                | a :: l' => v <- pyeval E a ;; r <- go l' ;; Ok (v :: r)
                end) (map translate args) ;; g vs)
      = (vs <- (fix go (l : list expr) : res (list pyval) :=
                match l with
                | [] => Ok []
                | a :: l' => v <- xleval E a ;; r <- go l' ;; Ok (v :: r)
                end) args ;; g vs)).
    { intros g. f_equal. clear Hh Lr. induction args as [|a l IHa]; [reflexivity|].
      inversion IH as [|? ? Ia Il]; subst. inversion Aa as [|? ? Aa1 Aa2]; subst.
      inversion La as [|? ? La1 La2]; subst. cbn [map]. rewrite (Ia Aa1 La1), (IHa Il Aa2 La2).
      reflexivity. }
    destruct (str_eqb (func_key n) (zs "pi")) eqn:E1; [reflexivity|].
    destruct (str_eqb (func_key n) (zs "true")) eqn:E2; [reflexivity|].
    destruct (str_eqb (func_key n) (zs "false")) eqn:E3; [reflexivity|].
    destruct Hh as [Hh|[Hh|[Hh|Hh]]]; try (rewrite Hh in *; discriminate).
    rewrite Hh. cbn [pyeval]. destruct (e_fun E (mapped_func (func_key n))) as [g|]; [|reflexivity].
    apply Args.
Qed.

Theorem eval_correct E e : arith e -> lit_ok e ->
  forall c, pyeval E (pyabs (emit c e)) = xleval E e.
Proof.
  intros A L c. destruct (emit_correct e A c) as [_ B]. rewrite B. apply eval_translate; assumption.
Qed.

(* text -> value: the token string of a well-formed concrete tree, parsed,
   emitted, compiled and run, is the Excel meaning of the tree *)
Theorem eval_text E c : WF c -> arith (abs c) -> lit_ok (abs c) ->
  exists e, parse (flat c) = Some e /\ py_value E e = xl_value E (abs c).
Proof.
  intros W A L. exists (abs c). split; [apply parse_correct, W|].
  unfold py_value, xl_value. rewrite (eval_correct E (abs c) A L CtxTop). reflexivity.
Qed.

(* ------------------------------------------------------------ the executable fragment test *)
Lemma evalb_sound e : evalb e = true -> arith e /\ lit_ok e.
Proof.
  induction e as [k v|e IH|e IH|o l r IHl IHr|n args IH] using expr_ind'; cbn [evalb]; intros H.
  - apply andb_prop in H. destruct H as [H1 H2]. split; [|exact H1].
    destruct k; try exact I. exact H2.
  - apply IH, H.
  - apply IH, H.
  - apply andb_prop in H. destruct H as [H H3]. apply andb_prop in H. destruct H as [H1 H2].
    destruct (IHl H2) as [Al Ll]. destruct (IHr H3) as [Ar Lr]. cbn [arith lit_ok].
    destruct (pyop_of o) as [p|]; [|discriminate]. repeat split; eauto.
  - apply andb_prop in H. destruct H as [H H3]. apply andb_prop in H. destruct H as [H1 H2].
    assert (F: Forall (fun a => arith a /\ lit_ok a) args).
    { rewrite forallb_forall in H3. rewrite Forall_forall in *. intros a Ia. apply IH; auto. }
    split.
    + apply arith_func. split.
      * repeat (apply orb_prop in H1; destruct H1 as [H1|H1]).
        -- left. apply negb_true_iff in H1. exact H1.
        -- right. left. apply str_eqb_true, H1.
        -- right. right. left. apply str_eqb_true, H1.
        -- right. right. right. apply str_eqb_true, H1.
      * rewrite Forall_forall in *. intros a Ia. apply F, Ia.
    + apply lit_ok_func. split.
      * apply negb_true_iff in H2. exact H2.
      * rewrite Forall_forall in *. intros a Ia. apply F, Ia.
Qed.

(* ------------------------------------------------------------ examples (non-vacuity) *)
(* an environment: A1 = 3, SUM adds integers (None counts 0) *)
Definition ex_sum (vs : list pyval) : res pyval :=
  Ok (VInt (fold_right (fun v acc => match v with VInt z => z + acc | _ => acc end) 0 vs)).
Definition ex_env : env :=
  {| e_fun := fun f => if str_eqb f (zs "_C_") then Some (fun _ => Ok (VInt 3))
                       else if str_eqb f (zs "sum_") then Some ex_sum else None;
     e_name := fun _ => None |}.

(* =-2^2 : Excel (-2)^2 = 4; the code is (-2) ** 2 *)
Definition ex_negpow : expr := EBin OPow (EPre (EOperand KNumber [50])) (EOperand KNumber [50]).
Example ex_negpow_ok : evalb ex_negpow = true /\ xl_value ex_env ex_negpow = Ok (VInt 4)
  /\ py_value ex_env ex_negpow = Ok (VInt 4).
Proof. vm_compute. repeat split. Qed.

(* =SUM(1,,A1)% + 2.5E-1 & "a""b" : a call with an omitted argument, postfix %,
   a decimal with exponent, & below +, a text with a doubled quote *)
Definition ex_mixed_cst : cst :=
  CBin OCat
    (CBin OAdd (CPct (CCall (zs "SUM(") [CAtom KNumber [49]; CEmpty; CAtom KRange [65; 49]]))
               (CAtom KNumber [50; 46; 53; 69; 45; 49]))
    (CAtom KText [34; 97; 34; 34; 98; 34]).
Example ex_mixed_wf : WF ex_mixed_cst.
Proof. cbn. repeat split; try discriminate; try lia. Qed.
Example ex_mixed_ok : evalb (abs ex_mixed_cst) = true
  /\ xl_value ex_env (abs ex_mixed_cst) = Ok (VStr [48; 46; 50; 57; 97; 34; 98])     (* 0.29a, a quote, b *)
  /\ code (abs ex_mixed_cst)
     = zs "((sum_(1, None, _C_(""A1"")) / 100) + 2.5E-1) & ""a\""b""".
Proof. vm_compute. repeat split. Qed.
