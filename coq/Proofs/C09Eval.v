(* Proofs/C09Eval.v — C09, part 1: the from-scratch outcome [fspec] (value or
   failure) and [eval_f].  On a sound cache (every cached formula value is the
   value of a from-scratch evaluation that SUCCEEDS) [eval_f] with fuel > n
   returns exactly [fspec c n] — the value, or the failure with its class —,
   touches only n and its ancestors, fills an entry only with the value of a
   successful from-scratch evaluation, and stores nothing when it fails.
   [sem] is ANY total completion of the partial formula semantics. *)
From Coq Require Import List Arith Bool Lia.
From PV Require Import Lib.Py Model.Graph Model.Fail.
From PV Require Import Proofs.C01Base Proofs.C01Eval.
Import ListNotations.

Lemma firstn_incl {A} : forall k (l : list A) x, In x (firstn k l) -> In x l.
Proof.
  induction k as [|k IH]; intros [|y l] x H; cbn in H; try contradiction.
  destruct H as [->|H]; [left; auto|right; auto].
Qed.

Lemma seq_res_map_ext {A} (g h : A -> fres) l :
  (forall x, In x l -> g x = h x) -> seq_res (map g l) = seq_res (map h l).
Proof. intros E. f_equal. now apply map_ext_in. Qed.

Section FEval.
  Variable W : workbook.
  Variable fsem : nat -> list pyval -> option pyval.
  Variable fpre : nat -> option nat.
  Variable sem : nat -> list pyval -> pyval.

  Notation N := (wb_n W).
  Notation deps := (wb_deps W).
  Notation isinput := (wb_input W).
  Notation reads := (reads W fpre).
  Notation compute := (compute fsem fpre).
  Notation wrap := (wrap W).
  Notation fspec := (fspec W fsem fpre).
  Notation fspec_fuel := (fspec_fuel W fsem fpre).
  Notation eval_f := (eval_f W fsem fpre).
  Notation spec := (spec W sem).
  Notation anc := (anc W).

  (* [sem] agrees with the partial semantics wherever that one returns *)
  Definition completes : Prop :=
    forall n vals v, fpre n = None -> fsem n vals = Some v -> sem n vals = v.

  Hypothesis WF : wf W.
  Hypothesis NB : sem_nonblank W sem.
  Hypothesis CP : completes.

  Lemma reads_deps n d : In d (reads n) -> In d (deps n).
  Proof. unfold Fail.reads. destruct (fpre n); auto. apply firstn_incl. Qed.

  Lemma compute_val n vals v : compute n vals = FVal v ->
    fpre n = None /\ fsem n vals = Some v /\ sem n vals = v.
  Proof.
    unfold Fail.compute. destruct (fpre n) eqn:P; [discriminate|].
    destruct (fsem n vals) eqn:F; [|discriminate]. intros H. inversion H; subst. auto.
  Qed.

  (* ------------------------------------------------------------- fspec *)
  Lemma fspec_fuel_eq inp : forall n f1 f2, n < N -> n < f1 -> n < f2 ->
    fspec_fuel f1 inp n = fspec_fuel f2 inp n.
  Proof.
    induction n as [n IH] using lt_wf_ind. intros [|f1] [|f2] LN L1 L2; try lia.
    cbn [Fail.fspec_fuel]. destruct (isinput n); auto.
    rewrite (seq_res_map_ext (fspec_fuel f1 inp) (fspec_fuel f2 inp)); auto.
    intros d Hd. pose proof (deps_lt W WF _ _ LN (reads_deps _ _ Hd)). apply IH; lia.
  Qed.
  Lemma fspec_unfold inp n : n < N ->
    fspec inp n = if isinput n then FVal (inp n)
                  else match seq_res (map (fspec inp) (reads n)) with
                       | inr e => FRaise (wrap n e)
                       | inl vals => compute n vals
                       end.
  Proof.
    intros L. unfold Fail.fspec at 1. cbn [Fail.fspec_fuel]. destruct (isinput n); auto.
    rewrite (seq_res_map_ext (fspec_fuel n inp) (fspec inp)); auto.
    intros d Hd. pose proof (deps_lt W WF _ _ L (reads_deps _ _ Hd)).
    unfold Fail.fspec. apply fspec_fuel_eq; lia.
  Qed.

  (* fspec reads the inputs only at the node itself and at its ancestors *)
  Lemma fspec_agree inp inp' : forall n, n < N ->
    (forall m, isinput m = true -> m = n \/ anc m n -> inp m = inp' m) ->
    fspec inp n = fspec inp' n.
  Proof.
    induction n as [n IH] using lt_wf_ind. intros L E.
    rewrite !fspec_unfold by auto. destruct (isinput n) eqn:I.
    - f_equal. apply E; auto.
    - rewrite (seq_res_map_ext (fspec inp) (fspec inp')); auto.
      intros d Hd. apply reads_deps in Hd. pose proof (deps_lt W WF _ _ L Hd).
      apply IH; [auto|lia|]. intros m Im [->|A]; apply E; auto.
      + right. now constructor.
      + right. eapply anc_trans; eauto.
  Qed.
  Lemma fspec_ext inp inp' n : n < N ->
    (forall m, isinput m = true -> inp m = inp' m) -> fspec inp n = fspec inp' n.
  Proof. intros L E. apply fspec_agree; auto. Qed.

  Lemma seq_res_vals (g : nat -> fres) (h : nat -> pyval) : forall l vals,
    (forall d v, In d l -> g d = FVal v -> h d = v) ->
    seq_res (map g l) = inl vals -> vals = map h l /\ forall d, In d l -> g d = FVal (h d).
  Proof.
    induction l as [|d l IH]; intros vals H S; cbn in S.
    - inversion S. split; auto. intros ? [].
    - destruct (g d) as [v|e] eqn:G; [|discriminate].
      destruct (seq_res (map g l)) as [vs|e] eqn:S'; [|discriminate]. inversion S; subst.
      destruct (IH vs ltac:(intros; eapply H; eauto; right; auto) eq_refl) as [A B].
      pose proof (H d v ltac:(left; auto) G) as Hd. subst. split; [reflexivity|].
      intros x [->|Hx]; auto.
  Qed.

  (* a from-scratch evaluation that succeeds computes the from-scratch value of
     EVERY completion, and every cell it reads succeeds *)
  Lemma fspec_val : forall n inp v, n < N -> fspec inp n = FVal v ->
    spec inp n = v /\
    (isinput n = false -> fpre n = None /\ forall d, In d (deps n) -> fspec inp d = FVal (spec inp d)).
  Proof.
    induction n as [n IH] using lt_wf_ind. intros inp v L.
    rewrite fspec_unfold, (spec_unfold W sem WF) by auto. destruct (isinput n) eqn:I.
    - intros H. inversion H. split; auto. discriminate.
    - destruct (seq_res (map (fspec inp) (reads n))) as [vals|e] eqn:S; [|discriminate].
      intros C. destruct (compute_val n vals v C) as (P & F & Sv).
      assert (R: reads n = deps n) by (unfold Fail.reads; now rewrite P). rewrite R in S.
      destruct (seq_res_vals (fspec inp) (spec inp) (deps n) vals) as [A B]; auto.
      { intros d v' Hd G. pose proof (deps_lt W WF _ _ L Hd). apply (IH d ltac:(lia) inp v'); auto. lia. }
      subst vals. split; auto.
  Qed.

  Lemma fspec_val_anc inp : forall n k, n < N -> anc k n ->
    is_raise (fspec inp n) = false -> is_raise (fspec inp k) = false.
  Proof.
    intros n k L A. induction A as [a n H|a b n A IH H]; intros R.
    - destruct (fspec inp n) as [v|e] eqn:F; [|discriminate].
      destruct (fspec_val n inp v L F) as [_ D].
      destruct (D (dep_noninput W WF _ _ L H)) as [_ D']. now rewrite (D' a H).
    - pose proof (deps_ltN W WF _ _ L H) as Lb. apply IH; auto.
      destruct (fspec inp n) as [v|e] eqn:F; [|discriminate].
      destruct (fspec_val n inp v L F) as [_ D].
      destruct (D (dep_noninput W WF _ _ L H)) as [_ D']. now rewrite (D' b H).
  Qed.

  (* ------------------------------------------------------- sound caches *)
  Definition FSound (c : cache) :=
    forall m, m < N -> isinput m = false -> c m <> VNone -> fspec c m = FVal (c m).

  Lemma FSound_coherent c : FSound c -> Coherent W sem c.
  Proof. intros S m L I H. symmetry. now apply (fspec_val m c (c m) L (S m L I H)). Qed.

  (* c' extends c inside R by values of successful from-scratch evaluations *)
  Definition fext (R : nat -> Prop) (c c' : cache) := forall m,
    c' m = c m \/
    (R m /\ m < N /\ isinput m = false /\ c m = VNone /\ fspec c m = FVal (c' m) /\ c' m <> VNone
     /\ forall p, In p (deps m) -> isinput p = false -> c' p <> VNone).

  Lemma fext_ext R c c' : fext R c c' -> ext W sem R c c'.
  Proof.
    intros E m. destruct (E m) as [H|(A1&A2&A3&A4&A5&A6&A7)]; auto.
    right. repeat split; auto. symmetry. now apply (fspec_val m c (c' m) A2 A5).
  Qed.
  Lemma fext_refl R c : fext R c c. Proof. intros m; auto. Qed.
  Lemma fext_inputs R c c' : fext R c c' -> forall k, isinput k = true -> c' k = c k.
  Proof. intros E k I. destruct (E k) as [H|(_&_&I'&_)]; auto. congruence. Qed.
  Lemma fext_some R c c' m : fext R c c' -> c m <> VNone -> c' m = c m.
  Proof. intros E H. destruct (E m) as [H'|(_&_&_&H'&_)]; auto. congruence. Qed.
  Lemma fext_none R c c' m : fext R c c' -> c' m = VNone -> c m = VNone.
  Proof. intros E H. destruct (E m) as [H'|(_&_&_&_&_&H'&_)]; congruence. Qed.
  Lemma fext_weaken (R R' : nat -> Prop) c c' :
    (forall m, R m -> R' m) -> fext R c c' -> fext R' c c'.
  Proof. intros H E m. destruct (E m) as [H'|(A&B)]; auto. Qed.
  Lemma fext_fspec R c c' n : fext R c c' -> n < N -> fspec c' n = fspec c n.
  Proof. intros E L. apply fspec_ext; auto. intros; eapply fext_inputs; eauto. Qed.
  Lemma fext_trans R c0 c1 c2 : fext R c0 c1 -> fext R c1 c2 -> fext R c0 c2.
  Proof.
    intros E1 E2 m. destruct (E2 m) as [H2|(R2&L2&I2&N2&S2&NN2&F2)].
    - destruct (E1 m) as [H1|(R1&L1&I1&N1&S1&NN1&F1)]; [left; congruence|].
      right. repeat split; auto; try congruence.
      intros p Hp Ip. rewrite (fext_some R c1 c2 p E2); auto.
    - right. assert (c0 m = VNone) by (eapply fext_none; eauto).
      repeat split; auto. rewrite <- S2. symmetry. eapply fext_fspec; eauto.
  Qed.
  Lemma fext_sound R c c' : FSound c -> fext R c c' -> FSound c'.
  Proof.
    intros K E m L I H. rewrite (fext_fspec R c c' m E L).
    destruct (E m) as [H'|(_&_&_&_&H'&_)]; auto. rewrite H' in *. auto.
  Qed.

  (* ------------------------------------------------------------ eval_f *)
  Lemma eval_f_unfold f c n : eval_f (S f) c n =
    if isinput n then (c, FVal (c n))
    else if is_none (c n) then
      let '(c', r) := fold_left (fstep (eval_f f)) (reads n) (c, inl []) in
      match r with
      | inr e => (c', FRaise (wrap n e))
      | inl vals => match compute n vals with
                    | FVal v => (upd c' n v, FVal v)
                    | FRaise e => (c', FRaise e)
                    end
      end
    else (c, FVal (c n)).
  Proof. reflexivity. Qed.

  Lemma fstep_stuck ev l c e : fold_left (fstep ev) l (c, inr e) = (c, inr e).
  Proof. induction l; cbn; auto. Qed.

  Definition eval_f_ok (f : nat) := forall n c, n < f -> n < N -> FSound c ->
    fext (anceq W n) c (fst (eval_f f c n)) /\ snd (eval_f f c n) = fspec c n /\
    (is_raise (fspec c n) = false -> isinput n = false -> fst (eval_f f c n) n <> VNone).

  Lemma ffold f n : eval_f_ok f -> n < N ->
    forall l, (forall d, In d l -> In d (deps n)) -> (forall d, In d l -> d < f) ->
    forall c1 vs, FSound c1 ->
      let r := fold_left (fstep (eval_f f)) l (c1, inl vs) in
      fext (anceq W n) c1 (fst r) /\
      match seq_res (map (fspec c1) l) with
      | inl ws => snd r = inl (vs ++ ws) /\
                  forall d, In d l -> isinput d = false -> fst r d <> VNone
      | inr e => snd r = inr e
      end.
  Proof.
    intros IH L. induction l as [|d l IHl]; intros Sub Fu c1 vs K; cbn [fold_left].
    - cbn. rewrite app_nil_r. split; [apply fext_refl|split; [auto|intros ? []]].
    - cbn [fstep map seq_res]. destruct (eval_f f c1 d) as [c2 r] eqn:Ev.
      assert (Dn: In d (deps n)) by (apply Sub; left; auto).
      assert (Ld: d < N) by (eapply deps_ltN; eauto).
      destruct (IH d c1 ltac:(apply Fu; left; auto) Ld K) as (E1 & V1 & F1).
      rewrite Ev in E1, V1, F1. cbn [fst snd] in E1, V1, F1. rewrite <- V1.
      assert (E1': fext (anceq W n) c1 c2).
      { eapply fext_weaken; [|exact E1]. intros m [->|A]; right.
        - now constructor.
        - eapply anc_trans; eauto. }
      destruct r as [v|e].
      2:{ rewrite fstep_stuck. cbn [fst snd]. auto. }
      assert (K2: FSound c2) by (eapply fext_sound; eauto).
      destruct (IHl ltac:(intros; apply Sub; right; auto) ltac:(intros; apply Fu; right; auto)
                    c2 (vs ++ [v]) K2) as (E2 & V2).
      cbn zeta in *.
      rewrite (seq_res_map_ext (fspec c2) (fspec c1)) in V2.
      2:{ intros x Hx. eapply fext_fspec; eauto. apply (deps_ltN W WF n x L). apply Sub. right; auto. }
      split; [eapply fext_trans; eauto|].
      destruct (seq_res (map (fspec c1) l)) as [ws|e]; auto.
      destruct V2 as [V2 F2]. split.
      + rewrite V2, <- app_assoc. reflexivity.
      + intros x [->|Hx] Ix; [|apply F2; auto].
        assert (Hx: c2 x <> VNone) by (apply F1; auto; now rewrite <- V1).
        rewrite (fext_some _ c2 _ x E2 Hx). exact Hx.
  Qed.

  Lemma eval_f_spec : forall f, eval_f_ok f.
  Proof.
    induction f as [|f IH]; intros n c Lf L K; [lia|]. rewrite eval_f_unfold.
    pose proof (fspec_unfold c n L) as FU.
    destruct (isinput n) eqn:I.
    { cbn [fst snd]. split; [apply fext_refl|]. split; [auto|discriminate]. }
    destruct (is_none (c n)) eqn:E.
    2:{ apply is_none_false in E. cbn [fst snd]. split; [apply fext_refl|].
        split; [symmetry; apply K; auto|auto]. }
    apply is_none_true in E.
    destruct (ffold f n IH L (reads n) (reads_deps n)
                    ltac:(intros d Hd; pose proof (deps_lt W WF _ _ L (reads_deps _ _ Hd)); lia) c [] K)
      as (E1 & V1).
    cbn zeta in E1, V1.
    destruct (fold_left (fstep (eval_f f)) (reads n) (c, inl [])) as [c' r]. cbn [fst snd] in *.
    destruct (seq_res (map (fspec c) (reads n))) as [ws|e] eqn:S.
    2:{ subst r. cbn [fst snd]. rewrite FU. split; [auto|]. split; [auto|discriminate]. }
    destruct V1 as [V1 F1]. cbn [app] in V1. subst r.
    destruct (compute n ws) as [v|e] eqn:C.
    2:{ cbn [fst snd]. rewrite FU. split; [auto|]. split; [auto|discriminate]. }
    destruct (compute_val n ws v C) as (P & Fs & Sv).
    assert (R: reads n = deps n) by (unfold Fail.reads; now rewrite P).
    assert (NNv: v <> VNone) by (rewrite <- Sv; apply NB; auto).
    cbn [fst snd]. split; [|split; [auto|intros _ _; rewrite upd_same; auto]].
    intros m. destruct (Nat.eq_dec m n) as [->|NE].
    - right. rewrite upd_same. repeat split; auto; [left; auto|].
      intros p Hp Ip. pose proof (deps_lt W WF _ _ L Hp). rewrite upd_other by lia.
      apply F1; auto. now rewrite R.
    - rewrite upd_other by auto. destruct (E1 m) as [H|(A1&A2&A3&A4&A5&A6&A7)]; auto.
      right. repeat split; auto. intros p Hp Ip.
      destruct (Nat.eq_dec p n) as [->|NP]; [rewrite upd_same; auto|rewrite upd_other; auto].
  Qed.

  Lemma eval_f_top c n : n < N -> FSound c ->
    fext (anceq W n) c (fst (eval_f (S N) c n)) /\ snd (eval_f (S N) c n) = fspec c n /\
    (is_raise (fspec c n) = false -> isinput n = false -> fst (eval_f (S N) c n) n <> VNone).
  Proof. intros L K. apply eval_f_spec; auto. Qed.

  (* a failed evaluation stores nothing at the node it was asked for *)
  Lemma eval_f_fail_unchanged c n : n < N -> FSound c ->
    is_raise (fspec c n) = true -> fst (eval_f (S N) c n) n = c n.
  Proof.
    intros L K R. destruct (eval_f_top c n L K) as (E & _ & _).
    destruct (E n) as [H|(_&_&_&_&H&_)]; auto. rewrite H in R. discriminate.
  Qed.
End FEval.
