(* Proofs/C09Weak.v — C09 under the weak non-blank condition of
   Proofs/C01Weak.v, part 2: the theorems of Proofs/C09.v and C09Repair.v with
   [sem_nonblank_weak] in the place of [sem_nonblank], by transfer
   (Proofs/C09WeakTransfer.v): the machine with failures, the from-scratch
   outcome, [FInv], [fext] and [fails_at] coincide for (fsem, sem) and for the
   guarded pair (guard_f W fsem, guard W sem), which meets the strong
   hypotheses.  For the repair theorems the from-scratch outcome is taken in
   the repaired workbook as_input W f0 v0, in which the repaired cell is an
   input holding the non-blank v0. *)
From Coq Require Import List Arith Bool Lia.
From PV Require Import Lib.Py Model.Graph Model.Fail.
From PV Require Import Proofs.C01Base Proofs.C01Reset Proofs.C01Eval Proofs.C01Inv Proofs.C01
                       Proofs.C01Weak Proofs.C08WeakCut
                       Proofs.C09Eval Proofs.C09Inv Proofs.C09 Proofs.C09Repair Proofs.C09WeakTransfer.
Import ListNotations.

Section C09Weak.
  Variable W : workbook.
  Variable fsem : nat -> list pyval -> option pyval.
  Variable fpre : nat -> option nat.
  Variable rorder : (nat -> bool) -> nat -> list nat.
  Variable sem : nat -> list pyval -> pyval.
  Hypothesis WF : wf W.
  Hypothesis NBW : sem_nonblank_weak W sem.
  Hypothesis CP : completes fsem fpre sem.
  Hypothesis NS : forall n, wb_stored W n = VNone.

  Notation N := (wb_n W).
  Notation g := (guard W sem).
  Notation gf := (guard_f W fsem).
  Notation FInvS := (FInv W fsem fpre sem).
  Notation FInvG := (FInv W gf fpre g).

  Let NB2 : sem_nonblank W g := guard_nonblank W sem NBW.
  Let CPg : completes gf fpre g := guard_f_completes W fsem fpre sem CP.

  Lemma to_g s : FInvS s -> FInvG s.
  Proof. apply (FInv_guard W fsem fpre sem WF NBW CP). Qed.
  Lemma of_g s : FInvG s -> FInvS s.
  Proof. apply (FInv_guard W fsem fpre sem WF NBW CP). Qed.
  Lemma blt s : FInvS s -> built_lt W s.
  Proof. intros I. apply (FInv_built_lt W fsem fpre sem). now apply to_g. Qed.

  Lemma eval_g s n : FInvS s -> n < N ->
    evaluate_f W fsem fpre rorder s n = evaluate_f W gf fpre rorder s n.
  Proof.
    intros I L. apply (evaluate_f_guard W fsem fpre rorder sem WF NBW CP s n L). now apply blt.
  Qed.

  (* ------------------------------------------------------ C09_inv_preserved *)
  Theorem inv_preserved_weak :
    FInvS (init W) /\
    forall s o, FInvS s -> fok_op W s o -> FInvS (fst (step_f W fsem fpre rorder s o)).
  Proof.
    destruct (inv_preserved W gf fpre rorder g WF NB2 CPg NS) as [I0 IS]. split.
    - now apply of_g.
    - intros s o I OK.
      rewrite (step_f_guard W fsem fpre rorder sem WF NBW CP s o (fok_lt W s o OK) (blt s I)).
      apply of_g. apply IS; auto. now apply to_g.
  Qed.

  (* --------------------------------------------------- C09_evaluate_outcome *)
  Theorem evaluate_f_inv_weak s n : FInvS s -> n < N ->
    let r := evaluate_f W fsem fpre rorder s n in
    FInvS (fst r)
    /\ fval (snd r) = fval (fspec W fsem fpre (st_cache s) n)
    /\ fext W fsem fpre (anceq W n) (st_cache s) (st_cache (fst r))
    /\ (forall m, st_built s m = true -> st_built (fst r) m = true).
  Proof.
    intros I L. cbv zeta. rewrite (eval_g s n I L).
    destruct (evaluate_f_inv W gf fpre rorder g WF NB2 CPg NS s n (to_g s I) L) as (A & B & C & D).
    split; [now apply of_g|]. split; [|split; auto].
    - rewrite B. now rewrite <- (fspec_guard W fsem fpre sem WF NBW CP).
    - now apply (fext_guard W fsem fpre sem WF NBW CP).
  Qed.

  (* ---------------------------------------------------- C09_failed_evaluate *)
  Theorem failed_evaluate_weak s n : FInvS s -> n < N ->
    is_raise (snd (evaluate_f W fsem fpre rorder s n)) = true ->
    let s' := fst (evaluate_f W fsem fpre rorder s n) in
    FInvS s' /\ fext W fsem fpre (anceq W n) (st_cache s) (st_cache s') /\
    wb_input W n = false /\ st_cache s' n = VNone /\
    is_raise (fspec W fsem fpre (st_cache s) n) = true.
  Proof.
    intros I L. cbv zeta. rewrite (eval_g s n I L). intros R.
    destruct (failed_evaluate W gf fpre rorder g WF NB2 CPg NS s n (to_g s I) L R) as (A & B & C & D & E).
    split; [now apply of_g|]. split; [now apply (fext_guard W fsem fpre sem WF NBW CP)|].
    split; auto. split; auto. now rewrite (fspec_guard W fsem fpre sem WF NBW CP).
  Qed.

  (* ---- runs *)
  Lemma run_g h s : FInvS s -> fok_history W fsem fpre rorder s h ->
    run_f W fsem fpre rorder s h = run_f W gf fpre rorder s h
    /\ fok_history W gf fpre rorder s h.
  Proof.
    intros I OK.
    destruct (fok_history_guard W fsem fpre rorder sem WF NBW CP h s (blt s I) OK) as [A B].
    split; auto. apply (run_f_guard W fsem fpre rorder sem WF NBW CP); auto. now apply blt.
  Qed.

  Lemma run_inv h s : FInvS s -> fok_history W fsem fpre rorder s h ->
    FInvS (fst (run_f W fsem fpre rorder s h)).
  Proof.
    intros I OK. destruct (run_g h s I OK) as [E OK2]. rewrite E. apply of_g.
    apply (run_f_inv W gf fpre rorder g WF NB2 CPg NS); auto. now apply to_g.
  Qed.

  Lemma anceq_lt n k : n < N -> k = n \/ anc W k n -> k < N.
  Proof. intros L [->|A]; auto. pose proof (anc_lt W WF k n L A). lia. Qed.

  (* -------------------------------------------------------- C09_unrelated *)
  Theorem unrelated_weak : forall h n, fok_history W fsem fpre rorder (init W) h -> n < N ->
    let s := fst (run_f W fsem fpre rorder (init W) h) in
    (forall k, k = n \/ anc W k n -> ~ fails_at W fsem fpre sem (st_cache s) k) ->
    snd (evaluate_f W fsem fpre rorder s n) = FVal (spec W sem (st_cache s) n).
  Proof.
    intros h n OK L. cbv zeta.
    destruct inv_preserved_weak as [I0 _].
    pose proof (run_inv h (init W) I0 OK) as I1.
    rewrite (eval_g _ n I1 L). destruct (run_g h (init W) I0 OK) as [E OK2]. rewrite E in *.
    intros NF. rewrite (spec_guard W sem WF NBW _ n L).
    apply (unrelated W gf fpre rorder g WF NB2 CPg NS h n OK2 L).
    intros k Hk F. apply (NF k Hk).
    apply (fails_at_guard W fsem fpre sem WF NBW _ k (anceq_lt n k L Hk)). exact F.
  Qed.

  (* ---------------------------------------------- C09_retry_deterministic *)
  Theorem retry_state_weak s n : FInvS s -> n < N ->
    is_raise (snd (evaluate_f W fsem fpre rorder s n)) = true ->
    forall s2, FInvS s2 ->
      (forall k, wb_input W k = true -> anc W k n -> st_cache s2 k = st_cache s k) ->
      forall d, d < N -> d = n \/ anc W n d ->
        is_raise (snd (evaluate_f W fsem fpre rorder s2 d)) = true /\
        st_cache (fst (evaluate_f W fsem fpre rorder s2 d)) d = VNone.
  Proof.
    intros I L R s2 I2 Ag d Ld Hd. rewrite (eval_g s n I L) in R. rewrite (eval_g s2 d I2 Ld).
    apply (retry_state W gf fpre rorder g WF NB2 CPg NS s n (to_g s I) L R s2 (to_g s2 I2) Ag d Ld Hd).
  Qed.

  (* ------------------------------------------------------------- C09_retry *)
  Theorem retry_weak : forall s n h, FInvS s -> n < N ->
    is_raise (snd (evaluate_f W fsem fpre rorder s n)) = true ->
    let s1 := fst (evaluate_f W fsem fpre rorder s n) in
    fok_history W fsem fpre rorder s1 h -> writes_avoid (fun a => anc W a n) h ->
    forall d, d < N -> d = n \/ anc W n d ->
      is_raise (snd (evaluate_f W fsem fpre rorder (fst (run_f W fsem fpre rorder s1 h)) d)) = true /\
      st_cache (fst (evaluate_f W fsem fpre rorder (fst (run_f W fsem fpre rorder s1 h)) d)) d = VNone.
  Proof.
    intros s n h I L R. cbv zeta.
    destruct (evaluate_f_inv_weak s n I L) as (I1 & _).
    intros OK WA d Ld Hd.
    pose proof (run_inv h _ I1 OK) as I2. rewrite (eval_g _ d I2 Ld).
    destruct (run_g h _ I1 OK) as [E OK2]. rewrite E.
    revert OK2. rewrite (eval_g s n I L) in R |- *. intros OK2.
    apply (retry W gf fpre rorder g WF NB2 CPg NS s n h (to_g s I) L R OK2 WA d Ld Hd).
  Qed.

  (* ------------------------------------------------------------ C09_repair *)
  Variable f0 : nat.
  Variable v0 : pyval.
  Hypothesis L0 : f0 < N.
  Hypothesis I0 : wb_input W f0 = false.
  Hypothesis NN : v0 <> VNone.

  Notation W' := (as_input W f0 v0).

  (* the repaired workbook: the repaired cell is an input holding a non-blank value *)
  Lemma CI' (c : cache) : c f0 = v0 -> CI W' (wb_input W) c.
  Proof.
    intros E d L Iv Iw. cbn [as_input wb_input] in Iv. destruct (Nat.eqb_spec d f0) as [->|NE].
    - now rewrite E.
    - congruence.
  Qed.

  Lemma agree' n vals : n < wb_n W' -> wb_input W' n = false ->
    okb (wb_input W) (wb_deps W' n) vals = true -> args_ok W n vals.
  Proof.
    intros L I OK. destruct (input'_false W f0 v0 n I) as [NE Iw].
    rewrite (deps'_other W f0 v0 n NE) in OK. exact OK.
  Qed.

  Lemma fspec_g' (c : cache) n : c f0 = v0 -> n < N ->
    fspec W' fsem fpre c n = fspec W' gf fpre c n.
  Proof.
    intros E L.
    apply (fspec_transfer W' (wb_input W) fsem gf fpre (wf' W f0 v0 WF)); auto.
    - intros k vals v Lk Ik. destruct (input'_false W f0 v0 k Ik) as [_ Iw].
      now apply (guard_f_nb W fsem fpre sem NBW CP).
    - intros k vals Lk Ik OK. apply (guard_f_agree W fsem). now apply agree'.
    - now apply CI'.
  Qed.

  Lemma spec_g' (c : cache) n : c f0 = v0 -> n < N -> spec W' sem c n = spec W' g c n.
  Proof.
    intros E L.
    apply (C08WeakCut.spec_transfer W' (wb_input W) (wf' W f0 v0 WF) sem g (nb' W g f0 v0 NB2)); auto.
    - intros k vals Lk Ik OK. apply (guard_agree W sem). now apply agree'.
    - now apply CI'.
  Qed.

  Lemma fails_g' (c : cache) k : c f0 = v0 -> k < N ->
    fails_at W' gf fpre g c k -> fails_at W' fsem fpre sem c k.
  Proof.
    intros E L [I H]. split; auto.
    assert (Em: map (spec W' sem c) (reads W' fpre k) = map (spec W' g c) (reads W' fpre k)).
    { apply map_ext_in. intros d Hd. apply spec_g'; auto.
      apply (deps_ltN W' (wf' W f0 v0 WF) k d L). eapply reads_deps; eauto. }
    rewrite Em. revert H. unfold compute. destruct (fpre k) eqn:P; auto.
    unfold reads. rewrite P.
    rewrite (guard_f_agree W fsem k (map (spec W' g c) (wb_deps W' k))); auto.
    apply agree'; auto.
    apply (C08WeakCut.args_spec W' (wb_input W) (wf' W f0 v0 WF) g (nb' W g f0 v0 NB2) c (CI' c E)).
    intros d Hd. apply (deps_ltN W' (wf' W f0 v0 WF) k d L Hd).
  Qed.

  Lemma set_value_built_lt s a v : built_lt W s -> built_lt W (set_value W s a v).
  Proof.
    intros BL. rewrite set_value_unfold. destruct (negb (st_built s a)); auto.
    destruct (py_eq (st_cache s a) v && same_type (st_cache s a) v); auto.
  Qed.

  Theorem repair_weak : forall s h d, FInvS s -> st_built s f0 = true ->
    is_raise (fspec W fsem fpre (st_cache s) f0) = true ->
    let s1 := set_value W s f0 v0 in
    rok_history W fsem fpre rorder f0 s1 h -> d < N ->
    let s2 := fst (run_f W fsem fpre rorder s1 h) in
    st_cache s2 f0 = v0 /\
    fval (snd (evaluate_f W fsem fpre rorder s2 d)) = fval (fspec W' fsem fpre (st_cache s2) d).
  Proof.
    intros s h d I B0 R0. cbv zeta. intros OK Ld.
    pose proof (set_value_built_lt s f0 v0 (blt s I)) as BL1.
    destruct (rok_history_guard W fsem fpre rorder sem WF NBW CP f0 h _ BL1 OK) as [OK2 Fh].
    rewrite (run_f_guard W fsem fpre rorder sem WF NBW CP h _ Fh BL1).
    rewrite (fspec_guard W fsem fpre sem WF NBW CP _ f0 L0) in R0.
    destruct (repair W gf fpre rorder g f0 v0 WF NB2 CPg NS L0 I0 NN s h d (to_g s I) B0 R0 OK2 Ld)
      as [K V].
    split; [exact K|].
    assert (BL2: built_lt W (fst (run_f W gf fpre rorder (set_value W s f0 v0) h))).
    { clear - Fh BL1 WF. revert BL1. generalize (set_value W s f0 v0). induction h as [|o h IH];
        intros s1 BL; [exact BL|].
      inversion Fh as [|? ? Fo Fh']; subst. rewrite run_f_cons. cbn [fst]. apply IH; auto.
      now apply step_f_built_lt. }
    rewrite (evaluate_f_guard W fsem fpre rorder sem WF NBW CP _ d Ld BL2).
    rewrite V. now rewrite <- (fspec_g' _ d K Ld).
  Qed.

  Theorem repair_value_weak : forall s h d, FInvS s -> st_built s f0 = true ->
    is_raise (fspec W fsem fpre (st_cache s) f0) = true ->
    let s1 := set_value W s f0 v0 in
    rok_history W fsem fpre rorder f0 s1 h -> d < N ->
    let s2 := fst (run_f W fsem fpre rorder s1 h) in
    (forall k, k = d \/ anc W' k d -> ~ fails_at W' fsem fpre sem (st_cache s2) k) ->
    snd (evaluate_f W fsem fpre rorder s2 d) = FVal (spec W' sem (st_cache s2) d).
  Proof.
    intros s h d I B0 R0. cbv zeta. intros OK Ld.
    pose proof (set_value_built_lt s f0 v0 (blt s I)) as BL1.
    destruct (rok_history_guard W fsem fpre rorder sem WF NBW CP f0 h _ BL1 OK) as [OK2 Fh].
    rewrite (run_f_guard W fsem fpre rorder sem WF NBW CP h _ Fh BL1).
    rewrite (fspec_guard W fsem fpre sem WF NBW CP _ f0 L0) in R0.
    destruct (repair W gf fpre rorder g f0 v0 WF NB2 CPg NS L0 I0 NN s h d (to_g s I) B0 R0 OK2 Ld)
      as [K _].
    assert (BL2: built_lt W (fst (run_f W gf fpre rorder (set_value W s f0 v0) h))).
    { clear - Fh BL1 WF. revert BL1. generalize (set_value W s f0 v0). induction h as [|o h IH];
        intros s1 BL; [exact BL|].
      inversion Fh as [|? ? Fo Fh']; subst. rewrite run_f_cons. cbn [fst]. apply IH; auto.
      now apply step_f_built_lt. }
    rewrite (evaluate_f_guard W fsem fpre rorder sem WF NBW CP _ d Ld BL2).
    intros NF. rewrite (spec_g' _ d K Ld).
    apply (repair_value W gf fpre rorder g f0 v0 WF NB2 CPg NS L0 I0 NN s h d (to_g s I) B0 R0 OK2 Ld).
    intros k Hk F. apply (NF k Hk). apply fails_g'; auto.
    destruct Hk as [->|A]; auto.
    pose proof (anc_lt W' (wf' W f0 v0 WF) k d Ld A). cbn [as_input wb_n] in *. lia.
  Qed.
End C09Weak.

(* the two repair theorems with the quantifiers in the order of Props/C09.v *)
Lemma repair_weak_p : forall W fsem fpre rorder sem f0 v0,
  wf W -> sem_nonblank_weak W sem -> completes fsem fpre sem -> (forall n, wb_stored W n = VNone) ->
  f0 < wb_n W -> wb_input W f0 = false -> v0 <> VNone ->
  forall s h d, FInv W fsem fpre sem s -> st_built s f0 = true ->
    is_raise (fspec W fsem fpre (st_cache s) f0) = true ->
    let s1 := set_value W s f0 v0 in
    rok_history W fsem fpre rorder f0 s1 h -> d < wb_n W ->
    let s2 := fst (run_f W fsem fpre rorder s1 h) in
    st_cache s2 f0 = v0 /\
    fval (snd (evaluate_f W fsem fpre rorder s2 d))
    = fval (fspec (as_input W f0 v0) fsem fpre (st_cache s2) d).
Proof. intros W fsem fpre rorder sem f0 v0 WF NBW CP NS. now apply repair_weak. Qed.

Lemma repair_value_weak_p : forall W fsem fpre rorder sem f0 v0,
  wf W -> sem_nonblank_weak W sem -> completes fsem fpre sem -> (forall n, wb_stored W n = VNone) ->
  f0 < wb_n W -> wb_input W f0 = false -> v0 <> VNone ->
  forall s h d, FInv W fsem fpre sem s -> st_built s f0 = true ->
    is_raise (fspec W fsem fpre (st_cache s) f0) = true ->
    let s1 := set_value W s f0 v0 in
    rok_history W fsem fpre rorder f0 s1 h -> d < wb_n W ->
    let s2 := fst (run_f W fsem fpre rorder s1 h) in
    (forall k, k = d \/ anc (as_input W f0 v0) k d ->
               ~ fails_at (as_input W f0 v0) fsem fpre sem (st_cache s2) k) ->
    snd (evaluate_f W fsem fpre rorder s2 d) = FVal (spec (as_input W f0 v0) sem (st_cache s2) d).
Proof. intros W fsem fpre rorder sem f0 v0 WF NBW CP NS. now apply repair_value_weak. Qed.
