(* Proofs/NumLemmas.v — the Python number operations of Lib/Py.v in terms of
   the exact value [qv] of their operands, uniformly over int/float/bool. *)
From Coq Require Import ZArith QArith Qround Qabs List Bool Lia.
From PV Require Import Lib.Py.
Import ListNotations.
Open Scope Z_scope.

Definition numeric (v : pyval) : Prop :=
  match v with VBool _ | VInt _ | VFloat _ => True | _ => False end.
Definition qv (v : pyval) : Q :=
  match as_num v with Some n => num_q n | None => 0%Q end.

Lemma numeric_as_num v : numeric v -> exists n, as_num v = Some n /\ num_q n = qv v.
Proof.
  destruct v; cbn [numeric]; try contradiction; intros _; unfold qv; cbn [as_num]; eauto.
Qed.

Lemma qv_mkfloat q : (qv (mkfloat q) == q)%Q.
Proof. unfold qv, mkfloat. cbn [as_num num_q]. apply Qred_correct. Qed.
Lemma numeric_mkfloat q : numeric (mkfloat q).
Proof. exact I. Qed.
Lemma qv_int z : qv (VInt z) = inject_Z z.
Proof. reflexivity. Qed.

(* Z tests are the Q tests of the injections *)
Lemma ltb_inject x y : (x <? y) = q_ltb (inject_Z x) (inject_Z y).
Proof.
  unfold q_ltb. rewrite <- Zcompare_Qcompare_inject. unfold Z.ltb. reflexivity.
Qed.
Lemma leb_inject x y : (x <=? y) = q_leb (inject_Z x) (inject_Z y).
Proof.
  unfold q_leb. rewrite <- Zcompare_Qcompare_inject. unfold Z.leb. reflexivity.
Qed.
Lemma eqb_inject x y : (x =? y) = q_eqb (inject_Z x) (inject_Z y).
Proof.
  unfold q_eqb, Qeq_bool, inject_Z. cbn [Qnum Qden]. rewrite !Z.mul_1_r.
  unfold Zeq_bool. rewrite Z.eqb_compare. reflexivity.
Qed.
Lemma Zcompare_Qcompare_inject_sym : forall x y, (inject_Z x ?= inject_Z y)%Q = (x ?= y).
Proof. intros. unfold Qcompare, inject_Z. cbn. rewrite !Z.mul_1_r. reflexivity. Qed.

(* q_ltb etc. are compatible with Qeq *)
Lemma q_ltb_comp a a' b b' : (a == a')%Q -> (b == b')%Q -> q_ltb a b = q_ltb a' b'.
Proof. intros Ha Hb. unfold q_ltb. rewrite (Qcompare_comp a a' Ha b b' Hb). reflexivity. Qed.
Lemma q_leb_comp a a' b b' : (a == a')%Q -> (b == b')%Q -> q_leb a b = q_leb a' b'.
Proof. intros Ha Hb. unfold q_leb. rewrite (Qcompare_comp a a' Ha b b' Hb). reflexivity. Qed.
Lemma q_eqb_comp a a' b b' : (a == a')%Q -> (b == b')%Q -> q_eqb a b = q_eqb a' b'.
Proof.
  intros Ha Hb. unfold q_eqb.
  destruct (Qeq_bool a b) eqn:E1; destruct (Qeq_bool a' b') eqn:E2; try reflexivity.
  - apply Qeq_bool_iff in E1. assert (a' == b')%Q by (rewrite <- Ha, <- Hb; exact E1).
    apply Qeq_bool_iff in H. congruence.
  - apply Qeq_bool_iff in E2. assert (a == b)%Q by (rewrite Ha, Hb; exact E2).
    apply Qeq_bool_iff in H. congruence.
Qed.

Lemma q_ltb_lt a b : q_ltb a b = true <-> (a < b)%Q.
Proof. unfold q_ltb. rewrite Qlt_alt. destruct (a ?= b)%Q; split; congruence. Qed.
Lemma q_ltb_ge a b : q_ltb a b = false <-> (b <= a)%Q.
Proof.
  split; intros H.
  - apply Qnot_lt_le. intros Hlt. apply q_ltb_lt in Hlt. congruence.
  - destruct (q_ltb a b) eqn:E; [|reflexivity]. apply q_ltb_lt in E.
    exfalso. eapply Qlt_not_le; eauto.
Qed.
Lemma q_leb_le a b : q_leb a b = true <-> (a <= b)%Q.
Proof. unfold q_leb. rewrite Qle_alt. destruct (a ?= b)%Q; split; congruence. Qed.
Lemma q_eqb_eq a b : q_eqb a b = true <-> (a == b)%Q.
Proof. unfold q_eqb. apply Qeq_bool_iff. Qed.
Lemma q_eqb_neq a b : q_eqb a b = false <-> ~ (a == b)%Q.
Proof.
  unfold q_eqb. split; intros H.
  - intros E. apply Qeq_bool_iff in E. congruence.
  - destruct (Qeq_bool a b) eqn:E; [|reflexivity]. apply Qeq_bool_iff in E. contradiction.
Qed.
Lemma q_is_zero_spec q : q_is_zero q = true <-> (q == 0)%Q.
Proof.
  unfold q_is_zero, Qeq. cbn. rewrite Z.mul_1_r. apply Z.eqb_eq.
Qed.

(* ----------------------------------------------------------- operations *)
Lemma py_lt_num a b : numeric a -> numeric b -> py_lt a b = Ok (q_ltb (qv a) (qv b)).
Proof.
  destruct a, b; cbn [numeric]; try contradiction; intros _ _;
    unfold qv; cbn [py_lt scalar_lt as_num num_q]; try reflexivity;
    try (destruct b; destruct b0; reflexivity); try (destruct b; rewrite ltb_inject; reflexivity);
    rewrite ltb_inject; reflexivity.
Qed.
Lemma py_le_num a b : numeric a -> numeric b -> py_le a b = Ok (q_leb (qv a) (qv b)).
Proof.
  destruct a, b; cbn [numeric]; try contradiction; intros _ _;
    unfold qv; cbn [py_le as_num num_q]; try reflexivity;
    try (destruct b; destruct b0; reflexivity); try (destruct b; rewrite leb_inject; reflexivity);
    rewrite leb_inject; reflexivity.
Qed.
Lemma py_gt_num a b : numeric a -> numeric b -> py_gt a b = Ok (q_ltb (qv b) (qv a)).
Proof. intros. unfold py_gt. apply py_lt_num; assumption. Qed.
Lemma py_ge_num a b : numeric a -> numeric b -> py_ge a b = Ok (q_leb (qv b) (qv a)).
Proof. intros. unfold py_ge. apply py_le_num; assumption. Qed.
Lemma py_eq_num a b : numeric a -> numeric b -> py_eq a b = q_eqb (qv a) (qv b).
Proof.
  destruct a, b; cbn [numeric]; try contradiction; intros _ _;
    unfold qv; cbn [py_eq as_num num_q]; try reflexivity;
    try (destruct b; destruct b0; reflexivity); try (destruct b; rewrite eqb_inject; reflexivity);
    rewrite eqb_inject; reflexivity.
Qed.

Lemma py_truediv_num a b : numeric a -> numeric b -> ~ (qv b == 0)%Q ->
  py_truediv a b = Ok (mkfloat (qv a / qv b)).
Proof.
  intros Ha Hb Hz. destruct (numeric_as_num a Ha) as (na & Ea & Qa).
  destruct (numeric_as_num b Hb) as (nb & Eb & Qb).
  unfold py_truediv. rewrite Ea, Eb, Qa, Qb.
  destruct (q_is_zero (qv b)) eqn:E; [apply q_is_zero_spec in E; contradiction|reflexivity].
Qed.
Lemma py_truediv_zero a b : numeric a -> numeric b -> (qv b == 0)%Q ->
  py_truediv a b = Raise ZeroDivisionError.
Proof.
  intros Ha Hb Hz. destruct (numeric_as_num a Ha) as (na & Ea & Qa).
  destruct (numeric_as_num b Hb) as (nb & Eb & Qb).
  unfold py_truediv. rewrite Ea, Eb, Qb.
  apply q_is_zero_spec in Hz. rewrite Hz. reflexivity.
Qed.

Lemma arith_num fi fq a b : numeric a -> numeric b ->
  (forall x y, (inject_Z (fi x y) == fq (inject_Z x) (inject_Z y))%Q) ->
  exists r, arith fi fq a b = Ok r /\ numeric r /\ (qv r == fq (qv a) (qv b))%Q.
Proof.
  intros Ha Hb Hf. destruct (numeric_as_num a Ha) as (na & Ea & Qa).
  destruct (numeric_as_num b Hb) as (nb & Eb & Qb).
  unfold arith. rewrite Ea, Eb. rewrite <- Qa, <- Qb.
  destruct na as [x|x], nb as [y|y]; cbn [num_q];
    (eexists; split; [reflexivity|split; [exact I|]]);
    try apply qv_mkfloat. unfold qv. cbn [as_num num_q]. apply Hf.
Qed.

Lemma py_mul_num a b : numeric a -> numeric b ->
  exists r, py_mul a b = Ok r /\ numeric r /\ (qv r == qv a * qv b)%Q.
Proof.
  intros Ha Hb.
  assert (E : py_mul a b = arith Z.mul Qmult a b).
  { destruct a, b; cbn [numeric] in *; try contradiction; reflexivity. }
  rewrite E. apply arith_num; auto. intros. apply inject_Z_mult.
Qed.
Lemma py_add_num a b : numeric a -> numeric b ->
  exists r, py_add a b = Ok r /\ numeric r /\ (qv r == qv a + qv b)%Q.
Proof.
  intros Ha Hb.
  assert (E : py_add a b = arith Z.add Qplus a b).
  { destruct a, b; cbn [numeric] in *; try contradiction; reflexivity. }
  rewrite E. apply arith_num; auto. intros. apply inject_Z_plus.
Qed.
Lemma py_sub_num a b : numeric a -> numeric b ->
  exists r, py_sub a b = Ok r /\ numeric r /\ (qv r == qv a - qv b)%Q.
Proof.
  intros Ha Hb. unfold py_sub. apply arith_num; auto. intros.
  unfold Z.sub, Qminus. rewrite inject_Z_plus, inject_Z_opp. reflexivity.
Qed.

Lemma Qfloor_inject z : Qfloor (inject_Z z) = z.
Proof. apply Qfloor_Z. Qed.
Lemma Qceiling_inject z : Qceiling (inject_Z z) = z.
Proof. apply Qceiling_Z. Qed.

Lemma py_floor_num a : numeric a -> py_floor a = Ok (VInt (Qfloor (qv a))).
Proof.
  destruct a; cbn [numeric]; try contradiction; intros _; unfold py_floor, qv; cbn [as_num num_q];
    rewrite ?Qfloor_inject; reflexivity.
Qed.
Lemma py_ceil_num a : numeric a -> py_ceil a = Ok (VInt (Qceiling (qv a))).
Proof.
  destruct a; cbn [numeric]; try contradiction; intros _; unfold py_ceil, qv; cbn [as_num num_q];
    rewrite ?Qceiling_inject; reflexivity.
Qed.
Lemma q_trunc_inject z : q_trunc (inject_Z z) = z.
Proof. unfold q_trunc. rewrite Qfloor_inject, Qceiling_inject. destruct (q_ltb _ _); reflexivity. Qed.
Lemma py_int_num a : numeric a -> py_int a = Ok (VInt (q_trunc (qv a))).
Proof.
  destruct a; cbn [numeric]; try contradiction; intros _; unfold py_int, qv; cbn [as_num num_q];
    rewrite ?q_trunc_inject; reflexivity.
Qed.

Lemma Qfloor_Qred q : Qfloor (Qred q) = Qfloor q.
Proof. apply Qfloor_comp. apply Qred_correct. Qed.
Lemma Qceiling_Qred q : Qceiling (Qred q) = Qceiling q.
Proof. apply Qceiling_comp. apply Qred_correct. Qed.
Lemma q_trunc_comp a b : (a == b)%Q -> q_trunc a = q_trunc b.
Proof.
  intros H. unfold q_trunc. rewrite (q_ltb_comp a b 0 0 H (Qeq_refl 0)).
  rewrite (Qfloor_comp a b H), (Qceiling_comp a b H). reflexivity.
Qed.

Lemma py_abs_num a : numeric a ->
  exists r, py_abs a = Ok r /\ numeric r /\ (qv r == Qabs (qv a))%Q.
Proof.
  intros Ha. destruct a; cbn [numeric] in Ha; try contradiction; unfold py_abs, qv; cbn [as_num num_q].
  - eexists; split; [reflexivity|split; [exact I|]]. cbn [as_num num_q].
    destruct b; reflexivity.
  - eexists; split; [reflexivity|split; [exact I|]]. cbn [as_num num_q].
    unfold Qabs, inject_Z. cbn. reflexivity.
  - eexists; split; [reflexivity|split; [exact I|]]. apply qv_mkfloat.
Qed.
Lemma py_neg_num a : numeric a ->
  exists r, py_neg a = Ok r /\ numeric r /\ (qv r == - qv a)%Q.
Proof.
  intros Ha. destruct a; cbn [numeric] in Ha; try contradiction; unfold py_neg, qv; cbn [as_num num_q].
  - eexists; split; [reflexivity|split; [exact I|]]. cbn [as_num num_q]. destruct b; reflexivity.
  - eexists; split; [reflexivity|split; [exact I|]]. cbn [as_num num_q]. apply inject_Z_opp.
  - eexists; split; [reflexivity|split; [exact I|]]. apply qv_mkfloat.
Qed.
