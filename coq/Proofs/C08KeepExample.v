(* Proofs/C08KeepExample.v — C08: [trim_keepref] against [trim] on a workbook
   where the two differ (tests, not theorems).
     0: B1 = 3 (input)   1: B2 = 4 (input)   2: C1 = 5 (input, THE input)
     3: B1:B2 (range node)   4: B:B (reference node, alias of node 3)
     5: A1 = f5(B:B, C1) (THE output)
   trim([C1], [A1]): the walk over the precedents of A1 goes through B:B and
   B1:B2 down to B1, B2 (frozen constants); no input is below B:B, so [trim]
   deletes it with B1:B2, [trim_keepref] (repair 17855a0) keeps it. *)
From Coq Require Import List Arith Bool Lia ZArith.
From PV Require Import Lib.Py Model.Graph Model.GraphExpr Model.Trim Model.TrimKeep.
From PV Require Import Proofs.C01Base Proofs.C01Inv Proofs.C01 Proofs.C01Example Proofs.C01Weak
                       Proofs.C01Alias Proofs.C08 Proofs.C08Weak Proofs.C08Keep.
Import ListNotations.
Local Open Scope nat_scope.

Definition k_sem (n : nat) (vals : list pyval) : pyval :=
  if n =? 3 then VTuple vals
  else if n =? 4 then nth 0 vals VNone
  else VInt (Z.of_nat n + tot (VTuple vals)).

Definition kW : workbook :=
  {| wb_n := 6;
     wb_input := fun n => n <? 3;
     wb_deps := fun n => match n with 3 => [0; 1] | 4 => [3] | 5 => [4; 2] | _ => [] end;
     wb_range := fun n => (n =? 3) || (n =? 4);
     wb_inp0 := fun n => match n with 0 => VInt 3 | 1 => VInt 4 | 2 => VInt 5 | _ => VNone end;
     wb_stored := fun _ => VNone |}.
Definition k_unb (n : nat) : bool := n =? 4.

Example k_wf : wf kW.
Proof. apply wfb_sound. reflexivity. Qed.
Example k_unb_range : forall m, k_unb m = true -> wb_range kW m = true.
Proof. intros m H. apply Nat.eqb_eq in H. subst. reflexivity. Qed.
Example k_alias : alias_node kW k_sem 4 3.
Proof. repeat split; try reflexivity. cbn. lia. Qed.
Example k_weak : sem_nonblank_weak kW k_sem.
Proof.
  apply alias_weak. intros n L I. destruct (Nat.eq_dec n 4) as [->|NE].
  - left. exists 3. apply k_alias.
  - right. intros vals. unfold k_sem. destruct (n =? 3); [discriminate|].
    destruct (Nat.eqb_spec n 4); [congruence|discriminate].
Qed.
Example k_not_strong : ~ sem_nonblank kW k_sem.
Proof. apply (alias_not_strong _ _ 4 3), k_alias. Qed.
Example k_stored : stored_ok kW k_sem.
Proof. split; intros; [exfalso|]; auto. Qed.
Example k_inv : Inv kW k_sem (init kW).
Proof. apply (invariant_weak kW k_sem k_wf k_weak k_stored). Qed.

Definition kT := trim kW k_sem [2] [5] (init kW).
Definition kK := trim_keepref kW k_sem k_unb [2] [5] (init kW).

Example k_kept_trim : map (st_built (tr_st kT)) (seq 0 6) = [true; true; true; false; false; true].
Proof. vm_compute. reflexivity. Qed.
Example k_kept_keepref : map (st_built (tr_st kK)) (seq 0 6) = [true; true; true; false; true; true].
Proof. vm_compute. reflexivity. Qed.
Example k_ref_value : st_cache (tr_st kK) 4 = VTuple [VInt 3; VInt 4].
Proof. vm_compute. reflexivity. Qed.

Definition k_h : list gop :=
  [ Evaluate 5; SetValue 2 (VInt 10); Evaluate 5; SetValue 2 VNone; Evaluate 5 ].
Example k_hyp : forall a, In a [2] -> wb_input (tr_wb kT) a = true /\ st_built (tr_st kT) a = true
                                     /\ scalar_exact (st_cache (tr_st kT) a) = true.
Proof. intros a [<-|[]]. repeat split; vm_compute; reflexivity. Qed.
Example k_h_ok : Forall (io_op [2] [5]) k_h /\ Forall (nonblank_write kW) k_h.
Proof.
  split; [repeat constructor|].
  unfold k_h. repeat (apply Forall_cons; [cbn; try exact I; left; reflexivity|]). constructor.
Qed.

Example k_outputs :
  snd (run (tr_wb kK) k_sem (tr_st kK) k_h) = snd (run (tr_wb kT) k_sem (tr_st kT) k_h).
Proof.
  apply (keep_outputs_weak kW k_sem k_unb k_wf k_unb_range [2] [5] (init kW)).
  - intros o [<-|[]]. cbn. lia.
  - apply k_weak. - apply k_stored. - apply k_inv. - apply k_hyp.
  - apply k_h_ok. - apply k_h_ok.
Qed.
Example k_trace : snd (run (tr_wb kK) k_sem (tr_st kK) k_h) = [VInt 17; VNone; VInt 22; VNone; VInt 12].
Proof. vm_compute. reflexivity. Qed.
