(* Proofs/C02.v — emitter and literal lemmas of C02 (the parser theorem is in
   Proofs/C02Parse.v). *)
From Coq Require Import String.
From Coq Require Import ZArith List Bool Lia.
From PV Require Import Lib.Py Model.Syntax Model.Emit Proofs.C02Parse.
Import ListNotations.
Open Scope Z_scope.

(* ------------------------------------------------------------ induction *)
Lemma expr_ind' (P : expr -> Prop) :
  (forall k v, P (EOperand k v)) -> (forall e, P e -> P (EPre e)) -> (forall e, P e -> P (EPost e)) ->
  (forall o l r, P l -> P r -> P (EBin o l r)) ->
  (forall n args, Forall P args -> P (EFunc n args)) -> forall e, P e.
Proof.
  intros HO HP HQ HB HF. fix IH 1. intros [k v|e|e|o l r|n args].
  - apply HO.
  - apply HP, IH.
  - apply HQ, IH.
  - apply HB; apply IH.
  - apply HF. induction args as [|a args IHl]; constructor; [apply IH|apply IHl].
Qed.

Lemma arith_func n args :
  arith (EFunc n args) <->
  (is_handler (func_key n) = false \/ func_key n = zs "pi"%string \/ func_key n = zs "true"%string
   \/ func_key n = zs "false"%string) /\ Forall arith args.
Proof.
  cbn [arith]. split; intros [H1 H2]; split; auto.
  - induction args as [|a l IH]; [constructor|]. destruct H2 as [Ha Hl]. constructor; auto.
  - induction H2 as [|a l Ha Hl IH]; [exact I|]. split; auto.
Qed.
Lemma nnpl_func n args : no_neg_pow_left (EFunc n args) <-> Forall no_neg_pow_left args.
Proof.
  cbn [no_neg_pow_left]. split; intros H.
  - induction args as [|a l IH]; [constructor|]. destruct H as [Ha Hl]. constructor; auto.
  - induction H as [|a l Ha Hl IH]; [exact I|]. split; auto.
Qed.

(* ------------------------------------------------------------ the tables *)
(* OperatorNode.op_map (generated) sends ^ to **, = to ==, <> to != *)
Lemma op_map_ok :
  map pyop_of [OEq; ONe; OLt; OLe; OGt; OGe; OCat; OAdd; OSub; OMul; ODiv; OPow; OIsect; OColon; OUnion]
  = [Some PEq; Some PNe; Some PLt; Some PLe; Some PGt; Some PGe; Some PBitAnd; Some PAdd; Some PSub;
     Some PMul; Some PDiv; Some PPow; None; None; None].
Proof. vm_compute. reflexivity. Qed.

Lemma pyop_of_pow o p : pyop_of o = Some p -> (o = OPow <-> p = PPow).
Proof.
  destruct o; vm_compute; intros H; try discriminate; injection H as <-;
    split; intros E; try discriminate; reflexivity.
Qed.

Lemma handler_false f : is_handler f = false ->
  str_eqb f (zs "pi"%string) = false /\ str_eqb f (zs "true"%string) = false /\ str_eqb f (zs "false"%string) = false /\
  str_eqb f (zs "array"%string) = false /\ str_eqb f (zs "arrayrow"%string) = false /\
  str_eqb f (zs "row"%string) = false /\ str_eqb f (zs "column"%string) = false.
Proof.
  unfold is_handler, handler_names. cbn [existsb]. intros H.
  repeat (apply orb_false_elim in H; destruct H as [? H]). repeat split; assumption.
Qed.

(* ------------------------------------------------------------ emit *)
Lemma pytop_wrap_true t : pytop (wrap true t) = 11. Proof. reflexivity. Qed.
Lemma pywfb_wrap par t : pywfb t = true -> 1 <= pytop t -> pywfb (wrap par t) = true.
Proof.
  intros W T. destruct par; cbn [wrap pywfb]; auto. rewrite W. apply Z.leb_le in T. rewrite T.
  reflexivity.
Qed.
Lemma pyabs_wrap par t : pyabs (wrap par t) = pyabs t. Proof. destruct par; reflexivity. Qed.
Lemma pytop_wrap par t : 1 <= pytop t -> 1 <= pytop (wrap par t).
Proof. destruct par; cbn [wrap pytop]; auto; lia. Qed.

Lemma operand_ok k v : (k = KRange -> ref_modelled v = true) ->
  pywfb (emit_operand k v) = true /\ pytop (emit_operand k v) = 11.
Proof.
  intros H. destruct k; cbn [emit_operand]; try (split; reflexivity).
  unfold emit_ref. specialize (H eq_refl). unfold ref_modelled in H.
  destruct (ref_parts v) as [[[sh r] rng]|]; [|discriminate]. split; reflexivity.
Qed.

Definition emit_good (e : expr) : Prop :=
  (forall par, pywfb (emit par e) = true /\ pyabs (emit par e) = translate e /\ 1 <= pytop (emit par e))
  /\ 8 <= pytop (emit true e)
  /\ ((forall a, e <> EPre a) -> pytop (emit true e) = 11).

Lemma emit_ok e : arith e -> no_neg_pow_left e -> emit_good e.
Proof.
  induction e as [k v|e IH|e IH|o l r IHl IHr|n args IH] using expr_ind'; intros A N.
  - assert (O: pywfb (emit_operand k v) = true /\ pytop (emit_operand k v) = 11).
    { apply operand_ok. intros ->. exact A. }
    destruct O as [O1 O2]. unfold emit_good. cbn [emit translate]. rewrite O2.
    split; [intros par; (split; [|split])|split]; auto; lia.
  - cbn [arith no_neg_pow_left] in A, N. destruct (IH A N) as (G1 & G2 & G3).
    destruct (G1 true) as (W & B & _).
    assert (T: pywfb (PNeg (emit true e)) = true).
    { cbn [pywfb]. rewrite W. apply Z.leb_le in G2. rewrite G2. reflexivity. }
    unfold emit_good. cbn [emit translate].
    split; [intros par; (split; [|split])|split]; cbn [pyabs pytop]; rewrite ?T, ?B; auto; try lia.
    intros H. exfalso. apply (H e). reflexivity.
  - cbn [arith no_neg_pow_left] in A, N. destruct (IH A N) as (G1 & G2 & G3).
    destruct (G1 true) as (W & B & _).
    assert (T: pywfb (PBin PDiv (emit true e) (PAtom (zs "100"%string))) = true).
    { cbn [pywfb is_cmp_op pylevel pytop]. rewrite W. cbn [andb].
      apply andb_true_intro; split; [apply Z.leb_le; lia|reflexivity]. }
    unfold emit_good. cbn [emit translate].
    split; [intros par; (split; [|split])|split].
    + apply pywfb_wrap; auto. cbn; lia.
    + rewrite pyabs_wrap. cbn [pyabs]. rewrite B. reflexivity.
    + apply pytop_wrap. cbn; lia.
    + cbn; lia.
    + reflexivity.
  - cbn [arith no_neg_pow_left] in A, N. destruct A as ([p Hp] & Al & Ar). destruct N as (Npl & Nl & Nr).
    destruct (IHl Al Nl) as (L1 & L2 & L3). destruct (IHr Ar Nr) as (R1 & R2 & R3).
    destruct (L1 true) as (Wl & Bl & _). destruct (R1 true) as (Wr & Br & _).
    pose proof (pyop_of_pow o p Hp) as Pow.
    assert (E: forall par, emit par (EBin o l r) = wrap par (PBin p (emit true l) (emit true r))).
    { intros par. destruct o; cbn [emit]; rewrite ?Hp; try reflexivity; vm_compute in Hp; discriminate. }
    assert (T: pywfb (PBin p (emit true l) (emit true r)) = true).
    { cbn [pywfb]. rewrite Wl, Wr. cbn [andb].
      destruct p; cbn [is_cmp_op pylevel];
        try (apply andb_true_intro; split; [apply Z.leb_le|apply Z.ltb_lt]; lia);
        try (apply andb_true_intro; split; apply Z.ltb_lt; lia).
      assert (o = OPow) by (apply Pow; reflexivity). subst o.
      assert (Tl: pytop (emit true l) = 11).
      { apply L3. intros a ->. exact Npl. }
      rewrite Tl. apply andb_true_intro; split; [reflexivity|apply Z.leb_le; lia]. }
    unfold emit_good. cbn [translate]. rewrite Hp.
    assert (Lv: 1 <= pylevel p) by (destruct p; cbn; lia).
    split; [intros par; (split; [|split])|split]; rewrite ?E.
    + apply pywfb_wrap; auto.
    + rewrite pyabs_wrap. cbn [pyabs]. rewrite Bl, Br. reflexivity.
    + apply pytop_wrap. exact Lv.
    + cbn; lia.
    + reflexivity.
  - apply arith_func in A. destruct A as [Hh Aa]. apply nnpl_func in N.
    assert (G: Forall emit_good args).
    { rewrite Forall_forall in *. intros a Ha. apply IH; auto. }
    assert (Wargs: forallb (fun a => pywfb a && (1 <=? pytop a)) (map (emit false) args) = true).
    { clear -G. induction G as [|a l Ga Gl IHl]; cbn [map forallb]; auto.
      destruct Ga as (G1 & _). destruct (G1 false) as (W & _ & T). rewrite W, IHl.
      apply Z.leb_le in T. rewrite T. reflexivity. }
    assert (Bargs: map pyabs (map (emit false) args) = map translate args).
    { clear -G. induction G as [|a l Ga Gl IHl]; cbn [map]; auto.
      destruct Ga as (G1 & _). destruct (G1 false) as (_ & B & _). rewrite B, IHl. reflexivity. }
    unfold emit_good. cbn [emit translate].
    destruct Hh as [Hh|[Hh|[Hh|Hh]]].
    + destruct (handler_false _ Hh) as (H1 & H2 & H3 & H4 & H5 & H6 & H7).
      rewrite H1, H2, H3, H4, H5, H6, H7, Hh. cbn [orb pywfb pyabs pytop].
      rewrite Wargs, Bargs. split; [intros par; (split; [|split])|split]; auto; lia.
    + rewrite Hh. split; [intros par; (split; [|split])|split]; cbn; auto; lia.
    + rewrite Hh. split; [intros par; (split; [|split])|split]; cbn; auto; lia.
    + rewrite Hh. split; [intros par; (split; [|split])|split]; cbn; auto; lia.
Qed.

Theorem emit_partial e : arith e -> no_neg_pow_left e ->
  forall par, PyWF (emit par e) /\ pyabs (emit par e) = translate e.
Proof.
  intros A N par. destruct (emit_ok e A N) as (G & _). destruct (G par) as (W & B & _).
  split; assumption.
Qed.

(* ------------------------------------------------------------ text literals *)
Fixpoint esc (s : list Z) : list Z :=
  match s with [] => [] | c :: s' => if c =? dq then bs :: dq :: esc s' else c :: esc s' end.

Lemma repl_dbl s : repl_qq (dbl s) = esc s.
Proof.
  induction s as [|c s IH]; [reflexivity|]. cbn [dbl esc].
  destruct (Z.eqb_spec c dq) as [->|NE].
  - cbn [repl_qq]. rewrite !Z.eqb_refl. rewrite IH. reflexivity.
  - cbn [repl_qq]. destruct (Z.eqb_spec c dq); [contradiction|]. rewrite IH. reflexivity.
Qed.

Definition plain_char (c : Z) : Prop := c <> bs /\ c <> 10 /\ c <> 13.

Lemma unescape_esc s : Forall plain_char s -> py_unescape (esc s ++ [dq]) = Some s.
Proof.
  induction 1 as [|c s (H1 & H2 & H3) Hs IH]; [reflexivity|]. cbn [esc].
  destruct (Z.eqb_spec c dq) as [->|NE].
  - cbn [app py_unescape]. change (bs =? dq) with false. change ((bs =? 10) || (bs =? 13)) with false.
    change (bs =? bs) with true. change (dq =? dq) with true. cbv iota. rewrite IH. reflexivity.
  - cbn [app py_unescape].
    destruct (Z.eqb_spec c dq); [contradiction|].
    destruct (Z.eqb_spec c 10); [contradiction|]. destruct (Z.eqb_spec c 13); [contradiction|].
    destruct (Z.eqb_spec c bs); [contradiction|]. cbn [orb]. rewrite IH. reflexivity.
Qed.

Lemma dbl_nonempty c s : exists d t, dbl (c :: s) = d :: t.
Proof. cbn [dbl]. destruct (c =? dq); eauto. Qed.

Theorem text_partial s : Forall plain_char s ->
  py_string_literal (emit_text (excel_quote s)) = Some s.
Proof.
  intros H. destruct s as [|c s]; [reflexivity|].
  destruct (dbl_nonempty c s) as (d & t & E).
  assert (L: (2 <? zlen (excel_quote (c :: s))) = true).
  { unfold excel_quote, zlen. rewrite E. cbn [length]. rewrite app_length. cbn [length].
    apply Z.ltb_lt. lia. }
  unfold emit_text. rewrite L.
  assert (S: strip_quotes (excel_quote (c :: s)) = dbl (c :: s)).
  { unfold excel_quote, strip_quotes. rewrite rev_app_distr. cbn [rev app].
    change (dq =? dq) with true. cbn [andb]. apply rev_involutive. }
  rewrite S, repl_dbl. cbn [py_string_literal]. change (dq =? dq) with true. cbv iota.
  apply unescape_esc, H.
Qed.

(* ------------------------------------------------------------ number literals *)
Lemma dec_value_zeros s : forallb (fun d => d =? 48) s = true -> dec_value s 0 = 0.
Proof.
  induction s as [|c s IH]; [reflexivity|]. cbn [forallb dec_value]. intros H.
  apply andb_prop in H. destruct H as [H1 H2]. apply Z.eqb_eq in H1. subst c.
  change (10 * 0 + (48 - 48)) with 0. apply IH, H2.
Qed.

Theorem number_partial s : s <> [] -> forallb is_digit s = true ->
  (hd 0 s <> 48 \/ forallb (fun d => d =? 48) s = true) ->
  py_decint s = Some (dec_value s 0).
Proof.
  intros NE D H. destruct s as [|c s]; [congruence|]. unfold py_decint. rewrite D.
  cbn [hd] in H. destruct (Z.eqb_spec c 48) as [->|N0].
  - destruct H as [H|H]; [congruence|]. rewrite H, (dec_value_zeros _ H). reflexivity.
  - reflexivity.
Qed.

(* non-vacuity *)
Example ex_code :
  code (EBin OAdd (EOperand KNumber [49]) (EBin OMul (EOperand KNumber [50]) (EPost (EOperand KNumber [51]))))
  = [49; 32; 43; 32; 40; 50; 32; 42; 32; 40; 51; 32; 47; 32; 49; 48; 48; 41; 41].   (* 1 + (2 * (3 / 100)) *)
Proof. vm_compute. reflexivity. Qed.
Example ex_text : py_string_literal (emit_text (excel_quote [97; 34; 98])) = Some [97; 34; 98].
Proof. vm_compute. reflexivity. Qed.
