(* Proofs/C02.v — emitter and literal lemmas of C02 (the parser theorem is in
   Proofs/C02Parse.v). *)
From Coq Require Import ZArith List Bool Lia.
From PV Require Import Lib.Py Model.Syntax Model.Emit Proofs.C02Parse.
Import ListNotations.
Open Scope Z_scope.
