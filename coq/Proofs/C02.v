(* Proofs/C02.v — emitter and literal lemmas of C02 (the parser theorem is in
   Proofs/C02Parse.v). *)
From Coq Require Import String.
From Coq Require Import ZArith List Bool Lia.
From PV Require Import Lib.Py Model.Syntax Model.Emit Proofs.C02Parse.
Import ListNotations.
Open Scope Z_scope.

(* ------------------------------------------------------------ induction *)
Lemma expr_ind' (P : expr -> Prop) :
  (forall k v, P (EOperand k v)) -> (forall e, P e -> P (EPre e)) -> (forall e, P e -> P (EPost e)) ->
  (forall o l r, P l -> P r -> P (EBin o l r)) ->
  (forall n args, Forall P args -> P (EFunc n args)) -> forall e, P e.
Proof.
  intros HO HP HQ HB HF. fix IH 1. intros [k v|e|e|o l r|n args].
  - apply HO.
  - apply HP, IH.
  - apply HQ, IH.
  - apply HB; apply IH.
  - apply HF. induction args as [|a args IHl]; constructor; [apply IH|apply IHl].
Qed.

Lemma arith_func n args :
  arith (EFunc n args) <->
  (is_handler (func_key n) = false \/ func_key n = zs "pi"%string \/ func_key n = zs "true"%string
   \/ func_key n = zs "false"%string) /\ Forall arith args.
Proof.
  cbn [arith]. split; intros [H1 H2]; split; auto.
  - induction args as [|a l IH]; [constructor|]. destruct H2 as [Ha Hl]. constructor; auto.
  - induction H2 as [|a l Ha Hl IH]; [exact I|]. split; auto.
Qed.
(* ------------------------------------------------------------ the tables *)
(* OperatorNode.op_map (generated) sends ^ to **, = to ==, <> to != *)
Lemma op_map_ok :
  map pyop_of [OEq; ONe; OLt; OLe; OGt; OGe; OCat; OAdd; OSub; OMul; ODiv; OPow; OIsect; OColon; OUnion]
  = [Some PEq; Some PNe; Some PLt; Some PLe; Some PGt; Some PGe; Some PBitAnd; Some PAdd; Some PSub;
     Some PMul; Some PDiv; Some PPow; None; None; None].
Proof. vm_compute. reflexivity. Qed.

Lemma pyop_of_pow o p : pyop_of o = Some p -> (o = OPow <-> p = PPow).
Proof.
  destruct o; vm_compute; intros H; try discriminate; injection H as <-;
    split; intros E; try discriminate; reflexivity.
Qed.

Lemma handler_false f : is_handler f = false ->
  str_eqb f (zs "pi"%string) = false /\ str_eqb f (zs "true"%string) = false /\ str_eqb f (zs "false"%string) = false /\
  str_eqb f (zs "array"%string) = false /\ str_eqb f (zs "arrayrow"%string) = false /\
  str_eqb f (zs "row"%string) = false /\ str_eqb f (zs "column"%string) = false.
Proof.
  unfold is_handler, handler_names. cbn [existsb]. intros H.
  repeat (apply orb_false_elim in H; destruct H as [? H]). repeat split; assumption.
Qed.

(* ------------------------------------------------------------ emit *)
Lemma pytop_wrap_true t : pytop (wrap true t) = 11. Proof. reflexivity. Qed.
Lemma pywfb_wrap par t : pywfb t = true -> 1 <= pytop t -> pywfb (wrap par t) = true.
Proof.
  intros W T. destruct par; cbn [wrap pywfb]; auto. rewrite W. apply Z.leb_le in T. rewrite T.
  reflexivity.
Qed.
Lemma pyabs_wrap par t : pyabs (wrap par t) = pyabs t. Proof. destruct par; reflexivity. Qed.
Lemma pytop_wrap par t : 1 <= pytop t -> 1 <= pytop (wrap par t).
Proof. destruct par; cbn [wrap pytop]; auto; lia. Qed.

Lemma operand_ok k v : (k = KRange -> ref_modelled v = true) ->
  pywfb (emit_operand k v) = true /\ pytop (emit_operand k v) = 11.
Proof.
  intros H. destruct k; cbn [emit_operand]; try (split; reflexivity).
  unfold emit_ref. specialize (H eq_refl). unfold ref_modelled in H.
  destruct (ref_parts v) as [[[sh r] rng]|]; [|discriminate]. split; reflexivity.
Qed.

Definition emit_good (e : expr) : Prop :=
  (forall c, pywfb (emit c e) = true /\ pyabs (emit c e) = translate e /\ 1 <= pytop (emit c e))
  /\ 8 <= pytop (emit CtxOp e)
  /\ pytop (emit CtxPow e) = 11.

Lemma emit_ok e : arith e -> emit_good e.
Proof.
  induction e as [k v|e IH|e IH|o l r IHl IHr|n args IH] using expr_ind'; intros A.
  - assert (O: pywfb (emit_operand k v) = true /\ pytop (emit_operand k v) = 11).
    { apply operand_ok. intros ->. exact A. }
    destruct O as [O1 O2]. unfold emit_good. cbn [emit translate]. rewrite O2.
    split; [intros c; (split; [|split])|split]; auto; lia.
  - cbn [arith] in A. destruct (IH A) as (G1 & G2 & G3).
    destruct (G1 CtxOp) as (W & B & _).
    assert (T: pywfb (PNeg (emit CtxOp e)) = true).
    { cbn [pywfb]. rewrite W. apply Z.leb_le in G2. rewrite G2. reflexivity. }
    assert (T2: pywfb (PParen (PNeg (emit CtxOp e))) = true).
    { change (pywfb (PParen (PNeg (emit CtxOp e))))
        with (pywfb (PNeg (emit CtxOp e)) && (1 <=? 8)). rewrite T. reflexivity. }
    unfold emit_good. cbn [translate].
    split; [intros [| |]; (split; [|split])|split]; cbn [emit pyabs pytop];
      rewrite ?T, ?T2, ?B; auto; lia.
  - cbn [arith] in A. destruct (IH A) as (G1 & G2 & G3).
    destruct (G1 CtxOp) as (W & B & _).
    assert (T: pywfb (PBin PDiv (emit CtxOp e) (PAtom (zs "100"%string))) = true).
    { cbn [pywfb is_cmp_op pylevel pytop]. rewrite W. cbn [andb].
      apply andb_true_intro; split; [apply Z.leb_le; lia|reflexivity]. }
    unfold emit_good. cbn [emit translate].
    split; [intros c; (split; [|split])|split].
    + apply pywfb_wrap; auto. cbn; lia.
    + rewrite pyabs_wrap. cbn [pyabs]. rewrite B. reflexivity.
    + apply pytop_wrap. cbn; lia.
    + cbn; lia.
    + reflexivity.
  - cbn [arith] in A. destruct A as ([p Hp] & Al & Ar).
    destruct (IHl Al) as (L1 & L2 & L3). destruct (IHr Ar) as (R1 & R2 & R3).
    pose proof (pyop_of_pow o p Hp) as Pow.
    set (cc := match o with OPow => CtxPow | _ => CtxOp end).
    destruct (L1 cc) as (Wl & Bl & _). destruct (R1 cc) as (Wr & Br & _).
    assert (E: forall c, emit c (EBin o l r) = wrap (is_par c) (PBin p (emit cc l) (emit cc r))).
    { intros c. unfold cc. destruct o; cbn [emit]; rewrite ?Hp; try reflexivity;
        vm_compute in Hp; discriminate. }
    assert (T: pywfb (PBin p (emit cc l) (emit cc r)) = true).
    { cbn [pywfb]. rewrite Wl, Wr. cbn [andb].
      destruct p; cbn [is_cmp_op pylevel];
        try (assert (NP: o <> OPow) by (intros Q; apply Pow in Q; discriminate);
             assert (Ec: cc = CtxOp) by (unfold cc; destruct o; congruence);
             rewrite Ec;
             first [ apply andb_true_intro; split; [apply Z.leb_le|apply Z.ltb_lt]; lia
                   | apply andb_true_intro; split; apply Z.ltb_lt; lia ]).
      assert (o = OPow) by (apply Pow; reflexivity). subst o. unfold cc.
      rewrite L3, R3. reflexivity. }
    unfold emit_good. cbn [translate]. rewrite Hp.
    assert (Lv: 1 <= pylevel p) by (destruct p; cbn; lia).
    split; [intros c; (split; [|split])|split]; rewrite ?E.
    + apply pywfb_wrap; auto.
    + rewrite pyabs_wrap. cbn [pyabs]. rewrite Bl, Br. reflexivity.
    + apply pytop_wrap. exact Lv.
    + cbn; lia.
    + reflexivity.
  - apply arith_func in A. destruct A as [Hh Aa].
    assert (G: Forall emit_good args).
    { rewrite Forall_forall in *. intros a Ha. apply IH; auto. }
    assert (Wargs: forallb (fun a => pywfb a && (1 <=? pytop a)) (map (emit CtxTop) args) = true).
    { clear -G. induction G as [|a l Ga Gl IHl]; cbn [map forallb]; auto.
      destruct Ga as (G1 & _). destruct (G1 CtxTop) as (W & _ & T). rewrite W, IHl.
      apply Z.leb_le in T. rewrite T. reflexivity. }
    assert (Bargs: map pyabs (map (emit CtxTop) args) = map translate args).
    { clear -G. induction G as [|a l Ga Gl IHl]; cbn [map]; auto.
      destruct Ga as (G1 & _). destruct (G1 CtxTop) as (_ & B & _). rewrite B, IHl. reflexivity. }
    unfold emit_good. cbn [emit translate].
    destruct Hh as [Hh|[Hh|[Hh|Hh]]].
    + destruct (handler_false _ Hh) as (H1 & H2 & H3 & H4 & H5 & H6 & H7).
      rewrite H1, H2, H3, H4, H5, H6, H7, Hh. cbn [orb pywfb pyabs pytop].
      rewrite Wargs, Bargs. split; [intros c; (split; [|split])|split]; auto; lia.
    + rewrite Hh. split; [intros c; (split; [|split])|split]; cbn; auto; lia.
    + rewrite Hh. split; [intros c; (split; [|split])|split]; cbn; auto; lia.
    + rewrite Hh. split; [intros c; (split; [|split])|split]; cbn; auto; lia.
Qed.

Theorem emit_correct e : arith e ->
  forall c, PyWF (emit c e) /\ pyabs (emit c e) = translate e.
Proof.
  intros A c. destruct (emit_ok e A) as (G & _). destruct (G c) as (W & B & _).
  split; assumption.
Qed.

(* ------------------------------------------------------------ text literals *)
(* the Python escape of one character *)
Fixpoint esc (s : list Z) : list Z :=
  match s with
  | [] => []
  | c :: s' =>
      if c =? dq then bs :: dq :: esc s'
      else if c =? bs then bs :: bs :: esc s'
      else if c =? 10 then bs :: 110 :: esc s'
      else if c =? 13 then bs :: 114 :: esc s'
      else c :: esc s'
  end.

Lemma emit_chain s : esc_nl (repl_qq (esc_bs (dbl s))) = esc s.
Proof.
  induction s as [|c s IH]; [reflexivity|]. cbn [dbl esc].
  destruct (Z.eqb_spec c dq) as [->|N1].
  { cbn [esc_bs]. change (dq =? bs) with false. cbv iota. cbn [esc_bs].
    change (dq =? bs) with false. cbv iota. cbn [repl_qq]. change (dq =? dq) with true. cbv iota.
    cbn [esc_nl]. change (bs =? 10) with false. change (bs =? 13) with false. cbv iota.
    cbn [esc_nl]. change (dq =? 10) with false. change (dq =? 13) with false. cbv iota.
    rewrite IH. reflexivity. }
  destruct (Z.eqb_spec c bs) as [->|N2].
  { cbn [esc_bs]. change (bs =? bs) with true. cbv iota. cbn [repl_qq].
    change (bs =? dq) with false. cbv iota. cbn [repl_qq]. change (bs =? dq) with false. cbv iota.
    cbn [esc_nl]. change (bs =? 10) with false. change (bs =? 13) with false. cbv iota.
    cbn [esc_nl]. change (bs =? 10) with false. change (bs =? 13) with false. cbv iota.
    rewrite IH. reflexivity. }
  cbn [esc_bs]. destruct (Z.eqb_spec c bs); [contradiction|]. cbn [repl_qq].
  destruct (Z.eqb_spec c dq); [contradiction|]. cbn [esc_nl].
  destruct (Z.eqb_spec c 10) as [->|N3]; [rewrite IH; reflexivity|].
  destruct (Z.eqb_spec c 13) as [->|N4]; rewrite IH; reflexivity.
Qed.

Lemma unescape_esc s : py_unescape (esc s ++ [dq]) = Some s.
Proof.
  induction s as [|c s IH]; [reflexivity|]. cbn [esc].
  destruct (Z.eqb_spec c dq) as [->|N1].
  { cbn [app py_unescape]. change (bs =? dq) with false. change ((bs =? 10) || (bs =? 13)) with false.
    change (bs =? bs) with true. change (dq =? dq) with true. cbv iota. rewrite IH. reflexivity. }
  destruct (Z.eqb_spec c bs) as [->|N2].
  { cbn [app py_unescape]. change (bs =? dq) with false. change ((bs =? 10) || (bs =? 13)) with false.
    change (bs =? bs) with true. cbv iota. rewrite IH. reflexivity. }
  destruct (Z.eqb_spec c 10) as [->|N3].
  { cbn [app py_unescape]. change (bs =? dq) with false. change ((bs =? 10) || (bs =? 13)) with false.
    change (bs =? bs) with true. change (110 =? dq) with false. change (110 =? bs) with false.
    change (110 =? 39) with false. change (110 =? 110) with true. cbv iota. rewrite IH. reflexivity. }
  destruct (Z.eqb_spec c 13) as [->|N4].
  { cbn [app py_unescape]. change (bs =? dq) with false. change ((bs =? 10) || (bs =? 13)) with false.
    change (bs =? bs) with true. change (114 =? dq) with false. change (114 =? bs) with false.
    change (114 =? 39) with false. change (114 =? 110) with false. change (114 =? 116) with false.
    change (114 =? 114) with true. cbv iota. rewrite IH. reflexivity. }
  cbn [app py_unescape].
  destruct (Z.eqb_spec c dq); [contradiction|].
  destruct (Z.eqb_spec c 10); [contradiction|]. destruct (Z.eqb_spec c 13); [contradiction|].
  destruct (Z.eqb_spec c bs); [contradiction|]. cbn [orb]. rewrite IH. reflexivity.
Qed.

Lemma dbl_nonempty c s : exists d t, dbl (c :: s) = d :: t.
Proof. cbn [dbl]. destruct (c =? dq); eauto. Qed.

Theorem text_correct s : py_string_literal (emit_text (excel_quote s)) = Some s.
Proof.
  destruct s as [|c s]; [reflexivity|].
  destruct (dbl_nonempty c s) as (d & t & E).
  assert (L: (2 <? zlen (excel_quote (c :: s))) = true).
  { unfold excel_quote, zlen. rewrite E. cbn [length]. rewrite app_length. cbn [length].
    apply Z.ltb_lt. lia. }
  unfold emit_text. rewrite L.
  assert (S: strip_quotes (excel_quote (c :: s)) = dbl (c :: s)).
  { unfold excel_quote, strip_quotes. rewrite rev_app_distr. cbn [rev app].
    change (dq =? dq) with true. cbn [andb]. apply rev_involutive. }
  rewrite S, emit_chain. cbn [py_string_literal]. change (dq =? dq) with true. cbv iota.
  apply unescape_esc.
Qed.

(* ------------------------------------------------------------ number literals *)
Lemma dec_value_zeros s : forallb (fun d => d =? 48) s = true -> dec_value s 0 = 0.
Proof.
  induction s as [|c s IH]; [reflexivity|]. cbn [forallb dec_value]. intros H.
  apply andb_prop in H. destruct H as [H1 H2]. apply Z.eqb_eq in H1. subst c.
  change (10 * 0 + (48 - 48)) with 0. apply IH, H2.
Qed.

Theorem number_partial s : s <> [] -> forallb is_digit s = true ->
  (hd 0 s <> 48 \/ forallb (fun d => d =? 48) s = true) ->
  py_decint s = Some (dec_value s 0).
Proof.
  intros NE D H. destruct s as [|c s]; [congruence|]. unfold py_decint. rewrite D.
  cbn [hd] in H. destruct (Z.eqb_spec c 48) as [->|N0].
  - destruct H as [H|H]; [congruence|]. rewrite H, (dec_value_zeros _ H). reflexivity.
  - reflexivity.
Qed.

(* non-vacuity *)
Example ex_code :
  code (EBin OAdd (EOperand KNumber [49]) (EBin OMul (EOperand KNumber [50]) (EPost (EOperand KNumber [51]))))
  = [49; 32; 43; 32; 40; 50; 32; 42; 32; 40; 51; 32; 47; 32; 49; 48; 48; 41; 41].   (* 1 + (2 * (3 / 100)) *)
Proof. vm_compute. reflexivity. Qed.
Example ex_text : py_string_literal (emit_text (excel_quote [97; 34; 98])) = Some [97; 34; 98].
Proof. vm_compute. reflexivity. Qed.
