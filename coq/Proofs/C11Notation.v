(* Proofs/C11Notation.v — R1C1 notation (absolute and relative, with the
   wrap-around) denotes the same cell as A1 notation and the tuple constructor. *)
From Coq Require Import ZArith List Bool Lia.
From PV Require Import Lib.Py Model.Addr Proofs.Radix Proofs.C11 Proofs.C11Parse.
Import ListNotations.
Open Scope Z_scope.

Definition r1c1_abs_text (r c : Z) : str := 82 :: str_of_Z r ++ 67 :: str_of_Z c.
Definition r1c1_rel_text (dr dc : Z) : str :=
  82 :: 91 :: str_of_Z dr ++ 93 :: 67 :: 91 :: str_of_Z dc ++ [93].

(* characters of R1C1 text *)
Definition rchar (c : Z) : Prop := 48 <= c <= 57 \/ c = 45 \/ c = 67 \/ c = 82 \/ c = 91 \/ c = 93.
Lemma rchar_no_bang t : Forall rchar t -> ~ In 33 t.
Proof. intros H Hin. rewrite Forall_forall in H. specialize (H 33 Hin). unfold rchar in H. lia. Qed.
Lemma rchar_not_bad t : Forall rchar t -> bad_chars t = false.
Proof.
  intros H. unfold bad_chars. induction H as [|c t Hc Ht IH]; [reflexivity|]. cbn [existsb].
  rewrite IH. unfold rchar in Hc.
  replace (c =? 10) with false by (symmetry; apply Z.eqb_neq; lia).
  replace (127 <? c) with false by (symmetry; apply Z.ltb_ge; lia). reflexivity.
Qed.
Lemma digits_rchar D : digitsP D -> Forall rchar D.
Proof. intros H. eapply Forall_impl; [|exact H]. unfold rchar. intros; lia. Qed.

Lemma not_error_code_last t : last t 0 <> 33 -> last t 0 <> 63 -> last t 0 <> 65 -> is_error_code t = false.
Proof.
  intros H1 H2 H3. destruct (is_error_code t) eqn:E; [|reflexivity]. exfalso.
  unfold is_error_code in E. apply existsb_exists in E. destruct E as (e & Hin & He).
  apply str_eqb_eq in He. subst e. cbn [ERROR_CODES In] in Hin.
  repeat (destruct Hin as [<-|Hin];
          [first [apply H1; reflexivity | apply H2; reflexivity | apply H3; reflexivity]|]).
  exact Hin.
Qed.

Lemma create_general s pre coord cell b a :
  prefix_of s pre -> ~ In 33 coord -> is_error_code (pre ++ coord) = false ->
  range_boundaries coord cell = Ok b -> from_bounds s b = Ok a ->
  create (pre ++ coord) [] cell = Ok (VA a).
Proof.
  intros Hp Hc Hl Hb Ha. unfold create. rewrite Hl.
  assert (S : split_sheetname (pre ++ coord) [] = Ok (s, coord)).
  { destruct Hp as [->|p Hp Hu].
    - apply split_sheetname_bare, Hc.
    - rewrite <- app_assoc. cbn [app]. rewrite split_sheetname_text; [rewrite Hu; reflexivity|exact Hp|exact Hc]. }
  rewrite S. cbn [bind fst snd]. rewrite Hb. cbn [bind]. rewrite Ha. reflexivity.
Qed.

Lemma range_boundaries_fallback t cell b : bad_chars t = false ->
  openpyxl_range_boundaries t = Raise ValueError -> r1c1_boundaries t cell = Ok (Some b) ->
  range_boundaries t cell = Ok b.
Proof. intros H1 H2 H3. unfold range_boundaries. rewrite H1, H2, H3. reflexivity. Qed.

(* ------------------------------------------------------------ absolute *)
Lemma rc_item_abs letter D rest : digitsP D -> D <> [] -> stop is_digit rest ->
  rc_item letter (letter :: D ++ rest) = (Some (RAbs (dec_of D)), rest).
Proof.
  intros HD Hne Hrest. unfold rc_item. rewrite Z.eqb_refl.
  assert (B : Forall (fun c => is_digit c = true) D) by (eapply Forall_impl; [|exact HD]; apply is_digit_yes).
  rewrite (span_app is_digit D rest B Hrest). cbn [fst snd].
  destruct D as [|d D]; [congruence|]. inversion HD as [|? ? Hd _]; subst.
  cbn [app starts_with nonempty]. replace (d =? 91) with false by (symmetry; apply Z.eqb_neq; lia).
  reflexivity.
Qed.

Lemma rc_item_abs_end letter D : digitsP D -> D <> [] ->
  rc_item letter (letter :: D) = (Some (RAbs (dec_of D)), []).
Proof.
  intros HD Hne. pose proof (rc_item_abs letter D [] HD Hne I) as H. rewrite app_nil_r in H. exact H.
Qed.

Lemma a1_fails_r1c1 D rest : digitsP D -> D <> [] ->
  openpyxl_range_boundaries (82 :: D ++ 67 :: rest) = Raise ValueError.
Proof.
  intros HD Hne. unfold openpyxl_range_boundaries.
  change (82 :: D ++ 67 :: rest) with (ctext false [82] D ++ 67 :: rest).
  rewrite half_ctext; [reflexivity| | | |exact HD|exact Hne|reflexivity].
  - constructor; [lia|constructor].
  - discriminate.
  - cbn. lia.
Qed.

Lemma boundaries_r1c1_abs Dr Dc cell : digitsP Dr -> Dr <> [] -> digitsP Dc -> Dc <> [] ->
  range_boundaries (82 :: Dr ++ 67 :: Dc) cell
  = Ok (Some (dec_of Dc), Some (dec_of Dr), Some (dec_of Dc), Some (dec_of Dr)).
Proof.
  intros Hr Nr Hc Nc. apply range_boundaries_fallback.
  - apply rchar_not_bad. constructor; [unfold rchar; lia|]. apply Forall_app. split; [apply digits_rchar, Hr|].
    constructor; [unfold rchar; lia|apply digits_rchar, Hc].
  - apply a1_fails_r1c1; assumption.
  - unfold r1c1_boundaries, r1c1_match.
    rewrite (rc_item_abs 82 Dr (67 :: Dc) Hr Nr eq_refl). cbn [fst snd].
    rewrite (rc_item_abs_end 67 Dc Hc Nc). reflexivity.
Qed.

Lemma notation_r1c1_abs s pre c r cell : prefix_of s pre -> 1 <= c <= 18278 -> 1 <= r ->
  create (pre ++ r1c1_abs_text r c) [] cell = Ok (VA (ACell s c r)).
Proof.
  intros Hp Hc Hr. unfold r1c1_abs_text.
  destruct (row_text r ltac:(lia)) as (HDr & HMr & HRr). destruct (row_text c ltac:(lia)) as (HDc & HMc & HRc).
  eapply create_general.
  - exact Hp.
  - apply rchar_no_bang. constructor; [unfold rchar; lia|]. apply Forall_app. split; [apply digits_rchar, HDr|].
    constructor; [unfold rchar; lia|apply digits_rchar, HDc].
  - apply not_error_code.
    change (82 :: str_of_Z r ++ 67 :: str_of_Z c) with ((82 :: str_of_Z r) ++ ctext false [67] (str_of_Z c)).
    rewrite app_assoc. apply ctext_last; assumption.
  - apply boundaries_r1c1_abs; assumption.
  - rewrite HRr, HRc. cbn [from_bounds]. rewrite !Z.eqb_refl. cbn [andb]. apply mk_cell_ok, Hc.
Qed.

(* ------------------------------------------------------------ relative *)
Definition signed (neg : bool) (D : str) : str := if neg then 45 :: D else D.
Lemma signed_text k : exists neg D, str_of_Z k = signed neg D /\ digitsP D /\ D <> []
  /\ (if neg then - dec_of D else dec_of D) = k.
Proof.
  destruct (Z_lt_dec k 0) as [L|L].
  - exists true, (str_of_Z (- k)). destruct (row_text (- k) ltac:(lia)) as (A & B & C).
    repeat split; [|exact A|exact B|lia].
    unfold signed, str_of_Z. replace (k <? 0) with true by (symmetry; apply Z.ltb_lt; lia).
    replace (- k <? 0) with false by (symmetry; apply Z.ltb_ge; lia). reflexivity.
  - exists false, (str_of_Z k). destruct (row_text k ltac:(lia)) as (A & B & C).
    repeat split; assumption.
Qed.
Lemma signed_rchar neg D : digitsP D -> Forall rchar (signed neg D).
Proof.
  intros H. destruct neg; cbn [signed]; [constructor; [unfold rchar; lia|]|]; apply digits_rchar, H.
Qed.

Lemma rc_item_rel letter (neg : bool) D rest : digitsP D -> D <> [] ->
  rc_item letter (letter :: 91 :: signed neg D ++ 93 :: rest)
  = (Some (RRel (if neg then - dec_of D else dec_of D)), rest).
Proof.
  intros HD Hne. unfold rc_item. rewrite Z.eqb_refl.
  assert (B : Forall (fun c => is_digit c = true) D) by (eapply Forall_impl; [|exact HD]; apply is_digit_yes).
  assert (S : span is_digit (D ++ 93 :: rest) = (D, 93 :: rest)) by (apply span_app; [exact B|reflexivity]).
  cbn [starts_with tl]. change (91 =? 91) with true. cbv iota.
  destruct D as [|d D]; [congruence|]. inversion HD as [|? ? Hd _]; subst.
  destruct neg; cbn [signed app starts_with opt_char].
  - change (45 =? 45) with true. cbv iota. change (d :: D ++ 93 :: rest) with ((d :: D) ++ 93 :: rest).
    rewrite S. cbn [fst snd nonempty starts_with tl andb]. change (93 =? 93) with true. reflexivity.
  - replace (d =? 45) with false by (symmetry; apply Z.eqb_neq; lia).
    change (d :: D ++ 93 :: rest) with ((d :: D) ++ 93 :: rest).
    rewrite S. cbn [fst snd nonempty starts_with tl andb]. change (93 =? 93) with true. reflexivity.
Qed.

Lemma a1_fails_rel (X : str) : openpyxl_range_boundaries (82 :: 91 :: X) = Raise ValueError.
Proof. reflexivity. Qed.

Lemma boundaries_r1c1_rel (n1 : bool) D1 (n2 : bool) D2 ar ac : digitsP D1 -> D1 <> [] -> digitsP D2 -> D2 <> [] ->
  let dr := if n1 then - dec_of D1 else dec_of D1 in
  let dc := if n2 then - dec_of D2 else dec_of D2 in
  range_boundaries (82 :: 91 :: signed n1 D1 ++ 93 :: 67 :: 91 :: signed n2 D2 ++ [93]) (Some (ar, ac))
  = Ok (Some (inc_col ac dc), Some (inc_row ar dr), Some (inc_col ac dc), Some (inc_row ar dr)).
Proof.
  intros H1 N1 H2 N2 dr dc. apply range_boundaries_fallback.
  - apply rchar_not_bad. constructor; [unfold rchar; lia|]. constructor; [unfold rchar; lia|].
    apply Forall_app. split; [apply signed_rchar, H1|].
    constructor; [unfold rchar; lia|]. constructor; [unfold rchar; lia|]. constructor; [unfold rchar; lia|].
    apply Forall_app. split; [apply signed_rchar, H2|]. constructor; [unfold rchar; lia|constructor].
  - apply a1_fails_rel.
  - unfold r1c1_boundaries, r1c1_match.
    rewrite (rc_item_rel 82 n1 D1 _ H1 N1). cbn [fst snd].
    rewrite (rc_item_rel 67 n2 D2 [] H2 N2). reflexivity.
Qed.

Lemma notation_r1c1_rel s pre ar ac dr dc : prefix_of s pre ->
  create (pre ++ r1c1_rel_text dr dc) [] (Some (ar, ac))
  = Ok (VA (ACell s (inc_col ac dc) (inc_row ar dr))).
Proof.
  intros Hp. unfold r1c1_rel_text.
  destruct (signed_text dr) as (n1 & D1 & E1 & H1 & N1 & V1).
  destruct (signed_text dc) as (n2 & D2 & E2 & H2 & N2 & V2).
  rewrite E1, E2.
  assert (C : Forall rchar (82 :: 91 :: signed n1 D1 ++ 93 :: 67 :: 91 :: signed n2 D2 ++ [93])).
  { constructor; [unfold rchar; lia|]. constructor; [unfold rchar; lia|].
    apply Forall_app. split; [apply signed_rchar, H1|].
    constructor; [unfold rchar; lia|]. constructor; [unfold rchar; lia|]. constructor; [unfold rchar; lia|].
    apply Forall_app. split; [apply signed_rchar, H2|]. constructor; [unfold rchar; lia|constructor]. }
  eapply create_general.
  - exact Hp.
  - apply rchar_no_bang, C.
  - assert (L : last (pre ++ 82 :: 91 :: signed n1 D1 ++ 93 :: 67 :: 91 :: signed n2 D2 ++ [93]) 0 = 93).
    { change (82 :: 91 :: signed n1 D1 ++ 93 :: 67 :: 91 :: signed n2 D2 ++ [93])
        with ((82 :: 91 :: signed n1 D1) ++ (93 :: 67 :: 91 :: signed n2 D2) ++ [93]).
      rewrite !app_assoc. apply last_last. }
    apply not_error_code_last; rewrite L; discriminate.
  - apply boundaries_r1c1_rel; assumption.
  - rewrite V1, V2. cbn [from_bounds]. rewrite !Z.eqb_refl. cbn [andb]. apply mk_cell_ok.
    pose proof (inc_col_range ac dc). unfold MAX_COL in *. lia.
Qed.

(* A1, R1C1 and tuple notations of one on-sheet location: the same cell *)
Lemma notations s c r : sheet_ok s = true -> 1 <= c <= MAX_COL -> 1 <= r <= MAX_ROW ->
  create (address (ACell s c r)) [] None = Ok (VA (ACell s c r))
  /\ create (form_prefix 0 s ++ r1c1_abs_text r c) [] None = Ok (VA (ACell s c r))
  /\ mk_cell s c r = Ok (ACell s c r).
Proof.
  intros Hs Hc Hr. repeat split.
  - apply roundtrip_plain; [split; assumption|exact Hs].
  - apply notation_r1c1_abs; [apply (form_prefix_ok 0 s Hs)|unfold MAX_COL in *; lia|lia].
  - apply mk_cell_ok. unfold MAX_COL in *. lia.
Qed.
(* a relative R1C1 reference from any anchor = address_at_offset, wrap included *)
Lemma notation_relative s ar ac dr dc : sheet_ok s = true ->
  bind (create (form_prefix 0 s ++ r1c1_rel_text dr dc) [] (Some (ar, ac))) (fun v => Ok v)
  = bind (address_at_offset (ACell s ac ar) dr dc) (fun a => Ok (VA a)).
Proof.
  intros Hs. rewrite (notation_r1c1_rel s _ ar ac dr dc (form_prefix_ok 0 s Hs)), offset_value. reflexivity.
Qed.

Example ex_rel : create (r1c1_rel_text (-1) (-1)) [] (Some (1, 1)) = Ok (VA (ACell [] 16384 1048576)).
Proof. vm_compute. reflexivity. Qed.
