(* Proofs/C01Weak.v — C01, part 6: the coherence theorems under the WEAK
   non-blank condition.

   [sem_nonblank] (side condition (d)) asks [sem n vals <> VNone] for EVERY
   argument list, attainable or not.  A node whose meaning is "the value of my
   precedent" — the reference cell of an unbounded range (S!B:B standing for
   S!B1:B4, Model/GraphExpr.v FAlias) — does not meet it: [sem r [VNone] =
   VNone].  But the machine and the specification only ever hand a node one
   value per precedent, and the value of a formula/range precedent they hand
   over is never blank.  [sem_nonblank_weak] asks for a non-blank result on
   those argument lists only ([args_ok]); every C01 theorem holds under it.

   Method: [guard sem] (the same function on admissible argument lists, 0
   elsewhere) is strongly non-blank, and machine and specification cannot tell
   [sem] from [guard sem] (transfer lemmas: [eval], [build], [step], [run],
   [spec], [Inv] coincide for two semantics that agree on admissible lists). *)
From Coq Require Import List Arith Bool Lia.
From PV Require Import Lib.Py Model.Graph.
From PV Require Import Proofs.C01Base Proofs.C01Eval Proofs.C01Inv Proofs.C01.
Import ListNotations.

Lemma fold_left_ext_in {A B : Type} (f g : A -> B -> A) (l : list B) :
  (forall a b, In b l -> f a b = g a b) -> forall a, fold_left f l a = fold_left g l a.
Proof.
  induction l as [|b l IH]; intros E a; cbn [fold_left]; auto.
  rewrite (E a b) by (left; auto). apply IH. intros; apply E; right; auto.
Qed.

Section Weak.
  Variable W : workbook.

  Notation N := (wb_n W).
  Notation deps := (wb_deps W).
  Notation isinput := (wb_input W).

  (* one value per precedent; the value of a formula/range precedent is not blank *)
  Fixpoint args_okb (ds : list nat) (vals : list pyval) : bool :=
    match ds, vals with
    | [], [] => true
    | d :: ds', v :: vals' => (isinput d || negb (is_none v)) && args_okb ds' vals'
    | _, _ => false
    end.
  Definition args_ok (n : nat) (vals : list pyval) : Prop := args_okb (deps n) vals = true.

  Lemma args_okb_iff ds vals :
    args_okb ds vals = true <-> Forall2 (fun d v => isinput d = false -> v <> VNone) ds vals.
  Proof.
    revert vals. induction ds as [|d ds IH]; intros [|v vals]; cbn [args_okb]; split; intros H;
      try discriminate; try constructor; try (inversion H; fail).
    - apply andb_prop in H. destruct H as [H _]. intros I. rewrite I in H. cbn in H.
      apply negb_true_iff in H. now apply is_none_false.
    - apply andb_prop in H. destruct H as [_ H]. now apply IH.
    - inversion H as [|? ? ? ? P Q]; subst. apply andb_true_intro. split; [|now apply IH].
      destruct (isinput d) eqn:I; auto. cbn. apply negb_true_iff. apply is_none_false. auto.
  Qed.

  Definition sem_nonblank_weak (sem : nat -> list pyval -> pyval) : Prop :=
    forall n vals, n < N -> isinput n = false -> args_ok n vals -> sem n vals <> VNone.

  Lemma nonblank_weaken sem : sem_nonblank W sem -> sem_nonblank_weak sem.
  Proof. intros NB n vals L I _. now apply NB. Qed.

  (* ------------------------------------------------------------ transfer *)
  Section Transfer.
    Variables sem1 sem2 : nat -> list pyval -> pyval.
    Hypothesis WF : wf W.
    Hypothesis NB2 : sem_nonblank W sem2.
    Hypothesis AG : forall n vals, n < N -> isinput n = false -> args_ok n vals ->
                      sem1 n vals = sem2 n vals.

    Lemma eval_nb f c n : n < N -> isinput n = false -> snd (eval W sem2 (S f) c n) <> VNone.
    Proof.
      intros L I. rewrite eval_unfold, I. destruct (is_none (c n)) eqn:E.
      - destruct (fold_left (estep W sem2 f) (deps n) (c, [])) as [c' vals]. cbn [snd]. now apply NB2.
      - cbn [snd]. now apply is_none_false.
    Qed.

    Lemma fold_transfer f :
      (forall d c, d < f -> d < N -> eval W sem1 f c d = eval W sem2 f c d) ->
      forall l, (forall d, In d l -> d < f /\ d < N) ->
      forall c vs, fold_left (estep W sem1 f) l (c, vs) = fold_left (estep W sem2 f) l (c, vs)
        /\ exists vs', snd (fold_left (estep W sem2 f) l (c, vs)) = vs ++ vs' /\ args_okb l vs' = true.
    Proof.
      intros IH. induction l as [|d l IHl]; intros Hl c vs; cbn [fold_left].
      - split; auto. exists []. cbn. now rewrite app_nil_r.
      - destruct (Hl d (or_introl eq_refl)) as [Lf LN].
        assert (E1: estep W sem1 f (c, vs) d = estep W sem2 f (c, vs) d).
        { unfold estep. rewrite IH; auto. }
        destruct (eval W sem2 f c d) as [c2 v] eqn:Ev.
        assert (E2: estep W sem2 f (c, vs) d = (c2, vs ++ [v])).
        { unfold estep. rewrite Ev. reflexivity. }
        rewrite E1, E2.
        destruct (IHl ltac:(intros; apply Hl; right; auto) c2 (vs ++ [v])) as [E (vs' & S1 & OK)].
        split; auto. exists (v :: vs'). split.
        + rewrite S1, <- app_assoc. reflexivity.
        + cbn [args_okb]. rewrite OK, andb_true_r.
          destruct (isinput d) eqn:I; auto. cbn [orb]. apply negb_true_iff, is_none_false.
          destruct f as [|f0]; [lia|].
          pose proof (eval_nb f0 c d LN I) as NBd. rewrite Ev in NBd. exact NBd.
    Qed.

    Lemma eval_transfer : forall f n c, n < f -> n < N -> eval W sem1 f c n = eval W sem2 f c n.
    Proof.
      induction f as [|f IH]; intros n c Lf L; [lia|].
      rewrite !eval_unfold. destruct (isinput n) eqn:I; auto. destruct (is_none (c n)); auto.
      destruct (fold_transfer f (fun d c Hd Ld => IH d c Hd Ld) (deps n)
                  ltac:(intros d Hd; pose proof (deps_lt W WF n d L Hd); split; lia) c [])
        as [E (vs' & S1 & OK)].
      rewrite E. destruct (fold_left (estep W sem2 f) (deps n) (c, [])) as [c' vals].
      cbn [snd app] in S1. subst vals. rewrite AG; auto.
    Qed.

    Lemma build_transfer s n : build W sem1 s n = build W sem2 s n.
    Proof.
      rewrite !build_unfold. cbv zeta. f_equal. apply fold_left_ext_in.
      intros c m Hm. apply in_seq in Hm. unfold bstep.
      destruct (fresh s (closure W (S N) (st_built s) n) m && wb_range W m); auto.
      rewrite eval_transfer; auto; lia.
    Qed.

    Lemma evaluate_transfer s n : n < N -> evaluate W sem1 s n = evaluate W sem2 s n.
    Proof. intros L. unfold evaluate. rewrite build_transfer, eval_transfer; auto. Qed.

    (* operations that name a node of the workbook *)
    Definition op_lt (o : gop) : Prop := match o with Evaluate n => n < N | _ => True end.

    Lemma step_transfer s o : op_lt o -> step W sem1 s o = step W sem2 s o.
    Proof.
      destruct o as [n|a v|n]; cbn [op_lt Graph.step]; intros L.
      - now apply evaluate_transfer.
      - reflexivity.
      - now rewrite build_transfer.
    Qed.

    Lemma run_transfer (P : state -> gop -> Prop) : (forall s o, P s o -> op_lt o) ->
      forall h s, ok_history W sem1 P s h ->
        run W sem1 s h = run W sem2 s h /\ ok_history W sem2 P s h.
    Proof.
      intros PL. induction h as [|o h IH]; intros s OK; [cbn; auto|].
      destruct OK as [Po OK]. cbn [Graph.run ok_history].
      rewrite (step_transfer s o (PL s o Po)) in *.
      destruct (step W sem2 s o) as [s1 v] eqn:St. cbn [fst] in *.
      destruct (IH s1 OK) as [R OK2]. rewrite R. auto.
    Qed.

    Lemma args_spec inp : forall l, (forall d, In d l -> d < N) ->
      args_okb l (map (spec W sem2 inp) l) = true.
    Proof.
      induction l as [|d l IH]; intros Hl; cbn [map args_okb]; auto.
      rewrite IH by (intros; apply Hl; right; auto). rewrite andb_true_r.
      destruct (isinput d) eqn:I; auto. cbn [orb]. apply negb_true_iff, is_none_false.
      apply spec_nonblank; auto. apply Hl. left; auto.
    Qed.

    Lemma spec_transfer inp : forall n, n < N -> spec W sem1 inp n = spec W sem2 inp n.
    Proof.
      induction n as [n IH] using lt_wf_ind. intros L.
      rewrite !spec_unfold by auto. destruct (isinput n) eqn:I; auto.
      assert (E: map (spec W sem1 inp) (deps n) = map (spec W sem2 inp) (deps n)).
      { apply map_ext_in. intros d Hd. pose proof (deps_lt W WF n d L Hd). apply IH; lia. }
      rewrite E. apply AG; auto. unfold args_ok. apply args_spec.
      intros d Hd. eapply deps_ltN; eauto.
    Qed.

    Lemma run_spec_transfer : forall h inp, Forall op_lt h ->
      run_spec W sem1 inp h = run_spec W sem2 inp h.
    Proof.
      induction h as [|o h IH]; intros inp F; cbn [run_spec]; auto.
      inversion F as [|? ? Fo Fh]; subst. rewrite (IH _ Fh). f_equal.
      destruct o; auto. cbn in Fo. now apply spec_transfer.
    Qed.

    Lemma ok_history_lt (P : state -> gop -> Prop) sem : (forall s o, P s o -> op_lt o) ->
      forall h s, ok_history W sem P s h -> Forall op_lt h.
    Proof.
      intros PL. induction h as [|o h IH]; intros s OK; constructor.
      - destruct OK as [Po _]. eauto.
      - destruct OK as [_ OK]. eauto.
    Qed.

    Lemma stored_ok_transfer : stored_ok W sem1 -> stored_ok W sem2.
    Proof.
      intros [S1 S2]. split; auto. intros n L I R H. rewrite <- spec_transfer; auto.
    Qed.

    Lemma Inv_transfer s : Inv W sem2 s <-> Inv W sem1 s.
    Proof.
      split; intros I; split; try apply I.
      - intros n L In H. rewrite spec_transfer by auto. now apply (inv_coh W sem2 s I).
      - intros n L In H. rewrite <- spec_transfer by auto. now apply (inv_coh W sem1 s I).
    Qed.
  End Transfer.

  (* ------------------------------------------------------------ the guard *)
  Variable sem : nat -> list pyval -> pyval.

  Definition guard (n : nat) (vals : list pyval) : pyval :=
    if args_okb (deps n) vals then sem n vals else VInt BinNums.Z0.

  Lemma guard_agree n vals : args_ok n vals -> sem n vals = guard n vals.
  Proof. unfold args_ok, guard. intros ->. reflexivity. Qed.

  Lemma guard_nonblank : sem_nonblank_weak sem -> sem_nonblank W guard.
  Proof.
    intros NBW n vals L I. unfold guard. destruct (args_okb (deps n) vals) eqn:E.
    - now apply NBW. - discriminate.
  Qed.

  Hypothesis WF : wf W.
  Hypothesis NBW : sem_nonblank_weak sem.

  Let NB2 := guard_nonblank NBW.
  Let AG : forall n vals, n < N -> isinput n = false -> args_ok n vals -> sem n vals = guard n vals :=
    fun n vals _ _ H => guard_agree n vals H.

  Lemma ok_op_lt s o : ok_op W s o -> op_lt o.
  Proof. destruct o; cbn; auto. Qed.

  Lemma Inv_guard s : Inv W guard s <-> Inv W sem s.
  Proof. apply (Inv_transfer sem guard WF NB2 AG). Qed.

  Lemma spec_guard inp n : n < N -> spec W sem inp n = spec W guard inp n.
  Proof. apply (spec_transfer sem guard WF NB2 AG). Qed.

  Lemma step_guard s o : op_lt o -> step W sem s o = step W guard s o.
  Proof. apply (step_transfer sem guard WF NB2 AG). Qed.

  (* C01_invariant under the weak condition *)
  Theorem invariant_weak : stored_ok W sem ->
    Inv W sem (init W) /\
    forall s o, Inv W sem s -> ok_op W s o -> Inv W sem (fst (step W sem s o)).
  Proof.
    intros SO. pose proof (stored_ok_transfer sem guard WF NB2 AG SO) as SO2.
    destruct (invariant W guard WF NB2 SO2) as [I0 IS]. split.
    - now apply Inv_guard.
    - intros s o I OK. rewrite (step_guard s o (ok_op_lt s o OK)).
      apply Inv_guard. apply IS; auto. now apply Inv_guard.
  Qed.

  (* C01_coherent_partial under the weak condition *)
  Theorem coherent_weak : stored_ok W sem -> inputs_exact W (wb_inp0 W) ->
    forall h, ok_history W sem (ok_op W) (init W) h ->
      snd (run W sem (init W) h) = run_spec W sem (wb_inp0 W) h.
  Proof.
    intros SO Ex h OK. pose proof (stored_ok_transfer sem guard WF NB2 AG SO) as SO2.
    destruct (run_transfer sem guard WF NB2 AG (ok_op W) ok_op_lt h (init W) OK) as [R OK2].
    rewrite R.
    rewrite (run_spec_transfer sem guard WF NB2 AG h (wb_inp0 W)
               (ok_history_lt (ok_op W) sem ok_op_lt h (init W) OK)).
    now apply coherent.
  Qed.

  Theorem coherent_pointwise_weak : stored_ok W sem -> inputs_exact W (wb_inp0 W) ->
    forall h n, ok_history W sem (ok_op W) (init W) h -> n < N ->
      let s := fst (run W sem (init W) h) in
      Inv W sem s /\ snd (step W sem s (Evaluate n)) = spec W sem (st_cache s) n.
  Proof.
    intros SO Ex h n OK L. pose proof (stored_ok_transfer sem guard WF NB2 AG SO) as SO2.
    destruct (run_transfer sem guard WF NB2 AG (ok_op W) ok_op_lt h (init W) OK) as [R OK2].
    cbv zeta. rewrite R.
    destruct (coherent_pointwise W guard WF NB2 SO2 Ex h n OK2 L) as [I V]. cbv zeta in I, V.
    split; [now apply Inv_guard|].
    rewrite (step_guard _ (Evaluate n) L), V. symmetry. now apply spec_guard.
  Qed.

  (* the two configurations *)
  Theorem coherent_nodata_weak : (forall n, wb_stored W n = VNone) ->
    inputs_exact W (wb_inp0 W) ->
    forall h, ok_history W sem (ok_op_free W) (init W) h ->
      snd (run W sem (init W) h) = run_spec W sem (wb_inp0 W) h.
  Proof.
    intros NS Ex h OK. apply coherent_weak; auto.
    - split; intros; [exfalso|]; auto.
    - eapply ok_history_weaken; [|exact OK]. intros s o. now apply ok_free_ok.
  Qed.

  Theorem coherent_stored_weak : stored_consistent W sem -> inputs_exact W (wb_inp0 W) ->
    forall h, ok_history W sem (ok_op_built W) (init W) h ->
      snd (run W sem (init W) h) = run_spec W sem (wb_inp0 W) h.
  Proof.
    intros SC Ex h OK. apply coherent_weak; auto.
    - split.
      + intros n L I R _. now apply SC.
      + intros p d Ld Hd Ip Rp Sp _. exfalso.
        pose proof (deps_ltN W WF _ _ Ld Hd) as Lp.
        rewrite (SC p Lp Ip Rp), spec_guard in Sp by auto. revert Sp.
        now apply spec_nonblank.
    - eapply ok_history_weaken; [|exact OK]. intros s o. now apply ok_built_ok.
  Qed.

  (* a node of range kind that enters the model gets its value when the graph is
     built (_process_gen_graph: the range_todos; for the reference cell of an
     unbounded range this is repair f35c77a) *)
  Theorem build_range_valued s n m : Inv W sem s -> n < N -> wb_range W m = true ->
    st_built s m = false -> st_built (build W sem s n) m = true ->
    st_cache (build W sem s n) m <> VNone.
  Proof.
    intros I L Rm Bm. rewrite (build_transfer sem guard WF NB2 AG).
    apply Inv_guard in I. rewrite build_unfold. cbv zeta. cbn [st_cache st_built].
    set (b' := closure W (S N) (st_built s) n). intros Bm'.
    destruct (closure_props W WF (st_built s) n L (inv_lt W guard s I) (inv_deps W guard s I))
      as (C1 & C2 & C3 & C4). fold b' in C1, C2, C3, C4.
    destruct (bfold W guard WF NB2 s b' C3 C4 (seq 0 N) (build_c1 W s b')
                (build_c1_coherent W guard WF s b' I)) as [_ F].
    apply F.
    - apply in_seq. pose proof (C3 m Bm'). lia.
    - unfold fresh. now rewrite Bm', Bm, Rm.
  Qed.
End Weak.
