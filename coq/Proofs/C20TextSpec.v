(* Proofs/C20TextSpec.v — the grammar of number formats over 0 # , . % and the
   declarative meaning of TEXT(x, f) on it.  Nothing here refers to the model
   (Model/TextFormat.v): no tokens, no converter.

   GRAMMAR (record [tfmt], well-formedness [fmt_ok], concrete text [fmt_string])

       f  ::=  int  [ '.' frac ]  '%'*
       int  : characters '0' '#' ','  where every ',' stands directly after a
              placeholder ('0' or '#'); may be empty when the '.' is present
       frac : characters '0' '#' (may be empty: "0." is a format)

   A ',' that is directly followed by a placeholder asks for grouping in threes
   ([thousands]); any other ',' of the integer part ("0," "0,.0" "#,,#") has no
   effect in pycel (Excel would scale by 1000: not claimed here).
   EXCLUDED: literal characters and quoted text, a ',' at the start or after a
   ',' or after the '.', a second '.', a '%' anywhere but at the end, sections
   (';'), '?', exponents, dates.

   MEANING [text_spec rnd x F]: with k = number of '%', d = number of
   placeholders after the '.', N = rnd(|x| * 100^k * 10^d) (a natural number;
   [rnd] is the rounding mode), I = N / 10^d, R = N mod 10^d:

       sign     "-" when x < 0
       pad      one "0" for every '0' among the integer placeholders that lie
                to the left of the digits of I (placeholders are matched to the
                digits from the right; a '#' there shows nothing)
       body     the decimal digits of I (none when I = 0), with a ',' inserted
                before every third digit from the right when grouping is asked
       '.'      when the format has one, then the d digits of R with the
                trailing zeros dropped, then one "0" for every '0' among the
                fraction placeholders to the right of those digits
       '%' * k                                                              *)
From Coq Require Import ZArith QArith Qround Qabs List Bool Lia.
From PV Require Import Lib.Py.
Import ListNotations.
Open Scope Z_scope.

Record tfmt := { f_int : str; f_dot : bool; f_frac : str; f_pct : nat }.

Definition ph (c : Z) : bool := (c =? 48) || (c =? 35).          (* '0' or '#' *)

Fixpoint int_ok (after_ph : bool) (s : str) : bool :=
  match s with
  | [] => true
  | c :: s' => if ph c then int_ok true s'
               else (c =? 44) && after_ph && int_ok false s'
  end.

Definition is_nil {A} (l : list A) : bool := match l with [] => true | _ => false end.

Definition fmt_ok (F : tfmt) : bool :=
  int_ok false (f_int F) && forallb ph (f_frac F)
  && (f_dot F || is_nil (f_frac F))              (* no '.': no fraction part *)
  && (f_dot F || negb (is_nil (f_int F))).       (* "" and "%%" are not number formats *)

Definition fmt_string (F : tfmt) : str :=
  f_int F ++ (if f_dot F then 46 :: f_frac F else []) ++ repeat 37 (f_pct F).

(* a ',' directly followed by a placeholder *)
Fixpoint thousands (s : str) : bool :=
  match s with
  | c :: s' => (match s' with d :: _ => (c =? 44) && ph d | [] => false end) || thousands s'
  | [] => false
  end.

Definition zeros_of (s : str) : str := filter (fun c => c =? 48) s.

(* a ',' before every third digit from the right; [commas_lsd] works on the
   digits least significant first *)
Fixpoint commas_lsd (l : str) : str :=
  match l with
  | a :: b :: c :: ((_ :: _) as r) => a :: b :: c :: 44 :: commas_lsd r
  | _ => l
  end.
Definition group3 (s : str) : str := rev (commas_lsd (rev s)).

Definition idigits (i : Z) : str := if i =? 0 then [] else str_of_Z i.

Definition zpad (d : nat) (s : str) : str := repeat 48 (d - length s) ++ s.
Fixpoint drop_trailing0 (s : str) : str :=
  match s with
  | [] => []
  | c :: s' => match drop_trailing0 s' with
               | [] => if c =? 48 then [] else [c]
               | r => c :: r
               end
  end.
Definition fdigits (d : nat) (r : Z) : str := drop_trailing0 (zpad d (str_of_Z r)).

(* the number that is rounded: |x| scaled by the percent signs and 10^d *)
Definition text_arg (x : Q) (F : tfmt) : Q :=
  (Qabs x * inject_Z (100 ^ Z.of_nat (f_pct F)) * inject_Z (10 ^ Z.of_nat (length (f_frac F))))%Q.

Definition text_spec (rnd : Q -> Z) (x : Q) (F : tfmt) : str :=
  let d := length (f_frac F) in
  let N := rnd (text_arg x F) in
  let I := N / 10 ^ Z.of_nat d in
  let R := N mod 10 ^ Z.of_nat d in
  let ds := idigits I in
  let phs := filter ph (f_int F) in
  let pad := zeros_of (firstn (length phs - length ds) phs) in
  let body := if thousands (f_int F) then group3 ds else ds in
  let fd := fdigits d R in
  (if q_ltb x 0 then [45] else []) ++ pad ++ body
  ++ (if f_dot F then 46 :: fd ++ zeros_of (skipn (length fd) (f_frac F)) else [])
  ++ repeat 37 (f_pct F).

(* q lies exactly half way between two integers *)
Definition is_tie (q : Q) : Prop := (q - inject_Z (Qfloor q) == 1 # 2)%Q.

Definition is_tie_b (q : Q) : bool := Qeq_bool (q - inject_Z (Qfloor q)) (1 # 2).
Lemma is_tie_b_spec q : is_tie_b q = true <-> is_tie q.
Proof. apply Qeq_bool_iff. Qed.

(* the two rounding modes, on q >= 0 *)
Definition half_even : Q -> Z := q_round_half_even.
Definition half_away : Q -> Z := q_round_half_up.

(* ---- parsing a text into the grammar (decidable membership) *)
Fixpoint split_at_dot (s : str) : str * option str :=
  match s with
  | [] => ([], None)
  | c :: s' => if c =? 46 then ([], Some s')
               else let '(a, b) := split_at_dot s' in (c :: a, b)
  end.
(* s = body ++ '%' * k, body not ending in '%' *)
Fixpoint split_pct (s : str) : str * nat :=
  match s with
  | [] => ([], O)
  | c :: s' => let '(a, k) := split_pct s' in
               if (c =? 37) && is_nil a then ([], S k) else (c :: a, k)
  end.
Definition parse_fmt (s : str) : option tfmt :=
  let '(body, k) := split_pct s in
  let '(ip, fr) := split_at_dot body in
  let F := {| f_int := ip; f_dot := match fr with Some _ => true | None => false end;
              f_frac := match fr with Some r => r | None => [] end; f_pct := k |} in
  if fmt_ok F then Some F else None.

(* the spec as a function of the value and the text, for the harness: mode 0 =
   half-even, otherwise half-away; a text outside the grammar is Unmodelled *)
Definition spec_entry (a : list pyval) : res pyval :=
  match a with
  | [VInt m; x; VStr f] =>
      match parse_fmt f with
      | None => Raise Unmodelled
      | Some F =>
          let rnd := if m =? 0 then half_even else half_away in
          match x with
          | VInt z => Ok (VTuple [VStr (text_spec rnd (inject_Z z) F); VBool (is_tie_b (text_arg (inject_Z z) F))])
          | VFloat q => Ok (VTuple [VStr (text_spec rnd q F); VBool (is_tie_b (text_arg q F))])
          | VNone => Ok (VTuple [VStr (text_spec rnd 0 F); VBool (is_tie_b (text_arg 0 F))])
          | _ => Raise Unmodelled
          end
      end
  | _ => Raise TypeError
  end.
