(* Proofs/C06Cone.v — one pass of Model/Iter.v over the CONE of the target, on
   a workbook of linear cell formulas (no SUM terms), cyclic or not:
     * the pass computes exactly the formula cells reachable from the target
       (each once: prev = the value before the pass), and touches nothing else;
     * if before the pass the cone's constants carry the fixed point's values
       and its formula cells are within E, every computed cell ends within qE.
   Unlike C06_contraction_pass the bound E is asked of the CONE's current
   values only (not of previous-pass values, not of cells outside the cone),
   so it can be iterated (geometric decay) and closed (a-posteriori bound). *)
From Coq Require Import ZArith QArith Qabs List Bool Lia Lqa.
From PV Require Import Lib.Py Model.Iter Proofs.C06 Proofs.C06Lin Proofs.C06Struct.
Import ListNotations.
Open Scope Q_scope.

Lemma tr_start : forall c st, tr (start_calcs c st) = tr st.
Proof. reflexivity. Qed.

Lemma eval_body_readv : forall w rec_c c st v st',
  eval_body w rec_c c st = Ok (v, st') -> v = readv st' c.
Proof.
  intros w rec_c c st v st' E. unfold eval_body in E.
  destruct (negb (built (getc st c))); [discriminate|].
  destruct (needs_calc st c).
  - destruct (formula (spec w c)) as [[b ts]|].
    + destruct (eval_terms w rec_c ts (Qred b) (start_calcs c st)) as [[q s2]|e]; [|discriminate].
      inversion E; subst; reflexivity.
    + inversion E; subst; reflexivity.
  - inversion E; subst; reflexivity.
Qed.

Lemma eval_cell_readv : forall w fuel c st v st',
  eval_cell w fuel c st = Ok (v, st') -> v = readv st' c.
Proof.
  intros w [|f] c st v st' E; cbn [eval_cell] in E; [discriminate|].
  eapply eval_body_readv; eauto.
Qed.

(* the row norm over the VARIABLES of the system only: references to constant
   cells belong to b of x = Ax + b *)
Fixpoint fnorm (w : wbook) (ts : list term) : Q :=
  match ts with
  | [] => 0
  | TCell a j :: ts' => (if is_formula w j then Qabs a else 0) + fnorm w ts'
  | TSum _ _ :: ts' => fnorm w ts'
  end.
Definition row_bound_f (w : wbook) (q : Q) : Prop :=
  forall c b ts, formula (spec w c) = Some (b, ts) -> fnorm w ts <= q.

Lemma fnorm_le_tnorm : forall w ts, fnorm w ts <= tnorm ts.
Proof.
  intros w; induction ts as [|[a j|a r] ts IH]; cbn [fnorm tnorm]; try lra.
  pose proof (Qabs_nonneg a). destruct (is_formula w j); lra.
Qed.
Lemma row_bound_weaken : forall w q, row_bound w q -> row_bound_f w q.
Proof.
  intros w q H c b ts F. pose proof (H c b ts F). pose proof (fnorm_le_tnorm w ts). lra.
Qed.

Section Cone.
Variable w : wbook.
Variable xs : nat -> Q.
Variables q E : Q.
Variable S : nat -> Prop.
Variable s0 : state.          (* the state the pass starts from *)
Hypothesis Hns : no_sum w.
Hypothesis Hfp : fixed_point w xs.
Hypothesis Hrow : row_bound_f w q.
Hypothesis Hq1 : q <= 1.
Hypothesis HE : 0 <= E.
Hypothesis Hcl : closed w S.
Hypothesis H0const : forall c, S c -> is_formula w c = false -> built (getc s0 c) = true ->
  num (value (getc s0 c)) == xs c.
Hypothesis H0form : forall c, S c -> is_formula w c = true -> built (getc s0 c) = true ->
  dist xs c (value (getc s0 c)) <= E.

Record cinv (st : state) : Prop := {
  ci_built : forall c, built (getc st c) = built (getc s0 c);
  ci_comp : forall c, memb c (computed (tr st)) = true ->
              S c /\ is_formula w c = true /\ wip (getc st c) = false /\
              built (getc st c) = true /\ value (getc st c) <> None;
  ci_wip : forall c, wip (getc st c) = true -> S c /\ is_formula w c = true;
  ci_same : forall c, memb c (computed (tr st)) = false -> wip (getc st c) = false ->
              getc st c = getc s0 c;
  ci_prev : forall c, memb c (computed (tr st)) = true \/ wip (getc st c) = true ->
              prev (getc st c) = value (getc s0 c);
  ci_num : forall c, memb c (computed (tr st)) = true -> dist xs c (value (getc st c)) <= q * E;
  ci_cov : forall c b ts a j, memb c (computed (tr st)) = true ->
              formula (spec w c) = Some (b, ts) -> In (TCell a j) ts -> is_formula w j = true ->
              memb j (computed (tr st)) = true \/ wip (getc st j) = true }.

Definition covered (j : nat) (st : state) : Prop :=
  is_formula w j = true -> memb j (computed (tr st)) = true \/ wip (getc st j) = true.

Lemma covered_ext : forall j st st', ext st st' -> covered j st -> covered j st'.
Proof.
  intros j st st' (_ & W & M) H Fj. destruct (H Fj) as [K|K]; [left; apply M; exact K|right].
  rewrite W. exact K.
Qed.

Lemma qE_le : q * E <= E.
Proof. apply qE_le_E; auto. Qed.

Lemma read_cone : forall c st, S c -> cinv st -> built (getc st c) = true ->
  dist xs c (readv st c) <= E.
Proof.
  intros c st Hc I B. unfold readv. pose proof (ci_built st I c) as Bc. rewrite B in Bc. symmetry in Bc.
  destruct (wip (getc st c)) eqn:Wc.
  - rewrite (ci_prev st I c (or_intror Wc)). destruct (ci_wip st I c Wc) as [_ Fc]. apply H0form; auto.
  - destruct (memb c (computed (tr st))) eqn:Mc.
    + pose proof (ci_num st I c Mc). pose proof qE_le. lra.
    + rewrite (ci_same st I c Mc Wc). destruct (is_formula w c) eqn:Fc.
      * apply H0form; auto.
      * pose proof (H0const c Hc Fc Bc) as Hv. unfold dist. apply abs_le. lra.
Qed.

Lemma read_const : forall c st, S c -> cinv st -> built (getc st c) = true ->
  is_formula w c = false -> num (readv st c) == xs c.
Proof.
  intros c st Hc I B Fc. unfold readv. pose proof (ci_built st I c) as Bc. rewrite B in Bc. symmetry in Bc.
  destruct (wip (getc st c)) eqn:Wc.
  - destruct (ci_wip st I c Wc) as [_ Fc']. congruence.
  - destruct (memb c (computed (tr st))) eqn:Mc.
    + destruct (ci_comp st I c Mc) as (_ & Fc' & _). congruence.
    + rewrite (ci_same st I c Mc Wc). apply H0const; auto.
Qed.

Definition exact_const (j : nat) (v : val) : Prop := is_formula w j = false -> num v == xs j.

Section Rec.
Variable rec_c : nat -> state -> res (val * state).
Hypothesis Hext : forall c st v st', rec_c c st = Ok (v, st') -> ext st st'.
Hypothesis Hrec : forall j st v st', S j -> cinv st -> rec_c j st = Ok (v, st') ->
  cinv st' /\ (dist xs j v <= E /\ exact_const j v) /\ covered j st'.

Lemma eval_terms_cone : forall ts acc st q' st',
  no_sum_terms ts -> (forall a j, In (TCell a j) ts -> S j) -> cinv st ->
  eval_terms w rec_c ts acc st = Ok (q', st') ->
  cinv st' /\ Qabs (q' - (acc + tdot ts xs)) <= fnorm w ts * E /\
  (forall a j, In (TCell a j) ts -> covered j st').
Proof.
  induction ts as [|[a j|a r] ts IH]; intros acc st q' st' Hn HS I Ev; cbn [eval_terms] in Ev.
  - inversion Ev; subst. split; [exact I|]. split; [|intros a j []].
    cbn [tdot fnorm]. apply abs_le. lra.
  - destruct (rec_c j st) as [[v s1]|e] eqn:E1; [|discriminate].
    destruct (Hrec _ _ _ _ (HS a j (or_introl eq_refl)) I E1) as (I1 & (D1 & X1) & C1).
    assert (Hn' : no_sum_terms ts) by (intros t Ht; apply Hn; right; exact Ht).
    assert (HS' : forall a' j', In (TCell a' j') ts -> S j') by (intros a' j' Hin; apply (HS a' j'); right; exact Hin).
    pose proof (eval_terms_ext w rec_c Hext _ _ _ _ _ Ev) as X2.
    destruct (IH _ _ _ _ Hn' HS' I1 Ev) as (I2 & D2 & C2).
    split; [exact I2|]. split.
    + cbn [tdot fnorm]. unfold dist in D1.
      pose proof (Qred_correct (acc + a * num v)) as Hr.
      set (r := Qred (acc + a * num v)) in *.
      apply abs_le in D2. unfold exact_const in X1. destruct (is_formula w j).
      * assert (H1 : Qabs (a * (num v - xs j)) <= Qabs a * E) by (apply mul_bound; exact D1).
        apply abs_le in H1. apply abs_le. lra.
      * assert (H1 : a * num v == a * xs j) by (rewrite (X1 eq_refl); reflexivity).
        apply abs_le. lra.
    + intros a' j' [Heq|Hin].
      * inversion Heq; subst. eapply covered_ext; eauto.
      * apply (C2 a' j' Hin).
  - exfalso. apply (Hn (TSum a r)). left; reflexivity.
Qed.

Lemma eval_body_cone : forall c st v st',
  S c -> cinv st -> eval_body w rec_c c st = Ok (v, st') ->
  cinv st' /\ (dist xs c v <= E /\ exact_const c v) /\ covered c st'.
Proof.
  intros c st v st' Hc I Ev. unfold eval_body in Ev.
  destruct (built (getc st c)) eqn:B; cbn [negb] in Ev; [|discriminate].
  assert (Hread : dist xs c (readv st c) <= E /\ exact_const c (readv st c)).
  { split; [apply read_cone; auto|]. intros Fc. apply read_const; auto. }
  destruct (needs_calc st c) eqn:N.
  - destruct (formula (spec w c)) as [[b ts]|] eqn:F.
    + assert (Fc : is_formula w c = true) by (unfold is_formula; rewrite F; reflexivity).
      destruct (needs_calc_true _ _ N) as [Wc Nc].
      pose proof (built_in_range _ _ B) as L.
      pose proof (getc_start_same c st L) as G0.
      pose proof (fun c' => getc_start_other c c' st) as G1.
      assert (I1 : cinv (start_calcs c st)).
      { constructor.
        - intros c'. destruct (Nat.eq_dec c c') as [<-|Hne].
          + rewrite G0. cbn [built]. apply (ci_built st I).
          + rewrite G1 by exact Hne. apply (ci_built st I).
        - intros c' Hm. rewrite tr_start in Hm. destruct (ci_comp st I c' Hm) as (H1 & H2 & H3 & H4 & H5).
          destruct (Nat.eq_dec c c') as [<-|Hne]; [congruence|]. rewrite G1 by exact Hne. repeat split; auto.
        - intros c' Hw. destruct (Nat.eq_dec c c') as [<-|Hne]; [auto|].
          rewrite G1 in Hw by exact Hne. apply (ci_wip st I); exact Hw.
        - intros c' Hm Hw. rewrite tr_start in Hm. destruct (Nat.eq_dec c c') as [<-|Hne].
          + rewrite G0 in Hw. discriminate.
          + rewrite G1 in * by exact Hne. apply (ci_same st I); auto.
        - intros c' Hor. rewrite tr_start in Hor. destruct (Nat.eq_dec c c') as [<-|Hne].
          + rewrite G0. cbn [prev]. rewrite (ci_same st I c Nc Wc). reflexivity.
          + rewrite G1 in * by exact Hne. apply (ci_prev st I); auto.
        - intros c' Hm. rewrite tr_start in Hm. destruct (Nat.eq_dec c c') as [<-|Hne]; [congruence|].
          rewrite G1 by exact Hne. apply (ci_num st I); auto.
        - intros c' b' ts' a j Hm F' Hin Fj. rewrite tr_start in *.
          destruct (Nat.eq_dec c j) as [<-|Hne].
          + right. rewrite G0. reflexivity.
          + rewrite G1 by exact Hne. eapply (ci_cov st I); eauto. }
      destruct (eval_terms w rec_c ts (Qred b) (start_calcs c st)) as [[qv s2]|e] eqn:E1; [|discriminate].
      pose proof (eval_terms_ext w rec_c Hext _ _ _ _ _ E1) as ((L2q & _) & W2 & _).
      assert (HSts : forall a j, In (TCell a j) ts -> S j) by (intros a j Hin; eapply Hcl; eauto).
      destruct (eval_terms_cone _ _ _ _ _ (Hns _ _ _ F) HSts I1 E1) as (I2 & D2 & C2).
      inversion Ev; subst. clear Ev.
      assert (L2 : (c < length (cells s2))%nat) by (rewrite L2q; cbn; rewrite upd_length; exact L).
      assert (Wc2 : wip (getc s2 c) = true) by (rewrite W2, G0; reflexivity).
      pose proof (getc_setter_same c (Some qv) s2 L2) as G3.
      pose proof (fun c' => getc_setter_other c c' (Some qv) s2) as G4.
      assert (T3 : computed (tr (setter c (Some qv) s2)) = add c (computed (tr s2))) by reflexivity.
      assert (D : dist xs c (Some qv) <= q * E).
      { unfold dist. cbn [num]. pose proof (Hfp _ _ _ F) as Hx. pose proof (Hrow _ _ _ F) as Hr.
        pose proof (Qred_correct b) as Hb. set (rb := Qred b) in *.
        assert (Hm : fnorm w ts * E <= q * E) by (apply Qmult_le_compat_r; auto).
        apply abs_le in D2. apply abs_le. lra. }
      split; [|split].
      * constructor.
        -- intros c'. destruct (Nat.eq_dec c c') as [<-|Hne].
           ++ rewrite G3. cbn [built]. apply (ci_built s2 I2).
           ++ rewrite G4 by exact Hne. apply (ci_built s2 I2).
        -- intros c' Hm. rewrite T3 in Hm. destruct (Nat.eq_dec c c') as [<-|Hne].
           ++ rewrite G3. cbn [wip built value]. repeat split; auto; [|discriminate].
              rewrite (ci_built s2 I2), <- (ci_built st I). exact B.
           ++ rewrite memb_add_other in Hm by auto. rewrite G4 by exact Hne. apply (ci_comp s2 I2); auto.
        -- intros c' Hw. destruct (Nat.eq_dec c c') as [<-|Hne].
           ++ rewrite G3 in Hw. discriminate.
           ++ rewrite G4 in Hw by exact Hne. apply (ci_wip s2 I2); exact Hw.
        -- intros c' Hm Hw. rewrite T3 in Hm. destruct (Nat.eq_dec c c') as [<-|Hne].
           ++ rewrite memb_add_same in Hm. discriminate.
           ++ rewrite memb_add_other in Hm by auto. rewrite G4 in * by exact Hne. apply (ci_same s2 I2); auto.
        -- intros c' Hor. rewrite T3 in Hor. destruct (Nat.eq_dec c c') as [<-|Hne].
           ++ rewrite G3. cbn [prev]. apply (ci_prev s2 I2). right; exact Wc2.
           ++ rewrite memb_add_other in Hor by auto. rewrite G4 in * by exact Hne. apply (ci_prev s2 I2); auto.
        -- intros c' Hm. rewrite T3 in Hm. destruct (Nat.eq_dec c c') as [<-|Hne].
           ++ rewrite G3. cbn [value]. exact D.
           ++ rewrite memb_add_other in Hm by auto. rewrite G4 by exact Hne. apply (ci_num s2 I2); auto.
        -- intros c' b' ts' a j Hm F' Hin Fj. rewrite T3 in *.
           destruct (Nat.eq_dec c j) as [<-|Hnj]; [left; apply memb_add_same|].
           rewrite memb_add_other by auto. rewrite G4 by exact Hnj.
           destruct (Nat.eq_dec c c') as [<-|Hne].
           ++ rewrite F in F'. inversion F'; subst. apply (C2 a j Hin Fj).
           ++ rewrite memb_add_other in Hm by auto. eapply (ci_cov s2 I2); eauto.
      * unfold readv. rewrite G3. cbn [wip value]. split; [pose proof qE_le; lra|].
        intros Fc'. congruence.
      * intros _. left. rewrite T3. apply memb_add_same.
    + inversion Ev; subst. split; [exact I|]. split; [exact Hread|].
      intros Fc. unfold is_formula in Fc. rewrite F in Fc. discriminate.
  - inversion Ev; subst. split; [exact I|]. split; [exact Hread|].
    intros _. destruct (needs_calc_false _ _ N); auto.
Qed.
End Rec.

Lemma eval_cell_cone : forall fuel c st v st',
  S c -> cinv st -> eval_cell w fuel c st = Ok (v, st') ->
  cinv st' /\ (dist xs c v <= E /\ exact_const c v) /\ covered c st'.
Proof.
  induction fuel as [|f IH]; intros c st v st' Hc I Ev; cbn [eval_cell] in Ev; [discriminate|].
  eapply eval_body_cone; eauto. apply eval_cell_ext.
Qed.
End Cone.

(* ------------------------------------------------------------------ *)
(* The pass over the cone of the target, as one statement.              *)

(* before a pass: target built, nothing on the stack, the cone's built constants
   carry the fixed point's values *)
Definition cone_ready (w : wbook) (xs : nat -> Q) (t : nat) (st : state) : Prop :=
  built (getc st t) = true /\
  (forall c, wip (getc st c) = false) /\
  (forall c, reach w t c -> is_formula w c = false -> built (getc st c) = true ->
             num (value (getc st c)) == xs c).

(* the cone's built formula cells are within E of the fixed point *)
Definition cone_within (w : wbook) (xs : nat -> Q) (t : nat) (E : Q) (st : state) : Prop :=
  forall c, reach w t c -> is_formula w c = true -> built (getc st c) = true ->
            dist xs c (value (getc st c)) <= E.

Lemma cone_pass : forall w xs q E,
  no_sum w -> fixed_point w xs -> row_bound_f w q -> q <= 1 -> 0 <= E ->
  forall t s v s',
  cone_ready w xs t s -> cone_within w xs t E s ->
  evaluate_pass w t (inc_iteration s) = Ok (v, s') ->
  (forall c, In c (computed (tr s')) <-> reach w t c /\ is_formula w c = true) /\
  (forall c, In c (computed (tr s')) ->
             built (getc s' c) = true /\ value (getc s' c) <> None /\
             prev (getc s' c) = value (getc s c) /\
             dist xs c (value (getc s' c)) <= q * E) /\
  (forall c, ~ In c (computed (tr s')) -> getc s' c = getc s c) /\
  v = value (getc s' t) /\
  cone_ready w xs t s' /\ cone_within w xs t (q * E) s'.
Proof.
  intros w xs q E Hns Hfp Hrow Hq1 HE t s v s' (B & Wn & Cn) Hw Ev. unfold evaluate_pass in Ev.
  change (getc (inc_iteration s) t) with (getc s t) in Ev. rewrite B in Ev.
  set (s0 := inc_iteration s) in *.
  assert (G0 : forall c, getc s0 c = getc s c) by reflexivity.
  assert (I0 : cinv w xs q E (reach w t) s0 s0).
  { assert (T0 : computed (tr s0) = []) by reflexivity.
    constructor.
    - reflexivity.
    - intros c H. rewrite T0 in H. discriminate.
    - intros c H. rewrite G0, Wn in H. discriminate.
    - reflexivity.
    - intros c [H|H]; [rewrite T0 in H; discriminate | rewrite G0, Wn in H; discriminate].
    - intros c H. rewrite T0 in H. discriminate.
    - intros c b ts a j H. rewrite T0 in H. discriminate. }
  pose proof (eval_cell_ext _ _ _ _ _ _ Ev) as ((L1 & B1) & W1 & _).
  destruct (eval_cell_cone w xs q E (reach w t) s0 Hns Hfp Hrow Hq1 HE (reach_closed w t)
              Cn Hw _ _ _ _ _ (reach_refl w t) I0 Ev) as (I1 & _ & C1).
  assert (Wn' : forall c, wip (getc s' c) = false) by (intros c; rewrite W1, G0; apply Wn).
  assert (Hcomp : forall c, In c (computed (tr s')) <-> reach w t c /\ is_formula w c = true).
  { intros c; split.
    - intros Hc. apply memb_In in Hc. destruct (ci_comp _ _ _ _ _ _ _ I1 c Hc) as (H1 & H2 & _). auto.
    - intros [Hr Hf]. revert Hf. induction Hr as [|c b ts a j Hr IH F Hin]; intros Hf.
      + destruct (C1 Hf) as [K|K]; [apply memb_In; exact K|]. rewrite Wn' in K. discriminate.
      + assert (Fc : is_formula w c = true) by (unfold is_formula; rewrite F; reflexivity).
        specialize (IH Fc). apply memb_In in IH.
        destruct (ci_cov _ _ _ _ _ _ _ I1 c b ts a j IH F Hin Hf) as [K|K]; [apply memb_In; exact K|].
        rewrite Wn' in K. discriminate. }
  assert (Hsame : forall c, ~ In c (computed (tr s')) -> getc s' c = getc s c).
  { intros c Hc. rewrite <- G0. apply (ci_same _ _ _ _ _ _ _ I1); [|apply Wn'].
    destruct (memb c (computed (tr s'))) eqn:M; auto. exfalso. apply Hc, memb_In, M. }
  split; [exact Hcomp|]. split; [|split; [exact Hsame|split; [|split]]].
  - intros c Hc. pose proof Hc as Hc'. apply memb_In in Hc.
    destruct (ci_comp _ _ _ _ _ _ _ I1 c Hc) as (_ & _ & _ & Hb & Hs).
    split; [exact Hb|]. split; [exact Hs|]. split.
    + rewrite (ci_prev _ _ _ _ _ _ _ I1 c (or_introl Hc)). rewrite G0. reflexivity.
    + apply (ci_num _ _ _ _ _ _ _ I1); exact Hc.
  - apply eval_cell_readv in Ev. rewrite Ev. unfold readv. rewrite Wn'. reflexivity.
  - split; [rewrite B1; exact B|]. split; [exact Wn'|].
    intros c Hr Hf Bc. rewrite Hsame.
    + apply Cn; auto. rewrite <- G0, <- B1. exact Bc.
    + intros Hin. apply Hcomp in Hin. destruct Hin as [_ Hf']. congruence.
  - intros c Hr Hf Bc. apply (ci_num _ _ _ _ _ _ _ I1). apply memb_In. apply Hcomp. auto.
Qed.
