(* Proofs/C02Parse.v — the shunting-yard parser computes the grammar's tree.

   Key ideas (DESIGN-prototypes.md §1, extended to calls):  [post c] is the true
   postfix form of a concrete tree; [pend c] is its right spine, left on the
   operator stack after [flat c] has been consumed, [emitted c] what has reached
   the output; [ok stk n] says that every operator above the nearest open
   bracket binds looser than level [n] (or is a prefix operator and n >= 7) and
   that this bracket is a plain parenthesis.  [run_cst] is the generalised
   induction over the tree, the pending stack, the were_values / arg_count
   stacks and the rest of the input.  The operator table is the generated
   Token.precedences: [sprec_*]/[sleft_*] are computed from it.
   The inductions are carried out for [WFA] (WF plus array constants, which the
   pre-pass turns into ARRAY( ARRAYROW( .. ), ARRAYROW( .. ) )); the theorems
   for [WF] are the restriction ([WF_WFA]). *)
From Coq Require Import ZArith List Bool Lia.
From PV Require Import Lib.Py Model.Syntax.
Import ListNotations.
Open Scope Z_scope.

(* ------------------------------------------------------------ the table *)
Lemma sprec_bin o : sprec (SBin o) = bprec o. Proof. destruct o; reflexivity. Qed.
Lemma sprec_pre : sprec SPre = 7. Proof. reflexivity. Qed.
Lemma sprec_post : sprec SPost = 6. Proof. reflexivity. Qed.
Lemma sleft_bin o : sleft (SBin o) = true. Proof. destruct o; reflexivity. Qed.
Lemma sleft_pre : sleft SPre = false. Proof. reflexivity. Qed.
Lemma sleft_post : sleft SPost = true. Proof. reflexivity. Qed.
Lemma bprec_range o : 1 <= bprec o <= 5 \/ bprec o = 8. Proof. destruct o; cbn; lia. Qed.

(* ------------------------------------------------------------ induction *)
Lemma cst_ind' (P : cst -> Prop) :
  (forall k v, P (CAtom k v)) -> (forall c, P c -> P (CParen c)) ->
  (forall c, P c -> P (CNeg c)) -> (forall c, P c -> P (CPct c)) ->
  (forall o l r, P l -> P r -> P (CBin o l r)) ->
  (forall n args, Forall P args -> P (CCall n args)) ->
  (forall rows, Forall P rows -> P (CArray rows)) ->
  (forall items, Forall P items -> P (CRow items)) ->
  P CEmpty -> forall c, P c.
Proof.
  intros HA HP HN HPc HB HC HAr HR HE. fix IH 1.
  intros [k v|c|c|c|o l r|n args|rows|items|].
  - apply HA.
  - apply HP, IH.
  - apply HN, IH.
  - apply HPc, IH.
  - apply HB; apply IH.
  - apply HC. induction args as [|a args IHl]; constructor; [apply IH|apply IHl].
  - apply HAr. induction rows as [|a args IHl]; constructor; [apply IH|apply IHl].
  - apply HR. induction items as [|a args IHl]; constructor; [apply IH|apply IHl].
  - apply HE.
Qed.

Definition argok (a : cst) : Prop := if is_empty a then True else WFA a.
Lemma WF_call n args : WFA (CCall n args) <-> Forall argok args /\ args <> [CEmpty].
Proof.
  cbn [WFA]. split; intros [H1 H2]; split; auto; clear H2.
  - induction args as [|a l IH]; [constructor|]. destruct H1 as [Ha Hl].
    constructor; [exact Ha|apply IH, Hl].
  - induction H1 as [|a l Ha Hl IH]; [exact I|]. split; [exact Ha|exact IH].
Qed.

(* ------------------------------------------------------------ postfix forms *)
Fixpoint post (c : cst) : list rpn :=
  match c with
  | CAtom k v => [RAtom k v]
  | CParen c => post c
  | CNeg c => post c ++ [RPre]
  | CPct c => post c ++ [RPost]
  | CBin o l r => post l ++ post r ++ [RBin o]
  | CCall n args => concat (map post args) ++ [RFunc n (length args)]
  | CArray rows => concat (map post rows) ++ [RFunc n_array (length rows)]
  | CRow items => concat (map post items) ++ [RFunc n_arrayrow (length items)]
  | CEmpty => [RAtom KEmpty []]
  end.

Fixpoint pend (c : cst) : list sop :=
  match c with
  | CNeg c => pend c ++ [SPre]
  | CPct _ => [SPost]
  | CBin o l r => pend r ++ [SBin o]
  | _ => []
  end.

Fixpoint emitted (c : cst) : list rpn :=
  match c with
  | CNeg c => emitted c
  | CPct c => emitted c ++ map rpn_of (pend c)
  | CBin o l r => emitted l ++ map rpn_of (pend l) ++ emitted r
  | _ => post c
  end.

Lemma post_split c : post c = emitted c ++ map rpn_of (pend c).
Proof.
  induction c using cst_ind'; cbn [post emitted pend]; rewrite ?map_app; cbn [map rpn_of];
    rewrite ?IHc, ?IHc1, ?IHc2, ?app_nil_r, <- ?app_assoc; auto.
Qed.

Lemma pend_props c : WFA c ->
  Forall (fun s => is_open s = false /\ top c <= sprec s) (pend c).
Proof.
  induction c using cst_ind'; cbn [WFA pend top]; intros W; try (constructor; fail).
  - destruct W as [W1 W2]. apply Forall_app; split.
    + eapply Forall_impl; [|apply IHc; auto]. cbn. intros s [A B]. split; auto. lia.
    + repeat constructor. rewrite sprec_pre. lia.
  - repeat constructor. rewrite sprec_post. lia.
  - destruct W as (W1 & W2 & W3 & W4). apply Forall_app; split.
    + eapply Forall_impl; [|apply IHc2; auto]. cbn. intros s [A B]. split; auto. lia.
    + repeat constructor. rewrite sprec_bin. lia.
Qed.
Lemma pend_nonopen c : WFA c -> Forall (fun s => is_open s = false) (pend c).
Proof. intros W. eapply Forall_impl; [|apply pend_props; auto]. cbn. tauto. Qed.

(* ------------------------------------------------------------ the stack *)
Fixpoint ok (stk : list sop) (n : Z) : Prop :=
  match stk with
  | [] => True
  | s :: stk' =>
      if is_open s then is_funcopen s = false
      else (sprec s < n \/ (s = SPre /\ 7 <= n)) /\ ok stk' n
  end.

Lemma ok_mono stk n m : ok stk n -> n <= m -> ok stk m.
Proof.
  induction stk as [|s stk IH]; cbn; auto. destruct (is_open s); auto.
  intros [[A|[A B]] C] L; split; auto; [left|right]; try split; auto; lia.
Qed.

Definition nofunc_head (stk : list sop) : Prop :=
  match stk with SFunc _ :: _ => False | _ => True end.
Lemma ok_nofunc stk n : ok stk n -> nofunc_head stk.
Proof. destruct stk as [|[] stk]; cbn; auto. discriminate. Qed.

Lemma popwhile_all t p stk out :
  Forall (fun s => is_open s = false /\ plt t s = true) p ->
  popwhile t (p ++ stk) out = popwhile t stk (out ++ map rpn_of p).
Proof.
  revert out. induction p as [|s p IH]; intros out F; cbn [app map]. now rewrite app_nil_r.
  inversion F as [|? ? [A B] F']; subst. cbn [popwhile]. rewrite A, B. cbn [negb andb].
  rewrite IH; auto. now rewrite <- app_assoc.
Qed.

Lemma popwhile_stop t stk out :
  ok stk (sprec t) -> sprec t <> 7 -> popwhile t stk out = (stk, out).
Proof.
  destruct stk as [|s stk]; cbn [popwhile ok]; auto. intros K L7.
  destruct (is_open s) eqn:E; cbn [negb andb]; auto.
  destruct K as [[A|[A B]] _]; unfold plt.
  - destruct (Z.ltb_spec (sprec t) (sprec s)); try lia.
    destruct (Z.eqb_spec (sprec t) (sprec s)); try lia. now rewrite andb_false_r.
  - subst s. rewrite sprec_pre.
    destruct (Z.ltb_spec (sprec t) 7); try lia.
    destruct (Z.eqb_spec (sprec t) 7); try lia. now rewrite andb_false_r.
Qed.

Lemma popwhile_pre stk out : ok stk 7 -> popwhile SPre stk out = (stk, out).
Proof.
  destruct stk as [|s stk]; cbn [popwhile ok]; auto. intros K.
  destruct (is_open s) eqn:E; cbn [negb andb]; auto.
  unfold plt. rewrite sleft_pre, sprec_pre. cbn [andb]. rewrite orb_false_r.
  destruct K as [[A|[A B]] _].
  - destruct (Z.ltb_spec 7 (sprec s)); auto; lia.
  - subst s. rewrite sprec_pre. reflexivity.
Qed.

Lemma plt_ge t s : sleft t = true -> sprec t <= sprec s -> plt t s = true.
Proof.
  intros L H. unfold plt. rewrite L. cbn [andb].
  destruct (Z.ltb_spec (sprec t) (sprec s)); auto.
  destruct (Z.eqb_spec (sprec t) (sprec s)); auto. lia.
Qed.

Lemma popto_all p s stk out : Forall (fun s => is_open s = false) p -> is_open s = true ->
  popto (p ++ s :: stk) out = (s :: stk, out ++ map rpn_of p).
Proof.
  revert out. induction p as [|x p IH]; intros out F O; cbn [app map popto].
  - rewrite O. now rewrite app_nil_r.
  - inversion F as [|? ? A F']; subst. rewrite A. rewrite IH; auto. now rewrite <- app_assoc.
Qed.

Lemma flush_all p out : Forall (fun s => is_open s = false) p ->
  flush p out = Some (out ++ map rpn_of p).
Proof.
  revert out. induction p as [|s p IH]; intros out F; cbn. now rewrite app_nil_r.
  inversion F as [|? ? A F']; subst. rewrite A. rewrite IH; auto. now rewrite <- app_assoc.
Qed.

(* one step of the main loop for the bracket tokens *)
Lemma run_close_paren p stk out wv ac rest :
  Forall (fun s => is_open s = false) p -> nofunc_head stk ->
  run (TParenClose :: rest) (p ++ SParen :: stk) out wv ac
  = run rest stk (out ++ map rpn_of p) wv ac.
Proof.
  intros F N. cbn [run]. rewrite popto_all by auto.
  destruct stk as [|[] stk]; cbn in N; try contradiction; reflexivity.
Qed.

Lemma run_close_func p n stk out b w k a rest :
  Forall (fun s => is_open s = false) p ->
  run (TParenClose :: rest) (p ++ SParen :: SFunc n :: stk) out (b :: w) (k :: a)
  = run rest stk ((out ++ map rpn_of p) ++ [RFunc n (k + (if b then 1 else 0))%nat]) w a.
Proof. intros F. cbn [run]. rewrite popto_all by auto. reflexivity. Qed.

Lemma run_sep p stk out b w k a rest :
  Forall (fun s => is_open s = false) p ->
  run (TSepArg :: rest) (p ++ SParen :: stk) out (b :: w) (k :: a)
  = run rest (SParen :: stk) (out ++ map rpn_of p) (false :: w) (S k :: a).
Proof. intros F. cbn [run]. rewrite popto_all by auto. reflexivity. Qed.

Lemma run_op t rest stk out wv ac (s : sop) :
  (t = TPre /\ s = SPre) \/ (t = TPost /\ s = SPost) \/ (exists o, t = TBin o /\ s = SBin o) ->
  run (t :: rest) stk out wv ac
  = run rest (s :: fst (popwhile s stk out)) (snd (popwhile s stk out)) wv ac.
Proof.
  intros [[-> ->]|[[-> ->]|[o [-> ->]]]]; cbn [run]; unfold push_op;
    destruct (popwhile _ stk out); reflexivity.
Qed.

(* ------------------------------------------------------------ amended tokens *)
Fixpoint flatA (c : cst) : list tok :=
  match c with
  | CAtom k v => [TOperand k v]
  | CParen c => TParenOpen :: flatA c ++ [TParenClose]
  | CNeg c => TPre :: flatA c
  | CPct c => flatA c ++ [TPost]
  | CBin o l r => flatA l ++ TBin o :: flatA r
  | CCall n args =>
      TFuncOpen n :: TParenOpen :: join_toks [TSepArg] (map flatA args) ++ [TParenClose]
  | CEmpty => [TOperand KEmpty []]
  | CArray rows =>
      TArrayOpen :: TParenOpen :: join_toks [TParenClose; TSepArg] (map flatA rows)
      ++ [TArrayClose; TParenClose]
  | CRow items => TArrayRowOpen :: TParenOpen :: join_toks [TSepArg] (map flatA items)
  end.

(* the contract of one subtree *)
Definition Q (c : cst) : Prop :=
  forall stk out wv ac rest, ok stk (top c) ->
    run (flatA c ++ rest) stk out wv ac
    = run rest (pend c ++ stk) (out ++ emitted c) (set_top_true wv) ac.

Lemma Q_empty : Q CEmpty.
Proof. intros stk out wv ac rest _. reflexivity. Qed.

Lemma run_args n : forall args, args <> [] ->
  Forall (fun a => Q a /\ Forall (fun s => is_open s = false) (pend a)) args ->
  forall k stk out b w a rest,
  run (join_toks [TSepArg] (map flatA args) ++ TParenClose :: rest)
      (SParen :: SFunc n :: stk) out (b :: w) (k :: a)
  = run rest stk (out ++ concat (map post args) ++ [RFunc n (k + length args)%nat]) w a.
Proof.
  induction args as [|x args IH]; intros NE F k stk out b w a rest; [congruence|].
  inversion F as [|? ? [Qx Px] F']; subst.
  destruct args as [|y args].
  - cbn [map join_toks concat length]. rewrite Qx by (cbn; auto).
    cbn [set_top_true]. rewrite run_close_func by auto.
    rewrite app_nil_r, (post_split x), <- !app_assoc.
    replace (k + 1)%nat with (k + 1)%nat by lia. reflexivity.
  - change (join_toks [TSepArg] (map flatA (x :: y :: args)))
      with (flatA x ++ [TSepArg] ++ join_toks [TSepArg] (map flatA (y :: args))).
    rewrite <- !app_assoc. rewrite Qx by (cbn; auto). cbn [set_top_true app].
    rewrite run_sep by auto.
    rewrite IH by (auto; congruence).
    cbn [map concat length]. rewrite (post_split x), <- !app_assoc.
    replace (S k + S (length args))%nat with (k + S (S (length args)))%nat by lia.
    reflexivity.
Qed.

(* array constants: ARRAY( ARRAYROW( items ) , ARRAYROW( items ) ... ) with the
   last row closed by the ARRAY-CLOSE token itself *)
Lemma Q_atom k v : Q (CAtom k v).
Proof. intros stk out wv ac rest _. reflexivity. Qed.

Lemma items_Q items : Forall const_item items ->
  Forall (fun a => Q a /\ Forall (fun s => is_open s = false) (pend a)) items.
Proof.
  intros F. eapply Forall_impl; [|exact F]. intros a Ha. destruct a; cbn in Ha; try contradiction.
  split; [apply Q_atom|constructor].
Qed.

Lemma run_arrayclose rest stk out wv ac :
  run (TArrayClose :: rest) stk out wv ac = run (TParenClose :: rest) stk out wv ac.
Proof. reflexivity. Qed.

Lemma run_close_func0 n stk out b w k a rest :
  run (TParenClose :: rest) (SParen :: SFunc n :: stk) out (b :: w) (k :: a)
  = run rest stk (out ++ [RFunc n (k + (if b then 1 else 0))%nat]) w a.
Proof.
  pose proof (run_close_func [] n stk out b w k a rest ltac:(constructor)) as H.
  cbn [app map] in H. rewrite app_nil_r in H. exact H.
Qed.

Lemma run_args_ac n : forall args, args <> [] ->
  Forall (fun a => Q a /\ Forall (fun s => is_open s = false) (pend a)) args ->
  forall k stk out b w a rest,
  run (join_toks [TSepArg] (map flatA args) ++ TArrayClose :: rest)
      (SParen :: SFunc n :: stk) out (b :: w) (k :: a)
  = run rest stk (out ++ concat (map post args) ++ [RFunc n (k + length args)%nat]) w a.
Proof.
  induction args as [|x args IH]; intros NE F k stk out b w a rest; [congruence|].
  inversion F as [|? ? [Qx Px] F']; subst.
  destruct args as [|y args].
  - cbn [map join_toks concat length]. rewrite Qx by (cbn; auto).
    cbn [set_top_true]. rewrite run_arrayclose, run_close_func by auto.
    rewrite app_nil_r, (post_split x), <- !app_assoc. reflexivity.
  - change (join_toks [TSepArg] (map flatA (x :: y :: args)))
      with (flatA x ++ [TSepArg] ++ join_toks [TSepArg] (map flatA (y :: args))).
    rewrite <- !app_assoc. rewrite Qx by (cbn; auto). cbn [set_top_true app].
    rewrite run_sep by auto.
    rewrite IH by (auto; congruence).
    cbn [map concat length]. rewrite (post_split x), <- !app_assoc.
    replace (S k + S (length args))%nat with (k + S (S (length args)))%nat by lia.
    reflexivity.
Qed.

Lemma run_rows : forall rows, rows <> [] -> Forall const_row rows ->
  forall k stk out b w a rest,
  run (join_toks [TParenClose; TSepArg] (map flatA rows) ++ TArrayClose :: TParenClose :: rest)
      (SParen :: SFunc n_array :: stk) out (b :: w) (k :: a)
  = run rest stk (out ++ concat (map post rows) ++ [RFunc n_array (k + length rows)%nat]) w a.
Proof.
  induction rows as [|x rows IH]; intros NE F k stk out b w a rest; [congruence|].
  inversion F as [|? ? Rx F']; subst.
  destruct x as [| | | | | | |items|]; cbn [const_row] in Rx; try contradiction.
  destruct Rx as [NEi Fi]. pose proof (items_Q items Fi) as Qi.
  destruct rows as [|y rows].
  - cbn [map join_toks flatA app]. cbn [run]. cbn [set_top_true].
    rewrite (run_args_ac n_arrayrow items NEi Qi).
    rewrite run_close_func0. cbn [map concat post length Nat.add].
    rewrite app_nil_r, <- !app_assoc. reflexivity.
  - change (join_toks [TParenClose; TSepArg] (map flatA (CRow items :: y :: rows)))
      with (flatA (CRow items) ++ [TParenClose; TSepArg]
            ++ join_toks [TParenClose; TSepArg] (map flatA (y :: rows))).
    cbn [flatA]. rewrite <- !app_assoc. cbn [app]. cbn [run]. cbn [set_top_true].
    rewrite (run_args n_arrayrow items NEi Qi).
    rewrite (run_sep [] (SFunc n_array :: stk)) by constructor. cbn [map].
    rewrite IH by (auto; congruence).
    cbn [map concat post length Nat.add]. rewrite app_nil_r, <- !app_assoc.
    replace (S (k + S (length rows)))%nat with (k + S (S (length rows)))%nat by lia.
    reflexivity.
Qed.

Lemma run_cst c : WFA c -> Q c.
Proof.
  induction c as [k v|c IH|c IH|c IH|o l r IHl IHr|n args IH|rows IH|items IH|] using cst_ind';
    intros W; try (cbn in W; contradiction); unfold Q;
    cbn [flatA pend emitted top post]; intros stk out wv ac rest K.
  - reflexivity.
  - cbn [WFA] in W. cbn [app run]. rewrite <- app_assoc.
    rewrite (IH W (SParen :: stk) out wv ac ([TParenClose] ++ rest)) by (cbn; auto).
    cbn [app]. rewrite run_close_paren by (try apply pend_nonopen; eauto using ok_nofunc).
    now rewrite <- app_assoc, <- post_split.
  - destruct W as [W T]. cbn [app].
    rewrite (run_op TPre _ _ _ _ _ SPre) by auto.
    rewrite popwhile_pre by (eapply ok_mono; eauto; cbn; lia). cbn [fst snd].
    rewrite (IH W (SPre :: stk) out wv ac rest).
    + now rewrite <- app_assoc.
    + cbn [ok is_open]. split; [right; split; auto|]. eapply ok_mono; eauto; cbn; lia.
  - destruct W as [W T]. rewrite <- app_assoc.
    rewrite (IH W stk out wv ac ([TPost] ++ rest)) by (eapply ok_mono; eauto; cbn; lia).
    cbn [app]. rewrite (run_op TPost _ _ _ _ _ SPost) by auto.
    rewrite popwhile_all.
    2:{ eapply Forall_impl; [|apply pend_props; auto]. cbn beta. intros s [A B]. split; auto.
        apply plt_ge; [apply sleft_post|rewrite sprec_post; lia]. }
    rewrite popwhile_stop by (rewrite sprec_post; first [exact K|lia]). cbn [fst snd app].
    now rewrite <- app_assoc.
  - destruct W as (Wl & Wr & Tl & Tr). pose proof (bprec_range o) as B5.
    rewrite <- app_assoc, <- app_comm_cons.
    rewrite (IHl Wl stk out wv ac (TBin o :: flatA r ++ rest)) by (eapply ok_mono; eauto).
    rewrite (run_op (TBin o) _ _ _ _ _ (SBin o)) by eauto.
    rewrite popwhile_all.
    2:{ eapply Forall_impl; [|apply pend_props; auto]. cbn beta. intros s [A B]. split; auto.
        apply plt_ge; [apply sleft_bin|rewrite sprec_bin; lia]. }
    rewrite popwhile_stop by (rewrite sprec_bin; first [exact K|lia]). cbn [fst snd].
    rewrite (IHr Wr (SBin o :: stk)).
    + destruct wv; cbn [set_top_true]; rewrite <- !app_assoc; reflexivity.
    + cbn [ok is_open]. split; [left; rewrite sprec_bin; lia|]. eapply ok_mono; eauto. lia.
  - apply WF_call in W. destruct W as [Wa NE]. cbn [app run].
    destruct args as [|x args].
    + cbn [map join_toks app run popto is_open concat length Nat.add]. reflexivity.
    + rewrite <- app_assoc. cbn [app].
      rewrite run_args; [reflexivity|congruence|].
      rewrite Forall_forall in IH, Wa. apply Forall_forall. intros a Ha.
      specialize (IH a Ha). specialize (Wa a Ha). unfold argok in Wa.
      destruct a; cbn [is_empty] in Wa;
        try (split; [apply IH; exact Wa|apply pend_nonopen; exact Wa]).
      split; [apply Q_empty|constructor].
  - cbn [WFA] in W. destruct W as [NE F]. cbn [app]. rewrite <- app_assoc. cbn [app run].
    rewrite (run_rows rows NE F). cbn [Nat.add]. reflexivity.
Qed.

Lemma sy_flatA c : WFA c -> run (flatA c) [] [] [] [] = Some (post c).
Proof.
  intros W. rewrite <- (app_nil_r (flatA c)). rewrite (run_cst c W) by (cbn; auto).
  cbn [run app set_top_true]. rewrite app_nil_r.
  rewrite flush_all by (apply pend_nonopen; auto). now rewrite <- post_split.
Qed.

(* ------------------------------------------------------------ the pre-pass *)
Fixpoint amendx (ts : list tok) (nx : option tok) : list tok :=
  match ts with
  | [] => []
  | t :: ts' => amend1 t (match ts' with [] => nx | t' :: _ => Some t' end) ++ amendx ts' nx
  end.
Lemma amend_amendx ts : amend ts = amendx ts None.
Proof. induction ts as [|t ts IH]; cbn; auto. rewrite IH. destruct ts; reflexivity. Qed.
Lemma amendx_app xs ys nx :
  amendx (xs ++ ys) nx = amendx xs (match ys with [] => nx | t :: _ => Some t end) ++ amendx ys nx.
Proof.
  induction xs as [|x xs IH]; cbn [app amendx]; auto.
  rewrite IH, <- app_assoc. destruct xs; cbn [app]; reflexivity.
Qed.

Definition plain_tok (t : tok) : Prop := t <> TSepArg /\ t <> TFuncClose.
Lemma flat_head c : WFA c -> exists t ts, flat c = t :: ts /\ plain_tok t.
Proof.
  induction c using cst_ind'; cbn [WFA flat]; intros W; try contradiction.
  - eexists _, _; split; [reflexivity|split; discriminate].
  - eexists _, _; split; [reflexivity|split; discriminate].
  - eexists _, _; split; [reflexivity|split; discriminate].
  - destruct W as [W _]. destruct (IHc W) as (t & ts & E & P). rewrite E.
    eexists _, _; split; [reflexivity|exact P].
  - destruct W as (W & _). destruct (IHc1 W) as (t & ts & E & P). rewrite E.
    eexists _, _; split; [reflexivity|exact P].
  - eexists _, _; split; [reflexivity|split; discriminate].
  - eexists _, _; split; [reflexivity|split; discriminate].
Qed.

Definition pre_empty (a : cst) : list tok := if is_empty a then [TOperand KEmpty []] else [].

Lemma amend1_sep_next a rest :
  argok a -> (is_empty a = true -> exists t r, rest = t :: r /\ (t = TSepArg \/ t = TFuncClose)) ->
  amend1 TSepArg (hd_error (flat a ++ rest)) = TSepArg :: pre_empty a.
Proof.
  intros A R. unfold argok, pre_empty in *. destruct (is_empty a) eqn:E.
  - destruct a; try discriminate. destruct (R eq_refl) as (t & r & -> & [->| ->]); reflexivity.
  - destruct (flat_head a A) as (t & ts & F & [P1 P2]). rewrite F. cbn.
    destruct t; try reflexivity; congruence.
Qed.

Definition AQ (c : cst) : Prop := forall nx, amendx (flat c) nx = flatA c.

Lemma amend_args : forall args nx,
  Forall (fun a => argok a /\ (WFA a -> AQ a)) args -> args <> [] ->
  pre_empty (hd CEmpty args) ++ amendx (join_toks [TSepArg] (map flat args) ++ [TFuncClose]) nx
  = join_toks [TSepArg] (map flatA args) ++ [TParenClose].
Proof.
  induction args as [|x args IH]; intros nx F NE; [congruence|].
  inversion F as [|? ? [Ax Qx] F']; subst. cbn [hd].
  assert (X: forall t, pre_empty x ++ amendx (flat x) (Some t) = flatA x).
  { intros t. unfold argok, pre_empty in *. destruct x; cbn [is_empty] in *;
      try (rewrite (Qx Ax); reflexivity). reflexivity. }
  destruct args as [|y args].
  - cbn [map join_toks]. rewrite amendx_app, app_assoc, X. reflexivity.
  - change (join_toks [TSepArg] (map flat (x :: y :: args)))
      with (flat x ++ [TSepArg] ++ join_toks [TSepArg] (map flat (y :: args))).
    change (join_toks [TSepArg] (map flatA (x :: y :: args)))
      with (flatA x ++ [TSepArg] ++ join_toks [TSepArg] (map flatA (y :: args))).
    rewrite <- !app_assoc. rewrite amendx_app. cbn [app]. rewrite app_assoc, X.
    f_equal. cbn [amendx].
    specialize (IH nx F' ltac:(congruence)). cbn [hd] in IH. rewrite <- IH.
    set (J := join_toks [TSepArg] (map flat (y :: args)) ++ [TFuncClose]).
    assert (HJ: amend1 TSepArg (match J with [] => nx | t' :: _ => Some t' end)
                = TSepArg :: pre_empty y).
    { inversion F' as [|? ? [Ay _] F'']; subst.
      assert (E: J = flat y ++ match args with
                               | [] => [TFuncClose]
                               | _ => TSepArg :: join_toks [TSepArg] (map flat args) ++ [TFuncClose]
                               end).
      { unfold J. destruct args; cbn [map join_toks app]; rewrite <- ?app_assoc; reflexivity. }
      set (R := match args with
                | [] => [TFuncClose]
                | _ => TSepArg :: join_toks [TSepArg] (map flat args) ++ [TFuncClose]
                end) in *.
      assert (HR: is_empty y = true -> exists t r, R = t :: r /\ (t = TSepArg \/ t = TFuncClose)).
      { intros _. unfold R. destruct args; eexists _, _; split; try reflexivity; auto. }
      rewrite E, <- (amend1_sep_next y R Ay HR).
      destruct (flat y ++ R) eqn:EE; [|reflexivity].
      apply app_eq_nil in EE. destruct EE as [_ EE]. unfold R in EE. destruct args; discriminate. }
    rewrite HJ. reflexivity.
Qed.

(* array constants through the pre-pass *)
Definition rowbody (c : cst) : list tok :=
  match c with CRow items => join_toks [TSepArg] (map flatA items) | _ => [] end.
Definition row_sep : list tok := [TParenClose; TSepArg; TArrayRowOpen; TParenOpen].

Lemma amend_items : forall items, Forall const_item items -> forall nx,
  amendx (join_toks [TSepArg] (map flat items)) nx = join_toks [TSepArg] (map flatA items).
Proof.
  induction items as [|x items IH]; intros F nx; [reflexivity|].
  inversion F as [|? ? Cx F']; subst. destruct x as [k v| | | | | | | |]; cbn in Cx; try contradiction.
  destruct items as [|y items]; [reflexivity|].
  change (join_toks [TSepArg] (map flat (CAtom k v :: y :: items)))
    with (TOperand k v :: TSepArg :: join_toks [TSepArg] (map flat (y :: items))).
  change (join_toks [TSepArg] (map flatA (CAtom k v :: y :: items)))
    with (TOperand k v :: TSepArg :: join_toks [TSepArg] (map flatA (y :: items))).
  cbn [amendx]. rewrite (IH F' nx). cbn [amend1 app].
  inversion F' as [|? ? Cy F'']; subst. destruct y as [k' v'| | | | | | | |]; cbn in Cy; try contradiction.
  destruct items; reflexivity.
Qed.

Lemma amend_rows : forall rows, rows <> [] -> Forall const_row rows -> forall nx,
  amendx (join_toks [TSepRow] (map flat rows) ++ [TArrayClose]) nx
  = join_toks row_sep (map rowbody rows) ++ [TArrayClose; TParenClose].
Proof.
  induction rows as [|x rows IH]; intros NE F nx; [congruence|].
  inversion F as [|? ? Rx F']; subst.
  destruct x as [| | | | | | |items|]; cbn [const_row] in Rx; try contradiction.
  destruct Rx as [NEi Fi].
  destruct rows as [|y rows].
  - cbn [map join_toks flat rowbody]. rewrite amendx_app, (amend_items items Fi). reflexivity.
  - change (join_toks [TSepRow] (map flat (CRow items :: y :: rows)))
      with (flat (CRow items) ++ [TSepRow] ++ join_toks [TSepRow] (map flat (y :: rows))).
    change (join_toks row_sep (map rowbody (CRow items :: y :: rows)))
      with (rowbody (CRow items) ++ row_sep ++ join_toks row_sep (map rowbody (y :: rows))).
    rewrite <- !app_assoc. rewrite amendx_app. cbn [flat rowbody]. rewrite (amend_items items Fi).
    f_equal. cbn [app amendx amend1]. rewrite (IH ltac:(congruence) F' nx). reflexivity.
Qed.

Lemma rows_flatA : forall rows, rows <> [] -> Forall const_row rows ->
  TArrayRowOpen :: TParenOpen :: join_toks row_sep (map rowbody rows)
  = join_toks [TParenClose; TSepArg] (map flatA rows).
Proof.
  induction rows as [|x rows IH]; intros NE F; [congruence|].
  inversion F as [|? ? Rx F']; subst.
  destruct x as [| | | | | | |items|]; cbn [const_row] in Rx; try contradiction.
  destruct rows as [|y rows]; [reflexivity|].
  change (join_toks row_sep (map rowbody (CRow items :: y :: rows)))
    with (rowbody (CRow items) ++ row_sep ++ join_toks row_sep (map rowbody (y :: rows))).
  change (join_toks [TParenClose; TSepArg] (map flatA (CRow items :: y :: rows)))
    with (flatA (CRow items) ++ [TParenClose; TSepArg]
          ++ join_toks [TParenClose; TSepArg] (map flatA (y :: rows))).
  rewrite <- (IH ltac:(congruence) F'). cbn [flatA rowbody row_sep app].
  rewrite <- ?app_assoc. reflexivity.
Qed.

Lemma amend_flat c : WFA c -> AQ c.
Proof.
  induction c as [k v|c IH|c IH|c IH|o l r IHl IHr|n args IH|rows IH|items IH|] using cst_ind';
    intros W; try (cbn in W; contradiction); intros nx; cbn [flat flatA].
  - reflexivity.
  - cbn [WFA] in W. cbn [amendx amend1 app]. rewrite amendx_app, (IH W). reflexivity.
  - destruct W as [W _]. cbn [amendx amend1 app]. rewrite (IH W). reflexivity.
  - destruct W as [W _]. rewrite amendx_app, (IH W). reflexivity.
  - destruct W as (Wl & Wr & _). rewrite amendx_app. cbn [amendx amend1 app].
    rewrite (IHl Wl), (IHr Wr). reflexivity.
  - apply WF_call in W. destruct W as [Wa NE].
    destruct args as [|x args]; [reflexivity|].
    assert (F: Forall (fun a => argok a /\ (WFA a -> AQ a)) (x :: args)).
    { rewrite Forall_forall in *. intros a Ha. split; auto. }
    pose proof (amend_args (x :: args) nx F ltac:(congruence)) as HA. cbn [hd] in HA.
    rewrite <- HA. cbn [amendx].
    set (J := join_toks [TSepArg] (map flat (x :: args)) ++ [TFuncClose]).
    assert (HJ: amend1 (TFuncOpen n) (match J with [] => nx | t' :: _ => Some t' end)
                = TFuncOpen n :: TParenOpen :: pre_empty x).
    { inversion Wa as [|? ? Ax Wa']; subst. unfold argok, pre_empty in *.
      destruct (is_empty x) eqn:E.
      - destruct x; try discriminate. destruct args as [|y args]; [congruence|]. reflexivity.
      - destruct (flat_head x Ax) as (t & ts & Fx & [P1 P2]).
        assert (E2: exists r, J = t :: r).
        { unfold J. destruct args; cbn [map join_toks]; rewrite Fx; cbn [app]; eauto. }
        destruct E2 as [r ->]. destruct t; try reflexivity; congruence. }
    rewrite HJ. reflexivity.
  - cbn [WFA] in W. destruct W as [NE F]. cbn [amendx amend1].
    rewrite (amend_rows rows NE F nx). cbn [app].
    rewrite <- (rows_flatA rows NE F). cbn [app]. reflexivity.
Qed.

(* ------------------------------------------------------------ _build_ast *)
Lemma build_post c : forall r st, build_go (post c ++ r) st = build_go r (abs c :: st).
Proof.
  assert (L: forall n (args : list cst),
             Forall (fun c => forall r st, build_go (post c ++ r) st = build_go r (abs c :: st)) args ->
             forall r st, build_go ((concat (map post args) ++ [RFunc n (length args)]) ++ r) st
                          = build_go r (EFunc n (map abs args) :: st)).
  { intros n args F r st.
    assert (G: forall st r, build_go (concat (map post args) ++ r) st
                            = build_go r (rev (map abs args) ++ st)).
    { clear r st. induction F as [|a l Ha Hl IHl]; intros st r; cbn [map concat rev app]; auto.
      rewrite <- app_assoc, Ha, IHl, <- app_assoc. reflexivity. }
    rewrite <- app_assoc, G. cbn [app build_go].
    assert (Len: length args = length (rev (map abs args))) by now rewrite rev_length, map_length.
    rewrite Len, firstn_app, Nat.sub_diag, firstn_all, firstn_O, app_nil_r, rev_involutive.
    rewrite skipn_app, Nat.sub_diag, skipn_all, skipn_O. reflexivity. }
  induction c as [k v|c IH|c IH|c IH|o l r IHl IHr|n args IH|rows IH|items IH|] using cst_ind';
    intros r0 st; cbn [post abs].
  - reflexivity.
  - apply IH.
  - rewrite <- app_assoc, IH. reflexivity.
  - rewrite <- app_assoc, IH. reflexivity.
  - rewrite <- !app_assoc, IHl, IHr. reflexivity.
  - apply L, IH.
  - apply L, IH.
  - apply L, IH.
  - reflexivity.
Qed.

(* ------------------------------------------------------------ the theorem *)
Lemma WF_WFA c : WF c -> WFA c.
Proof.
  induction c as [k v|c IH|c IH|c IH|o l r IHl IHr|n args IH|rows IH|items IH|] using cst_ind';
    cbn [WF WFA]; intros W; try contradiction; auto.
  - destruct W as [W T]. split; auto.
  - destruct W as [W T]. split; auto.
  - destruct W as (Wl & Wr & Tl & Tr). repeat split; auto.
  - destruct W as [W1 W2]. split; [|exact W2]. clear W2.
    induction IH as [|a l Ha Hl IHl]; [exact I|]. destruct W1 as [Wa Wl].
    split; [destruct (is_empty a); auto|apply IHl, Wl].
Qed.

(* with array constants *)
Theorem parse_correct_array c : WFA c -> parse (flat c) = Some (abs c).
Proof.
  intros W. unfold parse, sy. rewrite amend_amendx, (amend_flat c W), (sy_flatA c W).
  unfold build. rewrite <- (app_nil_r (post c)), build_post. reflexivity.
Qed.
Theorem sy_correct_array c : WFA c -> sy (flat c) = Some (post c).
Proof.
  intros W. unfold sy. rewrite amend_amendx, (amend_flat c W). apply sy_flatA, W.
Qed.

Theorem parse_correct c : WF c -> parse (flat c) = Some (abs c).
Proof. intros W. apply parse_correct_array, WF_WFA, W. Qed.

(* the operator / parenthesis fragment alone, on the postfix form *)
Theorem sy_correct c : WF c -> sy (flat c) = Some (post c).
Proof.
  intros W0. pose proof (WF_WFA c W0) as W. unfold sy. rewrite amend_amendx, (amend_flat c W). apply sy_flatA, W.
Qed.

(* non-vacuity: -2^2 is (-2)^2 in Excel's grammar, and 1+2*3 groups to the right *)
Example ex_neg_pow :
  parse (flat (CBin OPow (CNeg (CAtom KNumber [50])) (CAtom KNumber [50])))
  = Some (EBin OPow (EPre (EOperand KNumber [50])) (EOperand KNumber [50])).
Proof. reflexivity. Qed.
Example ex_call :
  parse [TFuncOpen [73; 70; 40]; TOperand KRange [65; 49]; TBin OGt; TOperand KNumber [49];
         TSepArg; TSepArg; TFuncClose]
  = Some (EFunc [73; 70; 40] [EBin OGt (EOperand KRange [65; 49]) (EOperand KNumber [49]);
                            EOperand KEmpty []; EOperand KEmpty []]).
Proof. reflexivity. Qed.

(* {1,"a";TRUE,#N/A} *)
Example ex_array :
  let c := CArray [CRow [CAtom KNumber [49]; CAtom KText [34; 97; 34]];
                   CRow [CAtom KLogical [84; 82; 85; 69]; CAtom KError [35; 78; 47; 65]]] in
  WFA c /\ parse (flat c) = Some (abs c).
Proof.
  cbn zeta. split; [|reflexivity]. cbn. split; [discriminate|].
  repeat constructor; discriminate.
Qed.
