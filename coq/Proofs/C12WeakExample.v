(* Proofs/C12WeakExample.v — C12: the hypotheses of the theorems of
   Proofs/C12Weak.v are satisfiable on the two-column workbook of
   Proofs/C01AliasExample.v with stored results (whole-column reference; the
   strong condition fails: exa_not_strong) — tests, not theorems.
     4: A1 = f4(B:B) stored 11     5: A2 = f5(B1:B2, A1) stored 23 *)
From Coq Require Import List Arith Bool Lia ZArith QArith.
From PV Require Import Lib.Py Model.Graph Model.Validate.
From PV Require Import Proofs.C01Base Proofs.C01Inv Proofs.C01 Proofs.C01Weak Proofs.C01Alias
                       Proofs.C01AliasExample Proofs.C12Base Proofs.C12 Proofs.C12Weak.
Import ListNotations.
Local Open Scope nat_scope.

Definition xv_text (n : nat) : list Z := [].

Example xv_not_strong : ~ sem_nonblank exaWs exa_sem.
Proof. apply exa_not_strong. Qed.
Example xv_scalar : forall n, n < wb_n exaWs -> is_fcell exaWs n = true ->
  is_scalar (spec exaWs exa_sem (wb_inp0 exaWs) n) = true.
Proof.
  intros n L F. destruct n as [|[|[|[|[|[|n]]]]]]; try discriminate; try reflexivity.
  all: try (cbn in L; lia).
Qed.
Example xv_text_ok : forall n vals, n < wb_n exaWs -> is_fcell exaWs n = true ->
  py_eq (exa_sem n vals) (VStr (xv_text n)) = false.
Proof.
  intros n vals L F. destruct n as [|[|[|[|[|[|n]]]]]]; try discriminate; try reflexivity.
  all: try (cbn in L; lia).
Qed.

Example xv_sound : vs_report (validate exaWs exa_sem xv_text None [5; 4]) = [].
Proof.
  apply (sound_weak exaWs exa_sem xv_text None (exa_wf _) (exa_weak _) exas_consistent I
           xv_scalar xv_text_ok).
  intros o [<-|[<-|[]]]; cbn; lia.
Qed.

(* the stored result of A1 altered to 12: reported with (12, 11), and so is its
   dependant A2 only (A2 is recomputed from the altered 12 first: 24 against the stored 23) *)
Example xv_complete :
  let r := vs_report (validate (perturb exaWs 4 (VInt 12)) exa_sem xv_text None [5]) in
  rep_get r 4 = Some (VInt 12, spec exaWs exa_sem (wb_inp0 exaWs) 4) /\
  forall n, rep_get r n <> None -> n = 4 \/ anc exaWs 4 n.
Proof.
  assert (L4: 4 < wb_n exaWs) by (cbn; lia).
  apply (complete_weak exaWs exa_sem xv_text None 4 (VInt 12) (exa_wf _) (exa_weak _) exas_consistent
           L4 eq_refl I xv_scalar xv_text_ok ltac:(discriminate) eq_refl eq_refl [5]).
  - intros o [<-|[]]. cbn. lia.
  - exists 5. split; [left; auto|]. right. constructor. cbn. auto.
Qed.
Example xv_complete_value :
  vs_report (validate (perturb exaWs 4 (VInt 12)) exa_sem xv_text None [5])
  = [(5, (VInt 23, VInt 24)); (4, (VInt 12, VInt 11))].
Proof. vm_compute. reflexivity. Qed.
