(* Proofs/C04Example.v — C04, graph half: the hypotheses of the theorems are
   satisfiable and the conclusions are not trivial (tests, not theorems).
     0: A1 = 1 (input)   1: A2 = 2 (input)   2: A3 = 5 (input)
     3: A1:A2 (range node)
     4: B1 = f4(A1:A2)          ancestors: 3, 0, 1      (NOT 2)
     5: C1 = f5(B1, A3)         ancestors: 4, 3, 0, 1, 2                       *)
From Coq Require Import ZArith List Arith Bool Lia Relations.
From PV Require Import Lib.Py Model.Syntax Model.Emit Model.Scan.
From PV Require Import Model.Graph Model.ReadTrace.
From PV Require Import Proofs.C01Base Proofs.C01Inv Proofs.C01 Proofs.C01Example.
From PV Require Import Proofs.C04Trace Proofs.C04Graph.
Import ListNotations.
Local Open Scope nat_scope.

Definition g_sem (n : nat) (vals : list pyval) : pyval :=
  if n =? 3 then VTuple vals else VInt (Z.of_nat n + tot (VTuple vals)).

Definition gW : workbook :=
  {| wb_n := 6;
     wb_input := fun n => n <? 3;
     wb_deps := fun n => match n with 3 => [0; 1] | 4 => [3] | 5 => [4; 2] | _ => [] end;
     wb_range := fun n => n =? 3;
     wb_inp0 := fun n => match n with 0 => VInt 1 | 1 => VInt 2 | 2 => VInt 5 | _ => VNone end;
     wb_stored := fun _ => VNone |}.

Example g_wf : wf gW.
Proof. apply wfb_sound. reflexivity. Qed.
Example g_nonblank : sem_nonblank gW g_sem.
Proof. intros n vals _ _. unfold g_sem. destruct (n =? 3); discriminate. Qed.
Example g_stored : stored_ok gW g_sem.
Proof. apply stored_ok_nodata. intros n; reflexivity. Qed.
Example g_exact : inputs_exact gW (wb_inp0 gW).
Proof. intros m _ _. destruct m as [|[|[|m]]]; reflexivity. Qed.

(* ---- ancestors: the membership path A1 -> A1:A2 -> B1 -> C1; A3 is not an ancestor of B1 *)
Example g_anc_member : ancestor gW 0 5.
Proof.
  apply (ancestor_step gW 0 4 5); [|cbn; auto].
  apply (ancestor_step gW 0 3 4); [|cbn; auto].
  apply ancestor_edge. cbn. auto.
Qed.
Example g_not_anc : ~ ancestor gW 2 4.
Proof.
  intros A. apply ancestor_anc in A. destruct A as [A|A]; [discriminate|].
  pose proof g_wf as WF.
  inversion A as [? ? H|? b ? A1 H]; subst; cbn in H.
  - destruct H as [H|[]]; discriminate.
  - destruct H as [<-|[]].
    inversion A1 as [? ? H|? b ? A2 H]; subst; cbn in H.
    + destruct H as [H|[H|[]]]; discriminate.
    + destruct H as [<-|[<-|[]]].
      * pose proof (anc_lt gW WF 2 0 ltac:(cbn; lia) A2). lia.
      * pose proof (anc_lt gW WF 2 1 ltac:(cbn; lia) A2). lia.
Qed.

(* ---- influence: changing A3 leaves B1 alone and changes C1 *)
Example g_influence v : spec gW g_sem (upd (wb_inp0 gW) 2 v) 4 = spec gW g_sem (wb_inp0 gW) 4.
Proof.
  apply (influence_spec gW g_wf); [cbn; lia|]. intros a Ia A.
  unfold upd. destruct (Nat.eqb_spec a 2) as [->|NE]; [|reflexivity].
  exfalso. now apply g_not_anc.
Qed.
Example g_influence_nontrivial :
  spec gW g_sem (wb_inp0 gW) 4 = VInt 7 /\
  spec gW g_sem (wb_inp0 gW) 5 = VInt 17 /\
  spec gW g_sem (upd (wb_inp0 gW) 2 (VInt 50)) 5 = VInt 62.
Proof. vm_compute. repeat split. Qed.

(* the reading discipline is necessary: a meaning for B1 that peeks at A3
   without declaring it is influenced by a cell that is not an ancestor *)
Definition peek : esem_t := fun n env => if n =? 4 then env 2 else VInt 0.
Example peek_not_declared : ~ reads_declared gW peek.
Proof.
  intros RD. specialize (RD 4 (fun _ => VInt 0) (fun p => if p =? 2 then VInt 1 else VInt 0)).
  cbn in RD. discriminate RD. intros p [<-|[]]. reflexivity.
Qed.
Example peek_influenced :
  espec gW peek (wb_inp0 gW) 4 <> espec gW peek (upd (wb_inp0 gW) 2 (VInt 50)) 4.
Proof. vm_compute. discriminate. Qed.

(* ---- the machine: build C1, write A3, evaluate B1 (unchanged) and C1 (changed) *)
Definition g_h : list gop := [ Evaluate 5; SetValue 0 (VInt 10); Evaluate 4 ].

Example g_h_ok : ok_history gW g_sem (ok_op gW) (init gW) g_h.
Proof.
  eapply ok_history_weaken; [intros s o; apply ok_free_ok; intros n; reflexivity|].
  cbn [ok_history g_h]. repeat split; try (vm_compute; reflexivity); vm_compute; lia.
Qed.
Example g_write_ok :
  ok_op gW (fst (run gW g_sem (init gW) g_h)) (SetValue 2 (VInt 50)).
Proof.
  apply ok_free_ok; [intros n; reflexivity|]. repeat split; vm_compute; reflexivity.
Qed.
Example g_machine_influence :
  let s := fst (run gW g_sem (init gW) g_h) in
  snd (step gW g_sem (fst (step gW g_sem s (SetValue 2 (VInt 50)))) (Evaluate 4))
  = snd (step gW g_sem s (Evaluate 4)).
Proof.
  apply (influence_machine gW g_sem g_wf g_nonblank g_stored g_exact g_h g_h_ok).
  - apply g_write_ok. - cbn; lia. - apply g_not_anc.
Qed.
Example g_machine_nontrivial :
  let s := fst (run gW g_sem (init gW) g_h) in
  snd (step gW g_sem s (Evaluate 5)) = VInt 26 /\
  snd (step gW g_sem (fst (step gW g_sem s (SetValue 2 (VInt 50)))) (Evaluate 5)) = VInt 71.
Proof. vm_compute. split; reflexivity. Qed.

(* ---- edges: after the history every precedent of C1 is built, with its graph edge *)
Example g_in_range : Forall (in_range gW) g_h.
Proof. repeat constructor; cbn; lia. Qed.
Example g_edges :
  let s := fst (run gW g_sem (init gW) g_h) in
  map (st_built s) [0; 1; 2; 3; 4; 5] = [true; true; true; true; true; true]
  /\ succs gW (st_built s) 0 = [3] /\ succs gW (st_built s) 3 = [4] /\ succs gW (st_built s) 2 = [5].
Proof. vm_compute. repeat split. Qed.

(* ---- the read trace of the first evaluate: C1 reads B1, B1 reads the range,
   the range reads its members (during _gen_graph), then C1 reads A3; a second
   evaluate reads nothing *)
Example g_trace :
  map snd (snd (run_traced gW g_sem (init gW) [Evaluate 5; Evaluate 5; SetValue 0 (VInt 10); Evaluate 5]))
  = [ [(3, 0); (3, 1); (5, 4); (4, 3); (5, 2)]; []; []; [(5, 4); (4, 3); (3, 0); (3, 1); (5, 2)] ].
Proof. vm_compute. reflexivity. Qed.

(* ---- composition with the code half:  B1 = SUM(A1:A2),  C1 = B1 + A3 *)
Definition a_A1A2 : list Z := [65; 49; 58; 65; 50]%Z.
Definition a_B1 : list Z := [66; 49]%Z.
Definition a_A3 : list Z := [65; 51]%Z.
Definition e_B1 : expr := EFunc [83; 85; 77; 40]%Z [EOperand KRange a_A1A2].
Definition e_C1 : expr := EBin OAdd (EOperand KRange a_B1) (EOperand KRange a_A3).

Definition g_node (a : list Z) : option nat :=
  if str_eqb a a_A1A2 then Some 3 else if str_eqb a a_B1 then Some 4
  else if str_eqb a a_A3 then Some 2 else None.
Definition g_fm (n : nat) : option expr :=
  match n with 4 => Some e_B1 | 5 => Some e_C1 | _ => None end.

Example g_needed : needed e_B1 = [a_A1A2] /\ needed e_C1 = [a_B1; a_A3]
  /\ refs_written (emit CtxTop e_B1) = true /\ refs_written (emit CtxTop e_C1) = true
  /\ reads (emit CtxTop e_C1) = [RExact a_B1; RExact a_A3].
Proof. vm_compute. repeat split. Qed.

Example g_declared : declared_needed gW g_node g_fm.
Proof.
  destruct g_needed as (N4 & N5 & _).
  intros n e F a Ha. destruct n as [|[|[|[|[|[|n]]]]]]; try discriminate; injection F as <-.
  - rewrite N4 in Ha. destruct Ha as [<-|[]]. exists 3. split; [reflexivity|cbn; auto].
  - rewrite N5 in Ha. destruct Ha as [<-|[<-|[]]].
    + exists 4. split; [reflexivity|cbn; auto].
    + exists 2. split; [reflexivity|cbn; auto].
Qed.
Example g_declared_only : declared_only_needed gW g_node g_fm.
Proof.
  destruct g_needed as (N4 & N5 & _).
  intros n e F p E. destruct n as [|[|[|[|[|[|n]]]]]]; try discriminate; injection F as <-; cbn in E.
  - destruct E as [<-|[]]. exists a_A1A2. rewrite N4. split; [left|]; reflexivity.
  - destruct E as [<-|[<-|[]]].
    + exists a_B1. rewrite N5. split; [left|]; reflexivity.
    + exists a_A3. rewrite N5. split; [right; left|]; reflexivity.
Qed.
Example g_reads_are_edges : forall r, In r (reads (emit CtxTop e_C1)) ->
  ref_covered (fun p => edge gW p 5) g_node r.
Proof.
  destruct g_needed as (_ & _ & _ & RW & _).
  exact (reads_are_edges gW g_node g_fm g_declared 5 e_C1 eq_refl RW).
Qed.

(* the environment form: g_sem as an environment meaning reads only declared precedents *)
Example g_influence_env v :
  espec gW (esem_of gW g_sem) (upd (wb_inp0 gW) 2 v) 4 = espec gW (esem_of gW g_sem) (wb_inp0 gW) 4.
Proof.
  apply (influence_env gW g_wf _ (esem_of_declared gW g_sem)); [cbn; lia|]. intros a Ia A.
  unfold upd. destruct (Nat.eqb_spec a 2) as [->|NE]; [|reflexivity].
  exfalso. now apply g_not_anc.
Qed.

(* a computed node reads all its precedents: C1 on the initial cache *)
Example g_complete : In (5, 4) (snd (eval_traced gW g_sem 7 (st_cache (init gW)) 5))
                     /\ In (5, 2) (snd (eval_traced gW g_sem 7 (st_cache (init gW)) 5)).
Proof. split; apply evalT_complete; cbn; auto. Qed.

(* after the history, the reads of C1's code are built nodes with their graph edges *)
Example g_reads_are_graph_edges :
  let s := fst (run gW g_sem (init gW) g_h) in
  forall r, In r (reads (emit CtxTop e_C1)) ->
    ref_covered (fun p => st_built s p = true /\ In 5 (succs gW (st_built s) p)) g_node r.
Proof.
  destruct g_needed as (_ & _ & _ & RW & _).
  apply (reads_are_graph_edges gW g_sem g_node g_fm g_wf g_declared g_h g_in_range 5 e_C1 eq_refl RW).
  vm_compute. reflexivity.
Qed.

(* the machine's reads of B1 and C1 are nodes of their needed addresses *)
Example g_traced_reads_needed : forall n p e,
  In (n, p) (snd (eval_traced gW g_sem 7 (st_cache (init gW)) 5)) -> g_fm n = Some e ->
  exists a, In a (needed e) /\ g_node a = Some p.
Proof. intros n p e. apply (traced_reads_needed gW g_sem g_node g_fm g_declared_only). Qed.

(* the cells of a range computed from A1:A2 reach B1 through the range node *)
Example g_within_path :
  exists p, g_node a_A1A2 = Some p /\ edge gW 0 p /\ edge gW p 4.
Proof.
  apply (within_path gW g_node (fun a m => a = a_A1A2 /\ (m = 0 \/ m = 1)) 4 [a_A1A2])
    with (X := fun m => m = 0) (m := 0); auto.
  - intros a [<-|[]]. exists 3. split; [reflexivity|cbn; auto].
  - intros a p m [<-|[]] Np [_ Hm]. injection Np as <-. cbn. destruct Hm as [-> | ->]; auto.
  - intros m -> a [<-|[]]. auto.
  - left; reflexivity.
Qed.

(* the trace determines the value: evaluating C1 on a cache where B1 is cached
   reads B1 and A3 only, so changing the (stale) entries of A1, A2 and the range
   changes nothing — and changing A3 does *)
Definition g_c1 : cache := fun m => match m with 0 => VInt 1 | 1 => VInt 2 | 2 => VInt 5 | 4 => VInt 7 | _ => VNone end.
Definition g_c2 : cache := fun m => match m with 0 => VInt 100 | 1 => VInt 200 | 2 => VInt 5 | 3 => VInt 9 | 4 => VInt 7 | _ => VNone end.
Example g_determines :
  snd (eval_traced gW g_sem 7 g_c1 5) = [(5, 4); (5, 2)]
  /\ snd (eval gW g_sem 7 g_c2 5) = snd (eval gW g_sem 7 g_c1 5)
  /\ snd (eval gW g_sem 7 g_c1 5) = VInt 17
  /\ snd (eval gW g_sem 7 (upd g_c1 2 (VInt 6)) 5) = VInt 18.
Proof.
  split; [vm_compute; reflexivity|]. split; [|vm_compute; split; reflexivity].
  apply (trace_determines gW g_sem 7 g_c1 g_c2 5); [reflexivity|].
  intros r d H. assert (E: snd (eval_traced gW g_sem 7 g_c1 5) = [(5, 4); (5, 2)]) by (vm_compute; reflexivity).
  rewrite E in H. destruct H as [H|[H|[]]]; injection H as <- <-; reflexivity.
Qed.
