(* Proofs/C05.v — C05, one value per cell whatever the order or the access
   path: corollaries of the C01 machine (Model/Graph.v, Proofs/C01*.v).
     order   any history of Build/Evaluate operations leaves the invariant and
             the input entries intact, so evaluate returns the from-scratch
             value of the workbook's own inputs after any such history;
     repeat  a second evaluate of the same node returns the same value and
             changes neither the cache nor the built set (pointwise);
     path    with the concrete range semantics sem_formula (FRange cols) the
             element (i, j) of a range node's value is the value evaluate
             returns for the member cell at that position.
   Address lists, permutations, whole-state idempotence and the reference node
   of an unbounded range: Proofs/C05List.v.  The clipping of an unbounded range
   to the used area and sheet-less addresses are not in the model: oracle only
   (harness/props/c05.py). *)
From Coq Require Import List Arith Bool Lia.
From PV Require Import Lib.Py Model.Graph Model.GraphExpr.
From PV Require Import Proofs.C01Base Proofs.C01Eval Proofs.C01Inv Proofs.C01.
Import ListNotations.
Local Open Scope nat_scope.

Section C05.
  Variable W : workbook.
  Variable sem : nat -> list pyval -> pyval.
  Hypothesis WF : wf W.
  Hypothesis NB : sem_nonblank W sem.
  Hypothesis SO : stored_ok W sem.

  Notation N := (wb_n W).
  Notation isinput := (wb_input W).
  Notation spec := (spec W sem).
  Notation Inv := (Inv W sem).

  (* a history that only builds and evaluates nodes of the workbook *)
  Definition be_op (o : gop) : Prop :=
    match o with Evaluate n => n < N | Build n => n < N | SetValue _ _ => False end.

  Lemma be_step s o : Inv s -> be_op o ->
    Inv (fst (step W sem s o)) /\
    forall k, isinput k = true -> st_cache (fst (step W sem s o)) k = st_cache s k.
  Proof.
    intros I OK. destruct o as [n|a v|n]; cbn [be_op] in OK; [| contradiction |]; cbn [step fst].
    - destruct (evaluate_inv W sem WF NB s n SO I OK) as (I1 & _ & K). split; auto.
    - split; [now apply build_inv|]. intros k Ik. now apply build_inputs.
  Qed.

  Lemma be_run : forall h s, Inv s -> Forall be_op h ->
    Inv (fst (run W sem s h)) /\
    forall k, isinput k = true -> st_cache (fst (run W sem s h)) k = st_cache s k.
  Proof.
    induction h as [|o h IH]; intros s I F; [cbn; auto|].
    inversion F as [|? ? Fo Fh]; subst. rewrite run_cons. cbn [fst].
    destruct (be_step s o I Fo) as [I1 K1].
    destruct (IH _ I1 Fh) as [I2 K2]. split; auto.
    intros k Ik. rewrite K2, K1; auto.
  Qed.

  Lemma order_value h n : Forall be_op h -> n < N ->
    snd (evaluate W sem (fst (run W sem (init W) h)) n) = spec (wb_inp0 W) n.
  Proof.
    intros F L. destruct (be_run h (init W) (Inv_init W sem WF SO) F) as [I K].
    destruct (evaluate_inv W sem WF NB _ n SO I L) as (_ & V & _). rewrite V.
    apply spec_ext; auto. intros m _ Im. rewrite K by auto. cbn. now rewrite Im.
  Qed.

  (* C05_order *)
  Theorem order h1 h2 n : Forall be_op h1 -> Forall be_op h2 -> n < N ->
    snd (evaluate W sem (fst (run W sem (init W) h1)) n)
    = snd (evaluate W sem (fst (run W sem (init W) h2)) n)
    /\ snd (evaluate W sem (fst (run W sem (init W) h1)) n) = spec (wb_inp0 W) n.
  Proof. intros F1 F2 L. rewrite !order_value; auto. Qed.

  (* ---------------------------------------------------------------- repeat *)
  Lemma bfold_id s b' : (forall m, fresh s b' m = false) ->
    forall l c, fold_left (bstep W sem s b') l c = c.
  Proof.
    intros Fr. induction l as [|m l IH]; intros c; cbn [fold_left]; auto.
    unfold bstep at 2. rewrite Fr. cbn [andb]. apply IH.
  Qed.

  (* building a node that is built already changes nothing *)
  Lemma build_built_id s n : st_built s n = true ->
    st_built (build W sem s n) = st_built s /\
    forall m, st_cache (build W sem s n) m = st_cache s m.
  Proof.
    intros B. rewrite build_unfold. cbn zeta. cbn [st_built st_cache].
    assert (E: closure W (S N) (st_built s) n = st_built s).
    { cbn [closure]. now rewrite B. }
    rewrite E. split; auto. intros m.
    assert (Fr: forall k, fresh s (st_built s) k = false).
    { intros k. unfold fresh. destruct (st_built s k); reflexivity. }
    rewrite bfold_id by auto. unfold build_c1. now rewrite Fr.
  Qed.

  Theorem repeat_eval s n : Inv s -> n < N ->
    let s1 := fst (evaluate W sem s n) in
    let v1 := snd (evaluate W sem s n) in
    let s2 := fst (evaluate W sem s1 n) in
    let v2 := snd (evaluate W sem s1 n) in
    v2 = v1 /\ st_built s2 = st_built s1 /\ forall m, st_cache s2 m = st_cache s1 m.
  Proof.
    intros I L. cbn zeta.
    destruct (evaluate_inv W sem WF NB s n SO I L) as (I1 & V1 & K1).
    set (s1 := fst (evaluate W sem s n)) in *.
    assert (B1: st_built s1 n = true).
    { unfold s1. rewrite evaluate_unfold. cbn [fst st_built]. now apply build_built. }
    assert (C1: isinput n = false -> st_cache s1 n <> VNone).
    { intros In. unfold s1. rewrite evaluate_unfold. cbn [fst st_cache].
      apply (eval_top W sem WF NB); auto.
      apply Inv_coherent. now apply build_inv. }
    destruct (build_built_id s1 n B1) as [EB EC].
    rewrite (evaluate_unfold W sem s1 n). cbn [fst snd st_built st_cache].
    rewrite eval_unfold. rewrite EB.
    destruct (isinput n) eqn:In; cbn [fst snd].
    - split; [|split; auto]. rewrite EC, V1. symmetry. rewrite spec_input by auto.
      symmetry. now apply K1.
    - assert (E: is_none (st_cache (build W sem s1 n) n) = false).
      { apply is_none_false. rewrite EC. auto. }
      rewrite E. cbn [fst snd]. split; [|split; auto].
      rewrite EC. rewrite V1.
      rewrite (Inv_I1 W sem s1 I1 n B1 In (C1 eq_refl)).
      apply spec_ext; auto.
  Qed.
End C05.

(* ------------------------------------------------------------------ path *)
Definition tuple_at (v : pyval) (i j : nat) : pyval :=
  match v with
  | VTuple rows => match nth i rows VNone with VTuple r => nth j r VNone | _ => VNone end
  | _ => VNone
  end.

Lemma skipn_add {A} : forall b a (l : list A), skipn a (skipn b l) = skipn (b + a) l.
Proof.
  induction b as [|b IH]; intros a l; [reflexivity|].
  destruct l as [|x l]; [now rewrite !skipn_nil|]. cbn [skipn plus]. apply IH.
Qed.

Lemma chunk_nth : forall fuel cols l i, 0 < cols -> i * cols < length l -> length l < fuel ->
  nth i (chunk fuel cols l) VNone = VTuple (firstn cols (skipn (i * cols) l)).
Proof.
  induction fuel as [|fuel IH]; intros cols l i C Hi Hf; [lia|].
  destruct l as [|x l]; [cbn in Hi; lia|]. cbn [chunk].
  destruct i as [|i]; [reflexivity|]. cbn [nth].
  assert (Hs: length (skipn cols (x :: l)) = length (x :: l) - cols) by apply skipn_length.
  rewrite IH; auto.
  - f_equal. f_equal. rewrite skipn_add. reflexivity.
  - rewrite Hs. cbn [mult] in Hi. lia.
  - rewrite Hs. lia.
Qed.

Lemma nth_firstn_skipn {A} (l : list A) d k cols j : j < cols ->
  nth j (firstn cols (skipn k l)) d = nth (k + j) l d.
Proof.
  intros J. revert l. induction k as [|k IH]; intros l.
  - cbn [skipn plus]. revert cols l J. induction j as [|j IHj]; intros cols l J.
    + destruct cols; [lia|]. destruct l; reflexivity.
    + destruct cols; [lia|]. destruct l; [reflexivity|]. cbn. apply IHj. lia.
  - destruct l as [|x l]; cbn [skipn].
    + rewrite firstn_nil. destruct (S k + j); destruct j; reflexivity.
    + apply IH.
Qed.

Lemma range_element cols vals i j : 0 < cols -> j < cols -> i * cols + j < length vals ->
  tuple_at (sem_formula (FRange cols) vals) i j = nth (i * cols + j) vals VNone.
Proof.
  intros C J H. cbn [sem_formula tuple_at].
  replace (Nat.max 1 cols) with cols by lia.
  rewrite chunk_nth by lia. now apply nth_firstn_skipn.
Qed.

Section Path.
  Variable W : workbook.
  Variable sem : nat -> list pyval -> pyval.
  Hypothesis WF : wf W.
  Hypothesis NB : sem_nonblank W sem.
  Hypothesis SO : stored_ok W sem.

  (* C05_path: the element (i, j) of the value of range node r (cols columns,
     members row-major) is the value evaluate returns for the member cell *)
  Theorem path s r cols i j : Inv W sem s -> r < wb_n W -> wb_input W r = false ->
    (forall vals, sem r vals = sem_formula (FRange cols) vals) ->
    0 < cols -> j < cols -> i * cols + j < length (wb_deps W r) ->
    let cell := nth (i * cols + j) (wb_deps W r) 0 in
    tuple_at (snd (evaluate W sem s r)) i j = snd (evaluate W sem s cell)
    /\ tuple_at (snd (evaluate W sem s r)) i j
       = snd (evaluate W sem (fst (evaluate W sem s r)) cell).
  Proof.
    intros I L Ir Sr C J H cell.
    assert (Hc: In cell (wb_deps W r)) by (apply nth_In; auto).
    assert (Lc: cell < wb_n W) by (eapply deps_ltN; eauto).
    destruct (evaluate_inv W sem WF NB s r SO I L) as (I1 & V & K).
    destruct (evaluate_inv W sem WF NB s cell SO I Lc) as (_ & Vc & _).
    destruct (evaluate_inv W sem WF NB _ cell SO I1 Lc) as (_ & Vc1 & _).
    assert (E: tuple_at (snd (evaluate W sem s r)) i j = spec W sem (st_cache s) cell).
    { rewrite V, spec_unfold, Ir, Sr by auto.
      rewrite range_element by (rewrite ?map_length; auto).
      unfold cell.
      rewrite (nth_indep _ VNone (spec W sem (st_cache s) 0)) by (rewrite map_length; auto).
      apply map_nth. }
    split; [now rewrite E, Vc|]. rewrite E, Vc1. apply spec_ext; auto.
    intros m _ Im. symmetry. now apply K.
  Qed.
End Path.

Lemma order_nodata W sem : wf W -> sem_nonblank W sem -> (forall n, wb_stored W n = VNone) ->
  forall h1 h2 n, Forall (be_op W) h1 -> Forall (be_op W) h2 -> n < wb_n W ->
    snd (evaluate W sem (fst (run W sem (init W) h1)) n)
    = snd (evaluate W sem (fst (run W sem (init W) h2)) n).
Proof.
  intros WF NB NS h1 h2 n F1 F2 L.
  apply (order W sem WF NB (stored_ok_nodata W sem NS) h1 h2 n F1 F2 L).
Qed.

(* ---- the hypotheses are satisfiable (tests, not theorems): the 5-node
   workbook of Proofs/C01Example.v, two different first-evaluation orders *)
From Coq Require Import ZArith.
From PV Require Import Proofs.C01Example.
Example ex_orders :
  Forall (be_op exW) [Evaluate 4; Build 2; Evaluate 3] /\ Forall (be_op exW) [Evaluate 2; Evaluate 0]
  /\ snd (evaluate exW ex_sem (fst (run exW ex_sem (init exW) [Evaluate 4; Build 2; Evaluate 3])) 4)
     = VInt 11%Z
  /\ snd (evaluate exW ex_sem (fst (run exW ex_sem (init exW) [Evaluate 2; Evaluate 0])) 4)
     = VInt 11%Z.
Proof.
  split; [|split; [|split; vm_compute; reflexivity]];
    repeat constructor; cbn; lia.
Qed.
