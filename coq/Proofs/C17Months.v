(* Proofs/C17Months.v — EOMONTH and EDATE on the generated months_inc
   (Gen/date_time.v), for every serial day after the phantom leap day and every
   integer month shift whose target month lies in the calendar. *)
From Coq Require Import ZArith QArith Qround List Bool Lia.
From PV Require Import Lib.Py Lib.PyDate Proofs.PyTac Proofs.NumLemmas Proofs.C17Cal Proofs.C17Base
  Proofs.C17 Proofs.C17Carry.
From PV Require Gen.excelutil Gen.date_time.
Import ListNotations.
Open Scope Z_scope.

(* ----------------------------------------------------- month arithmetic *)
Lemma next_month y T :
  (nyear y (T + 1), nmonth (T + 1))
  = if nmonth T =? 12 then (nyear y T + 1, 1) else (nyear y T, nmonth T + 1).
Proof.
  unfold nyear, nmonth. destruct ((T - 1) mod 12 + 1 =? 12) eqn:E;
    [apply Z.eqb_eq in E | apply Z.eqb_neq in E]; f_equal; Z.div_mod_to_equations; lia.
Qed.

(* the first of the following month is the day after the last of the month *)
Lemma ymd2ord_next y T :
  ymd2ord (nyear y (T + 1)) (nmonth (T + 1)) 1
  = ymd2ord (nyear y T) (nmonth T) (days_in_month (nyear y T) (nmonth T)) + 1.
Proof.
  pose proof (next_month y T) as N. pose proof (nmonth_range T) as R.
  destruct (nmonth T =? 12) eqn:E; injection N as N1 N2; rewrite N1, N2.
  - apply Z.eqb_eq in E. rewrite E.
    pose proof (ymd2ord_carry_year (nyear y T) (days_in_month (nyear y T) 12 + 1)) as C.
    replace (days_in_month (nyear y T) 12 + 1 - days_in_month (nyear y T) 12) with 1 in C by lia.
    rewrite C. unfold ymd2ord. lia.
  - apply Z.eqb_neq in E.
    pose proof (ymd2ord_carry_month (nyear y T) (nmonth T) (days_in_month (nyear y T) (nmonth T) + 1)
                  ltac:(lia)) as C.
    replace (days_in_month (nyear y T) (nmonth T) + 1 - days_in_month (nyear y T) (nmonth T)) with 1 in C by lia.
    rewrite C. unfold ymd2ord. lia.
Qed.

Lemma nyear_compose y T b : nyear (nyear y T) (nmonth T + b) = nyear y (T + b).
Proof. unfold nyear, nmonth. Z.div_mod_to_equations. lia. Qed.
Lemma nmonth_compose T b : nmonth (nmonth T + b) = nmonth (T + b).
Proof. unfold nmonth. Z.div_mod_to_equations. lia. Qed.

(* serial numbers up to 60 are the dates before 1900-03-01 *)
Lemma late_month y m d : 1 <= m <= 12 -> d <= days_in_month y m ->
  693594 + 60 < ymd2ord y m d -> 1900 <= y /\ (y = 1900 -> 3 <= m).
Proof.
  intros Hm Hd Hn. pose proof ymd2ord_1900_3_1 as Z3.
  destruct (Z_lt_dec y 1900) as [L|G].
  - pose proof (ymd2ord_year_lt y m d 1900 3 1 Hm Hd ltac:(lia) L). lia.
  - split; [lia|]. intros ->. destruct (Z_le_dec 3 m) as [?|M]; [assumption|].
    pose proof (dbm_month_lt 1900 m 3 ltac:(lia) ltac:(lia) ltac:(lia)).
    unfold ymd2ord in *. lia.
Qed.

(* ------------------------------------------------- the generated code *)
Lemma coerce_int n : excelutil.f_coerce_to_number py_fuel (VInt n) (VBool true) = Ok (VInt n).
Proof. reflexivity. Qed.

Lemma py_min2_int a b : py_min2 (VInt a) (VInt b) = Ok (VInt (if b <? a then b else a)).
Proof. unfold py_min2, py_min_list. cbn [fold_minmax]. py_run. destruct (b <? a); reflexivity. Qed.

(* normalize_year leaves a day that fits Excel's month length, after the month
   normalisation; before year 1 it leaves every day *)
Lemma normalize_fits f y m d :
  nyear y m < 1 \/ 1 <= d <= xdim (nyear y m) (nmonth m) ->
  date_time.f_normalize_year (S f) (VInt y) (VInt m) (VInt d)
  = Ok (VTuple [VInt (nyear y m); VInt (nmonth m); VInt d]).
Proof.
  intros Hd. pose proof (nmonth_range m) as R. rewrite normalize_month.
  destruct (Z_lt_dec (nyear y m) 1) as [L|G]; [apply normalize_before_year1; assumption|].
  destruct Hd as [Hd|Hd]; [lia|].
  rewrite (normalize_step _ _ _ _ (xdim (nyear y m) (nmonth m))) by (try lia; apply max_days_val; lia).
  replace (d <=? 0) with false by (symmetry; apply Z.leb_gt; lia).
  replace (xdim (nyear y m) (nmonth m) <? d) with false by (symmetry; apply Z.ltb_ge; lia).
  reflexivity.
Qed.

(* DATE of a day that fits the (normalised) month, from 1900-03 on *)
Lemma date_fits y m d : 1900 <= y <= 9999 ->
  1900 <= nyear y m <= 9999 -> (nyear y m = 1900 -> 3 <= nmonth m) ->
  1 <= d <= days_in_month (nyear y m) (nmonth m) ->
  date_time.f_date (VInt y) (VInt m) (VInt d)
  = Ok (VInt (ymd2ord (nyear y m) (nmonth m) d - 693594)).
Proof.
  intros Hy Hy2 H3 Hd. pose proof (nmonth_range m) as R.
  assert (Ya : yadj y = y) by (unfold yadj; replace (y <? 1900) with false by (symmetry; apply Z.ltb_ge; lia); reflexivity).
  assert (N : date_time.f_normalize_year py_recursion_fuel (VInt (yadj y)) (VInt m) (VInt d)
              = Ok (VTuple [VInt (nyear y m); VInt (nmonth m); VInt d])).
  { rewrite Ya. unfold py_recursion_fuel. apply normalize_fits. right. rewrite xdim_dim by lia. lia. }
  rewrite (date_norm y m d _ _ _ ltac:(lia) N).
  pose proof (ymd2ord_late (nyear y m) (nmonth m) d ltac:(lia) R H3 ltac:(lia)).
  rewrite date_tail_late by lia. reflexivity.
Qed.

(* YEAR/MONTH/DAY of the serial number of a valid date *)
Lemma parts_of_date y m d : 1 <= m <= 12 -> 1 <= d <= days_in_month y m ->
  61 <= ymd2ord y m d - 693594 <= 2958465 ->
  date_time.f_year (VInt (ymd2ord y m d - 693594)) = Ok (VInt y)
  /\ date_time.f_month (VInt (ymd2ord y m d - 693594)) = Ok (VInt m)
  /\ date_time.f_day (VInt (ymd2ord y m d - 693594)) = Ok (VInt d).
Proof.
  intros Hm Hd Hr. pose proof (parts_late (ymd2ord y m d - 693594) ltac:(lia)) as P.
  replace (693594 + (ymd2ord y m d - 693594)) with (ymd2ord y m d) in P by lia.
  rewrite (ord2ymd_inv y m d Hm Hd Hr) in P. exact P.
Qed.

(* months_inc on integers *)
Lemma months_inc_eo n k y m d : 0 <= n < 2958466 ->
  date_time.f_date_from_int (VInt n) = Ok (VTuple [VInt y; VInt m; VInt d]) ->
  date_time.f_eomonth (VInt n) (VInt k) =
    v_result <- date_time.f_date (VInt y) (VInt (m + k + 1)) (VInt 1);;
    (if has_ty v_result TStr || false then Ok v_result else py_sub v_result (VInt 1)).
Proof.
  intros Hn Hd. unfold date_time.f_eomonth, date_time.f_months_inc. py_run. rewrite !coerce_int. py_run.
  replace (n <? 0) with false by (symmetry; apply Z.ltb_ge; lia). py_run.
  unfold date_time.c_DATE_MAX_INT. py_run.
  replace (2958466 <=? n) with false by (symmetry; apply Z.leb_gt; lia). py_run.
  rewrite Hd. py_run. reflexivity.
Qed.

Lemma months_inc_ed n k y m d : 0 <= n < 2958466 ->
  date_time.f_date_from_int (VInt n) = Ok (VTuple [VInt y; VInt m; VInt d]) ->
  date_time.f_edate (VInt n) (VInt k) =
    if nyear y (m + k) <? 1 then Ok excelutil.c_NUM_ERROR else
    date_time.f_date (VInt y) (VInt (m + k))
      (VInt (let x := xdim (nyear y (m + k)) (nmonth (m + k)) in if x <? d then x else d)).
Proof.
  intros Hn Hd. unfold date_time.f_edate, date_time.f_months_inc. py_run. rewrite !coerce_int. py_run.
  replace (n <? 0) with false by (symmetry; apply Z.ltb_ge; lia). py_run.
  unfold date_time.c_DATE_MAX_INT. py_run.
  replace (2958466 <=? n) with false by (symmetry; apply Z.leb_gt; lia). py_run.
  rewrite Hd. py_run. pose proof (nmonth_range (m + k)) as R.
  unfold py_recursion_fuel.
  rewrite normalize_fits by
    (pose proof (xdim_bounds (nyear y (m + k)) (nmonth (m + k)) R);
     destruct (Z_lt_dec (nyear y (m + k)) 1); [left; assumption|right; lia]).
  py_run. destruct (nyear y (m + k) <? 1) eqn:E; [reflexivity|]. apply Z.ltb_ge in E.
  py_run. rewrite max_days_val by lia. py_run. rewrite py_min2_int. py_run. reflexivity.
Qed.

Lemma from_int_spec n y m d : 60 < n <= 2958465 -> ord2ymd (693594 + n) = (y, m, d) ->
  date_time.f_date_from_int (VInt n) = Ok (VTuple [VInt y; VInt m; VInt d])
  /\ 1900 <= y <= 9999 /\ 1 <= m <= 12 /\ 1 <= d <= days_in_month y m
  /\ ymd2ord y m d = 693594 + n /\ (y = 1900 -> 3 <= m).
Proof.
  intros Hn E. pose proof (date_from_int_late n Hn) as F. rewrite E in F.
  destruct (greg_spec (693594 + n) ltac:(lia)) as (y' & m' & d' & E' & A1 & A2 & A3 & A4).
  rewrite E in E'. injection E' as <- <- <-.
  destruct (late_month y m d A2 ltac:(lia) ltac:(lia)) as [_ L]. repeat split; try assumption; lia.
Qed.

(* ------------------------------------------------------------ EOMONTH *)
(* target month (y2, m2) = k months after the month of n; from 1900-03 to 9999-11
   (for 9999-12 the model answers #NUM!: Refuted/C17_eomonth_last_month.v) *)
Lemma eomonth_spec n k y m d : 60 < n <= 2958465 -> ord2ymd (693594 + n) = (y, m, d) ->
  let y2 := nyear y (m + k) in let m2 := nmonth (m + k) in
  1900 <= y2 <= 9999 -> (y2 = 1900 -> 3 <= m2) -> (y2 = 9999 -> m2 <= 11) ->
  exists e, date_time.f_eomonth (VInt n) (VInt k) = Ok (VInt e)
    /\ e = ymd2ord y2 m2 (days_in_month y2 m2) - 693594 /\ 60 < e < 2958465
    /\ date_time.f_year (VInt e) = Ok (VInt y2) /\ date_time.f_month (VInt e) = Ok (VInt m2)
    /\ date_time.f_day (VInt e) = Ok (VInt (days_in_month y2 m2))
    /\ date_time.f_day (VInt (e + 1)) = Ok (VInt 1).
Proof.
  intros Hn E y2 m2 Hy2 H3 H9.
  destruct (from_int_spec n y m d Hn E) as (F & Hy & Hm & Hd & Ho & HL).
  pose proof (nmonth_range (m + k)) as R. fold m2 in R.
  pose proof (dim_bounds y2 m2 R) as B.
  pose proof (next_month y (m + k)) as N. pose proof (ymd2ord_next y (m + k)) as O.
  fold y2 m2 in N, O.
  set (y3 := nyear y (m + k + 1)) in *. set (m3 := nmonth (m + k + 1)) in *.
  assert (R3 : 1 <= m3 <= 12) by apply nmonth_range.
  assert (Hy3 : 1900 <= y3 <= 9999 /\ (y3 = 1900 -> 3 <= m3)).
  { destruct (m2 =? 12) eqn:E12; [apply Z.eqb_eq in E12|apply Z.eqb_neq in E12];
      injection N as N1 N2; lia. }
  pose proof (ymd2ord_late y2 m2 (days_in_month y2 m2) ltac:(lia) R H3 ltac:(lia)) as L2.
  pose proof (ymd2ord_le_max y3 m3 1 ltac:(lia) R3 ltac:(pose proof (dim_bounds y3 m3 R3); lia)) as U3.
  unfold MAXORD in U3.
  exists (ymd2ord y2 m2 (days_in_month y2 m2) - 693594).
  rewrite (months_inc_eo n k y m d ltac:(lia) F).
  rewrite (date_fits y (m + k + 1) 1) by (fold y3 m3; try lia; pose proof (dim_bounds y3 m3 R3); lia).
  fold y3 m3. py_run.
  destruct (parts_of_date y2 m2 (days_in_month y2 m2) R ltac:(lia) ltac:(lia)) as (P1 & P2 & P3).
  destruct (parts_of_date y3 m3 1 R3 ltac:(pose proof (dim_bounds y3 m3 R3); lia) ltac:(lia)) as (_ & _ & P6).
  replace (ymd2ord y2 m2 (days_in_month y2 m2) - 693594 + 1) with (ymd2ord y3 m3 1 - 693594) by lia.
  repeat split; try assumption; try lia. do 2 f_equal. lia.
Qed.

(* non-vacuity: EOMONTH(2024-01-31, 1) = 2024-02-29; EOMONTH(2023-12-15, -13) = 2022-11-30 *)
Example eomonth_ex :
  date_time.f_eomonth (VInt 45322) (VInt 1) = Ok (VInt 45351)
  /\ ord2ymd (693594 + 45351) = (2024, 2, 29)
  /\ date_time.f_eomonth (VInt 45275) (VInt (-13)) = Ok (VInt 44895)
  /\ ord2ymd (693594 + 44895) = (2022, 11, 30).
Proof. repeat split; vm_compute; reflexivity. Qed.

(* -------------------------------------------------------------- EDATE *)
Lemma edate_spec n k y m d : 60 < n <= 2958465 -> ord2ymd (693594 + n) = (y, m, d) ->
  let y2 := nyear y (m + k) in let m2 := nmonth (m + k) in
  1900 <= y2 <= 9999 -> (y2 = 1900 -> 3 <= m2) ->
  let dd := Z.min d (days_in_month y2 m2) in
  exists e, date_time.f_edate (VInt n) (VInt k) = Ok (VInt e)
    /\ e = ymd2ord y2 m2 dd - 693594 /\ 60 < e <= 2958465
    /\ date_time.f_year (VInt e) = Ok (VInt y2) /\ date_time.f_month (VInt e) = Ok (VInt m2)
    /\ date_time.f_day (VInt e) = Ok (VInt dd).
Proof.
  intros Hn E y2 m2 Hy2 H3 dd.
  destruct (from_int_spec n y m d Hn E) as (F & Hy & Hm & Hd & Ho & HL).
  pose proof (nmonth_range (m + k)) as R. fold m2 in R.
  pose proof (dim_bounds y2 m2 R) as B.
  assert (Hdd : 1 <= dd <= days_in_month y2 m2) by (unfold dd; lia).
  rewrite (months_inc_ed n k y m d ltac:(lia) F). fold y2 m2.
  replace (y2 <? 1) with false by (symmetry; apply Z.ltb_ge; lia).
  rewrite xdim_dim by lia. cbv zeta.
  replace (if days_in_month y2 m2 <? d then days_in_month y2 m2 else d) with dd
    by (unfold dd; destruct (days_in_month y2 m2 <? d) eqn:C;
        [apply Z.ltb_lt in C|apply Z.ltb_ge in C]; lia).
  rewrite (date_fits y (m + k) dd) by (fold y2 m2; lia). fold y2 m2.
  pose proof (ymd2ord_late y2 m2 dd ltac:(lia) R H3 ltac:(lia)) as L2.
  pose proof (ymd2ord_le_max y2 m2 dd ltac:(lia) R ltac:(lia)) as U2. unfold MAXORD in U2.
  exists (ymd2ord y2 m2 dd - 693594).
  destruct (parts_of_date y2 m2 dd R Hdd ltac:(lia)) as (P1 & P2 & P3).
  repeat split; try assumption; lia.
Qed.

(* EDATE(n, 0) = n *)
Lemma edate_zero n : 60 < n <= 2958465 -> date_time.f_edate (VInt n) (VInt 0) = Ok (VInt n).
Proof.
  intros Hn. destruct (ord2ymd (693594 + n)) as [[y m] d] eqn:E.
  destruct (from_int_spec n y m d Hn E) as (F & Hy & Hm & Hd & Ho & HL).
  destruct (edate_spec n 0 y m d Hn E) as (e & Q & Ee & _);
    rewrite ?Z.add_0_r, ?nyear_valid, ?nmonth_valid by lia; try lia.
  rewrite Q, Ee. rewrite Z.add_0_r, nyear_valid, nmonth_valid by lia.
  rewrite Z.min_l by lia. do 2 f_equal. lia.
Qed.

(* EDATE(EDATE(n, a), b) = EDATE(n, a + b) when the day is never clipped (day <= 28) *)
Lemma edate_compose n a b y m d : 60 < n <= 2958465 -> ord2ymd (693594 + n) = (y, m, d) -> d <= 28 ->
  1900 <= nyear y (m + a) <= 9999 -> (nyear y (m + a) = 1900 -> 3 <= nmonth (m + a)) ->
  1900 <= nyear y (m + a + b) <= 9999 -> (nyear y (m + a + b) = 1900 -> 3 <= nmonth (m + a + b)) ->
  exists n1 n2, date_time.f_edate (VInt n) (VInt a) = Ok (VInt n1)
    /\ date_time.f_edate (VInt n1) (VInt b) = Ok (VInt n2)
    /\ date_time.f_edate (VInt n) (VInt (a + b)) = Ok (VInt n2).
Proof.
  intros Hn E D28 Ha Ha3 Hb Hb3.
  destruct (from_int_spec n y m d Hn E) as (F & Hy & Hm & Hd & Ho & HL).
  destruct (edate_spec n a y m d Hn E Ha Ha3) as (n1 & Q1 & E1 & R1 & _).
  destruct (edate_spec n (a + b) y m d Hn E) as (n2 & Q2 & E2 & R2 & _);
    rewrite ?Z.add_assoc; try assumption.
  rewrite Z.add_assoc in E2.
  pose proof (nmonth_range (m + a)) as Ra. pose proof (nmonth_range (m + a + b)) as Rb.
  pose proof (dim_bounds (nyear y (m + a)) (nmonth (m + a)) Ra) as Ba.
  pose proof (dim_bounds (nyear y (m + a + b)) (nmonth (m + a + b)) Rb) as Bb.
  rewrite Z.min_l in E1, E2 by lia.
  assert (O1 : ord2ymd (693594 + n1) = (nyear y (m + a), nmonth (m + a), d)).
  { rewrite E1. replace (693594 + (ymd2ord (nyear y (m + a)) (nmonth (m + a)) d - 693594))
      with (ymd2ord (nyear y (m + a)) (nmonth (m + a)) d) by lia.
    apply ord2ymd_inv; lia. }
  destruct (edate_spec n1 b _ _ _ R1 O1) as (n3 & Q3 & E3 & _);
    rewrite ?nyear_compose, ?nmonth_compose; try assumption.
  rewrite nyear_compose, nmonth_compose, Z.min_l in E3 by lia.
  exists n1, n2. repeat split; try assumption. rewrite Q3. do 2 f_equal. lia.
Qed.

(* non-vacuity: EDATE(2024-01-31, 1) = 2024-02-29 (clipped to the target month), and a composition *)
Example edate_ex :
  date_time.f_edate (VInt 45322) (VInt 1) = Ok (VInt 45351)
  /\ ord2ymd (693594 + 45322) = (2024, 1, 31)
  /\ date_time.f_edate (VInt 45306) (VInt 14) = Ok (VInt 45731)
  /\ date_time.f_edate (VInt 45731) (VInt (-30)) = date_time.f_edate (VInt 45306) (VInt (-16)).
Proof. repeat split; vm_compute; reflexivity. Qed.

(* ------------------------------- month carry on the generated DATE itself *)
(* DATE(y, m + 12 k, d) = DATE(y + k, m, d) for ALL integers m, d, k (both years in
   1900..9999: below 1900 DATE reads the year as 1900 + year), whatever the result
   is — a serial day, #NUM! or an exception *)
Lemma date_month_carry y m d k : 1900 <= y <= 9999 -> 1900 <= y + k <= 9999 ->
  date_time.f_date (VInt y) (VInt (m + 12 * k)) (VInt d)
  = date_time.f_date (VInt (y + k)) (VInt m) (VInt d).
Proof.
  intros Hy Hk.
  assert (N : date_time.f_normalize_year py_recursion_fuel (VInt y) (VInt (m + 12 * k)) (VInt d)
              = date_time.f_normalize_year py_recursion_fuel (VInt (y + k)) (VInt m) (VInt d)).
  { unfold py_recursion_fuel. rewrite normalize_month. rewrite (normalize_month _ (y + k) m).
    replace (nyear y (m + 12 * k)) with (nyear (y + k) m)
      by (unfold nyear; replace (m + 12 * k - 1) with (m - 1 + k * 12) by lia;
          rewrite Z.div_add by lia; lia).
    replace (nmonth (m + 12 * k)) with (nmonth m)
      by (unfold nmonth; replace (m + 12 * k - 1) with (m - 1 + k * 12) by lia;
          rewrite Z.mod_add by lia; reflexivity).
    reflexivity. }
  unfold date_time.f_date. py_run.
  replace (0 <=? y) with true by (symmetry; apply Z.leb_le; lia).
  replace (0 <=? y + k) with true by (symmetry; apply Z.leb_le; lia). py_run.
  replace (y <=? 9999) with true by (symmetry; apply Z.leb_le; lia).
  replace (y + k <=? 9999) with true by (symmetry; apply Z.leb_le; lia). py_run.
  replace (y <? 1900) with false by (symmetry; apply Z.ltb_ge; lia).
  replace (y + k <? 1900) with false by (symmetry; apply Z.ltb_ge; lia).
  rewrite N. reflexivity.
Qed.

(* THE DAY BORROW AS THE MODEL COMPUTES IT (finding C17-day-borrow, for all
   inputs with a borrow of one month): for a month (y, m) from 1900-04 on and
   -27 <= d <= 0 the generated code adds the length of month m (not of the
   month before it), so DATE(y, m, d) is off by exactly
   days_in_month(m) - days_in_month(m - 1). *)
Lemma day_borrow_defect y m d : 1900 <= y <= 9999 -> 1 <= m <= 12 -> (y = 1900 -> 4 <= m) ->
  -27 <= d <= 0 ->
  let yp := nyear y (m - 1) in let mp := nmonth (m - 1) in
  exists n1, 60 < n1
    /\ date_time.f_date (VInt y) (VInt m) (VInt 1) = Ok (VInt n1)
    /\ date_time.f_date (VInt y) (VInt m) (VInt d)
       = Ok (VInt (n1 + d - 1 + (days_in_month y m - days_in_month yp mp))).
Proof.
  intros Hy Hm H4 Hd yp mp.
  destruct (day_carry_valid y m 1 Hy Hm ltac:(lia) ltac:(lia)) as (n1 & L1 & D1 & _).
  { pose proof (ymd2ord_le_max y m 1 ltac:(lia) Hm ltac:(pose proof (dim_bounds y m Hm); lia)).
    unfold MAXORD in *. lia. }
  exists n1. split; [exact L1|]. split; [exact D1|].
  assert (Ya : yadj y = y) by (unfold yadj; replace (y <? 1900) with false by (symmetry; apply Z.ltb_ge; lia); reflexivity).
  pose proof (dim_bounds y m Hm) as B. pose proof (nmonth_range (m - 1)) as Rp. fold mp in Rp.
  (* the month before: (yp, mp), 1900-03 or later, and its successor is (y, m) *)
  assert (P : 1899 <= yp <= 9999 /\ (yp = 1900 -> 3 <= mp) /\ 1900 <= yp
              /\ ymd2ord y m 1 = ymd2ord yp mp 1 + days_in_month yp mp).
  { pose proof (ymd2ord_next y (m - 1)) as O. pose proof (next_month y (m - 1)) as N.
    replace (m - 1 + 1) with m in * by lia. rewrite nyear_valid, nmonth_valid in * by lia.
    fold yp mp in O, N.
    assert (yp = y /\ mp = m - 1 \/ yp = y - 1 /\ mp = 12 /\ m = 1).
    { destruct (mp =? 12) eqn:E12; [apply Z.eqb_eq in E12|apply Z.eqb_neq in E12];
        injection N as N1 N2; lia. }
    rewrite (ymd2ord_day yp mp (days_in_month yp mp)) in O. repeat split; lia. }
  destruct P as (Hyp & H3p & Hyp' & Op).
  pose proof (dim_bounds yp mp Rp) as Bp.
  (* one borrow, then the forward carry from (yp, mp) *)
  destruct (normalize_carry 898 yp mp (d + days_in_month y m) ltac:(lia) Rp H3p ltac:(lia))
    as (y' & m' & d' & R & A1 & A2 & A3 & A4 & A5).
  assert (N : date_time.f_normalize_year py_recursion_fuel (VInt (yadj y)) (VInt m) (VInt d)
              = Ok (VTuple [VInt y'; VInt m'; VInt d'])).
  { rewrite Ya. unfold py_recursion_fuel.
    rewrite (normalize_step _ y m d (days_in_month y m)) by
      (try lia; rewrite max_days_val by lia; rewrite xdim_dim by lia; reflexivity).
    replace (d <=? 0) with true by (symmetry; apply Z.leb_le; lia).
    rewrite normalize_month. fold yp mp. rewrite R. apply retup_ok. }
  rewrite (date_norm y m d _ _ _ ltac:(lia) N).
  rewrite (ymd2ord_day yp mp) in A5.
  assert (D1' : n1 = ymd2ord y m 1 - 693594).
  { pose proof (date_fits y m 1 Hy) as DF. rewrite nyear_valid, nmonth_valid in DF by lia.
    rewrite DF in D1 by lia. injection D1 as <-. reflexivity. }
  assert (y' <= 9999).
  { destruct (Z_le_dec y' 9999) as [L|G]; [exact L|].
    pose proof (ymd2ord_gt_max y' m' d' ltac:(lia) ltac:(lia)).
    pose proof (ymd2ord_le_max y m 28 ltac:(lia) Hm ltac:(lia)). rewrite (ymd2ord_day y m 28) in *.
    unfold MAXORD in *. lia. }
  pose proof (ymd2ord_late y' m' d' A1 A2 A3 ltac:(lia)).
  rewrite date_tail_late by lia. do 2 f_equal. lia.
Qed.

Example day_borrow_defect_ex :
  date_time.f_date (VInt 2000) (VInt 3) (VInt 0) = Ok (VInt (36586 + 0 - 1 + (31 - 29)))
  /\ date_time.f_date (VInt 2000) (VInt 3) (VInt 1) = Ok (VInt 36586)
  /\ days_in_month 2000 3 = 31 /\ days_in_month (nyear 2000 2) (nmonth 2) = 29.
Proof. repeat split; vm_compute; reflexivity. Qed.
