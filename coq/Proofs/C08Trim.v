(* Proofs/C08Trim.v — C08, part 3: what [trim] establishes.  From C01's
   invariant before the trim: the trimmed workbook is well formed, its
   from-scratch values on the live region are those of the original workbook
   (a frozen cell holds its from-scratch value), a frozen cell is not below an
   input, and the trimmed state satisfies [TInv] (Proofs/C08Run.v). *)
From Coq Require Import List Arith Bool Lia.
From PV Require Import Lib.Py Model.Graph Model.Trim.
From PV Require Import Proofs.C01Base Proofs.C01Reset Proofs.C01Eval Proofs.C01Inv Proofs.C01
                       Proofs.C05 Proofs.C08Walk Proofs.C08Run.
Import ListNotations.

(* ------------------------------------------------------------ cut workbooks *)
Section Cut.
  Variable W : workbook.
  Variable fz : bset.
  Variable c : cache.
  Hypothesis WF : wf W.

  Notation V := (cut W fz c).

  Lemma cut_deps n d : In d (wb_deps V n) -> In d (wb_deps W n) /\ fz n = false.
  Proof. cbn [cut wb_deps]. destruct (fz n); [intros []|auto]. Qed.

  Lemma cut_wf : wf V.
  Proof.
    intros n L. cbn [cut wb_n] in L. destruct (WF n L) as (A & B & C). repeat split.
    - intros d Hd. apply cut_deps in Hd. now apply A.
    - cbn [cut wb_input wb_deps]. intros H. destruct (fz n); auto. rewrite orb_false_r in H. auto.
    - cbn [cut wb_input wb_range]. intros H. apply andb_prop in H. destruct H as [R F].
      apply negb_true_iff in F. rewrite F, orb_false_r. auto.
  Qed.

  Lemma cut_nonblank sem : sem_nonblank W sem -> sem_nonblank V sem.
  Proof.
    intros NB n vals L I. cbn [cut wb_n wb_input] in *. apply orb_false_elim in I.
    destruct I. now apply NB.
  Qed.

  Lemma cut_anc a n : anc V a n -> anc W a n.
  Proof.
    intros A. induction A as [a n H|a x n A IH H].
    - apply cut_deps in H. now constructor.
    - apply cut_deps in H. eapply anc_trans; eauto. tauto.
  Qed.
End Cut.

(* ------------------------------------------------------------------- trim *)
Section TrimFacts.
  Variable W : workbook.
  Variable sem : nat -> list pyval -> pyval.
  Hypothesis WF : wf W.
  Hypothesis NB : sem_nonblank W sem.
  Hypothesis SO : stored_ok W sem.

  Notation N := (wb_n W).
  Notation deps := (wb_deps W).
  Notation isinput := (wb_input W).
  Notation spec := (spec W sem).
  Notation anc := (anc W).

  Variable I O : list nat.
  Variable s : state.
  Hypothesis INV : Inv W sem s.
  Hypothesis OL : forall o, In o O -> o < N.
  Set Default Proof Using "WF NB SO INV OL I".

  (* the pieces of [trim W sem I O s] *)
  Definition s0 : state := build_all W sem O s.
  Definition bb : bset := st_built s0.
  Definition c0 : cache := st_cache s0.
  Definition nd1 : bset := add_all (dependants W bb I) O.
  Definition st3 : pw := walk_outputs W sem O (st0 nd1 c0).
  Definition c3 : cache := pw_cache st3.
  Definition VV : workbook := tr_wb (trim W sem I O s).
  Definition tt : state := tr_st (trim W sem I O s).
  Definition KK : bset := st_built tt.
  Definition lv : bset := fun n => memb O n || pw_proc st3 n.

  Lemma VV_eq : VV = cut W (pw_frz st3) c3.
  Proof. reflexivity. Qed.
  Lemma KK_eq n : KK n = bb n && pw_need st3 n.
  Proof. reflexivity. Qed.
  Lemma tt_cache n : st_cache tt n =
    if KK n then c3 n else if wb_input VV n then wb_inp0 VV n else VNone.
  Proof. reflexivity. Qed.
  Lemma frz_eq : tr_frz (trim W sem I O s) = pw_frz st3.
  Proof. reflexivity. Qed.

  (* step 1 *)
  Lemma build_all_inv : forall l s1, Inv W sem s1 -> (forall o, In o l -> o < N) ->
    Inv W sem (build_all W sem l s1) /\
    (forall m, st_built s1 m = true -> st_built (build_all W sem l s1) m = true) /\
    (forall o, In o l -> st_built (build_all W sem l s1) o = true) /\
    (forall k, isinput k = true -> st_cache (build_all W sem l s1) k = st_cache s1 k).
  Proof.
    induction l as [|o l IH]; intros s1 I1 L; cbn [build_all fold_left].
    - split; [auto|]. split; [auto|]. split; [intros ? []|auto].
    - fold (build_all W sem l (build W sem s1 o)).
      assert (Lo: o < N) by (apply L; left; auto).
      pose proof (build_inv W sem WF NB s1 o SO I1 Lo) as I2.
      destruct (IH _ I2 ltac:(intros; apply L; right; auto)) as (A & B & C & D).
      assert (Mono: forall m, st_built s1 m = true -> st_built (build W sem s1 o) m = true).
      { intros m Hm. rewrite build_unfold. cbn zeta. cbn [st_built].
        apply (closure_props W WF (st_built s1) o Lo (inv_lt W sem s1 I1) (inv_deps W sem s1 I1)); auto. }
      split; auto. split; [auto|]. split.
      + intros x [->|Hx]; auto. apply B. now apply build_built.
      + intros k Ik. rewrite D by auto. now apply build_inputs.
  Qed.

  Lemma inv0 : Inv W sem s0.
  Proof. apply build_all_inv; auto. Qed.
  Lemma bb_lt n : bb n = true -> n < N.
  Proof. apply (inv_lt W sem s0 inv0). Qed.
  Lemma bb_deps n d : bb n = true -> In d (deps n) -> bb d = true.
  Proof. apply (inv_deps W sem s0 inv0). Qed.
  Lemma bb_out o : In o O -> bb o = true.
  Proof. apply build_all_inv; auto. Qed.
  Lemma coh0 : Coherent W sem c0.
  Proof. apply Inv_coherent. apply inv0. Qed.

  (* step 2 *)
  Lemma nd1_spec m : nd1 m = true <->
    (exists a, In a I /\ bb a = true /\ bdesc W bb a m) \/ In m O.
  Proof.
    unfold nd1. rewrite add_all_true. rewrite (dependants_spec W WF bb bb_lt bb_deps). tauto.
  Qed.

  Lemma nd1_below a m : In a I -> anc a m -> bb m = true -> nd1 m = true.
  Proof.
    intros Ia A Bm. apply nd1_spec. left. exists a.
    assert (Ba: bb a = true) by (eapply (anc_closed W bb bb_deps); eauto).
    split; [auto|]. split; [auto|]. split; [auto|]. split; [now apply bb_lt|auto].
  Qed.

  (* step 3 *)
  Lemma walk3 :
    G W sem bb nd1 c0 st3 /\
    (forall o d, In o O -> In d (deps o) -> pw_proc st3 d = true) /\
    (forall m, pw_proc st3 m = true -> pw_frz st3 m = false ->
               forall d, In d (deps m) -> pw_proc st3 d = true).
  Proof.
    destruct (walk_outputs_ok W sem WF NB bb bb_lt bb_deps nd1 c0 coh0 O (st0 nd1 c0) bb_out
                              (G_st0 W sem bb nd1 c0)) as (g & _ & D & C).
    { cbn [st0 pw_proc]. discriminate. }
    auto.
  Qed.
  Lemma g3 : G W sem bb nd1 c0 st3. Proof. apply walk3. Qed.

  Lemma c3_coherent : Coherent W sem c3.
  Proof. apply (G_coherent W sem WF bb nd1 c0 coh0 st3 g3). Qed.
  Lemma c3_inputs k : isinput k = true -> c3 k = c0 k.
  Proof. intros Ik. eapply ext_inputs; eauto. apply (g_ext _ _ _ _ _ _ g3). Qed.
  Lemma c3_spec n : n < N -> spec c3 n = spec c0 n.
  Proof. intros L. eapply ext_spec; eauto. apply (g_ext _ _ _ _ _ _ g3). Qed.

  (* a frozen cell holds its from-scratch value *)
  Lemma frozen_value f : pw_frz st3 f = true -> c3 f = spec c3 f.
  Proof.
    intros F. destruct (g_frz _ _ _ _ _ _ g3 f F) as (P & _ & _).
    pose proof (bb_lt f (g_built _ _ _ _ _ _ g3 f P)) as L.
    destruct (isinput f) eqn:If; [now rewrite spec_input|].
    apply c3_coherent; auto. apply (g_val _ _ _ _ _ _ g3); auto.
  Qed.

  (* C08_frozen_independent, first half: a frozen cell is not below an input *)
  Lemma frozen_not_below f a : pw_frz st3 f = true -> In a I -> ~ anc a f.
  Proof.
    intros F Ia A. destruct (g_frz _ _ _ _ _ _ g3 f F) as (P & Nf & _).
    pose proof (g_built _ _ _ _ _ _ g3 f P) as Bf.
    assert (nd1 f = true); [|congruence]. eapply nd1_below; eauto.
  Qed.

  (* ---- the live region *)
  Lemma lv_true m : lv m = true <-> In m O \/ pw_proc st3 m = true.
  Proof. unfold lv. rewrite orb_true_iff, memb_In. tauto. Qed.
  Lemma lv_built m : lv m = true -> bb m = true.
  Proof.
    intros H. apply lv_true in H. destruct H as [H|H]; [now apply bb_out|].
    now apply (g_built _ _ _ _ _ _ g3).
  Qed.
  Lemma lv_lt m : lv m = true -> m < wb_n VV.
  Proof. intros H. apply bb_lt. now apply lv_built. Qed.
  Lemma lv_deps m d : lv m = true -> In d (wb_deps VV m) -> lv d = true.
  Proof.
    intros H Hd. rewrite VV_eq in Hd. apply cut_deps in Hd. destruct Hd as [Hd Fm].
    apply lv_true. right. apply lv_true in H. destruct walk3 as (_ & D & C).
    destruct H as [H|H]; eauto.
  Qed.
  Lemma frz_lv f : pw_frz st3 f = true -> lv f = true.
  Proof. intros F. apply lv_true. right. apply (g_frz _ _ _ _ _ _ g3 f F). Qed.

  (* a live input cell of the original workbook survives the trim *)
  Lemma lv_input_kept k : lv k = true -> isinput k = true -> KK k = true.
  Proof.
    intros L Ik. rewrite KK_eq, (lv_built k L). cbn [andb].
    apply (g_need _ _ _ _ _ _ g3). apply lv_true in L. destruct L as [L|P].
    - left. apply nd1_spec. auto.
    - destruct (pw_frz st3 k) eqn:F; auto.
      destruct (g_walked _ _ _ _ _ _ g3 k P F) as [H|H]; auto.
      rewrite (range_noninput W WF k (bb_lt k (lv_built k (proj2 (lv_true k) (or_intror P)))) H) in Ik.
      discriminate.
  Qed.
  Lemma frz_kept f : pw_frz st3 f = true -> KK f = true.
  Proof.
    intros F. rewrite KK_eq, (lv_built f (frz_lv f F)). cbn [andb].
    apply (g_need _ _ _ _ _ _ g3). auto.
  Qed.
  Lemma kept_cache m : KK m = true -> st_cache tt m = c3 m.
  Proof. intros H. rewrite tt_cache, H. reflexivity. Qed.

  (* ---- from-scratch values of the trimmed workbook on the live region *)
  Lemma spec_rel inpV inpW :
    (forall k, lv k = true -> isinput k = true -> inpV k = inpW k) ->
    (forall f, pw_frz st3 f = true -> inpV f = spec inpW f) ->
    forall n, lv n = true -> Graph.spec VV sem inpV n = spec inpW n.
  Proof.
    intros R1 R2. induction n as [n IH] using lt_wf_ind. intros L.
    pose proof (lv_lt n L) as LN.
    rewrite (spec_unfold VV sem (cut_wf W _ _ WF) inpV n LN).
    rewrite (spec_unfold W sem WF inpW n LN).
    rewrite VV_eq. cbn [cut wb_input wb_deps].
    destruct (pw_frz st3 n) eqn:F.
    - rewrite orb_true_r. rewrite R2 by auto. now rewrite (spec_unfold W sem WF inpW n LN).
    - rewrite orb_false_r. destruct (isinput n) eqn:In; [auto|].
      f_equal. apply map_ext_in. intros d Hd. apply IH.
      + eapply deps_lt; eauto.
      + apply (lv_deps n d L). rewrite VV_eq. cbn [cut wb_deps]. now rewrite F.
  Qed.

  (* ---- the hypotheses of Proofs/C08Run.v *)
  Lemma VV_wf : wf VV.
  Proof. apply cut_wf; auto. Qed.
  Lemma VV_nb : sem_nonblank VV sem.
  Proof. apply cut_nonblank; auto. Qed.
  Lemma KK_lt n : KK n = true -> n < wb_n VV.
  Proof. rewrite KK_eq. intros H. apply andb_prop in H. apply bb_lt. tauto. Qed.

  Lemma zs_needed n : Zs VV I n -> bb n = true ->
    In n I \/ pw_need st3 n = true.
  Proof.
    intros [H|(a & Ha & A)] Bn; [left; auto|]. right. apply cut_anc in A.
    apply (g_need _ _ _ _ _ _ g3). left. apply (nd1_below a n); auto. 
  Qed.

  Lemma zk d n : lv d = true -> Zs VV I n -> In n (wb_deps VV d) -> KK d = true.
  Proof.
    intros L Z Hd. pose proof (lv_built d L) as Bd.
    rewrite KK_eq, Bd. cbn [andb]. apply (g_need _ _ _ _ _ _ g3). left.
    rewrite VV_eq in Hd. apply cut_deps in Hd. destruct Hd as [Hd _].
    destruct Z as [Hn|(a & Ha & A)].
    - apply (nd1_below n d); auto. now constructor.
    - apply cut_anc in A. apply (nd1_below a d); auto. eapply anc_trans; eauto.
  Qed.

  (* the inputs are input cells of the trimmed workbook that survived *)
  Hypothesis II : forall a, In a I -> wb_input VV a = true /\ KK a = true.
  Set Default Proof Using "WF NB SO INV OL I II".

  Lemma ii_lv a : In a I -> lv a = true.
  Proof.
    intros Ia. destruct (II a Ia) as [Iv Ka]. rewrite KK_eq in Ka. apply andb_prop in Ka.
    destruct Ka as [Ba Na]. apply (g_need _ _ _ _ _ _ g3) in Na. destruct Na as [Na|Fa].
    - apply nd1_spec in Na. destruct Na as [(x & Hx & Bx & (A & _))|Ho]; [|apply lv_true; auto].
      exfalso. rewrite VV_eq in Iv. cbn [cut wb_input] in Iv.
      rewrite (anc_noninput W WF x a (bb_lt a Ba) A) in Iv. cbn [orb] in Iv.
      destruct (g_frz _ _ _ _ _ _ g3 a Iv) as (_ & Nf & _).
      assert (nd1 a = true); [|congruence]. eapply nd1_below; eauto.
    - now apply frz_lv.
  Qed.

  Lemma II' : forall a, In a I -> wb_input VV a = true /\ KK a = true /\ lv a = true.
  Proof. intros a Ia. destruct (II a Ia). repeat split; auto. now apply ii_lv. Qed.

  Lemma tinv0 : TInv VV sem KK lv I tt.
  Proof.
    split.
    - reflexivity.
    - intros m L Im H.
      assert (Km: KK m = true).
      { rewrite tt_cache in H. destruct (KK m); auto. rewrite Im in H. congruence. }
      rewrite kept_cache in * by auto.
      assert (Iw: isinput m = false).
      { rewrite VV_eq in Im. cbn [cut wb_input] in Im. apply orb_false_elim in Im. tauto. }
      rewrite (c3_coherent m (lv_lt m L) Iw H) at 1. symmetry. apply spec_rel; auto.
      + intros k Lk Ik. apply kept_cache. now apply lv_input_kept.
      + intros f F. rewrite kept_cache by (now apply frz_kept). now apply frozen_value.
    - intros p d Zp Ip Ld Hd Hp.
      assert (Id: wb_input VV d = false) by (eapply (dep_noninput VV VV_wf); eauto).
      destruct (KK d) eqn:Kd; [|rewrite tt_cache, Kd, Id; reflexivity].
      rewrite kept_cache by auto.
      assert (Bd: bb d = true) by (rewrite KK_eq in Kd; apply andb_prop in Kd; tauto).
      rewrite VV_eq in Hd. apply cut_deps in Hd. destruct Hd as [Hd _].
      assert (Bp: bb p = true) by (eapply bb_deps; eauto).
      assert (Kp: KK p = true).
      { rewrite KK_eq, Bp. cbn [andb]. destruct (zs_needed p Zp Bp) as [Hi|Hn]; auto.
        destruct (II p Hi). congruence. }
      rewrite kept_cache in Hp by auto.
      assert (Iw: isinput p = false).
      { rewrite VV_eq in Ip. cbn [cut wb_input] in Ip. apply orb_false_elim in Ip. tauto. }
      pose proof (g_ext _ _ _ _ _ _ g3) as E.
      assert (H0: c0 p = VNone) by (eapply ext_none; eauto).
      pose proof (Inv_I2 W sem s0 inv0 p d Bp Iw H0 Bd Hd) as Old.
      destruct (E d) as [U|(_&_&_&_&_&_&Fd)]; [unfold c3; rewrite U; exact Old|].
      exfalso. now apply (Fd p Hd Iw).
    - intros n d Zn Hd Ld H.
      assert (Id: wb_input VV d = false) by (eapply (dep_noninput VV VV_wf); eauto).
      rewrite tt_cache in H. destruct (KK d); auto. rewrite Id in H. congruence.
  Qed.
End TrimFacts.
