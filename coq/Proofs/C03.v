(* Proofs/C03.v — C03, persisted models are observationally equivalent: the
   model rebuilt by from_text from the document written by to_text denotes the
   same workbook with the same inputs (abstraction), answers every post-load
   history as the original does (C01's coherence theorem on both sides), and
   saving is deterministic and idempotent.  Helper files: C03Sort (sorted(),
   dictionaries), C03Graph (machine facts on top of the C01 development). *)
From Coq Require Import List Arith Bool Lia Permutation Sorted ZArith.
From PV Require Import Lib.Py Model.Graph Model.Persist.
From PV Require Import Proofs.C01Base Proofs.C01Reset Proofs.C01Eval Proofs.C01Inv Proofs.C01.
From PV Require Import Proofs.C03Sort Proofs.C03Graph.
Import ListNotations.
Local Open Scope nat_scope.

Lemma Permutation_filter {A} (p : A -> bool) (l l' : list A) :
  Permutation l l' -> Permutation (filter p l) (filter p l').
Proof.
  induction 1 as [|x l l' P IH|x y l|l l' l'' P1 IH1 P2 IH2]; cbn [filter]; auto.
  - destruct (p x); auto.
  - destruct (p x), (p y); auto. apply perm_swap.
  - eapply perm_trans; eauto.
Qed.

Lemma filter_all_true {A} (p : A -> bool) (l : list A) :
  (forall x, In x l -> p x = true) -> filter p l = l.
Proof.
  induction l as [|a l IH]; intros H; cbn [filter]; auto.
  rewrite (H a) by now left. f_equal. apply IH. intros x Hx. apply H. now right.
Qed.
Lemma filter_all_false {A} (p : A -> bool) (l : list A) :
  (forall x, In x l -> p x = false) -> filter p l = [].
Proof.
  induction l as [|a l IH]; intros H; cbn [filter]; auto.
  rewrite (H a) by now left. apply IH. intros x Hx. apply H. now right.
Qed.

Section Main.
  Variable G : geometry.
  Variable cdeps : str -> list nat.
  Variable csem : str -> list pyval -> pyval.
  Variable rsem : nat -> list pyval -> pyval.

  Notation pm_sem := (pm_sem csem rsem).
  Notation saved_cells := (saved_cells G).
  Notation to_text := (to_text G).
  Notation load := (load G cdeps csem rsem).
  Notation from_text := (from_text G cdeps csem rsem).
  Notation key := (fun x : nat * pyval => g_key G (fst x)).

  (* a serialisable node that is in the cell map *)
  Definition saved (M : pmodel) (n : nat) : bool :=
    st_built (pm_state M) n && negb (wb_range (pm_wb M) n).

  (* the model object is consistent with the address geometry and with the
     formulas' code; the cell map's key order enumerates the built nodes *)
  Record pm_ok (M : pmodel) : Prop := {
    ok_n : wb_n (pm_wb M) = g_n G;
    ok_range : forall n, n < g_n G -> wb_range (pm_wb M) n = g_range G n;
    ok_members : forall n, n < g_n G -> g_range G n = true -> wb_deps (pm_wb M) n = g_members G n;
    ok_code : forall n, n < g_n G -> st_built (pm_state M) n = true -> wb_input (pm_wb M) n = false ->
                g_range G n = false -> wb_deps (pm_wb M) n = cdeps (pm_code M n);
    ok_nodup : NoDup (pm_order M);
    ok_order : forall n, In n (pm_order M) <-> st_built (pm_state M) n = true
  }.

  (* side condition: no input cell holds a text that starts with "=" *)
  Definition no_eq_text (M : pmodel) : Prop :=
    forall n, st_built (pm_state M) n = true -> wb_input (pm_wb M) n = true ->
      code_of (st_cache (pm_state M) n) = None.

  (* formulas and ranges never compute a blank (C01's side condition (d)) *)
  Definition code_nonblank : Prop :=
    (forall t vals, csem t vals <> VNone) /\ (forall n vals, rsem n vals <> VNone).

  Lemma sem_of_nonblank W isrange code : code_nonblank -> sem_nonblank W (sem_of csem rsem isrange code).
  Proof. intros [A B] n vals _ _. unfold sem_of. destruct (isrange n); auto. Qed.

  (* ------------------------------------------------------------ the file *)
  Definition entries (M : pmodel) : list (nat * pyval) :=
    map (fun n => (n, cell_value M n))
        (filter (fun n => negb (wb_range (pm_wb M) n)) (pm_order M)).

  Lemma saved_cells_eq M : saved_cells M = isort key (entries M).
  Proof. reflexivity. Qed.

  Lemma entries_keys M : map fst (entries M) = filter (fun n => negb (wb_range (pm_wb M) n)) (pm_order M).
  Proof. unfold entries. rewrite map_map. cbn [fst]. apply map_id. Qed.

  Lemma entries_nodup M : pm_ok M -> NoDup (map fst (entries M)).
  Proof. intros OK. rewrite entries_keys. apply NoDup_filter, (ok_nodup M OK). Qed.

  Lemma in_keys M n : pm_ok M -> (In n (map fst (entries M)) <-> saved M n = true).
  Proof.
    intros OK. rewrite entries_keys, filter_In, (ok_order M OK). unfold saved.
    now rewrite andb_true_iff.
  Qed.

  Lemma saved_cells_perm M : Permutation (entries M) (saved_cells M).
  Proof. apply isort_perm. Qed.

  Lemma in_saved_keys M n : pm_ok M -> (In n (map fst (saved_cells M)) <-> saved M n = true).
  Proof.
    intros OK. rewrite <- in_keys by auto. split; apply Permutation_in.
    - apply Permutation_sym, Permutation_map, saved_cells_perm.
    - apply Permutation_map, saved_cells_perm.
  Qed.

  Lemma in_saved_value M n v : In (n, v) (saved_cells M) -> v = cell_value M n.
  Proof.
    intros H. eapply Permutation_in in H; [|apply Permutation_sym, saved_cells_perm].
    unfold entries in H. apply in_map_iff in H. destruct H as [m [E _]]. now inversion E.
  Qed.

  Lemma saved_lookup M n : pm_ok M ->
    lookup (saved_cells M) n = if saved M n then Some (cell_value M n) else None.
  Proof.
    intros OK. rewrite <- (lookup_perm _ _ n (entries_nodup M OK) (saved_cells_perm M)).
    destruct (saved M n) eqn:S.
    - apply lookup_in; [now apply entries_nodup|].
      apply (in_keys M n OK) in S. rewrite entries_keys in S.
      unfold entries. apply in_map_iff. exists n. auto.
    - apply lookup_notin. rewrite in_keys by auto. congruence.
  Qed.

  (* --------------------------------------------------------- abstraction *)
  (* what a model denotes: for every saved cell, its current value (an input)
     or its code and precedents (a formula) *)
  Definition abs_node (M : pmodel) (n : nat) : option (pyval + str * list nat) :=
    if saved M n
    then Some (if wb_input (pm_wb M) n then inl (st_cache (pm_state M) n)
               else inr (pm_code M n, wb_deps (pm_wb M) n))
    else None.
  Definition abs (M : pmodel) : list (option (pyval + str * list nat)) :=
    map (abs_node M) (seq 0 (wb_n (pm_wb M))).

  (* -------------------------------------------------- the loaded workbook *)
  Section Loaded.
    Variable M : pmodel.
    Hypothesis OK : pm_ok M.
    Hypothesis WF : wf (pm_wb M).
    Hypothesis I : Inv (pm_wb M) (pm_sem M) (pm_state M).
    Hypothesis NE : no_eq_text M.

    Notation W := (pm_wb M).
    Notation s := (pm_state M).
    Notation N := (wb_n (pm_wb M)).
    Let l := saved_cells M.
    Let W' := imp_wb G cdeps l.
    Let code' := imp_codes l.
    Let sem' := sem_of csem rsem (g_range G) code'.
    Let s' := build_list W' sem' (init W') (map fst l).

    Lemma NG : N = g_n G. Proof. exact (ok_n M OK). Qed.

    Lemma saved_lt n : saved M n = true -> n < N.
    Proof. unfold saved. intros H. apply andb_prop in H. now apply (inv_lt _ _ _ I). Qed.

    (* the three kinds of address *)
    Lemma at_input n : saved M n = true -> wb_input W n = true ->
      imp_code l n = None /\ wb_input W' n = true /\ wb_deps W' n = [] /\
      wb_inp0 W' n = st_cache s n.
    Proof.
      intros S In. pose proof (saved_lt n S) as L.
      assert (R: g_range G n = false).
      { rewrite <- (ok_range M OK) by (rewrite <- NG; auto).
        unfold saved in S. apply andb_prop in S. destruct S as [_ S]. now apply negb_true_iff. }
      assert (C: code_of (st_cache s n) = None).
      { apply NE; auto. unfold saved in S. now apply andb_prop in S. }
      assert (E: imp_code l n = None).
      { unfold imp_code, l. rewrite saved_lookup, S by auto. unfold cell_value. now rewrite In. }
      split; auto. unfold W', imp_wb. cbn [wb_input wb_deps wb_inp0]. rewrite R, E. cbn [negb andb].
      repeat split; auto. unfold l. rewrite saved_lookup, S by auto. unfold cell_value.
      now rewrite In, C.
    Qed.

    Lemma at_formula n : saved M n = true -> wb_input W n = false ->
      imp_code l n = Some (pm_code M n) /\ wb_input W' n = false /\ wb_deps W' n = wb_deps W n /\
      code' n = pm_code M n.
    Proof.
      intros S In. pose proof (saved_lt n S) as L.
      unfold saved in S. apply andb_prop in S. destruct S as [B R0].
      assert (R: g_range G n = false).
      { rewrite <- (ok_range M OK) by (rewrite <- NG; auto). now apply negb_true_iff. }
      assert (E: imp_code l n = Some (pm_code M n)).
      { unfold imp_code, l. rewrite saved_lookup by auto. unfold saved. rewrite B, R0. cbn [andb].
        unfold cell_value. now rewrite In. }
      split; auto. unfold code', imp_codes, W', imp_wb. cbn [wb_input wb_deps]. rewrite R, E.
      cbn [negb andb]. repeat split; auto. symmetry. apply (ok_code M OK); auto. rewrite <- NG; auto.
    Qed.

    Lemma at_range n : n < N -> wb_range W n = true ->
      wb_input W' n = false /\ wb_deps W' n = wb_deps W n /\ wb_input W n = false.
    Proof.
      intros L R. assert (R': g_range G n = true) by (rewrite <- (ok_range M OK); [auto|rewrite <- NG; auto]).
      unfold W', imp_wb. cbn [wb_input wb_deps]. rewrite R'. cbn [negb andb]. repeat split.
      - symmetry. apply (ok_members M OK); auto. rewrite <- NG; auto.
      - now apply (range_noninput W WF).
    Qed.

    Lemma at_unsaved n : n < N -> wb_range W n = false -> st_built s n = false ->
      wb_input W' n = true /\ wb_deps W' n = [].
    Proof.
      intros L R B. assert (R': g_range G n = false) by (rewrite <- (ok_range M OK); [auto|rewrite <- NG; auto]).
      assert (E: imp_code l n = None).
      { unfold imp_code, l. rewrite saved_lookup by auto. unfold saved. now rewrite B. }
      unfold W', imp_wb. cbn [wb_input wb_deps]. now rewrite R', E.
    Qed.

    (* every address below N is of one of the four kinds *)
    Lemma kinds n : n < N ->
      (wb_range W n = true) \/
      (saved M n = true /\ wb_input W n = true) \/
      (saved M n = true /\ wb_input W n = false) \/
      (wb_range W n = false /\ st_built s n = false).
    Proof.
      intros L. unfold saved. destruct (wb_range W n); auto.
      destruct (st_built s n); auto. destruct (wb_input W n); auto.
    Qed.

    Lemma deps_sub n : n < N -> forall d, In d (wb_deps W' n) -> In d (wb_deps W n).
    Proof.
      intros L d. destruct (kinds n L) as [R|[[S In]|[[S In]|[R B]]]].
      - destruct (at_range n L R) as (_ & -> & _). auto.
      - destruct (at_input n S In) as (_ & _ & -> & _). intros [].
      - destruct (at_formula n S In) as (_ & _ & -> & _). auto.
      - destruct (at_unsaved n L R B) as (_ & ->). intros [].
    Qed.

    Lemma wf_loaded : wf W'.
    Proof.
      intros n L. change (wb_n W') with (g_n G) in L. rewrite <- NG in L. repeat split.
      - intros d Hd. apply (deps_lt W WF n d L). now apply deps_sub.
      - intros In. destruct (kinds n L) as [R|[[S In0]|[[S In0]|[R B]]]].
        + destruct (at_range n L R) as (E & _). congruence.
        + now destruct (at_input n S In0) as (_ & _ & E & _).
        + destruct (at_formula n S In0) as (_ & E & _). congruence.
        + now destruct (at_unsaved n L R B) as (_ & E).
      - intros R. change (wb_range W' n) with (g_range G n) in R.
        rewrite <- (ok_range M OK) in R by (rewrite <- NG; auto).
        now destruct (at_range n L R) as (E & _).
    Qed.

    Hypothesis CNB : code_nonblank.

    Lemma nb_loaded : sem_nonblank W' sem'.
    Proof. now apply sem_of_nonblank. Qed.
    Lemma so_loaded : stored_ok W' sem'.
    Proof. apply stored_ok_nodata. reflexivity. Qed.

    Lemma keys_lt n : In n (map fst l) -> n < wb_n W'.
    Proof.
      intros H. apply (in_saved_keys M n OK) in H. apply saved_lt in H.
      change (wb_n W') with (g_n G). now rewrite <- NG.
    Qed.

    (* the loaded machine: Inv; its cells are exactly the saved cells; its
       input entries are the saved values *)
    Lemma loaded_state :
      Inv W' sem' s'
      /\ (forall n, saved M n = true -> st_built s' n = true)
      /\ (forall n, st_built s' n = true -> st_built s n = true)
      /\ (forall n, wb_input W' n = true -> st_cache s' n = wb_inp0 W' n).
    Proof.
      destruct (build_list_inv W' sem' wf_loaded nb_loaded so_loaded (map fst l) (init W')
                  (Inv_init W' sem' wf_loaded so_loaded) keys_lt) as (I' & B' & C').
      split; [exact I'|]. split; [|split].
      - intros n S. apply B'. right. now apply (in_saved_keys M n OK).
      - apply (build_list_sub W' sem' (fun m => st_built s m = true)).
        + intros m d Bm Hd. pose proof (inv_lt _ _ _ I m Bm) as L.
          apply (inv_deps _ _ _ I m d Bm). now apply deps_sub.
        + cbn. discriminate.
        + intros n H. apply (in_saved_keys M n OK) in H. unfold saved in H. now apply andb_prop in H.
      - intros n In. unfold s'. rewrite C' by auto. cbn [init st_cache]. now rewrite In.
    Qed.

    Lemma loaded_saved n : n < N ->
      (st_built s' n && negb (g_range G n)) = saved M n.
    Proof.
      intros L. destruct loaded_state as (_ & A & B & _).
      rewrite <- (ok_range M OK) by (rewrite <- NG; auto).
      destruct (saved M n) eqn:S.
      - rewrite (A n S). unfold saved in S. apply andb_prop in S. now destruct S as [_ ->].
      - unfold saved in S. destruct (st_built s' n) eqn:B'; auto.
        rewrite (B n B') in S. exact S.
    Qed.

    (* ------------------------------------------------ from_text succeeds *)
    Let f := fst (to_text M).
    Let M' := load f l (pm_hash M).

    Lemma to_text_get k :
      d_get f k =
      if str_eqb k_filename k then Some (TV (pm_filename M))
      else if str_eqb k_cells k then Some (TCells l)
      else if str_eqb k_hash k then Some (TV (pm_hash M))
      else if str_eqb k_cycles k then Some (TV (pm_cycles M))
      else d_get (match pm_extra M with None => [] | Some d => d end) k.
    Proof. unfold f, Persist.to_text. cbn [fst]. now rewrite !d_get_set. Qed.

    Lemma from_text_ok : from_text f = Ok M'.
    Proof.
      unfold Persist.from_text. rewrite (to_text_get k_cells).
      replace (str_eqb k_filename k_cells) with false by reflexivity.
      replace (str_eqb k_cells k_cells) with true by reflexivity.
      assert (E: existsb (fun x => g_range G (fst x) || negb (fst x <? g_n G)) l = false).
      { destruct (existsb _ l) eqn:E; auto. apply existsb_exists in E.
        destruct E as [[n v] [Hin Hx]]. cbn [fst] in Hx.
        assert (S: saved M n = true).
        { apply (in_saved_keys M n OK). change n with (fst (n, v)). now apply in_map. }
        pose proof (saved_lt n S) as L. rewrite NG in L.
        unfold saved in S. apply andb_prop in S. destruct S as [_ R]. apply negb_true_iff in R.
        rewrite (ok_range M OK) in R by auto. rewrite R in Hx. cbn [orb] in Hx.
        apply Nat.ltb_lt in L. now rewrite L in Hx. }
      rewrite E. rewrite (to_text_get k_hash).
      replace (str_eqb k_filename k_hash) with false by reflexivity.
      replace (str_eqb k_cells k_hash) with false by reflexivity.
      replace (str_eqb k_hash k_hash) with true by reflexivity.
      reflexivity.
    Qed.

    (* ---------------------------------------------------------- C03_abs *)
    Lemma abs_same : abs M' = abs M.
    Proof.
      unfold abs. change (wb_n (pm_wb M')) with (g_n G). rewrite <- NG.
      apply map_ext_in. intros n Hn. apply in_seq in Hn. assert (L: n < N) by lia.
      unfold abs_node at 1. change (saved M' n) with (st_built s' n && negb (g_range G n)).
      rewrite loaded_saved by auto. unfold abs_node. destruct (saved M n) eqn:S; auto. f_equal.
      change (wb_input (pm_wb M') n) with (wb_input W' n).
      change (st_cache (pm_state M') n) with (st_cache s' n).
      change (pm_code M' n) with (code' n). change (wb_deps (pm_wb M') n) with (wb_deps W' n).
      destruct (wb_input W n) eqn:In.
      - destruct (at_input n S In) as (_ & A & _ & B). rewrite A. f_equal.
        destruct loaded_state as (_ & _ & _ & C). now rewrite C.
      - destruct (at_formula n S In) as (_ & A & B & C). now rewrite A, B, C.
    Qed.

    (* -------------------------------------------------------- C03_equiv *)
    Hypothesis SO : stored_ok W (pm_sem M).
    Hypothesis AC : allcells W s.
    Hypothesis EX : inputs_exact W (st_cache s).

    Lemma agree_all n : n < N ->
      wb_input W n = wb_input W' n /\ wb_deps W n = wb_deps W' n /\
      (wb_input W n = false -> forall vals, pm_sem M n vals = sem' n vals) /\
      (wb_input W n = true -> wb_inp0 W' n = st_cache s n).
    Proof.
      intros L. unfold Persist.pm_sem, sem', sem_of.
      rewrite (ok_range M OK) by (rewrite <- NG; auto).
      destruct (kinds n L) as [R|[[S In]|[[S In]|[R B]]]].
      - destruct (at_range n L R) as (A & B & C). rewrite A, B, C.
        rewrite (ok_range M OK) in R by (rewrite <- NG; auto). rewrite R.
        repeat split; auto. discriminate.
      - destruct (at_input n S In) as (_ & A & B & C). rewrite A, B, In.
        repeat split; auto; try discriminate. now apply (input_nodeps W WF).
      - destruct (at_formula n S In) as (_ & A & B & C). rewrite A, B, C, In.
        repeat split; auto. discriminate.
      - rewrite (AC n L R) in B. discriminate.
    Qed.

    Lemma equiv h : Forall (post_ok W) h ->
      snd (run W' sem' s' h) = snd (run W (pm_sem M) s h).
    Proof.
      intros F.
      pose proof (sem_of_nonblank W (wb_range W) (pm_code M) CNB) as NBW.
      destruct loaded_state as (I' & A & B & C).
      assert (EN: N = wb_n W') by exact NG.
      (* the original *)
      destruct (run_coherent W (pm_sem M) WF NBW SO h s (st_cache s) I) as [T1 _]; auto.
      { intros m _ _. reflexivity. }
      { now apply post_history_ok. }
      (* the loaded model *)
      assert (F': Forall (post_ok W') h).
      { eapply Forall_impl; [|exact F]. intros o. apply post_ok_congr; auto.
        intros n L. now apply agree_all. }
      assert (AC': allcells W' s').
      { intros n L R. change (wb_n W') with (g_n G) in L. rewrite <- NG in L.
        change (wb_range W' n) with (g_range G n) in R.
        rewrite <- (ok_range M OK) in R by (rewrite <- NG; auto).
        apply A. unfold saved. now rewrite (AC n L R), R. }
      destruct (run_coherent W' sem' wf_loaded nb_loaded so_loaded h s' (st_cache s) I') as [T2 _]; auto.
      { intros m L In. rewrite <- EN in L. destruct (agree_all m L) as (E1 & _ & _ & E4).
        rewrite C by auto. apply E4. congruence. }
      { intros m L In. rewrite <- EN in L. destruct (agree_all m L) as (E1 & _). apply EX; auto. congruence. }
      { apply post_history_ok; auto using wf_loaded, nb_loaded, so_loaded. }
      rewrite T1, T2. symmetry.
      apply (run_spec_congr W W' (pm_sem M) sem' WF wf_loaded EN); auto.
      - intros n L. now apply agree_all.
      - intros n L. now apply agree_all.
      - intros n vals L In. now apply agree_all.
    Qed.

    (* ------------------------------------ C03_equiv for a partially built model *)
    (* the part of the workbook the saved model knows: the built nodes, and the
       range nodes all of whose members are built *)
    Definition region (n : nat) : Prop :=
      st_built s n = true \/
      (n < N /\ wb_range W n = true /\ forall d, In d (wb_deps W n) -> st_built s d = true).

    (* post-load operations inside the saved model *)
    Definition post_in (o : gop) : Prop :=
      match o with
      | Evaluate n => region n
      | Build n => region n
      | SetValue a v => saved M a = true /\ wb_input W a = true /\ scalar_exact v = true
      end.

    Lemma region_lt n : region n -> n < N.
    Proof. intros [B|(L & _)]; auto. now apply (inv_lt _ _ _ I). Qed.

    Lemma region_deps n d : region n -> In d (wb_deps W n) -> region d.
    Proof. intros [B|(_ & _ & H)] Hd; left; auto. now apply (inv_deps _ _ _ I n d). Qed.

    Lemma sem_same n : n < N ->
      wb_range W n = true \/ (saved M n = true /\ wb_input W n = false) ->
      forall vals, pm_sem M n vals = sem' n vals.
    Proof.
      intros L H vals. unfold Persist.pm_sem, sem', sem_of.
      rewrite <- (ok_range M OK) by (rewrite <- NG; auto).
      destruct H as [R|[S In]]; [now rewrite R|].
      destruct (at_formula n S In) as (_ & _ & _ & C). rewrite C.
      unfold saved in S. apply andb_prop in S. destruct S as [_ R]. apply negb_true_iff in R.
      now rewrite R.
    Qed.

    Lemma spec_region inp inp' :
      (forall a, saved M a = true -> wb_input W a = true -> inp a = inp' a) ->
      forall n, region n -> spec W (pm_sem M) inp n = spec W' sem' inp' n.
    Proof.
      intros E. induction n as [n IH] using lt_wf_ind. intros Rn.
      pose proof (region_lt n Rn) as L.
      assert (Deps: map (spec W (pm_sem M) inp) (wb_deps W n) = map (spec W' sem' inp') (wb_deps W n)).
      { apply map_ext_in. intros d Hd. apply IH; [now apply (deps_lt W WF n d L)|now apply (region_deps n)]. }
      rewrite (spec_unfold W (pm_sem M) WF) by auto.
      rewrite (spec_unfold W' sem' wf_loaded) by (change (wb_n W') with (g_n G); rewrite <- NG; auto).
      destruct (kinds n L) as [R|[[S In]|[[S In]|[R B]]]].
      - destruct (at_range n L R) as (A & B & C). rewrite A, B, C, Deps. apply sem_same; auto.
      - destruct (at_input n S In) as (_ & A & _). rewrite A, In. now apply E.
      - destruct (at_formula n S In) as (_ & A & B & C). rewrite A, B, In, Deps. apply sem_same; auto.
      - destruct Rn as [B'|(_ & R' & _)]; congruence.
    Qed.

    Lemma run_spec_region : forall h inp inp',
      (forall a, saved M a = true -> wb_input W a = true -> inp a = inp' a) ->
      Forall post_in h -> run_spec W (pm_sem M) inp h = run_spec W' sem' inp' h.
    Proof.
      induction h as [|o h IH]; intros inp inp' E F; cbn [run_spec]; auto.
      inversion F as [|? ? Ho Fh]; subst. f_equal.
      - destruct o; auto. now apply spec_region.
      - apply IH; auto. destruct o as [n|a v|n]; cbn [written]; auto.
        intros b Sb Ib. unfold upd. destruct (Nat.eqb b a); auto.
    Qed.

    Lemma equiv_region h : Forall post_in h -> ok_history W (pm_sem M) (ok_op W) s h ->
      snd (run W' sem' s' h) = snd (run W (pm_sem M) s h).
    Proof.
      intros F OKh.
      pose proof (sem_of_nonblank W (wb_range W) (pm_code M) CNB) as NBW.
      destruct loaded_state as (I' & A & B & C).
      destruct (run_coherent W (pm_sem M) WF NBW SO h s (st_cache s) I) as [T1 _]; auto.
      { intros m _ _. reflexivity. }
      destruct (run_coherent W' sem' wf_loaded nb_loaded so_loaded h s' (st_cache s') I') as [T2 _]; auto.
      { intros m _ _. reflexivity. }
      { (* the input entries of the loaded model are Excel scalars *)
        intros m L In. rewrite C by auto. change (wb_n W') with (g_n G) in L. rewrite <- NG in L.
        destruct (kinds m L) as [R|[[S In0]|[[S In0]|[R Bm]]]].
        - destruct (at_range m L R) as (E & _). congruence.
        - destruct (at_input m S In0) as (_ & _ & _ & E). rewrite E. now apply EX.
        - destruct (at_formula m S In0) as (_ & E & _). congruence.
        - assert (E: imp_code l m = None).
          { unfold imp_code, l. rewrite saved_lookup by auto. unfold saved. now rewrite Bm. }
          unfold W', imp_wb. cbn [wb_inp0]. unfold l. rewrite saved_lookup by auto.
          unfold saved. rewrite Bm. reflexivity. }
      { apply (nodata_history_ok W' sem' wf_loaded nb_loaded so_loaded (fun a => saved M a = true)); auto.
        eapply Forall_impl; [|exact F]. intros o Ho. destruct o as [n|a v|n]; cbn in *.
        - change (wb_n W') with (g_n G). rewrite <- NG. now apply region_lt.
        - destruct Ho as (Sa & Ia & Ev). repeat split; auto.
          now destruct (at_input a Sa Ia) as (_ & E & _).
        - change (wb_n W') with (g_n G). rewrite <- NG. now apply region_lt. }
      rewrite T1, T2. symmetry. apply run_spec_region; auto.
      intros a Sa Ia. destruct (at_input a Sa Ia) as (_ & E1 & _ & E2). now rewrite C, E2.
    Qed.

    (* --------------------------------------- saving the loaded model again *)
    Lemma cell_value_loaded n : saved M n = true -> cell_value M' n = cell_value M n.
    Proof.
      intros S. unfold cell_value at 1.
      change (wb_input (pm_wb M') n) with (wb_input W' n).
      change (st_cache (pm_state M') n) with (st_cache s' n).
      change (pm_code M' n) with (code' n). unfold cell_value.
      destruct (wb_input W n) eqn:In.
      - destruct (at_input n S In) as (_ & A & _ & B). rewrite A.
        destruct loaded_state as (_ & _ & _ & C). now rewrite C.
      - destruct (at_formula n S In) as (_ & A & _ & C). now rewrite A, C.
    Qed.

    Lemma resaved_cells : saved_cells M' = l.
    Proof.
      rewrite saved_cells_eq.
      assert (E: entries M' = l).
      { unfold entries. change (pm_order M') with
          (map fst l ++ filter (fun n => st_built s' n && g_range G n) (seq 0 (g_n G))).
        change (wb_range (pm_wb M')) with (g_range G). rewrite filter_app.
        rewrite (filter_all_true (fun n => negb (g_range G n)) (map fst l)).
        2:{ intros n H. apply (in_saved_keys M n OK) in H. pose proof (saved_lt n H) as L.
            unfold saved in H. apply andb_prop in H. destruct H as [_ H].
            rewrite (ok_range M OK) in H by (rewrite <- NG; auto). exact H. }
        rewrite (filter_all_false (fun n => negb (g_range G n))).
        2:{ intros n H. apply filter_In in H. destruct H as [_ H]. apply andb_prop in H.
            destruct H as [_ ->]. reflexivity. }
        rewrite app_nil_r, map_map. rewrite <- (map_id l) at 2. apply map_ext_in.
        intros [n v] H. cbn [fst]. rewrite (in_saved_value M n v H). f_equal.
        apply cell_value_loaded. apply (in_saved_keys M n OK).
        change n with (fst (n, v)). now apply in_map. }
      rewrite E. apply isort_id. unfold l. rewrite saved_cells_eq. apply isort_sorted.
    Qed.

    (* -------------------------------------------------------- the settings *)
    Lemma settings_survive :
      pm_cycles M' = pm_cycles M /\ pm_filename M' = pm_filename M /\ pm_hash M' = pm_hash M.
    Proof.
      unfold M', Persist.load. cbn [pm_cycles pm_filename pm_hash].
      rewrite (to_text_get k_cycles), (to_text_get k_filename).
      replace (str_eqb k_filename k_cycles) with false by reflexivity.
      replace (str_eqb k_cells k_cycles) with false by reflexivity.
      replace (str_eqb k_hash k_cycles) with false by reflexivity.
      replace (str_eqb k_cycles k_cycles) with true by reflexivity.
      replace (str_eqb k_filename k_filename) with true by reflexivity.
      auto.
    Qed.

    Definition reserved (k : str) : bool :=
      str_eqb k_filename k || str_eqb k_cells k || str_eqb k_hash k || str_eqb k_cycles k.

    Lemma extra_get k :
      d_get (match pm_extra M' with None => [] | Some d => d end) k =
      if str_eqb k_hash k then None else if str_eqb k_cells k then None
      else if str_eqb k_cycles k then None else d_get f k.
    Proof. unfold M', Persist.load. cbn [pm_extra]. now rewrite !d_get_del. Qed.

    (* every user key of extra_data survives *)
    Lemma extra_survives k : reserved k = false ->
      d_get (match pm_extra M' with None => [] | Some d => d end) k =
      d_get (match pm_extra M with None => [] | Some d => d end) k.
    Proof.
      unfold reserved. intros R. apply orb_false_iff in R. destruct R as [R R4].
      apply orb_false_iff in R. destruct R as [R R3]. apply orb_false_iff in R. destruct R as [R1 R2].
      rewrite extra_get, R2, R3, R4, to_text_get, R1, R2, R3, R4. reflexivity.
    Qed.
  End Loaded.

  (* ---------------------------------------------------- C03_deterministic *)
  Lemma deterministic M1 M2 :
    Permutation (pm_order M1) (pm_order M2) ->
    (forall n, In n (pm_order M1) ->
       wb_range (pm_wb M1) n = wb_range (pm_wb M2) n /\ cell_value M1 n = cell_value M2 n) ->
    NoDup (map (g_key G) (filter (fun n => negb (wb_range (pm_wb M1) n)) (pm_order M1))) ->
    saved_cells M1 = saved_cells M2.
  Proof.
    intros P E ND. rewrite !saved_cells_eq. apply isort_deterministic.
    - unfold entries.
      rewrite (filter_ext_in (fun n => negb (wb_range (pm_wb M1) n))
                             (fun n => negb (wb_range (pm_wb M2) n)) (pm_order M1))
        by (intros n H; now rewrite (proj1 (E n H))).
      rewrite (map_ext_in (fun n => (n, cell_value M1 n)) (fun n => (n, cell_value M2 n)))
        by (intros n H; apply filter_In in H; now rewrite (proj2 (E n (proj1 H)))).
      now apply Permutation_map, Permutation_filter.
    - unfold entries. now rewrite map_map.
  Qed.

  Lemma deterministic_doc M1 M2 :
    Permutation (pm_order M1) (pm_order M2) ->
    (forall n, In n (pm_order M1) ->
       wb_range (pm_wb M1) n = wb_range (pm_wb M2) n /\ cell_value M1 n = cell_value M2 n) ->
    NoDup (map (g_key G) (filter (fun n => negb (wb_range (pm_wb M1) n)) (pm_order M1))) ->
    pm_cycles M1 = pm_cycles M2 -> pm_filename M1 = pm_filename M2 -> pm_hash M1 = pm_hash M2 ->
    pm_extra M1 = pm_extra M2 ->
    fst (to_text M1) = fst (to_text M2).
  Proof.
    intros P E ND E1 E2 E3 E4. unfold Persist.to_text. cbn [fst].
    now rewrite (deterministic M1 M2 P E ND), E1, E2, E3, E4.
  Qed.

  (* --------------------------------------------------------- second save *)
  (* the same object saved twice, extra_data = None *)
  Lemma resave_same M : pm_extra M = None -> fst (to_text (snd (to_text M))) = fst (to_text M).
  Proof. destruct M as [a b c d e f0 g0 h0]. cbn [Persist.pm_extra]. intros ->. reflexivity. Qed.

  (* … and with any extra_data the second document has the same content as the
     first (key by key; the ORDER of the top-level keys can differ:
     Refuted/C03_resave_extra_data.v) *)
  Lemma resave_content M k :
    d_get (fst (to_text (snd (to_text M)))) k = d_get (fst (to_text M)) k.
  Proof.
    destruct (pm_extra M) as [x|] eqn:E; [|now rewrite resave_same].
    rewrite (to_text_get (snd (to_text M)) k), (to_text_get M k).
    unfold Persist.to_text at 1 2 3 4 5. cbn [snd pm_filename pm_hash pm_cycles pm_extra]. rewrite E.
    replace (saved_cells (snd (to_text M))) with (saved_cells M) by (destruct M; reflexivity).
    destruct (str_eqb k_filename k) eqn:R1; auto. destruct (str_eqb k_cells k) eqn:R2; auto.
    destruct (str_eqb k_hash k) eqn:R3; auto. destruct (str_eqb k_cycles k) eqn:R4; auto.
    now rewrite d_get_del, R2, !d_get_set, R1, R2, R3, R4.
  Qed.

  (* -------------------------------------------------------------- formats *)
  Lemma read_write (print : pyval -> str) (parse : str -> pyval) :
    (forall v, parse (print v) = v) -> forall f, read_file parse (write_file print f) = f.
  Proof.
    intros RT f. unfold read_file, write_file. rewrite map_map. rewrite <- (map_id f) at 2.
    apply map_ext. intros [k [v|l]]; cbn [fst snd].
    - now rewrite RT.
    - do 2 f_equal. rewrite map_map. rewrite <- (map_id l) at 2. apply map_ext.
      intros [n v]. cbn [fst snd]. now rewrite RT.
  Qed.
End Main.

(* ------------------------------------------------------ the theorems *)
Section Final.
  Variable G : geometry.
  Variable cdeps : str -> list nat.
  Variable csem : str -> list pyval -> pyval.
  Variable rsem : nat -> list pyval -> pyval.
  Notation roundtrip := (roundtrip_pkl G cdeps csem rsem).
  Notation sem := (pm_sem csem rsem).

  Theorem abs_roundtrip M :
    pm_ok G cdeps M -> wf (pm_wb M) -> code_nonblank csem rsem ->
    Inv (pm_wb M) (sem M) (pm_state M) -> no_eq_text M ->
    exists M', roundtrip M = Ok M' /\ abs M' = abs M.
  Proof.
    intros OK WF CNB I NE. eexists. split.
    - apply from_text_ok; eauto.
    - now apply abs_same.
  Qed.

  Theorem equiv_roundtrip M :
    pm_ok G cdeps M -> wf (pm_wb M) -> code_nonblank csem rsem ->
    Inv (pm_wb M) (sem M) (pm_state M) -> no_eq_text M ->
    stored_ok (pm_wb M) (sem M) -> allcells (pm_wb M) (pm_state M) ->
    inputs_exact (pm_wb M) (st_cache (pm_state M)) ->
    exists M', roundtrip M = Ok M' /\
      forall h, Forall (post_ok (pm_wb M)) h ->
        snd (run (pm_wb M') (sem M') (pm_state M') h) = snd (run (pm_wb M) (sem M) (pm_state M) h)
        /\ snd (run (pm_wb M) (sem M) (pm_state M) h) =
           run_spec (pm_wb M) (sem M) (st_cache (pm_state M)) h.
  Proof.
    intros OK WF CNB I NE SO AC EX. eexists. split.
    - apply from_text_ok; eauto.
    - intros h F. split.
      + now apply (equiv G cdeps csem rsem M).
      + apply run_coherent; auto.
        * now apply sem_of_nonblank.
        * intros m _ _. reflexivity.
        * apply post_history_ok; auto. now apply sem_of_nonblank.
  Qed.

  (* a model saved before every cell was built: histories inside the saved part
     that are admissible for the original (C01's ok_history) *)
  Theorem equiv_region_roundtrip M :
    pm_ok G cdeps M -> wf (pm_wb M) -> code_nonblank csem rsem ->
    Inv (pm_wb M) (sem M) (pm_state M) -> no_eq_text M ->
    stored_ok (pm_wb M) (sem M) ->
    inputs_exact (pm_wb M) (st_cache (pm_state M)) ->
    exists M', roundtrip M = Ok M' /\
      forall h, Forall (post_in M) h ->
        ok_history (pm_wb M) (sem M) (ok_op (pm_wb M)) (pm_state M) h ->
        snd (run (pm_wb M') (sem M') (pm_state M') h) = snd (run (pm_wb M) (sem M) (pm_state M) h).
  Proof.
    intros OK WF CNB I NE SO EX. eexists. split.
    - apply from_text_ok; eauto.
    - intros h F OKh. now apply (equiv_region G cdeps csem rsem M).
  Qed.

  Theorem idempotent M :
    pm_ok G cdeps M -> wf (pm_wb M) -> code_nonblank csem rsem ->
    Inv (pm_wb M) (sem M) (pm_state M) -> no_eq_text M ->
    exists M', roundtrip M = Ok M' /\
      saved_cells G M' = saved_cells G M /\
      forall k, d_get (fst (to_text G M')) k = d_get (fst (to_text G M)) k.
  Proof.
    intros OK WF CNB I NE. eexists. split; [apply from_text_ok; eauto|].
    pose proof (resaved_cells G cdeps csem rsem M OK WF I NE CNB) as RC.
    split; [exact RC|]. intros k.
    rewrite (to_text_get G _ k), (to_text_get G M k), RC.
    destruct (settings_survive G cdeps csem rsem M) as (-> & -> & ->).
    destruct (str_eqb k_filename k) eqn:R1; auto. destruct (str_eqb k_cells k) eqn:R2; auto.
    destruct (str_eqb k_hash k) eqn:R3; auto. destruct (str_eqb k_cycles k) eqn:R4; auto.
    rewrite extra_get, R3, R2, R4, to_text_get, R1, R2, R3, R4. reflexivity.
  Qed.

  Theorem settings_roundtrip M : pm_ok G cdeps M -> Inv (pm_wb M) (sem M) (pm_state M) ->
    exists M', roundtrip M = Ok M' /\
      pm_cycles M' = pm_cycles M /\ pm_filename M' = pm_filename M /\ pm_hash M' = pm_hash M /\
      forall k, reserved k = false ->
        d_get (match pm_extra M' with None => [] | Some d => d end) k =
        d_get (match pm_extra M with None => [] | Some d => d end) k.
  Proof.
    intros OK I. eexists. split; [apply from_text_ok; eauto|].
    destruct (settings_survive G cdeps csem rsem M) as (A & B & C).
    repeat split; auto. intros k. apply extra_survives.
  Qed.

  Theorem text_formats (print : pyval -> str) (parse : str -> pyval) M :
    (forall v, parse (print v) = v) ->
    roundtrip_text G cdeps csem rsem print parse M = roundtrip M.
  Proof. intros RT. unfold roundtrip_text, roundtrip_pkl. now rewrite read_write. Qed.
End Final.
