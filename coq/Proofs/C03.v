(* Proofs/C03.v — C03, persisted models are observationally equivalent: the
   model rebuilt by from_text from the document written by to_text denotes the
   same workbook with the same inputs (abstraction), answers every post-load
   history as the original does (C01's coherence theorem on both sides), and
   saving is deterministic and idempotent.  Helper files: C03Sort (sorted(),
   dictionaries), C03Graph (machine facts on top of the C01 development). *)
From Coq Require Import List Arith Bool Lia Permutation Sorted ZArith.
From PV Require Import Lib.Py Model.Graph Model.Persist.
From PV Require Import Proofs.C01Base Proofs.C01Reset Proofs.C01Eval Proofs.C01Inv Proofs.C01.
From PV Require Import Proofs.C03Sort Proofs.C03Graph.
Import ListNotations.
Local Open Scope nat_scope.

Lemma Permutation_filter {A} (p : A -> bool) (l l' : list A) :
  Permutation l l' -> Permutation (filter p l) (filter p l').
Proof.
  induction 1 as [|x l l' P IH|x y l|l l' l'' P1 IH1 P2 IH2]; cbn [filter]; auto.
  - destruct (p x); auto.
  - destruct (p x), (p y); auto. apply perm_swap.
  - eapply perm_trans; eauto.
Qed.

Section Main.
  Variable G : geometry.
  Variable cdeps : str -> list nat.
  Variable csem : str -> list pyval -> pyval.
  Variable rsem : nat -> list pyval -> pyval.

  Notation pm_sem := (pm_sem csem rsem).
  Notation saved_cells := (saved_cells G).
  Notation to_text := (to_text G).
  Notation load := (load G cdeps csem rsem).
  Notation from_text := (from_text G cdeps csem rsem).
  Notation key := (fun x : nat * pyval => g_key G (fst x)).

  (* a serialisable node that is in the cell map *)
  Definition saved (M : pmodel) (n : nat) : bool :=
    st_built (pm_state M) n && negb (wb_range (pm_wb M) n).

  (* the model object is consistent with the address geometry and with the
     formulas' code; the cell map's key order enumerates the built nodes *)
  Record pm_ok (M : pmodel) : Prop := {
    ok_n : wb_n (pm_wb M) = g_n G;
    ok_range : forall n, n < g_n G -> wb_range (pm_wb M) n = g_range G n;
    ok_members : forall n, n < g_n G -> g_range G n = true -> wb_deps (pm_wb M) n = g_members G n;
    ok_code : forall n, n < g_n G -> st_built (pm_state M) n = true -> wb_input (pm_wb M) n = false ->
                g_range G n = false -> wb_deps (pm_wb M) n = cdeps (pm_code M n);
    ok_nodup : NoDup (pm_order M);
    ok_order : forall n, In n (pm_order M) <-> st_built (pm_state M) n = true
  }.

  (* side condition: no input cell holds a text that starts with "=" *)
  Definition no_eq_text (M : pmodel) : Prop :=
    forall n, st_built (pm_state M) n = true -> wb_input (pm_wb M) n = true ->
      code_of (st_cache (pm_state M) n) = None.

  (* formulas and ranges never compute a blank (C01's side condition (d)) *)
  Definition code_nonblank : Prop :=
    (forall t vals, csem t vals <> VNone) /\ (forall n vals, rsem n vals <> VNone).

  Lemma sem_of_nonblank W isrange code : code_nonblank -> sem_nonblank W (sem_of csem rsem isrange code).
  Proof. intros [A B] n vals _ _. unfold sem_of. destruct (isrange n); auto. Qed.

  (* ------------------------------------------------------------ the file *)
  Definition entries (M : pmodel) : list (nat * pyval) :=
    map (fun n => (n, cell_value M n))
        (filter (fun n => negb (wb_range (pm_wb M) n)) (pm_order M)).

  Lemma saved_cells_eq M : saved_cells M = isort key (entries M).
  Proof. reflexivity. Qed.

  Lemma entries_keys M : map fst (entries M) = filter (fun n => negb (wb_range (pm_wb M) n)) (pm_order M).
  Proof. unfold entries. rewrite map_map. cbn [fst]. apply map_id. Qed.

  Lemma entries_nodup M : pm_ok M -> NoDup (map fst (entries M)).
  Proof. intros OK. rewrite entries_keys. apply NoDup_filter, (ok_nodup M OK). Qed.

  Lemma in_keys M n : pm_ok M -> (In n (map fst (entries M)) <-> saved M n = true).
  Proof.
    intros OK. rewrite entries_keys, filter_In, (ok_order M OK). unfold saved.
    now rewrite andb_true_iff.
  Qed.

  Lemma saved_cells_perm M : Permutation (entries M) (saved_cells M).
  Proof. apply isort_perm. Qed.

  Lemma in_saved_keys M n : pm_ok M -> (In n (map fst (saved_cells M)) <-> saved M n = true).
  Proof.
    intros OK. rewrite <- in_keys by auto. split; apply Permutation_in.
    - apply Permutation_sym, Permutation_map, saved_cells_perm.
    - apply Permutation_map, saved_cells_perm.
  Qed.

  Lemma in_saved_value M n v : In (n, v) (saved_cells M) -> v = cell_value M n.
  Proof.
    intros H. eapply Permutation_in in H; [|apply Permutation_sym, saved_cells_perm].
    unfold entries in H. apply in_map_iff in H. destruct H as [m [E _]]. now inversion E.
  Qed.

  Lemma saved_lookup M n : pm_ok M ->
    lookup (saved_cells M) n = if saved M n then Some (cell_value M n) else None.
  Proof.
    intros OK. rewrite <- (lookup_perm _ _ n (entries_nodup M OK) (saved_cells_perm M)).
    destruct (saved M n) eqn:S.
    - apply lookup_in; [now apply entries_nodup|].
      apply (in_keys M n OK) in S. rewrite entries_keys in S.
      unfold entries. apply in_map_iff. exists n. auto.
    - apply lookup_notin. rewrite in_keys by auto. congruence.
  Qed.

  (* -------------------------------------------------- the loaded workbook *)
  Section Loaded.
    Variable M : pmodel.
    Hypothesis OK : pm_ok M.
    Hypothesis WF : wf (pm_wb M).
    Hypothesis I : Inv (pm_wb M) (pm_sem M) (pm_state M).
    Hypothesis NE : no_eq_text M.

    Notation W := (pm_wb M).
    Notation s := (pm_state M).
    Notation N := (wb_n (pm_wb M)).
    Let l := saved_cells M.
    Let W' := imp_wb G cdeps l.
    Let code' := imp_codes l.
    Let sem' := sem_of csem rsem (g_range G) code'.
    Let s' := build_list W' sem' (init W') (map fst l).

    Lemma NG : N = g_n G. Proof. exact (ok_n M OK). Qed.

    Lemma saved_lt n : saved M n = true -> n < N.
    Proof. unfold saved. intros H. apply andb_prop in H. now apply (inv_lt _ _ _ I). Qed.

    (* the three kinds of address *)
    Lemma at_input n : saved M n = true -> wb_input W n = true ->
      imp_code l n = None /\ wb_input W' n = true /\ wb_deps W' n = [] /\
      wb_inp0 W' n = st_cache s n.
    Proof.
      intros S In. pose proof (saved_lt n S) as L.
      assert (R: g_range G n = false).
      { rewrite <- (ok_range M OK) by (rewrite <- NG; auto).
        unfold saved in S. apply andb_prop in S. destruct S as [_ S]. now apply negb_true_iff. }
      assert (C: code_of (st_cache s n) = None).
      { apply NE; auto. unfold saved in S. now apply andb_prop in S. }
      assert (E: imp_code l n = None).
      { unfold imp_code, l. rewrite saved_lookup, S by auto. unfold cell_value. now rewrite In. }
      split; auto. unfold W', imp_wb. cbn [wb_input wb_deps wb_inp0]. rewrite R, E. cbn [negb andb].
      repeat split; auto. unfold l. rewrite saved_lookup, S by auto. unfold cell_value.
      now rewrite In, C.
    Qed.

    Lemma at_formula n : saved M n = true -> wb_input W n = false ->
      imp_code l n = Some (pm_code M n) /\ wb_input W' n = false /\ wb_deps W' n = wb_deps W n /\
      code' n = pm_code M n.
    Proof.
      intros S In. pose proof (saved_lt n S) as L.
      unfold saved in S. apply andb_prop in S. destruct S as [B R0].
      assert (R: g_range G n = false).
      { rewrite <- (ok_range M OK) by (rewrite <- NG; auto). now apply negb_true_iff. }
      assert (E: imp_code l n = Some (pm_code M n)).
      { unfold imp_code, l. rewrite saved_lookup by auto. unfold saved. rewrite B, R0. cbn [andb].
        unfold cell_value. now rewrite In. }
      split; auto. unfold code', imp_codes, W', imp_wb. cbn [wb_input wb_deps]. rewrite R, E.
      cbn [negb andb]. repeat split; auto. symmetry. apply (ok_code M OK); auto. rewrite <- NG; auto.
    Qed.

    Lemma at_range n : n < N -> wb_range W n = true ->
      wb_input W' n = false /\ wb_deps W' n = wb_deps W n /\ wb_input W n = false.
    Proof.
      intros L R. assert (R': g_range G n = true) by (rewrite <- (ok_range M OK); [auto|rewrite <- NG; auto]).
      unfold W', imp_wb. cbn [wb_input wb_deps]. rewrite R'. cbn [negb andb]. repeat split.
      - symmetry. apply (ok_members M OK); auto. rewrite <- NG; auto.
      - now apply (range_noninput W WF).
    Qed.

    Lemma at_unsaved n : n < N -> wb_range W n = false -> st_built s n = false ->
      wb_input W' n = true /\ wb_deps W' n = [].
    Proof.
      intros L R B. assert (R': g_range G n = false) by (rewrite <- (ok_range M OK); [auto|rewrite <- NG; auto]).
      assert (E: imp_code l n = None).
      { unfold imp_code, l. rewrite saved_lookup by auto. unfold saved. now rewrite B. }
      unfold W', imp_wb. cbn [wb_input wb_deps]. now rewrite R', E.
    Qed.

    (* every address below N is of one of the four kinds *)
    Lemma kinds n : n < N ->
      (wb_range W n = true) \/
      (saved M n = true /\ wb_input W n = true) \/
      (saved M n = true /\ wb_input W n = false) \/
      (wb_range W n = false /\ st_built s n = false).
    Proof.
      intros L. unfold saved. destruct (wb_range W n); auto.
      destruct (st_built s n); auto. destruct (wb_input W n); auto.
    Qed.

    Lemma deps_sub n : n < N -> forall d, In d (wb_deps W' n) -> In d (wb_deps W n).
    Proof.
      intros L d. destruct (kinds n L) as [R|[[S In]|[[S In]|[R B]]]].
      - destruct (at_range n L R) as (_ & -> & _). auto.
      - destruct (at_input n S In) as (_ & _ & -> & _). intros [].
      - destruct (at_formula n S In) as (_ & _ & -> & _). auto.
      - destruct (at_unsaved n L R B) as (_ & ->). intros [].
    Qed.

    Lemma wf_loaded : wf W'.
    Proof.
      intros n L. change (wb_n W') with (g_n G) in L. rewrite <- NG in L. repeat split.
      - intros d Hd. apply (deps_lt W WF n d L). now apply deps_sub.
      - intros In. destruct (kinds n L) as [R|[[S In0]|[[S In0]|[R B]]]].
        + destruct (at_range n L R) as (E & _). congruence.
        + now destruct (at_input n S In0) as (_ & _ & E & _).
        + destruct (at_formula n S In0) as (_ & E & _). congruence.
        + now destruct (at_unsaved n L R B) as (_ & E).
      - intros R. change (wb_range W' n) with (g_range G n) in R.
        rewrite <- (ok_range M OK) in R by (rewrite <- NG; auto).
        now destruct (at_range n L R) as (E & _).
    Qed.

    Hypothesis CNB : code_nonblank.

    Lemma nb_loaded : sem_nonblank W' sem'.
    Proof. now apply sem_of_nonblank. Qed.
    Lemma so_loaded : stored_ok W' sem'.
    Proof. apply stored_ok_nodata. reflexivity. Qed.

    Lemma keys_lt n : In n (map fst l) -> n < wb_n W'.
    Proof.
      intros H. apply (in_saved_keys M n OK) in H. apply saved_lt in H.
      change (wb_n W') with (g_n G). now rewrite <- NG.
    Qed.

    (* the loaded machine: Inv; its cells are exactly the saved cells; its
       input entries are the saved values *)
    Lemma loaded_state :
      Inv W' sem' s'
      /\ (forall n, saved M n = true -> st_built s' n = true)
      /\ (forall n, st_built s' n = true -> st_built s n = true)
      /\ (forall n, wb_input W' n = true -> st_cache s' n = wb_inp0 W' n).
    Proof.
      destruct (build_list_inv W' sem' wf_loaded nb_loaded so_loaded (map fst l) (init W')
                  (Inv_init W' sem' wf_loaded so_loaded) keys_lt) as (I' & B' & C').
      split; [exact I'|]. split; [|split].
      - intros n S. apply B'. right. now apply (in_saved_keys M n OK).
      - apply (build_list_sub W' sem' (fun m => st_built s m = true)).
        + intros m d Bm Hd. pose proof (inv_lt _ _ _ I m Bm) as L.
          apply (inv_deps _ _ _ I m d Bm). now apply deps_sub.
        + cbn. discriminate.
        + intros n H. apply (in_saved_keys M n OK) in H. unfold saved in H. now apply andb_prop in H.
      - intros n In. unfold s'. rewrite C' by auto. cbn [init st_cache]. now rewrite In.
    Qed.

    Lemma loaded_saved n : n < N ->
      (st_built s' n && negb (g_range G n)) = saved M n.
    Proof.
      intros L. destruct loaded_state as (_ & A & B & _).
      rewrite <- (ok_range M OK) by (rewrite <- NG; auto).
      destruct (saved M n) eqn:S.
      - rewrite (A n S). unfold saved in S. apply andb_prop in S. now destruct S as [_ ->].
      - unfold saved in S. destruct (st_built s' n) eqn:B'; auto.
        rewrite (B n B') in S. exact S.
    Qed.
  End Loaded.
End Main.
