(* Proofs/C17.v — date serial numbers: the generated code of
   /repo/src/pycel/lib/date_time.py (Gen/date_time.v) against the calendar
   facts of Proofs/C17Cal.v + the exhaustive calendar sweeps. *)
From Coq Require Import ZArith QArith List Bool Lia.
From PV Require Import Lib.Py Lib.PyDate Proofs.PyTac Proofs.C17Cal Proofs.C17Base.
From PV Require Proofs.C17Sweep.All.
From PV Require Gen.excelutil Gen.date_time.
Import ListNotations.
Open Scope Z_scope.

Ltac dt_unfold :=
  unfold date_time.f_date_from_int, date_time.f_year, date_time.f_month, date_time.f_day,
    date_time.f_weekday, date_time.f_max_days_in_month, date_time.f_is_leap_year,
    date_time.f_date, date_time.c_LEAP_1900_SERIAL_NUMBER, date_time.c_DATE_ZERO,
    date_time.c_LEAP_1900_TUPLE, date_time.c_DATE_MAX_INT, excelutil.f_is_number.
Ltac dt_cbn := cbn [as_num py_floor py_float py_timedelta py_delta_days py_date_year py_date_month
                    py_date_day date_ord py_datetime py_monthrange].
Ltac dt_run := repeat (progress (py_step; dt_cbn)).

Lemma py_mod_int x y : y <> 0 -> py_mod (VInt x) (VInt y) = Ok (VInt (x mod y)).
Proof.
  intros H. unfold py_mod. cbn [as_num].
  replace (y =? 0) with false by (symmetry; apply Z.eqb_neq; exact H). reflexivity.
Qed.

(* Excel's leap rule (1900 counted as leap), as the code computes it *)
Definition excel_leap (y : Z) : bool :=
  ((y mod 4 =? 0) && negb (y mod 100 =? 0)) || (y mod 400 =? 0) || (y =? 1900).

Lemma is_leap_year_spec y : 0 < y ->
  date_time.f_is_leap_year (VInt y) = Ok (VBool (excel_leap y)).
Proof.
  intros Hy. dt_unfold. dt_run.
  replace (y <=? 0) with false by (symmetry; apply Z.leb_gt; lia). dt_run.
  rewrite !py_mod_int by lia. dt_run.
  unfold excel_leap.
  destruct (y mod 4 =? 0); destruct (y mod 100 =? 0); destruct (y mod 400 =? 0);
    destruct (y =? 1900); reflexivity.
Qed.

Lemma max_days_ge y m : 0 < y -> 1 <= m <= 12 ->
  exists k, date_time.f_max_days_in_month (VInt m) (VInt y) = Ok (VInt k)
            /\ days_in_month y m <= k.
Proof.
  intros Hy Hm. unfold date_time.f_max_days_in_month. py_run.
  rewrite (is_leap_year_spec y Hy).
  destruct (m =? 2) eqn:E2; py_run.
  - apply Z.eqb_eq in E2. subst m.
    destruct (excel_leap y); py_run.
    + exists 29. split; [reflexivity|]. unfold days_in_month. destruct (is_leap y); cbn; lia.
    + dt_cbn. py_run. eexists. split; [reflexivity|]. lia.
  - dt_cbn.
    replace (1 <=? m) with true by (symmetry; apply Z.leb_le; lia).
    replace (m <=? 12) with true by (symmetry; apply Z.leb_le; lia). py_run.
    eexists. split; [reflexivity|]. lia.
Qed.

Lemma normalize_valid f y m d : 0 < y -> 1 <= m <= 12 -> 1 <= d <= days_in_month y m ->
  date_time.f_normalize_year (S f) (VInt y) (VInt m) (VInt d)
  = Ok (VTuple [VInt y; VInt m; VInt d]).
Proof.
  intros Hy Hm Hd. cbn [date_time.f_normalize_year]. py_run.
  replace (1 <=? m) with true by (symmetry; apply Z.leb_le; lia). py_run.
  replace (m <=? 12) with true by (symmetry; apply Z.leb_le; lia). py_run.
  replace (y <? 1) with false by (symmetry; apply Z.ltb_ge; lia). py_run.
  replace (d <=? 0) with false by (symmetry; apply Z.leb_gt; lia). py_run.
  destruct (max_days_ge y m Hy Hm) as (k & Hk & Hge). rewrite Hk. py_run.
  replace (k <? d) with false by (symmetry; apply Z.ltb_ge; lia). reflexivity.
Qed.

(* DATE on a valid calendar date after 1900-03-01 is its ordinal minus DATE_ZERO *)
Lemma date_valid y m d n : 1900 <= y <= 9999 -> 1 <= m <= 12 -> 1 <= d <= days_in_month y m ->
  ymd2ord y m d = 693594 + n -> 60 < n ->
  date_time.f_date (VInt y) (VInt m) (VInt d) = Ok (VInt n).
Proof.
  intros Hy Hm Hd Hord Hn. unfold date_time.f_date, py_recursion_fuel. py_run.
  replace (0 <=? y) with true by (symmetry; apply Z.leb_le; lia). py_run.
  replace (y <=? 9999) with true by (symmetry; apply Z.leb_le; lia). py_run.
  replace (y <? 1900) with false by (symmetry; apply Z.ltb_ge; lia).
  rewrite (normalize_valid _ y m d ltac:(lia) Hm Hd). py_run. dt_cbn.
  replace (1 <=? y) with true by (symmetry; apply Z.leb_le; lia).
  replace (y <=? 9999) with true by (symmetry; apply Z.leb_le; lia).
  replace (1 <=? m) with true by (symmetry; apply Z.leb_le; lia).
  replace (m <=? 12) with true by (symmetry; apply Z.leb_le; lia).
  replace (1 <=? d) with true by (symmetry; apply Z.leb_le; lia).
  replace (d <=? days_in_month y m) with true by (symmetry; apply Z.leb_le; lia).
  cbn [andb]. unfold date_time.c_DATE_ZERO. py_run. dt_cbn. py_run.
  rewrite Hord. replace (693594 + n - 693594) with n by lia.
  replace (n <=? 60) with false by (symmetry; apply Z.leb_gt; lia). py_run.
  replace (n <? 0) with false by (symmetry; apply Z.ltb_ge; lia). reflexivity.
Qed.

Lemma date_parts z : 1 <= z <= MAXORD ->
  py_date_year (VInt z) = Ok (VInt (fst (fst (ord2ymd z))))
  /\ py_date_month (VInt z) = Ok (VInt (snd (fst (ord2ymd z))))
  /\ py_date_day (VInt z) = Ok (VInt (snd (ord2ymd z))).
Proof.
  intros H. unfold py_date_year, py_date_month, py_date_day, date_ord.
  replace (1 <=? z) with true by (symmetry; apply Z.leb_le; lia).
  replace (z <=? MAXORD) with true by (symmetry; apply Z.leb_le; lia). auto.
Qed.

(* the parts of a serial day after the phantom leap day *)
Lemma date_from_int_late n : 60 < n <= 2958465 ->
  date_time.f_date_from_int (VInt n)
  = Ok (let '(y, m, d) := ord2ymd (693594 + n) in VTuple [VInt y; VInt m; VInt d]).
Proof.
  intros H. dt_unfold. py_run.
  replace (n =? 60) with false by (symmetry; apply Z.eqb_neq; lia). py_run.
  replace (n =? 0) with false by (symmetry; apply Z.eqb_neq; lia). py_run. dt_cbn.
  replace (Z.abs n <=? 999999999) with true by (symmetry; apply Z.leb_le; lia). py_run.
  replace (n <? 60) with false by (symmetry; apply Z.ltb_ge; lia).
  destruct (date_parts (693594 + n) ltac:(unfold MAXORD; lia)) as (P1 & P2 & P3).
  rewrite P1, P2, P3. cbn [bind].
  destruct (ord2ymd (693594 + n)) as [[y m] d]. reflexivity.
Qed.

Lemma parts_late n : 60 < n <= 2958465 ->
  let '(y, m, d) := ord2ymd (693594 + n) in
  date_time.f_year (VInt n) = Ok (VInt y) /\ date_time.f_month (VInt n) = Ok (VInt m)
  /\ date_time.f_day (VInt n) = Ok (VInt d).
Proof.
  intros H. pose proof (date_from_int_late n H) as Hd.
  destruct (ord2ymd (693594 + n)) as [[y m] d].
  unfold date_time.f_year, date_time.f_month, date_time.f_day. dt_run.
  rewrite Hd. py_run. auto.
Qed.

Lemma roundtrip_late n : 60 < n <= 2958465 -> rt n = true.
Proof.
  intros H. pose proof (All.greg_all n ltac:(lia)) as G. unfold greg_ok in G.
  pose proof (parts_late n H) as P.
  destruct (ord2ymd (693594 + n)) as [[y m] d]. destruct P as (Py & Pm & Pd).
  repeat (apply andb_true_iff in G; destruct G as [G ?]).
  repeat match goal with
  | H : (_ <=? _) = true |- _ => apply Z.leb_le in H
  | H : (_ =? _) = true |- _ => apply Z.eqb_eq in H
  end.
  unfold rt. rewrite Py, Pm, Pd.
  rewrite (date_valid y m d n) by lia.
  cbn [py_eq as_num]. apply Z.eqb_refl.
Qed.

Lemma roundtrip_early : allb rt 61 0 = true.
Proof. vm_compute. reflexivity. Qed.

Lemma roundtrip n : 0 <= n <= 2958465 -> rt n = true.
Proof.
  intros H. destruct (Z_le_dec n 60) as [Hs|Hl].
  - apply (allb_spec rt 61 0 roundtrip_early). cbn. lia.
  - apply roundtrip_late. lia.
Qed.

(* ------------------------------------------------------------- WEEKDAY *)
Lemma weekday_closed n : date_time.f_weekday (VInt n) = Ok (VInt ((n - 1) mod 7 + 1)).
Proof.
  unfold date_time.f_weekday. dt_run. rewrite py_mod_int by lia. dt_run. reflexivity.
Qed.
Lemma weekday_period n :
  date_time.f_weekday (VInt (n + 7)) = date_time.f_weekday (VInt n)
  /\ exists w, date_time.f_weekday (VInt n) = Ok (VInt w) /\ 1 <= w <= 7.
Proof.
  rewrite !weekday_closed. split.
  - do 3 f_equal. replace (n + 7 - 1) with (n - 1 + 1 * 7) by lia. apply Z.mod_add. lia.
  - eexists. split; [reflexivity|]. pose proof (Z.mod_pos_bound (n - 1) 7 ltac:(lia)). lia.
Qed.

(* ------------------------------------------------------- day 0 and day 60 *)
Lemma phantom_days :
  date_time.f_date_from_int (VInt 60) = Ok (VTuple [VInt 1900; VInt 2; VInt 29])
  /\ date_time.f_date_from_int (VInt 0) = Ok (VTuple [VInt 1900; VInt 1; VInt 0])
  /\ date_time.f_date (VInt 1900) (VInt 2) (VInt 29) = Ok (VFloat 60)
  /\ date_time.f_date (VInt 1900) (VInt 1) (VInt 0) = Ok (VInt 0).
Proof. repeat split; vm_compute; reflexivity. Qed.

(* ------------------------------------------ month carry: DATE(y, m+12k, d) *)
Lemma floor_div12 a : Qround.Qfloor (inject_Z a / inject_Z 12) = a / 12.
Proof. symmetry. apply Qround.Zdiv_Qdiv. Qed.

(* one normalisation of the month: the result of "if not 1 <= m <= 12: …" *)
Definition norm_month (y m : Z) : Z * Z :=
  if (1 <=? m) && (m <=? 12) then (y, m) else (y + (m - 1) / 12, m - (m - 1) / 12 * 12).

Lemma norm_month_carry y m k : norm_month y (m + 12 * k) = norm_month (y + k) m.
Proof.
  unfold norm_month.
  assert (E : (m + 12 * k - 1) / 12 = (m - 1) / 12 + k).
  { replace (m + 12 * k - 1) with (m - 1 + k * 12) by lia. apply Z.div_add. lia. }
  destruct ((1 <=? m) && (m <=? 12)) eqn:A; destruct ((1 <=? m + 12 * k) && (m + 12 * k <=? 12)) eqn:B.
  - apply andb_true_iff in A, B. destruct A as [A1 A2], B as [B1 B2].
    apply Z.leb_le in A1, A2, B1, B2. assert (k = 0) by lia. subst. f_equal; lia.
  - apply andb_true_iff in A. destruct A as [A1 A2]. apply Z.leb_le in A1, A2.
    rewrite E. assert ((m - 1) / 12 = 0) by (apply Z.div_small; lia). rewrite H. f_equal; lia.
  - apply andb_true_iff in B. destruct B as [B1 B2]. apply Z.leb_le in B1, B2.
    assert (((m + 12 * k - 1) / 12) = 0) by (apply Z.div_small; lia).
    rewrite E in H. f_equal; lia.
  - rewrite E. f_equal; lia.
Qed.

(* ------------------------------------------------ time of day (binary64) *)
From PV Require Import Model.DayTime.
Lemma daytime_all : all_secs (Z.to_nat 86400) 0 = true.
Proof. vm_compute. reflexivity. Qed.

Lemma all_secs_spec n : forall start, all_secs n start = true ->
  forall s, start <= s < start + Z.of_nat n -> pack (hms s) = s.
Proof.
  induction n as [|n IH]; intros start H s Hs; [lia|].
  cbn [all_secs] in H. apply andb_true_iff in H. destruct H as [H1 H2].
  destruct (Z.eq_dec s start) as [->|Hne]; [apply Z.eqb_eq; exact H1|].
  apply (IH (start + 1) H2). lia.
Qed.

Lemma daytime s : 0 <= s < 86400 -> pack (hms s) = s.
Proof.
  intros H. apply (all_secs_spec _ 0 daytime_all). rewrite Z2Nat.id by lia. lia.
Qed.
