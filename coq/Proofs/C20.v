From Coq Require Import ZArith List Bool Lia.
From PV Require Import Lib.Py Proofs.PyTac.
From PV Require Gen.excelutil Gen.text.
From PV Require Import Model.Text.
Import ListNotations.
Open Scope Z_scope.
