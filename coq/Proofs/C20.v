(* Proofs/C20.v — text functions: lemmas and proofs.
   Gen/text.v (translated bodies) under Model/Text.v's [wrap] (apply_meta). *)
From Coq Require Import ZArith QArith Qround List Bool Lia.
From PV Require Import Lib.Py Proofs.PyTac.
From PV Require Gen.excelutil Gen.text.
From PV Require Import Model.Text.
Import ListNotations.
Open Scope Z_scope.

(* ------------------------------------------------------------ list lemmas *)
Lemma zlen_nonneg {A} (l : list A) : 0 <= zlen l.
Proof. unfold zlen. lia. Qed.

Lemma firstn_clamp {A} (s : list A) j : 0 <= j ->
  firstn (Z.to_nat (Z.max 0 (Z.min (zlen s) j))) s = firstn (Z.to_nat j) s.
Proof.
  intros Hj. unfold zlen. destruct (Z_le_gt_dec j (Z.of_nat (length s))) as [H|H].
  - rewrite Z.min_r, Z.max_r by lia. reflexivity.
  - rewrite Z.min_l, Z.max_r by lia. rewrite Nat2Z.id.
    rewrite firstn_all. symmetry. apply firstn_all2. lia.
Qed.

Lemma skipn_clamp {A} (s : list A) j : 0 <= j ->
  skipn (Z.to_nat (Z.max 0 (Z.min (zlen s) j))) s = skipn (Z.to_nat j) s.
Proof.
  intros Hj. unfold zlen. destruct (Z_le_gt_dec j (Z.of_nat (length s))) as [H|H].
  - rewrite Z.min_r, Z.max_r by lia. reflexivity.
  - rewrite Z.min_l, Z.max_r by lia. rewrite Nat2Z.id.
    rewrite skipn_all. symmetry. apply skipn_all2. lia.
Qed.

Lemma slice_to {A} (s : list A) n : 0 <= n ->
  slice_list s None (Some n) = firstn (Z.to_nat n) s.
Proof.
  intros Hn. unfold slice_list, clamp_idx.
  replace (n <? 0) with false by (symmetry; apply Z.ltb_ge; lia).
  change (Z.to_nat 0) with 0%nat. cbn [skipn]. rewrite Z.sub_0_r.
  apply firstn_clamp; exact Hn.
Qed.

Lemma slice_from {A} (s : list A) a : 0 <= a ->
  slice_list s (Some a) None = skipn (Z.to_nat a) s.
Proof.
  intros Ha. unfold slice_list, clamp_idx.
  replace (a <? 0) with false by (symmetry; apply Z.ltb_ge; lia).
  rewrite skipn_clamp by exact Ha.
  apply firstn_all2. rewrite skipn_length.
  pose proof (zlen_nonneg s). unfold zlen in *. lia.
Qed.

Lemma slice_mid {A} (s : list A) a k : 0 <= a -> 0 <= k ->
  slice_list s (Some a) (Some (a + k)) = firstn (Z.to_nat k) (skipn (Z.to_nat a) s).
Proof.
  intros Ha Hk. unfold slice_list, clamp_idx.
  replace (a <? 0) with false by (symmetry; apply Z.ltb_ge; lia).
  replace (a + k <? 0) with false by (symmetry; apply Z.ltb_ge; lia).
  rewrite skipn_clamp by exact Ha.
  unfold zlen. set (n := Z.of_nat (length s)).
  destruct (Z_le_gt_dec a n) as [H1|H1].
  - destruct (Z_le_gt_dec (a + k) n) as [H2|H2].
    + rewrite (Z.min_r n (a + k)), (Z.min_r n a), !Z.max_r by lia.
      f_equal. lia.
    + rewrite (Z.min_l n (a + k)), (Z.min_r n a), !Z.max_r by lia.
      rewrite !firstn_all2; try reflexivity; rewrite skipn_length; subst n; lia.
  - rewrite (skipn_all2 s) by (subst n; lia). rewrite !firstn_nil. reflexivity.
Qed.

(* the last k characters *)
Definition lastn {A} (k : nat) (s : list A) : list A := skipn (length s - k) s.

Lemma slice_last {A} (s : list A) k : 0 < k ->
  slice_list s (Some (- k)) None = lastn (Z.to_nat k) s.
Proof.
  intros Hk. unfold slice_list, clamp_idx, lastn.
  replace (- k <? 0) with true by (symmetry; apply Z.ltb_lt; lia).
  unfold zlen. set (n := Z.of_nat (length s)).
  assert (Hn : 0 <= n) by (subst n; lia).
  replace (Z.to_nat (Z.max 0 (Z.min n (- k + n)))) with (length s - Z.to_nat k)%nat
    by (subst n; lia).
  apply firstn_all2. rewrite skipn_length. subst n. lia.
Qed.

Lemma lastn_spec {A} (s : list A) k :
  exists a, s = a ++ lastn k s /\ length (lastn k s) = Nat.min k (length s).
Proof.
  unfold lastn. exists (firstn (length s - k) s). split.
  - symmetry. apply firstn_skipn.
  - rewrite skipn_length. lia.
Qed.
Definition not_code (s : list Z) : Prop := match s with 35 :: _ => False | _ => True end.

Lemma str_eqb_not_code s t : not_code s -> str_eqb s (35 :: t) = false.
Proof.
  destruct s as [|c s]; [reflexivity|]. cbn [not_code str_eqb]. intros H.
  destruct (Z.eqb_spec c 35) as [->|]; [contradiction|reflexivity].
Qed.

Lemma in_codes_false s : not_code s -> py_in (VStr s) excelutil.c_ERROR_CODES = Ok false.
Proof.
  intros H. unfold excelutil.c_ERROR_CODES. cbn [py_in hashable existsb py_eq].
  rewrite !(str_eqb_not_code s _ H). reflexivity.
Qed.

Lemma in_codes_int n : py_in (VInt n) excelutil.c_ERROR_CODES = Ok false.
Proof. reflexivity. Qed.

Lemma coerce_str_text s : excelutil.f_coerce_to_string (VStr s) = Ok (VStr s).
Proof. reflexivity. Qed.

Lemma coerce_num_int n : excelutil.f_coerce_to_number py_fuel (VInt n) (VBool true) = Ok (VInt n).
Proof. reflexivity. Qed.

Lemma is_number_int n : excelutil.f_is_number (VInt n) = Ok (VBool true).
Proof. reflexivity. Qed.

(* evaluation of [wrap] on text / integer arguments *)
Ltac wrap_step :=
  cbn [forallb is_scalar andb negb map_idx in_idx existsb Nat.eqb orb bind first_code
       any_not_number cond_of py_truthy first_err_string];
  rewrite ?coerce_str_text, ?coerce_num_int, ?in_codes_int, ?is_number_int;
  rewrite ?in_codes_false by assumption.
Ltac wrap_run := unfold wrap; repeat (progress wrap_step).

Definition VERR : pyval := excelutil.c_VALUE_ERROR.

(* position p (1-based), k characters: what MID denotes *)
Definition mid_chars (s : str) (p k : Z) : str :=
  firstn (Z.to_nat k) (skipn (Z.to_nat (p - 1)) s).

Lemma left_spec s n : not_code s ->
  X_left [VStr s; VInt n] = Ok (if n <? 0 then VERR else VStr (firstn (Z.to_nat n) s)).
Proof.
  intros H. unfold X_left. wrap_run. unfold text.f_left. py_run.
  destruct (n <? 0) eqn:E; [reflexivity|].
  cbn [py_str]. py_run. rewrite slice_to by (apply Z.ltb_ge in E; lia). reflexivity.
Qed.

Lemma left_default s : not_code s -> X_left [VStr s] = X_left [VStr s; VInt 1].
Proof.
  intros H. unfold X_left. wrap_run. reflexivity.
Qed.

Lemma right_spec s k : not_code s ->
  X_right [VStr s; VInt k] = Ok (if k <? 0 then VERR else VStr (lastn (Z.to_nat k) s)).
Proof.
  intros H. unfold X_right. wrap_run. unfold text.f_right. py_run.
  destruct (k <? 0) eqn:E; [reflexivity|]. apply Z.ltb_ge in E.
  destruct (k <? 1) eqn:E0.
  - apply Z.ltb_lt in E0. replace k with 0 by lia. change (Z.to_nat 0) with 0%nat.
    unfold lastn. rewrite Nat.sub_0_r, skipn_all. reflexivity.
  - apply Z.ltb_ge in E0. cbn [py_str]. py_run.
    rewrite slice_last by lia. reflexivity.
Qed.

Lemma mid_spec s n k : not_code s ->
  X_mid [VStr s; VInt n; VInt k]
  = Ok (if (n <? 1) || (k <? 0) then VERR else VStr (mid_chars s n k)).
Proof.
  intros H. unfold X_mid. wrap_run. unfold text.f_mid. py_run.
  destruct (n <? 1) eqn:E1; [reflexivity|]. py_run.
  destruct (k <? 0) eqn:E2; [reflexivity|]. py_run.
  apply Z.ltb_ge in E1. apply Z.ltb_ge in E2.
  cbn [py_str]. py_run. rewrite slice_mid by lia. reflexivity.
Qed.

Lemma len_spec s : not_code s -> X_len [VStr s] = Ok (VInt (zlen s)).
Proof.
  intros H. unfold X_len. wrap_run. reflexivity.
Qed.

Lemma replace_spec s n k t : not_code s -> not_code t ->
  X_replace [VStr s; VInt n; VInt k; VStr t]
  = Ok (if (n <? 1) || (k <? 0) then VERR
        else VStr (firstn (Z.to_nat (n - 1)) s ++ t ++ skipn (Z.to_nat (n - 1 + k)) s)).
Proof.
  intros H Ht. unfold X_replace. wrap_run. unfold text.f_replace. py_run.
  replace (n - 1 <? 0) with (n <? 1)
    by (destruct (Z.ltb_spec n 1), (Z.ltb_spec (n - 1) 0); try reflexivity; lia).
  destruct (n <? 1) eqn:E1; [reflexivity|]. py_run.
  destruct (k <? 0) eqn:E2; [reflexivity|]. py_run.
  apply Z.ltb_ge in E1. apply Z.ltb_ge in E2.
  rewrite slice_to by lia. rewrite slice_from by lia.
  cbn [py_fstr py_str bind]. rewrite app_nil_r. reflexivity.
Qed.

(* ------------------------------------------------ slicing: the identities *)
Lemma partition s n : not_code s -> 0 <= n ->
  exists a b, X_left [VStr s; VInt n] = Ok (VStr a)
           /\ (exists l, X_len [VStr s] = Ok (VInt l)
                         /\ X_mid [VStr s; VInt (n + 1); VInt l] = Ok (VStr b))
           /\ a ++ b = s.
Proof.
  intros H Hn. exists (firstn (Z.to_nat n) s), (skipn (Z.to_nat n) s). split; [|split].
  - rewrite left_spec by assumption.
    replace (n <? 0) with false by (symmetry; apply Z.ltb_ge; lia). reflexivity.
  - exists (zlen s). split; [apply len_spec; assumption|].
    rewrite mid_spec by assumption.
    replace (n + 1 <? 1) with false by (symmetry; apply Z.ltb_ge; lia).
    replace (zlen s <? 0) with false by (symmetry; apply Z.ltb_ge; apply zlen_nonneg).
    cbn [orb]. unfold mid_chars. replace (n + 1 - 1) with n by lia.
    rewrite firstn_all2; [reflexivity|].
    rewrite skipn_length. unfold zlen. lia.
  - apply firstn_skipn.
Qed.

Lemma right_last s k : not_code s -> 0 <= k ->
  exists a r, X_right [VStr s; VInt k] = Ok (VStr r)
           /\ s = a ++ r /\ zlen r = Z.min k (zlen s).
Proof.
  intros H Hk. destruct (lastn_spec s (Z.to_nat k)) as (a & Ha & Hl).
  exists a, (lastn (Z.to_nat k) s). split; [|split].
  - rewrite right_spec by assumption.
    replace (k <? 0) with false by (symmetry; apply Z.ltb_ge; lia). reflexivity.
  - exact Ha.
  - unfold zlen. rewrite Hl. lia.
Qed.

Lemma replace_splice s n k t : not_code s -> not_code t -> 1 <= n -> 0 <= k ->
  exists a b l, X_left [VStr s; VInt (n - 1)] = Ok (VStr a)
           /\ X_len [VStr s] = Ok (VInt l)
           /\ X_mid [VStr s; VInt (n + k); VInt l] = Ok (VStr b)
           /\ X_replace [VStr s; VInt n; VInt k; VStr t] = Ok (VStr (a ++ t ++ b)).
Proof.
  intros H Ht Hn Hk.
  exists (firstn (Z.to_nat (n - 1)) s), (skipn (Z.to_nat (n - 1 + k)) s), (zlen s).
  split; [|split; [|split]].
  - rewrite left_spec by assumption.
    replace (n - 1 <? 0) with false by (symmetry; apply Z.ltb_ge; lia). reflexivity.
  - apply len_spec; assumption.
  - rewrite mid_spec by assumption.
    replace (n + k <? 1) with false by (symmetry; apply Z.ltb_ge; lia).
    replace (zlen s <? 0) with false by (symmetry; apply Z.ltb_ge; apply zlen_nonneg).
    cbn [orb]. unfold mid_chars. replace (n + k - 1) with (n - 1 + k) by lia.
    rewrite firstn_all2; [reflexivity|].
    rewrite skipn_length. unfold zlen. lia.
  - rewrite replace_spec by assumption.
    replace (n <? 1) with false by (symmetry; apply Z.ltb_ge; lia).
    replace (k <? 0) with false by (symmetry; apply Z.ltb_ge; lia).
    reflexivity.
Qed.

Lemma negative_counts s t n k : not_code s -> not_code t ->
  (n < 0 -> X_left [VStr s; VInt n] = Ok VERR /\ X_right [VStr s; VInt n] = Ok VERR)
  /\ (n < 1 \/ k < 0 -> X_mid [VStr s; VInt n; VInt k] = Ok VERR
                        /\ X_replace [VStr s; VInt n; VInt k; VStr t] = Ok VERR).
Proof.
  intros H Ht. split.
  - intros Hn. rewrite left_spec, right_spec by assumption.
    replace (n <? 0) with true by (symmetry; apply Z.ltb_lt; lia). split; reflexivity.
  - intros Hnk. rewrite mid_spec, replace_spec by assumption.
    assert (E : (n <? 1) || (k <? 0) = true).
    { destruct Hnk as [Hn|Hk'].
      - replace (n <? 1) with true by (symmetry; apply Z.ltb_lt; lia). reflexivity.
      - replace (k <? 0) with true by (symmetry; apply Z.ltb_lt; lia). apply orb_true_r. }
    rewrite E. split; reflexivity.
Qed.

(* numbers are seen as their Excel rendering: the integer z, given as an int
   or as the float z.0, is the text of its decimal digits; logicals are
   TRUE/FALSE; blank is the empty text.  Holds for every function whose first
   parameter is a str_param, whatever the remaining arguments. *)
Lemma q_trunc_Z z : q_trunc (inject_Z z) = z.
Proof.
  unfold q_trunc. destruct (q_ltb (inject_Z z) 0).
  - apply Qceiling_Z.
  - apply Qfloor_Z.
Qed.

Lemma coerce_str_int z : excelutil.f_coerce_to_string (VInt z) = Ok (VStr (str_of_Z z)).
Proof. reflexivity. Qed.

Lemma coerce_str_float z :
  excelutil.f_coerce_to_string (VFloat (inject_Z z)) = Ok (VStr (str_of_Z z)).
Proof.
  unfold excelutil.f_coerce_to_string. py_run.
  change py_fuel with (S 63). cbn [excelutil.f_coerce_to_number]. py_run.
  replace (excelutil.f_is_number (VFloat (inject_Z z))) with (Ok (VBool true)) by reflexivity.
  py_run. cbn [py_float bind]. unfold py_eq. cbn [as_num num_q].
  rewrite q_trunc_Z. unfold q_eqb. rewrite Qeq_bool_refl. py_run.
  cbn [py_str]. reflexivity.
Qed.

Lemma wrap_first_arg S N f v t rest :
  in_idx 0 S = true -> is_scalar v = true ->
  excelutil.f_coerce_to_string v = Ok (VStr t) ->
  wrap S N f (v :: rest) = wrap S N f (VStr t :: rest).
Proof.
  intros HS Hv Hc. unfold wrap. cbn [forallb is_scalar map_idx]. rewrite Hv, HS, Hc.
  rewrite coerce_str_text. reflexivity.
Qed.

Definition slicing (X : list pyval -> res pyval) : Prop :=
  X = X_left \/ X = X_right \/ X = X_mid \/ X = X_replace.

Lemma number_rendering X z rest : slicing X ->
  X (VInt z :: rest) = X (VStr (str_of_Z z) :: rest)
  /\ X (VFloat (inject_Z z) :: rest) = X (VStr (str_of_Z z) :: rest)
  /\ X (VBool true :: rest) = X (VStr [84; 82; 85; 69] :: rest)
  /\ X (VBool false :: rest) = X (VStr [70; 65; 76; 83; 69] :: rest)
  /\ X (VNone :: rest) = X (VStr [] :: rest).
Proof.
  intros [-> | [-> | [-> | ->]]]; unfold X_left, X_right, X_mid, X_replace;
    (split; [|split; [|split; [|split]]]); apply wrap_first_arg;
    try reflexivity; try apply coerce_str_float.
Qed.

(* ------------------------------------------------------------------- FIND *)
Lemma str_prefix_iff p s : str_prefix p s = true <-> firstn (length p) s = p.
Proof.
  revert s. induction p as [|x p IH]; intros s.
  - cbn. split; reflexivity.
  - destruct s as [|y s]; cbn [str_prefix length firstn].
    + split; discriminate.
    + rewrite andb_true_iff, Z.eqb_eq, IH. split.
      * intros [-> ->]. reflexivity.
      * intros E. injection E as -> E. split; [reflexivity|exact E].
Qed.

Lemma str_prefix_false_iff p s : str_prefix p s = false <-> firstn (length p) s <> p.
Proof.
  rewrite <- str_prefix_iff. destruct (str_prefix p s); split; congruence.
Qed.

Lemma str_prefix_length p s : str_prefix p s = true -> (length p <= length s)%nat.
Proof.
  rewrite str_prefix_iff. intros E. rewrite <- E at 1. rewrite firstn_length. lia.
Qed.

Lemma skipn_skipn' {A} (x y : nat) (l : list A) : skipn x (skipn y l) = skipn (x + y) l.
Proof.
  revert l. induction y as [|y IH]; intros l.
  - rewrite Nat.add_0_r. reflexivity.
  - rewrite Nat.add_succ_r. destruct l as [|a l]; [rewrite !skipn_nil; reflexivity|].
    cbn [skipn]. apply IH.
Qed.

Lemma find_from_some p s i j : find_from p s i = Some j ->
  i <= j /\ (Z.to_nat (j - i) + length p <= length s)%nat
  /\ str_prefix p (skipn (Z.to_nat (j - i)) s) = true
  /\ forall q, i <= q < j -> str_prefix p (skipn (Z.to_nat (q - i)) s) = false.
Proof.
  revert i. induction s as [|c s IH]; intros i; cbn [find_from].
  - destruct (str_prefix p []) eqn:E; [|discriminate].
    intros [= <-]. rewrite Z.sub_diag. cbn [Z.to_nat skipn].
    split; [lia|]. split; [apply str_prefix_length in E; cbn in *; lia|].
    split; [exact E|]. intros q Hq. lia.
  - destruct (str_prefix p (c :: s)) eqn:E.
    + intros [= <-]. rewrite Z.sub_diag. cbn [Z.to_nat skipn].
      split; [lia|]. split; [apply str_prefix_length in E; cbn in *; lia|].
      split; [exact E|]. intros q Hq. lia.
    + intros Hf. apply IH in Hf. destruct Hf as (Hij & Hlen & Hp & Hmin).
      replace (Z.to_nat (j - i)) with (S (Z.to_nat (j - (i + 1)))) by lia.
      cbn [skipn length]. split; [lia|]. split; [lia|]. split; [exact Hp|].
      intros q Hq. destruct (Z.eq_dec q i) as [->|Hne].
      * rewrite Z.sub_diag. exact E.
      * replace (Z.to_nat (q - i)) with (S (Z.to_nat (q - (i + 1)))) by lia.
        cbn [skipn]. apply Hmin. lia.
Qed.

Lemma find_from_none p s i : find_from p s i = None ->
  forall q, (q <= length s)%nat -> str_prefix p (skipn q s) = false.
Proof.
  revert i. induction s as [|c s IH]; intros i; cbn [find_from].
  - destruct (str_prefix p []) eqn:E; [discriminate|]. intros _ q Hq.
    destruct q; cbn [skipn]; exact E.
  - destruct (str_prefix p (c :: s)) eqn:E; [discriminate|]. intros Hf q Hq.
    destruct q as [|q]; [exact E|]. cbn [skipn]. apply (IH _ Hf). cbn in Hq. lia.
Qed.

(* MID(w, q, LEN f) = f, as a statement about characters *)
Definition occurs_at (f w : str) (q : Z) : Prop := mid_chars w q (zlen f) = f.

Lemma occurs_at_prefix f w q : 1 <= q ->
  occurs_at f w q <-> str_prefix f (skipn (Z.to_nat (q - 1)) w) = true.
Proof.
  intros Hq. unfold occurs_at, mid_chars, zlen. rewrite Nat2Z.id.
  symmetry. apply str_prefix_iff.
Qed.

Lemma find_idx_spec w f st : 0 <= st ->
  let r := str_find_idx w f st in
  (r = -1 /\ forall q, st <= q -> q + zlen f <= zlen w ->
                  str_prefix f (skipn (Z.to_nat q) w) = false)
  \/ (st <= r /\ r + zlen f <= zlen w
      /\ str_prefix f (skipn (Z.to_nat r) w) = true
      /\ forall q, st <= q < r -> str_prefix f (skipn (Z.to_nat q) w) = false).
Proof.
  intros Hst. unfold str_find_idx.
  replace (st <? 0) with false by (symmetry; apply Z.ltb_ge; lia).
  destruct (zlen w <? st) eqn:E.
  - apply Z.ltb_lt in E. left. split; [reflexivity|]. intros q H1 H2.
    pose proof (zlen_nonneg f). lia.
  - apply Z.ltb_ge in E.
    destruct (find_from f (skipn (Z.to_nat st) w) st) as [j|] eqn:Ef.
    + right. apply find_from_some in Ef. destruct Ef as (H1 & H2 & H3 & H4).
      rewrite skipn_length in H2. rewrite skipn_skipn' in H3.
      replace (Z.to_nat (j - st) + Z.to_nat st)%nat with (Z.to_nat j) in H3 by lia.
      split; [exact H1|]. split; [unfold zlen in *; lia|]. split; [exact H3|].
      intros q Hq. specialize (H4 q Hq). rewrite skipn_skipn' in H4.
      replace (Z.to_nat (q - st) + Z.to_nat st)%nat with (Z.to_nat q) in H4 by lia.
      exact H4.
    + left. split; [reflexivity|]. intros q H1 H2.
      pose proof (find_from_none _ _ _ Ef (Z.to_nat (q - st))) as H.
      rewrite skipn_length, skipn_skipn' in H.
      replace (Z.to_nat (q - st) + Z.to_nat st)%nat with (Z.to_nat q) in H by lia.
      apply H. pose proof (zlen_nonneg f). unfold zlen in *. lia.
Qed.

Lemma find_eval f w st : not_code f -> not_code w ->
  X_find [VStr f; VStr w; VInt st]
  = Ok (if st <? 1 then VERR
        else let r := str_find_idx w f (st - 1) in if r =? -1 then VERR else VInt (r + 1)).
Proof.
  intros Hf Hw. unfold X_find. wrap_run. unfold text.f_find. py_run.
  destruct (st <? 1); [reflexivity|]. py_run.
  cbn [str_find2 as_index bind]. py_run.
  destruct (str_find_idx w f (st - 1) =? -1); reflexivity.
Qed.

Lemma find_default f w : not_code f -> not_code w ->
  X_find [VStr f; VStr w] = X_find [VStr f; VStr w; VInt 1].
Proof. intros Hf Hw. unfold X_find. wrap_run. reflexivity. Qed.

(* FIND(f, w, start), every integer start: #VALUE! below 1; otherwise the
   least position p >= start at which f occurs in w, else #VALUE! *)
Lemma find_first f w st : not_code f -> not_code w ->
  (st < 1 -> X_find [VStr f; VStr w; VInt st] = Ok VERR)
  /\ (1 <= st ->
      (X_find [VStr f; VStr w; VInt st] = Ok VERR
       /\ forall q, st <= q -> q - 1 + zlen f <= zlen w -> ~ occurs_at f w q)
      \/ (exists p, X_find [VStr f; VStr w; VInt st] = Ok (VInt p)
          /\ st <= p /\ p - 1 + zlen f <= zlen w /\ occurs_at f w p
          /\ forall q, st <= q < p -> ~ occurs_at f w q)).
Proof.
  intros Hf Hw. rewrite find_eval by assumption. split.
  - intros Hst. replace (st <? 1) with true by (symmetry; apply Z.ltb_lt; lia). reflexivity.
  - intros Hst. replace (st <? 1) with false by (symmetry; apply Z.ltb_ge; lia).
    destruct (find_idx_spec w f (st - 1)) as [(Hr & Hno) | (H1 & H2 & H3 & H4)]; [lia| |].
    + left. cbv zeta. rewrite Hr. split; [reflexivity|].
      intros q Hq Hlen. rewrite occurs_at_prefix by lia.
      rewrite (Hno (q - 1)) by lia. discriminate.
    + right. exists (str_find_idx w f (st - 1) + 1). cbv zeta.
      replace (str_find_idx w f (st - 1) =? -1) with false by (symmetry; apply Z.eqb_neq; lia).
      split; [reflexivity|]. split; [lia|]. split; [lia|]. split.
      * rewrite occurs_at_prefix by lia.
        replace (str_find_idx w f (st - 1) + 1 - 1) with (str_find_idx w f (st - 1)) by lia.
        exact H3.
      * intros q Hq. rewrite occurs_at_prefix by lia. rewrite (H4 (q - 1)) by lia. discriminate.
Qed.

(* ------------------------------------------------- EXACT and CONCATENATE *)
Lemma str_eqb_eq a b : str_eqb a b = true <-> a = b.
Proof.
  revert b. induction a as [|x a IH]; intros [|y b]; cbn [str_eqb]; try (split; congruence).
  rewrite andb_true_iff, Z.eqb_eq, IH. split.
  - intros [-> ->]. reflexivity.
  - intros [= -> ->]. split; reflexivity.
Qed.

Lemma str_eqb_refl_true a : str_eqb a a = true.
Proof. induction a as [|x a IH]; [reflexivity|]. cbn [str_eqb]. rewrite Z.eqb_refl, IH. reflexivity. Qed.

Lemma exact_spec a b : not_code a -> not_code b ->
  exists r, X_exact [VStr a; VStr b] = Ok (VBool r) /\ (r = true <-> a = b).
Proof.
  intros Ha Hb. exists (str_eqb a b). split; [|apply str_eqb_eq].
  unfold X_exact. wrap_run. unfold text.f_exact. py_run.
  destruct (str_eqb a b); reflexivity.
Qed.

Lemma concatenate_spec a b : not_code a -> not_code b ->
  X_concatenate [VStr a; VStr b] = Ok (VStr (a ++ b)).
Proof.
  intros Ha Hb. unfold X_concatenate. cbn [forallb is_scalar andb negb].
  unfold text.f_concatenate. py_run. cbn [py_tuple py_iter bind]. py_run.
  rewrite !str_eqb_refl_true. py_run.
  cbn [gen_next bind]. rewrite (in_codes_false a Ha). cbn [gen_next bind].
  rewrite (in_codes_false b Hb). cbn [gen_next bind]. py_run.
  cbn [genexp bind]. rewrite !coerce_str_text. cbn [bind str_join py_iter join_strs].
  rewrite app_nil_l. reflexivity.
Qed.

(* ------------------------------------------------------------------- TRIM *)
Fixpoint no_adjacent_spaces (s : str) : Prop :=
  match s with
  | c :: s' => match s' with
               | d :: _ => ~ (c = 32 /\ d = 32)
               | [] => True
               end /\ no_adjacent_spaces s'
  | [] => True
  end.

Lemma squeeze_head c s :
  exists t, squeeze_spaces (c :: s) = c :: t.
Proof.
  revert c. induction s as [|d s IH]; intros c.
  - cbn. rewrite andb_false_r. eauto.
  - cbn [squeeze_spaces]. destruct ((c =? 32) && (d =? 32)) eqn:E.
    + apply andb_true_iff in E. destruct E as [E1 E2].
      apply Z.eqb_eq in E1. apply Z.eqb_eq in E2. subst c d. apply IH.
    + eauto.
Qed.

Lemma squeeze_no_adjacent s : no_adjacent_spaces (squeeze_spaces s).
Proof.
  induction s as [|c s IH]; [exact I|].
  cbn [squeeze_spaces]. destruct s as [|d s].
  - rewrite andb_false_r. cbn. auto.
  - destruct ((c =? 32) && (d =? 32)) eqn:E; [exact IH|].
    destruct (squeeze_head d s) as (t & Ht). rewrite Ht in *.
    cbn [no_adjacent_spaces]. split; [|exact IH].
    intros [-> ->]. discriminate.
Qed.

Lemma squeeze_fixed s : no_adjacent_spaces s -> squeeze_spaces s = s.
Proof.
  induction s as [|c s IH]; [reflexivity|].
  cbn [no_adjacent_spaces squeeze_spaces]. intros [H1 H2]. destruct s as [|d s].
  - rewrite andb_false_r. reflexivity.
  - destruct (Z.eqb_spec c 32) as [->|]; destruct (Z.eqb_spec d 32) as [->|]; cbn [andb];
      try (f_equal; apply IH; exact H2).
    exfalso. apply H1. split; reflexivity.
Qed.

Lemma squeeze_idempotent s : squeeze_spaces (squeeze_spaces s) = squeeze_spaces s.
Proof. apply squeeze_fixed, squeeze_no_adjacent. Qed.

(* the other characters are untouched, in order *)
Lemma squeeze_keeps_nonspaces s :
  filter (fun c => negb (c =? 32)) (squeeze_spaces s) = filter (fun c => negb (c =? 32)) s.
Proof.
  induction s as [|c s IH]; [reflexivity|].
  cbn [squeeze_spaces]. destruct ((c =? 32) && _) eqn:E.
  - apply andb_true_iff in E. destruct E as [E _]. cbn [filter]. rewrite E. cbn [negb]. exact IH.
  - cbn [filter]. rewrite IH. reflexivity.
Qed.

Lemma squeeze_not_code s : not_code s -> not_code (squeeze_spaces s).
Proof.
  induction s as [|c s IH]; [auto|]. intros H.
  cbn [squeeze_spaces]. destruct ((c =? 32) && _) eqn:E.
  - apply IH. destruct s as [|d s]; [exact I|].
    apply andb_true_iff in E. destruct E as [_ E]. apply Z.eqb_eq in E. subst d. exact I.
  - exact H.
Qed.

Lemma no_adjacent_tail c s : no_adjacent_spaces (c :: s) -> no_adjacent_spaces s.
Proof. cbn [no_adjacent_spaces]. intros [_ H]. exact H. Qed.

Lemma lstrip32_no_adjacent s : no_adjacent_spaces s -> no_adjacent_spaces (lstrip32 s).
Proof.
  induction s as [|c s IH]; intros H; [exact I|]. cbn [lstrip32].
  destruct (c =? 32); [apply IH; exact (no_adjacent_tail _ _ H)|exact H].
Qed.

Lemma rstrip32_head c s : rstrip32 (c :: s) = [] \/ exists r, rstrip32 (c :: s) = c :: r.
Proof.
  cbn [rstrip32]. destruct (rstrip32 s) as [|d r].
  - destruct (c =? 32); [left; reflexivity|right; exists []; reflexivity].
  - right. exists (d :: r). reflexivity.
Qed.

Lemma rstrip32_no_adjacent s : no_adjacent_spaces s -> no_adjacent_spaces (rstrip32 s).
Proof.
  induction s as [|c s IH]; intros H; [exact I|].
  pose proof (IH (no_adjacent_tail _ _ H)) as Hr. cbn [rstrip32].
  destruct (rstrip32 s) as [|d r] eqn:E.
  - destruct (c =? 32); cbn; auto.
  - destruct s as [|d' s']; [discriminate|].
    destruct (rstrip32_head d' s') as [E'|(r' & E')]; rewrite E' in E; [discriminate|].
    injection E as <- <-. cbn [no_adjacent_spaces] in H |- *. destruct H as [H _].
    split; [exact H|exact Hr].
Qed.

Lemma lstrip32_hd s : hd 0 (lstrip32 s) <> 32.
Proof.
  induction s as [|c s IH]; [cbn; lia|]. cbn [lstrip32].
  destruct (Z.eqb_spec c 32); [exact IH|exact n].
Qed.

Lemma rstrip32_last s : last (rstrip32 s) 0 <> 32.
Proof.
  induction s as [|c s IH]; [cbn; lia|]. cbn [rstrip32].
  destruct (rstrip32 s) as [|d r].
  - destruct (Z.eqb_spec c 32); [cbn; lia|exact n].
  - exact IH.
Qed.

Lemma rstrip32_hd s : hd 0 s <> 32 -> hd 0 (rstrip32 s) <> 32.
Proof.
  destruct s as [|c s]; [auto|]. intros H.
  destruct (rstrip32_head c s) as [E|(r & E)]; rewrite E; [cbn; lia|exact H].
Qed.

Definition nonspaces (s : str) : str := filter (fun c => negb (c =? 32)) s.

Lemma lstrip32_nonspaces s : nonspaces (lstrip32 s) = nonspaces s.
Proof.
  induction s as [|c s IH]; [reflexivity|]. cbn [lstrip32].
  destruct (c =? 32) eqn:E; [|reflexivity]. unfold nonspaces in *. cbn [filter]. rewrite E. exact IH.
Qed.

Lemma rstrip32_nonspaces s : nonspaces (rstrip32 s) = nonspaces s.
Proof.
  induction s as [|c s IH]; [reflexivity|]. cbn [rstrip32]. unfold nonspaces in *.
  destruct (rstrip32 s) as [|d r].
  - cbn [filter] in *. rewrite <- IH. destruct (c =? 32) eqn:E; cbn [filter negb]; rewrite ?E; reflexivity.
  - cbn [filter] in *. rewrite <- IH. reflexivity.
Qed.

Lemma lstrip32_fixed s : hd 0 s <> 32 -> lstrip32 s = s.
Proof.
  destruct s as [|c s]; [reflexivity|]. cbn [hd lstrip32]. intros H.
  destruct (Z.eqb_spec c 32); [contradiction|reflexivity].
Qed.

Lemma rstrip32_fixed s : last s 0 <> 32 -> rstrip32 s = s.
Proof.
  induction s as [|c s IH]; [reflexivity|]. intros H. cbn [rstrip32].
  destruct s as [|d s'].
  - cbn in *. destruct (Z.eqb_spec c 32); [contradiction|reflexivity].
  - rewrite IH by exact H. reflexivity.
Qed.

Lemma trim_chars_props s : let t := trim_chars s in
  no_adjacent_spaces t /\ hd 0 t <> 32 /\ last t 0 <> 32 /\ nonspaces t = nonspaces s
  /\ trim_chars t = t.
Proof.
  cbv zeta. unfold trim_chars.
  assert (H1 : no_adjacent_spaces (rstrip32 (lstrip32 (squeeze_spaces s))))
    by (apply rstrip32_no_adjacent, lstrip32_no_adjacent, squeeze_no_adjacent).
  assert (H2 : hd 0 (rstrip32 (lstrip32 (squeeze_spaces s))) <> 32)
    by (apply rstrip32_hd, lstrip32_hd).
  pose proof (rstrip32_last (lstrip32 (squeeze_spaces s))) as H3.
  split; [exact H1|]. split; [exact H2|]. split; [exact H3|]. split.
  - rewrite rstrip32_nonspaces, lstrip32_nonspaces. apply squeeze_keeps_nonspaces.
  - rewrite (squeeze_fixed _ H1), (lstrip32_fixed _ H2), (rstrip32_fixed _ H3). reflexivity.
Qed.

Lemma trim_eval s : not_code s -> X_trim [VStr s] = Ok (VStr (trim_chars s)).
Proof. intros H. unfold X_trim. wrap_run. reflexivity. Qed.

(* a fixed point of the character function is a fixed point of TRIM even when it
   happens to spell an error value (TRIM(" #N/A") = "#N/A", which TRIM passes through) *)
Lemma trim_fixed_any t : trim_chars t = t -> X_trim [VStr t] = Ok (VStr t).
Proof.
  intros Hf.
  assert (Hp : exists b, py_in (VStr t) excelutil.c_ERROR_CODES = Ok b) by (eexists; reflexivity).
  destruct Hp as [b Hp]. unfold X_trim, wrap.
  cbn [forallb is_scalar andb negb map_idx in_idx existsb Nat.eqb orb bind first_code].
  rewrite coerce_str_text. cbn [bind first_code in_idx existsb Nat.eqb orb].
  rewrite Hp. cbn [bind]. destruct b; [reflexivity|].
  cbn [map_idx in_idx existsb bind first_code any_not_number first_err_string].
  rewrite Hp. cbn [bind]. rewrite Hf. reflexivity.
Qed.

(* TRIM: single inner spaces, none at either end, the other characters
   untouched and in order, idempotent *)
Lemma trim_full s : not_code s ->
  exists t, X_trim [VStr s] = Ok (VStr t) /\ no_adjacent_spaces t
            /\ hd 0 t <> 32 /\ last t 0 <> 32
            /\ nonspaces t = nonspaces s
            /\ X_trim [VStr t] = Ok (VStr t).
Proof.
  intros H. exists (trim_chars s). destruct (trim_chars_props s) as (H1 & H2 & H3 & H4 & H5).
  split; [apply trim_eval; exact H|]. repeat (split; [assumption|]).
  apply trim_fixed_any. exact H5.
Qed.

(* ------------------------------------------------------------ UPPER / LOWER *)
Ltac no_if t := lazymatch t with context [if _ then _ else _] => fail | _ => idtac end.
Ltac zbool :=
  repeat (match goal with
  | |- context [?a <=? ?b] => no_if a; no_if b; destruct (Z.leb_spec a b)
  | |- context [?a <? ?b] => no_if a; no_if b; destruct (Z.ltb_spec a b)
  | |- context [?a =? ?b] => no_if a; no_if b; destruct (Z.eqb_spec a b)
  | _ => progress cbn [andb orb negb]
  end; try lia); try reflexivity; try discriminate.

Lemma ascii_upper_idem c : ascii_upper (ascii_upper c) = ascii_upper c.
Proof. unfold ascii_upper. zbool. Qed.
Lemma ascii_lower_idem c : ascii_lower (ascii_lower c) = ascii_lower c.
Proof. unfold ascii_lower. zbool. Qed.
Lemma ascii_upper_small c : (127 <? c) = false -> (127 <? ascii_upper c) = false.
Proof. unfold ascii_upper. intros H. apply Z.ltb_ge in H. zbool. Qed.
Lemma ascii_lower_small c : (127 <? c) = false -> (127 <? ascii_lower c) = false.
Proof. unfold ascii_lower. intros H. apply Z.ltb_ge in H. zbool. Qed.

Lemma uni_upper_idem c : uni_upper (uni_upper c) = uni_upper c.
Proof. unfold uni_upper, ascii_upper. zbool. Qed.
Lemma uni_lower_idem c : uni_lower (uni_lower c) = uni_lower c.
Proof. unfold uni_lower, ascii_lower. zbool. Qed.
Lemma uni_upper_known c : case_known c = true -> case_known (uni_upper c) = true.
Proof. unfold case_known, uni_upper, ascii_upper. intros H. revert H. zbool. Qed.
Lemma uni_lower_known c : case_known c = true -> case_known (uni_lower c) = true.
Proof. unfold case_known, uni_lower, ascii_lower. intros H. revert H. zbool. Qed.
Lemma uni_upper_big c : (127 <? c) = true -> (127 <? uni_upper c) = true.
Proof. unfold uni_upper, ascii_upper. intros H. apply Z.ltb_lt in H. zbool. Qed.
Lemma uni_lower_big c : (127 <? c) = true -> (127 <? uni_lower c) = true.
Proof. unfold uni_lower, ascii_lower. intros H. apply Z.ltb_lt in H. zbool. Qed.
Lemma upper_not_hash c : c <> 35 -> ascii_upper c <> 35 /\ uni_upper c <> 35.
Proof. unfold uni_upper, ascii_upper. intros H. split; zbool. Qed.
Lemma lower_not_hash c : c <> 35 -> ascii_lower c <> 35 /\ uni_lower c <> 35.
Proof. unfold uni_lower, ascii_lower. intros H. split; zbool. Qed.

Lemma non_ascii_map_small f s : (forall c, (127 <? c) = false -> (127 <? f c) = false) ->
  non_ascii s = false -> non_ascii (map f s) = false.
Proof.
  intros Hf. unfold non_ascii. induction s as [|c s IH]; [reflexivity|].
  cbn [existsb map]. rewrite !orb_false_iff. intros [H1 H2]. split; [apply Hf; exact H1|apply IH; exact H2].
Qed.
Lemma non_ascii_map_big f s : (forall c, (127 <? c) = true -> (127 <? f c) = true) ->
  non_ascii s = true -> non_ascii (map f s) = true.
Proof.
  intros Hf. unfold non_ascii. induction s as [|c s IH]; [discriminate|].
  cbn [existsb map]. rewrite !orb_true_iff. intros [H|H]; [left; apply Hf; exact H|right; apply IH; exact H].
Qed.
Lemma case_ok_map f s : (forall c, case_known c = true -> case_known (f c) = true) ->
  case_ok s = true -> case_ok (map f s) = true.
Proof.
  intros Hf. unfold case_ok. induction s as [|c s IH]; [reflexivity|].
  cbn [forallb map]. rewrite !andb_true_iff. intros [H1 H2]. split; [apply Hf; exact H1|apply IH; exact H2].
Qed.
Lemma map_idem (f : Z -> Z) s : (forall c, f (f c) = f c) -> map f (map f s) = map f s.
Proof. intros Hf. rewrite map_map. apply map_ext. exact Hf. Qed.
Lemma not_code_map f s : (forall c, c <> 35 -> f c <> 35) -> not_code s -> not_code (map f s).
Proof.
  intros Hf. destruct s as [|c s]; [auto|]. cbn [map not_code]. intros H.
  destruct (Z.eq_dec c 35) as [->|Hne]; [contradiction|].
  specialize (Hf c Hne). destruct (f c) as [|p|p]; try exact I.
  repeat (destruct p as [p|p|]; try exact I). contradiction.
Qed.

Lemma upper_eval s : not_code s -> X_upper [VStr s] = str_upper (VStr s).
Proof. intros H. unfold X_upper. wrap_run. reflexivity. Qed.
Lemma lower_eval s : not_code s -> X_lower [VStr s] = str_lower (VStr s).
Proof. intros H. unfold X_lower. wrap_run. reflexivity. Qed.

Lemma upper_idempotent s u : not_code s ->
  X_upper [VStr s] = Ok (VStr u) -> X_upper [VStr u] = Ok (VStr u).
Proof.
  intros H. rewrite upper_eval by exact H. cbn [str_upper].
  destruct (non_ascii s) eqn:E.
  - destruct (case_ok s) eqn:E2; [|discriminate]. intros [= <-].
    rewrite upper_eval by (apply not_code_map; [intros c Hc; apply upper_not_hash; exact Hc|exact H]).
    cbn [str_upper]. rewrite (non_ascii_map_big _ _ uni_upper_big E).
    rewrite (case_ok_map _ _ uni_upper_known E2).
    rewrite (map_idem _ _ uni_upper_idem). reflexivity.
  - intros [= <-].
    rewrite upper_eval by (apply not_code_map; [intros c Hc; apply upper_not_hash; exact Hc|exact H]).
    cbn [str_upper]. rewrite (non_ascii_map_small _ _ ascii_upper_small E).
    rewrite (map_idem _ _ ascii_upper_idem). reflexivity.
Qed.

Lemma lower_idempotent s u : not_code s ->
  X_lower [VStr s] = Ok (VStr u) -> X_lower [VStr u] = Ok (VStr u).
Proof.
  intros H. rewrite lower_eval by exact H. cbn [str_lower].
  destruct (non_ascii s) eqn:E.
  - destruct (case_ok s) eqn:E2; [|discriminate]. intros [= <-].
    rewrite lower_eval by (apply not_code_map; [intros c Hc; apply lower_not_hash; exact Hc|exact H]).
    cbn [str_lower]. rewrite (non_ascii_map_big _ _ uni_lower_big E).
    rewrite (case_ok_map _ _ uni_lower_known E2).
    rewrite (map_idem _ _ uni_lower_idem). reflexivity.
  - intros [= <-].
    rewrite lower_eval by (apply not_code_map; [intros c Hc; apply lower_not_hash; exact Hc|exact H]).
    cbn [str_lower]. rewrite (non_ascii_map_small _ _ ascii_lower_small E).
    rewrite (map_idem _ _ ascii_lower_idem). reflexivity.
Qed.

(* on ASCII text the functions are total, so idempotence is unconditional there *)
Lemma upper_ascii_total s : not_code s -> non_ascii s = false ->
  X_upper [VStr s] = Ok (VStr (map ascii_upper s)).
Proof. intros H E. rewrite upper_eval by exact H. cbn [str_upper]. rewrite E. reflexivity. Qed.
Lemma lower_ascii_total s : not_code s -> non_ascii s = false ->
  X_lower [VStr s] = Ok (VStr (map ascii_lower s)).
Proof. intros H E. rewrite lower_eval by exact H. cbn [str_lower]. rewrite E. reflexivity. Qed.

(* ------------------------------------------------------------- SUBSTITUTE *)
(* old is non-empty throughout: old = o :: old' *)
Lemma prefix_skip_length o old' s : str_prefix (o :: old') s = true ->
  (length (skipn (length (o :: old')) s) < length s)%nat.
Proof.
  intros H. apply str_prefix_length in H. rewrite skipn_length. cbn [length] in *. lia.
Qed.

Lemma replace_ne_fuel o old' new : forall f1 f2 cnt s,
  (length s < f1)%nat -> (length s < f2)%nat ->
  replace_ne f1 (o :: old') new cnt s = replace_ne f2 (o :: old') new cnt s.
Proof.
  induction f1 as [|f1 IH]; intros f2 cnt s H1 H2; [lia|].
  destruct f2 as [|f2]; [lia|]. cbn [replace_ne].
  destruct (cnt_dec cnt) as [cnt'|]; [|reflexivity].
  destruct (str_prefix (o :: old') s) eqn:E.
  - f_equal. pose proof (prefix_skip_length _ _ _ E). apply IH; lia.
  - destruct s as [|x s]; [reflexivity|]. f_equal. cbn [length] in *. apply IH; lia.
Qed.

Lemma replace_ne_S f old new cnt s :
  replace_ne (S f) old new cnt s
  = match cnt_dec cnt with
    | None => s
    | Some cnt' =>
        if str_prefix old s then new ++ replace_ne f old new cnt' (skipn (length old) s)
        else match s with [] => [] | x :: s' => x :: replace_ne f old new cnt s' end
    end.
Proof. reflexivity. Qed.

(* Python's s.replace(old, new[, count]) for a non-empty old *)
Definition repl (old new : str) (cnt : option nat) (s : str) : str :=
  str_replace_cnt s old new cnt.

Lemma repl_stop o old' new cnt s : cnt_dec cnt = None -> repl (o :: old') new cnt s = s.
Proof. intros H. unfold repl, str_replace_cnt. cbn [replace_ne]. rewrite H. reflexivity. Qed.

Lemma repl_hit o old' new cnt cnt' s : cnt_dec cnt = Some cnt' ->
  str_prefix (o :: old') s = true ->
  repl (o :: old') new cnt s = new ++ repl (o :: old') new cnt' (skipn (length (o :: old')) s).
Proof.
  intros H E. unfold repl, str_replace_cnt.
  rewrite (replace_ne_S (length s) (o :: old') new cnt s), H, E. f_equal.
  pose proof (prefix_skip_length _ _ _ E). apply replace_ne_fuel; lia.
Qed.

Lemma repl_miss o old' new cnt cnt' x s : cnt_dec cnt = Some cnt' ->
  str_prefix (o :: old') (x :: s) = false ->
  repl (o :: old') new cnt (x :: s) = x :: repl (o :: old') new cnt s.
Proof.
  intros H E. unfold repl, str_replace_cnt.
  rewrite (replace_ne_S (length (x :: s)) (o :: old') new cnt (x :: s)), H, E. reflexivity.
Qed.

Lemma repl_nil o old' new cnt : repl (o :: old') new cnt [] = [].
Proof.
  unfold repl, str_replace_cnt. rewrite replace_ne_S. destruct (cnt_dec cnt); reflexivity.
Qed.

(* old does not occur in s at any position *)
Definition no_occurrence (old s : str) : Prop :=
  forall q, str_prefix old (skipn q s) = false.
(* the first occurrence of old in s starts right after a *)
Definition first_after (old a s : str) : Prop :=
  exists rest, s = a ++ old ++ rest
    /\ forall q, (q < length a)%nat -> str_prefix old (skipn q s) = false.

Lemma repl_no_occurrence o old' new cnt s :
  no_occurrence (o :: old') s -> repl (o :: old') new cnt s = s.
Proof.
  induction s as [|x s IH]; intros H; [apply repl_nil|].
  destruct (cnt_dec cnt) as [cnt'|] eqn:Ec; [|apply repl_stop; exact Ec].
  rewrite (repl_miss _ _ _ _ _ _ _ Ec (H 0%nat)). f_equal. apply IH.
  intros q. exact (H (S q)).
Qed.

Lemma prefix_app old rest : str_prefix old (old ++ rest) = true.
Proof. apply str_prefix_iff. rewrite firstn_app, Nat.sub_diag, firstn_all. cbn. apply app_nil_r. Qed.

Lemma repl_first o old' new cnt cnt' a rest : cnt_dec cnt = Some cnt' ->
  (forall q, (q < length a)%nat -> str_prefix (o :: old') (skipn q (a ++ (o :: old') ++ rest)) = false) ->
  repl (o :: old') new cnt (a ++ (o :: old') ++ rest)
  = a ++ new ++ repl (o :: old') new cnt' rest.
Proof.
  intros Ec. induction a as [|x a IH]; intros H.
  - cbn [app]. rewrite (repl_hit _ _ _ _ _ _ Ec (prefix_app (o :: old') rest)).
    rewrite skipn_app, skipn_all, Nat.sub_diag. reflexivity.
  - cbn [app]. rewrite (repl_miss _ _ _ _ _ _ _ Ec (H 0%nat ltac:(cbn; lia))). f_equal.
    apply IH. intros q Hq. apply (H (S q)). cbn [length]. lia.
Qed.

Lemma substitute_all_eval t old new : not_code t -> not_code old -> not_code new ->
  X_substitute [VStr t; VStr old; VStr new] = Ok (VStr (repl old new None t)).
Proof. intros H1 H2 H3. unfold X_substitute. wrap_run. reflexivity. Qed.

(* SUBSTITUTE(t, old, new): every non-overlapping occurrence, left to right *)
Lemma substitute_all t o old' new : not_code t -> not_code (o :: old') -> not_code new ->
  exists r, X_substitute [VStr t; VStr (o :: old'); VStr new] = Ok (VStr r)
  /\ (no_occurrence (o :: old') t -> r = t)
  /\ (forall a rest, t = a ++ (o :: old') ++ rest ->
        (forall q, (q < length a)%nat -> str_prefix (o :: old') (skipn q t) = false) ->
        r = a ++ new ++ repl (o :: old') new None rest).
Proof.
  intros H1 H2 H3. eexists. split; [apply substitute_all_eval; assumption|]. split.
  - apply repl_no_occurrence.
  - intros a rest -> Hq. apply repl_first; [reflexivity|exact Hq].
Qed.

(* ------------------------------------------ SUBSTITUTE with an instance *)
Lemma slice_whole {A} (s : list A) : slice_list s (Some 0) None = s.
Proof. rewrite slice_from by lia. reflexivity. Qed.
Lemma slice_none0 {A} (s : list A) : slice_list s None (Some 0) = [].
Proof. rewrite slice_to by lia. reflexivity. Qed.

Lemma substitute_nth_eval t old new i : not_code t -> not_code old -> not_code new -> 1 <= i ->
  X_substitute [VStr t; VStr old; VStr new; VInt i]
  = bind (subst_nth t old new i) (fun r => Ok (VStr r)).
Proof.
  intros H1 H2 H3 Hi. unfold X_substitute. wrap_run. cbn [substitute_body py_int].
  replace (i <=? 0) with false by (symmetry; apply Z.leb_gt; lia). reflexivity.
Qed.

Lemma subst_nth_1 t o old' new :
  subst_nth t (o :: old') new 1 = Ok (repl (o :: old') new (Some 1%nat) t).
Proof.
  unfold subst_nth. cbn [subst_loop]. replace (1 <? 1) with false by reflexivity.
  cbn [bind]. rewrite slice_none0, slice_whole. reflexivity.
Qed.

(* SUBSTITUTE(t, old, new, 1): exactly the first occurrence *)
Lemma substitute_first t o old' new : not_code t -> not_code (o :: old') -> not_code new ->
  exists r, X_substitute [VStr t; VStr (o :: old'); VStr new; VInt 1] = Ok (VStr r)
  /\ (no_occurrence (o :: old') t -> r = t)
  /\ (forall a rest, t = a ++ (o :: old') ++ rest ->
        (forall q, (q < length a)%nat -> str_prefix (o :: old') (skipn q t) = false) ->
        r = a ++ new ++ rest).
Proof.
  intros H1 H2 H3. eexists. split.
  - rewrite substitute_nth_eval by (assumption || lia). rewrite subst_nth_1. reflexivity.
  - split.
    + apply repl_no_occurrence.
    + intros a rest -> Hq. rewrite (repl_first _ _ _ _ (Some 0%nat)) by (reflexivity || exact Hq).
      rewrite repl_stop by reflexivity. reflexivity.
Qed.
Lemma skipn_first_occ {A} (a old rest : list A) :
  skipn (length a) (a ++ old ++ rest) = old ++ rest.
Proof. rewrite skipn_app, skipn_all, Nat.sub_diag. reflexivity. Qed.

Lemma find0_first o old' a rest :
  (forall q, (q < length a)%nat ->
             str_prefix (o :: old') (skipn q (a ++ (o :: old') ++ rest)) = false) ->
  str_find_idx (a ++ (o :: old') ++ rest) (o :: old') 0 = zlen a.
Proof.
  intros Hq. set (t := a ++ (o :: old') ++ rest) in *.
  assert (Hat : str_prefix (o :: old') (skipn (length a) t) = true).
  { subst t. rewrite skipn_first_occ. apply prefix_app. }
  assert (Hlen : zlen a + zlen (o :: old') <= zlen t).
  { subst t. unfold zlen. rewrite !app_length. lia. }
  destruct (find_idx_spec t (o :: old') 0) as [(Hr & Hno) | (H1 & H2 & H3 & H4)]; [lia| |].
  - exfalso. specialize (Hno (zlen a) (zlen_nonneg a) Hlen).
    unfold zlen in Hno. rewrite Nat2Z.id in Hno. congruence.
  - set (r := str_find_idx t (o :: old') 0) in *.
    destruct (Z_lt_le_dec r (zlen a)) as [Hlt|Hge].
    + exfalso. specialize (Hq (Z.to_nat r)). rewrite Hq in H3; [discriminate|].
      unfold zlen in Hlt. lia.
    + destruct (Z.eq_dec r (zlen a)) as [E|Hne]; [exact E|].
      exfalso. specialize (H4 (zlen a)). unfold zlen in H4 at 3. rewrite Nat2Z.id in H4.
      rewrite H4 in Hat; [discriminate|]. pose proof (zlen_nonneg a). lia.
Qed.

Lemma find0_none old s : no_occurrence old s -> str_find_idx s old 0 = -1.
Proof.
  intros H. destruct (find_idx_spec s old 0) as [(Hr & _) | (_ & _ & H3 & _)]; [lia|exact Hr|].
  rewrite H in H3. discriminate.
Qed.

Definition shift (d : Z) (r : res (option Z)) : res (option Z) :=
  match r with Ok (Some x) => Ok (Some (d + x)) | other => other end.

Lemma find_idx_nonneg s old : str_find_idx s old 0 <> -1 -> 0 <= str_find_idx s old 0.
Proof.
  intros H. destruct (find_idx_spec s old 0) as [(Hr & _) | (H1 & _)]; [lia|contradiction|exact H1].
Qed.
Lemma find_idx_bound s old : str_find_idx s old 0 <> -1 ->
  str_find_idx s old 0 + zlen old <= zlen s.
Proof.
  intros H. destruct (find_idx_spec s old 0) as [(Hr & _) | (_ & H2 & _)]; [lia|contradiction|exact H2].
Qed.

Lemma loop_shift old : forall fuel t inst start, 0 <= start ->
  subst_loop fuel t old inst start
  = shift start (subst_loop fuel (skipn (Z.to_nat start) t) old inst 0).
Proof.
  induction fuel as [|f IH]; intros t inst start Hs; [reflexivity|].
  cbn [subst_loop]. destruct (1 <? inst); [|cbn [shift]; f_equal; f_equal; lia].
  rewrite slice_whole, slice_from by lia.
  set (u := skipn (Z.to_nat start) t).
  destruct (str_find_idx u old 0 =? -1) eqn:E; [reflexivity|].
  apply Z.eqb_neq in E. pose proof (find_idx_nonneg _ _ E) as Hn. pose proof (zlen_nonneg old) as Ho.
  set (ns := str_find_idx u old 0) in *.
  rewrite (IH t (inst - 1) (start + ns + zlen old)) by lia.
  rewrite (IH u (inst - 1) (0 + ns + zlen old)) by lia.
  subst u. rewrite skipn_skipn'.
  replace (Z.to_nat (0 + ns + zlen old) + Z.to_nat start)%nat
    with (Z.to_nat (start + ns + zlen old)) by lia.
  destruct (subst_loop f (skipn (Z.to_nat (start + ns + zlen old)) t) old (inst - 1) 0) as [[x|]|e];
    cbn [shift]; try reflexivity. f_equal. f_equal. lia.
Qed.

Lemma loop_fuel o old' : forall f1 f2 u inst,
  (length u + 2 <= f1)%nat -> (length u + 2 <= f2)%nat ->
  subst_loop f1 u (o :: old') inst 0 = subst_loop f2 u (o :: old') inst 0.
Proof.
  induction f1 as [|f1 IH]; intros f2 u inst H1 H2; [lia|].
  destruct f2 as [|f2]; [lia|]. cbn [subst_loop].
  destruct (1 <? inst); [|reflexivity]. rewrite slice_whole.
  destruct (str_find_idx u (o :: old') 0 =? -1) eqn:E; [reflexivity|].
  apply Z.eqb_neq in E. pose proof (find_idx_nonneg _ _ E) as Hn.
  pose proof (find_idx_bound _ _ E) as Hb. unfold zlen in Hb at 2.
  set (ns := str_find_idx u (o :: old') 0) in *.
  assert (Ho : 1 <= zlen (o :: old')) by (unfold zlen; cbn [length]; lia).
  rewrite (loop_shift _ f1), (loop_shift _ f2) by lia. apply (f_equal (shift _)).
  apply IH; rewrite skipn_length; lia.
Qed.

Lemma loop_nonneg old : forall fuel u inst st,
  subst_loop fuel u old inst 0 = Ok (Some st) -> 0 <= st.
Proof.
  induction fuel as [|f IH]; intros u inst st; [discriminate|].
  cbn [subst_loop]. destruct (1 <? inst); [|intros [= <-]; lia].
  rewrite slice_whole.
  destruct (str_find_idx u old 0 =? -1) eqn:E; [discriminate|].
  apply Z.eqb_neq in E. pose proof (find_idx_nonneg _ _ E) as Hn. pose proof (zlen_nonneg old) as Ho.
  rewrite loop_shift by lia.
  destruct (subst_loop f _ old (inst - 1) 0) as [[x|]|e] eqn:El; cbn [shift]; try discriminate.
  intros [= <-]. apply IH in El. lia.
Qed.

(* SUBSTITUTE(t, old, new, i), i >= 2: the first occurrence is kept and the
   (i-1)-th occurrence of the rest is replaced *)
Lemma subst_nth_step o old' new a rest i : 2 <= i ->
  (forall q, (q < length a)%nat ->
             str_prefix (o :: old') (skipn q (a ++ (o :: old') ++ rest)) = false) ->
  subst_nth (a ++ (o :: old') ++ rest) (o :: old') new i
  = bind (subst_nth rest (o :: old') new (i - 1)) (fun r => Ok (a ++ (o :: old') ++ r)).
Proof.
  intros Hi Hq. set (t := a ++ (o :: old') ++ rest). unfold subst_nth.
  change (subst_loop (S (S (length t))) t (o :: old') i 0)
    with (if 1 <? i then
            let ns := str_find_idx (slice_list t (Some 0) None) (o :: old') 0 in
            if ns =? -1 then Ok None
            else subst_loop (S (length t)) t (o :: old') (i - 1) (0 + ns + zlen (o :: old'))
          else Ok (Some 0)).
  replace (1 <? i) with true by (symmetry; apply Z.ltb_lt; lia).
  cbv zeta. rewrite slice_whole. subst t. rewrite (find0_first _ _ _ _ Hq).
  pose proof (zlen_nonneg a) as Ha. pose proof (zlen_nonneg (o :: old')) as Ho.
  replace (zlen a =? -1) with false by (symmetry; apply Z.eqb_neq; lia).
  rewrite loop_shift by lia.
  replace (skipn (Z.to_nat (0 + zlen a + zlen (o :: old'))) (a ++ (o :: old') ++ rest)) with rest.
  2:{ replace (Z.to_nat (0 + zlen a + zlen (o :: old'))) with (length (o :: old') + length a)%nat
        by (unfold zlen; lia).
      rewrite <- skipn_skipn', skipn_first_occ, skipn_app, skipn_all, Nat.sub_diag. reflexivity. }
  rewrite (loop_fuel o old' _ (S (S (length rest)))) by (rewrite ?app_length; cbn [length]; lia).
  destruct (subst_loop (S (S (length rest))) rest (o :: old') (i - 1) 0) as [[st|]|e] eqn:El;
    cbn [shift bind]; try reflexivity.
  (* the loop on the rest ended at st: the slices of t at the shifted start *)
  apply loop_nonneg in El.
  rewrite !slice_to, !slice_from by lia.
  replace (Z.to_nat (0 + zlen a + zlen (o :: old') + st))
    with (length a + (length (o :: old') + Z.to_nat st))%nat by (unfold zlen; lia).
  f_equal.
  rewrite firstn_app_2. rewrite firstn_app_2.
  rewrite <- !app_assoc. do 3 f_equal.
  rewrite Nat.add_comm, <- skipn_skipn', skipn_first_occ.
  rewrite Nat.add_comm, <- skipn_skipn'. rewrite (skipn_app (length (o :: old'))), skipn_all, Nat.sub_diag. reflexivity.
Qed.

Lemma subst_nth_none t o old' new i : 2 <= i -> no_occurrence (o :: old') t ->
  subst_nth t (o :: old') new i = Ok t.
Proof.
  intros Hi H. unfold subst_nth.
  change (subst_loop (S (S (length t))) t (o :: old') i 0)
    with (if 1 <? i then
            let ns := str_find_idx (slice_list t (Some 0) None) (o :: old') 0 in
            if ns =? -1 then Ok None
            else subst_loop (S (length t)) t (o :: old') (i - 1) (0 + ns + zlen (o :: old'))
          else Ok (Some 0)).
  replace (1 <? i) with true by (symmetry; apply Z.ltb_lt; lia).
  cbv zeta. rewrite slice_whole, (find0_none _ _ H). reflexivity.
Qed.

(* SUBSTITUTE(t, old, new, i), i >= 1, non-empty old: exactly the i-th
   occurrence (counted without overlaps, left to right) is replaced *)
Lemma substitute_nth t o old' new i :
  not_code t -> not_code (o :: old') -> not_code new -> 1 <= i ->
  X_substitute [VStr t; VStr (o :: old'); VStr new; VInt i]
    = bind (subst_nth t (o :: old') new i) (fun r => Ok (VStr r))
  /\ (no_occurrence (o :: old') t -> subst_nth t (o :: old') new i = Ok t)
  /\ (forall a rest, t = a ++ (o :: old') ++ rest ->
        (forall q, (q < length a)%nat -> str_prefix (o :: old') (skipn q t) = false) ->
        (i = 1 -> subst_nth t (o :: old') new i = Ok (a ++ new ++ rest))
        /\ (2 <= i -> subst_nth t (o :: old') new i
                      = bind (subst_nth rest (o :: old') new (i - 1))
                             (fun r => Ok (a ++ (o :: old') ++ r)))).
Proof.
  intros H1 H2 H3 Hi. split; [apply substitute_nth_eval; assumption|]. split.
  - intros Hno. destruct (Z.eq_dec i 1) as [->|Hne].
    + rewrite subst_nth_1. f_equal. apply repl_no_occurrence. exact Hno.
    + apply subst_nth_none; [lia|exact Hno].
  - intros a rest -> Hq. split.
    + intros ->. rewrite subst_nth_1. f_equal.
      rewrite (repl_first _ _ _ _ (Some 0%nat)) by (reflexivity || exact Hq).
      rewrite repl_stop by reflexivity. reflexivity.
    + intros Hi2. apply subst_nth_step; assumption.
Qed.

(* ------------------------------- fractional counts and start positions *)
Lemma coerce_num_float q :
  excelutil.f_coerce_to_number py_fuel (VFloat q) (VBool true)
  = Ok (if q_eqb (inject_Z (q_trunc q)) q then VInt (q_trunc q) else VFloat q).
Proof.
  change py_fuel with (S 63). cbn [excelutil.f_coerce_to_number]. py_run.
  replace (excelutil.f_is_number (VFloat q)) with (Ok (VBool true)) by reflexivity.
  py_run. cbn [py_float bind]. unfold py_eq. cbn [as_num num_q].
  destruct (q_eqb (inject_Z (q_trunc q)) q); py_run; reflexivity.
Qed.

Lemma in_codes_float q : py_in (VFloat q) excelutil.c_ERROR_CODES = Ok false.
Proof. reflexivity. Qed.
Lemma is_number_float q : excelutil.f_is_number (VFloat q) = Ok (VBool true).
Proof. reflexivity. Qed.

Lemma find_body_float f w q :
  text.f_find f w (VFloat q) = text.f_find f w (VInt (q_trunc q)).
Proof. reflexivity. Qed.

Lemma find_fraction f w q : not_code f -> not_code w ->
  X_find [VStr f; VStr w; VFloat q] = X_find [VStr f; VStr w; VInt (q_trunc q)].
Proof.
  intros Hf Hw. unfold X_find. wrap_run. rewrite coerce_num_float.
  destruct (q_eqb (inject_Z (q_trunc q)) q); wrap_run;
    rewrite ?in_codes_float, ?is_number_float; wrap_run; reflexivity.
Qed.

Lemma q_ltb_false a b : (b <= a)%Q -> q_ltb a b = false.
Proof.
  intros H. unfold q_ltb. destruct (Qcompare_spec a b) as [E|E|E]; try reflexivity.
  exfalso. apply (Qlt_not_le _ _ E H).
Qed.
Lemma q_ltb_true a b : (a < b)%Q -> q_ltb a b = true.
Proof.
  intros H. unfold q_ltb. destruct (Qcompare_spec a b) as [E|E|E]; try reflexivity; exfalso.
  - rewrite E in H. apply (Qlt_irrefl _ H).
  - apply (Qlt_irrefl a). eapply Qlt_trans; eauto.
Qed.

Lemma q_trunc_unit q : (0 <= q)%Q -> (q < 1)%Q -> q_trunc q = 0.
Proof.
  intros H0 H1. unfold q_trunc. rewrite (q_ltb_false q 0 H0).
  pose proof (Qfloor_le q) as Hl. pose proof (Qlt_floor q) as Hu.
  assert (A : (inject_Z (Qfloor q) < inject_Z 1)%Q) by (eapply Qle_lt_trans; eauto).
  assert (B : (inject_Z 0 < inject_Z (Qfloor q + 1))%Q) by (eapply Qle_lt_trans; eauto).
  rewrite <- Zlt_Qlt in A, B. lia.
Qed.

Lemma right_fraction s q : not_code s -> (0 <= q)%Q -> (q < 1)%Q ->
  X_right [VStr s; VFloat q] = Ok (VStr []).
Proof.
  intros H H0 H1. unfold X_right. wrap_run. rewrite coerce_num_float.
  rewrite (q_trunc_unit q H0 H1).
  destruct (q_eqb (inject_Z 0) q); wrap_run;
    rewrite ?in_codes_float, ?is_number_float; wrap_run.
  - reflexivity.
  - unfold text.f_right. py_run.
    change (inject_Z 0) with 0%Q. change (inject_Z 1) with 1%Q.
    rewrite (q_ltb_false q 0 H0). py_run. rewrite (q_ltb_true q 1 H1). reflexivity.
Qed.

(* ------------------------------------------------- non-vacuity examples *)
Example ex_partition : X_left [VStr [97; 233; 128512; 98]; VInt 2] = Ok (VStr [97; 233])
  /\ X_mid [VStr [97; 233; 128512; 98]; VInt 3; VInt 4] = Ok (VStr [128512; 98]).
Proof. split; vm_compute; reflexivity. Qed.
Example ex_right : X_right [VStr [97; 98; 99]; VInt 2] = Ok (VStr [98; 99])
  /\ X_right [VStr [97; 98; 99]; VInt 7] = Ok (VStr [97; 98; 99])
  /\ X_right [VStr [97; 98; 99]; VFloat (1 # 2)] = Ok (VStr []).
Proof. repeat split; vm_compute; reflexivity. Qed.
Example ex_replace : X_replace [VStr [97; 98; 99; 100]; VInt 2; VInt 2; VStr [88]] = Ok (VStr [97; 88; 100]).
Proof. vm_compute. reflexivity. Qed.
Example ex_find : X_find [VStr [98]; VStr [97; 98; 97; 98]; VInt 3] = Ok (VInt 4)
  /\ X_find [VStr [122]; VStr [97; 98]; VInt 1] = Ok VERR
  /\ X_find [VStr [99]; VStr [97; 98; 99]; VInt 0] = Ok VERR
  /\ X_find [VStr [98]; VStr [97; 98; 97; 98]; VFloat (5 # 2)] = Ok (VInt 2).
Proof. repeat split; vm_compute; reflexivity. Qed.
Example ex_substitute : X_substitute [VStr [97; 97; 97]; VStr [97; 97]; VStr [120]] = Ok (VStr [120; 97])
  /\ X_substitute [VStr [97; 98; 97; 98; 97]; VStr [97]; VStr [120]; VInt 2] = Ok (VStr [97; 98; 120; 98; 97]).
Proof. split; vm_compute; reflexivity. Qed.
Example ex_numbers : X_left [VFloat (inject_Z 3); VInt 5] = Ok (VStr [51])
  /\ X_left [VFloat (inject_Z 12345); VInt 2] = Ok (VStr [49; 50])
  /\ X_right [VBool true; VInt 2] = Ok (VStr [85; 69]).
Proof. repeat split; vm_compute; reflexivity. Qed.
Example ex_trim : X_trim [VStr [32; 97; 32; 32; 32; 98; 32; 32]] = Ok (VStr [97; 32; 98]).
Proof. vm_compute. reflexivity. Qed.
Example ex_upper : X_upper [VStr [97; 233; 128512]] = Ok (VStr [65; 201; 128512]).
Proof. vm_compute. reflexivity. Qed.
Example ex_error_propagates : X_left [VStr [35; 78; 47; 65]; VInt 2] = Ok (VStr [35; 78; 47; 65]).
Proof. vm_compute. reflexivity. Qed.

Lemma repl_equations o old' new cnt :
  (forall s, no_occurrence (o :: old') s -> repl (o :: old') new cnt s = s)
  /\ (forall cnt' a rest, cnt_dec cnt = Some cnt' ->
        (forall q, (q < length a)%nat ->
                   str_prefix (o :: old') (skipn q (a ++ (o :: old') ++ rest)) = false) ->
        repl (o :: old') new cnt (a ++ (o :: old') ++ rest)
        = a ++ new ++ repl (o :: old') new cnt' rest).
Proof.
  split.
  - intros s. apply repl_no_occurrence.
  - intros cnt' a rest Ec H. apply repl_first; assumption.
Qed.
